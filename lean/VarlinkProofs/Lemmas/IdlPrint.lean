/-
  `strip` and the canonical printer: stripping the canonical text of a tree whose names are clean (contain no
  layout byte) gives the concatenation of its tokens.
-/
import Varlink.Idl.Printer
namespace Varlink.Idl
open Varlink

/-- the bytes `strip` treats specially: space, tab, CR, LF, `#` -/
def isLay (c : UInt8) : Bool := c = 32 || c = 9 || c = 13 || c = 10 || c = 35

/-- a token: no layout byte inside -/
def Tok (w : Bytes) : Prop := ∀ c ∈ w, isLay c = false

instance (w : Bytes) : Decidable (Tok w) := by unfold Tok; infer_instance

theorem Tok.nil : Tok [] := fun _ h => by cases h

theorem Tok.cons {c : UInt8} {w : Bytes} (hc : isLay c = false) (hw : Tok w) : Tok (c :: w) := by
  intro x hx
  cases hx with
  | head => exact hc
  | tail _ h => exact hw x h

theorem Tok.append {a b : Bytes} (ha : Tok a) (hb : Tok b) : Tok (a ++ b) := by
  intro x hx
  rcases List.mem_append.mp hx with h | h
  · exact ha x h
  · exact hb x h

theorem stripAux_cons_tok {c : UInt8} (hc : isLay c = false) (r : Bytes) :
    stripAux false (c :: r) = c :: stripAux false r := by
  simp only [isLay, Bool.or_eq_false_iff, decide_eq_false_iff_not] at hc
  obtain ⟨⟨⟨⟨h1, h2⟩, h3⟩, h4⟩, h5⟩ := hc
  simp [stripAux, h1, h2, h3, h4, h5]

theorem stripAux_tok {w : Bytes} (hw : Tok w) (r : Bytes) :
    stripAux false (w ++ r) = w ++ stripAux false r := by
  induction w with
  | nil => rfl
  | cons c w ih =>
    have hc := hw c (List.mem_cons_self)
    rw [List.cons_append, stripAux_cons_tok hc, ih (fun x hx => hw x (List.mem_cons_of_mem _ hx))]
    rfl

theorem stripAux_space (r : Bytes) : stripAux false (32 :: r) = stripAux false r := by simp [stripAux]
theorem stripAux_nl (r : Bytes) : stripAux false (10 :: r) = stripAux false r := by simp [stripAux]

theorem stripAux_sep (sp : Bool) (r : Bytes) : stripAux false (sep sp r) = stripAux false r := by
  cases sp <;> simp [sep, stripAux_space]

theorem tok_lit_interface : Tok tInterface := by decide
theorem tok_lit_type : Tok tType := by decide
theorem tok_lit_method : Tok tMethod := by decide
theorem tok_lit_error : Tok tError := by decide
theorem tok_lit_bool : Tok tBool := by decide
theorem tok_lit_int : Tok tInt := by decide
theorem tok_lit_float : Tok tFloat := by decide
theorem tok_lit_string : Tok tString := by decide
theorem tok_lit_object : Tok tObject := by decide
theorem tok_lit_arrow : Tok tArrow := by decide
theorem tok_lit_array : Tok tArray := by decide
theorem tok_lit_map : Tok tMap := by decide

/- all names in a type are tokens -/
mutual
def Ty.Clean : Ty → Prop
  | .named n => Tok n
  | .maybe t => t.Clean
  | .array t => t.Clean
  | .map t => t.Clean
  | .struct fs => fs.Clean
  | .enum fs => fs.Clean
  | _ => True
def Fields.Clean : Fields → Prop
  | .nil => True
  | .typed n t r => Tok n ∧ t.Clean ∧ r.Clean
  | .bare n r => Tok n ∧ r.Clean
end

def Member.Clean : Member → Prop
  | .alias n _ t => Tok n ∧ t.Clean
  | .method n _ i o => Tok n ∧ i.Clean ∧ o.Clean
  | .error n _ none => Tok n
  | .error n _ (some t) => Tok n ∧ t.Clean

def Idl.Clean (t : Idl) : Prop := Tok t.name ∧ ∀ m ∈ t.members, m.Clean

mutual
theorem strip_printTy : ∀ (t : Ty) (tl : Bytes), t.Clean →
    stripAux false (printTy true t tl) = printTy false t (stripAux false tl)
  | .bool, tl, _ => by simp only [printTy]; exact stripAux_tok tok_lit_bool tl
  | .int, tl, _ => by simp only [printTy]; exact stripAux_tok tok_lit_int tl
  | .float, tl, _ => by simp only [printTy]; exact stripAux_tok tok_lit_float tl
  | .string, tl, _ => by simp only [printTy]; exact stripAux_tok tok_lit_string tl
  | .object, tl, _ => by simp only [printTy]; exact stripAux_tok tok_lit_object tl
  | .named n, tl, h => by simp only [printTy]; exact stripAux_tok h tl
  | .maybe t, tl, h => by
    simp only [printTy]
    rw [stripAux_cons_tok (by decide), strip_printTy t tl h]
  | .array t, tl, h => by
    simp only [printTy]
    rw [stripAux_tok tok_lit_array, strip_printTy t tl h]
  | .map t, tl, h => by
    simp only [printTy]
    rw [stripAux_tok tok_lit_map, strip_printTy t tl h]
  | .struct fs, tl, h => by
    simp only [printTy]
    rw [stripAux_cons_tok (by decide), strip_printFields fs tl h]
  | .enum fs, tl, h => by
    simp only [printTy]
    rw [stripAux_cons_tok (by decide), strip_printFields fs tl h]
theorem strip_printFields : ∀ (fs : Fields) (tl : Bytes), fs.Clean →
    stripAux false (printFields true fs tl) = printFields false fs (stripAux false tl)
  | .nil, tl, _ => by simp only [printFields]; exact stripAux_cons_tok (by decide) tl
  | .typed n t r, tl, h => by
    simp only [printFields]
    rw [stripAux_tok h.1, stripAux_cons_tok (by decide), stripAux_sep, strip_printTy t _ h.2.1,
      strip_printMore r tl h.2.2]
    rfl
  | .bare n r, tl, h => by
    simp only [printFields]
    rw [stripAux_tok h.1, strip_printMore r tl h.2]
theorem strip_printMore : ∀ (fs : Fields) (tl : Bytes), fs.Clean →
    stripAux false (printMore true fs tl) = printMore false fs (stripAux false tl)
  | .nil, tl, _ => by simp only [printMore]; exact stripAux_cons_tok (by decide) tl
  | .typed n t r, tl, h => by
    simp only [printMore]
    rw [stripAux_cons_tok (by decide), stripAux_sep, stripAux_tok h.1, stripAux_cons_tok (by decide),
      stripAux_sep, strip_printTy t _ h.2.1, strip_printMore r tl h.2.2]
    rfl
  | .bare n r, tl, h => by
    simp only [printMore]
    rw [stripAux_cons_tok (by decide), stripAux_sep, stripAux_tok h.1, strip_printMore r tl h.2]
    rfl
end

theorem strip_printMember (m : Member) (tl : Bytes) (h : m.Clean) :
    stripAux false (printMember true m tl) = printMember false m (stripAux false tl) := by
  cases m with
  | alias n d t =>
    simp only [printMember]
    rw [stripAux_tok tok_lit_type, stripAux_sep, stripAux_tok h.1, stripAux_sep, strip_printTy t tl h.2]
    rfl
  | method n d i o =>
    simp only [printMember]
    rw [stripAux_tok tok_lit_method, stripAux_sep, stripAux_tok h.1, strip_printTy i _ h.2.1, stripAux_sep,
      stripAux_tok tok_lit_arrow, stripAux_sep, strip_printTy o tl h.2.2]
    rfl
  | error n d t =>
    cases t with
    | none =>
      simp only [printMember]
      rw [stripAux_tok tok_lit_error, stripAux_sep, stripAux_tok h]
      rfl
    | some t =>
      simp only [printMember]
      rw [stripAux_tok tok_lit_error, stripAux_sep, stripAux_tok h.1, stripAux_sep, strip_printTy t tl h.2]
      rfl

theorem strip_printMembers (ms : List Member) (h : ∀ m ∈ ms, m.Clean) :
    stripAux false (printMembers true ms) = printMembers false ms := by
  induction ms with
  | nil => rfl
  | cons m r ih =>
    simp only [printMembers]
    rw [strip_printMember m _ (h m List.mem_cons_self)]
    simp only [if_true, List.singleton_append, stripAux_nl, Bool.false_eq_true, if_false, List.nil_append]
    rw [ih (fun x hx => h x (List.mem_cons_of_mem _ hx))]

/-- stripping the canonical text gives the token concatenation -/
theorem strip_print (t : Idl) (h : t.Clean) : strip (print t) = toks t := by
  unfold strip print toks
  rw [stripAux_tok tok_lit_interface, stripAux_space, stripAux_tok h.1, stripAux_nl, stripAux_nl,
    strip_printMembers _ h.2]

end Varlink.Idl

namespace Varlink.Idl
open Varlink

theorem sep_append (sp : Bool) (a b : Bytes) : sep sp (a ++ b) = sep sp a ++ b := by
  cases sp <;> simp [sep]

mutual
theorem printTy_append (sp : Bool) : ∀ (t : Ty) (a b : Bytes), printTy sp t (a ++ b) = printTy sp t a ++ b
  | .bool, a, b => by simp [printTy]
  | .int, a, b => by simp [printTy]
  | .float, a, b => by simp [printTy]
  | .string, a, b => by simp [printTy]
  | .object, a, b => by simp [printTy]
  | .named n, a, b => by simp [printTy]
  | .maybe t, a, b => by simp [printTy, printTy_append sp t a b]
  | .array t, a, b => by simp [printTy, printTy_append sp t a b]
  | .map t, a, b => by simp [printTy, printTy_append sp t a b]
  | .struct fs, a, b => by simp [printTy, printFields_append sp fs a b]
  | .enum fs, a, b => by simp [printTy, printFields_append sp fs a b]
theorem printFields_append (sp : Bool) : ∀ (fs : Fields) (a b : Bytes),
    printFields sp fs (a ++ b) = printFields sp fs a ++ b
  | .nil, a, b => by simp [printFields]
  | .typed n t r, a, b => by
    simp [printFields, printMore_append sp r a b, printTy_append sp t _ b, sep_append]
  | .bare n r, a, b => by simp [printFields, printMore_append sp r a b]
theorem printMore_append (sp : Bool) : ∀ (fs : Fields) (a b : Bytes),
    printMore sp fs (a ++ b) = printMore sp fs a ++ b
  | .nil, a, b => by simp [printMore]
  | .typed n t r, a, b => by
    simp [printMore, printMore_append sp r a b, printTy_append sp t _ b, sep_append]
  | .bare n r, a, b => by simp [printMore, printMore_append sp r a b, sep_append]
end

theorem printMember_append (sp : Bool) (m : Member) (a b : Bytes) :
    printMember sp m (a ++ b) = printMember sp m a ++ b := by
  cases m with
  | alias n d t => simp [printMember, printTy_append, sep_append]
  | method n d i o => simp [printMember, printTy_append, sep_append]
  | error n d t => cases t <;> simp [printMember, printTy_append, sep_append]

end Varlink.Idl
