/-
  `methodsOk` for the generator's view: the receivers of the emitted methods are declared struct types, per
  receiver type the method names are distinct, valid, differ from the field names, and no method declared on
  `VarlinkCall` shadows a promoted `varlink.Call` method the file calls (used by VarlinkProofs/Props/C07.lean).
-/
import VarlinkProofs.Lemmas.GenDecls
namespace Varlink.Gen
open Varlink Varlink.Idl

/-! ## the methods of a file as (receiver type, name) pairs -/

def Decl.method? : Decl → Option (Bytes × Bytes)
  | .func g => match g.recv with
    | some r => some (r.ty, g.name)
    | none => none
  | _ => none

def methodPairs (decls : List Decl) : List (Bytes × Bytes) := decls.filterMap Decl.method?

theorem methodsOn_eq (f : GoFile) (ty : Bytes) :
    f.methodsOn ty = ((methodPairs f.decls).filter (fun p => p.1 == ty)).map (·.2) := by
  simp only [GoFile.methodsOn, GoFile.funcs, methodPairs]
  induction f.decls with
  | nil => rfl
  | cons d r ih =>
    cases d with
    | type n t => simp only [List.filterMap_cons, Decl.func?, Decl.method?]; exact ih
    | alias n t => simp only [List.filterMap_cons, Decl.func?, Decl.method?]; exact ih
    | iface n ms => simp only [List.filterMap_cons, Decl.func?, Decl.method?]; exact ih
    | func g =>
      simp only [List.filterMap_cons, Decl.func?, Decl.method?]
      cases hr : g.recv with
      | none => simpa using ih
      | some rc =>
        by_cases e : rc.ty = ty
        · simp [e, ih]
        · simp [e, ih]

theorem receiverTypes_eq (f : GoFile) : f.receiverTypes = (methodPairs f.decls).map (·.1) := by
  simp only [GoFile.receiverTypes, GoFile.funcs, methodPairs]
  induction f.decls with
  | nil => rfl
  | cons d r ih =>
    cases d with
    | type n t => simp only [List.filterMap_cons, Decl.func?, Decl.method?]; exact ih
    | alias n t => simp only [List.filterMap_cons, Decl.func?, Decl.method?]; exact ih
    | iface n ms => simp only [List.filterMap_cons, Decl.func?, Decl.method?]; exact ih
    | func g =>
      simp only [List.filterMap_cons, Decl.func?, Decl.method?]
      cases hr : g.recv with
      | none => simpa using ih
      | some rc => simp [ih]

theorem mem_methodsOn {f : GoFile} {ty m : Bytes} : m ∈ f.methodsOn ty ↔ (ty, m) ∈ methodPairs f.decls := by
  rw [methodsOn_eq]
  simp only [List.mem_map, List.mem_filter, beq_iff_eq]
  constructor
  · rintro ⟨⟨a, b⟩, ⟨hp, rfl⟩, rfl⟩; exact hp
  · intro h; exact ⟨(ty, m), ⟨h, rfl⟩, rfl⟩

/-! ## per member -/

def errorMeth : Member → List (Bytes × Bytes)
  | .error n _ _ => [(n, str "Error")]
  | _ => []
def clientMeth : Member → List (Bytes × Bytes)
  | .method n _ _ _ => [(n ++ str "_methods", str "Call"), (n ++ str "_methods", str "Send"),
      (n ++ str "_methods", str "Upgrade")]
  | _ => []
def errorReplyMeth : Member → List (Bytes × Bytes)
  | .error n _ _ => [(str "VarlinkCall", str "Reply" ++ n)]
  | _ => []
def methodReplyMeth : Member → List (Bytes × Bytes)
  | .method n _ _ _ => [(str "VarlinkCall", str "Reply" ++ n)]
  | _ => []
def dummyMeth : Member → List (Bytes × Bytes)
  | .method n _ _ _ => [(str "VarlinkInterface", n)]
  | _ => []

theorem aliasView_meth (t : Idl) (m : Member) (l : List Decl) (hl : aliasView t m = some l) :
    l.filterMap Decl.method? = [] := by
  cases m with
  | alias n d ty =>
    simp only [aliasView, Option.map_eq_some_iff] at hl
    obtain ⟨g, _, rfl⟩ := hl
    cases resolvesToObject t ty <;> rfl
  | method => simp [aliasView] at hl; subst hl; rfl
  | error => simp [aliasView] at hl; subst hl; rfl

theorem errorView_meth (m : Member) (l : List Decl) (hl : errorView m = some l) :
    l.filterMap Decl.method? = errorMeth m := by
  cases m with
  | alias => simp [errorView] at hl; subst hl; rfl
  | method => simp [errorView] at hl; subst hl; rfl
  | error n d oty =>
    simp only [errorView, Option.map_eq_some_iff] at hl
    obtain ⟨g, _, rfl⟩ := hl
    rfl

theorem methodClientView_meth (iface : Bytes) (m : Member) (l : List Decl)
    (hl : methodClientView iface m = some l) : l.filterMap Decl.method? = clientMeth m := by
  cases m with
  | alias => simp [methodClientView] at hl; subst hl; rfl
  | error => simp [methodClientView] at hl; subst hl; rfl
  | method n d i o =>
    simp only [methodClientView] at hl
    split at hl
    · injection hl with hl; subst hl; rfl
    · exact absurd hl (by simp)

theorem errorReplyView_meth (iface : Bytes) (m : Member) (l : List Decl) (hl : errorReplyView iface m = some l) :
    l.filterMap Decl.method? = errorReplyMeth m := by
  cases m with
  | alias => simp [errorReplyView] at hl; subst hl; rfl
  | method => simp [errorReplyView] at hl; subst hl; rfl
  | error n d oty =>
    simp only [errorReplyView] at hl
    split at hl
    · injection hl with hl; subst hl; rfl
    · exact absurd hl (by simp)

theorem methodReplyView_meth (m : Member) (l : List Decl) (hl : methodReplyView m = some l) :
    l.filterMap Decl.method? = methodReplyMeth m := by
  cases m with
  | alias => simp [methodReplyView] at hl; subst hl; rfl
  | error => simp [methodReplyView] at hl; subst hl; rfl
  | method n d i o =>
    simp only [methodReplyView] at hl
    split at hl
    · split at hl
      · split at hl
        · injection hl with hl; subst hl; rfl
        · exact absurd hl (by simp)
      · injection hl with hl; subst hl; rfl
    · exact absurd hl (by simp)

theorem dummyView_meth (iface : Bytes) (m : Member) (l : List Decl) (hl : dummyView iface m = some l) :
    l.filterMap Decl.method? = dummyMeth m := by
  cases m with
  | alias => simp [dummyView] at hl; subst hl; rfl
  | error => simp [dummyView] at hl; subst hl; rfl
  | method n d i o =>
    simp only [dummyView, Option.map_eq_some_iff] at hl
    obtain ⟨ps, _, rfl⟩ := hl
    rfl

def clientTriple (n : Bytes) : List (Bytes × Bytes) :=
  [(n ++ str "_methods", str "Call"), (n ++ str "_methods", str "Send"), (n ++ str "_methods", str "Upgrade")]

theorem flatten_errorMeth (ms : List Member) :
    (ms.map errorMeth).flatten = ((ms.filter Member.isError).map Member.name).map (fun n => (n, str "Error")) := by
  induction ms with
  | nil => rfl
  | cons m r ih => cases m <;> simp [errorMeth, List.filter, Member.isError, Member.name, ih]

theorem flatten_clientMeth (ms : List Member) :
    (ms.map clientMeth).flatten = ((ms.filter Member.isMethod).map Member.name).flatMap clientTriple := by
  induction ms with
  | nil => rfl
  | cons m r ih => cases m <;> simp [clientMeth, clientTriple, List.filter, Member.isMethod, Member.name, ih]

theorem flatten_errorReplyMeth (ms : List Member) :
    (ms.map errorReplyMeth).flatten
      = ((ms.filter Member.isError).map Member.name).map (fun n => (str "VarlinkCall", str "Reply" ++ n)) := by
  induction ms with
  | nil => rfl
  | cons m r ih => cases m <;> simp [errorReplyMeth, List.filter, Member.isError, Member.name, ih]

theorem flatten_methodReplyMeth (ms : List Member) :
    (ms.map methodReplyMeth).flatten
      = ((ms.filter Member.isMethod).map Member.name).map (fun n => (str "VarlinkCall", str "Reply" ++ n)) := by
  induction ms with
  | nil => rfl
  | cons m r ih => cases m <;> simp [methodReplyMeth, List.filter, Member.isMethod, Member.name, ih]

theorem flatten_dummyMeth (ms : List Member) :
    (ms.map dummyMeth).flatten
      = ((ms.filter Member.isMethod).map Member.name).map (fun n => (str "VarlinkInterface", n)) := by
  induction ms with
  | nil => rfl
  | cons m r ih => cases m <;> simp [dummyMeth, List.filter, Member.isMethod, Member.name, ih]

def fixedMeths : List (Bytes × Bytes) :=
  [(str "VarlinkInterface", str "VarlinkDispatch"), (str "VarlinkInterface", str "VarlinkGetName"),
   (str "VarlinkInterface", str "VarlinkGetDescription")]

/-- **the methods of the emitted file**, in source order -/
theorem methodPairs_genFile (t : Idl) (f : GoFile) (hf : genFile t = some f) :
    methodPairs f.decls = (namesE t).map (fun n => (n, str "Error"))
      ++ (namesM t).flatMap clientTriple
      ++ (namesE t).map (fun n => (str "VarlinkCall", str "Reply" ++ n))
      ++ (namesM t).map (fun n => (str "VarlinkCall", str "Reply" ++ n))
      ++ (namesM t).map (fun n => (str "VarlinkInterface", n))
      ++ fixedMeths := by
  obtain ⟨body, aliases, errors, clients, ifaceMethods, errorReplies, methodReplies, dummies, cases,
    _, e1, e2, e3, _, e5, e6, e7, _, rfl⟩ := genFile_inv hf
  have a1 := (concatOptL_filterMap (aliasView t) Decl.method? (fun _ => []) (aliasView_meth t) _ _ e1).trans
    (by induction t.aliases with | nil => rfl | cons a r ih => simp)
  have a2 := concatOptL_filterMap errorView Decl.method? errorMeth errorView_meth _ _ e2
  have a3 := concatOptL_filterMap (methodClientView t.name) Decl.method? clientMeth (methodClientView_meth _) _ _ e3
  have a5 := concatOptL_filterMap (errorReplyView t.name) Decl.method? errorReplyMeth (errorReplyView_meth _) _ _ e5
  have a6 := concatOptL_filterMap methodReplyView Decl.method? methodReplyMeth methodReplyView_meth _ _ e6
  have a7 := concatOptL_filterMap (dummyView t.name) Decl.method? dummyMeth (dummyView_meth _) _ _ e7
  rw [flatten_errorMeth] at a2
  rw [flatten_clientMeth] at a3
  rw [flatten_errorReplyMeth] at a5
  rw [flatten_methodReplyMeth] at a6
  rw [flatten_dummyMeth] at a7
  simp only [Idl.errors, Idl.methods, List.filter_filter, Bool.and_self] at a2 a3 a5 a6 a7
  simp only [methodPairs, assembleFile, List.filterMap_append, a1, a2, a3, a5, a6, a7, namesE, namesM]
  simp [List.filterMap, Decl.method?, dispatchErrorView, mkFunc, varlinkIfaceRecv, fixedMeths]

/-! ## the pairs are pairwise distinct -/

theorem nodup_map_inj {α β} {f : α → β} : ∀ {l : List α}, (∀ a ∈ l, ∀ b ∈ l, f a = f b → a = b) → l.Nodup →
    (l.map f).Nodup
  | [], _, _ => List.nodup_nil
  | a :: r, hinj, h => by
    rw [List.nodup_cons] at h
    rw [List.map_cons, List.nodup_cons]
    refine ⟨?_, nodup_map_inj (fun x hx y hy => hinj x (by simp [hx]) y (by simp [hy])) h.2⟩
    intro hm
    obtain ⟨b, hb, e⟩ := List.mem_map.mp hm
    have := hinj b (by simp [hb]) a (by simp) e
    exact h.1 (this ▸ hb)

theorem nodup_append' {α} {l1 l2 : List α} (h1 : l1.Nodup) (h2 : l2.Nodup) (hd : ∀ x ∈ l1, x ∉ l2) :
    (l1 ++ l2).Nodup :=
  List.nodup_append.mpr ⟨h1, h2, fun a ha _ hb e => hd a ha (e ▸ hb)⟩

/-- what a `Nodup` list of name groups provides -/
theorem nodup_groups (A E Mm M : List Bytes) (d p c i n : Bytes)
    (hn : (A ++ E ++ [d] ++ (Mm ++ M) ++ [p, c, i, n]).Nodup) :
    E.Nodup ∧ M.Nodup ∧ Mm.Nodup ∧ A.Nodup ∧ (∀ x ∈ E, x ∉ M) ∧ (∀ x ∈ E, x ∉ Mm) ∧ (∀ x ∈ A, x ∉ E)
    ∧ (∀ x ∈ A, x ∉ Mm) ∧ c ∉ A ∧ c ∉ E ∧ c ∉ Mm ∧ i ∉ A ∧ i ∉ E ∧ i ∉ Mm ∧ c ≠ i ∧ p ∉ A ∧ p ∉ E ∧ p ∉ Mm
    ∧ p ∉ M := by
  simp only [List.nodup_append, List.nodup_cons, List.mem_append, List.mem_cons,
    List.not_mem_nil, or_false, ne_eq, List.nodup_nil, not_false_eq_true, and_true, true_and] at hn
  grind

theorem namesMm_eq (t : Idl) : namesMm t = (namesM t).map (· ++ str "_methods") := by
  simp [namesMm, namesM, List.map_map]

theorem nodup_clientPairs : ∀ l : List Bytes, l.Nodup → (l.flatMap clientTriple).Nodup
  | [], _ => by simp
  | n :: r, h => by
    rw [List.nodup_cons] at h
    rw [List.flatMap_cons]
    refine nodup_append' ?_ (nodup_clientPairs r h.2) ?_
    · have h1 : str "Call" ≠ str "Send" := by decide
      have h2 : str "Call" ≠ str "Upgrade" := by decide
      have h3 : str "Send" ≠ str "Upgrade" := by decide
      simp [clientTriple, h1, h2, h3]
    · intro x hx hx2
      obtain ⟨n', hn', hx'⟩ := List.mem_flatMap.mp hx2
      have e1 : x.1 = n ++ str "_methods" := by
        simp only [clientTriple, List.mem_cons, List.not_mem_nil, or_false] at hx
        rcases hx with rfl | rfl | rfl <;> rfl
      have e2 : x.1 = n' ++ str "_methods" := by
        simp only [clientTriple, List.mem_cons, List.not_mem_nil, or_false] at hx'
        rcases hx' with rfl | rfl | rfl <;> rfl
      have := List.append_cancel_right (e1.symm.trans e2)
      exact h.1 (this ▸ hn')

theorem mem_clientPairs {l : List Bytes} {p : Bytes × Bytes} (h : p ∈ l.flatMap clientTriple) :
    p.1 ∈ l.map (· ++ str "_methods") ∧ p.2 ∈ [str "Call", str "Send", str "Upgrade"] := by
  obtain ⟨n, hn, hp⟩ := List.mem_flatMap.mp h
  simp only [clientTriple, List.mem_cons, List.not_mem_nil, or_false] at hp
  rcases hp with rfl | rfl | rfl <;> exact ⟨List.mem_map.mpr ⟨n, hn, rfl⟩, by simp⟩

/-- what the domain says about reserved names -/
structure MethFacts (t : Idl) : Prop where
  names : NameFacts t
  resM : ∀ n ∈ namesM t, n ∉ reservedMethod ∧ n ∉ reservedReply
  resE : ∀ n ∈ namesE t, n ∉ reservedReply

theorem methodPairs_nodup (t : Idl) (f : GoFile) (h : MethFacts t) (hf : genFile t = some f) :
    (methodPairs f.decls).Nodup := by
  rw [methodPairs_genFile t f hf]
  obtain ⟨nE, nM, _, _, dEM, dEMm, _, _, _, cE, cMm, _, iE, iMm, hci, _⟩ :=
    nodup_groups _ _ _ _ _ _ _ _ _ h.names.nodup
  rw [namesMm_eq] at dEMm cMm iMm
  generalize namesE t = E at *
  generalize hMdef : namesM t = M at *
  have hM := h.resM
  rw [hMdef] at hM
  -- the blocks
  have n1 : (E.map (fun n => (n, str "Error"))).Nodup :=
    nodup_map_inj (fun a _ b _ e => by injection e) nE
  have n2 : (M.flatMap clientTriple).Nodup := nodup_clientPairs M nM
  have n3 : (E.map (fun n => (str "VarlinkCall", str "Reply" ++ n))).Nodup :=
    nodup_map_inj (fun a _ b _ e => by injection e with _ e2; exact List.append_cancel_left e2) nE
  have n4 : (M.map (fun n => (str "VarlinkCall", str "Reply" ++ n))).Nodup :=
    nodup_map_inj (fun a _ b _ e => by injection e with _ e2; exact List.append_cancel_left e2) nM
  have n5 : (M.map (fun n => (str "VarlinkInterface", n))).Nodup :=
    nodup_map_inj (fun a _ b _ e => by injection e) nM
  have n6 : fixedMeths.Nodup := by decide
  -- first components
  have f1 : ∀ p ∈ E.map (fun n => (n, str "Error")), p.1 ∈ E := by
    intro p hp; obtain ⟨n, hn, rfl⟩ := List.mem_map.mp hp; exact hn
  have f2 : ∀ p ∈ M.flatMap clientTriple, p.1 ∈ M.map (· ++ str "_methods") := fun p hp => (mem_clientPairs hp).1
  have f3 : ∀ p ∈ E.map (fun n => (str "VarlinkCall", str "Reply" ++ n)), p.1 = str "VarlinkCall" := by
    intro p hp; obtain ⟨n, hn, rfl⟩ := List.mem_map.mp hp; rfl
  have f4 : ∀ p ∈ M.map (fun n => (str "VarlinkCall", str "Reply" ++ n)), p.1 = str "VarlinkCall" := by
    intro p hp; obtain ⟨n, hn, rfl⟩ := List.mem_map.mp hp; rfl
  have f5 : ∀ p ∈ M.map (fun n => (str "VarlinkInterface", n)), p.1 = str "VarlinkInterface" := by
    intro p hp; obtain ⟨n, hn, rfl⟩ := List.mem_map.mp hp; rfl
  have f6 : ∀ p ∈ fixedMeths, p.1 = str "VarlinkInterface" := by decide
  change (E.map (fun n => (n, str "Error")) ++ M.flatMap clientTriple
    ++ E.map (fun n => (str "VarlinkCall", str "Reply" ++ n))
    ++ M.map (fun n => (str "VarlinkCall", str "Reply" ++ n))
    ++ M.map (fun n => (str "VarlinkInterface", n)) ++ fixedMeths).Nodup
  generalize E.map (fun n => (n, str "Error")) = B1 at *
  generalize M.flatMap clientTriple = B2 at *
  have n12 : (B1 ++ B2).Nodup := nodup_append' n1 n2 (fun p h1 h2 => dEMm _ (f1 p h1) (f2 p h2))
  have f12 : ∀ p ∈ B1 ++ B2, p.1 ≠ str "VarlinkCall" ∧ p.1 ≠ str "VarlinkInterface" := by
    intro p hp
    rcases List.mem_append.mp hp with hp | hp
    · exact ⟨fun e => cE (e ▸ f1 p hp), fun e => iE (e ▸ f1 p hp)⟩
    · exact ⟨fun e => cMm (e ▸ f2 p hp), fun e => iMm (e ▸ f2 p hp)⟩
  have n123 : (B1 ++ B2 ++ E.map (fun n => (str "VarlinkCall", str "Reply" ++ n))).Nodup :=
    nodup_append' n12 n3 (fun p h1 h2 => (f12 p h1).1 (f3 p h2))
  have n1234 : (B1 ++ B2 ++ E.map (fun n => (str "VarlinkCall", str "Reply" ++ n))
      ++ M.map (fun n => (str "VarlinkCall", str "Reply" ++ n))).Nodup := by
    refine nodup_append' n123 n4 ?_
    intro p h1 h2
    rcases List.mem_append.mp h1 with h1 | h1
    · exact (f12 p h1).1 (f4 p h2)
    · obtain ⟨a, ha, rfl⟩ := List.mem_map.mp h1
      obtain ⟨b, hb, e⟩ := List.mem_map.mp h2
      injection e with _ e2
      have := List.append_cancel_left e2
      exact dEM a ha (this ▸ hb)
  have f1234 : ∀ p ∈ B1 ++ B2 ++ E.map (fun n => (str "VarlinkCall", str "Reply" ++ n))
      ++ M.map (fun n => (str "VarlinkCall", str "Reply" ++ n)), p.1 ≠ str "VarlinkInterface" := by
    intro p hp
    rcases List.mem_append.mp hp with hp | hp
    · rcases List.mem_append.mp hp with hp | hp
      · exact (f12 p hp).2
      · rw [f3 p hp]; exact hci
    · rw [f4 p hp]; exact hci
  have n12345 := nodup_append' n1234 n5 (fun p h1 h2 => f1234 p h1 (f5 p h2))
  refine nodup_append' n12345 n6 ?_
  intro p h1 h2
  rcases List.mem_append.mp h1 with h1 | h1
  · exact f1234 p h1 (f6 p h2)
  · obtain ⟨a, ha, rfl⟩ := List.mem_map.mp h1
    have hr := (hM a ha).1
    simp only [fixedMeths, List.mem_cons, Prod.mk.injEq, true_and, List.not_mem_nil, or_false] at h2
    apply hr
    simp only [reservedMethod, List.map_cons, List.map_nil, List.mem_cons, List.not_mem_nil, or_false]
    exact h2

theorem distinct_methodsOn (f : GoFile) (ty : Bytes) (h : (methodPairs f.decls).Nodup) :
    distinct (f.methodsOn ty) = true := by
  rw [distinct_iff_nodup, methodsOn_eq]
  refine nodup_map_inj ?_ (List.Nodup.sublist List.filter_sublist h)
  intro a ha b hb e
  have e1 := (List.mem_filter.mp ha).2
  have e2 := (List.mem_filter.mp hb).2
  simp only [beq_iff_eq] at e1 e2
  exact Prod.ext (e1.trans e2.symm) e

/-! ## calls through a value: an over-approximation that ignores the variables -/

mutual
def Stmt.calls : Stmt → List Bytes
  | .strArg _ f _ => [f]
  | .closure _ _ b => Stmt.callsList b
  | .caseBlock _ b => Stmt.callsList b
  | _ => []
def Stmt.callsList : List Stmt → List Bytes
  | [] => []
  | s :: r => s.calls ++ Stmt.callsList r
end

mutual
theorem calledOn_sub (vars : List Bytes) : ∀ (s : Stmt) (x : Bytes), x ∈ s.calledOn vars → x ∈ s.calls
  | .strArg y f l, x, h => by
    simp only [Stmt.calledOn] at h
    split at h <;> simp_all [Stmt.calls]
  | .closure _ _ b, x, h => by
    simp only [Stmt.calledOn] at h
    simpa [Stmt.calls] using calledOnList_sub vars b x h
  | .caseBlock _ b, x, h => by
    simp only [Stmt.calledOn] at h
    simpa [Stmt.calls] using calledOnList_sub vars b x h
  | .var _ _, x, h => by simp [Stmt.calledOn] at h
  | .define _, x, h => by simp [Stmt.calledOn] at h
  | .set _ _, x, h => by simp [Stmt.calledOn] at h
  | .args _ _, x, h => by simp [Stmt.calledOn] at h
  | .use _ _, x, h => by simp [Stmt.calledOn] at h
  | .retString _, x, h => by simp [Stmt.calledOn] at h
theorem calledOnList_sub (vars : List Bytes) : ∀ (l : List Stmt) (x : Bytes), x ∈ Stmt.calledOnList vars l → x ∈ Stmt.callsList l
  | [], x, h => by simp [Stmt.calledOnList] at h
  | s :: r, x, h => by
    simp only [Stmt.calledOnList, List.mem_append] at h
    simp only [Stmt.callsList, List.mem_append]
    rcases h with h | h
    · exact Or.inl (calledOn_sub vars s x h)
    · exact Or.inr (calledOnList_sub vars r x h)
end

mutual
theorem calledOn_nil : ∀ (s : Stmt), s.calledOn [] = []
  | .strArg y f l => by simp [Stmt.calledOn]
  | .closure _ _ b => by simp [Stmt.calledOn, calledOnList_nil b]
  | .caseBlock _ b => by simp [Stmt.calledOn, calledOnList_nil b]
  | .var _ _ => by simp [Stmt.calledOn]
  | .define _ => by simp [Stmt.calledOn]
  | .set _ _ => by simp [Stmt.calledOn]
  | .args _ _ => by simp [Stmt.calledOn]
  | .use _ _ => by simp [Stmt.calledOn]
  | .retString _ => by simp [Stmt.calledOn]
theorem calledOnList_nil : ∀ (l : List Stmt), Stmt.calledOnList [] l = []
  | [] => by simp [Stmt.calledOnList]
  | s :: r => by simp [Stmt.calledOnList, calledOn_nil s, calledOnList_nil r]
end

theorem callsList_append : ∀ (a b : List Stmt), Stmt.callsList (a ++ b) = Stmt.callsList a ++ Stmt.callsList b
  | [], b => by simp [Stmt.callsList]
  | s :: a, b => by simp [Stmt.callsList, callsList_append a b]

theorem callsList_copyIn (d s : Bytes) : ∀ (fs : Fields) (l : List Stmt), copyInStmts d s fs = some l →
    Stmt.callsList l = []
  | .nil, l, h => by simp [copyInStmts] at h; subst h; rfl
  | .bare _ _, l, h => by simp [copyInStmts] at h
  | .typed n t r, l, h => by
    simp only [copyInStmts] at h
    split at h
    · rename_i a b ha hb
      injection h with h; subst h
      simp [Stmt.callsList, Stmt.calls, callsList_copyIn d s r b hb]
    · exact absurd h (by simp)

theorem callsList_copyOut : ∀ (fs : Fields) (l : List Stmt), copyOutStmts fs = some l → Stmt.callsList l = []
  | .nil, l, h => by simp [copyOutStmts] at h; subst h; rfl
  | .bare _ _, l, h => by simp [copyOutStmts] at h
  | .typed n t r, l, h => by
    simp only [copyOutStmts] at h
    split at h
    · rename_i a b ha hb
      injection h with h; subst h
      simp [Stmt.callsList, Stmt.calls, callsList_copyOut r b hb]
    · exact absurd h (by simp)

theorem callsList_fieldUses : ∀ fs : Fields, Stmt.callsList (fieldUses fs) = []
  | .nil => rfl
  | .bare _ r => by simp [fieldUses, Stmt.callsList, Stmt.calls, callsList_fieldUses r]
  | .typed _ _ r => by simp [fieldUses, Stmt.callsList, Stmt.calls, callsList_fieldUses r]

/-- method names of `varlink.Call` (and `fmt`, `*varlink.Connection`) the emitted functions call -/
def safeCalls : List Bytes :=
  [str "Sprintf", str "Send", str "Upgrade", str "ReplyError", str "ReplyMethodNotImplemented"]

/-- every call with a string argument in the body of a function declaration is one of `safeCalls` -/
def DeclSafe (d : Decl) : Prop := ∀ g, d = .func g → ∀ x ∈ Stmt.callsList g.body, x ∈ safeCalls

theorem declSafe_type (n : Bytes) (t : GoTy) : DeclSafe (.type n t) := fun _ e => by injection e
theorem declSafe_alias (n : Bytes) (t : GoTy) : DeclSafe (.alias n t) := fun _ e => by injection e

theorem declSafe_func (r : Option Recv) (n : Bytes) (p rs : GoFields) (b : List Stmt) (e : List Bytes)
    (h : ∀ x ∈ Stmt.callsList b, x ∈ safeCalls) : DeclSafe (.func (mkFunc r n p rs b e)) := by
  intro g hg
  injection hg with hg
  subst hg
  exact h

theorem aliasView_safe (t : Idl) (m : Member) (l : List Decl) (hl : aliasView t m = some l) :
    ∀ d ∈ l, DeclSafe d := by
  cases m with
  | alias n d ty =>
    simp only [aliasView, Option.map_eq_some_iff] at hl
    obtain ⟨g, _, rfl⟩ := hl
    intro d hd
    simp only [List.mem_singleton] at hd
    subst hd
    split
    · exact declSafe_alias _ _
    · exact declSafe_type _ _
  | method => simp [aliasView] at hl; subst hl; simp
  | error => simp [aliasView] at hl; subst hl; simp

theorem errorView_safe (m : Member) (l : List Decl) (hl : errorView m = some l) : ∀ d ∈ l, DeclSafe d := by
  cases m with
  | alias => simp [errorView] at hl; subst hl; simp
  | method => simp [errorView] at hl; subst hl; simp
  | error n d oty =>
    simp only [errorView, Option.map_eq_some_iff] at hl
    obtain ⟨g, _, rfl⟩ := hl
    intro d hd
    simp only [List.mem_cons, List.not_mem_nil, or_false] at hd
    rcases hd with rfl | rfl
    · exact declSafe_type _ _
    · apply declSafe_func
      intro x hx
      split at hx
      · simp [Stmt.callsList, Stmt.calls, callsList_fieldUses] at hx
        simp [safeCalls, hx]
      · simp [Stmt.callsList, Stmt.calls] at hx

theorem callsList_sendPrologue (iface n c : Bytes) (ty : Ty) (l : List Stmt)
    (hl : sendPrologueView iface n c ty = some l) : Stmt.callsList l = [c] := by
  simp only [sendPrologueView] at hl
  split at hl
  · split at hl
    · rename_i t cs ht hcs
      injection hl with hl; subst hl
      simp [Stmt.callsList, Stmt.calls, callsList_append, callsList_copyIn _ _ _ _ hcs]
    · exact absurd hl (by simp)
  · injection hl with hl; subst hl
    simp [Stmt.callsList, Stmt.calls]

theorem callsList_receive (ty : Ty) (l : List Stmt) (hl : receiveView ty = some l) : Stmt.callsList l = [] := by
  simp only [receiveView] at hl
  split at hl
  · simp only [Option.map_eq_some_iff] at hl
    obtain ⟨t, _, rfl⟩ := hl
    simp [Stmt.callsList, Stmt.calls]
  · injection hl with hl; subst hl; rfl

theorem methodClientView_safe (iface : Bytes) (m : Member) (l : List Decl)
    (hl : methodClientView iface m = some l) : ∀ d ∈ l, DeclSafe d := by
  cases m with
  | alias => simp [methodClientView] at hl; subst hl; simp
  | error => simp [methodClientView] at hl; subst hl; simp
  | method n d i o =>
    simp only [methodClientView] at hl
    split at hl
    · rename_i params results resultTys sendPro upPro recv' copies e1 e2 e3 e4 e5 e6 e7
      injection hl with hl; subst hl
      have s4 := callsList_sendPrologue _ _ _ _ _ e4
      have s5 := callsList_sendPrologue _ _ _ _ _ e5
      have s6 := callsList_receive _ _ e6
      have s7 := callsList_copyOut _ _ e7
      intro d hd
      simp only [List.mem_cons, List.not_mem_nil, or_false] at hd
      rcases hd with rfl | rfl | rfl | rfl | rfl
      · exact declSafe_type _ _
      · exact declSafe_func _ _ _ _ _ _ (by simp [Stmt.callsList])
      · exact declSafe_func _ _ _ _ _ _ (by simp [Stmt.callsList, Stmt.calls])
      · exact declSafe_func _ _ _ _ _ _ (by
          simp [Stmt.callsList, Stmt.calls, callsList_append, s4, s6, s7, safeCalls])
      · exact declSafe_func _ _ _ _ _ _ (by
          simp [Stmt.callsList, Stmt.calls, callsList_append, s5, s6, s7, safeCalls])
    · exact absurd hl (by simp)

theorem errorReplyView_safe (iface : Bytes) (m : Member) (l : List Decl)
    (hl : errorReplyView iface m = some l) : ∀ d ∈ l, DeclSafe d := by
  cases m with
  | alias => simp [errorReplyView] at hl; subst hl; simp
  | method => simp [errorReplyView] at hl; subst hl; simp
  | error n d oty =>
    simp only [errorReplyView] at hl
    split at hl
    · rename_i ps c e1 e2
      injection hl with hl; subst hl
      intro d hd
      simp only [List.mem_singleton] at hd
      subst hd
      exact declSafe_func _ _ _ _ _ _ (by
        simp [Stmt.callsList, Stmt.calls, callsList_append, callsList_copyIn _ _ _ _ e2, safeCalls])
    · exact absurd hl (by simp)

theorem methodReplyView_safe (m : Member) (l : List Decl) (hl : methodReplyView m = some l) :
    ∀ d ∈ l, DeclSafe d := by
  cases m with
  | alias => simp [methodReplyView] at hl; subst hl; simp
  | error => simp [methodReplyView] at hl; subst hl; simp
  | method n d i o =>
    simp only [methodReplyView] at hl
    split at hl
    · split at hl
      · split at hl
        · rename_i t c e2 e3
          injection hl with hl; subst hl
          intro d hd
          simp only [List.mem_singleton] at hd
          subst hd
          exact declSafe_func _ _ _ _ _ _ (by
            simp [Stmt.callsList, Stmt.calls, callsList_copyIn _ _ _ _ e3])
        · exact absurd hl (by simp)
      · injection hl with hl; subst hl
        intro d hd
        simp only [List.mem_singleton] at hd
        subst hd
        exact declSafe_func _ _ _ _ _ _ (by simp [Stmt.callsList])
    · exact absurd hl (by simp)

theorem dummyView_safe (iface : Bytes) (m : Member) (l : List Decl) (hl : dummyView iface m = some l) :
    ∀ d ∈ l, DeclSafe d := by
  cases m with
  | alias => simp [dummyView] at hl; subst hl; simp
  | error => simp [dummyView] at hl; subst hl; simp
  | method n d i o =>
    simp only [dummyView, Option.map_eq_some_iff] at hl
    obtain ⟨ps, _, rfl⟩ := hl
    intro d hd
    simp only [List.mem_singleton] at hd
    subst hd
    exact declSafe_func _ _ _ _ _ _ (by simp [Stmt.callsList, Stmt.calls, safeCalls])

theorem dispatchErrorView_safe (iface : Bytes) (errors : List Member) :
    DeclSafe (dispatchErrorView iface errors) := by
  have : ∀ es : List Member, Stmt.callsList ((es.map (dispatchErrorCaseView iface)).flatten) = [] := by
    intro es
    induction es with
    | nil => rfl
    | cons e r ih => cases e <;> simp [dispatchErrorCaseView, Stmt.callsList, Stmt.calls, ih]
  exact declSafe_func _ _ _ _ _ _ (by simp [Stmt.callsList, Stmt.calls, this])

/-! ## names -/

theorem str_Reply : str "Reply" = [82, 101, 112, 108, 121] := by decide

/-- `Reply<n>` is one of the called names only for the reserved `n` -/
theorem reply_safe (n : Bytes) (h : str "Reply" ++ n ∈ safeCalls) : n ∈ reservedReply := by
  simp only [safeCalls, List.mem_cons, List.not_mem_nil, or_false] at h
  rcases h with e | e | e | e | e
  · rw [str_Reply, show str "Sprintf" = [83, 112, 114, 105, 110, 116, 102] by decide] at e; simp at e
  · rw [str_Reply, show str "Send" = [83, 101, 110, 100] by decide] at e; simp at e
  · rw [str_Reply, show str "Upgrade" = [85, 112, 103, 114, 97, 100, 101] by decide] at e; simp at e
  · rw [show str "ReplyError" = str "Reply" ++ str "Error" by decide] at e
    rw [List.append_cancel_left e]; decide
  · rw [show str "ReplyMethodNotImplemented" = str "Reply" ++ str "MethodNotImplemented" by decide] at e
    rw [List.append_cancel_left e]; decide

theorem reply_ne_call (n : Bytes) : str "Reply" ++ n ≠ str "Call" := by
  intro e
  rw [str_Reply, show str "Call" = [67, 97, 108, 108] by decide] at e
  simp at e

theorem validName_reply (n : Bytes) (h : memberNameShape n = true) : validName (str "Reply" ++ n) = true := by
  cases n with
  | nil => simp [memberNameShape] at h
  | cons c r =>
    simp only [memberNameShape, Bool.and_eq_true] at h
    obtain ⟨h1, _, _⟩ := upper_facts c h.1
    rw [str_Reply]
    simp only [validName, Bool.and_eq_true, Bool.not_eq_true', bne_iff_ne, ne_eq, isGoIdent, List.cons_append,
      List.nil_append]
    refine ⟨⟨⟨by decide, ?_⟩, ?_⟩, ?_⟩
    · simp only [List.all_cons, Bool.and_eq_true]
      refine ⟨by decide, by decide, by decide, by decide, by simp [isIdentChar, h1], ?_⟩
      rw [List.all_eq_true] at h ⊢
      intro x hx; exact (alnum_identChar x (h.2 x hx)).1
    · rw [← Bool.not_eq_true]
      intro hk
      obtain ⟨c', r', e, hc'⟩ := keyword_head_lower _ (List.contains_iff_mem.mp hk)
      injection e with e1 _
      rw [← e1] at hc'
      exact absurd hc' (by decide)
    · intro e
      injection e with e1 _
      exact absurd e1 (by decide)

/-! ## struct types of the description do not embed `varlink.Call` -/

theorem goTy_ne_call (t : Ty) (j : Bool) (g : GoTy) (h : goTy t j = some g) :
    g.beq (.qual (str "varlink") (str "Call")) = false := by
  cases t <;> simp only [goTy, Option.map_eq_some_iff, Option.some.injEq] at h
  all_goals first
    | (subst h; simp [GoTy.beq]; try decide)
    | (obtain ⟨a, _, rfl⟩ := h; simp [GoTy.beq])

theorem goFields_ne_call : ∀ (fs : Fields) (j : Bool) (g : GoFields), goFields fs j = some g →
    (g.types.any fun t => t.beq (.qual (str "varlink") (str "Call"))) = false
  | .nil, _, g, h => by simp [goFields] at h; subst h; rfl
  | .bare _ _, _, g, h => by simp [goFields] at h
  | .typed n t r, j, g, h => by
    simp only [goFields] at h
    split at h
    · rename_i a b ha hb
      injection h with h; subst h
      simp [GoFields.types, goTy_ne_call t j a ha, goFields_ne_call r j b hb]
    · exact absurd h (by simp)

/-! ## receivers -/

theorem mem_calledThrough {f : GoFile} {ty x : Bytes} (h : x ∈ f.calledThrough ty) :
    ∃ g, Decl.func g ∈ f.decls ∧ x ∈ Stmt.calledOnList (g.varsOfType ty) g.body := by
  simp only [GoFile.calledThrough, List.mem_flatten, List.mem_map] at h
  obtain ⟨l, ⟨g, hg, rfl⟩, hx⟩ := h
  simp only [GoFile.funcs, List.mem_filterMap] at hg
  obtain ⟨d, hd, e⟩ := hg
  cases d <;> simp [Decl.func?] at e
  subst e
  exact ⟨_, hd, hx⟩

theorem receiverOk_struct (f : GoFile) (ty : Bytes) (gfs : GoFields)
    (hl : lookupType f.decls ty = some (.struct gfs))
    (h1 : distinct (f.methodsOn ty) = true) (h2 : ∀ m ∈ f.methodsOn ty, validName m = true)
    (h3 : ∀ m ∈ f.methodsOn ty, m ∉ gfs.fieldNames)
    (h4 : embedsCall (.struct gfs) = true → ∀ m ∈ f.methodsOn ty, m ∉ f.calledThrough ty) :
    receiverOk f ty = true := by
  simp only [receiverOk, hl, Bool.and_eq_true, List.all_eq_true, Bool.not_eq_true']
  refine ⟨⟨⟨h1, h2⟩, fun m hm => by simpa using h3 m hm⟩, ?_⟩
  split
  · rename_i he
    rw [List.all_eq_true]
    intro m hm
    simpa using h4 he m hm
  · rfl

theorem mem_pairs_cases {E M : List Bytes} {ty m : Bytes}
    (hp : (ty, m) ∈ E.map (fun n => (n, str "Error")) ++ M.flatMap clientTriple
      ++ E.map (fun n => (str "VarlinkCall", str "Reply" ++ n))
      ++ M.map (fun n => (str "VarlinkCall", str "Reply" ++ n))
      ++ M.map (fun n => (str "VarlinkInterface", n)) ++ fixedMeths) :
    (ty ∈ E ∧ m = str "Error")
    ∨ (ty ∈ M.map (· ++ str "_methods") ∧ m ∈ [str "Call", str "Send", str "Upgrade"])
    ∨ (ty = str "VarlinkCall" ∧ ∃ n, (n ∈ E ∨ n ∈ M) ∧ m = str "Reply" ++ n)
    ∨ (ty = str "VarlinkInterface" ∧ (m ∈ M ∨ m ∈ reservedMethod)) := by
  simp only [List.mem_append] at hp
  rcases hp with ((((hp | hp) | hp) | hp) | hp) | hp
  · obtain ⟨n, hn, e⟩ := List.mem_map.mp hp
    injection e with e1 e2
    exact Or.inl ⟨e1 ▸ hn, e2.symm⟩
  · exact Or.inr (Or.inl (mem_clientPairs hp))
  · obtain ⟨n, hn, e⟩ := List.mem_map.mp hp
    injection e with e1 e2
    exact Or.inr (Or.inr (Or.inl ⟨e1.symm, n, Or.inl hn, e2.symm⟩))
  · obtain ⟨n, hn, e⟩ := List.mem_map.mp hp
    injection e with e1 e2
    exact Or.inr (Or.inr (Or.inl ⟨e1.symm, n, Or.inr hn, e2.symm⟩))
  · obtain ⟨n, hn, e⟩ := List.mem_map.mp hp
    injection e with e1 e2
    exact Or.inr (Or.inr (Or.inr ⟨e1.symm, Or.inl (e2 ▸ hn)⟩))
  · simp only [fixedMeths, List.mem_cons, Prod.mk.injEq, List.not_mem_nil, or_false] at hp
    refine Or.inr (Or.inr (Or.inr ⟨by rcases hp with h | h | h <;> exact h.1, Or.inr ?_⟩))
    simp only [reservedMethod, List.map_cons, List.map_nil, List.mem_cons, List.not_mem_nil, or_false]
    rcases hp with h | h | h
    · exact Or.inl h.2
    · exact Or.inr (Or.inl h.2)
    · exact Or.inr (Or.inr h.2)

/-! ## the file -/

/-- the declarations of the assembled file -/
theorem decls_genFile {t : Idl} {f : GoFile} (hf : genFile t = some f) :
    ∃ aliases errors clients ifaceMethods errorReplies methodReplies dummies cases,
      concatOptL (aliasView t) t.aliases = some aliases
      ∧ concatOptL errorView t.errors = some errors
      ∧ concatOptL (methodClientView t.name) t.methods = some clients
      ∧ concatOptL (errorReplyView t.name) t.errors = some errorReplies
      ∧ concatOptL methodReplyView t.methods = some methodReplies
      ∧ concatOptL (dummyView t.name) t.methods = some dummies
      ∧ f.decls = aliases ++ errors ++ [dispatchErrorView t.name t.errors] ++ clients
        ++ [.iface (pkgName t.name ++ str "Interface") ifaceMethods,
            .type (str "VarlinkCall") (.struct (param [] (.qual (str "varlink") (str "Call"))))]
        ++ errorReplies ++ methodReplies ++ dummies
        ++ [.func (mkFunc varlinkIfaceRecv (str "VarlinkDispatch")
              (ctxParam.append ((param (str "call") (.qual (str "varlink") (str "Call"))).append
                (param (str "methodname") (tName "string"))))
              errorResult (cases ++ [.caseBlock none []])),
            .func (mkFunc varlinkIfaceRecv (str "VarlinkGetName") .nil (param [] (tName "string"))
              [.retString t.name]),
            .func (mkFunc varlinkIfaceRecv (str "VarlinkGetDescription") .nil (param [] (tName "string"))
              [.retString (descriptionValue t.description)]),
            .type (str "VarlinkInterface") (.struct (param [] (.name (pkgName t.name ++ str "Interface")))),
            .func (mkFunc none (str "VarlinkNew") (param (str "m") (.name (pkgName t.name ++ str "Interface")))
              (param [] (.ptr (tName "VarlinkInterface"))) [])] := by
  obtain ⟨body, aliases, errors, clients, ifaceMethods, errorReplies, methodReplies, dummies, cases,
    _, e1, e2, e3, _, e5, e6, e7, _, hfeq⟩ := genFile_inv hf
  exact ⟨aliases, errors, clients, ifaceMethods, errorReplies, methodReplies, dummies, cases, e1, e2, e3, e5, e6, e7,
    by rw [hfeq]; rfl⟩

/-- every function of the file either calls only `safeCalls` or has no variable of type `VarlinkCall` -/
theorem funcs_safe (t : Idl) (f : GoFile) (hf : genFile t = some f) (g : Func) (hg : Decl.func g ∈ f.decls) :
    (∀ x ∈ Stmt.callsList g.body, x ∈ safeCalls) ∨ g.varsOfType (str "VarlinkCall") = [] := by
  obtain ⟨aliases, errors, clients, ifaceMethods, errorReplies, methodReplies, dummies, cases,
    e1, e2, e3, e5, e6, e7, hd⟩ := decls_genFile hf
  have a1 := concatOptL_forall (aliasView t) DeclSafe _ _ (fun m _ x hx => aliasView_safe t m x hx) e1
  have a2 := concatOptL_forall errorView DeclSafe _ _ (fun m _ x hx => errorView_safe m x hx) e2
  have a3 := concatOptL_forall (methodClientView t.name) DeclSafe _ _ (fun m _ x hx => methodClientView_safe _ m x hx) e3
  have a5 := concatOptL_forall (errorReplyView t.name) DeclSafe _ _ (fun m _ x hx => errorReplyView_safe _ m x hx) e5
  have a6 := concatOptL_forall methodReplyView DeclSafe _ _ (fun m _ x hx => methodReplyView_safe m x hx) e6
  have a7 := concatOptL_forall (dummyView t.name) DeclSafe _ _ (fun m _ x hx => dummyView_safe _ m x hx) e7
  rw [hd] at hg
  simp only [List.mem_append, List.mem_cons, List.not_mem_nil, or_false, reduceCtorEq] at hg
  rcases hg with ((((((hg | hg) | hg) | hg) | hg) | hg) | hg) | hg
  · exact Or.inl (a1 _ hg g rfl)
  · exact Or.inl (a2 _ hg g rfl)
  · exact Or.inl (dispatchErrorView_safe t.name t.errors g hg.symm)
  · exact Or.inl (a3 _ hg g rfl)
  · exact Or.inl (a5 _ hg g rfl)
  · exact Or.inl (a6 _ hg g rfl)
  · exact Or.inl (a7 _ hg g rfl)
  · rcases hg with hg | hg | hg | hg | hg
    · injection hg with hg; subst hg
      exact Or.inr rfl
    · injection hg with hg; subst hg
      exact Or.inl (by simp [mkFunc, Stmt.callsList, Stmt.calls])
    · injection hg with hg; subst hg
      exact Or.inl (by simp [mkFunc, Stmt.callsList, Stmt.calls])
    · exact hg.elim
    · injection hg with hg; subst hg
      exact Or.inl (by simp [mkFunc, Stmt.callsList])

end Varlink.Gen
