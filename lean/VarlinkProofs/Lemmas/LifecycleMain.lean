/-
  Main lemmas behind the C14/C15 theorems: the shared state after a serving call has returned, the nil return
  after a Shutdown that found the call in Accept, the decision taken at an accept-deadline expiry, and the
  atomicity of the start-up critical sections of Bind / Listen / DoListen.
-/
import VarlinkProofs.Lemmas.LifecycleOrderly
namespace Varlink.Life

theorem cnt_eq_zero_of_forall {α} (p : α → Bool) (l : List α) (h : ∀ (i : Nat) (x : α), l[i]? = some x → p x = false) :
    cnt p l = 0 := by
  induction l with
  | nil => rfl
  | cons y ys ih =>
    rw [cnt_cons, ih (fun i x hx => h (i + 1) x (by simpa using hx)), h 0 y (by simp)]
    simp

/-- with the invariants, a connection that is counted or in a wait group belongs to a call in flight -/
theorem accounted_owner_active {w : World} (hinv : Inv w) {i : Nat} {x : Conn} (hi : w.conns[i]? = some x)
    (hc : inCounter x.phase = true ∨ inWg x.phase = true) :
    ∃ co, w.calls[x.owner]? = some co ∧ co.active = true ∧ (x.phase = .counted → co.pc = .counted) ∧
      (inWg x.phase = true → co.wg ≠ 0) := by
  by_cases hw : inWg x.phase = true
  · obtain ⟨co, hco, hne⟩ := hinv.owner_wg_pos hi hw
    refine ⟨co, hco, ?_, ?_, fun _ => hne⟩
    · cases hq : co.pc.quiet with
      | true => exact absurd (hinv.wgZero _ co hco hq) hne
      | false =>
        cases hp : co.pc <;> simp [hp, Pc.quiet] at hq <;> simp [Call.active, hp]
    · intro hp; rw [hp] at hw; simp [inWg] at hw
  · have hcnt : x.phase = .counted := by
      rcases hc with hc | hc
      · cases hp : x.phase <;> simp [hp, inCounter, inWg] at hc hw ⊢
      · exact absurd hc hw
    obtain ⟨co, hco, hpc, _⟩ := (hinv.linkRev i x hi).2 hcnt
    exact ⟨co, hco, by simp [Call.active, hpc], fun _ => hpc, fun h => absurd h hw⟩

/-- **reusable** -/
theorem reusable_core {w w' : World} (h : OReach w) {k : Nat} {c : Call} (hk : w.calls[k]? = some c)
    (hpc : c.pc = .waiting) (hs : step w (.call k) = some w') :
    w'.running = false ∧ w'.lst = none ∧ w'.addrF = none ∧ w'.counter = 0 ∧ w'.wgPanic = false ∧ Idle w' := by
  obtain ⟨hinv, _, _, hone, hafter⟩ := oreach_invs h
  obtain ⟨a1, a2, a3⟩ := hafter k c hk hpc
  have hact : c.active = true := by simp [Call.active, hpc]
  simp only [step, stepCall, hk, hpc] at hs
  split at hs
  · rename_i hwg
    simp only [Option.some.injEq] at hs; subst hs
    refine ⟨a2, a1, a3, ?_, hinv.noPanic, ?_⟩
    · show w.counter = 0
      rw [hinv.counterOk]
      apply cnt_eq_zero_of_forall
      intro i x hi
      cases hcx : cntd x with
      | false => rfl
      | true =>
        exfalso
        obtain ⟨co, hco, hca, hcp, hcw⟩ := accounted_owner_active hinv hi (Or.inl hcx)
        have hok : x.owner = k := hone _ _ _ _ hco hk hca hact
        rw [hok, hk] at hco; simp only [Option.some.injEq] at hco; subst hco
        cases hp : x.phase <;> simp [cntd, hp, inCounter] at hcx
        · have := hcp hp; rw [hpc] at this; cases this
        all_goals exact hcw (by simp [hp, inWg]) hwg
    · intro j cj hj
      simp only [setCall_calls] at hj
      rw [List.getElem?_set] at hj
      by_cases hkj : k = j
      · subst hkj
        simp only [lt_of_getElem? hk, if_true, Option.some.injEq] at hj
        subst hj; simp [Call.active]
      · simp only [hkj, if_false] at hj
        cases hcj : cj.active with
        | false => rfl
        | true => exact absurd (hone _ _ _ _ hj hk hcj hact) (fun e => hkj e.symm)
  · cases hs

/-- `running` becomes true only in the start-up critical section of a serving call -/
theorem running_step {w w' : World} {a : Label} (h : Rel w a w') (hr : w'.running = true) :
    w.running = true ∨ ∃ j cj, a = .call j ∧ w.calls[j]? = some cj ∧ w.running = false ∧
      ((cj.pc = .bindCheck ∧ cj.kind ≠ .bind) ∨ cj.pc = .readLst) := by
  cases h
  case listenOk k c a hk hpc hr' ha hu hkd => exact Or.inr ⟨k, c, rfl, hk, hr', Or.inl ⟨hpc, hkd⟩⟩
  case readSome k c l hk hpc hl =>
    cases hrw : w.running with
    | true => exact Or.inl rfl
    | false => exact Or.inr ⟨k, c, rfl, hk, rfl, Or.inr hpc⟩
  case teardown => simp at hr
  case shutdown => simp at hr
  all_goals exact Or.inl (by simpa using hr)

/-- call `k` will return nil, or has done so -/
def NilOutcome (w : World) (k l : Nat) : Prop :=
  ∃ c, w.calls[k]? = some c ∧ c.l = some l ∧
    (((c.pc = .inAccept ∨ c.pc = .errOther) ∧ c.ret = none ∧ w.running = false) ∨
     ((c.pc = .teardown ∨ c.pc = .waiting ∨ c.pc = .returned) ∧ c.ret = some .nil))

theorem oreach_shutdown {w : World} (h : OReach w) : OReach (stepShutdown w) :=
  Reach.step (a := .shutdown) h trivial rfl

/-- the Shutdown may be issued in ANY reachable state; only the continuation is `Serial` (no serving call is started
    while call `k` is still in flight) -/
theorem nil_after_shutdown_in_accept {w w2 : World} (h : Reachable w) {k : Nat} {c : Call}
    (hk : w.calls[k]? = some c) (hpc : c.pc = .inAccept) (h2 : Reach Serial (stepShutdown w) w2) :
    ∃ l, NilOutcome w2 k l ∧ Closed w2 l := by
  obtain ⟨l, hl, hcl⟩ := loop_listener_closed_by_shutdown h hk (by simp [hpc, loopPc])
  have hret : c.ret = none := (srv_reachable h k c hk).ret_none (by simp [hpc, loopPc])
  refine ⟨l, ?_⟩
  refine Reach.induct (fun w2 => NilOutcome w2 k l ∧ Closed w2 l) ⟨?_, hcl⟩ ?_ h2
  · exact ⟨c, by simpa using hk, hl, Or.inl ⟨Or.inl hpc, hret, by simp⟩⟩
  · intro wa a wb hra ⟨⟨ca, hka, hla, hout⟩, hca⟩ hord hs
    have hcb := closed_step hs hca
    refine ⟨?_, hcb⟩
    by_cases ha : a = .call k
    · subst ha
      simp only [step, stepCall, hka] at hs
      rcases hout with ⟨hp | hp, hr, hrun⟩ | ⟨hp | hp | hp, hr⟩
      · simp only [hp, hla, isOpen_false_of_closed hca] at hs
        simp only [Bool.false_eq_true, if_false, Option.some.injEq] at hs; subst hs
        exact ⟨_, setCall_get hka, rfl, Or.inl ⟨Or.inr rfl, hr, hrun⟩⟩
      · simp only [hp, hrun] at hs
        simp only [Bool.false_eq_true, if_false, Option.some.injEq] at hs; subst hs
        exact ⟨_, setCall_get hka, hla, Or.inr ⟨Or.inl rfl, rfl⟩⟩
      · simp only [hp, Option.some.injEq] at hs; subst hs
        exact ⟨_, setCall_get (w := teardownShared wa) (c := ca) (by rw [teardownShared_calls]; exact hka), hla,
          Or.inr ⟨Or.inr (Or.inl rfl), hr⟩⟩
      · simp only [hp] at hs
        split at hs
        · simp only [Option.some.injEq] at hs; subst hs
          exact ⟨_, setCall_get hka, hla, Or.inr ⟨Or.inr (Or.inr rfl), hr⟩⟩
        · cases hs
      · simp [hp] at hs
    · by_cases ha2 : a = .expire k
      · subst ha2
        rw [no_expiry_on_closed hka hla hca] at hs; cases hs
      · have hrel := rel_of_step hs
        obtain ⟨cb, hkb, hsame⟩ := other_step hrel hka ha ha2
        refine ⟨cb, hkb, by rw [hsame.2.1]; exact hla, ?_⟩
        rw [hsame.1, hsame.2.2.1]
        rcases hout with ⟨hp, hr, hrun⟩ | hdone
        · left
          refine ⟨hp, hr, ?_⟩
          cases hrb : wb.running with
          | false => rfl
          | true =>
            exfalso
            rcases running_step hrel hrb with h' | ⟨j, cj, rfl, hj, _, hpj⟩
            · rw [hrun] at h'; cases h'
            · have hactk : ca.active = true := by rcases hp with e | e <;> simp [Call.active, e]
              have hjk : k ≠ j := fun e => ha (by rw [e])
              have hoi : OthersIdle wa j := by
                rcases hpj with ⟨hb, hkd⟩ | hb
                · rcases (hord cj hj).1 hb hkd with h1 | h1
                  · rw [hrun] at h1; cases h1
                  · exact h1
                · exact (hord cj hj).2 hb
              rw [hoi k ca hka hjk] at hactk; cases hactk
        · exact Or.inr hdone

/-! ### the idle timeout -/

/-- an own step never produces the `errTimeout` program counter (only the expiry label does) and it sets the
    timeout return value only in the branch that found the counter at zero -/
theorem own_step_timeout_facts {w w' : World} {k : Nat} {c c' : Call} (hs : step w (.call k) = some w')
    (hk : w.calls[k]? = some c) (hk' : w'.calls[k]? = some c') :
    c'.pc ≠ .errTimeout ∧
    (c'.ret = some .timeout → c.ret ≠ some .timeout → c.pc = .errTimeout ∧ w.counter = 0 ∧ c'.pc = .teardown) := by
  have key : ∀ (X : World) (d : Call), w' = X.setCall k d → X.calls = w.calls → c' = d := by
    intro X d hw hX
    rw [hw, setCall_calls, hX, getElem?_set_eq' hk] at hk'
    simp only [Option.some.injEq] at hk'; exact hk'.symm
  simp only [step, stepCall, hk] at hs
  cases hpc : c.pc <;> simp only [hpc] at hs
  case bindCheck =>
    split at hs
    · simp only [Option.some.injEq] at hs; have := key _ _ hs.symm rfl; subst this; simp
    · cases ha : c.addr with
      | none => simp only [ha, Option.some.injEq] at hs; have := key _ _ hs.symm rfl; subst this; simp
      | some a =>
        simp only [ha] at hs
        split at hs
        · simp only [Option.some.injEq] at hs; have := key _ _ hs.symm rfl; subst this; simp
        · cases hkd : c.kind <;> simp only [hkd, Option.some.injEq] at hs <;>
            (have := key _ _ hs.symm rfl; subst this; simp)
  case readLst =>
    cases hl : w.lst <;> simp only [hl, Option.some.injEq] at hs <;>
      (have := key _ _ hs.symm rfl; subst this; simp)
  case loopCheck =>
    split at hs <;> (simp only [Option.some.injEq] at hs; have := key _ _ hs.symm rfl; subst this)
    · cases c.tmo <;> simp
    · simp
  case refresh =>
    cases hl : w.lst with
    | none => simp only [hl, Option.some.injEq] at hs; have := key _ _ hs.symm rfl; subst this; simp
    | some f =>
      simp only [hl] at hs
      split at hs <;> (simp only [Option.some.injEq] at hs; have := key _ _ hs.symm rfl; subst this; simp)
  case inAccept =>
    cases hl : c.l with
    | none => simp only [hl, Option.some.injEq] at hs; have := key _ _ hs.symm rfl; subst this; simp
    | some l =>
      simp only [hl] at hs
      split at hs
      · cases hf : firstIdx (waitsOn l) w.conns with
        | none => simp [hf] at hs
        | some i =>
          simp only [hf, Option.some.injEq] at hs; have := key _ _ hs.symm rfl; subst this; simp
      · simp only [Option.some.injEq] at hs; have := key _ _ hs.symm rfl; subst this; simp
  case gotConn => simp only [Option.some.injEq] at hs; have := key _ _ hs.symm rfl; subst this; simp
  case counted => simp only [Option.some.injEq] at hs; have := key _ _ hs.symm rfl; subst this; simp
  case errTimeout =>
    split at hs <;> (simp only [Option.some.injEq] at hs; have := key _ _ hs.symm rfl; subst this)
    · rename_i h0; simp [h0]
    · simp
  case errOther =>
    split at hs <;> (simp only [Option.some.injEq] at hs; have := key _ _ hs.symm rfl; subst this; simp)
  case teardown =>
    simp only [Option.some.injEq] at hs
    have := key _ _ hs.symm (teardownShared_calls w); subst this; simp
  case waiting =>
    split at hs
    · simp only [Option.some.injEq] at hs; have := key _ _ hs.symm rfl; subst this; simp
    · cases hs
  case returned => cases hs

/-- `pc = errTimeout` always comes with "the last Accept ended by expiry" -/
def AccInv (w : World) : Prop := ∀ (k : Nat) (c : Call), w.calls[k]? = some c → c.pc = .errTimeout → c.lastAcc = .timeout

theorem accInv_step {w w' : World} {a : Label} (h : AccInv w) (hs : step w a = some w') : AccInv w' := by
  intro k c' hk' hpc'
  cases hk : w.calls[k]? with
  | none =>
    -- a call that did not exist: just spawned, at its first program counter
    have hrel := rel_of_step hs
    rcases calls_shape hrel with he | ⟨j, cj, _, he⟩ | ⟨j, c0, cj, _, he, _⟩ | ⟨c0, he⟩
    · rw [he, hk] at hk'; cases hk'
    · rw [he] at hk'
      have := lt_of_getElem? hk'; simp at this
      have : w.calls[k]? = some w.calls[k] := by simp [this]
      rw [hk] at this; cases this
    · rw [he] at hk'
      have := lt_of_getElem? hk'; simp at this
      have : w.calls[k]? = some w.calls[k] := by simp [this]
      rw [hk] at this; cases this
    · cases hrel
      all_goals first
        | (simp only [] at hk'
           have hge : w.calls.length ≤ k := by
             rcases Nat.lt_or_ge k w.calls.length with h' | h'
             · simp [h'] at hk
             · exact h'
           rw [List.getElem?_append_right hge] at hk'
           cases hh : k - w.calls.length with
           | zero =>
             simp only [hh, List.getElem?_cons_zero, Option.some.injEq] at hk'
             subst hk'; rename_i kind _ _; cases kind <;> simp [firstPc] at hpc'
           | succ n => simp [hh] at hk')
        | (exfalso
           have := congrArg List.length he
           simp [World.setCall, World.setConn, takeConn, World.setPhase, setDeadlineL] at this)
  | some c =>
    by_cases ha : a = .call k
    · subst ha
      exact absurd hpc' (own_step_timeout_facts hs hk hk').1
    · by_cases ha2 : a = .expire k
      · subst ha2
        simp only [step, stepExpire, hk] at hs
        split at hs
        · split at hs
          · simp only [Option.some.injEq] at hs; subst hs
            rw [setCall_get hk] at hk'; simp only [Option.some.injEq] at hk'; subst hk'; rfl
          · cases hs
        · cases hs
      · obtain ⟨c1, hk1, hsame⟩ := other_step (rel_of_step hs) hk ha ha2
        rw [hk'] at hk1; simp only [Option.some.injEq] at hk1; subst hk1
        rw [hsame.2.2.2.2.2.1]
        exact h k c hk (by rw [← hsame.1]; exact hpc')

theorem accInv_reach {P : World → Label → Prop} {w : World} (h : Reach P init w) : AccInv w :=
  Reach.induct AccInv (fun k c hk => by simp [init] at hk) (fun _ _ _ _ hi _ hs => accInv_step hi hs) h

/-! ### the start-up critical sections are single steps -/

theorem bind_atomic_core {w w' : World} {k : Nat} {c : Call} (hk : w.calls[k]? = some c) (hpc : c.pc = .bindCheck)
    (hs : step w (.call k) = some w') :
    ∃ c', w'.calls[k]? = some c' ∧ c'.kind = c.kind ∧
      ((w.running = true ∧ c'.pc = .returned ∧ c'.ret = some .errRunning ∧
          w'.running = w.running ∧ w'.lst = w.lst ∧ w'.lsnrs = w.lsnrs ∧ w'.addrF = w.addrF) ∨
       (w.running = false ∧ c'.pc = .returned ∧ (c'.ret = some .errParse ∨ c'.ret = some .errListen) ∧
          w'.running = false ∧ w'.lst = w.lst ∧ w'.lsnrs = w.lsnrs) ∨
       (w.running = false ∧ c.kind = .bind ∧ c'.pc = .returned ∧ c'.ret = some .nil ∧
          w'.running = false ∧ w'.lst = some w.lsnrs.length ∧ c'.l = w'.lst ∧ isOpen w' w.lsnrs.length = true) ∨
       (w.running = false ∧ c.kind ≠ .bind ∧ c'.pc = .loopCheck ∧ c'.ret = c.ret ∧
          w'.running = true ∧ w'.lst = some w.lsnrs.length ∧ c'.l = w'.lst ∧ isOpen w' w.lsnrs.length = true)) := by
  simp only [step, stepCall, hk, hpc] at hs
  split at hs
  · rename_i hr
    simp only [Option.some.injEq] at hs; subst hs
    exact ⟨_, setCall_get hk, rfl, Or.inl ⟨hr, rfl, rfl, rfl, rfl, rfl, rfl⟩⟩
  · rename_i hr
    have hr' : w.running = false := by simpa using hr
    cases ha : c.addr with
    | none =>
      simp only [ha, Option.some.injEq] at hs; subst hs
      exact ⟨_, setCall_get hk, rfl, Or.inr (Or.inl ⟨hr', rfl, Or.inl rfl, hr', rfl, rfl⟩)⟩
    | some a =>
      simp only [ha] at hs
      split at hs
      · simp only [Option.some.injEq] at hs; subst hs
        exact ⟨_, setCall_get (w := { w with addrF := some a }) hk, rfl,
          Or.inr (Or.inl ⟨hr', rfl, Or.inr rfl, hr', rfl, rfl⟩)⟩
      · have hop : ∀ X : World, X.lsnrs = w.lsnrs ++ [{ addr := a }] → isOpen X w.lsnrs.length = true := by
          intro X hX; simp [isOpen, hX]
        cases hkd : c.kind <;> simp only [hkd, Option.some.injEq] at hs <;> subst hs
        · exact ⟨_, setCall_get (w := { bound w a with running := true }) hk, rfl,
            Or.inr (Or.inr (Or.inr ⟨hr', by simp, rfl, rfl, rfl, rfl, rfl, hop _ rfl⟩))⟩
        · exact ⟨_, setCall_get (w := { bound w a with running := true }) hk, rfl,
            Or.inr (Or.inr (Or.inr ⟨hr', by simp, rfl, rfl, rfl, rfl, rfl, hop _ rfl⟩))⟩
        · exact ⟨_, setCall_get (w := bound w a) hk, rfl,
            Or.inr (Or.inr (Or.inl ⟨hr', rfl, rfl, rfl, hr', rfl, rfl, hop _ rfl⟩))⟩

theorem dolisten_atomic_core {w w' : World} {k : Nat} {c : Call} (hk : w.calls[k]? = some c) (hpc : c.pc = .readLst)
    (hs : step w (.call k) = some w') :
    ∃ c', w'.calls[k]? = some c' ∧ c'.kind = c.kind ∧ w'.lst = w.lst ∧ w'.lsnrs = w.lsnrs ∧ w'.addrF = w.addrF ∧
      ((w.lst = none ∧ c'.pc = .teardown ∧ c'.ret = some .errNoListener ∧ w'.running = w.running) ∨
       (∃ l, w.lst = some l ∧ c'.pc = .loopCheck ∧ c'.ret = c.ret ∧ c'.l = w'.lst ∧ w'.running = true)) := by
  simp only [step, stepCall, hk, hpc] at hs
  cases hl : w.lst with
  | none =>
    simp only [hl, Option.some.injEq] at hs; subst hs
    exact ⟨_, setCall_get hk, rfl, hl, rfl, rfl, Or.inl ⟨rfl, rfl, rfl, rfl⟩⟩
  | some l =>
    simp only [hl, Option.some.injEq] at hs; subst hs
    exact ⟨_, setCall_get (w := { w with running := true }) hk, rfl, rfl, rfl, rfl, Or.inr ⟨l, rfl, rfl, rfl, rfl, rfl⟩⟩

/-- a serving call in its loop on an OPEN listener serves the stored listener of a running service -/
theorem serving_open_is_stored {w : World} (h : Reachable w) {k : Nat} {c : Call} (hk : w.calls[k]? = some c)
    (hp : loopPc c.pc = true) {l : Nat} (hl : c.l = some l) (ho : isOpen w l = true) :
    w.lst = some l ∧ w.running = true := by
  obtain ⟨l', hl', hsv⟩ := loop_listener h hk hp
  rw [hl] at hl'; simp only [Option.some.injEq] at hl'; subst hl'
  rcases hsv with hc | hs
  · rw [isOpen_false_of_closed hc] at ho; cases ho
  · exact hs

end Varlink.Life
