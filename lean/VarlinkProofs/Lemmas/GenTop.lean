/-
  `topLevelOk` for the generator's view: the names the emitted file declares at package level are valid, pairwise
  distinct and distinct from the imported package names when no member carries a reserved name
  (used by VarlinkProofs/Props/C07.lean).
-/
import VarlinkProofs.Lemmas.GenTyped
namespace Varlink.Gen
open Varlink Varlink.Idl

/-! ## top-level names of the emitted file -/

/-- the names a member contributes to the file scope, in source order of its section -/
def aliasTop : Member → List Bytes
  | .alias n _ _ => [n]
  | _ => []
def errorTop : Member → List Bytes
  | .error n _ _ => [n]
  | _ => []
def methodTop : Member → List Bytes
  | .method n _ _ _ => [n ++ str "_methods", n]
  | _ => []

theorem concatOptL_filterMap {α β γ} (f : α → Option (List β)) (g : β → Option γ) (h : α → List γ)
    (hf : ∀ a x, f a = some x → x.filterMap g = h a) :
    ∀ (l : List α) (r : List β), concatOptL f l = some r → r.filterMap g = (l.map h).flatten
  | [], r, e => by simp [concatOptL] at e; subst e; rfl
  | a :: l, r, e => by
    simp only [concatOptL] at e
    split at e
    · rename_i x y hx hy
      injection e with e; subst e
      simp [List.filterMap_append, hf a x hx, concatOptL_filterMap f g h hf l y hy]
    · exact absurd e (by simp)

theorem aliasView_top (t : Idl) (m : Member) (l : List Decl) (hl : aliasView t m = some l) :
    l.filterMap Decl.topName? = aliasTop m := by
  cases m with
  | alias n d ty =>
    simp only [aliasView, Option.map_eq_some_iff] at hl
    obtain ⟨g, _, rfl⟩ := hl
    cases resolvesToObject t ty <;> rfl
  | method => simp [aliasView] at hl; subst hl; rfl
  | error => simp [aliasView] at hl; subst hl; rfl

theorem errorView_top (m : Member) (l : List Decl) (hl : errorView m = some l) :
    l.filterMap Decl.topName? = errorTop m := by
  cases m with
  | alias => simp [errorView] at hl; subst hl; rfl
  | method => simp [errorView] at hl; subst hl; rfl
  | error n d oty =>
    simp only [errorView, Option.map_eq_some_iff] at hl
    obtain ⟨g, _, rfl⟩ := hl
    rfl

theorem methodClientView_top (iface : Bytes) (m : Member) (l : List Decl) (hl : methodClientView iface m = some l) :
    l.filterMap Decl.topName? = methodTop m := by
  cases m with
  | alias => simp [methodClientView] at hl; subst hl; rfl
  | error => simp [methodClientView] at hl; subst hl; rfl
  | method n d i o =>
    simp only [methodClientView] at hl
    split at hl
    · injection hl with hl; subst hl; rfl
    · exact absurd hl (by simp)

theorem errorReplyView_top (iface : Bytes) (m : Member) (l : List Decl) (hl : errorReplyView iface m = some l) :
    l.filterMap Decl.topName? = [] := by
  cases m with
  | alias => simp [errorReplyView] at hl; subst hl; rfl
  | method => simp [errorReplyView] at hl; subst hl; rfl
  | error n d oty =>
    simp only [errorReplyView] at hl
    split at hl
    · injection hl with hl; subst hl; rfl
    · exact absurd hl (by simp)

theorem methodReplyView_top (m : Member) (l : List Decl) (hl : methodReplyView m = some l) :
    l.filterMap Decl.topName? = [] := by
  cases m with
  | alias => simp [methodReplyView] at hl; subst hl; rfl
  | error => simp [methodReplyView] at hl; subst hl; rfl
  | method n d i o =>
    simp only [methodReplyView] at hl
    split at hl
    · split at hl
      · split at hl
        · injection hl with hl; subst hl; rfl
        · exact absurd hl (by simp)
      · injection hl with hl; subst hl; rfl
    · exact absurd hl (by simp)

theorem dummyView_top (iface : Bytes) (m : Member) (l : List Decl) (hl : dummyView iface m = some l) :
    l.filterMap Decl.topName? = [] := by
  cases m with
  | alias => simp [dummyView] at hl; subst hl; rfl
  | error => simp [dummyView] at hl; subst hl; rfl
  | method n d i o =>
    simp only [dummyView, Option.map_eq_some_iff] at hl
    obtain ⟨ps, _, rfl⟩ := hl
    rfl

/-- **the top-level names of the emitted file**, in source order -/
theorem topNames_genFile (t : Idl) (f : GoFile) (hf : genFile t = some f) :
    f.topNames = (t.aliases.map aliasTop).flatten ++ (t.errors.map errorTop).flatten ++ [str "Dispatch_Error"]
      ++ (t.methods.map methodTop).flatten
      ++ [pkgName t.name ++ str "Interface", str "VarlinkCall", str "VarlinkInterface", str "VarlinkNew"] := by
  obtain ⟨body, aliases, errors, clients, ifaceMethods, errorReplies, methodReplies, dummies, cases,
    _, e1, e2, e3, _, e5, e6, e7, _, rfl⟩ := genFile_inv hf
  have a1 := concatOptL_filterMap (aliasView t) Decl.topName? aliasTop (aliasView_top t) _ _ e1
  have a2 := concatOptL_filterMap errorView Decl.topName? errorTop errorView_top _ _ e2
  have a3 := concatOptL_filterMap (methodClientView t.name) Decl.topName? methodTop (methodClientView_top _) _ _ e3
  have a5 := concatOptL_filterMap (errorReplyView t.name) Decl.topName? (fun _ => []) (errorReplyView_top _) _ _ e5
  have a6 := concatOptL_filterMap methodReplyView Decl.topName? (fun _ => []) methodReplyView_top _ _ e6
  have a7 := concatOptL_filterMap (dummyView t.name) Decl.topName? (fun _ => []) (dummyView_top _) _ _ e7
  have z : ∀ l : List Member, ((l.map fun _ => ([] : List Bytes)).flatten) = [] := by
    intro l; induction l with
    | nil => rfl
    | cons a r ih => simp [ih]
  simp only [GoFile.topNames, assembleFile, List.filterMap_append, a1, a2, a3, a5, a6, a7, z]
  simp [Decl.topName?, dispatchErrorView, mkFunc, varlinkIfaceRecv]


/-! ## shapes of the top-level names -/

def hasUpper (s : Bytes) : Bool := s.any isUpper
def hasUnderscore (s : Bytes) : Bool := s.contains underscore

theorem member_shape_facts (n : Bytes) (h : memberNameShape n = true) :
    hasUnderscore n = false ∧ (∃ c r, n = c :: r ∧ isUpper c = true) := by
  cases n with
  | nil => simp [memberNameShape] at h
  | cons c r =>
    simp only [memberNameShape, Bool.and_eq_true] at h
    refine ⟨?_, c, r, rfl, h.1⟩
    have hc := (upper_facts c h.1).2.2
    simp only [hasUnderscore, List.contains_cons, Bool.or_eq_false_iff, beq_eq_false_iff_ne, ne_eq]
    refine ⟨fun e => hc e.symm, ?_⟩
    rw [← Bool.not_eq_true]
    intro hm
    have hm' := List.contains_iff_mem.mp hm
    have := (alnum_identChar underscore (List.all_eq_true.mp h.2 _ hm')).2
    exact this rfl

theorem validName_methodsType (n : Bytes) (h : memberNameShape n = true) : validName (n ++ str "_methods") = true := by
  cases n with
  | nil => simp [memberNameShape] at h
  | cons c r =>
    simp only [memberNameShape, Bool.and_eq_true] at h
    obtain ⟨h1, h2, h3⟩ := upper_facts c h.1
    simp only [validName, Bool.and_eq_true, Bool.not_eq_true', bne_iff_ne, ne_eq, isGoIdent, List.cons_append]
    refine ⟨⟨⟨h1, ?_⟩, ?_⟩, ?_⟩
    · rw [List.all_append, Bool.and_eq_true]
      refine ⟨?_, by decide⟩
      rw [List.all_eq_true] at h ⊢
      intro x hx; exact (alnum_identChar x (h.2 x hx)).1
    · rw [← Bool.not_eq_true]
      intro hk
      obtain ⟨c', r', e, hc'⟩ := keyword_head_lower _ (List.contains_iff_mem.mp hk)
      injection e with e1 _
      rw [e1, hc'] at h2
      exact absurd h2 (by simp)
    · intro e
      injection e with e1 _
      exact h3 e1

/-- `xs.flatMap [x_methods, x]` is a permutation of `xs.map (· ++ "_methods") ++ xs` -/
theorem methodTop_perm : ∀ ms : List Member,
    List.Perm ((ms.map methodTop).flatten)
      (((ms.filter Member.isMethod).map (fun m => m.name ++ str "_methods")) ++ (ms.filter Member.isMethod).map Member.name)
  | [] => List.Perm.refl _
  | m :: ms => by
    have ih := methodTop_perm ms
    cases m with
    | alias => simpa [methodTop, Member.isMethod] using ih
    | error => simpa [methodTop, Member.isMethod] using ih
    | method n d i o =>
      simp only [List.map_cons, List.flatten_cons, methodTop, Member.isMethod, List.filter_cons_of_pos,
        Member.name, List.cons_append, List.nil_append]
      refine List.Perm.cons _ ?_
      refine (List.Perm.cons n ih).trans ?_
      exact List.perm_middle.symm

theorem flatten_aliasTop (ms : List Member) :
    (ms.map aliasTop).flatten = (ms.filter Member.isAlias).map Member.name := by
  induction ms with
  | nil => rfl
  | cons m r ih => cases m <;> simp [aliasTop, List.filter, Member.isAlias, Member.name, ih]

theorem flatten_errorTop (ms : List Member) :
    (ms.map errorTop).flatten = (ms.filter Member.isError).map Member.name := by
  induction ms with
  | nil => rfl
  | cons m r ih => cases m <;> simp [errorTop, List.filter, Member.isError, Member.name, ih]

/-- names of the members of different kinds are different names -/
theorem nodup_filters {α} (f : α → Bytes) (p q : α → Bool) (hpq : ∀ a, ¬(p a = true ∧ q a = true)) :
    ∀ l : List α, (l.map f).Nodup → (∀ x ∈ (l.filter p).map f, x ∉ (l.filter q).map f)
  | [], _, x, hx => by simp at hx
  | a :: l, h, x, hx => by
    rw [List.map_cons, List.nodup_cons] at h
    intro hx2
    have ih := nodup_filters f p q hpq l h.2
    by_cases hp : p a = true
    · have hq : q a = false := by
        cases hqa : q a
        · rfl
        · exact absurd ⟨hp, hqa⟩ (hpq a)
      simp only [List.filter_cons, hp, if_true, List.map_cons, List.mem_cons] at hx
      simp only [List.filter_cons, hq, Bool.false_eq_true, if_false] at hx2
      rcases hx with e | e
      · subst e
        obtain ⟨b, hb, e2⟩ := List.mem_map.mp hx2
        exact h.1 (List.mem_map.mpr ⟨b, (List.mem_filter.mp hb).1, e2⟩)
      · exact ih x e hx2
    · simp only [List.filter_cons, hp, if_false] at hx
      by_cases hq : q a = true
      · simp only [List.filter_cons, hq, if_true, List.map_cons, List.mem_cons] at hx2
        rcases hx2 with e | e
        · subst e
          obtain ⟨b, hb, e2⟩ := List.mem_map.mp hx
          exact h.1 (List.mem_map.mpr ⟨b, (List.mem_filter.mp hb).1, e2⟩)
        · exact ih x hx e
      · simp only [List.filter_cons, hq, if_false] at hx2
        exact ih x hx hx2

theorem nodup_filter_map {α} (f : α → Bytes) (p : α → Bool) (l : List α) (h : (l.map f).Nodup) :
    ((l.filter p).map f).Nodup :=
  List.Nodup.sublist (List.Sublist.map _ List.filter_sublist) h


end Varlink.Gen
