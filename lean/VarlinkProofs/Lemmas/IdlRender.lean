/-
  Forward ("parse what was rendered") lemmas for the IDL parser model, towards property C05: if the input in
  front of the cursor is the rendering of a layouted tree, the reader returns that tree and leaves the cursor
  behind it. Crash outcomes are excluded by hypothesis (`NoCrash`, discharged at the top by the totality lemma of
  C09), so no fuel arithmetic is needed here.
-/
import Varlink.Idl.Layout
import VarlinkProofs.Lemmas.IdlStrip
namespace Varlink.Idl
open Varlink

def NoCrash {α} (o : Out α) : Prop := o ≠ .panic ∧ o ≠ .outOfFuel

theorem NoCrash.of_bind {α β} {x : Out α} {f : α → Out β} (h : NoCrash (x >>= f)) : NoCrash x := by
  cases x with
  | ok a => simp [NoCrash]
  | err e => simp [NoCrash]
  | panic => exact absurd rfl h.1
  | outOfFuel => exact absurd rfl h.2

theorem NoCrash.ok {α} (a : α) : NoCrash (Out.ok a) := by simp [NoCrash]

theorem bind_ok_eq {α β} {x : Out α} {f : α → Out β} {a : α} (h : x = .ok a) : (x >>= f) = f a := by
  subst h; rfl

theorem Out.Sat.noCrash {α} {o : Out α} {P : α → Prop} (h : o.Sat P) : NoCrash o := h.ne_panic

/-! ### states -/

/-- the state after consuming `w`, with `r` left -/
def St.adv (s : St) (w r : Bytes) : St :=
  { s with rest := r, pos := s.pos + w.length, line := w.reverse ++ s.line }

theorem St.adv_adv (s : St) (w r w' r' : Bytes) : (s.adv w r).adv w' r' = s.adv (w ++ w') r' := by
  simp [St.adv, Nat.add_assoc]

theorem St.adv_nil (s : St) : s.adv [] s.rest = s := by
  simp [St.adv]

theorem St.adv_nil' {s : St} {r : Bytes} (h : s.rest = r) : s.adv [] r = s := by
  subst h; exact St.adv_nil s

theorem next_cons {s : St} {c : UInt8} {r : Bytes} (h : s.rest = c :: r) : next s = (some c, s.adv [c] r) := by
  unfold next; rw [h]; simp [St.adv]

theorem next_nil {s : St} (h : s.rest = []) : (next s).1 = none := by
  unfold next; rw [h]

/-- documentation state of a parser state: is the current line blank so far, pending documentation -/
def dst (s : St) : Bool × Bytes := (isBlank s.line, s.lastComment)

theorem isBlank_append (a b : Bytes) : isBlank (a ++ b) = (isBlank a && isBlank b) := by
  induction a with
  | nil => simp [isBlank]
  | cons c a ih =>
    simp only [List.cons_append, isBlank]
    split
    · simp
    · simpa using ih

theorem isBlank_reverse (a : Bytes) : isBlank a.reverse = isBlank a := by
  induction a with
  | nil => rfl
  | cons c a ih =>
    rw [List.reverse_cons, isBlank_append, ih]
    simp only [isBlank]
    split <;> simp [Bool.and_comm]

/-- the current line has a token byte on it -/
def Dirty (s : St) : Prop := isBlank s.line = false

theorem dirty_adv {s : St} {w r : Bytes} (h : isBlank w = false) : Dirty (s.adv w r) := by
  simp [Dirty, St.adv, isBlank_append, isBlank_reverse, h]

theorem dirty_adv_of_dirty {s : St} {w r : Bytes} (h : Dirty s) : Dirty (s.adv w r) := by
  simp only [Dirty] at h
  simp [Dirty, St.adv, isBlank_append, h]

theorem dst_of_dirty {s : St} (h : Dirty s) : dst s = (false, s.lastComment) := by
  unfold dst; rw [show isBlank s.line = false from h]

@[simp] theorem St.adv_lastComment (s : St) (w r : Bytes) : (s.adv w r).lastComment = s.lastComment := rfl

/-! ### scanning loops -/

/-- the input `r` does not continue a run of class `p` -/
def StopAt (p : UInt8 → Bool) : Bytes → Prop
  | [] => True
  | c :: _ => p c = false

theorem scan_fwd (p : UInt8 → Bool) : ∀ (w : Bytes) (f : Nat) (s : St) (r : Bytes), s.rest = w ++ r →
    (∀ c ∈ w, p c = true) → StopAt p r → NoCrash (scan p f s) → scan p f s = .ok (s.adv w r) := by
  intro w
  induction w with
  | nil =>
    intro f s r hr _ hstop hnc
    cases f with
    | zero => exact absurd rfl hnc.2
    | succ f =>
      simp only [List.nil_append] at hr
      unfold scan
      cases r with
      | nil =>
        have : (next s) = (none, (next s).2) := by
          have := next_nil hr; rcases hn : next s with ⟨c, s1⟩; rw [hn] at this; simp at this; rw [this]
        rw [this]; simp only
        rw [St.adv_nil' hr]
      | cons c r' =>
        rw [next_cons hr]
        simp only
        rw [if_neg (by simpa [StopAt] using hstop), St.adv_nil' hr]
  | cons c w ih =>
    intro f s r hr hall hstop hnc
    cases f with
    | zero => exact absurd rfl hnc.2
    | succ f =>
      unfold scan at hnc ⊢
      rw [List.cons_append] at hr
      rw [next_cons hr] at hnc ⊢
      simp only at hnc ⊢
      rw [if_pos (hall c List.mem_cons_self)] at hnc ⊢
      rw [ih f (s.adv [c] (w ++ r)) r rfl (fun x hx => hall x (List.mem_cons_of_mem _ hx)) hstop hnc, St.adv_adv]
      rfl

theorem consumed_adv (s : St) (w r : Bytes) (h : s.rest = w ++ r) : consumed s (s.adv w r) = w := by
  simp [consumed, St.adv, h]

theorem sliceFrom_fwd {s : St} {w r : Bytes} (h : s.rest = w ++ r) (hnc : NoCrash (sliceFrom s (s.adv w r))) :
    sliceFrom s (s.adv w r) = .ok (w, s.adv w r) := by
  unfold sliceFrom at hnc ⊢
  split
  · rw [consumed_adv s w r h]
  · rename_i hc; rw [if_neg hc] at hnc; exact absurd rfl hnc.1

theorem readKeyword_fwd {s : St} {w r : Bytes} (h : s.rest = w ++ r) (hall : ∀ c ∈ w, isLower c = true)
    (hstop : StopAt isLower r) (hnc : NoCrash (readKeyword s)) : readKeyword s = .ok (w, s.adv w r) := by
  unfold readKeyword at hnc ⊢
  have h1 := scan_fwd isLower w _ s r h hall hstop hnc.of_bind
  rw [bind_ok_eq h1] at hnc ⊢
  exact sliceFrom_fwd h hnc

theorem readTypeName_fwd {s : St} {c : UInt8} {w r : Bytes} (h : s.rest = c :: w ++ r) (hc : isUpper c = true)
    (hall : ∀ x ∈ w, isAlnum x = true) (hstop : StopAt isAlnum r) (hnc : NoCrash (readTypeName s)) :
    readTypeName s = .ok (c :: w, s.adv (c :: w) r) := by
  unfold readTypeName at hnc ⊢
  rw [next_cons (r := w ++ r) (by simpa using h)] at hnc ⊢
  simp only at hnc ⊢
  rw [if_neg (by simp [hc])] at hnc ⊢
  have h1 := scan_fwd isAlnum w _ (s.adv [c] (w ++ r)) r rfl hall hstop hnc.of_bind
  rw [bind_ok_eq h1, St.adv_adv] at hnc ⊢
  exact sliceFrom_fwd (by simpa using h) hnc

theorem readFieldName_fwd {s : St} {c : UInt8} {w r : Bytes} (h : s.rest = c :: w ++ r) (hc : isLower c = true)
    (hall : ∀ x ∈ w, isFieldChar x = true) (hstop : StopAt isFieldChar r) (hnc : NoCrash (readFieldName s)) :
    readFieldName s = .ok (c :: w, s.adv (c :: w) r) := by
  unfold readFieldName at hnc ⊢
  rw [next_cons (r := w ++ r) (by simpa using h)] at hnc ⊢
  simp only at hnc ⊢
  rw [if_neg (by simp [hc])] at hnc ⊢
  have h1 := scan_fwd isFieldChar w _ (s.adv [c] (w ++ r)) r rfl hall hstop hnc.of_bind
  rw [bind_ok_eq h1, St.adv_adv] at hnc ⊢
  exact sliceFrom_fwd (by simpa using h) hnc

/-- a reader for a name that finds no name: the state is unchanged -/
theorem readTypeName_none {s : St} (h : StopAt isUpper s.rest) : readTypeName s = .ok ([], s) := by
  unfold readTypeName
  cases hr : s.rest with
  | nil =>
    have := next_nil hr
    rcases hn : next s with ⟨c, s1⟩
    rw [hn] at this; simp only at this; subst this; rfl
  | cons c r =>
    rw [next_cons hr]
    rw [hr] at h
    simp only
    rw [if_pos (by simpa [StopAt] using h)]

theorem readKeyword_none {s : St} (h : StopAt isLower s.rest) (hnc : NoCrash (readKeyword s)) :
    readKeyword s = .ok ([], s) := by
  have := readKeyword_fwd (s := s) (w := []) (r := s.rest) rfl (fun _ hc => absurd hc List.not_mem_nil) h hnc
  rwa [St.adv_nil] at this

/-! ### comments -/

/-- the optional space behind `#` and the comment text behind it -/
def splitSp : Bytes → Bytes × Bytes
  | 32 :: t => ([32], t)
  | t => ([], t)

theorem splitSp_append (t : Bytes) : (splitSp t).1 ++ (splitSp t).2 = t := by
  unfold splitSp; split <;> simp

theorem docLine_eq (t : Bytes) : docLine t = dropLastCR (splitSp t).2 := by
  unfold docLine splitSp; split <;> simp

theorem skipOneSpace_fwd {s : St} {t x : Bytes} (h : s.rest = t ++ 10 :: x) :
    skipOneSpace s = s.adv (splitSp t).1 ((splitSp t).2 ++ 10 :: x) := by
  unfold skipOneSpace
  cases t with
  | nil =>
    simp only [List.nil_append] at h
    rw [next_cons h]; simp only
    rw [if_neg (by decide)]
    simp [splitSp, St.adv_nil' h]
  | cons c t' =>
    rw [next_cons (r := t' ++ 10 :: x) (by simpa using h)]
    simp only
    split
    · rename_i hc; subst hc; simp [splitSp]
    · rename_i hc
      have : splitSp (c :: t') = ([], c :: t') := by
        unfold splitSp; split
        · rename_i heq; cases heq; exact absurd rfl hc
        · rfl
      rw [this]; exact (St.adv_nil' (by simpa using h)).symm

theorem skipOneSpace_fwd_eof {s : St} {t : Bytes} (h : s.rest = t) :
    skipOneSpace s = s.adv (splitSp t).1 (splitSp t).2 := by
  unfold skipOneSpace
  cases t with
  | nil =>
    have := next_nil h
    rcases hn : next s with ⟨c, s1⟩
    rw [hn] at this; simp only at this; subst this
    simp [splitSp, St.adv_nil' h]
  | cons c t' =>
    rw [next_cons h]
    simp only
    split
    · rename_i hc; subst hc; simp [splitSp]
    · rename_i hc
      have : splitSp (c :: t') = ([], c :: t') := by
        unfold splitSp; split
        · rename_i heq; cases heq; exact absurd rfl hc
        · rfl
      rw [this]; exact (St.adv_nil' (by simpa using h)).symm

theorem dropLastCR_take : ∀ (t x : Bytes),
    (t ++ x).take ((if t ≠ [] ∧ t.getLast? = some 13 then t.length - 1 else t.length)) = dropLastCR t
  | [], x => by simp [dropLastCR]
  | [c], x => by
    by_cases hc : c = 13
    · subst hc; simp [dropLastCR]
    · simp [dropLastCR, hc]
  | c :: d :: t, x => by
    have ih := dropLastCR_take (d :: t) x
    have hne : (d :: t) ≠ [] := by simp
    simp only [ne_eq, hne, not_false_eq_true, true_and, List.length_cons] at ih
    simp only [ne_eq, reduceCtorEq, not_false_eq_true, List.getLast?_cons_cons, true_and, List.length_cons,
      dropLastCR, List.cons_append]
    split
    · rename_i h
      rw [if_pos h] at ih
      have : t.length + 1 + 1 - 1 = (t.length + 1 - 1) + 1 := by omega
      rw [this, List.take_succ_cons]
      simpa using ih
    · rename_i h
      rw [if_neg h] at ih
      rw [List.take_succ_cons]
      simpa using ih

theorem notNl_of_wf {t : Bytes} (h : t.all (fun c => c != 10) = true) : ∀ c ∈ t, isNotNl c = true := by
  intro c hc
  have := List.all_eq_true.mp h c hc
  simpa [isNotNl] using this

theorem splitSp_snd_mem {t : Bytes} {c : UInt8} (h : c ∈ (splitSp t).2) : c ∈ t := by
  unfold splitSp at h; split at h
  · exact List.mem_cons_of_mem _ h
  · exact h

theorem head?_reverse_append (t l : Bytes) (h : t ≠ []) : (t.reverse ++ l).head? = t.getLast? := by
  cases ht : t.reverse with
  | nil => simp at ht; exact absurd ht h
  | cons c r =>
    have : t = (c :: r).reverse := by rw [← ht, List.reverse_reverse]
    rw [this]; simp

/-- a whole comment line `#text⏎` behind a blank line start enters the documentation; behind a token it is
    skipped up to its line feed -/
theorem comment_fwd {s s1 : St} {t x : Bytes} (h : s1.rest = t ++ 10 :: x)
    (ht : t.all (fun c => c != 10) = true) (hnc : NoCrash (comment s s1)) :
    (isBlank s.line = false → ∃ s3, comment s s1 = .ok s3 ∧ s3.rest = 10 :: x) ∧
    (isBlank s.line = true → ∃ s', comment s s1 = .ok s' ∧ s'.rest = x ∧
      dst s' = (true, (if s1.lastComment.length > 0 then s1.lastComment ++ [10] else s1.lastComment) ++ docLine t)) := by
  unfold comment at hnc ⊢
  split at hnc
  · exact absurd rfl hnc.1
  · rename_i hg
    rw [if_neg hg]
    rw [skipOneSpace_fwd h] at hnc ⊢
    generalize hs2 : s1.adv (splitSp t).1 ((splitSp t).2 ++ 10 :: x) = s2 at hnc ⊢
    have hr2 : s2.rest = (splitSp t).2 ++ 10 :: x := by subst hs2; rfl
    have hsc : scan isNotNl (s2.len + 1) s2 = .ok (s2.adv (splitSp t).2 (10 :: x)) := by
      apply scan_fwd isNotNl _ _ _ _ hr2 (fun c hc => notNl_of_wf ht c (splitSp_snd_mem hc)) (by simp [StopAt, isNotNl])
      cases hsc : scan isNotNl (s2.len + 1) s2 with
      | ok a => exact NoCrash.ok a
      | err e => simp [NoCrash]
      | panic => rw [hsc] at hnc; exact absurd rfl hnc.1
      | outOfFuel => rw [hsc] at hnc; exact absurd rfl hnc.2
    rw [hsc] at hnc ⊢
    simp only at hnc ⊢
    refine ⟨?_, ?_⟩
    · intro hb
      rw [if_pos (by simp [hb])]
      exact ⟨_, rfl, rfl⟩
    · intro hb
      rw [if_neg (by simp [hb])] at hnc ⊢
      unfold appendDoc at hnc ⊢
      split at hnc
      · exact absurd rfl hnc.1
      · rename_i hg1
        rw [if_neg hg1]
        split at hnc
        · exact absurd rfl hnc.1
        · rename_i hg2
          rw [if_neg hg2]
          unfold closeComment
          rw [next_cons (s := { s2.adv (splitSp t).2 (10 :: x) with lastComment := _ }) (c := 10) (r := x) rfl]
          simp only
          refine ⟨_, rfl, rfl, ?_⟩
          simp only [dst, isBlank, St.adv, Prod.mk.injEq, true_and]
          have hlc : s2.lastComment = s1.lastComment := by subst hs2; rfl
          simp only [hlc]
          rw [docLine_eq, ← dropLastCR_take (splitSp t).2 (10 :: x), hr2]
          congr 2
          simp only [commentEnd]
          by_cases hne : (splitSp t).2 = []
          · simp [hne]
          · have hpos : s2.pos + (splitSp t).2.length > s2.pos := by
              have : (splitSp t).2.length ≠ 0 := fun h0 => hne (List.eq_nil_of_length_eq_zero h0)
              omega
            rw [head?_reverse_append _ _ hne]
            simp only [hpos, decide_true, Bool.true_and, decide_eq_true_eq, ne_eq, hne, not_false_eq_true, true_and]
            split <;> omega

/-! ### advance over a gap -/

theorem advanceLoop_succ_of_noCrash {f : Nat} {s : St} (h : NoCrash (advanceLoop f s)) : ∃ f', f = f' + 1 := by
  cases f with
  | zero => exact absurd rfl h.2
  | succ f' => exact ⟨f', rfl⟩

theorem noCrash_of_match {s2 : Out St} {k : St → Out St}
    (h : NoCrash (match s2 with | .ok a => k a | .err e => .err e | .panic => .panic | .outOfFuel => .outOfFuel)) :
    NoCrash s2 := by
  cases s2 with
  | ok a => exact NoCrash.ok a
  | err e => simp [NoCrash]
  | panic => exact absurd rfl h.1
  | outOfFuel => exact absurd rfl h.2

theorem advanceLoop_cons {f : Nat} {s : St} {c : UInt8} {r : Bytes} (h : s.rest = c :: r) :
    advanceLoop (f + 1) s =
      (if c = 10 then
        advanceLoop f { s.adv [c] r with lineStart := (s.adv [c] r).pos, line := [], lastComment := [] }
      else if c = 32 || c = 9 || c = 13 then advanceLoop f (s.adv [c] r)
      else if c = 35 then
        match comment s (s.adv [c] r) with
        | .ok s2 => advanceLoop f s2
        | .err e => .err e
        | .panic => .panic
        | .outOfFuel => .outOfFuel
      else .ok s) := by
  conv => lhs; unfold advanceLoop
  rw [next_cons h]
  rfl

theorem closeComment_eof {s4 : St} (h : s4.rest = []) : closeComment s4 = .ok s4 := by
  unfold closeComment
  have := next_nil h
  rcases hn : next s4 with ⟨c, s5⟩
  rw [hn] at this; simp only at this; subst this; rfl

/-- one atom of a gap costs one or two turns of the loop and moves the documentation state by `docStep` -/
theorem advance_atom {a : Atom} {f : Nat} {s : St} {r : Bytes} (h : s.rest = a.render ++ r) (ha : a.wf = true)
    (hnc : NoCrash (advanceLoop f s)) :
    ∃ f' s1, advanceLoop f s = advanceLoop f' s1 ∧ s1.rest = r ∧ dst s1 = docStep (dst s) a := by
  obtain ⟨f0, rfl⟩ := advanceLoop_succ_of_noCrash hnc
  cases a with
  | sp =>
    refine ⟨f0, s.adv [32] r, ?_, rfl, ?_⟩
    · rw [advanceLoop_cons (by simpa [Atom.render] using h)]; simp
    · simp [dst, St.adv, isBlank, docStep]
  | tab =>
    refine ⟨f0, s.adv [9] r, ?_, rfl, ?_⟩
    · rw [advanceLoop_cons (by simpa [Atom.render] using h)]; simp
    · simp [dst, St.adv, isBlank, docStep]
  | cr =>
    refine ⟨f0, s.adv [13] r, ?_, rfl, ?_⟩
    · rw [advanceLoop_cons (by simpa [Atom.render] using h)]; simp
    · simp [dst, St.adv, isBlank, docStep]
  | nl =>
    refine ⟨f0, { s.adv [10] r with lineStart := (s.adv [10] r).pos, line := [], lastComment := [] }, ?_, rfl, ?_⟩
    · rw [advanceLoop_cons (by simpa [Atom.render] using h)]; simp
    · simp [dst, isBlank, docStep]
  | comment t =>
    have hr : s.rest = 35 :: (t ++ 10 :: r) := by simpa [Atom.render] using h
    have hstep : advanceLoop (f0 + 1) s =
        (match comment s (s.adv [35] (t ++ 10 :: r)) with
          | .ok s2 => advanceLoop f0 s2
          | .err e => .err e
          | .panic => .panic
          | .outOfFuel => .outOfFuel) := by
      rw [advanceLoop_cons hr]; simp
    rw [hstep] at hnc ⊢
    have hc := comment_fwd (s := s) (s1 := s.adv [35] (t ++ 10 :: r)) (t := t) (x := r) rfl
      (by simpa [Atom.wf] using ha) (noCrash_of_match hnc)
    cases hb : isBlank s.line with
    | false =>
      obtain ⟨s3, h3, hr3⟩ := hc.1 hb
      rw [h3] at hnc ⊢
      simp only at hnc ⊢
      obtain ⟨f1, rfl⟩ := advanceLoop_succ_of_noCrash hnc
      refine ⟨f1, { s3.adv [10] r with lineStart := (s3.adv [10] r).pos, line := [], lastComment := [] }, ?_, rfl, ?_⟩
      · rw [advanceLoop_cons hr3]; simp
      · simp [dst, isBlank, docStep, hb]
    | true =>
      obtain ⟨s', h', hr', hd'⟩ := hc.2 hb
      rw [h'] at hnc ⊢
      simp only
      refine ⟨f0, s', rfl, hr', ?_⟩
      rw [hd']
      simp [dst, docStep, hb, St.adv]

/-- the input behind a gap: the end, or a byte that is not layout -/
def TailOk : Bytes → Prop
  | [] => True
  | c :: _ => isLay c = false

theorem advanceLoop_stop {f : Nat} {s : St} (h : TailOk s.rest) (hnc : NoCrash (advanceLoop f s)) :
    advanceLoop f s = .ok s := by
  obtain ⟨f0, rfl⟩ := advanceLoop_succ_of_noCrash hnc
  unfold advanceLoop
  cases hr : s.rest with
  | nil =>
    have := next_nil hr
    rcases hn : next s with ⟨c, s1⟩
    rw [hn] at this; simp only at this; subst this; rfl
  | cons c r =>
    rw [hr] at h
    simp only [TailOk, isLay, Bool.or_eq_false_iff, decide_eq_false_iff_not] at h
    obtain ⟨⟨⟨⟨h1, h2⟩, h3⟩, h4⟩, h5⟩ := h
    rw [next_cons hr]
    simp [h1, h2, h3, h4, h5]

theorem advanceLoop_fwd : ∀ (g : Gap) (f : Nat) (s : St) (tail : Bytes), s.rest = renderGap g tail → g.wf = true →
    TailOk tail → NoCrash (advanceLoop f s) →
    ∃ s', advanceLoop f s = .ok s' ∧ s'.rest = tail ∧ dst s' = gapDoc (dst s) g := by
  intro g
  induction g with
  | nil =>
    intro f s tail h _ ht hnc
    simp only [renderGap] at h
    exact ⟨s, advanceLoop_stop (h ▸ ht) hnc, h, rfl⟩
  | cons a g ih =>
    intro f s tail h hw ht hnc
    simp only [Gap.wf, List.all_cons, Bool.and_eq_true] at hw
    obtain ⟨f', s1, h1, hr1, hd1⟩ := advance_atom (by simpa [renderGap] using h) hw.1 hnc
    rw [h1] at hnc ⊢
    obtain ⟨s', h', hr', hd'⟩ := ih f' s1 tail hr1 hw.2 ht hnc
    exact ⟨s', h', hr', by rw [hd', hd1]; rfl⟩

theorem advance_fwd {g : Gap} {s : St} {tail : Bytes} (h : s.rest = renderGap g tail) (hw : g.wf = true)
    (ht : TailOk tail) (hnc : NoCrash (advance s)) :
    ∃ s', advance s = .ok s' ∧ s'.rest = tail ∧ dst s' = gapDoc (dst s) g :=
  advanceLoop_fwd g _ s tail h hw ht hnc

/-- behind a token the pending documentation moves by `gapPend` -/
theorem advance_fwd_lc {g : Gap} {s : St} {tail : Bytes} (h : s.rest = renderGap g tail) (hw : g.wf = true)
    (ht : TailOk tail) (hd : Dirty s) (hnc : NoCrash (advance s)) :
    ∃ s', advance s = .ok s' ∧ s'.rest = tail ∧ s'.lastComment = gapPend s.lastComment g := by
  obtain ⟨s', h', hr', hd'⟩ := advance_fwd h hw ht hnc
  refine ⟨s', h', hr', ?_⟩
  rw [dst_of_dirty hd] at hd'
  exact congrArg Prod.snd hd'

/-- a last comment without line feed: `advance` runs to the end of the input -/
theorem advanceLoop_final {f : Nat} {s : St} {t : Bytes} (h : s.rest = 35 :: t)
    (ht : t.all (fun c => c != 10) = true) (hnc : NoCrash (advanceLoop f s)) :
    ∃ s', advanceLoop f s = .ok s' ∧ s'.rest = [] := by
  obtain ⟨f0, rfl⟩ := advanceLoop_succ_of_noCrash hnc
  have hstep : advanceLoop (f0 + 1) s =
      (match comment s (s.adv [35] t) with
        | .ok s2 => advanceLoop f0 s2
        | .err e => .err e
        | .panic => .panic
        | .outOfFuel => .outOfFuel) := by
    rw [advanceLoop_cons h]; simp
  rw [hstep] at hnc ⊢
  have hnc1 := noCrash_of_match hnc
  -- the comment branch up to the end of the input
  have hcom : ∃ s2, comment s (s.adv [35] t) = .ok s2 ∧ s2.rest = [] := by
    unfold comment at hnc1 ⊢
    split at hnc1
    · exact absurd rfl hnc1.1
    · rename_i hg
      rw [if_neg hg]
      rw [skipOneSpace_fwd_eof (s := s.adv [35] t) (t := t) rfl] at hnc1 ⊢
      generalize hs2 : (s.adv [35] t).adv (splitSp t).1 (splitSp t).2 = s2 at hnc1 ⊢
      have hr2 : s2.rest = (splitSp t).2 ++ [] := by subst hs2; simp [St.adv]
      have hsc : scan isNotNl (s2.len + 1) s2 = .ok (s2.adv (splitSp t).2 []) := by
        apply scan_fwd isNotNl _ _ _ _ hr2 (fun c hc => notNl_of_wf ht c (splitSp_snd_mem hc)) (by simp [StopAt])
        cases hsc : scan isNotNl (s2.len + 1) s2 with
        | ok a => exact NoCrash.ok a
        | err e => simp [NoCrash]
        | panic => rw [hsc] at hnc1; exact absurd rfl hnc1.1
        | outOfFuel => rw [hsc] at hnc1; exact absurd rfl hnc1.2
      rw [hsc] at hnc1 ⊢
      simp only at hnc1 ⊢
      split
      · exact ⟨_, rfl, rfl⟩
      · rename_i hb
        rw [if_neg hb] at hnc1
        unfold appendDoc at hnc1 ⊢
        split at hnc1
        · exact absurd rfl hnc1.1
        · rename_i hg1
          rw [if_neg hg1]
          split at hnc1
          · exact absurd rfl hnc1.1
          · rename_i hg2
            rw [if_neg hg2]
            exact ⟨_, closeComment_eof rfl, rfl⟩
  obtain ⟨s2, h2, hr2⟩ := hcom
  rw [h2] at hnc ⊢
  simp only at hnc ⊢
  exact ⟨s2, advanceLoop_stop (by rw [hr2]; trivial) hnc, hr2⟩

/-- a gap followed by a last comment without line feed, or by the end of the input -/
theorem advanceLoop_fwd_end : ∀ (g : Gap) (f : Nat) (s : St) (fc : Option Bytes),
    s.rest = renderGap g (renderFinal fc) → g.wf = true →
    (match fc with | none => true | some t => t.all (fun c => c != 10)) = true →
    NoCrash (advanceLoop f s) → ∃ s', advanceLoop f s = .ok s' ∧ s'.rest = [] := by
  intro g
  induction g with
  | nil =>
    intro f s fc h _ hfc hnc
    simp only [renderGap] at h
    cases fc with
    | none =>
      simp only [renderFinal] at h
      exact ⟨s, advanceLoop_stop (by rw [h]; trivial) hnc, h⟩
    | some t => exact advanceLoop_final (by simpa [renderFinal] using h) hfc hnc
  | cons a g ih =>
    intro f s fc h hw hfc hnc
    simp only [Gap.wf, List.all_cons, Bool.and_eq_true] at hw
    obtain ⟨f', s1, h1, hr1, _⟩ := advance_atom (by simpa [renderGap] using h) hw.1 hnc
    rw [h1] at hnc ⊢
    exact ih f' s1 fc hr1 hw.2 hfc hnc

/-! ### boundaries between tokens -/

/-- the input behind a word does not continue it -/
abbrev Stop (tail : Bytes) : Prop := StopAt isFieldChar tail

theorem fieldChar_of_lower {c : UInt8} (h : isLower c = true) : isFieldChar c = true := by
  simp [isFieldChar, h]
theorem fieldChar_of_upper {c : UInt8} (h : isUpper c = true) : isFieldChar c = true := by
  simp [isFieldChar, h]
theorem fieldChar_of_alnum {c : UInt8} (h : isAlnum c = true) : isFieldChar c = true := by
  simp only [isAlnum, Bool.or_eq_true] at h
  simp only [isFieldChar, Bool.or_eq_true]
  rcases h with (h | h) | h <;> simp [h]

theorem StopAt.mono {p q : UInt8 → Bool} (hpq : ∀ c, q c = true → p c = true) {r : Bytes} (h : StopAt p r) :
    StopAt q r := by
  cases r with
  | nil => trivial
  | cons c r =>
    simp only [StopAt] at h ⊢
    cases hq : q c with
    | false => rfl
    | true => rw [hpq c hq] at h; cases h

theorem Stop.lower {r : Bytes} (h : Stop r) : StopAt isLower r := StopAt.mono (fun _ => fieldChar_of_lower) h
theorem Stop.upper {r : Bytes} (h : Stop r) : StopAt isUpper r := StopAt.mono (fun _ => fieldChar_of_upper) h
theorem Stop.alnum {r : Bytes} (h : Stop r) : StopAt isAlnum r := StopAt.mono (fun _ => fieldChar_of_alnum) h

theorem Atom.render_head (a : Atom) : ∃ c r, a.render = c :: r ∧ isLay c = true := by
  cases a <;> simp [Atom.render, isLay]

theorem lay_not_fieldChar {c : UInt8} (h : isLay c = true) : isFieldChar c = false := by
  simp only [isLay, Bool.or_eq_true, decide_eq_true_eq] at h
  rcases h with (((rfl | rfl) | rfl) | rfl) | rfl <;> decide

theorem stop_renderGap (g : Gap) {x : Bytes} (h : Stop x) : Stop (renderGap g x) := by
  cases g with
  | nil => exact h
  | cons a g =>
    obtain ⟨c, r, hr, hc⟩ := a.render_head
    simp only [renderGap, hr, List.cons_append, StopAt]
    exact lay_not_fieldChar hc

theorem stop_cons {c : UInt8} (x : Bytes) (h : isFieldChar c = false) : Stop (c :: x) := h

theorem tailOk_cons {c : UInt8} (x : Bytes) (h : isLay c = false) : TailOk (c :: x) := h

theorem tailOk_append {c : UInt8} {w x : Bytes} (h : isLay c = false) : TailOk (c :: w ++ x) := h

/-- a gap that must be non-empty stops the word in front of it; an empty one hands the duty to what follows -/
theorem stop_renderGap_of (g : Gap) (x : Bytes) (h : g.isEmpty = false ∨ Stop x) : Stop (renderGap g x) := by
  cases g with
  | nil =>
    rcases h with h | h
    · simp at h
    · exact h
  | cons a g =>
    obtain ⟨c, r, hr, hc⟩ := a.render_head
    simp only [renderGap, hr, List.cons_append, StopAt]
    exact lay_not_fieldChar hc

/-! ### names -/

theorem typeName_split {n : Bytes} (h : isTypeNameB n = true) :
    ∃ c w, n = c :: w ∧ isUpper c = true ∧ ∀ x ∈ w, isAlnum x = true := by
  cases n with
  | nil => simp [isTypeNameB] at h
  | cons c w =>
    simp only [isTypeNameB, Bool.and_eq_true, List.all_eq_true] at h
    exact ⟨c, w, rfl, h.1, h.2⟩

theorem fieldName_split {n : Bytes} (h : isFieldNameB n = true) :
    ∃ c w, n = c :: w ∧ isLower c = true ∧ ∀ x ∈ w, isFieldChar x = true := by
  cases n with
  | nil => simp [isFieldNameB] at h
  | cons c w =>
    simp only [isFieldNameB, Bool.and_eq_true, List.all_eq_true] at h
    exact ⟨c, w, rfl, h.1, h.2⟩

theorem isBlank_cons_false {c : UInt8} {w : Bytes} (h : isLay c = false) : isBlank (c :: w) = false := by
  simp only [isLay, Bool.or_eq_false_iff, decide_eq_false_iff_not] at h
  obtain ⟨⟨⟨⟨h1, h2⟩, h3⟩, _⟩, _⟩ := h
  simp [isBlank, h1, h2, h3]

theorem lower_ne {c : UInt8} (h : isLower c = true) (d : UInt8) (hd : isLower d = false) : c ≠ d := by
  intro he; subst he; rw [h] at hd; cases hd

/-- `readFieldName` on a field name followed by a boundary -/
theorem readFieldName_name {s : St} {n x : Bytes} (hn : isFieldNameB n = true) (h : s.rest = n ++ x) (hx : Stop x)
    (hnc : NoCrash (readFieldName s)) : readFieldName s = .ok (n, s.adv n x) ∧ Dirty (s.adv n x) ∧ n ≠ [] := by
  obtain ⟨c, w, rfl, hc, hw⟩ := fieldName_split hn
  refine ⟨readFieldName_fwd h hc hw hx hnc, dirty_adv (isBlank_cons_false (notLay_of_lower hc)), by simp⟩

theorem readTypeName_name {s : St} {n x : Bytes} (hn : isTypeNameB n = true) (h : s.rest = n ++ x) (hx : Stop x)
    (hnc : NoCrash (readTypeName s)) : readTypeName s = .ok (n, s.adv n x) ∧ Dirty (s.adv n x) ∧ n ≠ [] := by
  obtain ⟨c, w, rfl, hc, hw⟩ := typeName_split hn
  refine ⟨readTypeName_fwd h hc hw hx.alnum hnc, dirty_adv (isBlank_cons_false (notLay_of_upper hc)), by simp⟩

/-- a keyword literal followed by a boundary -/
theorem readKeyword_lit {s : St} {k x : Bytes} (hk : ∀ c ∈ k, isLower c = true) (h : s.rest = k ++ x) (hx : Stop x)
    (hnc : NoCrash (readKeyword s)) : readKeyword s = .ok (k, s.adv k x) :=
  readKeyword_fwd h hk hx.lower hnc

/-! ### field lists -/

theorem noCrash_step {α β} {x : Out α} {f : α → Out β} {a : α} (h : x = .ok a) (hnc : NoCrash (x >>= f)) :
    NoCrash (f a) := by rw [bind_ok_eq h] at hnc; exact hnc

/-- `advance` where there is nothing to skip -/
theorem advance_none {s : St} (h : TailOk s.rest) (hnc : NoCrash (advance s)) : advance s = .ok s :=
  advanceLoop_stop h hnc

theorem renderNames_head (r : List (Gap × Bytes × Gap)) (tl : Bytes) :
    ∃ c x, renderNames r tl = c :: x ∧ (c = 44 ∨ c = 41) := by
  cases r with
  | nil => exact ⟨41, tl, rfl, Or.inr rfl⟩
  | cons p r => obtain ⟨g1, n, g4⟩ := p; exact ⟨44, _, rfl, Or.inl rfl⟩

theorem structTail_fuel {f : Nat} {s : St} {k : SKind} {acc : Fields} (h : NoCrash (structTail f s k acc)) :
    ∃ f', f = f' + 1 := by
  cases f with
  | zero => exact absurd rfl h.2
  | succ f' => exact ⟨f', rfl⟩

theorem structLoop_fuel {f : Nat} {s : St} {k : SKind} {acc : Fields} (h : NoCrash (structLoop f s k acc)) :
    ∃ f', f = f' + 1 := by
  cases f with
  | zero => exact absurd rfl h.2
  | succ f' => exact ⟨f', rfl⟩

theorem readType_fuel {f : Nat} {s : St} (h : NoCrash (readType f s)) : ∃ f', f = f' + 1 := by
  cases f with
  | zero => exact absurd rfl h.2
  | succ f' => exact ⟨f', rfl⟩

theorem readStructType_fuel {f : Nat} {s : St} (h : NoCrash (readStructType f s)) : ∃ f', f = f' + 1 := by
  cases f with
  | zero => exact absurd rfl h.2
  | succ f' => exact ⟨f', rfl⟩

/-- the names of an enum behind the first one -/
theorem names_fwd : ∀ (r : List (Gap × Bytes × Gap)) (f : Nat) (s : St) (tail : Bytes) (acc : Fields),
    namesFit r = true → s.rest = renderNames r tail → NoCrash (structTail f s .enum acc) →
    ∃ s', structTail f s .enum acc = .ok (some (.enum (Fields.revAppend acc (eraseNames r))), s') ∧
      s'.rest = tail ∧ Dirty s' ∧ s'.lastComment = namesPend r s.lastComment := by
  intro r
  induction r with
  | nil =>
    intro f s tail acc _ h hnc
    obtain ⟨f0, rfl⟩ := structTail_fuel hnc
    unfold structTail at hnc ⊢
    simp only [renderNames] at h
    have h1 := advance_none (by rw [h]; exact tailOk_cons _ (by decide)) hnc.of_bind
    rw [bind_ok_eq h1] at hnc ⊢
    rw [next_cons h]
    simp only [↓reduceIte]
    refine ⟨s.adv [41] tail, ?_, rfl, dirty_adv (by decide), rfl⟩
    simp [mkFieldList, Fields.reverse, eraseNames]
  | cons p r ih =>
    obtain ⟨g1, n, g4⟩ := p
    intro f s tail acc hfit h hnc
    simp only [namesFit, Bool.and_eq_true] at hfit
    obtain ⟨⟨⟨hg1, hn⟩, hg4⟩, hr⟩ := hfit
    obtain ⟨f0, rfl⟩ := structTail_fuel hnc
    unfold structTail at hnc ⊢
    simp only [renderNames] at h
    have h1 := advance_none (by rw [h]; exact tailOk_cons _ (by decide)) hnc.of_bind
    rw [bind_ok_eq h1] at hnc ⊢
    rw [next_cons h] at hnc ⊢
    simp only [↓reduceIte] at hnc ⊢
    -- structLoop on `g1 name g4 …`
    obtain ⟨f1, rfl⟩ := structLoop_fuel hnc
    unfold structLoop at hnc ⊢
    obtain ⟨c, w, rfl, hc, hw⟩ := fieldName_split hn
    obtain ⟨s1, h2, hr1, hl1⟩ := advance_fwd_lc (s := s.adv [44] (renderGap g1 (c :: w ++ renderGap g4 (renderNames r tail))))
      (g := g1) (tail := c :: w ++ renderGap g4 (renderNames r tail)) rfl hg1
      (tailOk_append (notLay_of_lower hc)) (dirty_adv (by decide)) hnc.of_bind
    rw [bind_ok_eq h2] at hnc ⊢
    obtain ⟨d, x, hx, hd⟩ := renderNames_head r tail
    have hstop : Stop (renderGap g4 (renderNames r tail)) :=
      stop_renderGap g4 (by rw [hx]; rcases hd with rfl | rfl <;> exact stop_cons _ (by decide))
    have h3 := readFieldName_fwd hr1 hc hw hstop hnc.of_bind
    rw [bind_ok_eq h3] at hnc ⊢
    simp only at hnc ⊢
    rw [if_neg (by simp)] at hnc ⊢
    obtain ⟨s3, h4, hr3, hl3⟩ := advance_fwd_lc (s := s1.adv (c :: w) (renderGap g4 (renderNames r tail))) (g := g4)
      (tail := renderNames r tail) rfl hg4
      (by rw [hx]; rcases hd with rfl | rfl <;> exact tailOk_cons _ (by decide))
      (dirty_adv (isBlank_cons_false (notLay_of_lower hc))) hnc.of_bind
    rw [bind_ok_eq h4] at hnc ⊢
    rw [hx] at hr3
    rw [next_cons hr3] at hnc ⊢
    simp only at hnc ⊢
    rw [if_neg (by rcases hd with rfl | rfl <;> decide)] at hnc ⊢
    rw [if_neg (by simp)] at hnc ⊢
    rw [← hx] at hr3
    obtain ⟨s', h5, hr5, hd5, hl5⟩ := ih f1 s3 tail (.bare (c :: w) acc) hr hr3 hnc
    simp only [St.adv_lastComment] at hl1 hl3
    exact ⟨s', by rw [h5]; rfl, hr5, hd5, by rw [hl5, hl3, hl1]; rfl⟩

/-! ### one step of the type readers, by the byte under the cursor -/

theorem readType_q {f : Nat} {s : St} {r : Bytes} (h : s.rest = 63 :: r) :
    readType (f + 1) s = (do
      let (e, s2) ← readType f (s.adv [63] r)
      match e with
      | none => .ok (none, s2)
      | some e => if e.isMaybe then .ok (none, s2) else .ok (some (.maybe e), s2)) := by
  conv => lhs; unfold readType
  rw [next_cons h]
  rfl

theorem readType_br {f : Nat} {s : St} {r : Bytes} (h : s.rest = 91 :: r) :
    readType (f + 1) s = (do
      let (kw, s2) ← readKeyword (s.adv [91] r)
      if !(kw = kwString || kw = []) then .ok (none, s2) else
      let (c3, s3) := next s2
      if c3 ≠ some 93 then .ok (none, s3) else
      let (e, s4) ← readType f s3
      match e with
      | none => .ok (none, s4)
      | some e => .ok (some (if kw = [] then .array e else .map e), s4)) := by
  conv => lhs; unfold readType
  rw [next_cons h]
  rfl

theorem readType_default {f : Nat} {s : St} {c : UInt8} {r : Bytes} (h : s.rest = c :: r) (h63 : c ≠ 63)
    (h91 : c ≠ 91) :
    readType (f + 1) s = (do
      let (kw, s1) ← readKeyword s
      if kw ≠ [] then
        if kw = kwBool then .ok (some .bool, s1)
        else if kw = kwInt then .ok (some .int, s1)
        else if kw = kwFloat then .ok (some .float, s1)
        else if kw = kwString then .ok (some .string, s1)
        else if kw = kwObject then .ok (some .object, s1)
        else .ok (none, s1)
      else
        let (name, s2) ← readTypeName s1
        if name ≠ [] then .ok (some (.named name), s2)
        else readStructType f s2) := by
  conv => lhs; unfold readType
  rw [next_cons h]
  simp only [Option.some.injEq, h63, h91, ↓reduceIte]

theorem readStructType_open {f : Nat} {s : St} {r : Bytes} (h : s.rest = 40 :: r) :
    readStructType (f + 1) s = (do
      let s2 ← advance (s.adv [40] r)
      let (c3, s3) := next s2
      if c3 = some 41 then .ok (some (.struct .nil), s3)
      else structLoop f s2 .struct .nil) := by
  conv => lhs; unfold readStructType
  rw [next_cons h]
  rfl

/-- a type that starts with `(`: the keyword and name readers find nothing and `readStructType` takes over -/
theorem readType_paren {f : Nat} {s : St} {r : Bytes} (h : s.rest = 40 :: r) (hnc : NoCrash (readType (f + 1) s)) :
    readType (f + 1) s = readStructType f s := by
  rw [readType_default h (by decide) (by decide)] at hnc ⊢
  have h1 := readKeyword_none (s := s) (by rw [h]; exact (by decide : isLower 40 = false)) hnc.of_bind
  rw [bind_ok_eq h1] at hnc ⊢
  simp only [ne_eq, not_true_eq_false, ↓reduceIte] at hnc ⊢
  have h2 := readTypeName_none (s := s) (by rw [h]; exact (by decide : isUpper 40 = false))
  rw [bind_ok_eq h2]
  simp

/-! ### types -/

def LFields.g1 : LFields → Gap
  | .last g1 _ _ _ _ _ => g1
  | .cons g1 _ _ _ _ _ _ => g1

/-- a field list without its first gap -/
def LFields.body : LFields → Bytes → Bytes
  | .last _ n g2 g3 t g4, tl => n ++ renderGap g2 (58 :: renderGap g3 (t.render (renderGap g4 (41 :: tl))))
  | .cons _ n g2 g3 t g4 r, tl => n ++ renderGap g2 (58 :: renderGap g3 (t.render (renderGap g4 (44 :: r.render tl))))

theorem LFields.render_eq (fs : LFields) (tl : Bytes) : fs.render tl = renderGap fs.g1 (fs.body tl) := by
  cases fs <;> simp [LFields.render, LFields.g1, LFields.body]

/-- the pending documentation behind a field list, given what is pending behind its first gap -/
def LFields.pendBody : LFields → Bytes → Bytes
  | .last _ _ g2 g3 t g4, lc => gapPend (t.pend (gapPend (gapPend lc g2) g3)) g4
  | .cons _ _ g2 g3 t g4 r, lc => r.pend (gapPend (t.pend (gapPend (gapPend lc g2) g3)) g4)

theorem LFields.pend_eq (fs : LFields) (lc : Bytes) : fs.pend lc = fs.pendBody (gapPend lc fs.g1) := by
  cases fs <;> simp [LFields.pend, LFields.g1, LFields.pendBody]

theorem LFields.g1_wf {fs : LFields} (h : fs.fits = true) : fs.g1.wf = true := by
  cases fs <;> simp_all [LFields.fits, LFields.g1]

theorem LFields.body_head {fs : LFields} (h : fs.fits = true) (tl : Bytes) :
    ∃ c x, fs.body tl = c :: x ∧ isLower c = true := by
  cases fs with
  | last g1 n g2 g3 t g4 =>
    simp only [LFields.fits, Bool.and_eq_true] at h
    obtain ⟨c, w, rfl, hc, _⟩ := fieldName_split h.1.1.1.1.2
    exact ⟨c, _, rfl, hc⟩
  | cons g1 n g2 g3 t g4 r =>
    simp only [LFields.fits, Bool.and_eq_true] at h
    obtain ⟨c, w, rfl, hc, _⟩ := fieldName_split h.1.1.1.1.1.2
    exact ⟨c, _, rfl, hc⟩

/-- the rendering of a type starts with a token byte -/
theorem LTy.render_head {t : LTy} (h : t.fits = true) (tl : Bytes) :
    ∃ c x, t.render tl = c :: x ∧ isLay c = false := by
  cases t with
  | named n =>
    obtain ⟨c, w, rfl, hc, _⟩ := typeName_split (by simpa [LTy.fits] using h)
    exact ⟨c, _, rfl, notLay_of_upper hc⟩
  | bool => exact ⟨98, _, rfl, by decide⟩
  | int => exact ⟨105, _, rfl, by decide⟩
  | float => exact ⟨102, _, rfl, by decide⟩
  | string => exact ⟨115, _, rfl, by decide⟩
  | object => exact ⟨111, _, rfl, by decide⟩
  | maybe t => exact ⟨63, _, rfl, by decide⟩
  | array t => exact ⟨91, _, rfl, by decide⟩
  | map t => exact ⟨91, _, rfl, by decide⟩
  | unit g => exact ⟨40, _, rfl, by decide⟩
  | struct fs => exact ⟨40, _, rfl, by decide⟩
  | enum g1 n g4 r => exact ⟨40, _, rfl, by decide⟩

theorem LTy.erase_isMaybe (t : LTy) : t.erase.isMaybe = t.isMaybe := by
  cases t <;> rfl

/-- reading a builtin type keyword -/
theorem readType_builtin {f : Nat} {s : St} {k tail : Bytes} {ty : Ty}
    (hsel : (k = kwBool ∧ ty = .bool) ∨ (k = kwInt ∧ ty = .int) ∨ (k = kwFloat ∧ ty = .float) ∨
      (k = kwString ∧ ty = .string) ∨ (k = kwObject ∧ ty = .object))
    (h : s.rest = k ++ tail) (hstop : Stop tail) (hnc : NoCrash (readType (f + 1) s)) :
    ∃ s', readType (f + 1) s = .ok (some ty, s') ∧ s'.rest = tail ∧ Dirty s' ∧ s'.lastComment = s.lastComment := by
  have hk : (∀ c ∈ k, isLower c = true) ∧ ∃ c w, k = c :: w ∧ c ≠ 63 ∧ c ≠ 91 := by
    rcases hsel with ⟨rfl, _⟩ | ⟨rfl, _⟩ | ⟨rfl, _⟩ | ⟨rfl, _⟩ | ⟨rfl, _⟩ <;>
      exact ⟨by decide, _, _, rfl, by decide, by decide⟩
  obtain ⟨hlow, c, w, rfl, h63, h91⟩ := hk
  rw [readType_default (r := w ++ tail) (by simpa using h) h63 h91] at hnc ⊢
  have h1 := readKeyword_lit hlow h hstop hnc.of_bind
  rw [bind_ok_eq h1] at hnc ⊢
  refine ⟨s.adv (c :: w) tail, ?_, rfl, dirty_adv (isBlank_cons_false (notLay_of_lower (hlow c List.mem_cons_self))), rfl⟩
  rcases hsel with ⟨hk, rfl⟩ | ⟨hk, rfl⟩ | ⟨hk, rfl⟩ | ⟨hk, rfl⟩ | ⟨hk, rfl⟩ <;> rw [hk] <;> rfl

theorem upper_not_lower {c : UInt8} (hc : isUpper c = true) : isLower c = false := by
  cases hl : isLower c with
  | false => rfl
  | true =>
    exfalso
    simp only [isLower, isUpper, Bool.and_eq_true, decide_eq_true_eq] at hl hc
    have h1 := UInt8.le_iff_toNat_le.mp hl.1
    have h2 := UInt8.le_iff_toNat_le.mp hc.2
    simp at h1 h2; omega

theorem lower_ne_41 {c : UInt8} (hc : isLower c = true) : c ≠ 41 := by
  intro he; subst he; revert hc; decide

theorem Fields.revAppend_typed_nil (acc : Fields) (n : Bytes) (t : Ty) :
    mkFieldList .struct (.typed n t acc) = .struct (Fields.revAppend acc (.typed n t .nil)) := rfl

mutual
theorem readType_fwd : ∀ (t : LTy) (f : Nat) (s : St) (tail : Bytes), t.fits = true → s.rest = t.render tail →
    (t.endsWord = true → Stop tail) → NoCrash (readType f s) →
    ∃ s', readType f s = .ok (some t.erase, s') ∧ s'.rest = tail ∧ Dirty s' ∧ s'.lastComment = t.pend s.lastComment
  | .bool, f, s, tail, _, h, hstop, hnc => by
    obtain ⟨f0, rfl⟩ := readType_fuel hnc
    exact readType_builtin (k := tBool) (Or.inl ⟨rfl, rfl⟩) h (hstop rfl) hnc
  | .int, f, s, tail, _, h, hstop, hnc => by
    obtain ⟨f0, rfl⟩ := readType_fuel hnc
    exact readType_builtin (k := tInt) (Or.inr (Or.inl ⟨rfl, rfl⟩)) h (hstop rfl) hnc
  | .float, f, s, tail, _, h, hstop, hnc => by
    obtain ⟨f0, rfl⟩ := readType_fuel hnc
    exact readType_builtin (k := tFloat) (Or.inr (Or.inr (Or.inl ⟨rfl, rfl⟩))) h (hstop rfl) hnc
  | .string, f, s, tail, _, h, hstop, hnc => by
    obtain ⟨f0, rfl⟩ := readType_fuel hnc
    exact readType_builtin (k := tString) (Or.inr (Or.inr (Or.inr (Or.inl ⟨rfl, rfl⟩)))) h (hstop rfl) hnc
  | .object, f, s, tail, _, h, hstop, hnc => by
    obtain ⟨f0, rfl⟩ := readType_fuel hnc
    exact readType_builtin (k := tObject) (Or.inr (Or.inr (Or.inr (Or.inr ⟨rfl, rfl⟩)))) h (hstop rfl) hnc
  | .named n, f, s, tail, hfit, h, hstop, hnc => by
    obtain ⟨f0, rfl⟩ := readType_fuel hnc
    obtain ⟨c, w, rfl, hc, hw⟩ := typeName_split (by simpa [LTy.fits] using hfit)
    simp only [LTy.render] at h
    have h63 : c ≠ 63 := by intro he; subst he; revert hc; decide
    have h91 : c ≠ 91 := by intro he; subst he; revert hc; decide
    rw [readType_default (r := w ++ tail) (by simpa using h) h63 h91] at hnc ⊢
    have h1 := readKeyword_none (s := s) (by rw [h]; exact upper_not_lower hc) hnc.of_bind
    rw [bind_ok_eq h1] at hnc ⊢
    simp only [ne_eq, not_true_eq_false, ↓reduceIte] at hnc ⊢
    have h2 := readTypeName_fwd h hc hw (hstop rfl).alnum hnc.of_bind
    rw [bind_ok_eq h2]
    simp only [reduceCtorEq, not_false_eq_true, ↓reduceIte]
    exact ⟨_, rfl, rfl, dirty_adv (isBlank_cons_false (notLay_of_upper hc)), rfl⟩
  | .maybe t, f, s, tail, hfit, h, hstop, hnc => by
    obtain ⟨f0, rfl⟩ := readType_fuel hnc
    simp only [LTy.fits, Bool.and_eq_true, Bool.not_eq_true'] at hfit
    simp only [LTy.render] at h
    rw [readType_q h] at hnc ⊢
    obtain ⟨s', h1, hr1, hd1, hl1⟩ := readType_fwd t f0 (s.adv [63] (t.render tail)) tail hfit.2 rfl hstop hnc.of_bind
    rw [bind_ok_eq h1]
    simp only [LTy.erase_isMaybe, hfit.1, Bool.false_eq_true, ↓reduceIte]
    exact ⟨s', rfl, hr1, hd1, hl1⟩
  | .array t, f, s, tail, hfit, h, hstop, hnc => by
    obtain ⟨f0, rfl⟩ := readType_fuel hnc
    simp only [LTy.fits] at hfit
    have h' : s.rest = 91 :: 93 :: t.render tail := by simpa [LTy.render, tArray] using h
    rw [readType_br h'] at hnc ⊢
    have h1 := readKeyword_none (s := s.adv [91] (93 :: t.render tail))
      (by exact (by decide : isLower 93 = false)) hnc.of_bind
    rw [bind_ok_eq h1] at hnc ⊢
    simp only [Bool.or_true, decide_true, Bool.not_true, Bool.false_eq_true, ↓reduceIte] at hnc ⊢
    rw [next_cons (s := s.adv [91] (93 :: t.render tail)) (c := 93) (r := t.render tail) rfl] at hnc ⊢
    simp only [ne_eq, not_true_eq_false, ↓reduceIte] at hnc ⊢
    obtain ⟨s', h2, hr2, hd2, hl2⟩ := readType_fwd t f0 _ tail hfit rfl hstop hnc.of_bind
    rw [bind_ok_eq h2]
    exact ⟨s', rfl, hr2, hd2, hl2⟩
  | .map t, f, s, tail, hfit, h, hstop, hnc => by
    obtain ⟨f0, rfl⟩ := readType_fuel hnc
    simp only [LTy.fits] at hfit
    have h' : s.rest = 91 :: (kwString ++ 93 :: t.render tail) := by simpa [LTy.render, tMap, kwString] using h
    rw [readType_br h'] at hnc ⊢
    have h1 := readKeyword_fwd (s := s.adv [91] (kwString ++ 93 :: t.render tail)) (w := kwString)
      (r := 93 :: t.render tail) rfl (by decide) (by exact (by decide : isLower 93 = false)) hnc.of_bind
    rw [bind_ok_eq h1] at hnc ⊢
    simp only [decide_true, Bool.true_or, Bool.not_true, Bool.false_eq_true, ↓reduceIte] at hnc ⊢
    rw [next_cons (s := (s.adv [91] (kwString ++ 93 :: t.render tail)).adv kwString (93 :: t.render tail))
      (c := 93) (r := t.render tail) rfl] at hnc ⊢
    simp only [ne_eq, not_true_eq_false, ↓reduceIte] at hnc ⊢
    obtain ⟨s', h2, hr2, hd2, hl2⟩ := readType_fwd t f0 _ tail hfit rfl hstop hnc.of_bind
    rw [bind_ok_eq h2]
    refine ⟨s', ?_, hr2, hd2, hl2⟩
    simp [kwString, LTy.erase]
  | .unit g, f, s, tail, hfit, h, hstop, hnc => by
    obtain ⟨f0, rfl⟩ := readType_fuel hnc
    simp only [LTy.fits] at hfit
    simp only [LTy.render] at h
    have hp := readType_paren h hnc
    rw [hp] at hnc ⊢
    obtain ⟨f1, rfl⟩ := readStructType_fuel hnc
    rw [readStructType_open h] at hnc ⊢
    obtain ⟨s2, h1, hr1, hl1⟩ := advance_fwd_lc (s := s.adv [40] (renderGap g (41 :: tail))) (g := g)
      (tail := 41 :: tail) rfl hfit (tailOk_cons _ (by decide)) (dirty_adv (by decide)) hnc.of_bind
    rw [bind_ok_eq h1]
    rw [next_cons hr1]
    simp only [↓reduceIte]
    exact ⟨_, rfl, rfl, dirty_adv (by decide), hl1⟩
  | .struct fs, f, s, tail, hfit, h, hstop, hnc => by
    obtain ⟨f0, rfl⟩ := readType_fuel hnc
    simp only [LTy.fits] at hfit
    simp only [LTy.render] at h
    have hp := readType_paren h hnc
    rw [hp] at hnc ⊢
    obtain ⟨f1, rfl⟩ := readStructType_fuel hnc
    rw [readStructType_open h] at hnc ⊢
    obtain ⟨c, x, hb, hc⟩ := LFields.body_head hfit tail
    obtain ⟨s2, h1, hr1, hl1⟩ := advance_fwd_lc (s := s.adv [40] (fs.render tail)) (g := fs.g1)
      (tail := fs.body tail) (by rw [LFields.render_eq]; rfl) (LFields.g1_wf hfit)
      (by rw [hb]; exact tailOk_cons _ (notLay_of_lower hc)) (dirty_adv (by decide)) hnc.of_bind
    rw [bind_ok_eq h1] at hnc ⊢
    rw [hb] at hr1
    rw [next_cons hr1] at hnc ⊢
    simp only [Option.some.injEq, lower_ne_41 hc, ↓reduceIte] at hnc ⊢
    rw [← hb] at hr1
    obtain ⟨s', h2, hr2, hd2, hl2⟩ := fields_fwd fs f1 s2 [] tail .nil hfit rfl hr1 hnc
    refine ⟨s', by rw [h2]; rfl, hr2, hd2, ?_⟩
    rw [hl2]
    show fs.pendBody s2.lastComment = fs.pend s.lastComment
    rw [hl1, LFields.pend_eq]; rfl
  | .enum g1 n g4 r, f, s, tail, hfit, h, hstop, hnc => by
    obtain ⟨f0, rfl⟩ := readType_fuel hnc
    simp only [LTy.fits, Bool.and_eq_true] at hfit
    obtain ⟨⟨⟨hg1, hn⟩, hg4⟩, hr⟩ := hfit
    simp only [LTy.render] at h
    have hp := readType_paren h hnc
    rw [hp] at hnc ⊢
    obtain ⟨f1, rfl⟩ := readStructType_fuel hnc
    rw [readStructType_open h] at hnc ⊢
    obtain ⟨c, w, rfl, hc, hw⟩ := fieldName_split hn
    obtain ⟨s2, h1, hr1, hl1⟩ := advance_fwd_lc (s := s.adv [40] (renderGap g1 (c :: w ++ renderGap g4 (renderNames r tail))))
      (g := g1) (tail := c :: w ++ renderGap g4 (renderNames r tail)) rfl hg1
      (tailOk_append (notLay_of_lower hc)) (dirty_adv (by decide)) hnc.of_bind
    rw [bind_ok_eq h1] at hnc ⊢
    rw [next_cons (r := w ++ renderGap g4 (renderNames r tail)) (by simpa using hr1)] at hnc ⊢
    simp only [Option.some.injEq, lower_ne_41 hc, ↓reduceIte] at hnc ⊢
    -- the first name
    obtain ⟨f2, rfl⟩ := structLoop_fuel hnc
    unfold structLoop at hnc ⊢
    have h2 := advance_none (s := s2) (by rw [hr1]; exact tailOk_append (notLay_of_lower hc)) hnc.of_bind
    rw [bind_ok_eq h2] at hnc ⊢
    obtain ⟨d, x, hx, hd⟩ := renderNames_head r tail
    have hstop4 : Stop (renderGap g4 (renderNames r tail)) :=
      stop_renderGap g4 (by rw [hx]; rcases hd with rfl | rfl <;> exact stop_cons _ (by decide))
    have h3 := readFieldName_fwd hr1 hc hw hstop4 hnc.of_bind
    rw [bind_ok_eq h3] at hnc ⊢
    simp only at hnc ⊢
    rw [if_neg (by simp)] at hnc ⊢
    obtain ⟨s3, h4, hr3, hl3⟩ := advance_fwd_lc (s := s2.adv (c :: w) (renderGap g4 (renderNames r tail))) (g := g4)
      (tail := renderNames r tail) rfl hg4
      (by rw [hx]; rcases hd with rfl | rfl <;> exact tailOk_cons _ (by decide))
      (dirty_adv (isBlank_cons_false (notLay_of_lower hc))) hnc.of_bind
    rw [bind_ok_eq h4] at hnc ⊢
    rw [hx] at hr3
    rw [next_cons hr3] at hnc ⊢
    simp only at hnc ⊢
    rw [if_neg (by rcases hd with rfl | rfl <;> decide)] at hnc ⊢
    rw [if_neg (by simp [Fields.isNil])] at hnc ⊢
    rw [← hx] at hr3
    obtain ⟨s', h5, hr5, hd5, hl5⟩ := names_fwd r f2 s3 tail (.bare (c :: w) .nil) hr hr3 hnc
    simp only [St.adv_lastComment] at hl1 hl3
    exact ⟨s', by rw [h5]; rfl, hr5, hd5, by rw [hl5, hl3, hl1]; rfl⟩
theorem fields_fwd : ∀ (fs : LFields) (f : Nat) (s : St) (g : Gap) (tail : Bytes) (acc : Fields), fs.fits = true →
    g.wf = true → s.rest = renderGap g (fs.body tail) → NoCrash (structLoop f s .struct acc) →
    ∃ s', structLoop f s .struct acc = .ok (some (.struct (Fields.revAppend acc fs.erase)), s') ∧
      s'.rest = tail ∧ Dirty s' ∧ s'.lastComment = fs.pendBody (gapDoc (dst s) g).2
  | .last g1 n g2 g3 t g4, f, s, g, tail, acc, hfit, hg, h, hnc => by
    simp only [LFields.fits, Bool.and_eq_true] at hfit
    obtain ⟨⟨⟨⟨⟨_, hn⟩, hg2⟩, hg3⟩, ht⟩, hg4⟩ := hfit
    simp only [LFields.body] at h
    obtain ⟨f0, rfl⟩ := structLoop_fuel hnc
    unfold structLoop at hnc ⊢
    obtain ⟨c, w, rfl, hc, hw⟩ := fieldName_split hn
    obtain ⟨s1, h1, hr1, hd1⟩ := advance_fwd h hg (tailOk_append (notLay_of_lower hc)) hnc.of_bind
    have hl1 : s1.lastComment = (gapDoc (dst s) g).2 := congrArg Prod.snd hd1
    rw [bind_ok_eq h1] at hnc ⊢
    have h2 := readFieldName_fwd hr1 hc hw (stop_renderGap g2 (stop_cons _ (by decide))) hnc.of_bind
    rw [bind_ok_eq h2] at hnc ⊢
    simp only at hnc ⊢
    rw [if_neg (by simp)] at hnc ⊢
    obtain ⟨s3, h3, hr3, hl3⟩ := advance_fwd_lc (s := s1.adv (c :: w) (renderGap g2 (58 :: renderGap g3 (t.render (renderGap g4 (41 :: tail))))))
      (g := g2) (tail := 58 :: renderGap g3 (t.render (renderGap g4 (41 :: tail)))) rfl hg2
      (tailOk_cons _ (by decide)) (dirty_adv (isBlank_cons_false (notLay_of_lower hc))) hnc.of_bind
    rw [bind_ok_eq h3] at hnc ⊢
    rw [next_cons hr3] at hnc ⊢
    simp only [↓reduceIte] at hnc ⊢
    rw [if_neg (by decide)] at hnc ⊢
    obtain ⟨ct, xt, hxt, hct⟩ := LTy.render_head ht (renderGap g4 (41 :: tail))
    obtain ⟨s5, h5, hr5, hl5⟩ := advance_fwd_lc (s := s3.adv [58] (renderGap g3 (t.render (renderGap g4 (41 :: tail)))))
      (g := g3) (tail := t.render (renderGap g4 (41 :: tail))) rfl hg3
      (by rw [hxt]; exact tailOk_cons _ hct) (dirty_adv (by decide)) hnc.of_bind
    rw [bind_ok_eq h5] at hnc ⊢
    obtain ⟨s6, h6, hr6, hd6, hl6⟩ := readType_fwd t f0 s5 (renderGap g4 (41 :: tail)) ht hr5
      (fun _ => stop_renderGap g4 (stop_cons _ (by decide))) hnc.of_bind
    rw [bind_ok_eq h6] at hnc ⊢
    simp only at hnc ⊢
    -- structTail
    obtain ⟨f1, rfl⟩ := structTail_fuel hnc
    unfold structTail at hnc ⊢
    obtain ⟨s7, h7, hr7, hl7⟩ := advance_fwd_lc hr6 hg4 (tailOk_cons _ (by decide)) hd6 hnc.of_bind
    simp only [St.adv_lastComment] at hl3 hl5
    rw [bind_ok_eq h7] at hnc ⊢
    rw [next_cons hr7]
    simp only [Option.some.injEq, ↓reduceIte]
    rw [if_neg (by decide)]
    refine ⟨_, rfl, rfl, dirty_adv (by decide), ?_⟩
    simp only [St.adv_lastComment, hl7, hl6, hl5, hl3, hl1, LFields.pendBody]
  | .cons g1 n g2 g3 t g4 r, f, s, g, tail, acc, hfit, hg, h, hnc => by
    simp only [LFields.fits, Bool.and_eq_true] at hfit
    obtain ⟨⟨⟨⟨⟨⟨_, hn⟩, hg2⟩, hg3⟩, ht⟩, hg4⟩, hr⟩ := hfit
    simp only [LFields.body] at h
    obtain ⟨f0, rfl⟩ := structLoop_fuel hnc
    unfold structLoop at hnc ⊢
    obtain ⟨c, w, rfl, hc, hw⟩ := fieldName_split hn
    obtain ⟨s1, h1, hr1, hd1⟩ := advance_fwd h hg (tailOk_append (notLay_of_lower hc)) hnc.of_bind
    have hl1 : s1.lastComment = (gapDoc (dst s) g).2 := congrArg Prod.snd hd1
    rw [bind_ok_eq h1] at hnc ⊢
    have h2 := readFieldName_fwd hr1 hc hw (stop_renderGap g2 (stop_cons _ (by decide))) hnc.of_bind
    rw [bind_ok_eq h2] at hnc ⊢
    simp only at hnc ⊢
    rw [if_neg (by simp)] at hnc ⊢
    obtain ⟨s3, h3, hr3, hl3⟩ := advance_fwd_lc (s := s1.adv (c :: w) (renderGap g2 (58 :: renderGap g3 (t.render (renderGap g4 (44 :: r.render tail))))))
      (g := g2) (tail := 58 :: renderGap g3 (t.render (renderGap g4 (44 :: r.render tail)))) rfl hg2
      (tailOk_cons _ (by decide)) (dirty_adv (isBlank_cons_false (notLay_of_lower hc))) hnc.of_bind
    rw [bind_ok_eq h3] at hnc ⊢
    rw [next_cons hr3] at hnc ⊢
    simp only [↓reduceIte] at hnc ⊢
    rw [if_neg (by decide)] at hnc ⊢
    obtain ⟨ct, xt, hxt, hct⟩ := LTy.render_head ht (renderGap g4 (44 :: r.render tail))
    obtain ⟨s5, h5, hr5, hl5⟩ := advance_fwd_lc (s := s3.adv [58] (renderGap g3 (t.render (renderGap g4 (44 :: r.render tail)))))
      (g := g3) (tail := t.render (renderGap g4 (44 :: r.render tail))) rfl hg3
      (by rw [hxt]; exact tailOk_cons _ hct) (dirty_adv (by decide)) hnc.of_bind
    rw [bind_ok_eq h5] at hnc ⊢
    obtain ⟨s6, h6, hr6, hd6, hl6⟩ := readType_fwd t f0 s5 (renderGap g4 (44 :: r.render tail)) ht hr5
      (fun _ => stop_renderGap g4 (stop_cons _ (by decide))) hnc.of_bind
    rw [bind_ok_eq h6] at hnc ⊢
    simp only at hnc ⊢
    -- structTail
    obtain ⟨f1, rfl⟩ := structTail_fuel hnc
    unfold structTail at hnc ⊢
    obtain ⟨s7, h7, hr7, hl7⟩ := advance_fwd_lc hr6 hg4 (tailOk_cons _ (by decide)) hd6 hnc.of_bind
    simp only [St.adv_lastComment] at hl3 hl5
    rw [bind_ok_eq h7] at hnc ⊢
    rw [next_cons hr7] at hnc ⊢
    simp only [↓reduceIte] at hnc ⊢
    obtain ⟨s', h8, hr8, hd8, hl8⟩ := fields_fwd r f1 (s7.adv [44] (r.render tail)) r.g1 tail (.typed (c :: w) t.erase acc) hr
      (LFields.g1_wf hr) (by rw [LFields.render_eq]; rfl) hnc
    refine ⟨s', by rw [h8]; rfl, hr8, hd8, ?_⟩
    have e : (gapDoc (dst (s7.adv [44] (r.render tail))) r.g1).2 = gapPend s7.lastComment r.g1 := by
      rw [dst_of_dirty (dirty_adv (by decide))]; rfl
    rw [hl8, e, ← LFields.pend_eq]
    simp only [hl7, hl6, hl5, hl3, hl1, LFields.pendBody]
end

/-! ### members -/

theorem LTy.render_stop {t : LTy} (hf : t.fits = true) (h : t.startsWord = false) (tl : Bytes) : Stop (t.render tl) := by
  cases t <;> simp_all [LTy.startsWord, LTy.render, StopAt, tArray, tMap] <;> decide

/-- the gap between a name and the type behind it separates them -/
theorem stop_sep {g : Gap} {t : LTy} (hf : t.fits = true) (h : sepOk g t = true) (tl : Bytes) :
    Stop (renderGap g (t.render tl)) := by
  apply stop_renderGap_of
  simp only [sepOk, Bool.or_eq_true, Bool.not_eq_true'] at h
  rcases h with h | h
  · exact Or.inr (LTy.render_stop hf h tl)
  · exact Or.inl h

theorem tailOk_ty {t : LTy} (hf : t.fits = true) (tl : Bytes) : TailOk (t.render tl) := by
  obtain ⟨c, x, hx, hc⟩ := LTy.render_head hf tl
  rw [hx]; exact hc

/-- a parenthesised list starts with `(` -/
theorem LTy.render_list {t : LTy} (h : t.isList = true) (tl : Bytes) : ∃ x, t.render tl = 40 :: x := by
  cases t <;> simp [LTy.isList] at h
  · exact ⟨_, rfl⟩
  · exact ⟨_, rfl⟩
  · exact ⟨_, rfl⟩

theorem readAlias_fwd {s : St} {g1 g4 : Gap} {n tail : Bytes} {t : LTy}
    (hfit : (LMember.alias g1 n g4 t).fits = true)
    (h : s.rest = renderGap g1 (n ++ renderGap g4 (t.render tail))) (hstop : t.endsWord = true → Stop tail)
    (hds : Dirty s) (hnc : NoCrash (readAlias s)) :
    ∃ s', readAlias s = .ok (.alias n s.lastComment t.erase, s') ∧ s'.rest = tail ∧ Dirty s' ∧
      s'.lastComment = (LMember.alias g1 n g4 t).pend s.lastComment := by
  simp only [LMember.fits, Bool.and_eq_true, Bool.not_eq_true'] at hfit
  obtain ⟨⟨⟨⟨⟨hg1, _⟩, hn⟩, hg4⟩, hsep⟩, ht⟩ := hfit
  unfold readAlias at hnc ⊢
  obtain ⟨c, w, rfl, hc, hw⟩ := typeName_split hn
  obtain ⟨s1, h1, hr1, hl1⟩ := advance_fwd_lc h hg1 (tailOk_append (notLay_of_upper hc)) hds hnc.of_bind
  rw [bind_ok_eq h1] at hnc ⊢
  have h2 := readTypeName_fwd hr1 hc hw (stop_sep ht hsep tail).alnum hnc.of_bind
  rw [bind_ok_eq h2] at hnc ⊢
  simp only at hnc ⊢
  rw [if_neg (by simp)] at hnc ⊢
  obtain ⟨s3, h3, hr3, hl3⟩ := advance_fwd_lc (s := s1.adv (c :: w) (renderGap g4 (t.render tail))) (g := g4)
    (tail := t.render tail) rfl hg4 (tailOk_ty ht tail) (dirty_adv (isBlank_cons_false (notLay_of_upper hc))) hnc.of_bind
  rw [bind_ok_eq h3] at hnc ⊢
  obtain ⟨s4, h4, hr4, hd4, hl4⟩ := readType_fwd t _ s3 tail ht hr3 hstop hnc.of_bind
  rw [bind_ok_eq h4]
  simp only [St.adv_lastComment] at hl3
  exact ⟨s4, rfl, hr4, hd4, by rw [hl4, hl3, hl1]; rfl⟩

theorem readMethod_fwd {s : St} {g1 g4 g5 g5' : Gap} {n tail : Bytes} {i o : LTy}
    (hfit : (LMember.method g1 n g4 i g5 g5' o).fits = true)
    (h : s.rest = renderGap g1 (n ++ renderGap g4 (i.render (renderGap g5 (tArrow ++ renderGap g5' (o.render tail))))))
    (hstop : o.endsWord = true → Stop tail) (hds : Dirty s) (hnc : NoCrash (readMethod s)) :
    ∃ s', readMethod s = .ok (.method n s.lastComment i.erase o.erase, s') ∧ s'.rest = tail ∧ Dirty s' ∧
      s'.lastComment = (LMember.method g1 n g4 i g5 g5' o).pend s.lastComment := by
  simp only [LMember.fits, Bool.and_eq_true, Bool.not_eq_true'] at hfit
  obtain ⟨⟨⟨⟨⟨⟨⟨⟨hg1, _⟩, hn⟩, hg4⟩, hsep⟩, hi⟩, hg5⟩, hg5'⟩, ho⟩ := hfit
  unfold readMethod at hnc ⊢
  obtain ⟨c, w, rfl, hc, hw⟩ := typeName_split hn
  obtain ⟨s1, h1, hr1, hl1⟩ := advance_fwd_lc h hg1 (tailOk_append (notLay_of_upper hc)) hds hnc.of_bind
  rw [bind_ok_eq h1] at hnc ⊢
  have h2 := readTypeName_fwd hr1 hc hw (stop_sep hi hsep _).alnum hnc.of_bind
  rw [bind_ok_eq h2] at hnc ⊢
  simp only at hnc ⊢
  rw [if_neg (by simp)] at hnc ⊢
  obtain ⟨s3, h3, hr3, hl3⟩ := advance_fwd_lc
    (s := s1.adv (c :: w) (renderGap g4 (i.render (renderGap g5 (tArrow ++ renderGap g5' (o.render tail))))))
    (g := g4) (tail := i.render (renderGap g5 (tArrow ++ renderGap g5' (o.render tail)))) rfl hg4
    (tailOk_ty hi _) (dirty_adv (isBlank_cons_false (notLay_of_upper hc))) hnc.of_bind
  rw [bind_ok_eq h3] at hnc ⊢
  obtain ⟨s4, h4, hr4, hd4, hl4⟩ := readType_fwd i _ s3 _ hi hr3
    (fun _ => stop_renderGap g5 (stop_cons (c := 45) _ (by decide))) hnc.of_bind
  rw [bind_ok_eq h4] at hnc ⊢
  simp only at hnc ⊢
  obtain ⟨s5, h5, hr5, hl5⟩ := advance_fwd_lc (tail := 45 :: 62 :: renderGap g5' (o.render tail)) hr4 hg5
    (tailOk_cons _ (by decide)) hd4 hnc.of_bind
  rw [bind_ok_eq h5] at hnc ⊢
  rw [next_cons hr5] at hnc ⊢
  simp only at hnc ⊢
  rw [next_cons (s := s5.adv [45] (62 :: renderGap g5' (o.render tail))) (c := 62) rfl] at hnc ⊢
  simp only at hnc ⊢
  rw [if_neg (by simp)] at hnc ⊢
  obtain ⟨s8, h8, hr8, hl8⟩ := advance_fwd_lc
    (s := (s5.adv [45] (62 :: renderGap g5' (o.render tail))).adv [62] (renderGap g5' (o.render tail)))
    (g := g5') (tail := o.render tail) rfl hg5' (tailOk_ty ho tail) (dirty_adv (by decide)) hnc.of_bind
  rw [bind_ok_eq h8] at hnc ⊢
  obtain ⟨s9, h9, hr9, hd9, hl9⟩ := readType_fwd o _ s8 tail ho hr8 hstop hnc.of_bind
  rw [bind_ok_eq h9]
  simp only [St.adv_lastComment] at hl3 hl8
  exact ⟨s9, rfl, hr9, hd9, by rw [hl9, hl8, hl5, hl4, hl3, hl1]; rfl⟩

/-! ### `peek`: the look-ahead of `readError` -/

theorem peekLoop_comment_end : ∀ (t : Bytes), t.all (fun c => c != 10) = true → peekLoop true t = none
  | [], _ => rfl
  | c :: t, h => by
    simp only [List.all_cons, Bool.and_eq_true, bne_iff_ne, ne_eq] at h
    unfold peekLoop
    rw [if_neg h.1, if_pos (by simp)]
    exact peekLoop_comment_end t h.2

theorem peekLoop_comment_text : ∀ (t r : Bytes), t.all (fun c => c != 10) = true →
    peekLoop true (t ++ 10 :: r) = peekLoop false r
  | [], r, _ => by
    show peekLoop true (10 :: r) = _
    conv => lhs; unfold peekLoop
    rw [if_pos rfl]
  | c :: t, r, h => by
    simp only [List.all_cons, Bool.and_eq_true, bne_iff_ne, ne_eq] at h
    rw [List.cons_append]
    conv => lhs; unfold peekLoop
    rw [if_neg h.1, if_pos (by simp)]
    exact peekLoop_comment_text t r h.2

/-- the look-ahead skips one atom of a gap -/
theorem peekLoop_atom {a : Atom} (ha : a.wf = true) (r : Bytes) : peekLoop false (a.render ++ r) = peekLoop false r := by
  cases a with
  | sp => show peekLoop false (32 :: r) = _; conv => lhs; unfold peekLoop
          rw [if_neg (by decide), if_pos (by simp)]
  | tab => show peekLoop false (9 :: r) = _; conv => lhs; unfold peekLoop
           rw [if_neg (by decide), if_pos (by simp)]
  | cr => show peekLoop false (13 :: r) = _; conv => lhs; unfold peekLoop
          rw [if_neg (by decide), if_pos (by simp)]
  | nl => show peekLoop false (10 :: r) = _; conv => lhs; unfold peekLoop
          rw [if_pos rfl]
  | comment t =>
    have e : (Atom.comment t).render ++ r = 35 :: (t ++ 10 :: r) := by simp [Atom.render]
    rw [e]
    conv => lhs; unfold peekLoop
    rw [if_neg (by decide), if_neg (by simp), if_pos rfl]
    exact peekLoop_comment_text t r (by simpa [Atom.wf] using ha)

/-- … hence a whole gap: line breaks and comments included -/
theorem peekLoop_gap : ∀ (g : Gap) (x : Bytes), g.wf = true → peekLoop false (renderGap g x) = peekLoop false x
  | [], _, _ => rfl
  | a :: g, x, h => by
    simp only [Gap.wf, List.all_cons, Bool.and_eq_true] at h
    simp only [renderGap]
    rw [peekLoop_atom h.1, peekLoop_gap g x h.2]

/-- it stops at the first byte of a token -/
theorem peekLoop_tok {c : UInt8} (x : Bytes) (h : isLay c = false) : peekLoop false (c :: x) = some c := by
  simp only [isLay, Bool.or_eq_false_iff, decide_eq_false_iff_not] at h
  obtain ⟨⟨⟨⟨h1, h2⟩, h3⟩, h4⟩, h5⟩ := h
  unfold peekLoop
  rw [if_neg h4, if_neg (by simp [h1, h2, h3]), if_neg h5]

/-- at the end of the input, or in front of a last comment without line feed, it finds nothing -/
theorem peekLoop_final (fc : Option Bytes)
    (hfc : (match fc with | none => true | some t => t.all (fun c => c != 10)) = true) :
    peekLoop false (renderFinal fc) = none := by
  cases fc with
  | none => rfl
  | some t =>
    show peekLoop false (35 :: t) = none
    unfold peekLoop
    rw [if_neg (by decide), if_neg (by simp), if_pos rfl]
    exact peekLoop_comment_end t hfc

/-! ### errors -/

theorem readError_fwd {s : St} {g1 g6 : Gap} {n tail : Bytes} {t : LTy}
    (hfit : (LMember.error g1 n g6 t).fits = true)
    (h : s.rest = renderGap g1 (n ++ renderGap g6 (t.render tail))) (hstop : t.endsWord = true → Stop tail)
    (hds : Dirty s) (hnc : NoCrash (readError s)) :
    ∃ s', readError s = .ok (.error n s.lastComment (some t.erase), s') ∧ s'.rest = tail ∧ Dirty s' ∧
      s'.lastComment = (LMember.error g1 n g6 t).pend s.lastComment := by
  simp only [LMember.fits, Bool.and_eq_true, Bool.not_eq_true'] at hfit
  obtain ⟨⟨⟨⟨⟨hg1, _⟩, hn⟩, hg6⟩, hlist⟩, ht⟩ := hfit
  obtain ⟨x, hx⟩ := LTy.render_list hlist tail
  unfold readError at hnc ⊢
  obtain ⟨c, w, rfl, hc, hw⟩ := typeName_split hn
  obtain ⟨s1, h1, hr1, hl1⟩ := advance_fwd_lc h hg1 (tailOk_append (notLay_of_upper hc)) hds hnc.of_bind
  rw [bind_ok_eq h1] at hnc ⊢
  have hstopn : Stop (renderGap g6 (t.render tail)) :=
    stop_renderGap_of g6 _ (Or.inr (by rw [hx]; exact stop_cons _ (by decide)))
  have h2 := readTypeName_fwd hr1 hc hw hstopn.alnum hnc.of_bind
  rw [bind_ok_eq h2] at hnc ⊢
  simp only at hnc ⊢
  rw [if_neg (by simp)] at hnc ⊢
  -- the look-ahead finds the `(` behind the gap, whatever the gap holds
  have hpeek : peek (s1.adv (c :: w) (renderGap g6 (t.render tail))) = some 40 := by
    show peekLoop false (renderGap g6 (t.render tail)) = some 40
    rw [peekLoop_gap g6 _ hg6, hx]
    exact peekLoop_tok x (by decide)
  rw [if_neg (by rw [hpeek]; simp)] at hnc ⊢
  obtain ⟨s3, h3, hr3, hl3⟩ := advance_fwd_lc (s := s1.adv (c :: w) (renderGap g6 (t.render tail))) (g := g6)
    (tail := t.render tail) rfl hg6 (tailOk_ty ht tail) (dirty_adv (isBlank_cons_false (notLay_of_upper hc))) hnc.of_bind
  rw [bind_ok_eq h3] at hnc ⊢
  obtain ⟨s4, h4, hr4, hd4, hl4⟩ := readType_fwd t _ s3 tail ht hr3 hstop hnc.of_bind
  rw [bind_ok_eq h4]
  simp only [St.adv_lastComment] at hl3
  exact ⟨s4, rfl, hr4, hd4, by rw [hl4, hl3, hl1]; rfl⟩

/-- an error without parameters: the look-ahead finds no `(`, the cursor stays right behind the name -/
theorem readErrorBare_fwd {s : St} {g1 : Gap} {n x : Bytes}
    (hfit : (LMember.errorBare g1 n).fits = true)
    (h : s.rest = renderGap g1 (n ++ x)) (hstop : Stop x) (hpeek : peekLoop false x ≠ some 40)
    (hds : Dirty s) (hnc : NoCrash (readError s)) :
    ∃ s', readError s = .ok (.error n s.lastComment none, s') ∧ s'.rest = x ∧ Dirty s' ∧
      s'.lastComment = (LMember.errorBare g1 n).pend s.lastComment := by
  simp only [LMember.fits, Bool.and_eq_true, Bool.not_eq_true'] at hfit
  obtain ⟨⟨hg1, _⟩, hn⟩ := hfit
  unfold readError at hnc ⊢
  obtain ⟨c, w, rfl, hc, hw⟩ := typeName_split hn
  obtain ⟨s1, h1, hr1, hl1⟩ := advance_fwd_lc h hg1 (tailOk_append (notLay_of_upper hc)) hds hnc.of_bind
  rw [bind_ok_eq h1] at hnc ⊢
  have h2 := readTypeName_fwd hr1 hc hw hstop.alnum hnc.of_bind
  rw [bind_ok_eq h2] at hnc ⊢
  simp only at hnc ⊢
  rw [if_neg (by simp)] at hnc ⊢
  have hp : peek (s1.adv (c :: w) x) ≠ some 40 := hpeek
  rw [if_pos hp]
  exact ⟨_, rfl, rfl, dirty_adv (isBlank_cons_false (notLay_of_upper hc)), hl1⟩

/-! ### the member loop -/

/-- the gap behind the members read so far: in front of the next member, or at the end -/
def nextGap (r : List (Gap × LMember)) (gEnd : Gap) : Gap :=
  match r with
  | [] => gEnd
  | (g, _) :: _ => g

/-- the text behind that gap -/
def afterText (r : List (Gap × LMember)) (gEnd : Gap) (fc : Option Bytes) : Bytes :=
  match r with
  | [] => renderFinal fc
  | (_, m) :: r' => m.render (renderMembers r' (renderGap gEnd (renderFinal fc)))

theorem renderMembers_eq (r : List (Gap × LMember)) (gEnd : Gap) (fc : Option Bytes) :
    renderMembers r (renderGap gEnd (renderFinal fc)) = renderGap (nextGap r gEnd) (afterText r gEnd fc) := by
  cases r with
  | nil => rfl
  | cons p r => obtain ⟨g, m⟩ := p; rfl

/-- a gap with a line break forgets what was pending in front of it -/
theorem gapDoc_break : ∀ (g : Gap) (lc : Bytes), g.hasBreak = true → gapDoc (false, lc) g = gapDoc (false, []) g
  | [], _, h => by simp [Gap.hasBreak] at h
  | a :: g, lc, h => by
    simp only [Gap.hasBreak, List.any_cons, Bool.or_eq_true] at h
    cases a with
    | sp => simp only [gapDoc, List.foldl_cons, docStep]; exact gapDoc_break g lc (by simpa [Atom.isBreak, Gap.hasBreak] using h)
    | tab => simp only [gapDoc, List.foldl_cons, docStep]; exact gapDoc_break g lc (by simpa [Atom.isBreak, Gap.hasBreak] using h)
    | cr => simp only [gapDoc, List.foldl_cons, docStep]; exact gapDoc_break g lc (by simpa [Atom.isBreak, Gap.hasBreak] using h)
    | nl => simp [gapDoc, docStep]
    | comment t => simp [gapDoc, docStep]

/-- the documentation of a member that starts on a new line is `docOf` of the gap in front of it -/
theorem gapPend_break (g : Gap) (lc : Bytes) (h : g.hasBreak = true) : gapPend lc g = docOf g := by
  unfold docOf gapPend; rw [gapDoc_break g lc h]

theorem renderFinal_head (fc : Option Bytes) : renderFinal fc = [] ∨ ∃ r, renderFinal fc = 35 :: r := by
  cases fc with
  | none => exact Or.inl rfl
  | some t => exact Or.inr ⟨t, rfl⟩

theorem renderFinal_stop (fc : Option Bytes) : Stop (renderFinal fc) := by
  rcases renderFinal_head fc with h | ⟨r, h⟩ <;> rw [h]
  · trivial
  · exact stop_cons _ (by decide)

/-- a member starts with its keyword -/
theorem LMember.render_head (m : LMember) (tl : Bytes) :
    ∃ c x, m.render tl = c :: x ∧ isLay c = false ∧ c ≠ 40 := by
  cases m with
  | alias g1 n g4 t => exact ⟨116, _, rfl, by decide, by decide⟩
  | method g1 n g4 i g5 g5' o => exact ⟨109, _, rfl, by decide, by decide⟩
  | errorBare g1 n => exact ⟨101, _, rfl, by decide, by decide⟩
  | error g1 n g6 t => exact ⟨101, _, rfl, by decide, by decide⟩

/-- behind a member that ends in a word: a non-empty gap, the end of the input or a last comment -/
theorem stop_after_member (r : List (Gap × LMember)) (gEnd : Gap) (fc : Option Bytes)
    (hr : membersFit true r = true) : Stop (renderGap (nextGap r gEnd) (afterText r gEnd fc)) := by
  cases r with
  | nil => exact stop_renderGap gEnd (renderFinal_stop fc)
  | cons p r =>
    obtain ⟨g, m⟩ := p
    simp only [membersFit, Bool.and_eq_true, Bool.not_true, Bool.false_or, Bool.not_eq_true'] at hr
    exact stop_renderGap_of g _ (Or.inl (by simpa using hr.1.1.2))

/-- behind a member the look-ahead finds the next keyword or nothing, never a `(` -/
theorem peek_after_member (r : List (Gap × LMember)) (gEnd : Gap) (fc : Option Bytes) (pw : Bool)
    (hr : membersFit pw r = true) (hE : gEnd.wf = true)
    (hfc : (match fc with | none => true | some t => t.all (fun c => c != 10)) = true) :
    peekLoop false (renderGap (nextGap r gEnd) (afterText r gEnd fc)) ≠ some 40 := by
  cases r with
  | nil =>
    show peekLoop false (renderGap gEnd (renderFinal fc)) ≠ some 40
    rw [peekLoop_gap gEnd _ hE, peekLoop_final fc hfc]
    simp
  | cons p r =>
    obtain ⟨g, m⟩ := p
    simp only [membersFit, Bool.and_eq_true] at hr
    obtain ⟨c, x, hx, hc, h40⟩ := m.render_head (renderMembers r (renderGap gEnd (renderFinal fc)))
    show peekLoop false (renderGap g (m.render _)) ≠ some 40
    rw [peekLoop_gap g _ hr.1.1.1, hx, peekLoop_tok x hc]
    simpa using h40

theorem nextGap_wf (r : List (Gap × LMember)) (gEnd : Gap) (pw : Bool) (hr : membersFit pw r = true)
    (hE : gEnd.wf = true) : (nextGap r gEnd).wf = true := by
  cases r with
  | nil => exact hE
  | cons p r =>
    obtain ⟨g, m⟩ := p
    simp only [membersFit, Bool.and_eq_true] at hr
    exact hr.1.1.1

theorem more_of_wf {s : St} (hw : WF s) : s.more = !s.rest.isEmpty := by
  have := hw.1
  cases hr : s.rest with
  | nil => simp [St.more, hr] at this ⊢; omega
  | cons c r => simp [St.more, hr] at this ⊢; omega

theorem sat_ok {α} {o : Out α} {P : α → Prop} {a : α} (h : o.Sat P) (he : o = .ok a) : P a := by
  subst he; exact h

theorem membersLoop_fwd (gEnd : Gap) (fc : Option Bytes) (hE : gEnd.wf = true)
    (hfc : (match fc with | none => true | some t => t.all (fun c => c != 10)) = true) :
    ∀ (r : List (Gap × LMember)) (pw : Bool) (f : Nat) (s : St) (names : List Bytes) (acc : List Member),
    membersFit pw r = true → s.rest = renderGap (nextGap r gEnd) (afterText r gEnd fc) →
    WF s → s.rest.length < f → Dirty s →
    (∀ p ∈ r, p.2.name ∉ names) → uniqueNames (r.map fun p => p.2.name) = true →
    ∃ s', membersLoop f s names acc = .ok (acc.reverse ++ membersTree s.lastComment r, s') := by
  intro r
  induction r with
  | nil =>
    intro pw f s names acc _ h hw hf _ _ _
    have hnc : NoCrash (membersLoop f s names acc) := (membersLoop_sat f s names acc hw hf).noCrash
    obtain ⟨f0, rfl⟩ : ∃ f0, f = f0 + 1 := by
      cases f with
      | zero => exact absurd rfl hnc.2
      | succ f0 => exact ⟨f0, rfl⟩
    unfold membersLoop at hnc ⊢
    obtain ⟨s1, h1, hr1⟩ := advanceLoop_fwd_end gEnd _ s fc h hE hfc hnc.of_bind
    have hw1 : WF s1 := (sat_ok (advance_sat hw) h1).1
    rw [show advance s = .ok s1 from h1, bind_ok_eq rfl]
    rw [if_pos (by rw [more_of_wf hw1, hr1]; rfl)]
    exact ⟨s1, by simp [membersTree]⟩
  | cons p r ih =>
    obtain ⟨g, m⟩ := p
    intro pw f s names acc hfit h hw hf hdirty hnames huniq
    simp only [membersFit, Bool.and_eq_true] at hfit
    obtain ⟨⟨⟨hgw, _⟩, hm⟩, hrfit⟩ := hfit
    simp only [nextGap] at h
    simp only [afterText] at h
    rw [renderMembers_eq] at h
    have hnc : NoCrash (membersLoop f s names acc) := (membersLoop_sat f s names acc hw hf).noCrash
    obtain ⟨f0, rfl⟩ : ∃ f0, f = f0 + 1 := by
      cases f with
      | zero => exact absurd rfl hnc.2
      | succ f0 => exact ⟨f0, rfl⟩
    -- facts used by all four member shapes
    have hnotin : m.name ∉ names := hnames (g, m) List.mem_cons_self
    have huniq' : uniqueNames (r.map fun p => p.2.name) = true ∧ m.name ∉ r.map (fun p => p.2.name) := by
      simp only [List.map_cons, uniqueNames, Bool.and_eq_true, Bool.not_eq_true'] at huniq
      exact ⟨huniq.2, by simpa using huniq.1⟩
    have hnames' : ∀ p ∈ r, p.2.name ∉ m.name :: names := by
      intro p hp hmem
      rcases List.mem_cons.mp hmem with he | hmem
      · exact huniq'.2 (by rw [← he]; exact List.mem_map_of_mem (f := fun p => p.2.name) hp)
      · exact hnames p (List.mem_cons_of_mem _ hp) hmem
    -- behind a member that ends in a word the text does not continue the word
    have hstopX : m.endsWord = true → Stop (renderGap (nextGap r gEnd) (afterText r gEnd fc)) := by
      intro he; rw [he] at hrfit; exact stop_after_member r gEnd fc hrfit
    unfold membersLoop at hnc ⊢
    -- the continuation, once the member reader has delivered
    have cont : ∀ (s3 : St) (mem : Member) (e : PErr), mem = m.erase (gapPend s.lastComment g) →
        s3.rest = renderGap (nextGap r gEnd) (afterText r gEnd fc) → Step s s3 → s.pos < s3.pos →
        Dirty s3 → s3.lastComment = m.pend (gapPend s.lastComment g) →
        ∃ s', (if names.contains mem.name = true then (Out.err e : Out (List Member × St))
          else membersLoop f0 s3 (mem.name :: names) (mem :: acc)) =
          .ok (acc.reverse ++ membersTree s.lastComment ((g, m) :: r), s') := by
      intro s3 mem e hmem hr3 hst3 hpos3 hd3 hl3
      have hname : mem.name = m.name := by subst hmem; cases m <;> rfl
      rw [if_neg (by rw [hname]; simpa using hnotin)]
      have hlt : s3.rest.length < f0 := by have := Step.rest_lt hw hst3 hpos3; omega
      obtain ⟨s', h'⟩ := ih m.endsWord f0 s3 (mem.name :: names) (mem :: acc) hrfit hr3 hst3.1 hlt hd3
        (by rw [hname]; exact hnames') huniq'.1
      exact ⟨s', by rw [h', hmem, hl3]; simp [membersTree]⟩
    -- the gap in front of the keyword and the keyword itself
    obtain ⟨kc, kx, hkx, hkc, _⟩ := m.render_head (renderGap (nextGap r gEnd) (afterText r gEnd fc))
    obtain ⟨s1, h1, hr1, hl1⟩ := advance_fwd_lc h hgw (by rw [hkx]; exact hkc) hdirty hnc.of_bind
    have hst1 : Step s s1 := sat_ok (advance_sat hw) h1
    rw [bind_ok_eq h1] at hnc ⊢
    rw [if_neg (by rw [more_of_wf hst1.1, hr1, hkx]; simp)] at hnc ⊢
    cases m with
    | alias g1 n g4 t =>
      have hfitm := hm
      simp only [LMember.fits, Bool.and_eq_true, Bool.not_eq_true'] at hm
      simp only [LMember.render] at hr1
      have h2 := readKeyword_lit (k := tType) (by decide) hr1
        (stop_renderGap_of g1 _ (Or.inl hm.1.1.1.1.2)) hnc.of_bind
      have hst2 := sat_ok (readKeyword_sat hst1.1) h2
      rw [bind_ok_eq h2] at hnc ⊢
      simp only at hnc ⊢
      rw [if_pos (show tType = kwType from rfl)] at hnc ⊢
      have hsat3 := readAlias_sat hst2.1.1
      obtain ⟨s3, h3, hr3, hd3, hl3⟩ := readAlias_fwd hfitm rfl hstopX (dirty_adv (by decide)) hsat3.noCrash
      have hst3 := sat_ok hsat3 h3
      rw [bind_ok_eq h3]
      exact cont s3 _ _ (by simp [LMember.erase, hl1]) hr3
        ((hst1.trans hst2.1).trans hst3)
        (by have := hst2.2 (by simp [tType]); have := hst1.2.2; have := hst3.2.2; simp only at *; omega) hd3
        (by rw [hl3, St.adv_lastComment, hl1])
    | method g1 n g4 i g5 g5' o =>
      have hfitm := hm
      simp only [LMember.fits, Bool.and_eq_true, Bool.not_eq_true'] at hm
      simp only [LMember.render] at hr1
      have h2 := readKeyword_lit (k := tMethod) (by decide) hr1
        (stop_renderGap_of g1 _ (Or.inl hm.1.1.1.1.1.1.1.2)) hnc.of_bind
      have hst2 := sat_ok (readKeyword_sat hst1.1) h2
      rw [bind_ok_eq h2] at hnc ⊢
      simp only at hnc ⊢
      rw [if_neg (show ¬ tMethod = kwType by decide), if_pos (show tMethod = kwMethod from rfl)] at hnc ⊢
      have hsat3 := readMethod_sat hst2.1.1
      obtain ⟨s3, h3, hr3, hd3, hl3⟩ := readMethod_fwd hfitm rfl hstopX (dirty_adv (by decide)) hsat3.noCrash
      have hst3 := sat_ok hsat3 h3
      rw [bind_ok_eq h3]
      exact cont s3 _ _ (by simp [LMember.erase, hl1]) hr3
        ((hst1.trans hst2.1).trans hst3)
        (by have := hst2.2 (by simp [tMethod]); have := hst1.2.2; have := hst3.2.2; simp only at *; omega) hd3
        (by rw [hl3, St.adv_lastComment, hl1])
    | errorBare g1 n =>
      have hfitm := hm
      simp only [LMember.fits, Bool.and_eq_true, Bool.not_eq_true'] at hm
      simp only [LMember.render] at hr1
      have h2 := readKeyword_lit (k := tError) (by decide) hr1
        (stop_renderGap_of g1 _ (Or.inl hm.1.2)) hnc.of_bind
      have hst2 := sat_ok (readKeyword_sat hst1.1) h2
      rw [bind_ok_eq h2] at hnc ⊢
      simp only at hnc ⊢
      rw [if_neg (show ¬ tError = kwType by decide), if_neg (show ¬ tError = kwMethod by decide),
        if_pos (show tError = kwError from rfl)] at hnc ⊢
      have hsat3 := readError_sat hst2.1.1
      obtain ⟨s3, h3, hr3, hd3, hl3⟩ := readErrorBare_fwd hfitm rfl (hstopX rfl)
        (peek_after_member r gEnd fc _ hrfit hE hfc) (dirty_adv (by decide)) hsat3.noCrash
      have hst3 := sat_ok hsat3 h3
      rw [bind_ok_eq h3]
      exact cont s3 _ _ (by simp [LMember.erase, hl1]) hr3
        ((hst1.trans hst2.1).trans hst3)
        (by have := hst2.2 (by simp [tError]); have := hst1.2.2; have := hst3.2.2; simp only at *; omega) hd3
        (by rw [hl3, St.adv_lastComment, hl1])
    | error g1 n g6 t =>
      have hfitm := hm
      simp only [LMember.fits, Bool.and_eq_true, Bool.not_eq_true'] at hm
      simp only [LMember.render] at hr1
      have h2 := readKeyword_lit (k := tError) (by decide) hr1
        (stop_renderGap_of g1 _ (Or.inl hm.1.1.1.1.2)) hnc.of_bind
      have hst2 := sat_ok (readKeyword_sat hst1.1) h2
      rw [bind_ok_eq h2] at hnc ⊢
      simp only at hnc ⊢
      rw [if_neg (show ¬ tError = kwType by decide), if_neg (show ¬ tError = kwMethod by decide),
        if_pos (show tError = kwError from rfl)] at hnc ⊢
      have hsat3 := readError_sat hst2.1.1
      obtain ⟨s3, h3, hr3, hd3, hl3⟩ := readError_fwd hfitm rfl hstopX (dirty_adv (by decide)) hsat3.noCrash
      have hst3 := sat_ok hsat3 h3
      rw [bind_ok_eq h3]
      exact cont s3 _ _ (by simp [LMember.erase, hl1]) hr3
        ((hst1.trans hst2.1).trans hst3)
        (by have := hst2.2 (by simp [tError]); have := hst1.2.2; have := hst3.2.2; simp only at *; omega) hd3
        (by rw [hl3, St.adv_lastComment, hl1])

/-! ### the interface name, readIDL, New -/

theorem dnScan_append (H N : UInt8 → Bool) {X : Bytes}
    (hX : X = [] ∨ ∃ c r, X = c :: r ∧ H c = false ∧ N c = false ∧ c ≠ 46 ∧ c ≠ 45) :
    ∀ (w : Bytes) (st : DnState) (cur best : Nat), dnScan H N st cur best (w ++ X) = dnScan H N st cur best w := by
  intro w
  induction w with
  | nil =>
    intro st cur best
    rcases hX with rfl | ⟨c, r, rfl, h1, h2, h3, h4⟩
    · rfl
    · cases st <;> simp [dnScan, h1, h2, h3, h4]
  | cons c w ih =>
    intro st cur best
    cases st <;> simp only [List.cons_append, dnScan, ih]

theorem lay_stops_name {c : UInt8} (h : isLay c = true) :
    isAlpha c = false ∧ isAlnum c = false ∧ isLowerDigit c = false ∧ c ≠ 46 ∧ c ≠ 45 := by
  simp only [isLay, Bool.or_eq_true, decide_eq_true_eq] at h
  rcases h with (((rfl | rfl) | rfl) | rfl) | rfl <;> decide

theorem matchDn_append {n X : Bytes} (hX : X = [] ∨ ∃ c r, X = c :: r ∧ isLay c = true) :
    matchDn (n ++ X) = matchDn n := by
  unfold matchDn
  apply dnScan_append
  rcases hX with h | ⟨c, r, h, hc⟩
  · exact Or.inl h
  · obtain ⟨h1, h2, _, h4, h5⟩ := lay_stops_name hc
    exact Or.inr ⟨c, r, h, h1, h2, h4, h5⟩

theorem matchXdn_append {n X : Bytes} (hn : matchXdn n ≠ 0) (hX : X = [] ∨ ∃ c r, X = c :: r ∧ isLay c = true) :
    matchXdn (n ++ X) = matchXdn n := by
  unfold matchXdn at hn ⊢
  split at hn
  · rename_i r
    simp only [List.cons_append]
    rw [dnScan_append isLowerDigit isLowerDigit (X := X)]
    rcases hX with h | ⟨c, r', h, hc⟩
    · exact Or.inl h
    · obtain ⟨_, _, h3, h4, h5⟩ := lay_stops_name hc
      exact Or.inr ⟨c, r', h, h3, h3, h4, h5⟩
  · exact absurd rfl hn

theorem skipN_eq_adv {s : St} {n X : Bytes} (h : s.rest = n ++ X) : skipN n.length s = s.adv n X := by
  simp [skipN, St.adv, h]

theorem readInterfaceName_fwd {s : St} {n X : Bytes} (hn : isInterfaceNameB n = true) (h : s.rest = n ++ X)
    (hX : X = [] ∨ ∃ c r, X = c :: r ∧ isLay c = true) (hnc : NoCrash (readInterfaceName s)) :
    readInterfaceName s = .ok (n, s.adv n X) := by
  simp only [isInterfaceNameB, Bool.and_eq_true, decide_eq_true_eq, bne_iff_ne, ne_eq, Bool.or_eq_true,
    beq_iff_eq] at hn
  obtain ⟨⟨hlen, hne⟩, hm⟩ := hn
  have hlen0 : n.length ≠ 0 := fun h0 => hne (List.eq_nil_of_length_eq_zero h0)
  unfold readInterfaceName at hnc ⊢
  split at hnc
  · exact absurd rfl hnc.1
  · rename_i hg
    rw [if_neg hg]
    dsimp only
    have htake : s.rest.take n.length = n := by rw [h]; simp
    have hd : matchDn s.rest = matchDn n := by rw [h, matchDn_append hX]
    rw [hd]
    rcases hm with hm | ⟨hm0, hmx⟩
    · rw [hm, if_pos hlen0, if_neg (by omega), htake, skipN_eq_adv h]
    · rw [hm0]
      simp only [ne_eq, not_true_eq_false, ↓reduceIte]
      have hx : matchXdn s.rest = matchXdn n := by rw [h, matchXdn_append (by rw [hmx]; exact hlen0) hX]
      rw [hx, hmx, if_pos hlen0, if_neg (by omega), htake, skipN_eq_adv h]

theorem gapDoc_blank : ∀ (g : Gap) (st : Bool × Bytes), g.blank = true → gapDoc st g = st
  | [], _, _ => rfl
  | a :: g, st, h => by
    simp only [Gap.blank, List.all_cons, Bool.and_eq_true] at h
    have : docStep st a = st := by cases a <;> simp_all [Atom.isBlank, docStep]
    simp only [gapDoc, List.foldl_cons, this]
    exact gapDoc_blank g st h.2

theorem blank_wf : ∀ (g : Gap), g.blank = true → g.wf = true
  | [], _ => rfl
  | a :: g, h => by
    simp only [Gap.blank, List.all_cons, Bool.and_eq_true] at h
    simp only [Gap.wf, List.all_cons, Bool.and_eq_true]
    exact ⟨by cases a <;> simp_all [Atom.isBlank, Atom.wf], blank_wf g h.2⟩

theorem interfaceName_head {n : Bytes} (hn : isInterfaceNameB n = true) : ∃ c w, n = c :: w ∧ isLay c = false := by
  simp only [isInterfaceNameB, Bool.and_eq_true, decide_eq_true_eq, bne_iff_ne, ne_eq, Bool.or_eq_true,
    beq_iff_eq] at hn
  obtain ⟨⟨_, hne⟩, hm⟩ := hn
  cases n with
  | nil => exact absurd rfl hne
  | cons c w =>
    refine ⟨c, w, rfl, ?_⟩
    rcases hm with hm | ⟨_, hmx⟩
    · have := matchDn_tok (c :: w)
      rw [hm] at this
      simp only [List.take_length] at this
      exact this c List.mem_cons_self
    · have := matchXdn_tok (c :: w)
      rw [hmx] at this
      simp only [List.take_length] at this
      exact this c List.mem_cons_self

theorem members_nonempty_head (ms : List (Gap × LMember)) (gEnd : Gap) (fc : Option Bytes)
    (hfit : membersFit true ms = true) (hm : ms.any (fun p => p.2.isMethod) = true) :
    ∃ c r, renderMembers ms (renderGap gEnd (renderFinal fc)) = c :: r ∧ isLay c = true := by
  cases ms with
  | nil => simp at hm
  | cons p ms =>
    obtain ⟨g, m⟩ := p
    simp only [membersFit, Bool.and_eq_true, Bool.not_true, Bool.false_or, Bool.not_eq_true'] at hfit
    have hb := hfit.1.1.2
    cases g with
    | nil => simp at hb
    | cons a g =>
      obtain ⟨c, r, hr, hc⟩ := a.render_head
      exact ⟨c, r ++ renderGap g (m.render (renderMembers ms (renderGap gEnd (renderFinal fc)))),
        by simp [renderMembers, renderGap, hr], hc⟩

theorem erase_isMethod (m : LMember) (d : Bytes) : (m.erase d).isMethod = m.isMethod := by
  cases m <;> rfl

theorem methods_ne_zero : ∀ (ms : List (Gap × LMember)) (lc : Bytes), ms.any (fun p => p.2.isMethod) = true →
    ((membersTree lc ms).filter Member.isMethod).length ≠ 0
  | [], _, hm => by simp at hm
  | (g, m) :: ms, lc, hm => by
    simp only [List.any_cons, Bool.or_eq_true] at hm
    simp only [membersTree, List.filter_cons, erase_isMethod]
    split
    · simp
    · rename_i hp
      rcases hm with hm | hm
      · exact absurd hm hp
      · exact methods_ne_zero ms _ hm

/-- **Parse what was rendered**: a description rendered from a layouted tree inside the grammar is accepted with
    exactly the tree it denotes. -/
theorem New_render (L : LIdl) (hfit : L.fits = true) : New L.render = .ok L.tree := by
  simp only [LIdl.fits, Bool.and_eq_true, Bool.not_eq_true'] at hfit
  obtain ⟨⟨⟨⟨⟨⟨⟨⟨hg0, hig1w⟩, hig1ne⟩, hname⟩, hms⟩, huniq⟩, hmeth⟩, hE⟩, hfc⟩ := hfit
  have hsat := New_sat L.render
  unfold New at hsat ⊢
  have hw0 := initSt_wf L.render
  -- the gap in front of `interface`
  have hr0 : (initSt L.render).rest = renderGap L.g0 (tInterface ++ renderGap L.ig1 (L.name ++
      renderMembers L.members (renderGap L.gEnd (renderFinal L.finalComment)))) := rfl
  obtain ⟨s, h1, hr1, hd1⟩ := advance_fwd hr0 hg0 (by exact (by decide : isLay 105 = false)) (advance_sat hw0).noCrash
  have hst1 : Step (initSt L.render) s := sat_ok (advance_sat hw0) h1
  rw [bind_ok_eq h1]
  have hdoc1 : s.lastComment = docOfStart L.g0 := by
    have : dst (initSt L.render) = (true, []) := rfl
    rw [this] at hd1
    exact congrArg Prod.snd hd1
  -- readIDL
  have hidl : ∃ s4, readIDL s = .ok (Idl.mk L.name (docOfStart L.g0) []
      (membersTree L.startPend L.members), s4) := by
    have hnc2 := (readIDL_sat hst1.1).noCrash
    unfold readIDL at hnc2 ⊢
    have hig1 : L.ig1.isEmpty = false := by simpa using hig1ne
    have h2 := readKeyword_lit (k := tInterface) (by decide) hr1 (stop_renderGap_of L.ig1 _ (Or.inl hig1)) hnc2.of_bind
    have hst2 := (sat_ok (readKeyword_sat hst1.1) h2).1
    rw [bind_ok_eq h2] at hnc2 ⊢
    simp only at hnc2 ⊢
    rw [if_neg (by simp [tInterface, kwInterface])] at hnc2 ⊢
    obtain ⟨c, w, hcw, hc⟩ := interfaceName_head hname
    obtain ⟨s2, h3, hr3, hl3⟩ := advance_fwd_lc (s := s.adv tInterface (renderGap L.ig1 (L.name ++
        renderMembers L.members (renderGap L.gEnd (renderFinal L.finalComment))))) (g := L.ig1)
      (tail := L.name ++ renderMembers L.members (renderGap L.gEnd (renderFinal L.finalComment))) rfl hig1w
      (by rw [hcw]; exact tailOk_append hc) (dirty_adv (by decide)) hnc2.of_bind
    have hst3 := sat_ok (advance_sat hst2.1) h3
    rw [bind_ok_eq h3] at hnc2 ⊢
    obtain ⟨d, r, hdr, hdl⟩ := members_nonempty_head L.members L.gEnd L.finalComment hms hmeth
    have h4 := readInterfaceName_fwd hname hr3 (Or.inr ⟨d, r, hdr, hdl⟩) hnc2.of_bind
    have hst4 := sat_ok (readInterfaceName_sat hst3.1) h4
    rw [bind_ok_eq h4] at hnc2 ⊢
    simp only at hnc2 ⊢
    have hne : L.name ≠ [] := by rw [hcw]; simp
    rw [if_neg (by simpa using hne)] at hnc2 ⊢
    have hdirty : Dirty (s2.adv L.name (renderMembers L.members (renderGap L.gEnd (renderFinal L.finalComment)))) := by
      rw [hcw]; exact dirty_adv (isBlank_cons_false hc)
    obtain ⟨s4, h5⟩ := membersLoop_fwd L.gEnd L.finalComment hE hfc L.members true
      ((s2.adv L.name (renderMembers L.members (renderGap L.gEnd (renderFinal L.finalComment)))).len + 2)
      (s2.adv L.name (renderMembers L.members (renderGap L.gEnd (renderFinal L.finalComment))))
      [] []
      hms (by rw [← renderMembers_eq]; rfl) hst4.1 (by have := hst4.1.rest_le_len; simp only at this ⊢; omega)
      hdirty (fun _ _ h => absurd h List.not_mem_nil) huniq
    rw [bind_ok_eq h5]
    refine ⟨s4, ?_⟩
    simp only [St.adv_lastComment, hl3, hdoc1, List.reverse_nil, List.nil_append]
    rfl
  obtain ⟨s4, hidl⟩ := hidl
  rw [bind_ok_eq hidl]
  simp only
  rw [if_neg (by simpa [Idl.methods] using methods_ne_zero L.members _ hmeth)]
  rfl

theorem erase_setDoc (m : LMember) (d : Bytes) : (m.erase d).setDoc [] = m.erase [] := by
  cases m <;> rfl


/-! ### the member list of the denoted tree -/

/-- without documentation: the members as written, in source order -/
theorem membersTree_skeleton : ∀ (lc : Bytes) (ms : List (Gap × LMember)),
    (membersTree lc ms).map (Member.setDoc []) = ms.map (fun p => p.2.erase [])
  | _, [] => rfl
  | lc, (g, m) :: r => by
    simp only [membersTree, List.map_cons, erase_setDoc, membersTree_skeleton _ r]

theorem membersTree_docs : ∀ (lc : Bytes) (ms : List (Gap × LMember)),
    (membersTree lc ms).map Member.doc = memberDocs lc ms
  | _, [] => rfl
  | lc, (g, m) :: r => by
    simp only [membersTree, memberDocs, List.map_cons, membersTree_docs _ r, List.cons.injEq, and_true]
    cases m <;> rfl

theorem memberDocs_own_lines : ∀ (lc : Bytes) (ms : List (Gap × LMember)), (∀ p ∈ ms, p.1.hasBreak = true) →
    memberDocs lc ms = ms.map (fun p => docOf p.1)
  | _, [], _ => rfl
  | lc, (g, m) :: r, h => by
    simp only [memberDocs, List.map_cons]
    rw [gapPend_break g lc (h (g, m) List.mem_cons_self),
      memberDocs_own_lines _ r (fun p hp => h p (List.mem_cons_of_mem _ hp))]

/-- when every member starts on a new line, each is documented by `docOf` of the gap in front of it -/
theorem membersTree_own_lines : ∀ (lc : Bytes) (ms : List (Gap × LMember)), (∀ p ∈ ms, p.1.hasBreak = true) →
    membersTree lc ms = ms.map (fun p => p.2.erase (docOf p.1))
  | _, [], _ => rfl
  | lc, (g, m) :: r, h => by
    simp only [membersTree, List.map_cons]
    rw [gapPend_break g lc (h (g, m) List.mem_cons_self),
      membersTree_own_lines _ r (fun p hp => h p (List.mem_cons_of_mem _ hp))]

/-! ### members are determined by their documentation-free form and their documentation -/

theorem setDoc_doc (m : Member) : (m.setDoc []).setDoc m.doc = m := by
  cases m <;> rfl

/-- a member list is determined by its documentation-free form and its documentation -/
theorem members_ext : ∀ (a b : List Member), a.map (Member.setDoc []) = b.map (Member.setDoc []) →
    a.map Member.doc = b.map Member.doc → a = b
  | [], [], _, _ => rfl
  | [], _ :: _, h, _ => by simp at h
  | _ :: _, [], h, _ => by simp at h
  | x :: a, y :: b, hs, hd => by
    simp only [List.map_cons, List.cons.injEq] at hs hd
    have : x = y := by rw [← setDoc_doc x, ← setDoc_doc y, hs.1, hd.1]
    rw [this, members_ext a b hs.2 hd.2]


end Varlink.Idl
