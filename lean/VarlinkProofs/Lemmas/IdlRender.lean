/-
  Forward ("parse what was rendered") lemmas for the IDL parser model, towards property C05: if the input in
  front of the cursor is the rendering of a layouted tree, the reader returns that tree and leaves the cursor
  behind it. Crash outcomes are excluded by hypothesis (`NoCrash`, discharged at the top by the totality lemma of
  C09), so no fuel arithmetic is needed here.
-/
import Varlink.Idl.Layout
import VarlinkProofs.Lemmas.IdlStrip
namespace Varlink.Idl
open Varlink

def NoCrash {α} (o : Out α) : Prop := o ≠ .panic ∧ o ≠ .outOfFuel

theorem NoCrash.of_bind {α β} {x : Out α} {f : α → Out β} (h : NoCrash (x >>= f)) : NoCrash x := by
  cases x with
  | ok a => simp [NoCrash]
  | err e => simp [NoCrash]
  | panic => exact absurd rfl h.1
  | outOfFuel => exact absurd rfl h.2

theorem NoCrash.ok {α} (a : α) : NoCrash (Out.ok a) := by simp [NoCrash]

theorem bind_ok_eq {α β} {x : Out α} {f : α → Out β} {a : α} (h : x = .ok a) : (x >>= f) = f a := by
  subst h; rfl

theorem Out.Sat.noCrash {α} {o : Out α} {P : α → Prop} (h : o.Sat P) : NoCrash o := h.ne_panic

/-! ### states -/

/-- the state after consuming `w`, with `r` left -/
def St.adv (s : St) (w r : Bytes) : St :=
  { s with rest := r, pos := s.pos + w.length, line := w.reverse ++ s.line }

theorem St.adv_adv (s : St) (w r w' r' : Bytes) : (s.adv w r).adv w' r' = s.adv (w ++ w') r' := by
  simp [St.adv, Nat.add_assoc]

theorem St.adv_nil (s : St) : s.adv [] s.rest = s := by
  simp [St.adv]

theorem St.adv_nil' {s : St} {r : Bytes} (h : s.rest = r) : s.adv [] r = s := by
  subst h; exact St.adv_nil s

theorem next_cons {s : St} {c : UInt8} {r : Bytes} (h : s.rest = c :: r) : next s = (some c, s.adv [c] r) := by
  unfold next; rw [h]; simp [St.adv]

theorem next_nil {s : St} (h : s.rest = []) : (next s).1 = none := by
  unfold next; rw [h]

/-- documentation state of a parser state: is the current line blank so far, pending documentation -/
def dst (s : St) : Bool × Bytes := (isBlank s.line, s.lastComment)

theorem isBlank_append (a b : Bytes) : isBlank (a ++ b) = (isBlank a && isBlank b) := by
  induction a with
  | nil => simp [isBlank]
  | cons c a ih =>
    simp only [List.cons_append, isBlank]
    split
    · simp
    · simpa using ih

theorem isBlank_reverse (a : Bytes) : isBlank a.reverse = isBlank a := by
  induction a with
  | nil => rfl
  | cons c a ih =>
    rw [List.reverse_cons, isBlank_append, ih]
    simp only [isBlank]
    split <;> simp [Bool.and_comm]

/-- the current line has a token byte on it -/
def Dirty (s : St) : Prop := isBlank s.line = false

theorem dirty_adv {s : St} {w r : Bytes} (h : isBlank w = false) : Dirty (s.adv w r) := by
  simp [Dirty, St.adv, isBlank_append, isBlank_reverse, h]

theorem dirty_adv_of_dirty {s : St} {w r : Bytes} (h : Dirty s) : Dirty (s.adv w r) := by
  simp only [Dirty] at h
  simp [Dirty, St.adv, isBlank_append, h]

/-! ### scanning loops -/

/-- the input `r` does not continue a run of class `p` -/
def StopAt (p : UInt8 → Bool) : Bytes → Prop
  | [] => True
  | c :: _ => p c = false

theorem scan_fwd (p : UInt8 → Bool) : ∀ (w : Bytes) (f : Nat) (s : St) (r : Bytes), s.rest = w ++ r →
    (∀ c ∈ w, p c = true) → StopAt p r → NoCrash (scan p f s) → scan p f s = .ok (s.adv w r) := by
  intro w
  induction w with
  | nil =>
    intro f s r hr _ hstop hnc
    cases f with
    | zero => exact absurd rfl hnc.2
    | succ f =>
      simp only [List.nil_append] at hr
      unfold scan
      cases r with
      | nil =>
        have : (next s) = (none, (next s).2) := by
          have := next_nil hr; rcases hn : next s with ⟨c, s1⟩; rw [hn] at this; simp at this; rw [this]
        rw [this]; simp only
        rw [St.adv_nil' hr]
      | cons c r' =>
        rw [next_cons hr]
        simp only
        rw [if_neg (by simpa [StopAt] using hstop), St.adv_nil' hr]
  | cons c w ih =>
    intro f s r hr hall hstop hnc
    cases f with
    | zero => exact absurd rfl hnc.2
    | succ f =>
      unfold scan at hnc ⊢
      rw [List.cons_append] at hr
      rw [next_cons hr] at hnc ⊢
      simp only at hnc ⊢
      rw [if_pos (hall c List.mem_cons_self)] at hnc ⊢
      rw [ih f (s.adv [c] (w ++ r)) r rfl (fun x hx => hall x (List.mem_cons_of_mem _ hx)) hstop hnc, St.adv_adv]
      rfl

theorem consumed_adv (s : St) (w r : Bytes) (h : s.rest = w ++ r) : consumed s (s.adv w r) = w := by
  simp [consumed, St.adv, h]

theorem sliceFrom_fwd {s : St} {w r : Bytes} (h : s.rest = w ++ r) (hnc : NoCrash (sliceFrom s (s.adv w r))) :
    sliceFrom s (s.adv w r) = .ok (w, s.adv w r) := by
  unfold sliceFrom at hnc ⊢
  split
  · rw [consumed_adv s w r h]
  · rename_i hc; rw [if_neg hc] at hnc; exact absurd rfl hnc.1

theorem readKeyword_fwd {s : St} {w r : Bytes} (h : s.rest = w ++ r) (hall : ∀ c ∈ w, isLower c = true)
    (hstop : StopAt isLower r) (hnc : NoCrash (readKeyword s)) : readKeyword s = .ok (w, s.adv w r) := by
  unfold readKeyword at hnc ⊢
  have h1 := scan_fwd isLower w _ s r h hall hstop hnc.of_bind
  rw [bind_ok_eq h1] at hnc ⊢
  exact sliceFrom_fwd h hnc

theorem readTypeName_fwd {s : St} {c : UInt8} {w r : Bytes} (h : s.rest = c :: w ++ r) (hc : isUpper c = true)
    (hall : ∀ x ∈ w, isAlnum x = true) (hstop : StopAt isAlnum r) (hnc : NoCrash (readTypeName s)) :
    readTypeName s = .ok (c :: w, s.adv (c :: w) r) := by
  unfold readTypeName at hnc ⊢
  rw [next_cons (r := w ++ r) (by simpa using h)] at hnc ⊢
  simp only at hnc ⊢
  rw [if_neg (by simp [hc])] at hnc ⊢
  have h1 := scan_fwd isAlnum w _ (s.adv [c] (w ++ r)) r rfl hall hstop hnc.of_bind
  rw [bind_ok_eq h1, St.adv_adv] at hnc ⊢
  exact sliceFrom_fwd (by simpa using h) hnc

theorem readFieldName_fwd {s : St} {c : UInt8} {w r : Bytes} (h : s.rest = c :: w ++ r) (hc : isLower c = true)
    (hall : ∀ x ∈ w, isFieldChar x = true) (hstop : StopAt isFieldChar r) (hnc : NoCrash (readFieldName s)) :
    readFieldName s = .ok (c :: w, s.adv (c :: w) r) := by
  unfold readFieldName at hnc ⊢
  rw [next_cons (r := w ++ r) (by simpa using h)] at hnc ⊢
  simp only at hnc ⊢
  rw [if_neg (by simp [hc])] at hnc ⊢
  have h1 := scan_fwd isFieldChar w _ (s.adv [c] (w ++ r)) r rfl hall hstop hnc.of_bind
  rw [bind_ok_eq h1, St.adv_adv] at hnc ⊢
  exact sliceFrom_fwd (by simpa using h) hnc

/-- a reader for a name that finds no name: the state is unchanged -/
theorem readTypeName_none {s : St} (h : StopAt isUpper s.rest) : readTypeName s = .ok ([], s) := by
  unfold readTypeName
  cases hr : s.rest with
  | nil =>
    have := next_nil hr
    rcases hn : next s with ⟨c, s1⟩
    rw [hn] at this; simp only at this; subst this; rfl
  | cons c r =>
    rw [next_cons hr]
    rw [hr] at h
    simp only
    rw [if_pos (by simpa [StopAt] using h)]

theorem readKeyword_none {s : St} (h : StopAt isLower s.rest) (hnc : NoCrash (readKeyword s)) :
    readKeyword s = .ok ([], s) := by
  have := readKeyword_fwd (s := s) (w := []) (r := s.rest) rfl (fun _ hc => absurd hc List.not_mem_nil) h hnc
  rwa [St.adv_nil] at this

/-! ### comments -/

/-- the optional space behind `#` and the comment text behind it -/
def splitSp : Bytes → Bytes × Bytes
  | 32 :: t => ([32], t)
  | t => ([], t)

theorem splitSp_append (t : Bytes) : (splitSp t).1 ++ (splitSp t).2 = t := by
  unfold splitSp; split <;> simp

theorem docLine_eq (t : Bytes) : docLine t = dropLastCR (splitSp t).2 := by
  unfold docLine splitSp; split <;> simp

theorem skipOneSpace_fwd {s : St} {t x : Bytes} (h : s.rest = t ++ 10 :: x) :
    skipOneSpace s = s.adv (splitSp t).1 ((splitSp t).2 ++ 10 :: x) := by
  unfold skipOneSpace
  cases t with
  | nil =>
    simp only [List.nil_append] at h
    rw [next_cons h]; simp only
    rw [if_neg (by decide)]
    simp [splitSp, St.adv_nil' h]
  | cons c t' =>
    rw [next_cons (r := t' ++ 10 :: x) (by simpa using h)]
    simp only
    split
    · rename_i hc; subst hc; simp [splitSp]
    · rename_i hc
      have : splitSp (c :: t') = ([], c :: t') := by
        unfold splitSp; split
        · rename_i heq; cases heq; exact absurd rfl hc
        · rfl
      rw [this]; exact (St.adv_nil' (by simpa using h)).symm

theorem skipOneSpace_fwd_eof {s : St} {t : Bytes} (h : s.rest = t) :
    skipOneSpace s = s.adv (splitSp t).1 (splitSp t).2 := by
  unfold skipOneSpace
  cases t with
  | nil =>
    have := next_nil h
    rcases hn : next s with ⟨c, s1⟩
    rw [hn] at this; simp only at this; subst this
    simp [splitSp, St.adv_nil' h]
  | cons c t' =>
    rw [next_cons h]
    simp only
    split
    · rename_i hc; subst hc; simp [splitSp]
    · rename_i hc
      have : splitSp (c :: t') = ([], c :: t') := by
        unfold splitSp; split
        · rename_i heq; cases heq; exact absurd rfl hc
        · rfl
      rw [this]; exact (St.adv_nil' (by simpa using h)).symm

theorem dropLastCR_take : ∀ (t x : Bytes),
    (t ++ x).take ((if t ≠ [] ∧ t.getLast? = some 13 then t.length - 1 else t.length)) = dropLastCR t
  | [], x => by simp [dropLastCR]
  | [c], x => by
    by_cases hc : c = 13
    · subst hc; simp [dropLastCR]
    · simp [dropLastCR, hc]
  | c :: d :: t, x => by
    have ih := dropLastCR_take (d :: t) x
    have hne : (d :: t) ≠ [] := by simp
    simp only [ne_eq, hne, not_false_eq_true, true_and, List.length_cons] at ih
    simp only [ne_eq, reduceCtorEq, not_false_eq_true, List.getLast?_cons_cons, true_and, List.length_cons,
      dropLastCR, List.cons_append]
    split
    · rename_i h
      rw [if_pos h] at ih
      have : t.length + 1 + 1 - 1 = (t.length + 1 - 1) + 1 := by omega
      rw [this, List.take_succ_cons]
      simpa using ih
    · rename_i h
      rw [if_neg h] at ih
      rw [List.take_succ_cons]
      simpa using ih

theorem notNl_of_wf {t : Bytes} (h : t.all (fun c => c != 10) = true) : ∀ c ∈ t, isNotNl c = true := by
  intro c hc
  have := List.all_eq_true.mp h c hc
  simpa [isNotNl] using this

theorem splitSp_snd_mem {t : Bytes} {c : UInt8} (h : c ∈ (splitSp t).2) : c ∈ t := by
  unfold splitSp at h; split at h
  · exact List.mem_cons_of_mem _ h
  · exact h

theorem head?_reverse_append (t l : Bytes) (h : t ≠ []) : (t.reverse ++ l).head? = t.getLast? := by
  cases ht : t.reverse with
  | nil => simp at ht; exact absurd ht h
  | cons c r =>
    have : t = (c :: r).reverse := by rw [← ht, List.reverse_reverse]
    rw [this]; simp

/-- a whole comment line `#text⏎` behind a blank line start enters the documentation; behind a token it is
    skipped up to its line feed -/
theorem comment_fwd {s s1 : St} {t x : Bytes} (h : s1.rest = t ++ 10 :: x)
    (ht : t.all (fun c => c != 10) = true) (hnc : NoCrash (comment s s1)) :
    (isBlank s.line = false → ∃ s3, comment s s1 = .ok s3 ∧ s3.rest = 10 :: x) ∧
    (isBlank s.line = true → ∃ s', comment s s1 = .ok s' ∧ s'.rest = x ∧
      dst s' = (true, (if s1.lastComment.length > 0 then s1.lastComment ++ [10] else s1.lastComment) ++ docLine t)) := by
  unfold comment at hnc ⊢
  split at hnc
  · exact absurd rfl hnc.1
  · rename_i hg
    rw [if_neg hg]
    rw [skipOneSpace_fwd h] at hnc ⊢
    generalize hs2 : s1.adv (splitSp t).1 ((splitSp t).2 ++ 10 :: x) = s2 at hnc ⊢
    have hr2 : s2.rest = (splitSp t).2 ++ 10 :: x := by subst hs2; rfl
    have hsc : scan isNotNl (s2.len + 1) s2 = .ok (s2.adv (splitSp t).2 (10 :: x)) := by
      apply scan_fwd isNotNl _ _ _ _ hr2 (fun c hc => notNl_of_wf ht c (splitSp_snd_mem hc)) (by simp [StopAt, isNotNl])
      cases hsc : scan isNotNl (s2.len + 1) s2 with
      | ok a => exact NoCrash.ok a
      | err e => simp [NoCrash]
      | panic => rw [hsc] at hnc; exact absurd rfl hnc.1
      | outOfFuel => rw [hsc] at hnc; exact absurd rfl hnc.2
    rw [hsc] at hnc ⊢
    simp only at hnc ⊢
    refine ⟨?_, ?_⟩
    · intro hb
      rw [if_pos (by simp [hb])]
      exact ⟨_, rfl, rfl⟩
    · intro hb
      rw [if_neg (by simp [hb])] at hnc ⊢
      unfold appendDoc at hnc ⊢
      split at hnc
      · exact absurd rfl hnc.1
      · rename_i hg1
        rw [if_neg hg1]
        split at hnc
        · exact absurd rfl hnc.1
        · rename_i hg2
          rw [if_neg hg2]
          unfold closeComment
          rw [next_cons (s := { s2.adv (splitSp t).2 (10 :: x) with lastComment := _ }) (c := 10) (r := x) rfl]
          simp only
          refine ⟨_, rfl, rfl, ?_⟩
          simp only [dst, isBlank, St.adv, Prod.mk.injEq, true_and]
          have hlc : s2.lastComment = s1.lastComment := by subst hs2; rfl
          simp only [hlc]
          rw [docLine_eq, ← dropLastCR_take (splitSp t).2 (10 :: x), hr2]
          congr 2
          simp only [commentEnd]
          by_cases hne : (splitSp t).2 = []
          · simp [hne]
          · have hpos : s2.pos + (splitSp t).2.length > s2.pos := by
              have : (splitSp t).2.length ≠ 0 := fun h0 => hne (List.eq_nil_of_length_eq_zero h0)
              omega
            rw [head?_reverse_append _ _ hne]
            simp only [hpos, decide_true, Bool.true_and, decide_eq_true_eq, ne_eq, hne, not_false_eq_true, true_and]
            split <;> omega

/-! ### advance over a gap -/

theorem advanceLoop_succ_of_noCrash {f : Nat} {s : St} (h : NoCrash (advanceLoop f s)) : ∃ f', f = f' + 1 := by
  cases f with
  | zero => exact absurd rfl h.2
  | succ f' => exact ⟨f', rfl⟩

theorem noCrash_of_match {s2 : Out St} {k : St → Out St}
    (h : NoCrash (match s2 with | .ok a => k a | .err e => .err e | .panic => .panic | .outOfFuel => .outOfFuel)) :
    NoCrash s2 := by
  cases s2 with
  | ok a => exact NoCrash.ok a
  | err e => simp [NoCrash]
  | panic => exact absurd rfl h.1
  | outOfFuel => exact absurd rfl h.2

theorem advanceLoop_cons {f : Nat} {s : St} {c : UInt8} {r : Bytes} (h : s.rest = c :: r) :
    advanceLoop (f + 1) s =
      (if c = 10 then
        advanceLoop f { s.adv [c] r with lineStart := (s.adv [c] r).pos, line := [], lastComment := [] }
      else if c = 32 || c = 9 || c = 13 then advanceLoop f (s.adv [c] r)
      else if c = 35 then
        match comment s (s.adv [c] r) with
        | .ok s2 => advanceLoop f s2
        | .err e => .err e
        | .panic => .panic
        | .outOfFuel => .outOfFuel
      else .ok s) := by
  conv => lhs; unfold advanceLoop
  rw [next_cons h]
  rfl

theorem closeComment_eof {s4 : St} (h : s4.rest = []) : closeComment s4 = .ok s4 := by
  unfold closeComment
  have := next_nil h
  rcases hn : next s4 with ⟨c, s5⟩
  rw [hn] at this; simp only at this; subst this; rfl

/-- one atom of a gap costs one or two turns of the loop and moves the documentation state by `docStep` -/
theorem advance_atom {a : Atom} {f : Nat} {s : St} {r : Bytes} (h : s.rest = a.render ++ r) (ha : a.wf = true)
    (hnc : NoCrash (advanceLoop f s)) :
    ∃ f' s1, advanceLoop f s = advanceLoop f' s1 ∧ s1.rest = r ∧ dst s1 = docStep (dst s) a := by
  obtain ⟨f0, rfl⟩ := advanceLoop_succ_of_noCrash hnc
  cases a with
  | sp =>
    refine ⟨f0, s.adv [32] r, ?_, rfl, ?_⟩
    · rw [advanceLoop_cons (by simpa [Atom.render] using h)]; simp
    · simp [dst, St.adv, isBlank, docStep]
  | tab =>
    refine ⟨f0, s.adv [9] r, ?_, rfl, ?_⟩
    · rw [advanceLoop_cons (by simpa [Atom.render] using h)]; simp
    · simp [dst, St.adv, isBlank, docStep]
  | cr =>
    refine ⟨f0, s.adv [13] r, ?_, rfl, ?_⟩
    · rw [advanceLoop_cons (by simpa [Atom.render] using h)]; simp
    · simp [dst, St.adv, isBlank, docStep]
  | nl =>
    refine ⟨f0, { s.adv [10] r with lineStart := (s.adv [10] r).pos, line := [], lastComment := [] }, ?_, rfl, ?_⟩
    · rw [advanceLoop_cons (by simpa [Atom.render] using h)]; simp
    · simp [dst, isBlank, docStep]
  | comment t =>
    have hr : s.rest = 35 :: (t ++ 10 :: r) := by simpa [Atom.render] using h
    have hstep : advanceLoop (f0 + 1) s =
        (match comment s (s.adv [35] (t ++ 10 :: r)) with
          | .ok s2 => advanceLoop f0 s2
          | .err e => .err e
          | .panic => .panic
          | .outOfFuel => .outOfFuel) := by
      rw [advanceLoop_cons hr]; simp
    rw [hstep] at hnc ⊢
    have hc := comment_fwd (s := s) (s1 := s.adv [35] (t ++ 10 :: r)) (t := t) (x := r) rfl
      (by simpa [Atom.wf] using ha) (noCrash_of_match hnc)
    cases hb : isBlank s.line with
    | false =>
      obtain ⟨s3, h3, hr3⟩ := hc.1 hb
      rw [h3] at hnc ⊢
      simp only at hnc ⊢
      obtain ⟨f1, rfl⟩ := advanceLoop_succ_of_noCrash hnc
      refine ⟨f1, { s3.adv [10] r with lineStart := (s3.adv [10] r).pos, line := [], lastComment := [] }, ?_, rfl, ?_⟩
      · rw [advanceLoop_cons hr3]; simp
      · simp [dst, isBlank, docStep, hb]
    | true =>
      obtain ⟨s', h', hr', hd'⟩ := hc.2 hb
      rw [h'] at hnc ⊢
      simp only
      refine ⟨f0, s', rfl, hr', ?_⟩
      rw [hd']
      simp [dst, docStep, hb, St.adv]

/-- the input behind a gap: the end, or a byte that is not layout -/
def TailOk : Bytes → Prop
  | [] => True
  | c :: _ => isLay c = false

theorem advanceLoop_stop {f : Nat} {s : St} (h : TailOk s.rest) (hnc : NoCrash (advanceLoop f s)) :
    advanceLoop f s = .ok s := by
  obtain ⟨f0, rfl⟩ := advanceLoop_succ_of_noCrash hnc
  unfold advanceLoop
  cases hr : s.rest with
  | nil =>
    have := next_nil hr
    rcases hn : next s with ⟨c, s1⟩
    rw [hn] at this; simp only at this; subst this; rfl
  | cons c r =>
    rw [hr] at h
    simp only [TailOk, isLay, Bool.or_eq_false_iff, decide_eq_false_iff_not] at h
    obtain ⟨⟨⟨⟨h1, h2⟩, h3⟩, h4⟩, h5⟩ := h
    rw [next_cons hr]
    simp [h1, h2, h3, h4, h5]

theorem advanceLoop_fwd : ∀ (g : Gap) (f : Nat) (s : St) (tail : Bytes), s.rest = renderGap g tail → g.wf = true →
    TailOk tail → NoCrash (advanceLoop f s) →
    ∃ s', advanceLoop f s = .ok s' ∧ s'.rest = tail ∧ dst s' = gapDoc (dst s) g := by
  intro g
  induction g with
  | nil =>
    intro f s tail h _ ht hnc
    simp only [renderGap] at h
    exact ⟨s, advanceLoop_stop (h ▸ ht) hnc, h, rfl⟩
  | cons a g ih =>
    intro f s tail h hw ht hnc
    simp only [Gap.wf, List.all_cons, Bool.and_eq_true] at hw
    obtain ⟨f', s1, h1, hr1, hd1⟩ := advance_atom (by simpa [renderGap] using h) hw.1 hnc
    rw [h1] at hnc ⊢
    obtain ⟨s', h', hr', hd'⟩ := ih f' s1 tail hr1 hw.2 ht hnc
    exact ⟨s', h', hr', by rw [hd', hd1]; rfl⟩

theorem advance_fwd {g : Gap} {s : St} {tail : Bytes} (h : s.rest = renderGap g tail) (hw : g.wf = true)
    (ht : TailOk tail) (hnc : NoCrash (advance s)) :
    ∃ s', advance s = .ok s' ∧ s'.rest = tail ∧ dst s' = gapDoc (dst s) g :=
  advanceLoop_fwd g _ s tail h hw ht hnc

/-- a last comment without line feed: `advance` runs to the end of the input -/
theorem advanceLoop_final {f : Nat} {s : St} {t : Bytes} (h : s.rest = 35 :: t)
    (ht : t.all (fun c => c != 10) = true) (hnc : NoCrash (advanceLoop f s)) :
    ∃ s', advanceLoop f s = .ok s' ∧ s'.rest = [] := by
  obtain ⟨f0, rfl⟩ := advanceLoop_succ_of_noCrash hnc
  have hstep : advanceLoop (f0 + 1) s =
      (match comment s (s.adv [35] t) with
        | .ok s2 => advanceLoop f0 s2
        | .err e => .err e
        | .panic => .panic
        | .outOfFuel => .outOfFuel) := by
    rw [advanceLoop_cons h]; simp
  rw [hstep] at hnc ⊢
  have hnc1 := noCrash_of_match hnc
  -- the comment branch up to the end of the input
  have hcom : ∃ s2, comment s (s.adv [35] t) = .ok s2 ∧ s2.rest = [] := by
    unfold comment at hnc1 ⊢
    split at hnc1
    · exact absurd rfl hnc1.1
    · rename_i hg
      rw [if_neg hg]
      rw [skipOneSpace_fwd_eof (s := s.adv [35] t) (t := t) rfl] at hnc1 ⊢
      generalize hs2 : (s.adv [35] t).adv (splitSp t).1 (splitSp t).2 = s2 at hnc1 ⊢
      have hr2 : s2.rest = (splitSp t).2 ++ [] := by subst hs2; simp [St.adv]
      have hsc : scan isNotNl (s2.len + 1) s2 = .ok (s2.adv (splitSp t).2 []) := by
        apply scan_fwd isNotNl _ _ _ _ hr2 (fun c hc => notNl_of_wf ht c (splitSp_snd_mem hc)) (by simp [StopAt])
        cases hsc : scan isNotNl (s2.len + 1) s2 with
        | ok a => exact NoCrash.ok a
        | err e => simp [NoCrash]
        | panic => rw [hsc] at hnc1; exact absurd rfl hnc1.1
        | outOfFuel => rw [hsc] at hnc1; exact absurd rfl hnc1.2
      rw [hsc] at hnc1 ⊢
      simp only at hnc1 ⊢
      split
      · exact ⟨_, rfl, rfl⟩
      · rename_i hb
        rw [if_neg hb] at hnc1
        unfold appendDoc at hnc1 ⊢
        split at hnc1
        · exact absurd rfl hnc1.1
        · rename_i hg1
          rw [if_neg hg1]
          split at hnc1
          · exact absurd rfl hnc1.1
          · rename_i hg2
            rw [if_neg hg2]
            exact ⟨_, closeComment_eof rfl, rfl⟩
  obtain ⟨s2, h2, hr2⟩ := hcom
  rw [h2] at hnc ⊢
  simp only at hnc ⊢
  exact ⟨s2, advanceLoop_stop (by rw [hr2]; trivial) hnc, hr2⟩

/-- a gap followed by a last comment without line feed, or by the end of the input -/
theorem advanceLoop_fwd_end : ∀ (g : Gap) (f : Nat) (s : St) (fc : Option Bytes),
    s.rest = renderGap g (renderFinal fc) → g.wf = true →
    (match fc with | none => true | some t => t.all (fun c => c != 10)) = true →
    NoCrash (advanceLoop f s) → ∃ s', advanceLoop f s = .ok s' ∧ s'.rest = [] := by
  intro g
  induction g with
  | nil =>
    intro f s fc h _ hfc hnc
    simp only [renderGap] at h
    cases fc with
    | none =>
      simp only [renderFinal] at h
      exact ⟨s, advanceLoop_stop (by rw [h]; trivial) hnc, h⟩
    | some t => exact advanceLoop_final (by simpa [renderFinal] using h) hfc hnc
  | cons a g ih =>
    intro f s fc h hw hfc hnc
    simp only [Gap.wf, List.all_cons, Bool.and_eq_true] at hw
    obtain ⟨f', s1, h1, hr1, _⟩ := advance_atom (by simpa [renderGap] using h) hw.1 hnc
    rw [h1] at hnc ⊢
    exact ih f' s1 fc hr1 hw.2 hfc hnc

/-! ### boundaries between tokens -/

/-- the input behind a word does not continue it -/
abbrev Stop (tail : Bytes) : Prop := StopAt isFieldChar tail

theorem fieldChar_of_lower {c : UInt8} (h : isLower c = true) : isFieldChar c = true := by
  simp [isFieldChar, h]
theorem fieldChar_of_upper {c : UInt8} (h : isUpper c = true) : isFieldChar c = true := by
  simp [isFieldChar, h]
theorem fieldChar_of_alnum {c : UInt8} (h : isAlnum c = true) : isFieldChar c = true := by
  simp only [isAlnum, Bool.or_eq_true] at h
  simp only [isFieldChar, Bool.or_eq_true]
  rcases h with (h | h) | h <;> simp [h]

theorem StopAt.mono {p q : UInt8 → Bool} (hpq : ∀ c, q c = true → p c = true) {r : Bytes} (h : StopAt p r) :
    StopAt q r := by
  cases r with
  | nil => trivial
  | cons c r =>
    simp only [StopAt] at h ⊢
    cases hq : q c with
    | false => rfl
    | true => rw [hpq c hq] at h; cases h

theorem Stop.lower {r : Bytes} (h : Stop r) : StopAt isLower r := StopAt.mono (fun _ => fieldChar_of_lower) h
theorem Stop.upper {r : Bytes} (h : Stop r) : StopAt isUpper r := StopAt.mono (fun _ => fieldChar_of_upper) h
theorem Stop.alnum {r : Bytes} (h : Stop r) : StopAt isAlnum r := StopAt.mono (fun _ => fieldChar_of_alnum) h

theorem Atom.render_head (a : Atom) : ∃ c r, a.render = c :: r ∧ isLay c = true := by
  cases a <;> simp [Atom.render, isLay]

theorem lay_not_fieldChar {c : UInt8} (h : isLay c = true) : isFieldChar c = false := by
  simp only [isLay, Bool.or_eq_true, decide_eq_true_eq] at h
  rcases h with (((rfl | rfl) | rfl) | rfl) | rfl <;> decide

theorem stop_renderGap (g : Gap) {x : Bytes} (h : Stop x) : Stop (renderGap g x) := by
  cases g with
  | nil => exact h
  | cons a g =>
    obtain ⟨c, r, hr, hc⟩ := a.render_head
    simp only [renderGap, hr, List.cons_append, StopAt]
    exact lay_not_fieldChar hc

theorem stop_cons {c : UInt8} (x : Bytes) (h : isFieldChar c = false) : Stop (c :: x) := h

theorem tailOk_cons {c : UInt8} (x : Bytes) (h : isLay c = false) : TailOk (c :: x) := h

theorem tailOk_append {c : UInt8} {w x : Bytes} (h : isLay c = false) : TailOk (c :: w ++ x) := h

/-- a gap that must be non-empty stops the word in front of it; an empty one hands the duty to what follows -/
theorem stop_renderGap_of (g : Gap) (x : Bytes) (h : g.isEmpty = false ∨ Stop x) : Stop (renderGap g x) := by
  cases g with
  | nil =>
    rcases h with h | h
    · simp at h
    · exact h
  | cons a g =>
    obtain ⟨c, r, hr, hc⟩ := a.render_head
    simp only [renderGap, hr, List.cons_append, StopAt]
    exact lay_not_fieldChar hc

/-! ### names -/

theorem typeName_split {n : Bytes} (h : isTypeNameB n = true) :
    ∃ c w, n = c :: w ∧ isUpper c = true ∧ ∀ x ∈ w, isAlnum x = true := by
  cases n with
  | nil => simp [isTypeNameB] at h
  | cons c w =>
    simp only [isTypeNameB, Bool.and_eq_true, List.all_eq_true] at h
    exact ⟨c, w, rfl, h.1, h.2⟩

theorem fieldName_split {n : Bytes} (h : isFieldNameB n = true) :
    ∃ c w, n = c :: w ∧ isLower c = true ∧ ∀ x ∈ w, isFieldChar x = true := by
  cases n with
  | nil => simp [isFieldNameB] at h
  | cons c w =>
    simp only [isFieldNameB, Bool.and_eq_true, List.all_eq_true] at h
    exact ⟨c, w, rfl, h.1, h.2⟩

theorem isBlank_cons_false {c : UInt8} {w : Bytes} (h : isLay c = false) : isBlank (c :: w) = false := by
  simp only [isLay, Bool.or_eq_false_iff, decide_eq_false_iff_not] at h
  obtain ⟨⟨⟨⟨h1, h2⟩, h3⟩, _⟩, _⟩ := h
  simp [isBlank, h1, h2, h3]

theorem lower_ne {c : UInt8} (h : isLower c = true) (d : UInt8) (hd : isLower d = false) : c ≠ d := by
  intro he; subst he; rw [h] at hd; cases hd

/-- `readFieldName` on a field name followed by a boundary -/
theorem readFieldName_name {s : St} {n x : Bytes} (hn : isFieldNameB n = true) (h : s.rest = n ++ x) (hx : Stop x)
    (hnc : NoCrash (readFieldName s)) : readFieldName s = .ok (n, s.adv n x) ∧ Dirty (s.adv n x) ∧ n ≠ [] := by
  obtain ⟨c, w, rfl, hc, hw⟩ := fieldName_split hn
  refine ⟨readFieldName_fwd h hc hw hx hnc, dirty_adv (isBlank_cons_false (notLay_of_lower hc)), by simp⟩

theorem readTypeName_name {s : St} {n x : Bytes} (hn : isTypeNameB n = true) (h : s.rest = n ++ x) (hx : Stop x)
    (hnc : NoCrash (readTypeName s)) : readTypeName s = .ok (n, s.adv n x) ∧ Dirty (s.adv n x) ∧ n ≠ [] := by
  obtain ⟨c, w, rfl, hc, hw⟩ := typeName_split hn
  refine ⟨readTypeName_fwd h hc hw hx.alnum hnc, dirty_adv (isBlank_cons_false (notLay_of_upper hc)), by simp⟩

/-- a keyword literal followed by a boundary -/
theorem readKeyword_lit {s : St} {k x : Bytes} (hk : ∀ c ∈ k, isLower c = true) (h : s.rest = k ++ x) (hx : Stop x)
    (hnc : NoCrash (readKeyword s)) : readKeyword s = .ok (k, s.adv k x) :=
  readKeyword_fwd h hk hx.lower hnc
