/-
  `typesOk` for the generator's view: every struct type and parameter list it builds from a description with
  well-shaped, distinct field names has valid, distinct names (used by VarlinkProofs/Props/C07.lean).
-/
import VarlinkProofs.Lemmas.Gen
import VarlinkProofs.Lemmas.GenNames
namespace Varlink.Gen
open Varlink Varlink.Idl

theorem fsNamesOk_names : ∀ fs : Fields, fsNamesOk fs = true → ∀ n ∈ fs.names, fieldNameShape n = true
  | .nil, _, n, hn => by simp [Fields.names] at hn
  | .typed m t r, h, n, hn => by
    simp only [fsNamesOk, Bool.and_eq_true] at h
    simp only [Fields.names, List.mem_cons] at hn
    rcases hn with e | e
    · exact e ▸ h.1.1
    · exact fsNamesOk_names r h.2 n e
  | .bare m r, h, n, hn => by
    simp only [fsNamesOk, Bool.and_eq_true] at h
    simp only [Fields.names, List.mem_cons] at hn
    rcases hn with e | e
    · exact e ▸ h.1
    · exact fsNamesOk_names r h.2 n e

theorem title_ne_nil (n : Bytes) (h : fieldNameShape n = true) : (title n).isEmpty = false := by
  cases n with
  | nil => simp [fieldNameShape] at h
  | cons c r => rw [title_field c r h]; rfl

mutual
theorem goTy_shapeOk : ∀ (t : Ty) (j : Bool) (g : GoTy), tyNamesOk t = true → tyFieldsDistinct t = true →
    goTy t j = some g → g.shapeOk = true
  | .bool, _, g, _, _, h => by simp [goTy] at h; subst h; rfl
  | .int, _, g, _, _, h => by simp [goTy] at h; subst h; rfl
  | .float, _, g, _, _, h => by simp [goTy] at h; subst h; rfl
  | .string, _, g, _, _, h => by simp [goTy] at h; subst h; rfl
  | .object, _, g, _, _, h => by simp [goTy] at h; subst h; rfl
  | .named _, _, g, _, _, h => by simp [goTy] at h; subst h; rfl
  | .enum _, _, g, _, _, h => by simp [goTy] at h; subst h; rfl
  | .maybe t, j, g, h1, h2, h => by
    simp only [goTy, Option.map_eq_some_iff] at h
    obtain ⟨a, ha, rfl⟩ := h
    simpa [GoTy.shapeOk] using goTy_shapeOk t j a (by simpa [tyNamesOk] using h1) (by simpa [tyFieldsDistinct] using h2) ha
  | .array t, j, g, h1, h2, h => by
    simp only [goTy, Option.map_eq_some_iff] at h
    obtain ⟨a, ha, rfl⟩ := h
    simpa [GoTy.shapeOk] using goTy_shapeOk t j a (by simpa [tyNamesOk] using h1) (by simpa [tyFieldsDistinct] using h2) ha
  | .map t, j, g, h1, h2, h => by
    simp only [goTy, Option.map_eq_some_iff] at h
    obtain ⟨a, ha, rfl⟩ := h
    simpa [GoTy.shapeOk] using goTy_shapeOk t j a (by simpa [tyNamesOk] using h1) (by simpa [tyFieldsDistinct] using h2) ha
  | .struct fs, j, g, h1, h2, h => by
    simp only [goTy, Option.map_eq_some_iff] at h
    obtain ⟨a, ha, rfl⟩ := h
    simp only [tyNamesOk] at h1
    simp only [tyFieldsDistinct, Bool.and_eq_true] at h2
    obtain ⟨hs, hn⟩ := goFields_shapeOk fs j a h1 h2.2 ha
    have hshape := fsNamesOk_names fs h1
    simp only [GoTy.shapeOk, Bool.and_eq_true]
    refine ⟨⟨?_, ?_⟩, hs⟩
    · rw [hn, List.all_eq_true]
      intro x hx
      obtain ⟨n, hn', rfl⟩ := List.mem_map.mp hx
      exact validName_title n (hshape n hn')
    · rw [hn]
      exact distinct_map_of_injOn (fun a ha b hb e => title_inj a b (hshape a ha) (hshape b hb) e) h2.1
theorem goFields_shapeOk : ∀ (fs : Fields) (j : Bool) (g : GoFields), fsNamesOk fs = true →
    fsFieldsDistinct fs = true → goFields fs j = some g →
    g.shapeOk = true ∧ g.fieldNames = fs.names.map title
  | .nil, _, g, _, _, h => by simp [goFields] at h; subst h; exact ⟨rfl, rfl⟩
  | .bare _ _, _, g, _, _, h => by simp [goFields] at h
  | .typed n t r, j, g, h1, h2, h => by
    simp only [fsNamesOk, Bool.and_eq_true] at h1
    simp only [fsFieldsDistinct, Bool.and_eq_true] at h2
    simp only [goFields] at h
    split at h
    · rename_i a b ha hb
      injection h with h; subst h
      obtain ⟨hs, hn⟩ := goFields_shapeOk r j b h1.2 h2.2 hb
      refine ⟨?_, ?_⟩
      · simp [GoFields.shapeOk, goTy_shapeOk t j a h1.1.2 h2.1 ha, hs]
      · simp [GoFields.fieldNames, title_ne_nil n h1.1.1, hn, Fields.names]
    · exact absurd h (by simp)
end

/-! ## field lists: parameters, copies -/

structure FieldsGood (fs : Fields) : Prop where
  names : fsNamesOk fs = true
  distinctNames : distinct fs.names = true
  deep : fsFieldsDistinct fs = true

theorem FieldsGood.tail {n t r} (h : FieldsGood (.typed n t r)) : FieldsGood r := by
  obtain ⟨h1, h2, h3⟩ := h
  simp only [fsNamesOk, Bool.and_eq_true] at h1
  simp only [Fields.names, distinct, Bool.and_eq_true] at h2
  simp only [fsFieldsDistinct, Bool.and_eq_true] at h3
  exact ⟨h1.2, h2.2, h3.2⟩

theorem FieldsGood.head {n t r} (h : FieldsGood (.typed n t r)) :
    fieldNameShape n = true ∧ tyNamesOk t = true ∧ tyFieldsDistinct t = true ∧ n ∉ r.names := by
  obtain ⟨h1, h2, h3⟩ := h
  simp only [fsNamesOk, Bool.and_eq_true] at h1
  simp only [Fields.names, distinct, Bool.and_eq_true, Bool.not_eq_true'] at h2
  simp only [fsFieldsDistinct, Bool.and_eq_true] at h3
  refine ⟨h1.1.1, h1.1.2, h3.1, ?_⟩
  intro hm
  simp at h2
  exact h2.1 hm

theorem fieldsGood_of_struct {fs : Fields} (h1 : tyNamesOk (.struct fs) = true)
    (h2 : tyFieldsDistinct (.struct fs) = true) : FieldsGood fs := by
  simp only [tyNamesOk] at h1
  simp only [tyFieldsDistinct, Bool.and_eq_true] at h2
  exact ⟨h1, h2.1, h2.2⟩

/-- a suffix the generator appends to field names: identifier characters, ending in `_` -/
structure SuffixOk (s : Bytes) : Prop where
  chars : s.all isIdentChar = true
  last : s.getLast? = some underscore

theorem suffix_in : SuffixOk (str "_in_") := ⟨by decide, by decide⟩
theorem suffix_out : SuffixOk (str "_out_") := ⟨by decide, by decide⟩
theorem suffix_us : SuffixOk (str "_") := ⟨by decide, by decide⟩

theorem paramFields_spec (s : Bytes) (hs : SuffixOk s) : ∀ (fs : Fields) (g : GoFields), FieldsGood fs →
    paramFields s fs = some g →
    g.shapeOk = true ∧ paramListOk g = true ∧ g.paramNames = fs.names.map (· ++ s)
  | .nil, g, _, h => by simp [paramFields] at h; subst h; exact ⟨rfl, rfl, rfl⟩
  | .bare _ _, g, _, h => by simp [paramFields] at h
  | .typed n t r, g, hg, h => by
    simp only [paramFields] at h
    split at h
    · rename_i a b ha hb
      injection h with h; subst h
      obtain ⟨hn, ht1, ht2, _⟩ := hg.head
      obtain ⟨i1, i2, i3⟩ := paramFields_spec s hs r b hg.tail hb
      have hne : (n ++ s).isEmpty = false := by
        cases n with
        | nil => simp [fieldNameShape] at hn
        | cons c r => rfl
      have hok := paramNameOk_suffix n s hn hs.chars hs.last
      refine ⟨?_, ?_, ?_⟩
      · simp [GoFields.shapeOk, goTy_shapeOk t false a ht1 ht2 ha, i1]
      · simp only [paramListOk, GoFields.paramNames, hne] at i2 ⊢
        simp [hok, i2]
      · simp [GoFields.paramNames, hne, i3, Fields.names]
    · exact absurd h (by simp)

theorem resultTypeFields_spec : ∀ (fs : Fields) (g : GoFields), FieldsGood fs →
    resultTypeFields fs = some g → g.shapeOk = true ∧ g.paramNames = []
  | .nil, g, _, h => by simp [resultTypeFields] at h; subst h; exact ⟨rfl, rfl⟩
  | .bare _ _, g, _, h => by simp [resultTypeFields] at h
  | .typed n t r, g, hg, h => by
    simp only [resultTypeFields] at h
    split at h
    · rename_i a b ha hb
      injection h with h; subst h
      obtain ⟨_, ht1, ht2, _⟩ := hg.head
      obtain ⟨i1, i2⟩ := resultTypeFields_spec r b hg.tail hb
      exact ⟨by simp [GoFields.shapeOk, goTy_shapeOk t false a ht1 ht2 ha, i1], by simp [GoFields.paramNames, i2]⟩
    · exact absurd h (by simp)

theorem copyInStmts_shapeOk (d s : Bytes) : ∀ (fs : Fields) (l : List Stmt), FieldsGood fs →
    copyInStmts d s fs = some l → Stmt.shapeOkList l = true
  | .nil, l, _, h => by simp [copyInStmts] at h; subst h; rfl
  | .bare _ _, l, _, h => by simp [copyInStmts] at h
  | .typed n t r, l, hg, h => by
    simp only [copyInStmts] at h
    split at h
    · rename_i a b ha hb
      injection h with h; subst h
      obtain ⟨_, ht1, ht2, _⟩ := hg.head
      have := goTy_shapeOk t true a ht1 ht2 ha
      cases hk : convKind t <;>
        simp [Stmt.shapeOkList, Stmt.shapeOk, Expr.shapeOk, this, copyInStmts_shapeOk d s r b hg.tail hb]
    · exact absurd h (by simp)

theorem copyOutStmts_shapeOk : ∀ (fs : Fields) (l : List Stmt), FieldsGood fs →
    copyOutStmts fs = some l → Stmt.shapeOkList l = true
  | .nil, l, _, h => by simp [copyOutStmts] at h; subst h; rfl
  | .bare _ _, l, _, h => by simp [copyOutStmts] at h
  | .typed n t r, l, hg, h => by
    simp only [copyOutStmts] at h
    split at h
    · rename_i a b ha hb
      injection h with h; subst h
      obtain ⟨_, ht1, ht2, _⟩ := hg.head
      have := goTy_shapeOk t false a ht1 ht2 ha
      cases hk : convKind t <;>
        simp [Stmt.shapeOkList, Stmt.shapeOk, Expr.shapeOk, this, copyOutStmts_shapeOk r b hg.tail hb]
    · exact absurd h (by simp)

theorem dispatchArgExprs_shapeOk : ∀ (fs : Fields) (l : List Expr), FieldsGood fs →
    dispatchArgExprs fs = some l → l.all Expr.shapeOk = true
  | .nil, l, _, h => by simp [dispatchArgExprs] at h; subst h; rfl
  | .bare _ _, l, _, h => by simp [dispatchArgExprs] at h
  | .typed n t r, l, hg, h => by
    simp only [dispatchArgExprs] at h
    split at h
    · rename_i a b ha hb
      injection h with h; subst h
      obtain ⟨_, ht1, ht2, _⟩ := hg.head
      have := goTy_shapeOk t false a ht1 ht2 ha
      cases hk : convKind t <;>
        simp [Expr.shapeOk, this, dispatchArgExprs_shapeOk r b hg.tail hb]
    · exact absurd h (by simp)

/-! ## appending parameter lists -/

theorem shapeOk_append : ∀ (a b : GoFields), (a.append b).shapeOk = (a.shapeOk && b.shapeOk)
  | .nil, b => by simp [GoFields.append, GoFields.shapeOk]
  | .cons n t g r, b => by simp [GoFields.append, GoFields.shapeOk, shapeOk_append r b, Bool.and_assoc]

theorem paramNames_append : ∀ (a b : GoFields), (a.append b).paramNames = a.paramNames ++ b.paramNames
  | .nil, b => by simp [GoFields.append, GoFields.paramNames]
  | .cons n t g r, b => by
    simp only [GoFields.append, GoFields.paramNames, paramNames_append r b]
    split <;> simp

theorem paramListOk_append (a b : GoFields) : paramListOk (a.append b) = (paramListOk a && paramListOk b) := by
  simp [paramListOk, paramNames_append, List.all_append]

theorem shapeOkList_append : ∀ (a b : List Stmt), Stmt.shapeOkList (a ++ b) = (Stmt.shapeOkList a && Stmt.shapeOkList b)
  | [], b => by simp [Stmt.shapeOkList]
  | s :: a, b => by simp [Stmt.shapeOkList, shapeOkList_append a b, Bool.and_assoc]



/-! ## members -/

structure MemberGood (m : Member) : Prop where
  ok : MemberOk m
  names : ∀ ty ∈ m.types, tyNamesOk ty = true
  dist : ∀ ty ∈ m.types, tyFieldsDistinct ty = true
  nameShape : memberNameShape m.name = true

theorem tyIsStruct_iff (ty : Ty) (h : tyIsStruct ty = true) : ∃ fs, ty = .struct fs := by
  cases ty <;> simp [tyIsStruct] at h
  exact ⟨_, rfl⟩

theorem MemberGood.method {n d i o} (h : MemberGood (.method n d i o)) :
    ∃ fi fo, i = .struct fi ∧ o = .struct fo ∧ FieldsGood fi ∧ FieldsGood fo := by
  have hio := h.ok.2
  simp only [memberIoStructs, Bool.and_eq_true] at hio
  obtain ⟨fi, rfl⟩ := tyIsStruct_iff i hio.1
  obtain ⟨fo, rfl⟩ := tyIsStruct_iff o hio.2
  exact ⟨fi, fo, rfl, rfl,
    fieldsGood_of_struct (h.names _ (by simp [Member.types])) (h.dist _ (by simp [Member.types])),
    fieldsGood_of_struct (h.names _ (by simp [Member.types])) (h.dist _ (by simp [Member.types]))⟩

theorem MemberGood.error {n d oty} (h : MemberGood (.error n d oty)) :
    ∃ fs, errTy oty = .struct fs ∧ FieldsGood fs := by
  cases oty with
  | none => exact ⟨.nil, rfl, ⟨rfl, rfl, rfl⟩⟩
  | some ty =>
    have hio := h.ok.2
    simp only [memberIoStructs] at hio
    obtain ⟨fs, rfl⟩ := tyIsStruct_iff ty hio
    exact ⟨fs, rfl, fieldsGood_of_struct (h.names _ (by simp [Member.types])) (h.dist _ (by simp [Member.types]))⟩

/-! ## declarations -/

theorem shapeOk_func (r : Option Recv) (n : Bytes) (p rs : GoFields) (b : List Stmt) (e : List Bytes) :
    Decl.shapeOk (.func (mkFunc r n p rs b e)) =
      (paramListOk p && paramListOk rs && p.shapeOk && rs.shapeOk && Stmt.shapeOkList b) := rfl

theorem shapeOk_type (n : Bytes) (t : GoTy) : Decl.shapeOk (.type n t) = t.shapeOk := rfl

theorem paramListOk_param (n : Bytes) (t : GoTy) : paramListOk (param n t) = (n.isEmpty || paramNameOk n) := by
  cases h : n.isEmpty <;> simp [paramListOk, param, GoFields.paramNames, h]

theorem shapeOk_param (n : Bytes) (t : GoTy) : (param n t).shapeOk = t.shapeOk := by
  simp [param, GoFields.shapeOk]

theorem paramListOk_nil : paramListOk .nil = true := rfl
theorem shapeOk_nil : GoFields.shapeOk .nil = true := rfl
theorem shapeOk_tName (s : String) : (tName s).shapeOk = true := rfl
theorem shapeOk_ctxTy : ctxTy.shapeOk = true := rfl
theorem shapeOk_connTy : connTy.shapeOk = true := rfl
theorem shapeOk_rwcTy : rwcTy.shapeOk = true := rfl
theorem pn_ctx : paramNameOk (str "ctx") = true := by decide
theorem pn_c : paramNameOk (str "c") = true := by decide
theorem pn_flags : paramNameOk (str "flags") = true := by decide
theorem pn_err : paramNameOk (str "err") = true := by decide
theorem pn_err_ : paramNameOk (str "err_") = true := by decide
theorem pn_conn : paramNameOk (str "conn") = true := by decide
theorem pn_m : paramNameOk (str "m") = true := by decide
theorem pn_call : paramNameOk (str "call") = true := by decide
theorem pn_methodname : paramNameOk (str "methodname") = true := by decide
theorem paramListOk_ctxParam : paramListOk ctxParam = true := by decide
theorem shapeOk_ctxParam : ctxParam.shapeOk = true := by decide
theorem paramListOk_callParams : paramListOk callParams = true := by decide
theorem shapeOk_callParams : callParams.shapeOk = true := by decide
theorem paramListOk_errorResult : paramListOk errorResult = true := by decide
theorem shapeOk_errorResult : errorResult.shapeOk = true := by decide
theorem paramListOk_flagsResult : paramListOk flagsResult = true := by decide
theorem shapeOk_flagsResult : flagsResult.shapeOk = true := by decide

theorem fieldUses_shapeOk : ∀ fs : Fields, Stmt.shapeOkList (fieldUses fs) = true
  | .nil => rfl
  | .bare _ r => by simp [fieldUses, Stmt.shapeOkList, Stmt.shapeOk, fieldUses_shapeOk r]
  | .typed _ _ r => by simp [fieldUses, Stmt.shapeOkList, Stmt.shapeOk, fieldUses_shapeOk r]

theorem aliasView_shape (t : Idl) (m : Member) (h : MemberGood m) (l : List Decl) (hl : aliasView t m = some l) :
    l.all Decl.shapeOk = true := by
  cases m with
  | alias n d ty =>
    simp only [aliasView, Option.map_eq_some_iff] at hl
    obtain ⟨g, hg, rfl⟩ := hl
    have hs := goTy_shapeOk ty true g (h.names _ (by simp [Member.types])) (h.dist _ (by simp [Member.types])) hg
    cases resolvesToObject t ty <;> simp [Decl.shapeOk, hs]
  | method => simp [aliasView] at hl; subst hl; rfl
  | error => simp [aliasView] at hl; subst hl; rfl

theorem errorView_shape (m : Member) (h : MemberGood m) (l : List Decl) (hl : errorView m = some l) :
    l.all Decl.shapeOk = true := by
  cases m with
  | alias => simp [errorView] at hl; subst hl; rfl
  | method => simp [errorView] at hl; subst hl; rfl
  | error n d oty =>
    obtain ⟨fs, e, hg⟩ := h.error
    simp only [errorView, Option.map_eq_some_iff, e] at hl
    obtain ⟨g, hgo, rfl⟩ := hl
    have h1 : tyNamesOk (.struct fs) = true := by simpa [tyNamesOk] using hg.names
    have h2 : tyFieldsDistinct (.struct fs) = true := by simp [tyFieldsDistinct, hg.distinctNames, hg.deep]
    have := goTy_shapeOk (.struct fs) true g h1 h2 hgo
    simp only [List.all_cons, List.all_nil, Bool.and_true, Bool.and_eq_true, shapeOk_func]
    refine ⟨by simpa [Decl.shapeOk] using this, ?_⟩
    simp only [paramListOk_param, shapeOk_param, paramListOk_nil, shapeOk_nil, shapeOk_tName]
    split <;> simp [Stmt.shapeOkList, Stmt.shapeOk, fieldUses_shapeOk]

theorem sendPrologueView_shape (iface n c : Bytes) (fi : Fields) (hg : FieldsGood fi) (l : List Stmt)
    (hl : sendPrologueView iface n c (.struct fi) = some l) : Stmt.shapeOkList l = true := by
  have h1 : tyNamesOk (.struct fi) = true := by simpa [tyNamesOk] using hg.names
  have h2 : tyFieldsDistinct (.struct fi) = true := by simp [tyFieldsDistinct, hg.distinctNames, hg.deep]
  simp only [sendPrologueView] at hl
  split at hl
  · split at hl
    · rename_i t cs ht hc
      injection hl with hl; subst hl
      simp [Stmt.shapeOkList, Stmt.shapeOk, shapeOkList_append, goTy_shapeOk _ true t h1 h2 ht,
        copyInStmts_shapeOk _ _ fi cs hg hc]
    · exact absurd hl (by simp)
  · injection hl with hl; subst hl; rfl

theorem receiveView_shape (fo : Fields) (hg : FieldsGood fo) (l : List Stmt)
    (hl : receiveView (.struct fo) = some l) : Stmt.shapeOkList l = true := by
  have h1 : tyNamesOk (.struct fo) = true := by simpa [tyNamesOk] using hg.names
  have h2 : tyFieldsDistinct (.struct fo) = true := by simp [tyFieldsDistinct, hg.distinctNames, hg.deep]
  simp only [receiveView] at hl
  split at hl
  · simp only [Option.map_eq_some_iff] at hl
    obtain ⟨t, ht, rfl⟩ := hl
    simp [Stmt.shapeOkList, Stmt.shapeOk, goTy_shapeOk _ true t h1 h2 ht]
  · injection hl with hl; subst hl; rfl

theorem methodClientView_shape (iface : Bytes) (m : Member) (h : MemberGood m) (l : List Decl)
    (hl : methodClientView iface m = some l) : l.all Decl.shapeOk = true := by
  cases m with
  | alias => simp [methodClientView] at hl; subst hl; rfl
  | error => simp [methodClientView] at hl; subst hl; rfl
  | method n d i o =>
    obtain ⟨fi, fo, rfl, rfl, hi, ho⟩ := h.method
    simp only [methodClientView] at hl
    split at hl
    · rename_i params results resultTys sendPro upPro recv' copies e1 e2 e3 e4 e5 e6 e7
      injection hl with hl; subst hl
      obtain ⟨p1, p2, _⟩ := paramFields_spec _ suffix_in fi params hi e1
      obtain ⟨r1, r2, _⟩ := paramFields_spec _ suffix_out fo results ho e2
      obtain ⟨t1, t2⟩ := resultTypeFields_spec fo resultTys ho e3
      have s4 := sendPrologueView_shape _ _ _ fi hi _ e4
      have s5 := sendPrologueView_shape _ _ _ fi hi _ e5
      have s6 := receiveView_shape fo ho _ e6
      have s7 := copyOutStmts_shapeOk fo _ ho e7
      have t3 : paramListOk resultTys = true := by simp [paramListOk, t2]
      simp [shapeOk_func, shapeOk_type, GoTy.shapeOk, GoFields.shapeOk, paramListOk_append, shapeOk_append,
        paramListOk_param, shapeOk_param, paramListOk_nil, shapeOk_tName, shapeOk_ctxTy,
        shapeOk_connTy, shapeOk_rwcTy, pn_c, pn_err, pn_err_, pn_conn, paramListOk_ctxParam, shapeOk_ctxParam,
        paramListOk_errorResult, shapeOk_errorResult, paramListOk_flagsResult, shapeOk_flagsResult,
        Stmt.shapeOkList, Stmt.shapeOk, shapeOkList_append, GoFields.fieldNames, distinct,
        p1, p2, r1, r2, t1, t3, s4, s5, s6, s7]
    · exact absurd hl (by simp)



theorem upper_facts : ∀ c : UInt8, isUpper c = true → (isIdentStart c = true ∧ isLower c = false ∧ c ≠ underscore) := by
  apply forall_uint8
  set_option maxRecDepth 20000 in decide

theorem alnum_identChar : ∀ c : UInt8, isAlnum c = true → isIdentChar c = true ∧ c ≠ underscore := by
  apply forall_uint8
  set_option maxRecDepth 20000 in decide

/-- a member name (`[A-Z][A-Za-z0-9]*`) is a usable Go identifier -/
theorem validName_member (n : Bytes) (h : memberNameShape n = true) : validName n = true := by
  cases n with
  | nil => simp [memberNameShape] at h
  | cons c r =>
    simp only [memberNameShape, Bool.and_eq_true] at h
    obtain ⟨h1, h2, h3⟩ := upper_facts c h.1
    simp only [validName, Bool.and_eq_true, Bool.not_eq_true', bne_iff_ne, ne_eq, isGoIdent]
    refine ⟨⟨⟨h1, ?_⟩, ?_⟩, ?_⟩
    · rw [List.all_eq_true] at h ⊢
      intro x hx; exact (alnum_identChar x (h.2 x hx)).1
    · rw [← Bool.not_eq_true]
      intro hk
      obtain ⟨c', r', e, hc'⟩ := keyword_head_lower _ (List.contains_iff_mem.mp hk)
      injection e with e1 _
      rw [e1, hc'] at h2
      exact absurd h2 (by simp)
    · intro e
      injection e with e1 _
      exact h3 e1

theorem concatOptL_all {α β} (f : α → Option (List β)) (P : β → Bool) :
    ∀ (l : List α) (r : List β), (∀ a ∈ l, ∀ x, f a = some x → x.all P = true) →
      concatOptL f l = some r → r.all P = true
  | [], r, _, h => by simp [concatOptL] at h; subst h; rfl
  | a :: l, r, hp, h => by
    simp only [concatOptL] at h
    split at h
    · rename_i x y hx hy
      injection h with h; subst h
      rw [List.all_append, hp a (by simp) x hx, concatOptL_all f P l y (fun b hb => hp b (by simp [hb])) hy]
      rfl
    · exact absurd h (by simp)

theorem ifaceMethodView_shape (m : Member) (h : MemberGood m) (l : List IfaceMethod) (hl : ifaceMethodView m = some l) :
    l.all (fun m => validName m.name && paramListOk m.params && paramListOk m.results && m.params.shapeOk
      && m.results.shapeOk) = true := by
  cases m with
  | alias => simp [ifaceMethodView] at hl; subst hl; rfl
  | error => simp [ifaceMethodView] at hl; subst hl; rfl
  | method n d i o =>
    obtain ⟨fi, fo, rfl, rfl, hi, ho⟩ := h.method
    simp only [ifaceMethodView, Option.map_eq_some_iff] at hl
    obtain ⟨ps, hps, rfl⟩ := hl
    obtain ⟨p1, p2, _⟩ := paramFields_spec _ suffix_us fi ps hi hps
    simp [validName_member n h.nameShape, paramListOk_append, shapeOk_append, paramListOk_callParams,
      shapeOk_callParams, paramListOk_errorResult, shapeOk_errorResult, p1, p2]

theorem errorReplyView_shape (iface : Bytes) (m : Member) (h : MemberGood m) (l : List Decl)
    (hl : errorReplyView iface m = some l) : l.all Decl.shapeOk = true := by
  cases m with
  | alias => simp [errorReplyView] at hl; subst hl; rfl
  | method => simp [errorReplyView] at hl; subst hl; rfl
  | error n d oty =>
    obtain ⟨fs, e, hg⟩ := h.error
    simp only [errorReplyView, e] at hl
    split at hl
    · rename_i ps c e1 e2
      injection hl with hl; subst hl
      obtain ⟨p1, p2, _⟩ := paramFields_spec _ suffix_us fs ps hg e1
      have s2 := copyInStmts_shapeOk _ _ fs c hg e2
      simp [shapeOk_func, paramListOk_append, shapeOk_append, paramListOk_ctxParam, shapeOk_ctxParam,
        paramListOk_errorResult, shapeOk_errorResult, Stmt.shapeOkList, Stmt.shapeOk, shapeOkList_append,
        GoTy.shapeOk, p1, p2, s2]
    · exact absurd hl (by simp)

theorem methodReplyView_shape (m : Member) (h : MemberGood m) (l : List Decl)
    (hl : methodReplyView m = some l) : l.all Decl.shapeOk = true := by
  cases m with
  | alias => simp [methodReplyView] at hl; subst hl; rfl
  | error => simp [methodReplyView] at hl; subst hl; rfl
  | method n d i o =>
    obtain ⟨fi, fo, rfl, rfl, hi, ho⟩ := h.method
    have h1 : tyNamesOk (.struct fo) = true := by simpa [tyNamesOk] using ho.names
    have h2 : tyFieldsDistinct (.struct fo) = true := by simp [tyFieldsDistinct, ho.distinctNames, ho.deep]
    simp only [methodReplyView] at hl
    split at hl
    · rename_i ps e1
      obtain ⟨p1, p2, _⟩ := paramFields_spec _ suffix_us fo ps ho e1
      split at hl
      · split at hl
        · rename_i t c e2 e3
          injection hl with hl; subst hl
          have s2 := copyInStmts_shapeOk _ _ fo c ho e3
          simp [shapeOk_func, paramListOk_append, shapeOk_append, paramListOk_ctxParam, shapeOk_ctxParam,
            paramListOk_errorResult, shapeOk_errorResult, Stmt.shapeOkList, Stmt.shapeOk,
            goTy_shapeOk _ true t h1 h2 e2, p1, p2, s2]
        · exact absurd hl (by simp)
      · injection hl with hl; subst hl
        simp [shapeOk_func, paramListOk_append, shapeOk_append, paramListOk_ctxParam, shapeOk_ctxParam,
          paramListOk_errorResult, shapeOk_errorResult, Stmt.shapeOkList, p1, p2]
    · exact absurd hl (by simp)

theorem dummyView_shape (iface : Bytes) (m : Member) (h : MemberGood m) (l : List Decl)
    (hl : dummyView iface m = some l) : l.all Decl.shapeOk = true := by
  cases m with
  | alias => simp [dummyView] at hl; subst hl; rfl
  | error => simp [dummyView] at hl; subst hl; rfl
  | method n d i o =>
    obtain ⟨fi, fo, rfl, rfl, hi, ho⟩ := h.method
    simp only [dummyView, Option.map_eq_some_iff] at hl
    obtain ⟨ps, hps, rfl⟩ := hl
    obtain ⟨p1, p2, _⟩ := paramFields_spec _ suffix_us fi ps hi hps
    simp [shapeOk_func, paramListOk_append, shapeOk_append, paramListOk_callParams, shapeOk_callParams,
      paramListOk_errorResult, shapeOk_errorResult, Stmt.shapeOkList, Stmt.shapeOk, p1, p2]

theorem dispatchCaseView_shape (pkg : Bytes) (m : Member) (h : MemberGood m) (l : List Stmt)
    (hl : dispatchCaseView pkg m = some l) : l.all Stmt.shapeOk = true := by
  cases m with
  | alias => simp [dispatchCaseView] at hl; subst hl; rfl
  | error => simp [dispatchCaseView] at hl; subst hl; rfl
  | method n d i o =>
    obtain ⟨fi, fo, rfl, rfl, hi, ho⟩ := h.method
    have h1 : tyNamesOk (.struct fi) = true := by simpa [tyNamesOk] using hi.names
    have h2 : tyFieldsDistinct (.struct fi) = true := by simp [tyFieldsDistinct, hi.distinctNames, hi.deep]
    simp only [dispatchCaseView] at hl
    split at hl
    · split at hl
      · rename_i t as e1 e2
        injection hl with hl; subst hl
        have := dispatchArgExprs_shapeOk fi as hi e2
        simp [Stmt.shapeOk, Stmt.shapeOkList, goTy_shapeOk _ true t h1 h2 e1, this]
      · exact absurd hl (by simp)
    · injection hl with hl; subst hl
      simp [Stmt.shapeOk, Stmt.shapeOkList]

theorem shapeOkList_of_all : ∀ l : List Stmt, l.all Stmt.shapeOk = true → Stmt.shapeOkList l = true
  | [], _ => rfl
  | s :: r, h => by
    simp only [List.all_cons, Bool.and_eq_true] at h
    simp [Stmt.shapeOkList, h.1, shapeOkList_of_all r h.2]

theorem dispatchErrorView_shape (iface : Bytes) (errors : List Member) :
    Decl.shapeOk (dispatchErrorView iface errors) = true := by
  have : ∀ es : List Member, Stmt.shapeOkList ((es.map (dispatchErrorCaseView iface)).flatten) = true := by
    intro es
    induction es with
    | nil => rfl
    | cons e r ih =>
      cases e <;> simp [dispatchErrorCaseView, Stmt.shapeOkList, Stmt.shapeOk, GoTy.shapeOk, ih]
  simp [dispatchErrorView, shapeOk_func, paramListOk_param, shapeOk_param, pn_err, shapeOk_tName,
    paramListOk_errorResult, shapeOk_errorResult, Stmt.shapeOkList, Stmt.shapeOk, this]



theorem uniqueNames_iff_nodup (l : List Bytes) : uniqueNames l = true ↔ l.Nodup := by
  induction l with
  | nil => simp [uniqueNames]
  | cons a r ih => simp [uniqueNames, ih, List.nodup_cons]

theorem ifaceMethodView_names : ∀ (l : List Member) (r : List IfaceMethod),
    concatOptL ifaceMethodView l = some r → r.map (·.name) = (l.filter Member.isMethod).map Member.name
  | [], r, h => by simp [concatOptL] at h; subst h; rfl
  | m :: l, r, h => by
    simp only [concatOptL] at h
    split at h
    · rename_i x y hx hy
      injection h with h; subst h
      have ih := ifaceMethodView_names l y hy
      cases m with
      | alias => simp [ifaceMethodView] at hx; subst hx; simpa [Member.isMethod] using ih
      | error => simp [ifaceMethodView] at hx; subst hx; simpa [Member.isMethod] using ih
      | method n d i o =>
        simp only [ifaceMethodView, Option.map_eq_some_iff] at hx
        obtain ⟨ps, _, rfl⟩ := hx
        simp [List.filter, Member.isMethod, Member.name, ih]
    · exact absurd h (by simp)

theorem methodNames_distinct (t : Idl) (h : t.uniqueMemberNames = true) :
    distinct ((t.methods.filter Member.isMethod).map Member.name) = true := by
  rw [distinct_iff_nodup]
  have := (uniqueNames_iff_nodup _).mp h
  simp only [Idl.methods, List.filter_filter, Bool.and_self]
  exact List.Nodup.sublist (List.Sublist.map _ List.filter_sublist) this

theorem keyword_all_lower : ∀ k ∈ goKeywords, k.all isLower = true := by decide

theorem lowerOrDigit_identChar' : ∀ c : UInt8, (isLower c || isDigit c) = true → isIdentChar c = true ∧ c ≠ underscore := by
  apply forall_uint8
  set_option maxRecDepth 20000 in decide

/-- `<pkg>Interface` is a usable identifier -/
theorem validName_ifaceName (n : Bytes) (h : ifaceNameShape n = true) :
    validName (pkgName n ++ str "Interface") = true := by
  obtain ⟨c, r, e, hc, hr⟩ := pkgName_shape n h
  simp only [validName, Bool.and_eq_true, Bool.not_eq_true', bne_iff_ne, ne_eq]
  refine ⟨⟨?_, ?_⟩, ?_⟩
  · rw [e]
    simp only [isGoIdent, Bool.and_eq_true, List.cons_append, List.all_append]
    refine ⟨lower_identStart c hc, ?_, by decide⟩
    rw [List.all_eq_true] at hr ⊢
    exact fun x hx => pkgChar_identChar x (hr x hx)
  · rw [← Bool.not_eq_true]
    intro hk
    have := keyword_all_lower _ (List.contains_iff_mem.mp hk)
    rw [List.all_append, Bool.and_eq_true] at this
    exact absurd this.2 (by decide)
  · intro e'
    have : (pkgName n ++ str "Interface").length = 1 := by rw [e']; rfl
    simp [str] at this

/-- **typesOk**: every struct type and every parameter list of the emitted file has valid, distinct names -/
theorem typesOk_genFile (t : Idl) (f : GoFile) (hm : ∀ m ∈ t.members, MemberGood m)
    (hn : ifaceNameShape t.name = true) (hu : t.uniqueMemberNames = true) (hf : genFile t = some f) : typesOk f = true := by
  obtain ⟨body, aliases, errors, clients, ifaceMethods, errorReplies, methodReplies, dummies, cases,
    _, e1, e2, e3, e4, e5, e6, e7, e8, rfl⟩ := genFile_inv hf
  have sub : ∀ (p : Member → Bool), ∀ m ∈ t.members.filter p, MemberGood m :=
    fun p m hm' => hm m (List.mem_filter.mp hm').1
  have a1 := concatOptL_all (aliasView t) Decl.shapeOk _ _ (fun m hm' x hx => aliasView_shape t m (sub _ m hm') x hx) e1
  have a2 := concatOptL_all errorView Decl.shapeOk _ _ (fun m hm' x hx => errorView_shape m (sub _ m hm') x hx) e2
  have a3 := concatOptL_all (methodClientView t.name) Decl.shapeOk _ _
    (fun m hm' x hx => methodClientView_shape _ m (sub _ m hm') x hx) e3
  have a4 := concatOptL_all ifaceMethodView _ _ _ (fun m hm' x hx => ifaceMethodView_shape m (sub _ m hm') x hx) e4
  have a5 := concatOptL_all (errorReplyView t.name) Decl.shapeOk _ _
    (fun m hm' x hx => errorReplyView_shape _ m (sub _ m hm') x hx) e5
  have a6 := concatOptL_all methodReplyView Decl.shapeOk _ _
    (fun m hm' x hx => methodReplyView_shape m (sub _ m hm') x hx) e6
  have a7 := concatOptL_all (dummyView t.name) Decl.shapeOk _ _
    (fun m hm' x hx => dummyView_shape _ m (sub _ m hm') x hx) e7
  have a8 := concatOptL_all (dispatchCaseView (pkgName t.name)) Stmt.shapeOk _ _
    (fun m hm' x hx => dispatchCaseView_shape _ m (sub _ m hm') x hx) e8
  have a4n : distinct (ifaceMethods.map (·.name)) = true := by
    rw [ifaceMethodView_names _ _ e4]; exact methodNames_distinct t hu
  have a8' := shapeOkList_of_all _ a8
  simp only [typesOk, assembleFile, List.all_append, List.all_cons, List.all_nil, Bool.and_true, a1, a2, a3, a5,
    a6, a7, dispatchErrorView_shape, Bool.true_and]
  have vcall : validName (str "Call") = true := by decide
  have vi := validName_ifaceName t.name hn
  have shapeOk_iface : ∀ n ms, Decl.shapeOk (.iface n ms) = (distinct (ms.map (·.name)) && ms.all fun m =>
      validName m.name && paramListOk m.params && paramListOk m.results && m.params.shapeOk && m.results.shapeOk) :=
    fun _ _ => rfl
  have fieldNames_param : ∀ n t, (param n t).fieldNames = [if n.isEmpty then embeddedName t else n] := fun _ _ => rfl
  simp [shapeOk_func, shapeOk_type, shapeOk_iface, fieldNames_param, a4n, a4, GoTy.shapeOk,
    embeddedName, distinct, paramListOk_append, shapeOk_append, paramListOk_param, shapeOk_param,
    paramListOk_nil, shapeOk_nil, shapeOk_tName, paramListOk_ctxParam, shapeOk_ctxParam, paramListOk_errorResult,
    shapeOk_errorResult, pn_call, pn_methodname, pn_m, Stmt.shapeOkList, Stmt.shapeOk, shapeOkList_append, a8',
    vcall, vi]

end Varlink.Gen
