/-
  `noCycleOk` for the generator's view, third part: which declaration a declared type name belongs to, walks in
  the emitted file against walks in the description, acyclicity of the alias declarations, and the theorem
  (used by VarlinkProofs/Props/C07.lean).
-/
import VarlinkProofs.Lemmas.GenCycle2
import VarlinkProofs.Lemmas.GenMethods
namespace Varlink.Gen
open Varlink Varlink.Idl

/-! ## the declaration of a declared type name -/

/-- what a type declaration of the emitted file is -/
def TyDeclOf (t : Idl) (n : Bytes) (d : Decl) : Prop :=
  (∃ d' ty g, Member.alias n d' ty ∈ t.members ∧ goTy ty true = some g
      ∧ d = (if resolvesToObject t ty then .alias n g else .type n g))
  ∨ (∃ d' oty g, Member.error n d' oty ∈ t.members ∧ goTy (errTy oty) true = some g ∧ d = .type n g)
  ∨ d = .type n (.struct .nil)
  ∨ (n = str "VarlinkCall" ∧ d = .type n (.struct (param [] (.qual (str "varlink") (str "Call")))))
  ∨ (n = str "VarlinkInterface" ∧ d = .type n (.struct (param [] (.name (pkgName t.name ++ str "Interface")))))

theorem tyDecl_cases (t : Idl) (f : GoFile) (hty : (f.decls.filterMap Decl.tyName?).Nodup)
    (hf : genFile t = some f) (d : Decl) (hd : d ∈ f.decls) (n : Bytes) (hn : d.tyName? = some n) :
    TyDeclOf t n d := by
  have hmem : n ∈ f.decls.filterMap Decl.tyName? := List.mem_filterMap.mpr ⟨d, hd, hn⟩
  rw [tyNames_genFile t f hf] at hmem
  obtain ⟨aliases, errors, clients, ifaceMethods, errorReplies, methodReplies, dummies, cases,
    e1, e2, e3, e5, e6, e7, hdecls⟩ := decls_genFile hf
  have uniq := fun d0 (h0 : d0 ∈ f.decls) (e0 : d0.tyName? = some n) =>
    filterMap_nodup_unique Decl.tyName? f.decls hty d hd d0 h0 n hn e0
  simp only [List.mem_append, List.mem_cons, List.not_mem_nil, or_false] at hmem
  rcases hmem with ((hA | hE) | hMm) | hV
  · obtain ⟨mem, hmem, rfl⟩ := List.mem_map.mp hA
    have hmemM := (List.mem_filter.mp hmem).1
    obtain ⟨x, hx, hsub⟩ := concatOptL_mem_ex (aliasView t) _ _ e1 mem hmem
    cases mem with
    | method => simp [Member.isAlias] at hmem
    | error => simp [Member.isAlias] at hmem
    | alias n d' ty =>
      simp only [Member.name] at *
      simp only [aliasView, Option.map_eq_some_iff] at hx
      obtain ⟨g, hg, rfl⟩ := hx
      have h0 := hsub _ (List.mem_singleton.mpr rfl)
      refine Or.inl ⟨d', ty, g, hmemM, hg, uniq _ (by rw [hdecls]; simp [h0]) ?_⟩
      cases resolvesToObject t ty <;> rfl
  · obtain ⟨mem, hmem, rfl⟩ := List.mem_map.mp hE
    have hmemM := (List.mem_filter.mp hmem).1
    obtain ⟨x, hx, hsub⟩ := concatOptL_mem_ex errorView _ _ e2 mem hmem
    cases mem with
    | method => simp [Member.isError] at hmem
    | alias => simp [Member.isError] at hmem
    | error n d' oty =>
      simp only [Member.name] at *
      simp only [errorView, Option.map_eq_some_iff] at hx
      obtain ⟨g, hg, rfl⟩ := hx
      have h0 := hsub (.type n g) (by simp)
      exact Or.inr (Or.inl ⟨d', oty, g, hmemM, hg, uniq _ (by rw [hdecls]; simp [h0]) rfl⟩)
  · obtain ⟨mem, hmem, rfl⟩ := List.mem_map.mp hMm
    obtain ⟨x, hx, hsub⟩ := concatOptL_mem_ex (methodClientView t.name) _ _ e3 mem hmem
    cases mem with
    | error => simp [Member.isMethod] at hmem
    | alias => simp [Member.isMethod] at hmem
    | method n d' i o =>
      simp only [Member.name] at *
      simp only [methodClientView] at hx
      split at hx
      · injection hx with hx; subst hx
        have h0 := hsub (.type (n ++ str "_methods") (.struct .nil)) (by simp)
        exact Or.inr (Or.inr (Or.inl (uniq _ (by rw [hdecls]; simp [h0]) rfl)))
      · exact absurd hx (by simp)
  · rcases hV with rfl | rfl
    · exact Or.inr (Or.inr (Or.inr (Or.inl ⟨rfl, uniq _ (by rw [hdecls]; simp) rfl⟩)))
    · exact Or.inr (Or.inr (Or.inr (Or.inr ⟨rfl, uniq _ (by rw [hdecls]; simp) rfl⟩)))

/-! ## the context -/

/-- what the domain provides for the graph argument -/
structure CycleCtx (t : Idl) (f : GoFile) : Prop where
  gen : genFile t = some f
  tyNodup : (f.decls.filterMap Decl.tyName?).Nodup
  uniq : (t.members.map Member.name).Nodup
  refs : ∀ m ∈ t.members, ∀ ty ∈ m.types, tyRefsIn (aliasNames t) ty = true
  names : NameFacts t
  iface : ifaceNameShape t.name = true
  norec : noDirectRecursion t = true

theorem headLower_of_shape (x : Bytes) (h : memberNameShape x = true) : headLower x = false := by
  obtain ⟨_, c, r, rfl, hc⟩ := member_shape_facts x h
  simpa [headLower] using (upper_facts c hc).2.1

theorem basic_lower : ∀ y ∈ basicNames, headLower y = true := by decide

/-- the nodes a walk can visit: names of `type` members and names with a lower-case first letter -/
def InS (t : Idl) (x : Bytes) : Prop := x ∈ aliasNames t ∨ headLower x = true

theorem direct_inS (t : Idl) (ty : Ty) (g : GoTy) (hr : tyRefsIn (aliasNames t) ty = true)
    (hg : goTy ty true = some g) : ∀ y ∈ g.directNames, InS t y := by
  intro y hy
  rcases goTy_directNames ty true g hg y hy with h | h
  · exact Or.inl (tyDirectRefs_sub _ ty hr y h)
  · exact Or.inr (basic_lower y h)

section ctx
variable {t : Idl} {f : GoFile} (ctx : CycleCtx t f)
include ctx

theorem CycleCtx.aliasUpper (x : Bytes) (hx : x ∈ aliasNames t) : headLower x = false :=
  headLower_of_shape x (ctx.names.shapeA x hx)

/-- a name with a lower-case first letter is not declared as a type -/
theorem CycleCtx.lowerStep (x : Bytes) (hx : headLower x = true) : lookupType f.decls x = none := by
  apply lookupType_none
  rw [tyNames_genFile t f ctx.gen]
  intro hmem
  have hup : headLower x = false := by
    simp only [List.mem_append, List.mem_cons, List.not_mem_nil, or_false] at hmem
    rcases hmem with ((hA | hE) | hMm) | hV
    · exact headLower_of_shape x (ctx.names.shapeA x hA)
    · exact headLower_of_shape x (ctx.names.shapeE x hE)
    · rw [namesMm_eq] at hMm
      obtain ⟨n, hn, rfl⟩ := List.mem_map.mp hMm
      obtain ⟨_, c, r, rfl, hc⟩ := member_shape_facts n (ctx.names.shapeM n hn)
      simpa [headLower] using (upper_facts c hc).2.1
    · rcases hV with rfl | rfl <;> decide
  rw [hup] at hx
  exact absurd hx (by simp)

/-- the declaration of a `type` member is what `lookupType` finds under its name -/
theorem CycleCtx.aliasStep (n d : Bytes) (ty : Ty) (hm : Member.alias n d ty ∈ t.members) :
    ∃ g, goTy ty true = some g ∧ lookupType f.decls n = some g
      ∧ (if resolvesToObject t ty then Decl.alias n g else Decl.type n g) ∈ f.decls := by
  obtain ⟨aliases, errors, clients, ifaceMethods, errorReplies, methodReplies, dummies, cases,
    e1, e2, e3, e5, e6, e7, hdecls⟩ := decls_genFile ctx.gen
  have hmem : Member.alias n d ty ∈ t.aliases := List.mem_filter.mpr ⟨hm, rfl⟩
  obtain ⟨x, hx, hsub⟩ := concatOptL_mem_ex (aliasView t) _ _ e1 _ hmem
  simp only [aliasView, Option.map_eq_some_iff] at hx
  obtain ⟨g, hg, rfl⟩ := hx
  have h0 := hsub _ (List.mem_singleton.mpr rfl)
  have h1 : (if resolvesToObject t ty then Decl.alias n g else Decl.type n g) ∈ f.decls := by
    rw [hdecls]; simp [h0]
  refine ⟨g, hg, lookupType_of_decl f.decls _ n g ctx.tyNodup h1 ?_, h1⟩
  cases resolvesToObject t ty <;> rfl

theorem CycleCtx.stepIdl_alias (n d : Bytes) (ty : Ty) (hm : Member.alias n d ty ∈ t.members) :
    stepIdl t.members n = tyDirectRefs ty := by
  simp [stepIdl, lookupAlias_of_mem t.members n d ty ctx.uniq hm]

theorem CycleCtx.step_inS (x y : Bytes) (hx : InS t x) (hy : y ∈ stepGo f.decls x) : InS t y := by
  rcases hx with hx | hx
  · obtain ⟨d, ty, hm⟩ := mem_aliasNames hx
    obtain ⟨g, hg, hl, _⟩ := ctx.aliasStep x d ty hm
    simp only [stepGo, hl] at hy
    exact direct_inS t ty g (ctx.refs _ hm ty (by simp [Member.types])) hg y hy
  · simp [stepGo, ctx.lowerStep x hx] at hy

theorem CycleCtx.walk_stays {k : Nat} {x z : Bytes} (hw : Walk (stepGo f.decls) k x z) : InS t x → InS t z := by
  induction hw with
  | refl x => exact id
  | cons hxy _ ih => exact fun hx => ih (ctx.step_inS _ _ hx hxy)

/-- a walk in the emitted file to the name of a `type` member is a walk in the description -/
theorem CycleCtx.walk_go_idl {k : Nat} {x z : Bytes} (hw : Walk (stepGo f.decls) k x z) :
    InS t x → z ∈ aliasNames t → x ∈ aliasNames t ∧ Walk (stepIdl t.members) k x z := by
  induction hw with
  | refl x => exact fun _ hz => ⟨hz, Walk.refl x⟩
  | @cons k x y z hxy _ ih =>
    intro hx hz
    rcases hx with hx | hx
    · obtain ⟨d, ty, hm⟩ := mem_aliasNames hx
      obtain ⟨g, hg, hl, _⟩ := ctx.aliasStep x d ty hm
      have hy := ctx.step_inS x y (Or.inl hx) hxy
      obtain ⟨hyA, hwy⟩ := ih hy hz
      simp only [stepGo, hl] at hxy
      refine ⟨hx, Walk.cons ?_ hwy⟩
      rw [ctx.stepIdl_alias x d ty hm]
      rcases goTy_directNames ty true g hg y hxy with h | h
      · exact h
      · have h1 : headLower y = true := basic_lower y h
        rw [ctx.aliasUpper y hyA] at h1
        exact absurd h1 (by simp)
    · simp [stepGo, ctx.lowerStep x hx] at hxy

/-- **no type of infinite size**: no declared type contains itself directly -/
theorem CycleCtx.noReach (d : Decl) (hd : d ∈ f.decls) (n : Bytes) (g : GoTy) (hn : d.tyDecl? = some (n, g))
    (fuel : Nat) : reachesName f.decls n fuel g.directNames = false := by
  rw [← Bool.not_eq_true, reachesName_eq]
  intro hreach
  obtain ⟨x, hx, k, hw⟩ := reachG_walk _ _ _ _ hreach
  obtain ⟨_, _, _, _, _, _, dAE, dAMm, cA, _, _, iA, _⟩ := nodup_groups _ _ _ _ _ _ _ _ _ ctx.names.nodup
  rcases tyDecl_cases t f ctx.tyNodup ctx.gen d hd n (tyDecl_name hn) with
    ⟨d', ty, g', hm, hg, rfl⟩ | ⟨d', oty, g', hm, hg, rfl⟩ | rfl | ⟨rfl, rfl⟩ | ⟨rfl, rfl⟩
  · -- a `type` member
    have e : g = g' := by
      cases hr : resolvesToObject t ty <;> simp [hr, Decl.tyDecl?] at hn <;> exact hn.symm
    subst e
    have hr := ctx.refs _ hm ty (by simp [Member.types])
    have hxS := direct_inS t ty g hr hg x hx
    obtain ⟨hxA, hwi⟩ := ctx.walk_go_idl hw hxS (aliasNames_of_mem hm)
    have hx' : x ∈ tyDirectRefs ty := by
      rcases goTy_directNames ty true g hg x hx with h | h
      · exact h
      · have h1 := basic_lower x h
        rw [ctx.aliasUpper x hxA] at h1
        exact absurd h1 (by simp)
    exact noWalk_of_domain t ctx.norec n d' ty hm x hx' k hwi
  · -- an error
    simp only [Decl.tyDecl?, Option.some.injEq, Prod.mk.injEq, true_and] at hn
    subst hn
    have hr : tyRefsIn (aliasNames t) (errTy oty) = true := by
      cases oty with
      | none => rfl
      | some ty => exact ctx.refs _ hm ty (by simp [Member.types])
    have hxS := direct_inS t _ g' hr hg x hx
    have hnE : n ∈ namesE t := List.mem_map.mpr ⟨_, List.mem_filter.mpr ⟨hm, rfl⟩, rfl⟩
    rcases ctx.walk_stays hw hxS with h | h
    · exact dAE n h hnE
    · rw [headLower_of_shape n (ctx.names.shapeE n hnE)] at h
      exact absurd h (by simp)
  · simp only [Decl.tyDecl?, Option.some.injEq, Prod.mk.injEq, true_and] at hn
    subst hn
    simp [GoTy.directNames, GoFields.directNames] at hx
  · simp only [Decl.tyDecl?, Option.some.injEq, Prod.mk.injEq, true_and] at hn
    subst hn
    simp [param, GoTy.directNames, GoFields.directNames] at hx
  · simp only [Decl.tyDecl?, Option.some.injEq, Prod.mk.injEq, true_and] at hn
    subst hn
    simp only [param, GoTy.directNames, GoFields.directNames, List.append_nil, List.mem_singleton] at hx
    subst hx
    obtain ⟨c, r, e, hc⟩ := pkgIface_facts t.name ctx.iface
    have hxS : InS t (pkgName t.name ++ str "Interface") := Or.inr (by rw [e]; simpa [headLower] using hc)
    rcases ctx.walk_stays hw hxS with h | h
    · exact iA h
    · exact absurd h (by decide)

end ctx

/-! ## alias declarations: `resolvesToObject` follows the only outgoing edge, and ends at `object` -/

theorem resolvesF_mono (al : List Member) : ∀ (k : Nat) (ty : Ty), resolvesToObjectF al k ty = true →
    resolvesToObjectF al (k + 1) ty = true
  | 0, _, h => by simp [resolvesToObjectF] at h
  | k + 1, ty, h => by
    cases ty with
    | object => simp [resolvesToObjectF]
    | maybe e =>
      simp only [resolvesToObjectF] at h ⊢
      exact resolvesF_mono al k e h
    | named n =>
      simp only [resolvesToObjectF] at h ⊢
      split at h
      · rename_i ty' e'
        exact resolvesF_mono al k ty' h
      · exact absurd h (by simp)
    | bool => simp [resolvesToObjectF] at h
    | int => simp [resolvesToObjectF] at h
    | float => simp [resolvesToObjectF] at h
    | string => simp [resolvesToObjectF] at h
    | enum _ => simp [resolvesToObjectF] at h
    | array _ => simp [resolvesToObjectF] at h
    | map _ => simp [resolvesToObjectF] at h
    | struct _ => simp [resolvesToObjectF] at h

/-- the names the translation of a type that resolves to `object` mentions resolve to `object` as well -/
theorem resolvesF_names (al : List Member) : ∀ (k : Nat) (ty : Ty) (g : GoTy) (y : Bytes),
    resolvesToObjectF al k ty = true → goTy ty true = some g → y ∈ g.allNames →
    resolvesToObjectF al k (.named y) = true
  | 0, _, _, _, h, _, _ => by simp [resolvesToObjectF] at h
  | k + 1, ty, g, y, h, hg, hy => by
    cases ty with
    | object => simp [goTy] at hg; subst hg; simp [GoTy.allNames] at hy
    | maybe e =>
      simp only [goTy, Option.map_eq_some_iff] at hg
      obtain ⟨a, ha, rfl⟩ := hg
      simp only [GoTy.allNames] at hy
      simp only [resolvesToObjectF] at h
      exact resolvesF_mono al k _ (resolvesF_names al k e a y h ha hy)
    | named n =>
      simp [goTy] at hg; subst hg
      simp only [GoTy.allNames, List.mem_singleton] at hy
      subst hy
      exact h
    | bool => simp [resolvesToObjectF] at h
    | int => simp [resolvesToObjectF] at h
    | float => simp [resolvesToObjectF] at h
    | string => simp [resolvesToObjectF] at h
    | enum _ => simp [resolvesToObjectF] at h
    | array _ => simp [resolvesToObjectF] at h
    | map _ => simp [resolvesToObjectF] at h
    | struct _ => simp [resolvesToObjectF] at h

section ctx2
variable {t : Idl} {f : GoFile} (ctx : CycleCtx t f)
include ctx

theorem CycleCtx.aliasLast (n d : Bytes) (ty : Ty) (hm : Member.alias n d ty ∈ t.members) :
    lookupAliasLast t.aliases n = some ty :=
  lookupAliasLast_of_mem t.aliases n d ty
    (List.Nodup.sublist (List.Sublist.map _ List.filter_sublist) ctx.uniq)
    (List.mem_filter.mpr ⟨hm, rfl⟩)

/-- an alias declaration of the emitted file is a `type` member that resolves to `object` -/
theorem CycleCtx.aliasDecl (x : Bytes) (g : GoTy) (hd : Decl.alias x g ∈ f.decls) :
    ∃ d ty, Member.alias x d ty ∈ t.members ∧ goTy ty true = some g ∧ resolvesToObject t ty = true := by
  rcases tyDecl_cases t f ctx.tyNodup ctx.gen _ hd x rfl with
    ⟨d', ty, g', hm, hg, e⟩ | ⟨_, _, _, _, _, e⟩ | e | ⟨_, e⟩ | ⟨_, e⟩
  · cases hr : resolvesToObject t ty
    · simp [hr] at e
    · simp only [hr, if_true] at e
      injection e with _ e2
      subst e2
      exact ⟨d', ty, hm, hg, hr⟩
  · exact absurd e (by simp)
  · exact absurd e (by simp)
  · exact absurd e (by simp)
  · exact absurd e (by simp)

theorem CycleCtx.stepAl_edge (x y : Bytes) (hy : y ∈ stepAl f.decls x) :
    ∃ d ty g, Member.alias x d ty ∈ t.members ∧ goTy ty true = some g ∧ y ∈ g.allNames := by
  simp only [stepAl] at hy
  split at hy
  · rename_i g e
    obtain ⟨d, ty, hm, hg, _⟩ := ctx.aliasDecl x g (lookupAliasDecl_mem _ _ _ e)
    exact ⟨d, ty, g, hm, hg, hy⟩
  · simp at hy

/-- no alias declaration is reachable from itself through alias declarations -/
theorem CycleCtx.alias_acyclic : ∀ (k : Nat) (x : Bytes), resolvesToObjectF t.aliases k (.named x) = true →
    ∀ m, ¬ Walk (stepAl f.decls) (m + 1) x x
  | 0, _, h, _, _ => by simp [resolvesToObjectF] at h
  | k + 1, x, h, m, hw => by
    cases hw with
    | cons hxy hw' =>
      rename_i y
      obtain ⟨d, ty, g, hm, hg, hy⟩ := ctx.stepAl_edge x y hxy
      simp only [resolvesToObjectF, ctx.aliasLast x d ty hm] at h
      have hy' := resolvesF_names t.aliases k ty g y h hg hy
      exact CycleCtx.alias_acyclic k y hy' m (walk_snoc hw' hxy)

theorem CycleCtx.noReachAlias (n : Bytes) (g : GoTy) (hd : Decl.alias n g ∈ f.decls) (fuel : Nat) :
    reachesAliasName f.decls n fuel g.allNames = false := by
  rw [← Bool.not_eq_true, reachesAliasName_eq]
  intro hreach
  obtain ⟨y, hy, k, hw⟩ := reachG_walk _ _ _ _ hreach
  obtain ⟨d, ty, hm, hg, hr⟩ := ctx.aliasDecl n g hd
  have hstep : stepAl f.decls n = g.allNames := by
    simp [stepAl, lookupAliasDecl_of_mem f.decls n g ctx.tyNodup hd]
  have hcyc : Walk (stepAl f.decls) (k + 1) n n := Walk.cons (hstep ▸ hy) hw
  have hres : resolvesToObjectF t.aliases (2 * t.aliases.length + 3 + 1) (.named n) = true := by
    simp only [resolvesToObjectF, ctx.aliasLast n d ty hm]
    exact hr
  exact ctx.alias_acyclic _ n hres k hcyc

/-- **noCycleOk** -/
theorem CycleCtx.noCycleOk : noCycleOk f = true := by
  simp only [Varlink.Gen.noCycleOk, List.all_eq_true]
  intro d hd
  cases d with
  | type n g => simp [ctx.noReach _ hd n g rfl]
  | alias n g => simp [ctx.noReach _ hd n g rfl, ctx.noReachAlias n g hd]
  | iface n ms => rfl
  | func g => rfl

end ctx2

end Varlink.Gen
