/-
  Lemmas for C16: invariants of the interleaving semantics of `Varlink/Race.lean` and the soundness
  of the static discipline.
-/
import Varlink.Race
namespace Varlink.Race

variable {F : Type} [DecidableEq F]
set_option linter.unusedSectionVars false

@[simp] theorem upd_same {α : Type} (th : Tid → α) (t : Tid) (v : α) : upd th t v t = v := by
  simp [upd]

theorem upd_other {α : Type} (th : Tid → α) {t x : Tid} (v : α) (h : x ≠ t) : upd th t v x = th x := by
  simp [upd, h]

/-! ### what one step does to the thread states -/

/-- every step moves a (possibly empty) prefix of a thread's remaining code to its history -/
theorem step_progress {s s' : St F} {t : Tid} (h : Step s t s') (x : Tid) :
    ∃ l, (s'.th x).done = (s.th x).done ++ l ∧ (s.th x).rem = l ++ (s'.th x).rem := by
  cases h with
  | acc f k r hs hc hr =>
    by_cases hx : x = t
    · subst hx; exact ⟨[.acc f k], by simp [TSt.adv], by simp [TSt.adv, hr]⟩
    · exact ⟨[], by simp [upd_other _ _ hx], by simp [upd_other _ _ hx]⟩
  | enter body r hs hc hr hh =>
    by_cases hx : x = t
    · subst hx; exact ⟨[], by simp, by simp⟩
    · exact ⟨[], by simp [upd_other _ _ hx], by simp [upd_other _ _ hx]⟩
  | inside a l hs hc =>
    by_cases hx : x = t
    · subst hx; exact ⟨[], by simp, by simp⟩
    · exact ⟨[], by simp [upd_other _ _ hx], by simp [upd_other _ _ hx]⟩
  | leave body r hs hc hr =>
    by_cases hx : x = t
    · subst hx; exact ⟨[.locked body], by simp [TSt.adv], by simp [TSt.adv, hr]⟩
    · exact ⟨[], by simp [upd_other _ _ hx], by simp [upd_other _ _ hx]⟩
  | spawn u r hs hc hr hu =>
    have htu : t ≠ u := by intro e; subst e; simp [hs] at hu
    by_cases hxu : x = u
    · subst hxu; exact ⟨[], by simp, by simp⟩
    · by_cases hx : x = t
      · subst hx
        exact ⟨[.spawn u], by simp [upd_other _ _ hxu, TSt.adv], by simp [upd_other _ _ hxu, TSt.adv, hr]⟩
      · exact ⟨[], by simp [upd_other _ _ hxu, upd_other _ _ hx], by simp [upd_other _ _ hxu, upd_other _ _ hx]⟩
  | join u r hs hc hr hf =>
    by_cases hx : x = t
    · subst hx; exact ⟨[.join u], by simp [TSt.adv], by simp [TSt.adv, hr]⟩
    · exact ⟨[], by simp [upd_other _ _ hx], by simp [upd_other _ _ hx]⟩
  | send c r hs hc hr =>
    by_cases hx : x = t
    · subst hx; exact ⟨[.send c], by simp [TSt.adv], by simp [TSt.adv, hr]⟩
    · exact ⟨[], by simp [upd_other _ _ hx], by simp [upd_other _ _ hx]⟩
  | recv c r hs hc hr hn =>
    by_cases hx : x = t
    · subst hx; exact ⟨[.recv c], by simp [TSt.adv], by simp [TSt.adv, hr]⟩
    · exact ⟨[], by simp [upd_other _ _ hx], by simp [upd_other _ _ hx]⟩

theorem step_done_mono {s s' : St F} {t : Tid} (h : Step s t s') (x : Tid) (y : Stmt F)
    (hy : y ∈ (s.th x).done) : y ∈ (s'.th x).done := by
  obtain ⟨l, h1, _⟩ := step_progress h x
  rw [h1]; exact List.mem_append_left _ hy

/-- a thread that is not started cannot have been spawned twice: `started` only goes up -/
theorem step_started_mono {s s' : St F} {t : Tid} (h : Step s t s') (x : Tid)
    (hx : (s.th x).started = true) : (s'.th x).started = true := by
  cases h with
  | acc f k r hs hc hr =>
    by_cases e : x = t
    · subst e; simpa [TSt.adv] using hx
    · simpa [upd_other _ _ e] using hx
  | enter body r hs hc hr hh =>
    by_cases e : x = t
    · subst e; simpa using hx
    · simpa [upd_other _ _ e] using hx
  | inside a l hs hc =>
    by_cases e : x = t
    · subst e; simpa using hx
    · simpa [upd_other _ _ e] using hx
  | leave body r hs hc hr =>
    by_cases e : x = t
    · subst e; simpa [TSt.adv] using hx
    · simpa [upd_other _ _ e] using hx
  | spawn u r hs hc hr hu =>
    by_cases e1 : x = u
    · subst e1; simp
    · by_cases e : x = t
      · subst e; simpa [upd_other _ _ e1, TSt.adv] using hx
      · simpa [upd_other _ _ e1, upd_other _ _ e] using hx
  | join u r hs hc hr hf =>
    by_cases e : x = t
    · subst e; simpa [TSt.adv] using hx
    · simpa [upd_other _ _ e] using hx
  | send c r hs hc hr =>
    by_cases e : x = t
    · subst e; simpa [TSt.adv] using hx
    · simpa [upd_other _ _ e] using hx
  | recv c r hs hc hr hn =>
    by_cases e : x = t
    · subst e; simpa [TSt.adv] using hx
    · simpa [upd_other _ _ e] using hx

/-- a finished thread stays finished -/
theorem step_finished_stable {s s' : St F} {t : Tid} (h : Step s t s') (x : Tid)
    (hf : (s.th x).finished) : (s'.th x).finished := by
  obtain ⟨hst, hrem, hcs⟩ := hf
  cases h with
  | acc f k r hs hc hr =>
    by_cases e : x = t
    · subst e; simp [hrem] at hr
    · simpa [upd_other _ _ e, TSt.finished] using ⟨hst, hrem, hcs⟩
  | enter body r hs hc hr hh =>
    by_cases e : x = t
    · subst e; simp [hrem] at hr
    · simpa [upd_other _ _ e, TSt.finished] using ⟨hst, hrem, hcs⟩
  | inside a l hs hc =>
    by_cases e : x = t
    · subst e; simp [hcs] at hc
    · simpa [upd_other _ _ e, TSt.finished] using ⟨hst, hrem, hcs⟩
  | leave body r hs hc hr =>
    by_cases e : x = t
    · subst e; simp [hcs] at hc
    · simpa [upd_other _ _ e, TSt.finished] using ⟨hst, hrem, hcs⟩
  | spawn u r hs hc hr hu =>
    by_cases e1 : x = u
    · subst e1; simp [hst] at hu
    · by_cases e : x = t
      · subst e; simp [hrem] at hr
      · simpa [upd_other _ _ e1, upd_other _ _ e, TSt.finished] using ⟨hst, hrem, hcs⟩
  | join u r hs hc hr hf =>
    by_cases e : x = t
    · subst e; simp [hrem] at hr
    · simpa [upd_other _ _ e, TSt.finished] using ⟨hst, hrem, hcs⟩
  | send c r hs hc hr =>
    by_cases e : x = t
    · subst e; simp [hrem] at hr
    · simpa [upd_other _ _ e, TSt.finished] using ⟨hst, hrem, hcs⟩
  | recv c r hs hc hr hn =>
    by_cases e : x = t
    · subst e; simp [hrem] at hr
    · simpa [upd_other _ _ e, TSt.finished] using ⟨hst, hrem, hcs⟩

/-! ### the invariant -/

structure Inv (P : Prog F) (s : St F) : Prop where
  code_split : ∀ t, code P t = (s.th t).done ++ (s.th t).rem
  cs_owner : ∀ t l, (s.th t).cs = some l → (s.th t).started = true ∧ s.holder = some t ∧
      ∃ body r pre, (s.th t).rem = .locked body :: r ∧ body = pre ++ l
  spawned : ∀ u, (s.th u).started = true → u ∈ spawnTargets P → ∃ t, Stmt.spawn u ∈ (s.th t).done
  joined : ∀ t u, Stmt.join u ∈ (s.th t).done → (s.th u).finished
  chans : ∀ c, (s.chan c > 0 ∨ ∃ t, Stmt.recv c ∈ (s.th t).done) → ∃ t, Stmt.send c ∈ (s.th t).done

theorem inv_init (P : Prog F) : Inv P (init P) := by
  refine ⟨?_, ?_, ?_, ?_, ?_⟩
  · intro t; simp [init]
  · intro t l h; simp [init] at h
  · intro u hs hu
    simp [init] at hs
    exact absurd hu hs
  · intro t u h; simp [init] at h
  · intro c h
    rcases h with h | ⟨t, h⟩
    · simp [init] at h
    · simp [init] at h

theorem inv_code_split {P : Prog F} {s s' : St F} {t : Tid} (hi : Inv P s) (h : Step s t s') :
    ∀ x, code P x = (s'.th x).done ++ (s'.th x).rem := by
  intro x
  obtain ⟨l, h1, h2⟩ := step_progress h x
  rw [hi.code_split x, h1, h2, List.append_assoc]

theorem inv_cs_owner {P : Prog F} {s s' : St F} {t : Tid} (hi : Inv P s) (h : Step s t s') :
    ∀ x l, (s'.th x).cs = some l → (s'.th x).started = true ∧ s'.holder = some x ∧
      ∃ body r pre, (s'.th x).rem = .locked body :: r ∧ body = pre ++ l := by
  intro x l hx
  -- a thread other than t with cs ≠ none holds the mutex, hence t did not enter or leave
  cases h with
  | acc f k r hs hc hr =>
    by_cases e : x = t
    · subst e; simp [TSt.adv] at hx
    · simp only [upd_other _ _ e] at hx ⊢; exact hi.cs_owner x l hx
  | enter body r hs hc hr hh =>
    by_cases e : x = t
    · subst e
      have hx' : body = l := by simpa using hx
      subst hx'
      exact ⟨by simpa using hs, by simp, body, r, [], by simpa using hr, by simp⟩
    · simp only [upd_other _ _ e] at hx ⊢
      have := hi.cs_owner x l hx
      rw [hh] at this; simp at this
  | inside a l' hs hc =>
    by_cases e : x = t
    · subst e
      simp only [upd_same] at hx ⊢
      have hl : l' = l := by simpa using hx
      subst hl
      obtain ⟨h1, h2, body, r, pre, h3, h4⟩ := hi.cs_owner x (a :: l') hc
      exact ⟨h1, h2, body, r, pre ++ [a], h3, by simp [h4]⟩
    · simp only [upd_other _ _ e] at hx ⊢; exact hi.cs_owner x l hx
  | leave body r hs hc hr =>
    by_cases e : x = t
    · subst e; simp [TSt.adv] at hx
    · simp only [upd_other _ _ e] at hx ⊢
      have h1 := hi.cs_owner x l hx
      have h2 := hi.cs_owner t [] hc
      have : x = t := by
        have := h1.2.1; rw [h2.2.1] at this; exact (Option.some.inj this).symm
      exact absurd this e
  | spawn u r hs hc hr hu =>
    by_cases e1 : x = u
    · subst e1
      simp only [upd_same] at hx ⊢
      have := hi.cs_owner x l hx
      rw [hu] at this; simp at this
    · by_cases e : x = t
      · subst e; simp [upd_other _ _ e1, TSt.adv] at hx
      · simp only [upd_other _ _ e1, upd_other _ _ e] at hx ⊢; exact hi.cs_owner x l hx
  | join u r hs hc hr hf =>
    by_cases e : x = t
    · subst e; simp [TSt.adv] at hx
    · simp only [upd_other _ _ e] at hx ⊢; exact hi.cs_owner x l hx
  | send c r hs hc hr =>
    by_cases e : x = t
    · subst e; simp [TSt.adv] at hx
    · simp only [upd_other _ _ e] at hx ⊢; exact hi.cs_owner x l hx
  | recv c r hs hc hr hn =>
    by_cases e : x = t
    · subst e; simp [TSt.adv] at hx
    · simp only [upd_other _ _ e] at hx ⊢; exact hi.cs_owner x l hx

/-- the only way `started` becomes true is the spawn step, which records the spawn in the history -/
theorem inv_spawned {P : Prog F} {s s' : St F} {t : Tid} (hi : Inv P s) (h : Step s t s') :
    ∀ u, (s'.th u).started = true → u ∈ spawnTargets P → ∃ w, Stmt.spawn u ∈ (s'.th w).done := by
  intro u hs' hu
  by_cases hold : (s.th u).started = true
  · obtain ⟨w, hw⟩ := hi.spawned u hold hu
    exact ⟨w, step_done_mono h w _ hw⟩
  · -- u was started by this very step
    cases h with
    | spawn v r hs hc hr hv =>
      by_cases e1 : u = v
      · subst e1
        have htu : t ≠ u := by intro e; subst e; simp [hs] at hv
        refine ⟨t, ?_⟩
        simp [upd_other _ _ htu, TSt.adv]
      · by_cases e : u = t
        · subst e; simp [upd_other _ _ e1, TSt.adv] at hs'; exact absurd hs' hold
        · simp [upd_other _ _ e1, upd_other _ _ e] at hs'; exact absurd hs' hold
    | acc f k r hs hc hr =>
      by_cases e : u = t
      · subst e; exact absurd hs hold
      · simp [upd_other _ _ e] at hs'; exact absurd hs' hold
    | enter body r hs hc hr hh =>
      by_cases e : u = t
      · subst e; exact absurd hs hold
      · simp [upd_other _ _ e] at hs'; exact absurd hs' hold
    | inside a l hs hc =>
      by_cases e : u = t
      · subst e; exact absurd hs hold
      · simp [upd_other _ _ e] at hs'; exact absurd hs' hold
    | leave body r hs hc hr =>
      by_cases e : u = t
      · subst e; exact absurd hs hold
      · simp [upd_other _ _ e] at hs'; exact absurd hs' hold
    | join v r hs hc hr hf =>
      by_cases e : u = t
      · subst e; exact absurd hs hold
      · simp [upd_other _ _ e] at hs'; exact absurd hs' hold
    | send c r hs hc hr =>
      by_cases e : u = t
      · subst e; exact absurd hs hold
      · simp [upd_other _ _ e] at hs'; exact absurd hs' hold
    | recv c r hs hc hr hn =>
      by_cases e : u = t
      · subst e; exact absurd hs hold
      · simp [upd_other _ _ e] at hs'; exact absurd hs' hold

/-- what a step adds to the history of a thread is the statement it completed -/
theorem step_new_done {s s' : St F} {t : Tid} (h : Step s t s') (x : Tid) (y : Stmt F)
    (hy : y ∈ (s'.th x).done) (hn : y ∉ (s.th x).done) :
    x = t ∧ ∃ r, (s.th t).rem = y :: r ∧ (s.th t).started = true ∧
      (∀ u, y = .join u → (s.th u).finished) ∧ (∀ c, y = .recv c → s.chan c > 0) := by
  cases h with
  | acc f k r hs hc hr =>
    by_cases e : x = t
    · subst e
      simp [TSt.adv] at hy
      rcases hy with hy | hy
      · exact absurd hy hn
      · subst hy; exact ⟨rfl, r, hr, hs, by simp, by simp⟩
    · simp [upd_other _ _ e] at hy; exact absurd hy hn
  | enter body r hs hc hr hh =>
    by_cases e : x = t
    · subst e; simp at hy; exact absurd hy hn
    · simp [upd_other _ _ e] at hy; exact absurd hy hn
  | inside a l hs hc =>
    by_cases e : x = t
    · subst e; simp at hy; exact absurd hy hn
    · simp [upd_other _ _ e] at hy; exact absurd hy hn
  | leave body r hs hc hr =>
    by_cases e : x = t
    · subst e
      simp [TSt.adv] at hy
      rcases hy with hy | hy
      · exact absurd hy hn
      · subst hy
        exact ⟨rfl, r, hr, hs, by simp, by simp⟩
    · simp [upd_other _ _ e] at hy; exact absurd hy hn
  | spawn u r hs hc hr hu =>
    by_cases e1 : x = u
    · subst e1; simp at hy; exact absurd hy hn
    · by_cases e : x = t
      · subst e
        simp [upd_other _ _ e1, TSt.adv] at hy
        rcases hy with hy | hy
        · exact absurd hy hn
        · subst hy; exact ⟨rfl, r, hr, hs, by simp, by simp⟩
      · simp [upd_other _ _ e1, upd_other _ _ e] at hy; exact absurd hy hn
  | join u r hs hc hr hf =>
    by_cases e : x = t
    · subst e
      simp [TSt.adv] at hy
      rcases hy with hy | hy
      · exact absurd hy hn
      · subst hy
        refine ⟨rfl, r, hr, hs, ?_, by simp⟩
        intro v hv; cases hv; exact hf
    · simp [upd_other _ _ e] at hy; exact absurd hy hn
  | send c r hs hc hr =>
    by_cases e : x = t
    · subst e
      simp [TSt.adv] at hy
      rcases hy with hy | hy
      · exact absurd hy hn
      · subst hy; exact ⟨rfl, r, hr, hs, by simp, by simp⟩
    · simp [upd_other _ _ e] at hy; exact absurd hy hn
  | recv c r hs hc hr hn' =>
    by_cases e : x = t
    · subst e
      simp [TSt.adv] at hy
      rcases hy with hy | hy
      · exact absurd hy hn
      · subst hy
        refine ⟨rfl, r, hr, hs, by simp, ?_⟩
        intro c' hc'; cases hc'; exact hn'
    · simp [upd_other _ _ e] at hy; exact absurd hy hn

/-- a channel count only rises by a send, which is recorded in the sender's history -/
theorem step_chan {s s' : St F} {t : Tid} (h : Step s t s') (c : Chan) :
    s'.chan c ≤ s.chan c ∨ Stmt.send c ∈ (s'.th t).done := by
  cases h with
  | acc f k r hs hc hr => left; exact Nat.le_refl _
  | enter body r hs hc hr hh => left; exact Nat.le_refl _
  | inside a l hs hc => left; exact Nat.le_refl _
  | leave body r hs hc hr => left; exact Nat.le_refl _
  | spawn u r hs hc hr hu => left; exact Nat.le_refl _
  | join u r hs hc hr hf => left; exact Nat.le_refl _
  | send c' r hs hc hr =>
    by_cases e : c = c'
    · subst e; right; simp [TSt.adv]
    · left; simp [upd_other _ _ e]
  | recv c' r hs hc hr hn =>
    by_cases e : c = c'
    · subst e; left; simp
    · left; simp [upd_other _ _ e]

theorem inv_joined {P : Prog F} {s s' : St F} {t : Tid} (hi : Inv P s) (h : Step s t s') :
    ∀ x u, Stmt.join u ∈ (s'.th x).done → (s'.th u).finished := by
  intro x u hj
  by_cases hold : Stmt.join u ∈ (s.th x).done
  · exact step_finished_stable h u (hi.joined x u hold)
  · obtain ⟨_, r, _, _, hf, _⟩ := step_new_done h x _ hj hold
    exact step_finished_stable h u (hf u rfl)

theorem inv_chans {P : Prog F} {s s' : St F} {t : Tid} (hi : Inv P s) (h : Step s t s') :
    ∀ c, (s'.chan c > 0 ∨ ∃ x, Stmt.recv c ∈ (s'.th x).done) → ∃ x, Stmt.send c ∈ (s'.th x).done := by
  intro c hc
  by_cases hold : ∃ x, Stmt.send c ∈ (s.th x).done
  · obtain ⟨x, hx⟩ := hold
    exact ⟨x, step_done_mono h x _ hx⟩
  · have h0 : ¬ (s.chan c > 0 ∨ ∃ x, Stmt.recv c ∈ (s.th x).done) := fun hh => hold (hi.chans c hh)
    have hz : s.chan c = 0 := by
      cases hcc : s.chan c with
      | zero => rfl
      | succ n => exact absurd (Or.inl (by omega)) h0
    rcases hc with hc | ⟨x, hx⟩
    · rcases step_chan h c with hle | hs
      · omega
      · exact ⟨t, hs⟩
    · by_cases hxo : Stmt.recv c ∈ (s.th x).done
      · exact absurd (Or.inr ⟨x, hxo⟩) h0
      · obtain ⟨_, r, _, _, _, hn⟩ := step_new_done h x _ hx hxo
        have := hn c rfl
        omega

theorem inv_step {P : Prog F} {s s' : St F} {t : Tid} (hi : Inv P s) (h : Step s t s') : Inv P s' :=
  ⟨inv_code_split hi h, inv_cs_owner hi h, inv_spawned hi h, inv_joined hi h, inv_chans hi h⟩

theorem inv_reach {P : Prog F} {s : St F} (h : Reach P s) : Inv P s := by
  induction h with
  | init => exact inv_init P
  | step _ st ih => exact inv_step ih st

/-! ### static facts -/

theorem code_nil_of_ge {P : Prog F} {t : Tid} (h : ¬ t < P.length) : code P t = [] := by
  simp [code, List.getD, List.getElem?_eq_none (Nat.le_of_not_lt h)]

theorem mem_tids_of_mem_code {P : Prog F} {t : Tid} {x : Stmt F} (h : x ∈ code P t) : t ∈ tids P := by
  by_cases ht : t < P.length
  · simp [tids, ht]
  · rw [code_nil_of_ge ht] at h; simp at h

theorem mem_targets {l : List (Stmt F)} {u : Tid} : u ∈ targets l ↔ Stmt.spawn u ∈ l := by
  induction l with
  | nil => simp [targets]
  | cons x r ih =>
    cases x <;> simp [targets, ih]

theorem mem_spawnTargets {P : Prog F} {u t : Tid} (h : Stmt.spawn u ∈ code P t) : u ∈ spawnTargets P := by
  have ht := mem_tids_of_mem_code h
  simp only [tids, List.mem_range] at ht
  simp only [spawnTargets, List.mem_flatMap]
  refine ⟨code P t, ?_, mem_targets.mpr h⟩
  simp [code, List.getD, List.getElem?_eq_getElem ht]

theorem mem_recvChans {l : List (Stmt F)} {c : Chan} : c ∈ recvChans l ↔ Stmt.recv c ∈ l := by
  induction l with
  | nil => simp [recvChans]
  | cons x r ih =>
    cases x <;> simp [recvChans, ih]

/-- a statement that occurs once cannot be both in the history and still ahead -/
theorem sole_not_both {P : Prog F} {s : St F} (hi : Inv P s) {x : Stmt F} {o : Tid}
    (hsole : SoleOcc P x o) {t : Tid} (hd : x ∈ (s.th t).done) {u : Tid} (hr : x ∈ (s.th u).rem) : False := by
  have hct : x ∈ code P t := by rw [hi.code_split t]; exact List.mem_append_left _ hd
  have hcu : x ∈ code P u := by rw [hi.code_split u]; exact List.mem_append_right _ hr
  have e1 := hsole.1 t (mem_tids_of_mem_code hct) hct
  have e2 := hsole.1 u (mem_tids_of_mem_code hcu) hcu
  rw [e1] at hd; rw [e2] at hr
  have hcnt := hsole.2
  rw [hi.code_split o, List.count_append] at hcnt
  have h1 : 0 < List.count x (s.th o).done := List.count_pos_iff.mpr hd
  have h2 : 0 < List.count x (s.th o).rem := List.count_pos_iff.mpr hr
  omega

/-- the points of a thread's code contain the point at every split -/
theorem pointsFrom_mem_acc (b d : List (Stmt F)) (f : F) (k : Kind) (r : List (Stmt F)) :
    (⟨b ++ d, (f, k), false, .acc f k :: r⟩ : Point F) ∈ pointsFrom b (d ++ .acc f k :: r) := by
  induction d generalizing b with
  | nil => simp [pointsFrom]
  | cons x d ih =>
    have := ih (b ++ [x])
    simp only [List.append_assoc, List.singleton_append] at this
    cases x <;> simp [pointsFrom, this]

theorem pointsFrom_mem_locked (b d : List (Stmt F)) (body : List (Acc F)) (a : Acc F) (ha : a ∈ body)
    (r : List (Stmt F)) :
    (⟨b ++ d, a, true, .locked body :: r⟩ : Point F) ∈ pointsFrom b (d ++ .locked body :: r) := by
  induction d generalizing b with
  | nil =>
    simp only [List.append_nil, List.nil_append, pointsFrom, List.mem_append, List.mem_map]
    exact Or.inl ⟨a, ha, rfl⟩
  | cons x d ih =>
    have := ih (b ++ [x])
    simp only [List.append_assoc, List.singleton_append] at this
    cases x <;> simp [pointsFrom, this]

/-- a thread about to access is at one of the static points of its code -/
theorem poised_point {P : Prog F} {s : St F} (hi : Inv P s) {t : Tid} {a : Acc F} {h : Bool}
    (hp : poised (s.th t) = some (a, h)) :
    (s.th t).started = true ∧
    (⟨(s.th t).done, a, h, (s.th t).rem⟩ : Point F) ∈ points (code P t) ∧
    (h = true → s.holder = some t) := by
  unfold poised at hp
  split at hp
  · rename_i hst
    refine ⟨hst, ?_⟩
    split at hp
    · rename_i a' l hcs
      cases hp
      obtain ⟨_, hh, body, r, pre, hrem, hb⟩ := hi.cs_owner t _ hcs
      refine ⟨?_, fun _ => hh⟩
      have := pointsFrom_mem_locked [] (s.th t).done body a (by simp [hb]) r
      simpa [points, hi.code_split t, hrem] using this
    · simp at hp
    · split at hp
      · rename_i f k r hrem
        cases hp
        refine ⟨?_, by simp⟩
        have := pointsFrom_mem_acc [] (s.th t).done f k r
        simpa [points, hi.code_split t, hrem] using this
      · simp at hp
  · simp at hp

theorem mem_of_mem_takeWhile {α : Type} (p : α → Bool) {l : List α} {y : α} (h : y ∈ l.takeWhile p) : y ∈ l := by
  induction l with
  | nil => simp at h
  | cons x r ih =>
    simp only [List.takeWhile_cons] at h
    split at h
    · rcases List.mem_cons.mp h with h | h
      · exact h ▸ List.mem_cons_self ..
      · exact List.mem_cons_of_mem _ (ih h)
    · simp at h

theorem takeWhile_append_of_mem {α : Type} (p : α → Bool) {l1 : List α} (l2 : List α) {x : α}
    (hx : x ∈ l1) (hp : p x = false) : (l1 ++ l2).takeWhile p = l1.takeWhile p := by
  induction l1 with
  | nil => simp at hx
  | cons y r ih =>
    simp only [List.cons_append, List.takeWhile_cons]
    by_cases hy : p y = true
    · simp only [hy, if_true]
      rcases List.mem_cons.mp hx with e | hm
      · subst e; rw [hp] at hy; cases hy
      · rw [ih hm]
    · simp [hy]

/-- a thread that is about to access has not finished -/
theorem poised_not_finished {ts : TSt F} {a : Acc F} {h : Bool} (hp : poised ts = some (a, h)) : ¬ ts.finished := by
  intro ⟨_, hrem, hcs⟩
  simp [poised, hrem, hcs] at hp

/-- **soundness of the ordering rules**: when thread t stands at point `pt` and the edge claimed by
    `Ordered` exists in the program text, thread u cannot stand at `pu` about to access -/
theorem ordered_excludes {P : Prog F} (hwf : WF P) {s : St F} (hi : Inv P s) {t u : Tid}
    {pt pu : Point F} (hb : pt.before = (s.th t).done) (ha : pt.after = (s.th t).rem)
    (hua : pu.after = (s.th u).rem)
    (hst : (s.th t).started = true) (hsu : (s.th u).started = true) (hnf : ¬ (s.th u).finished)
    (ho : Ordered P t pt u pu) : False := by
  rcases ho with h1 | h2 | ⟨c, hc, hsend, hsole⟩ | ⟨w, _, hspw, c, hc, hsend, hsole⟩
  · -- t will spawn u later, but u is already running
    rw [ha] at h1
    have hcode : Stmt.spawn u ∈ code P t := by rw [hi.code_split t]; exact List.mem_append_right _ h1
    have htg := mem_spawnTargets hcode
    obtain ⟨w, hw⟩ := hi.spawned u hsu htg
    obtain ⟨o, _, hso⟩ := hwf u htg
    exact sole_not_both hi hso hw h1
  · rw [hb] at h2
    exact hnf (hi.joined t u h2)
  · rw [hb] at hc
    obtain ⟨x, hx⟩ := hi.chans c (Or.inr ⟨t, mem_recvChans.mp hc⟩)
    rw [hua] at hsend
    exact sole_not_both hi hsole hx hsend
  · have htg := mem_spawnTargets hspw
    obtain ⟨w', hw'⟩ := hi.spawned t hst htg
    obtain ⟨o, _, hso⟩ := hwf t htg
    have hcw' : Stmt.spawn t ∈ code P w' := by rw [hi.code_split w']; exact List.mem_append_left _ hw'
    have e1 := hso.1 w' (mem_tids_of_mem_code hcw') hcw'
    have e2 := hso.1 w (mem_tids_of_mem_code hspw) hspw
    have e : w' = w := e1.trans e2.symm
    rw [e] at hw'
    have htw : beforeSpawn (code P w) t = (s.th w).done.takeWhile (fun x => x ≠ Stmt.spawn t) := by
      unfold beforeSpawn
      rw [hi.code_split w]
      exact takeWhile_append_of_mem _ _ hw' (by simp)
    rw [htw] at hc
    have hrecv : Stmt.recv c ∈ (s.th w).done := mem_of_mem_takeWhile _ (mem_recvChans.mp hc)
    obtain ⟨x, hx⟩ := hi.chans c (Or.inr ⟨w, hrecv⟩)
    rw [hua] at hsend
    exact sole_not_both hi hsole hx hsend

/-- **every racy pair violates the discipline at that pair**: in a reachable state, two threads about
    to perform accesses stand at static points of their code that are not both under the mutex and not
    ordered by any spawn / join / channel edge -/
theorem racy_pair_undisciplined {P : Prog F} (hwf : WF P) {s : St F} (hr : Reach P s) {t u : Tid} (htu : t ≠ u)
    {a b : Acc F} {ha hb : Bool}
    (hpt : poised (s.th t) = some (a, ha)) (hpu : poised (s.th u) = some (b, hb)) :
    ∃ pt ∈ points (code P t), ∃ pu ∈ points (code P u),
      pt.acc = a ∧ pt.held = ha ∧ pu.acc = b ∧ pu.held = hb ∧
      ¬ (ha = true ∧ hb = true) ∧ ¬ Ordered P t pt u pu ∧ ¬ Ordered P u pu t pt := by
  have hi := inv_reach hr
  obtain ⟨hst, hmt, hht⟩ := poised_point hi hpt
  obtain ⟨hsu, hmu, hhu⟩ := poised_point hi hpu
  refine ⟨_, hmt, _, hmu, rfl, rfl, rfl, rfl, ?_, ?_, ?_⟩
  · intro ⟨h1, h2⟩
    have e1 := hht h1
    have e2 := hhu h2
    rw [e1] at e2
    exact htu (Option.some.inj e2)
  · exact fun ho => ordered_excludes hwf hi rfl rfl rfl hst hsu (poised_not_finished hpu) ho
  · exact fun ho => ordered_excludes hwf hi rfl rfl rfl hsu hst (poised_not_finished hpt) ho

theorem mem_tids_of_poised {P : Prog F} {s : St F} (hi : Inv P s) {t : Tid} {a : Acc F} {h : Bool}
    (hp : poised (s.th t) = some (a, h)) : t ∈ tids P := by
  obtain ⟨_, hm, _⟩ := poised_point hi hp
  by_cases ht : t < P.length
  · simp [tids, ht]
  · rw [code_nil_of_ge ht] at hm; simp [points, pointsFrom] at hm


/-- which statement a static point belongs to -/
def PointOf (x : Stmt F) (pt : Point F) : Prop :=
  (x = .acc pt.acc.1 pt.acc.2 ∧ pt.held = false) ∨ (∃ body, x = .locked body ∧ pt.acc ∈ body ∧ pt.held = true)

theorem pointsFrom_stmt {b l : List (Stmt F)} {pt : Point F} (h : pt ∈ pointsFrom b l) :
    ∃ x ∈ l, PointOf x pt := by
  induction l generalizing b with
  | nil => simp [pointsFrom] at h
  | cons y r ih =>
    cases y with
    | acc f k =>
      simp only [pointsFrom, List.mem_cons] at h
      rcases h with h | h
      · subst h; exact ⟨_, List.mem_cons_self .., Or.inl ⟨rfl, rfl⟩⟩
      · obtain ⟨x, hx, hp⟩ := ih h; exact ⟨x, List.mem_cons_of_mem _ hx, hp⟩
    | locked body =>
      simp only [pointsFrom, List.mem_append, List.mem_map] at h
      rcases h with ⟨a, ha, h⟩ | h
      · subst h; exact ⟨_, List.mem_cons_self .., Or.inr ⟨body, rfl, ha, rfl⟩⟩
      · obtain ⟨x, hx, hp⟩ := ih h; exact ⟨x, List.mem_cons_of_mem _ hx, hp⟩
    | spawn u => obtain ⟨x, hx, hp⟩ := ih (by simpa [pointsFrom] using h); exact ⟨x, List.mem_cons_of_mem _ hx, hp⟩
    | join u => obtain ⟨x, hx, hp⟩ := ih (by simpa [pointsFrom] using h); exact ⟨x, List.mem_cons_of_mem _ hx, hp⟩
    | send c => obtain ⟨x, hx, hp⟩ := ih (by simpa [pointsFrom] using h); exact ⟨x, List.mem_cons_of_mem _ hx, hp⟩
    | recv c => obtain ⟨x, hx, hp⟩ := ih (by simpa [pointsFrom] using h); exact ⟨x, List.mem_cons_of_mem _ hx, hp⟩

theorem point_stmt {l : List (Stmt F)} {pt : Point F} (h : pt ∈ points l) : ∃ x ∈ l, PointOf x pt :=
  pointsFrom_stmt h

end Varlink.Race

namespace Varlink.Race
open Varlink.Extracted

/-- a statement of a thread of an intended use that carries the point `pt` comes from an entry of the
    table with the same access and the same lock state -/
theorem stmt_access {tbl : List Access} {fns : List Fn} {x : Stmt SField} {pt : Point SField}
    (h : isSync x = true ∨ ∃ f ∈ fns, x ∈ fnStmts tbl f) (hp : PointOf x pt) :
    ∃ f ∈ fns, ∃ A ∈ tbl, A.fn = f ∧ accOf A = some pt.acc ∧ (A.lock = .held ↔ pt.held = true) := by
  rcases h with h | ⟨f, hf, hx⟩
  · rcases hp with ⟨e, _⟩ | ⟨body, e, _, _⟩ <;> (subst e; simp [isSync] at h)
  · refine ⟨f, hf, ?_⟩
    simp only [fnStmts, List.mem_filterMap] at hx
    obtain ⟨A, hA, hx⟩ := hx
    refine ⟨A, hA, ?_⟩
    split at hx
    · rename_i hfn
      cases hacc : accOf A with
      | none => simp [hacc] at hx
      | some a =>
        simp only [hacc, Option.some.injEq] at hx
        by_cases hl : A.lock = .held
        · simp only [hl, if_true] at hx
          rcases hp with ⟨e, _⟩ | ⟨body, e, hm, hh⟩
          · rw [e] at hx; cases hx
          · rw [e] at hx
            have : body = [a] := by cases hx; rfl
            subst this
            simp only [List.mem_singleton] at hm
            exact ⟨hfn, by rw [hm], by simp [hl, hh]⟩
        · simp only [hl, if_false] at hx
          rcases hp with ⟨e, hh⟩ | ⟨body, e, _, _⟩
          · rw [e] at hx
            have : a = pt.acc := by
              have h1 := hx; simp only [Stmt.acc.injEq] at h1
              exact Prod.ext h1.1 h1.2
            exact ⟨hfn, by rw [this], by simp [hl, hh]⟩
          · rw [e] at hx; cases hx
    · simp at hx

end Varlink.Race
