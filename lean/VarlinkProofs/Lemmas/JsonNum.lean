/-
  Number literals of the JSON model: `parseNumber` is stable under appending a continuation that
  cannot extend a number, a literal starts with `-` or a digit and consists of `-+.eE0-9` only.
-/
import Varlink.JsonWF
namespace Varlink

/-! ### `parseNumber` cut into its four stages -/

def numSign : Bytes → Bytes × Bytes
  | 45 :: r => ([(45 : UInt8)], r)
  | r => ([], r)

def numInt : Bytes → Option (Bytes × Bytes)
  | 48 :: r => some ([48], r)
  | c :: r => if isDigit c then let (d, r') := takeDigits r; some (c :: d, r') else none
  | [] => none

def numFrac : Bytes → Option (Bytes × Bytes)
  | 46 :: r => (match takeDigits r with
      | ([], _) => none
      | (d, r') => some (46 :: d, r'))
  | r => some ([], r)

def expSign : Bytes → Bytes × Bytes
  | 43 :: r' => ([(43 : UInt8)], r')
  | 45 :: r' => ([(45 : UInt8)], r')
  | r' => ([], r')

def numExp : Bytes → Option (Bytes × Bytes)
  | e :: r =>
    if e = 101 || e = 69 then
      let (sg, r') := expSign r
      match takeDigits r' with
      | ([], _) => none
      | (d, r'') => some (e :: sg ++ d, r'')
    else some ([], e :: r)
  | [] => some ([], [])

theorem parseNumber_eq (bs : Bytes) :
    parseNumber bs =
      match numInt (numSign bs).2 with
      | none => none
      | some (ip, r1) =>
        match numFrac r1 with
        | none => none
        | some (fp, r2) =>
          match numExp r2 with
          | none => none
          | some (ep, r3) => some ((numSign bs).1 ++ ip ++ fp ++ ep, r3) := by
  rfl

/-! ### digits -/

/-- the bytes a number literal may contain: `-+.eE0-9` -/
def numChar (c : UInt8) : Bool := isDigit c || c = 45 || c = 43 || c = 46 || c = 101 || c = 69

theorem numStop_cons {c : UInt8} {r : Bytes} (h : numStop (c :: r) = true) :
    isDigit c = false ∧ c ≠ 46 ∧ c ≠ 101 ∧ c ≠ 69 := by
  simpa [numStop, and_assoc] using h

theorem takeDigits_append (bs rest : Bytes) (h : numStop rest = true) :
    takeDigits (bs ++ rest) = ((takeDigits bs).1, (takeDigits bs).2 ++ rest) := by
  induction bs with
  | nil =>
    cases rest with
    | nil => rfl
    | cons c r => simp [takeDigits, (numStop_cons h).1]
  | cons c cs ih =>
    by_cases hc : isDigit c = true
    · simp [takeDigits, hc, ih]
    · simp [takeDigits, hc]

theorem takeDigits_digits (bs : Bytes) : ∀ c ∈ (takeDigits bs).1, isDigit c = true := by
  induction bs with
  | nil => simp [takeDigits]
  | cons c cs ih =>
    by_cases hc : isDigit c = true
    · simp [takeDigits, hc]; exact ih
    · simp [takeDigits, hc]

theorem takeDigits_numChar (bs : Bytes) : ∀ c ∈ (takeDigits bs).1, numChar c = true := by
  intro c hc; simp [numChar, takeDigits_digits bs c hc]

/-! ### the stages commute with appending a continuation -/

theorem numInt_append {r0 ip r1 : Bytes} (rest : Bytes) (hs : numStop rest = true)
    (h : numInt r0 = some (ip, r1)) : numInt (r0 ++ rest) = some (ip, r1 ++ rest) := by
  cases r0 with
  | nil => simp [numInt] at h
  | cons c r =>
    by_cases h48 : c = 48
    · subst h48; simp [numInt] at h ⊢; exact h
    · by_cases hd : isDigit c = true
      · simp [numInt, hd, takeDigits_append _ _ hs] at h ⊢
        exact ⟨h.1, by rw [h.2]⟩
      · simp [numInt, hd] at h

theorem numFrac_ne {c : UInt8} (r : Bytes) (h : c ≠ 46) : numFrac (c :: r) = some ([], c :: r) := by
  unfold numFrac
  split
  · rename_i heq; simp at heq; exact absurd heq.1 h
  · rfl

theorem numFrac_append {r1 fp r2 : Bytes} (rest : Bytes) (hs : numStop rest = true)
    (h : numFrac r1 = some (fp, r2)) : numFrac (r1 ++ rest) = some (fp, r2 ++ rest) := by
  cases r1 with
  | nil =>
    simp [numFrac] at h
    obtain ⟨rfl, rfl⟩ := h
    cases rest with
    | nil => rfl
    | cons c r => simp [numFrac_ne r (numStop_cons hs).2.1]
  | cons c r =>
    by_cases hc : c = 46
    · subst hc
      simp only [numFrac, List.cons_append, takeDigits_append _ _ hs] at h ⊢
      generalize takeDigits r = p at h ⊢
      obtain ⟨d, r'⟩ := p
      cases d with
      | nil => simp at h
      | cons x xs => simpa using h
    · rw [numFrac_ne r hc] at h
      simp at h
      obtain ⟨rfl, rfl⟩ := h
      simp [numFrac_ne _ hc]

theorem expSign_other {c : UInt8} (r : Bytes) (h1 : c ≠ 43) (h2 : c ≠ 45) :
    expSign (c :: r) = ([], c :: r) := by
  unfold expSign
  split
  · rename_i heq; simp at heq; exact absurd heq.1 h1
  · rename_i heq; simp at heq; exact absurd heq.1 h2
  · rfl

theorem expSign_append (c : UInt8) (r rest : Bytes) :
    expSign (c :: r ++ rest) = ((expSign (c :: r)).1, (expSign (c :: r)).2 ++ rest) := by
  by_cases h1 : c = 43
  · subst h1; rfl
  · by_cases h2 : c = 45
    · subst h2; rfl
    · simp [expSign_other _ h1 h2]

theorem numExp_append {r2 ep r3 : Bytes} (rest : Bytes) (hs : numStop rest = true)
    (h : numExp r2 = some (ep, r3)) : numExp (r2 ++ rest) = some (ep, r3 ++ rest) := by
  cases r2 with
  | nil =>
    simp [numExp] at h
    obtain ⟨rfl, rfl⟩ := h
    cases rest with
    | nil => rfl
    | cons c r =>
      have := numStop_cons hs
      simp [numExp, this]
  | cons e r =>
    by_cases he : (e = 101 || e = 69) = true
    · simp only [numExp, he, List.cons_append, if_true] at h ⊢
      cases r with
      | nil => simp [expSign, takeDigits] at h
      | cons c r =>
        rw [expSign_append]
        simp only [takeDigits_append _ _ hs]
        generalize takeDigits (expSign (c :: r)).2 = p at h ⊢
        obtain ⟨d, r'⟩ := p
        cases d with
        | nil => simp at h
        | cons x xs => simpa using h
    · simp only [numExp, he, List.cons_append] at h ⊢
      simp at h ⊢
      obtain ⟨rfl, rfl⟩ := h
      simp

/-! ### the whole literal -/

theorem numSign_append (c : UInt8) (r rest : Bytes) :
    numSign (c :: r ++ rest) = ((numSign (c :: r)).1, (numSign (c :: r)).2 ++ rest) := by
  by_cases h : c = 45
  · subst h; rfl
  · have : ∀ r, numSign (c :: r) = ([], c :: r) := by
      intro r; unfold numSign; split
      · rename_i heq; simp at heq; exact absurd heq.1 h
      · rfl
    simp [this]

theorem parseNumber_nil : parseNumber [] = none := rfl

/-- `parseNumber` ignores a continuation that cannot extend a number. -/
theorem parseNumber_append {bs lit r : Bytes} (rest : Bytes) (hs : numStop rest = true)
    (h : parseNumber bs = some (lit, r)) : parseNumber (bs ++ rest) = some (lit, r ++ rest) := by
  cases bs with
  | nil => simp [parseNumber_nil] at h
  | cons c cs =>
    rw [parseNumber_eq] at h ⊢
    rw [numSign_append]
    cases h1 : numInt (numSign (c :: cs)).2 with
    | none => simp [h1] at h
    | some p1 =>
      obtain ⟨ip, r1⟩ := p1
      simp only [h1] at h
      simp only [numInt_append rest hs h1]
      cases h2 : numFrac r1 with
      | none => simp [h2] at h
      | some p2 =>
        obtain ⟨fp, r2⟩ := p2
        simp only [h2] at h
        simp only [numFrac_append rest hs h2]
        cases h3 : numExp r2 with
        | none => simp [h3] at h
        | some p3 =>
          obtain ⟨ep, r3⟩ := p3
          simp only [h3] at h
          simp only [numExp_append rest hs h3]
          simp at h ⊢
          obtain ⟨rfl, rfl⟩ := h
          simp

theorem parseNumber_numLitOk {lit : Bytes} (rest : Bytes) (hl : numLitOk lit = true)
    (hs : numStop rest = true) : parseNumber (lit ++ rest) = some (lit, rest) := by
  have h : parseNumber lit = some (lit, []) := by simpa [numLitOk] using hl
  simpa using parseNumber_append rest hs h

/-! ### shape of a literal -/

theorem numInt_numChar {r0 ip r1 : Bytes} (h : numInt r0 = some (ip, r1)) :
    ∀ c ∈ ip, numChar c = true := by
  cases r0 with
  | nil => simp [numInt] at h
  | cons c r =>
    by_cases h48 : c = 48
    · subst h48; simp [numInt] at h; obtain ⟨rfl, _⟩ := h; simp [numChar, isDigit]
    · by_cases hd : isDigit c = true
      · simp [numInt, hd] at h
        obtain ⟨rfl, _⟩ := h
        intro x hx
        rcases List.mem_cons.1 hx with rfl | hx
        · simp [numChar, hd]
        · exact takeDigits_numChar _ _ hx
      · simp [numInt, hd] at h

theorem numFrac_numChar {r1 fp r2 : Bytes} (h : numFrac r1 = some (fp, r2)) :
    ∀ c ∈ fp, numChar c = true := by
  cases r1 with
  | nil => simp [numFrac] at h; obtain ⟨rfl, _⟩ := h; simp
  | cons c r =>
    by_cases hc : c = 46
    · subst hc
      simp only [numFrac] at h
      have hd := takeDigits_numChar r
      generalize takeDigits r = p at h hd
      obtain ⟨d, r'⟩ := p
      cases d with
      | nil => simp at h
      | cons x xs =>
        simp at h
        obtain ⟨rfl, _⟩ := h
        intro y hy
        rcases List.mem_cons.1 hy with rfl | hy
        · simp [numChar]
        · exact hd _ hy
    · rw [numFrac_ne r hc] at h
      simp at h; obtain ⟨rfl, _⟩ := h; simp

theorem expSign_numChar (r : Bytes) : ∀ c ∈ (expSign r).1, numChar c = true := by
  unfold expSign
  split <;> simp [numChar]

theorem numExp_numChar {r2 ep r3 : Bytes} (h : numExp r2 = some (ep, r3)) :
    ∀ c ∈ ep, numChar c = true := by
  cases r2 with
  | nil => simp [numExp] at h; obtain ⟨rfl, _⟩ := h; simp
  | cons e r =>
    by_cases he : (e = 101 || e = 69) = true
    · simp only [numExp, he, if_true] at h
      have hd := takeDigits_numChar (expSign r).2
      have hsg := expSign_numChar r
      generalize takeDigits (expSign r).2 = p at h hd
      obtain ⟨d, r'⟩ := p
      cases d with
      | nil => simp at h
      | cons x xs =>
        simp at h
        obtain ⟨rfl, _⟩ := h
        intro y hy
        rcases List.mem_cons.1 hy with rfl | hy
        · simp at he; rcases he with rfl | rfl <;> simp [numChar]
        · rcases List.mem_append.1 hy with hy | hy
          · exact hsg _ hy
          · exact hd _ hy
    · simp only [numExp, he] at h
      simp at h; obtain ⟨rfl, _⟩ := h; simp

theorem numSign_numChar (bs : Bytes) : ∀ c ∈ (numSign bs).1, numChar c = true := by
  unfold numSign
  split <;> simp [numChar]

/-- a number literal consists of `-+.eE0-9` only -/
theorem parseNumber_numChar {bs lit r : Bytes} (h : parseNumber bs = some (lit, r)) :
    ∀ c ∈ lit, numChar c = true := by
  rw [parseNumber_eq] at h
  cases h1 : numInt (numSign bs).2 with
  | none => simp [h1] at h
  | some p1 =>
    obtain ⟨ip, r1⟩ := p1
    simp only [h1] at h
    cases h2 : numFrac r1 with
    | none => simp [h2] at h
    | some p2 =>
      obtain ⟨fp, r2⟩ := p2
      simp only [h2] at h
      cases h3 : numExp r2 with
      | none => simp [h3] at h
      | some p3 =>
        obtain ⟨ep, r3⟩ := p3
        simp only [h3] at h
        simp at h
        obtain ⟨rfl, _⟩ := h
        intro c hc
        simp only [List.mem_append] at hc
        rcases hc with hc | hc | hc | hc
        · exact numSign_numChar _ _ hc
        · exact numInt_numChar h1 _ hc
        · exact numFrac_numChar h2 _ hc
        · exact numExp_numChar h3 _ hc

/-- a parsable number starts with `-` or a digit -/
theorem parseNumber_head {bs lit r : Bytes} (h : parseNumber bs = some (lit, r)) :
    ∃ c cs, bs = c :: cs ∧ (c = 45 ∨ isDigit c = true) := by
  cases bs with
  | nil => simp [parseNumber_nil] at h
  | cons c cs =>
    refine ⟨c, cs, rfl, ?_⟩
    by_cases h45 : c = 45
    · exact Or.inl h45
    · right
      rw [parseNumber_eq] at h
      have hsg : numSign (c :: cs) = ([], c :: cs) := by
        unfold numSign; split
        · rename_i heq; simp at heq; exact absurd heq.1 h45
        · rfl
      rw [hsg] at h
      by_cases h48 : c = 48
      · subst h48; rfl
      · by_cases hd : isDigit c = true
        · exact hd
        · simp [numInt, hd] at h

theorem numLitOk_head {lit : Bytes} (hl : numLitOk lit = true) :
    ∃ c cs, lit = c :: cs ∧ (c = 45 ∨ isDigit c = true) := by
  have h : parseNumber lit = some (lit, []) := by simpa [numLitOk] using hl
  exact parseNumber_head h

theorem numLitOk_numChar {lit : Bytes} (hl : numLitOk lit = true) :
    ∀ c ∈ lit, numChar c = true := by
  have h : parseNumber lit = some (lit, []) := by simpa [numLitOk] using hl
  exact parseNumber_numChar h

theorem numChar_ne_zero {c : UInt8} (h : numChar c = true) : c ≠ 0 := by
  rintro rfl; revert h; decide

end Varlink
