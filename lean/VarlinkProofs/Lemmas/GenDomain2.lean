/-
  What `Domain` provides to `namesResolve`, `methodsOk` and `noCycleOk` of the generator's view
  (used by VarlinkProofs/Props/C07.lean).
-/
import VarlinkProofs.Lemmas.GenDomain
import VarlinkProofs.Lemmas.GenResolve
import VarlinkProofs.Lemmas.GenMethods2
import VarlinkProofs.Lemmas.GenCycle3
namespace Varlink.C07
open Varlink Varlink.Idl Varlink.Gen

/-- reserved names: no method is called like a fixed method of `VarlinkInterface`, no method or error `X` makes
    `Reply<X>` one of the `varlink.Call` methods the file calls -/
theorem methFacts_of_domain (t : Idl) (f : GoFile) (h : Domain t = true) (hf : genFile t = some f) :
    MethFacts t := by
  obtain ⟨_, _, _, _, _, _, _, h8, _⟩ := domain_parts h
  simp only [noReserved, List.all_eq_true] at h8
  refine ⟨nameFacts t f (topFacts_of_domain t h) hf, ?_, ?_⟩
  · intro n hn
    obtain ⟨m, hm, rfl⟩ := List.mem_map.mp hn
    have hm' := List.mem_filter.mp hm
    have := h8 m hm'.1
    cases m with
    | method n d i o =>
      simp only [memberNotReserved, Bool.and_eq_true, Bool.not_eq_true'] at this
      exact ⟨by simpa [Member.name] using this.1.2, by simpa [Member.name] using this.2⟩
    | alias => simp [Member.isMethod] at hm'
    | error => simp [Member.isMethod] at hm'
  · intro n hn
    obtain ⟨m, hm, rfl⟩ := List.mem_map.mp hn
    have hm' := List.mem_filter.mp hm
    have := h8 m hm'.1
    cases m with
    | error n d oty =>
      simp only [memberNotReserved, Bool.and_eq_true, Bool.not_eq_true'] at this
      simpa [Member.name] using this.1.2
    | alias => simp [Member.isError] at hm'
    | method => simp [Member.isError] at hm'

/-- no top-level error field is called `error` -/
theorem errField_of_domain (t : Idl) (h : Domain t = true) (n d : Bytes) (oty : Option Ty)
    (hm : Member.error n d oty ∈ t.members) : str "error" ∉ (tyFields (errTy oty)).names := by
  obtain ⟨_, _, _, _, _, _, _, h8, _⟩ := domain_parts h
  simp only [noReserved, List.all_eq_true] at h8
  have := h8 _ hm
  simp only [memberNotReserved, Bool.and_eq_true, Bool.not_eq_true'] at this
  simpa using this.2

theorem memberRefs_of_domain (t : Idl) (h : Domain t = true) :
    ∀ m ∈ t.members, ∀ ty ∈ m.types, tyRefsIn (aliasNames t) ty = true := by
  obtain ⟨_, _, _, _, h5, _⟩ := domain_parts h
  simp only [refsResolve, List.all_eq_true] at h5
  exact h5

theorem cycleCtx_of_domain (t : Idl) (f : GoFile) (h : Domain t = true) (hf : genFile t = some f) :
    CycleCtx t f := by
  obtain ⟨h1, h2, _, _, _, _, _, _, h9, _⟩ := domain_parts h
  simp only [nameShapes, Bool.and_eq_true] at h1
  exact ⟨hf, tyNames_nodup t f (topFacts_of_domain t h) hf, (uniqueNames_iff_nodup _).mp h2,
    memberRefs_of_domain t h, nameFacts t f (topFacts_of_domain t h) hf, h1.1, h9⟩

end Varlink.C07
