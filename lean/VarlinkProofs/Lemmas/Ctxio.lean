/-
  Lemmas for C17: the explicit reachable set of the control system is complete; conservation of the
  byte stream by sequences of operations (on top of the C18 lemmas about the bufio model).
-/
import Varlink.Ctxio
import VarlinkProofs.Lemmas.Frame
import VarlinkProofs.Props.C18
namespace Varlink.Ctxio
open Varlink

/-! ### control: a closed set contains every reachable state -/

theorem IoRes.code_inj {a b : IoRes} (h : a.code = b.code) : a = b := by
  cases a <;> cases b <;> simp [IoRes.code] at h <;> rfl

theorem IoRes.code_lt (a : IoRes) : a.code < 4 := by cases a <;> simp [IoRes.code]

theorem Ret.code_inj {a b : Ret} (h : a.code = b.code) : a = b := by
  cases a with
  | result r =>
    cases b with
    | result r' => simp only [Ret.code] at h; rw [IoRes.code_inj h]
    | ctxErr c => have := r.code_lt; cases c <;> simp [Ret.code] at h <;> omega
  | ctxErr c =>
    cases b with
    | result r' => have := r'.code_lt; cases c <;> simp [Ret.code] at h <;> omega
    | ctxErr c' => cases c <;> cases c' <;> simp [Ret.code] at h <;> rfl

theorem CPc.code_inj {a b : CPc} (h : a.code = b.code) : a = b := by
  cases a <;> cases b <;> simp only [CPc.code] at h <;> first
    | rfl
    | omega
    | (congr 1; first | omega | exact Ret.code_inj (by omega))

theorem HPc.code_lt (a : HPc) : a.code < 16 := by
  cases a with
  | idle => simp [HPc.code]
  | ready c r => have := r.code_lt; cases c <;> simp [HPc.code] <;> omega
  | inIO => simp [HPc.code]
  | done r => have := r.code_lt; simp [HPc.code]; omega

theorem HPc.code_inj {a b : HPc} (h : a.code = b.code) : a = b := by
  cases a with
  | idle =>
    cases b with
    | idle => rfl
    | ready c r => cases c <;> simp [HPc.code] at h <;> omega
    | inIO => simp [HPc.code] at h
    | done r => simp [HPc.code] at h; omega
  | ready c r =>
    have := r.code_lt
    cases b with
    | idle => cases c <;> simp [HPc.code] at h <;> omega
    | ready c' r' =>
      have := r'.code_lt
      cases c <;> cases c' <;> simp only [HPc.code] at h <;> first
        | omega
        | (rw [IoRes.code_inj (by omega : r.code = r'.code)])
    | inIO => cases c <;> simp [HPc.code] at h <;> omega
    | done r' => have := r'.code_lt; cases c <;> simp [HPc.code] at h <;> omega
  | inIO =>
    cases b with
    | idle => simp [HPc.code] at h
    | ready c r => have := r.code_lt; cases c <;> simp [HPc.code] at h <;> omega
    | inIO => rfl
    | done r => simp [HPc.code] at h; omega
  | done r =>
    have := r.code_lt
    cases b with
    | idle => simp [HPc.code] at h
    | ready c r' => have := r'.code_lt; cases c <;> simp [HPc.code] at h <;> omega
    | inIO => simp [HPc.code] at h; omega
    | done r' => simp only [HPc.code] at h; rw [IoRes.code_inj (by omega : r.code = r'.code)]

theorem Dl.code_lt (a : Dl) : a.code < 4 := by cases a <;> simp [Dl.code]
theorem Dl.code_inj {a b : Dl} (h : a.code = b.code) : a = b := by
  cases a <;> cases b <;> simp [Dl.code] at h <;> rfl
theorem Ctx.code_lt (a : Ctx) : a.code < 4 := by cases a <;> simp [Ctx.code]
theorem Ctx.code_inj {a b : Ctx} (h : a.code = b.code) : a = b := by
  cases a <;> cases b <;> simp [Ctx.code] at h <;> rfl
/-- the numbering of the states is injective -/
theorem St.code_inj {a b : St} (h : a.code = b.code) : a = b := by
  obtain ⟨c1, h1, d1, x1⟩ := a
  obtain ⟨c2, h2, d2, x2⟩ := b
  simp only [St.code] at h
  have := h1.code_lt; have := h2.code_lt; have := d1.code_lt; have := d2.code_lt
  have := x1.code_lt; have := x2.code_lt
  have e1 : c1.code = c2.code := by omega
  have e2 : h1.code = h2.code := by omega
  have e3 : d1.code = d2.code := by omega
  have e4 : x1.code = x2.code := by omega
  rw [CPc.code_inj e1, HPc.code_inj e2, Dl.code_inj e3, Ctx.code_inj e4]

theorem testBit_foldl_mask (set : List St) (m : Nat) (c : Nat)
    (h : (set.foldl (fun m s => m ||| 2 ^ s.code) m).testBit c = true) :
    m.testBit c = true ∨ ∃ s ∈ set, s.code = c := by
  induction set generalizing m with
  | nil => exact Or.inl h
  | cons x r ih =>
    simp only [List.foldl_cons] at h
    rcases ih _ h with h1 | ⟨s, hs, e⟩
    · rw [Nat.testBit_or] at h1
      rcases Bool.or_eq_true _ _ |>.mp h1 with h2 | h2
      · exact Or.inl h2
      · rw [Nat.testBit_two_pow] at h2
        exact Or.inr ⟨x, List.mem_cons_self .., of_decide_eq_true h2⟩
    · exact Or.inr ⟨s, List.mem_cons_of_mem _ hs, e⟩

theorem mem_of_testBit_mask {set : List St} {s : St} (h : (maskOf set).testBit s.code = true) : s ∈ set := by
  rcases testBit_foldl_mask set 0 s.code h with h0 | ⟨x, hx, e⟩
  · simp at h0
  · rw [← St.code_inj e]; exact hx

theorem reach_in_closed (cfg : Cfg) (set : List St) (h : closed cfg set = true) :
    ∀ s, Reach cfg s → s ∈ set := by
  simp only [closed, Bool.and_eq_true, List.all_eq_true] at h
  intro s hr
  induction hr with
  | init => exact mem_of_testBit_mask h.1
  | step _ hx ih => exact mem_of_testBit_mask (h.2 _ ih _ hx)

/-- the one-pass check implies closedness and the state property on every member -/
theorem verifiedOn_sound (cfg : Cfg) (set : List St) (h : verifiedOn cfg set = true) :
    closed cfg set = true ∧ ∀ s ∈ set, stateOK cfg s (next cfg s) = true := by
  simp only [verifiedOn, verifiedWith, stateCheck, Bool.and_eq_true, List.all_eq_true] at h
  refine ⟨?_, fun s hs => (h.2 s hs).2⟩
  simp only [closed, Bool.and_eq_true, List.all_eq_true]
  exact ⟨h.1, fun s hs x hx => (h.2 s hs).1 x hx⟩

/-- **every reachable state of a verified configuration satisfies the checked property** -/
theorem verified_reach (cfg : Cfg) (h : verified cfg = true) (s : St) (hr : Reach cfg s) :
    stateOK cfg s (next cfg s) = true := by
  obtain ⟨hc, hall⟩ := verifiedOn_sound cfg (reachSet cfg) h
  exact hall s (reach_in_closed cfg _ hc s hr)

/-- steps of the operation itself -/
theorem mem_sysNext {cfg : Cfg} {s s' : St} :
    s' ∈ sysNext cfg s ↔ ∃ l, (l, Who.sys, s') ∈ next cfg s := by
  simp only [sysNext, sysOf, List.mem_filterMap]
  constructor
  · rintro ⟨⟨l, w, t⟩, hx, hs⟩
    cases w with
    | sys => simp at hs; subst hs; exact ⟨l, hx⟩
    | peer => simp at hs
    | ctx => simp at hs
  · rintro ⟨l, hx⟩
    exact ⟨(l, Who.sys, s'), hx, by simp⟩

/-- a chain of steps of the operation itself (peer silent, context unchanged) -/
inductive SysPath (cfg : Cfg) : St → List St → Prop where
  | nil (s : St) : SysPath cfg s []
  | cons {s s' : St} {p : List St} : s' ∈ sysNext cfg s → SysPath cfg s' p → SysPath cfg s (s' :: p)

theorem sysNext_reach {cfg : Cfg} {s s' : St} (hr : Reach cfg s) (h : s' ∈ sysNext cfg s) : Reach cfg s' := by
  obtain ⟨l, hx⟩ := mem_sysNext.mp h
  exact Reach.step hr hx

/-- if every step of the operation itself lowers `rank` on a set of states closed under those steps,
    chains of such steps are no longer than the rank -/
theorem sysPath_bounded (cfg : Cfg) (good : St → Prop)
    (hstep : ∀ s, good s → ∀ s' ∈ sysNext cfg s, good s' ∧ rank cfg s' < rank cfg s) :
    ∀ (p : List St) (s : St), good s → SysPath cfg s p → p.length ≤ rank cfg s := by
  intro p
  induction p with
  | nil => intro s _ _; exact Nat.zero_le _
  | cons x p ih =>
    intro s hg hp
    cases hp with
    | cons hx hrest =>
      obtain ⟨hg', hlt⟩ := hstep s hg x hx
      have := ih x hg' hrest
      simp only [List.length_cons]
      omega

theorem runPath_reach (cfg : Cfg) (l : List Nat) (s s' : St) (hr : Reach cfg s) (h : runPath cfg l s = some s') :
    Reach cfg s' := by
  induction l generalizing s with
  | nil => simp [runPath] at h; exact h ▸ hr
  | cons i r ih =>
    simp only [runPath] at h
    cases hx : (next cfg s)[i]? with
    | none => simp [hx] at h
    | some x =>
      simp only [hx] at h
      exact ih x.2.2 (Reach.step hr (List.mem_of_getElem? hx)) h

/-! ### data -/

theorem readOp_conserves (cap : Nat) (hcap : cap > 0) (op : ROp) (hop : ∀ n, op = .raw n → n > 0)
    (b : Bufio) (net : Net) :
    (readOp cap op b net).1 ++ pending (readOp cap op b net).2.1 (readOp cap op b net).2.2 = pending b net := by
  cases op with
  | frame =>
    simp only [readOp]
    have spec := readBytes_spec cap hcap 0 (readFuel b net) [] b net (readFuel_enough b net)
    cases hc : cutAt 0 (pending b net) with
    | none =>
      rw [spec.2 hc]
      simp [pending]
    | some pq =>
      obtain ⟨pre, post⟩ := pq
      obtain ⟨b', net', hr, hp⟩ := spec.1 pre post hc
      rw [hr]
      simp only [List.nil_append]
      rw [hp, (cutAt_spec hc).1]
      simp
  | raw n =>
    have hn := hop n rfl
    have cons := C18.rawRead_buffered_conserves cap hcap n hn b net
    simp only [readOp]
    cases hr : rawRead cap .buffered n b net with
    | mk o rest =>
      obtain ⟨b', net'⟩ := rest
      rw [hr] at cons
      cases o with
      | some a => simpa using cons
      | none =>
        simp only [] at cons ⊢
        rw [cons.1, cons.2]; simp

theorem interrupted_conserves (op : ROp) (j : Nat) (b : Bufio) (net : Net) :
    (interrupted op j b net).1 ++ pending (interrupted op j b net).2.1 (interrupted op j b net).2.2 = pending b net := by
  cases op with
  | frame =>
    simp only [interrupted, pending, List.nil_append, List.append_assoc]
    rw [← List.flatten_append, List.take_append_drop]
  | raw n => simp [interrupted]

/-- every byte of the stream is, in order, either handed to a caller, or consumed and dropped by a
    cancelled operation, or still pending — nothing is duplicated or reordered -/
theorem runSeq_conserves (cap : Nat) (hcap : cap > 0) (ops : List (ROp × Outcome))
    (hops : ∀ n o, (ROp.raw n, o) ∈ ops → n > 0) (b : Bufio) (net : Net) :
    ((runSeq cap ops b net).1.map Emit.bytes).flatten ++
      pending (runSeq cap ops b net).2.1 (runSeq cap ops b net).2.2 = pending b net := by
  induction ops generalizing b net with
  | nil => simp [runSeq]
  | cons x ops ih =>
    obtain ⟨op, o⟩ := x
    have hops' : ∀ n o, (ROp.raw n, o) ∈ ops → n > 0 := fun n o h => hops n o (List.mem_cons_of_mem _ h)
    have hop : ∀ n, op = .raw n → n > 0 := fun n e => hops n o (by subst e; exact List.mem_cons_self ..)
    simp only [runSeq]
    cases o with
    | live =>
      have c := readOp_conserves cap hcap op hop b net
      have := ih hops' (readOp cap op b net).2.1 (readOp cap op b net).2.2
      simp only [List.map_cons, List.flatten_cons, Emit.bytes, List.append_assoc]
      rw [this, c]
    | cancelledDone =>
      have c := readOp_conserves cap hcap op hop b net
      have := ih hops' (readOp cap op b net).2.1 (readOp cap op b net).2.2
      simp only [List.map_cons, List.flatten_cons, Emit.bytes, List.append_assoc]
      rw [this, c]
    | cancelledTimeout j =>
      have c := interrupted_conserves op j b net
      have := ih hops' (interrupted op j b net).2.1 (interrupted op j b net).2.2
      simp only [List.map_cons, List.flatten_cons, Emit.bytes, List.append_assoc]
      rw [this, c]
    | timedOut j =>
      have c := interrupted_conserves op j b net
      have := ih hops' (interrupted op j b net).2.1 (interrupted op j b net).2.2
      simp only [List.map_cons, List.flatten_cons, Emit.bytes, List.append_assoc]
      rw [this, c]

theorem outputs_eq_of_all_live (es : List Emit) (h : ∀ e ∈ es, ∃ b, e = .out b) :
    outputs es = es.map Emit.bytes := by
  induction es with
  | nil => simp [outputs]
  | cons e es ih =>
    obtain ⟨b, rfl⟩ := h e (List.mem_cons_self ..)
    simp [outputs, Emit.bytes, ih (fun e he => h e (List.mem_cons_of_mem _ he))]

theorem runSeq_all_live (cap : Nat) (ops : List (ROp × Outcome)) (h : ∀ x ∈ ops, x.2 = .live) (b : Bufio) (net : Net) :
    ∀ e ∈ (runSeq cap ops b net).1, ∃ bs, e = .out bs := by
  induction ops generalizing b net with
  | nil => simp [runSeq]
  | cons x ops ih =>
    obtain ⟨op, o⟩ := x
    have ho : o = .live := h (op, o) (List.mem_cons_self ..)
    subst ho
    intro e he
    simp only [runSeq, List.mem_cons] at he
    rcases he with he | he
    · exact ⟨_, he⟩
    · exact ih (fun x hx => h x (List.mem_cons_of_mem _ hx)) _ _ e he

theorem runSeq_append (cap : Nat) (xs ys : List (ROp × Outcome)) (b : Bufio) (net : Net) :
    runSeq cap (xs ++ ys) b net =
      ((runSeq cap xs b net).1 ++ (runSeq cap ys (runSeq cap xs b net).2.1 (runSeq cap xs b net).2.2).1,
       (runSeq cap ys (runSeq cap xs b net).2.1 (runSeq cap xs b net).2.2).2) := by
  induction xs generalizing b net with
  | nil => simp [runSeq]
  | cons x xs ih =>
    obtain ⟨op, o⟩ := x
    simp only [List.cons_append, runSeq]
    rw [ih]

end Varlink.Ctxio
