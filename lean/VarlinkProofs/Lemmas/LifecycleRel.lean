/-
  The transition function of `Varlink/Lifecycle.lean` as an inductive relation: one constructor per
  (label, branch), each with the guard of the branch and the resulting world spelled out.
  `rel_of_step` shows that every enabled step is one of these, so invariants can be proved by `cases`.
-/
import VarlinkProofs.Lemmas.LifecycleBasic
namespace Varlink.Life

inductive Rel (w : World) : Label → World → Prop where
  | spawn (kind : Kind) (tmo : Bool) (addr : Option Nat) :
      Rel w (.spawn kind tmo addr) { w with calls := w.calls ++ [{ kind, tmo, addr, pc := firstPc kind }] }
  -- Bind / Listen: one critical section
  | bindRefused {k : Nat} {c : Call} (hk : w.calls[k]? = some c) (hpc : c.pc = .bindCheck) (hr : w.running = true) :
      Rel w (.call k) (w.setCall k { c with pc := .returned, ret := some .errRunning })
  | bindParseBad {k : Nat} {c : Call} (hk : w.calls[k]? = some c) (hpc : c.pc = .bindCheck) (hr : w.running = false)
      (ha : c.addr = none) :
      Rel w (.call k) (w.setCall k { c with pc := .returned, ret := some .errParse })
  | bindBusy {k : Nat} {c : Call} {a : Nat} (hk : w.calls[k]? = some c) (hpc : c.pc = .bindCheck) (hr : w.running = false)
      (ha : c.addr = some a) (hu : addrInUse w a = true) :
      Rel w (.call k) (({ w with addrF := some a } : World).setCall k { c with pc := .returned, ret := some .errListen })
  | bindOk {k : Nat} {c : Call} {a : Nat} (hk : w.calls[k]? = some c) (hpc : c.pc = .bindCheck) (hr : w.running = false)
      (ha : c.addr = some a) (hu : addrInUse w a = false) (hkd : c.kind = .bind) :
      Rel w (.call k) ((bound w a).setCall k { c with pc := .returned, l := some w.lsnrs.length, ret := some .nil })
  | listenOk {k : Nat} {c : Call} {a : Nat} (hk : w.calls[k]? = some c) (hpc : c.pc = .bindCheck) (hr : w.running = false)
      (ha : c.addr = some a) (hu : addrInUse w a = false) (hkd : c.kind ≠ .bind) :
      Rel w (.call k) (({ bound w a with running := true } : World).setCall k
                        { c with pc := .loopCheck, l := some w.lsnrs.length })
  -- DoListen: one critical section
  | readNone {k : Nat} {c : Call} (hk : w.calls[k]? = some c) (hpc : c.pc = .readLst) (hl : w.lst = none) :
      Rel w (.call k) (w.setCall k { c with pc := .teardown, ret := some .errNoListener })
  | readSome {k : Nat} {c : Call} {l : Nat} (hk : w.calls[k]? = some c) (hpc : c.pc = .readLst) (hl : w.lst = some l) :
      Rel w (.call k) (({ w with running := true } : World).setCall k { c with pc := .loopCheck, l := some l })
  | loopGo {k : Nat} {c : Call} (hk : w.calls[k]? = some c) (hpc : c.pc = .loopCheck) (hr : w.running = true) :
      Rel w (.call k) (w.setCall k { c with pc := if c.tmo then .refresh else .inAccept })
  | loopStop {k : Nat} {c : Call} (hk : w.calls[k]? = some c) (hpc : c.pc = .loopCheck) (hr : w.running = false) :
      Rel w (.call k) (w.setCall k { c with pc := .teardown, ret := some .nil })
  | refreshNil {k : Nat} {c : Call} (hk : w.calls[k]? = some c) (hpc : c.pc = .refresh) (hl : w.lst = none) :
      Rel w (.call k) (w.setCall k { c with pc := .inAccept })
  | refreshOk {k : Nat} {c : Call} {f : Nat} (hk : w.calls[k]? = some c) (hpc : c.pc = .refresh) (hl : w.lst = some f)
      (ho : isOpen w f = true) :
      Rel w (.call k) ((setDeadlineL w f true).setCall k { c with pc := .inAccept })
  | refreshClosed {k : Nat} {c : Call} {f : Nat} (hk : w.calls[k]? = some c) (hpc : c.pc = .refresh) (hl : w.lst = some f)
      (ho : isOpen w f = false) :
      Rel w (.call k) ((setDeadlineL w f false).setCall k { c with pc := .teardown, ret := some .errDeadline })
  | acceptNil {k : Nat} {c : Call} (hk : w.calls[k]? = some c) (hpc : c.pc = .inAccept) (hl : c.l = none) :
      Rel w (.call k) (w.setCall k { c with pc := .teardown, ret := some .panicNil })
  | acceptConn {k : Nat} {c : Call} {l i : Nat} (hk : w.calls[k]? = some c) (hpc : c.pc = .inAccept) (hl : c.l = some l)
      (ho : isOpen w l = true) (hf : firstIdx (waitsOn l) w.conns = some i) :
      Rel w (.call k) ((takeConn w i k).setCall k { c with pc := .gotConn, cur := i, lastAcc := .conn })
  | acceptClosed {k : Nat} {c : Call} {l : Nat} (hk : w.calls[k]? = some c) (hpc : c.pc = .inAccept) (hl : c.l = some l)
      (ho : isOpen w l = false) :
      Rel w (.call k) (w.setCall k { c with pc := .errOther, lastAcc := .closed })
  | count {k : Nat} {c : Call} (hk : w.calls[k]? = some c) (hpc : c.pc = .gotConn) :
      Rel w (.call k) (({ (w.setPhase c.cur .counted) with counter := w.counter + 1 } : World).setCall k
                        { c with pc := .counted })
  | startHandler {k : Nat} {c : Call} (hk : w.calls[k]? = some c) (hpc : c.pc = .counted) :
      Rel w (.call k) ((w.setPhase c.cur .reading).setCall k { c with pc := .loopCheck, wg := c.wg + 1 })
  | timeoutIdle {k : Nat} {c : Call} (hk : w.calls[k]? = some c) (hpc : c.pc = .errTimeout) (h0 : w.counter = 0) :
      Rel w (.call k) (w.setCall k { c with pc := .teardown, ret := some .timeout })
  | timeoutBusy {k : Nat} {c : Call} (hk : w.calls[k]? = some c) (hpc : c.pc = .errTimeout) (h0 : w.counter ≠ 0) :
      Rel w (.call k) (w.setCall k { c with pc := .loopCheck })
  | errRunning {k : Nat} {c : Call} (hk : w.calls[k]? = some c) (hpc : c.pc = .errOther) (hr : w.running = true) :
      Rel w (.call k) (w.setCall k { c with pc := .teardown, ret := some .errAccept })
  | errStopped {k : Nat} {c : Call} (hk : w.calls[k]? = some c) (hpc : c.pc = .errOther) (hr : w.running = false) :
      Rel w (.call k) (w.setCall k { c with pc := .teardown, ret := some .nil })
  | teardown {k : Nat} {c : Call} (hk : w.calls[k]? = some c) (hpc : c.pc = .teardown) :
      Rel w (.call k) ((teardownShared w).setCall k { c with pc := .waiting })
  | waitDone {k : Nat} {c : Call} (hk : w.calls[k]? = some c) (hpc : c.pc = .waiting) (hwg : c.wg = 0) :
      Rel w (.call k) (w.setCall k { c with pc := .returned })
  | expire {k : Nat} {c : Call} {l : Nat} (hk : w.calls[k]? = some c) (hpc : c.pc = .inAccept) (hl : c.l = some l)
      (ho : isOpen w l = true) (harm : isArmed w l = true) :
      Rel w (.expire k) (w.setCall k { c with pc := .errTimeout, lastAcc := .timeout })
  -- handler threads
  | readReq {i : Nat} {x : Conn} (hi : w.conns[i]? = some x) (hp : x.phase = .reading) (hr : x.reqs ≠ 0) :
      Rel w (.handler i) (w.setConn i { x with phase := .dispatching, reqs := x.reqs - 1 })
  | readEof {i : Nat} {x : Conn} (hi : w.conns[i]? = some x) (hp : x.phase = .reading) (hr : x.reqs = 0)
      (hc : x.cli ≠ .open) :
      Rel w (.handler i) (w.setConn i { x with phase := .closing })
  | reply {i : Nat} {x : Conn} (hi : w.conns[i]? = some x) (hp : x.phase = .dispatching) :
      Rel w (.handler i) (w.setConn i { x with phase := .reading, served := x.served + 1 })
  | connClose {i : Nat} {x : Conn} (hi : w.conns[i]? = some x) (hp : x.phase = .closing) :
      Rel w (.handler i) (w.setConn i { x with phase := .closed })
  | decrement {i : Nat} {x : Conn} (hi : w.conns[i]? = some x) (hp : x.phase = .closed) :
      Rel w (.handler i) (({ w with counter := w.counter - 1 } : World).setConn i { x with phase := .decremented })
  | wgDone {i : Nat} {x : Conn} {co : Call} (hi : w.conns[i]? = some x) (hp : x.phase = .decremented)
      (hco : w.calls[x.owner]? = some co) (hwg : co.wg ≠ 0) :
      Rel w (.handler i) ((w.setCall x.owner { co with wg := co.wg - 1 }).setConn i { x with phase := .done })
  | wgPanic {i : Nat} {x : Conn} (hi : w.conns[i]? = some x) (hp : x.phase = .decremented)
      (hbad : w.calls[x.owner]? = none ∨ ∃ co, w.calls[x.owner]? = some co ∧ co.wg = 0) :
      Rel w (.handler i) (({ w with wgPanic := true } : World).setConn i { x with phase := .done })
  | handlerFails {i : Nat} {x : Conn} (hi : w.conns[i]? = some x) (hp : x.phase = .dispatching) :
      Rel w (.handlerFails i) (w.setConn i { x with phase := .closing })
  | ctxEnd {i : Nat} {x : Conn} (hi : w.conns[i]? = some x) (hp : x.phase = .reading) (hc : ownerCtxDone w x = true) :
      Rel w (.ctxEnd i) (w.setConn i { x with phase := .closing })
  -- environment
  | connect {l : Nat} (hl : l < w.lsnrs.length) :
      Rel w (.clientConnect l)
        { w with conns := w.conns ++ [{ lsn := l, phase := if isOpen w l then .backlog else .refused }] }
  | clientCall {i : Nat} {x : Conn} (hi : w.conns[i]? = some x) (hw : cliWritable x = true) :
      Rel w (.clientCall i) (w.setConn i { x with reqs := x.reqs + 1 })
  | clientClose {i : Nat} {x : Conn} (hi : w.conns[i]? = some x) (hc : x.cli = .open) (hp : x.phase ≠ .refused) :
      Rel w (.clientClose i) (w.setConn i { x with cli := .closed })
  | clientAbort {i : Nat} {x : Conn} (hi : w.conns[i]? = some x) (hc : x.cli = .open) (hp : x.phase ≠ .refused) :
      Rel w (.clientAbort i) (w.setConn i { x with cli := .aborted })
  | ctxCancel {k : Nat} {c : Call} (hk : w.calls[k]? = some c) :
      Rel w (.ctxCancel k) (w.setCall k { c with ctxDone := true })
  | shutdown : Rel w .shutdown (stepShutdown w)
  | getListener : Rel w .getListener w
  | register : Rel w .register w

theorem rel_of_stepCall {w w' : World} {k : Nat} (hs : stepCall w k = some w') : Rel w (.call k) w' := by
  unfold stepCall at hs
  cases hk : w.calls[k]? with
  | none => simp [hk] at hs
  | some c =>
    simp only [hk] at hs
    cases hpc : c.pc <;> simp only [hpc] at hs
    case bindCheck =>
      split at hs
      · simp only [Option.some.injEq] at hs; subst hs
        exact .bindRefused hk hpc ‹_›
      · have hr : w.running = false := by simpa using ‹¬ w.running = true›
        cases ha : c.addr with
        | none =>
          simp only [ha, Option.some.injEq] at hs; subst hs
          have := Rel.bindParseBad hk hpc hr ha; simpa [ha] using this
        | some a =>
          simp only [ha] at hs
          split at hs
          · simp only [Option.some.injEq] at hs; subst hs
            have := Rel.bindBusy hk hpc hr ha ‹_›; simpa [ha] using this
          · have hu : addrInUse w a = false := by simpa using ‹¬ addrInUse w a = true›
            cases hkd : c.kind <;> simp only [hkd, Option.some.injEq] at hs <;> subst hs
            · have := Rel.listenOk hk hpc hr ha hu (by simp [hkd]); simpa [ha, hkd] using this
            · have := Rel.listenOk hk hpc hr ha hu (by simp [hkd]); simpa [ha, hkd] using this
            · have := Rel.bindOk hk hpc hr ha hu hkd; simpa [ha, hkd] using this
    case readLst =>
      cases hl : w.lst <;> simp only [hl, Option.some.injEq] at hs <;> subst hs
      · exact .readNone hk hpc hl
      · have := Rel.readSome hk hpc hl; simpa [hl] using this
    case loopCheck =>
      split at hs <;> (simp only [Option.some.injEq] at hs; subst hs)
      · exact .loopGo hk hpc ‹_›
      · exact .loopStop hk hpc (by simpa using ‹¬ w.running = true›)
    case refresh =>
      cases hl : w.lst with
      | none => simp only [hl, Option.some.injEq] at hs; subst hs; exact .refreshNil hk hpc hl
      | some f =>
        simp only [hl] at hs
        split at hs <;> (simp only [Option.some.injEq] at hs; subst hs)
        · exact .refreshOk hk hpc hl ‹_›
        · exact .refreshClosed hk hpc hl (by simpa using ‹¬ isOpen w f = true›)
    case inAccept =>
      cases hl : c.l with
      | none =>
        simp only [hl, Option.some.injEq] at hs; subst hs
        have := Rel.acceptNil hk hpc hl; simpa [hl] using this
      | some l =>
        simp only [hl] at hs
        split at hs
        · cases hf : firstIdx (waitsOn l) w.conns with
          | none => simp [hf] at hs
          | some i =>
            simp only [hf, Option.some.injEq] at hs; subst hs
            have := Rel.acceptConn hk hpc hl ‹_› hf
            simpa [hl] using this
        · simp only [Option.some.injEq] at hs; subst hs
          have := Rel.acceptClosed hk hpc hl (by simpa using ‹¬ isOpen w l = true›)
          simpa [hl] using this
    case gotConn => simp only [Option.some.injEq] at hs; subst hs; exact .count hk hpc
    case counted => simp only [Option.some.injEq] at hs; subst hs; exact .startHandler hk hpc
    case errTimeout =>
      split at hs <;> (simp only [Option.some.injEq] at hs; subst hs)
      · exact .timeoutIdle hk hpc ‹_›
      · exact .timeoutBusy hk hpc ‹_›
    case errOther =>
      split at hs <;> (simp only [Option.some.injEq] at hs; subst hs)
      · exact .errRunning hk hpc ‹_›
      · exact .errStopped hk hpc (by simpa using ‹¬ w.running = true›)
    case teardown => simp only [Option.some.injEq] at hs; subst hs; exact .teardown hk hpc
    case waiting =>
      split at hs
      · simp only [Option.some.injEq] at hs; subst hs; exact .waitDone hk hpc ‹_›
      · simp at hs
    case returned => simp at hs

theorem rel_of_step {w w' : World} {a : Label} (hs : step w a = some w') : Rel w a w' := by
  cases a with
  | spawn kind tmo addr => simp only [step, Option.some.injEq] at hs; subst hs; exact .spawn kind tmo addr
  | call k => exact rel_of_stepCall hs
  | expire k =>
    simp only [step, stepExpire] at hs
    cases hk : w.calls[k]? with
    | none => simp [hk] at hs
    | some c =>
      simp only [hk] at hs
      split at hs
      · rename_i l hpc hl
        split at hs
        · simp only [Option.some.injEq] at hs; subst hs
          rename_i h
          simp only [Bool.and_eq_true] at h
          exact .expire hk hpc hl h.1 h.2
        · simp at hs
      · simp at hs
  | handler i =>
    simp only [step, stepHandler] at hs
    cases hi : w.conns[i]? with
    | none => simp [hi] at hs
    | some x =>
      simp only [hi] at hs
      cases hp : x.phase <;> simp only [hp] at hs
      case reading =>
        split at hs
        · simp only [Option.some.injEq] at hs; subst hs; exact .readReq hi hp ‹_›
        · split at hs
          · simp only [Option.some.injEq] at hs; subst hs
            exact .readEof hi hp (by simpa using ‹¬ x.reqs ≠ 0›) ‹_›
          · simp at hs
      case dispatching => simp only [Option.some.injEq] at hs; subst hs; exact .reply hi hp
      case closing => simp only [Option.some.injEq] at hs; subst hs; exact .connClose hi hp
      case closed => simp only [Option.some.injEq] at hs; subst hs; exact .decrement hi hp
      case decremented =>
        cases hco : w.calls[x.owner]? with
        | none => simp only [hco, Option.some.injEq] at hs; subst hs; exact .wgPanic hi hp (Or.inl hco)
        | some co =>
          simp only [hco] at hs
          split at hs <;> (simp only [Option.some.injEq] at hs; subst hs)
          · exact .wgPanic hi hp (Or.inr ⟨co, hco, ‹_›⟩)
          · exact .wgDone hi hp hco ‹_›
      all_goals simp at hs
  | handlerFails i =>
    simp only [step, stepHandlerFails] at hs
    cases hi : w.conns[i]? with
    | none => simp [hi] at hs
    | some x =>
      simp only [hi] at hs
      split at hs
      · simp only [Option.some.injEq] at hs; subst hs; exact .handlerFails hi ‹_›
      · simp at hs
  | ctxEnd i =>
    simp only [step, stepCtxEnd] at hs
    cases hi : w.conns[i]? with
    | none => simp [hi] at hs
    | some x =>
      simp only [hi] at hs
      split at hs
      · simp only [Option.some.injEq] at hs; subst hs
        rename_i h
        exact .ctxEnd hi h.1 h.2
      · simp at hs
  | clientConnect l =>
    simp only [step, stepConnect] at hs
    split at hs
    · simp only [Option.some.injEq] at hs; subst hs; exact .connect ‹_›
    · simp at hs
  | clientCall i =>
    simp only [step, stepClientCall] at hs
    cases hi : w.conns[i]? with
    | none => simp [hi] at hs
    | some x =>
      simp only [hi] at hs
      split at hs
      · simp only [Option.some.injEq] at hs; subst hs; exact .clientCall hi ‹_›
      · simp at hs
  | clientClose i =>
    simp only [step, stepClientEnd] at hs
    cases hi : w.conns[i]? with
    | none => simp [hi] at hs
    | some x =>
      simp only [hi] at hs
      split at hs
      · simp only [Option.some.injEq] at hs; subst hs
        rename_i h
        exact .clientClose hi h.1 h.2
      · simp at hs
  | clientAbort i =>
    simp only [step, stepClientEnd] at hs
    cases hi : w.conns[i]? with
    | none => simp [hi] at hs
    | some x =>
      simp only [hi] at hs
      split at hs
      · simp only [Option.some.injEq] at hs; subst hs
        rename_i h
        exact .clientAbort hi h.1 h.2
      · simp at hs
  | ctxCancel k =>
    simp only [step, stepCtxCancel] at hs
    cases hk : w.calls[k]? with
    | none => simp [hk] at hs
    | some c => simp only [hk, Option.some.injEq] at hs; subst hs; exact .ctxCancel hk
  | shutdown => simp only [step, Option.some.injEq] at hs; subst hs; exact .shutdown
  | getListener => simp only [step, Option.some.injEq] at hs; subst hs; exact .getListener
  | register => simp only [step, Option.some.injEq] at hs; subst hs; exact .register

end Varlink.Life
