/-
  Well-formedness and depth of the two wire objects (`callObj`, `replyObj`) in terms of their
  parameters, so that the JSON round-trip lemmas apply to whole messages.
-/
import Varlink.Client
import Varlink.JsonWF
import VarlinkProofs.Lemmas.Json
namespace Varlink

def optNumsOk : Option JVal → Bool
  | none => true
  | some v => v.numsOk

def optWf : Option JVal → Bool
  | none => true
  | some v => v.wf

def optDepth : Option JVal → Nat
  | none => 0
  | some v => v.depth

theorem callObj_numsOk (m : Bytes) (p : Option JVal) (a b c : Bool) (h : optNumsOk p = true) :
    (callObj m p a b c).numsOk = true := by
  unfold callObj
  cases p with
  | none => cases a <;> cases b <;> cases c <;> simp [boolMember, JVal.numsOk, JMembers.numsOk]
  | some v =>
    have hv : v.numsOk = true := h
    cases a <;> cases b <;> cases c <;> simp [boolMember, JVal.numsOk, JMembers.numsOk, hv]

theorem callObj_depth (m : Bytes) (p : Option JVal) (a b c : Bool) :
    (callObj m p a b c).depth = 1 + optDepth p := by
  unfold callObj
  cases p with
  | none => cases a <;> cases b <;> cases c <;> simp [boolMember, JVal.depth, JMembers.depth, optDepth]
  | some v =>
    cases a <;> cases b <;> cases c <;> simp [boolMember, JVal.depth, JMembers.depth, optDepth]

theorem callObj_wf (m : Bytes) (p : Option JVal) (a b c : Bool) (hm : utf8Ok m = true)
    (h : optWf p = true) : (callObj m p a b c).wf = true := by
  have k1 : utf8Ok (str "method") = true := by decide
  have k2 : utf8Ok (str "parameters") = true := by decide
  have k3 : utf8Ok (str "more") = true := by decide
  have k4 : utf8Ok (str "oneway") = true := by decide
  have k5 : utf8Ok (str "upgrade") = true := by decide
  unfold callObj
  cases p with
  | none =>
    cases a <;> cases b <;> cases c <;> simp [boolMember, JVal.wf, JMembers.wf, hm, k1, k3, k4, k5]
  | some v =>
    have hv : v.wf = true := h
    cases a <;> cases b <;> cases c <;> simp [boolMember, JVal.wf, JMembers.wf, hm, hv, k1, k2, k3, k4, k5]

theorem replyObj_numsOk (f : ReplyFrame) (h : optNumsOk f.params = true) : (replyObj f).numsOk = true := by
  obtain ⟨p, c, e⟩ := f
  unfold replyObj
  cases p with
  | none => cases c <;> cases e <;> simp [JVal.numsOk, JMembers.numsOk]
  | some v =>
    have hv : v.numsOk = true := h
    cases c <;> cases e <;> simp [JVal.numsOk, JMembers.numsOk, hv]

theorem replyObj_depth (f : ReplyFrame) : (replyObj f).depth = 1 + optDepth f.params := by
  obtain ⟨p, c, e⟩ := f
  unfold replyObj
  cases p with
  | none => cases c <;> cases e <;> simp [JVal.depth, JMembers.depth, optDepth]
  | some v => cases c <;> cases e <;> simp [JVal.depth, JMembers.depth, optDepth]

theorem replyObj_wf (f : ReplyFrame) (he : utf8Ok f.error = true) (h : optWf f.params = true) :
    (replyObj f).wf = true := by
  have k1 : utf8Ok (str "parameters") = true := by decide
  have k2 : utf8Ok (str "continues") = true := by decide
  have k3 : utf8Ok (str "error") = true := by decide
  obtain ⟨p, c, e⟩ := f
  unfold replyObj
  cases p with
  | none => cases c <;> cases e <;> simp_all [JVal.wf, JMembers.wf]
  | some v =>
    have hv : v.wf = true := h
    cases c <;> cases e <;> simp_all [JVal.wf, JMembers.wf]

theorem callObj_is_obj (m : Bytes) (p : Option JVal) (a b c : Bool) : ∃ ms, callObj m p a b c = .obj ms := by
  unfold callObj; exact ⟨_, rfl⟩

theorem replyObj_is_obj (f : ReplyFrame) : ∃ ms, replyObj f = .obj ms := by
  unfold replyObj; exact ⟨_, rfl⟩

end Varlink
