/-
  The JSON round trip of the model in `Varlink/Json.lean`:

    parseDoc (render v) = some v            for well-formed `v` (`JVal.wf`) of depth ≤ `maxDepth`,
    parseDoc (render v) = some v.sanitize   when only the number literals are well-formed,

  plus: `render` never emits a NUL (or any other raw control byte), and the rendering of an object
  is one syntactically valid JSON object.
-/
import VarlinkProofs.Lemmas.JsonNum
import VarlinkProofs.Lemmas.JsonStr
namespace Varlink

/-! ### first byte of a rendered value -/

/-- the bytes a rendered value can start with -/
def valStart (c : UInt8) : Bool :=
  c = 110 || c = 116 || c = 102 || c = 34 || c = 91 || c = 123 || c = 45 || isDigit c

theorem valStart_ne {c : UInt8} (h : valStart c = true) :
    isWs c = false ∧ c ≠ 93 ∧ c ≠ 125 := by
  refine ⟨?_, ?_, ?_⟩
  · cases hw : isWs c with
    | false => rfl
    | true =>
      simp only [isWs, Bool.or_eq_true, decide_eq_true_eq] at hw
      rcases hw with ((rfl | rfl) | rfl) | rfl <;> revert h <;> decide
  · rintro rfl; revert h; decide
  · rintro rfl; revert h; decide

theorem skipWs_of_not_ws {c : UInt8} (tl : Bytes) (h : isWs c = false) : skipWs (c :: tl) = c :: tl := by
  simp [skipWs, h]

theorem numStart_ne {c : UInt8} (h : c = 45 ∨ isDigit c = true) :
    c ≠ 123 ∧ c ≠ 91 ∧ c ≠ 34 ∧ c ≠ 116 ∧ c ≠ 102 ∧ c ≠ 110 := by
  refine ⟨?_, ?_, ?_, ?_, ?_, ?_⟩ <;> (rintro rfl; revert h; decide)

theorem render_head (v : JVal) (h : v.numsOk = true) :
    ∃ c tl, render v = c :: tl ∧ valStart c = true := by
  cases v with
  | null => exact ⟨_, _, rfl, by decide⟩
  | bool b => cases b <;> exact ⟨_, _, rfl, by decide⟩
  | num lit =>
    obtain ⟨c, cs, rfl, hc⟩ := numLitOk_head (by simpa [JVal.numsOk] using h)
    refine ⟨c, cs, rfl, ?_⟩
    rcases hc with rfl | hc
    · decide
    · simp [valStart, hc]
  | str s => exact ⟨_, _, rfl, by decide⟩
  | arr xs => exact ⟨_, _, rfl, by decide⟩
  | obj ms => exact ⟨_, _, rfl, by decide⟩

/-! ### the parser reads back what `render` writes (any continuation, any sufficient fuel) -/

theorem renderList_cons_cons (v w : JVal) (t : JList) :
    renderList (.cons v (.cons w t)) = render v ++ 44 :: renderList (.cons w t) := by
  simp [renderList]

theorem renderMembers_cons_cons (k : Bytes) (v : JVal) (k' : Bytes) (w : JVal) (t : JMembers) :
    renderMembers (.cons k v (.cons k' w t)) =
      renderString k ++ 58 :: render v ++ 44 :: renderMembers (.cons k' w t) := by
  simp [renderMembers]

theorem renderList_head (v : JVal) (t : JList) (h : (JList.cons v t).numsOk = true) :
    ∃ c tl, renderList (.cons v t) = c :: tl ∧ valStart c = true := by
  simp only [JList.numsOk, Bool.and_eq_true] at h
  obtain ⟨c, tl, hr, hc⟩ := render_head v h.1
  cases t with
  | nil => exact ⟨c, tl, by simp [renderList, hr], hc⟩
  | cons w t' => exact ⟨c, tl ++ 44 :: renderList (.cons w t'), by simp [renderList_cons_cons, hr], hc⟩

theorem renderMembers_head (k : Bytes) (v : JVal) (t : JMembers) :
    ∃ tl, renderMembers (.cons k v t) = 34 :: tl := by
  cases t with
  | nil => exact ⟨_, by simp [renderMembers, renderString]; rfl⟩
  | cons k' w t' => exact ⟨_, by simp [renderMembers_cons_cons, renderString]; rfl⟩

theorem skipWs_render (v : JVal) (h : v.numsOk = true) (rest : Bytes) :
    skipWs (render v ++ rest) = render v ++ rest := by
  obtain ⟨c, tl, hr, hc⟩ := render_head v h
  rw [hr]
  exact skipWs_of_not_ws _ (valStart_ne hc).1

theorem numStop_44 (r : Bytes) : numStop (44 :: r) = true := rfl
theorem numStop_93 (r : Bytes) : numStop (93 :: r) = true := rfl
theorem numStop_125 (r : Bytes) : numStop (125 :: r) = true := rfl

mutual
theorem parseValue_render : (v : JVal) → ∀ (fuel d : Nat) (rest : Bytes), v.numsOk = true → v.fuel ≤ fuel →
    d + v.depth ≤ maxDepth → numStop rest = true →
    parseValue fuel d (render v ++ rest) = some (v.sanitize, rest)
  | .null, fuel, d, rest, _, hf, _, _ => by
    obtain ⟨fuel, rfl⟩ : ∃ f, fuel = f + 1 := ⟨fuel - 1, by simp [JVal.fuel] at hf; omega⟩
    simp [render, parseValue, matchLit, JVal.sanitize]
  | .bool true, fuel, d, rest, _, hf, _, _ => by
    obtain ⟨fuel, rfl⟩ : ∃ f, fuel = f + 1 := ⟨fuel - 1, by simp [JVal.fuel] at hf; omega⟩
    simp [render, parseValue, matchLit, JVal.sanitize]
  | .bool false, fuel, d, rest, _, hf, _, _ => by
    obtain ⟨fuel, rfl⟩ : ∃ f, fuel = f + 1 := ⟨fuel - 1, by simp [JVal.fuel] at hf; omega⟩
    simp [render, parseValue, matchLit, JVal.sanitize]
  | .num lit, fuel, d, rest, hn, hf, _, hs => by
    obtain ⟨fuel, rfl⟩ : ∃ f, fuel = f + 1 := ⟨fuel - 1, by simp [JVal.fuel] at hf; omega⟩
    have hl : numLitOk lit = true := by simpa [JVal.numsOk] using hn
    have hp := parseNumber_numLitOk rest hl hs
    obtain ⟨c, cs, rfl, hc⟩ := numLitOk_head hl
    obtain ⟨h1, h2, h3, h4, h5, h6⟩ := numStart_ne hc
    have hc' : (c = 45 || isDigit c) = true := by
      rcases hc with rfl | hc
      · decide
      · simp [hc]
    simp only [render, List.cons_append] at hp ⊢
    simp only [parseValue, h1, h2, h3, h4, h5, h6, hc', hp, if_true, if_false]
    simp [JVal.sanitize]
  | .str s, fuel, d, rest, _, hf, _, _ => by
    obtain ⟨fuel, rfl⟩ : ∃ f, fuel = f + 1 := ⟨fuel - 1, by simp [JVal.fuel] at hf; omega⟩
    simp only [render, renderString_append]
    simp [parseValue, parseString_escapeBody, JVal.sanitize]
  | .arr xs, fuel, d, rest, hn, hf, hd, _ => by
    obtain ⟨fuel, rfl⟩ : ∃ f, fuel = f + 1 := ⟨fuel - 1, by simp [JVal.fuel] at hf; omega⟩
    have ih := parseElems_render xs fuel (d + 1) rest
    have hd' : ¬ d ≥ maxDepth := by simp only [JVal.depth] at hd; omega
    cases xs with
    | nil =>
      simp only [render, renderList, List.nil_append, List.cons_append]
      rw [parseValue]
      simp [hd', skipWs, isWs, JVal.sanitize, JList.sanitize]
    | cons v t =>
      have hn' : (JList.cons v t).numsOk = true := by simpa [JVal.numsOk] using hn
      obtain ⟨c, tl, hr, hc⟩ := renderList_head v t hn'
      obtain ⟨hw, h93, _⟩ := valStart_ne hc
      have ih := ih (by simp) hn' (by simp only [JVal.fuel] at hf; omega)
        (by simp only [JVal.depth] at hd; omega)
      simp only [render, List.cons_append, List.append_assoc, List.nil_append]
      rw [parseValue]
      simp only [if_neg hd', (by decide : ¬ (91 : UInt8) = 123), if_false, if_true]
      rw [hr] at ih ⊢
      simp only [List.cons_append] at ih ⊢
      rw [skipWs_of_not_ws _ hw]
      split
      · rename_i heq; simp at heq; exact absurd heq.1 h93
      · simp [ih, JVal.sanitize]
  | .obj ms, fuel, d, rest, hn, hf, hd, _ => by
    obtain ⟨fuel, rfl⟩ : ∃ f, fuel = f + 1 := ⟨fuel - 1, by simp [JVal.fuel] at hf; omega⟩
    have ih := parseMembers_render ms fuel (d + 1) rest
    have hd' : ¬ d ≥ maxDepth := by simp only [JVal.depth] at hd; omega
    cases ms with
    | nil =>
      simp only [render, renderMembers, List.nil_append, List.cons_append]
      rw [parseValue]
      simp [hd', skipWs, isWs, JVal.sanitize, JMembers.sanitize]
    | cons k v t =>
      have hn' : (JMembers.cons k v t).numsOk = true := by simpa [JVal.numsOk] using hn
      obtain ⟨tl, hr⟩ := renderMembers_head k v t
      have ih := ih (by simp) hn' (by simp only [JVal.fuel] at hf; omega)
        (by simp only [JVal.depth] at hd; omega)
      simp only [render, List.cons_append, List.append_assoc, List.nil_append]
      rw [parseValue]
      simp only [if_neg hd', if_true]
      rw [hr] at ih ⊢
      simp only [List.cons_append] at ih ⊢
      rw [skipWs_of_not_ws _ (by decide)]
      simp [ih, JVal.sanitize]
theorem parseElems_render : (xs : JList) → ∀ (fuel d : Nat) (rest : Bytes), xs ≠ .nil → xs.numsOk = true →
    xs.fuel ≤ fuel → d + xs.depth ≤ maxDepth →
    parseElems fuel d (renderList xs ++ 93 :: rest) = some (xs.sanitize, rest)
  | .nil, _, _, _, h, _, _, _ => absurd rfl h
  | .cons v t, fuel, d, rest, _, hn, hf, hd => by
    obtain ⟨fuel, rfl⟩ : ∃ f, fuel = f + 1 := ⟨fuel - 1, by simp only [JList.fuel] at hf; omega⟩
    simp only [JList.numsOk, Bool.and_eq_true] at hn
    simp only [JList.fuel, JList.depth] at hf hd
    have ihv := parseValue_render v fuel d
    have iht := parseElems_render t fuel d rest
    cases t with
    | nil =>
      have ihv := ihv (93 :: rest) hn.1 (by omega) (by omega) (numStop_93 _)
      simp only [renderList]
      rw [parseElems]
      simp only [ihv]
      simp [skipWs, isWs, JList.sanitize]
    | cons w t' =>
      have ihv := ihv (44 :: (renderList (.cons w t') ++ 93 :: rest)) hn.1 (by omega) (by omega) (numStop_44 _)
      have iht := iht (by simp) hn.2 (by omega) (by omega)
      obtain ⟨c, tl, hr, hc⟩ := renderList_head w t' hn.2
      obtain ⟨hw, _, _⟩ := valStart_ne hc
      rw [renderList_cons_cons]
      simp only [List.append_assoc, List.cons_append]
      rw [parseElems]
      simp only [ihv]
      rw [hr] at iht ⊢
      simp only [List.cons_append] at iht ⊢
      have h44 : skipWs (44 :: c :: (tl ++ 93 :: rest)) = 44 :: c :: (tl ++ 93 :: rest) := skipWs_of_not_ws _ (by decide)
      rw [h44]
      simp only [skipWs_of_not_ws _ hw, iht]
      simp [JList.sanitize]
theorem parseMembers_render : (ms : JMembers) → ∀ (fuel d : Nat) (rest : Bytes), ms ≠ .nil →
    ms.numsOk = true → ms.fuel ≤ fuel → d + ms.depth ≤ maxDepth →
    parseMembers fuel d (renderMembers ms ++ 125 :: rest) = some (ms.sanitize, rest)
  | .nil, _, _, _, h, _, _, _ => absurd rfl h
  | .cons k v t, fuel, d, rest, _, hn, hf, hd => by
    obtain ⟨fuel, rfl⟩ : ∃ f, fuel = f + 1 := ⟨fuel - 1, by simp only [JMembers.fuel] at hf; omega⟩
    simp only [JMembers.numsOk, Bool.and_eq_true] at hn
    simp only [JMembers.fuel, JMembers.depth] at hf hd
    have ihv := parseValue_render v fuel d
    have iht := parseMembers_render t fuel d rest
    have h58 : ∀ X, skipWs (58 :: X) = 58 :: X := fun X => skipWs_of_not_ws _ (by decide)
    cases t with
    | nil =>
      have ihv := ihv (125 :: rest) hn.1 (by omega) (by omega) (numStop_125 _)
      simp only [renderMembers, List.append_assoc, List.cons_append, renderString_append]
      rw [parseMembers]
      simp only [parseString_escapeBody, h58, skipWs_render v hn.1, ihv]
      simp [skipWs, isWs, JMembers.sanitize]
    | cons k' w t' =>
      have ihv := ihv (44 :: (renderMembers (.cons k' w t') ++ 125 :: rest)) hn.1 (by omega) (by omega)
        (numStop_44 _)
      have iht := iht (by simp) hn.2 (by omega) (by omega)
      obtain ⟨tl, hr⟩ := renderMembers_head k' w t'
      rw [renderMembers_cons_cons]
      simp only [List.append_assoc, List.cons_append, renderString_append]
      rw [parseMembers]
      simp only [parseString_escapeBody, h58, skipWs_render v hn.1, ihv]
      rw [hr] at iht ⊢
      simp only [List.cons_append] at iht ⊢
      have h44 : skipWs (44 :: 34 :: (tl ++ 125 :: rest)) = 44 :: 34 :: (tl ++ 125 :: rest) :=
        skipWs_of_not_ws _ (by decide)
      rw [h44]
      simp only [skipWs_of_not_ws (c := 34) _ (by decide), iht]
      simp [JMembers.sanitize]
end

/-! ### the fuel `parseDoc` provides is enough -/

mutual
theorem JVal.fuel_le : (v : JVal) → v.numsOk = true → v.fuel + 1 ≤ 2 * (render v).length
  | .null, _ => by simp [JVal.fuel, render]
  | .bool true, _ => by simp [JVal.fuel, render]
  | .bool false, _ => by simp [JVal.fuel, render]
  | .num lit, h => by
    obtain ⟨c, tl, hr, _⟩ := render_head (.num lit) h
    simp [JVal.fuel, hr]; omega
  | .str s, _ => by simp [JVal.fuel, render, renderString]; omega
  | .arr xs, h => by
    have ih := JList.fuel_le xs
    cases xs with
    | nil => simp [JVal.fuel, JList.fuel, render, renderList]
    | cons v t =>
      have ih := ih (by simp) (by simpa [JVal.numsOk] using h)
      simp only [JVal.fuel, render, List.length_cons, List.length_append, List.length_nil]
      omega
  | .obj ms, h => by
    have ih := JMembers.fuel_le ms
    cases ms with
    | nil => simp [JVal.fuel, JMembers.fuel, render, renderMembers]
    | cons k v t =>
      have ih := ih (by simp) (by simpa [JVal.numsOk] using h)
      simp only [JVal.fuel, render, List.length_cons, List.length_append, List.length_nil]
      omega
theorem JList.fuel_le : (xs : JList) → xs ≠ .nil → xs.numsOk = true →
    xs.fuel ≤ 2 * (renderList xs).length
  | .nil, h, _ => absurd rfl h
  | .cons v t, _, h => by
    simp only [JList.numsOk, Bool.and_eq_true] at h
    have ihv := JVal.fuel_le v h.1
    have iht := JList.fuel_le t
    cases t with
    | nil => simp only [JList.fuel, renderList]; omega
    | cons w t' =>
      have iht := iht (by simp) h.2
      rw [renderList_cons_cons]
      simp only [JList.fuel, List.length_cons, List.length_append] at iht ⊢
      omega
theorem JMembers.fuel_le : (ms : JMembers) → ms ≠ .nil → ms.numsOk = true →
    ms.fuel ≤ 2 * (renderMembers ms).length
  | .nil, h, _ => absurd rfl h
  | .cons k v t, _, h => by
    simp only [JMembers.numsOk, Bool.and_eq_true] at h
    have ihv := JVal.fuel_le v h.1
    have iht := JMembers.fuel_le t
    cases t with
    | nil =>
      simp only [JMembers.fuel, renderMembers, List.length_cons, List.length_append]
      omega
    | cons k' w t' =>
      have iht := iht (by simp) h.2
      rw [renderMembers_cons_cons]
      simp only [JMembers.fuel, List.length_cons, List.length_append] at iht ⊢
      omega
end

/-! ### `wf` = `numsOk` + nothing to sanitise -/

mutual
theorem JVal.numsOk_of_wf : (v : JVal) → v.wf = true → v.numsOk = true
  | .null, _ => rfl
  | .bool _, _ => rfl
  | .num _, h => by simpa [JVal.wf, JVal.numsOk] using h
  | .str _, _ => rfl
  | .arr xs, h => by simpa [JVal.wf, JVal.numsOk] using JList.numsOk_of_wf xs (by simpa [JVal.wf] using h)
  | .obj ms, h => by simpa [JVal.wf, JVal.numsOk] using JMembers.numsOk_of_wf ms (by simpa [JVal.wf] using h)
theorem JList.numsOk_of_wf : (xs : JList) → xs.wf = true → xs.numsOk = true
  | .nil, _ => rfl
  | .cons v t, h => by
    simp only [JList.wf, Bool.and_eq_true] at h
    simp [JList.numsOk, JVal.numsOk_of_wf v h.1, JList.numsOk_of_wf t h.2]
theorem JMembers.numsOk_of_wf : (ms : JMembers) → ms.wf = true → ms.numsOk = true
  | .nil, _ => rfl
  | .cons _ v t, h => by
    simp only [JMembers.wf, Bool.and_eq_true] at h
    simp [JMembers.numsOk, JVal.numsOk_of_wf v h.1.2, JMembers.numsOk_of_wf t h.2]
end

mutual
theorem JVal.sanitize_of_wf : (v : JVal) → v.wf = true → v.sanitize = v
  | .null, _ => rfl
  | .bool _, _ => rfl
  | .num _, _ => rfl
  | .str s, h => by simp [JVal.sanitize, sanitize_of_utf8Ok (by simpa [JVal.wf] using h)]
  | .arr xs, h => by simp [JVal.sanitize, JList.sanitize_of_wf xs (by simpa [JVal.wf] using h)]
  | .obj ms, h => by simp [JVal.sanitize, JMembers.sanitize_of_wf ms (by simpa [JVal.wf] using h)]
theorem JList.sanitize_of_wf : (xs : JList) → xs.wf = true → xs.sanitize = xs
  | .nil, _ => rfl
  | .cons v t, h => by
    simp only [JList.wf, Bool.and_eq_true] at h
    simp [JList.sanitize, JVal.sanitize_of_wf v h.1, JList.sanitize_of_wf t h.2]
theorem JMembers.sanitize_of_wf : (ms : JMembers) → ms.wf = true → ms.sanitize = ms
  | .nil, _ => rfl
  | .cons k v t, h => by
    simp only [JMembers.wf, Bool.and_eq_true] at h
    simp [JMembers.sanitize, sanitize_of_utf8Ok h.1.1, JVal.sanitize_of_wf v h.1.2,
      JMembers.sanitize_of_wf t h.2]
end

/-! ### the round trip -/

/-- General form: only the number literals need to be well-formed; invalid UTF-8 in strings and
    keys comes back as U+FFFD, exactly as `render` writes it. -/
theorem parseDoc_render_sanitize (v : JVal) (h : v.numsOk = true) (hd : v.depth ≤ maxDepth) :
    parseDoc (render v) = some v.sanitize := by
  have hp := parseValue_render v (2 * (render v).length + 4) 0 [] h
    (by have := JVal.fuel_le v h; omega) (by omega) rfl
  have hs := skipWs_render v h []
  simp only [List.append_nil] at hp hs
  simp [parseDoc, hs, hp, skipWs]

theorem parseValue_render_wf (v : JVal) (fuel d : Nat) (rest : Bytes) (h : v.wf = true)
    (hf : v.fuel ≤ fuel) (hd : d + v.depth ≤ maxDepth) (hs : numStop rest = true) :
    parseValue fuel d (render v ++ rest) = some (v, rest) := by
  rw [parseValue_render v fuel d rest (JVal.numsOk_of_wf v h) hf hd hs, JVal.sanitize_of_wf v h]

/-- The JSON round trip. -/
theorem parseDoc_render (v : JVal) (h : v.wf = true) (hd : v.depth ≤ maxDepth) :
    parseDoc (render v) = some v := by
  rw [parseDoc_render_sanitize v (JVal.numsOk_of_wf v h) hd, JVal.sanitize_of_wf v h]

/-! ### no NUL, no raw control byte -/

theorem numChar_ge {x : UInt8} (h : numChar x = true) : 32 ≤ x := by
  simp only [numChar, Bool.or_eq_true, decide_eq_true_eq] at h
  rcases h with ((((h | rfl) | rfl) | rfl) | rfl) | rfl
  · simp only [isDigit, Bool.and_eq_true, decide_eq_true_eq] at h
    exact UInt8.le_trans (by decide) h.1
  all_goals decide

mutual
theorem render_ge : (v : JVal) → v.numsOk = true → ∀ x ∈ render v, 32 ≤ x
  | .null, _ => by decide
  | .bool true, _ => by decide
  | .bool false, _ => by decide
  | .num lit, h => fun x hx =>
    numChar_ge (numLitOk_numChar (lit := lit) (by simpa [JVal.numsOk] using h) x hx)
  | .str s, _ => renderString_ge s
  | .arr xs, h => by
    intro x hx
    simp only [render, List.mem_cons, List.mem_append, List.not_mem_nil, or_false] at hx
    rcases hx with (rfl | hx) | rfl
    · decide
    · exact renderList_ge xs (by simpa [JVal.numsOk] using h) x hx
    · decide
  | .obj ms, h => by
    intro x hx
    simp only [render, List.mem_cons, List.mem_append, List.not_mem_nil, or_false] at hx
    rcases hx with (rfl | hx) | rfl
    · decide
    · exact renderMembers_ge ms (by simpa [JVal.numsOk] using h) x hx
    · decide
theorem renderList_ge : (xs : JList) → xs.numsOk = true → ∀ x ∈ renderList xs, 32 ≤ x
  | .nil, _ => by simp [renderList]
  | .cons v t, h => by
    simp only [JList.numsOk, Bool.and_eq_true] at h
    have ihv := render_ge v h.1
    have iht := renderList_ge t h.2
    cases t with
    | nil => simpa [renderList] using ihv
    | cons w t' =>
      intro x hx
      rw [renderList_cons_cons] at hx
      simp only [List.mem_cons, List.mem_append] at hx
      rcases hx with hx | rfl | hx
      · exact ihv x hx
      · decide
      · exact iht x hx
theorem renderMembers_ge : (ms : JMembers) → ms.numsOk = true → ∀ x ∈ renderMembers ms, 32 ≤ x
  | .nil, _ => by simp [renderMembers]
  | .cons k v t, h => by
    simp only [JMembers.numsOk, Bool.and_eq_true] at h
    have ihv := render_ge v h.1
    have iht := renderMembers_ge t h.2
    have ihk := renderString_ge k
    cases t with
    | nil =>
      intro x hx
      simp only [renderMembers, List.mem_cons, List.mem_append] at hx
      rcases hx with hx | rfl | hx
      · exact ihk x hx
      · decide
      · exact ihv x hx
    | cons k' w t' =>
      intro x hx
      rw [renderMembers_cons_cons] at hx
      simp only [List.mem_cons, List.mem_append] at hx
      rcases hx with (hx | rfl | hx) | rfl | hx
      · exact ihk x hx
      · decide
      · exact ihv x hx
      · decide
      · exact iht x hx
end

/-- `render` never emits a NUL byte (number literals well-formed; strings may be arbitrary). -/
theorem render_no_nul_of_numsOk (v : JVal) (h : v.numsOk = true) : (0 : UInt8) ∉ render v := by
  intro h0
  exact absurd (render_ge v h 0 h0) (by decide)

theorem render_no_nul (v : JVal) (h : v.wf = true) : (0 : UInt8) ∉ render v :=
  render_no_nul_of_numsOk v (JVal.numsOk_of_wf v h)

/-! ### an object renders as one syntactically valid JSON object -/

theorem render_obj_is_object (ms : JMembers) (h : (JVal.obj ms).wf = true)
    (hd : (JVal.obj ms).depth ≤ maxDepth) :
    (∃ tl, render (.obj ms) = 123 :: tl) ∧ parseDoc (render (.obj ms)) = some (.obj ms) :=
  ⟨⟨_, rfl⟩, parseDoc_render _ h hd⟩

theorem render_obj_is_object_sanitize (ms : JMembers) (h : (JVal.obj ms).numsOk = true)
    (hd : (JVal.obj ms).depth ≤ maxDepth) :
    (∃ tl, render (.obj ms) = 123 :: tl) ∧
      parseDoc (render (.obj ms)) = some (.obj ms.sanitize) :=
  ⟨⟨_, rfl⟩, by rw [parseDoc_render_sanitize _ h hd]; simp [JVal.sanitize]⟩

/-! ### non-vacuity: the hypotheses hold for non-trivial values -/

/-- `{"a<":[1.5e3,"é"],"b":{}}` -/
def exampleVal : JVal :=
  .obj (.cons [97, 60] (.arr (.cons (.num [49, 46, 53, 101, 51]) (.cons (.str [0xC3, 0xA9]) .nil)))
    (.cons [98] (.obj .nil) .nil))

example : exampleVal.wf = true ∧ exampleVal.depth ≤ maxDepth ∧ exampleVal.depth = 2 := by decide
example : parseDoc (render exampleVal) = some exampleVal := parseDoc_render _ (by decide) (by decide)
/-- a value that is `numsOk` but not `wf` (a lone continuation byte) round-trips to its sanitised form -/
example : (JVal.str [0x80]).numsOk = true ∧ (JVal.str [0x80]).wf = false ∧
    (JVal.str [0x80]).sanitize = .str [0xEF, 0xBF, 0xBD] := ⟨rfl, by decide, rfl⟩

end Varlink
