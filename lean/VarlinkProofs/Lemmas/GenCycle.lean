/-
  `noCycleOk` for the generator's view, first part: reachability by fuel-bounded expansion (`reachesAlias` of the
  domain, `reachesName` / `reachesAliasName` of the checker) as walks in a graph; a walk can be shortened to one
  without repeated nodes, so the fuel of the domain (`members.length`) decides reachability at every fuel
  (used by VarlinkProofs/Props/C07.lean).
-/
import VarlinkProofs.Lemmas.GenDecls
namespace Varlink.Gen
open Varlink Varlink.Idl

/-! ## the common shape of the three reachability functions -/

def expandG (step : Bytes → List Bytes) (ns : List Bytes) : List Bytes := ((ns.map step).flatten).eraseDups

def reachG (step : Bytes → List Bytes) (target : Bytes) : Nat → List Bytes → Bool
  | 0, ns => ns.contains target
  | fuel + 1, ns => ns.contains target || reachG step target fuel (expandG step ns)

def stepGo (decls : List Decl) (n : Bytes) : List Bytes :=
  match lookupType decls n with | some t => t.directNames | none => []

def stepAl (decls : List Decl) (n : Bytes) : List Bytes :=
  match lookupAliasDecl decls n with | some t => t.allNames | none => []

def stepIdl (ms : List Member) (n : Bytes) : List Bytes :=
  match lookupAlias ms n with | some ty => tyDirectRefs ty | none => []

theorem reachesName_eq (decls : List Decl) (target : Bytes) : ∀ (fuel : Nat) (ns : List Bytes),
    reachesName decls target fuel ns = reachG (stepGo decls) target fuel ns
  | 0, _ => rfl
  | fuel + 1, ns => by
    simp only [reachesName, reachG]
    rw [reachesName_eq decls target fuel]
    rfl

theorem reachesAliasName_eq (decls : List Decl) (target : Bytes) : ∀ (fuel : Nat) (ns : List Bytes),
    reachesAliasName decls target fuel ns = reachG (stepAl decls) target fuel ns
  | 0, _ => rfl
  | fuel + 1, ns => by
    simp only [reachesAliasName, reachG]
    rw [reachesAliasName_eq decls target fuel]
    rfl

theorem reachesAlias_eq (ms : List Member) (target : Bytes) : ∀ (fuel : Nat) (ns : List Bytes),
    reachesAlias ms target fuel ns = reachG (stepIdl ms) target fuel ns
  | 0, _ => rfl
  | fuel + 1, ns => by
    simp only [reachesAlias, reachG]
    rw [reachesAlias_eq ms target fuel]
    rfl

/-! ## walks -/

/-- a walk of `k` edges -/
inductive Walk (step : Bytes → List Bytes) : Nat → Bytes → Bytes → Prop
  | refl (x : Bytes) : Walk step 0 x x
  | cons {k : Nat} {x y z : Bytes} : y ∈ step x → Walk step k y z → Walk step (k + 1) x z

theorem mem_expandG {step : Bytes → List Bytes} {ns : List Bytes} {y : Bytes} :
    y ∈ expandG step ns ↔ ∃ x ∈ ns, y ∈ step x := by
  simp only [expandG, List.mem_eraseDups, List.mem_flatten, List.mem_map]
  constructor
  · rintro ⟨l, ⟨x, hx, rfl⟩, hy⟩; exact ⟨x, hx, hy⟩
  · rintro ⟨x, hx, hy⟩; exact ⟨_, ⟨x, hx, rfl⟩, hy⟩

theorem reachG_walk (step : Bytes → List Bytes) (t : Bytes) : ∀ (fuel : Nat) (ns : List Bytes),
    reachG step t fuel ns = true → ∃ x ∈ ns, ∃ k, Walk step k x t
  | 0, ns, h => by
    simp only [reachG] at h
    exact ⟨t, List.contains_iff_mem.mp h, 0, Walk.refl t⟩
  | fuel + 1, ns, h => by
    simp only [reachG, Bool.or_eq_true] at h
    rcases h with h | h
    · exact ⟨t, List.contains_iff_mem.mp h, 0, Walk.refl t⟩
    · obtain ⟨y, hy, k, hw⟩ := reachG_walk step t fuel _ h
      obtain ⟨x, hx, hxy⟩ := mem_expandG.mp hy
      exact ⟨x, hx, k + 1, Walk.cons hxy hw⟩

theorem walk_reachG (step : Bytes → List Bytes) (t : Bytes) : ∀ (fuel : Nat) (ns : List Bytes) (x : Bytes) (k : Nat),
    x ∈ ns → k ≤ fuel → Walk step k x t → reachG step t fuel ns = true
  | 0, ns, x, k, hx, hk, hw => by
    have : k = 0 := by omega
    subst this
    cases hw
    simpa [reachG] using hx
  | fuel + 1, ns, x, k, hx, hk, hw => by
    simp only [reachG, Bool.or_eq_true]
    cases hw with
    | refl => exact Or.inl (List.contains_iff_mem.mpr hx)
    | cons hxy hw' =>
      exact Or.inr (walk_reachG step t fuel _ _ _ (mem_expandG.mpr ⟨x, hx, hxy⟩) (by omega) hw')

theorem walk_snoc {step : Bytes → List Bytes} {k : Nat} {a b c : Bytes} (hw : Walk step k a b) (hc : c ∈ step b) :
    Walk step (k + 1) a c := by
  induction hw with
  | refl x => exact Walk.cons hc (Walk.refl c)
  | cons hxy _ ih => exact Walk.cons hxy (ih hc)

/-! ## walks with their nodes; removing loops -/

/-- a walk with the list of the nodes it leaves (every node but the last) -/
inductive WalkL (step : Bytes → List Bytes) : Bytes → List Bytes → Bytes → Prop
  | nil (x : Bytes) : WalkL step x [] x
  | cons {x y z : Bytes} {p : List Bytes} : y ∈ step x → WalkL step y p z → WalkL step x (x :: p) z

theorem walk_toL {step : Bytes → List Bytes} {k : Nat} {x z : Bytes} (h : Walk step k x z) :
    ∃ p, WalkL step x p z := by
  induction h with
  | refl x => exact ⟨[], WalkL.nil x⟩
  | cons hxy _ ih => obtain ⟨p, hp⟩ := ih; exact ⟨_, WalkL.cons hxy hp⟩

theorem walkL_toWalk {step : Bytes → List Bytes} {p : List Bytes} {x z : Bytes} (h : WalkL step x p z) :
    Walk step p.length x z := by
  induction h with
  | nil x => exact Walk.refl x
  | cons hxy _ ih => exact Walk.cons hxy ih

theorem walkL_sources {step : Bytes → List Bytes} {p : List Bytes} {x z : Bytes} (h : WalkL step x p z) :
    ∀ a ∈ p, step a ≠ [] := by
  induction h with
  | nil x => intro a ha; simp at ha
  | cons hxy _ ih =>
    intro a ha
    rcases List.mem_cons.mp ha with rfl | ha
    · intro e; rw [e] at hxy; simp at hxy
    · exact ih a ha

/-- the rest of a walk from a node it leaves -/
theorem walkL_suffix {step : Bytes → List Bytes} {p : List Bytes} {y z a : Bytes} (h : WalkL step y p z)
    (ha : a ∈ p) : ∃ q, WalkL step a q z ∧ q.Sublist p := by
  induction h with
  | nil x => simp at ha
  | @cons x y' z' p' hxy hw ih =>
    rcases List.mem_cons.mp ha with rfl | ha'
    · exact ⟨_, WalkL.cons hxy hw, List.Sublist.refl _⟩
    · obtain ⟨q, hq, hs⟩ := ih ha'
      exact ⟨q, hq, hs.trans (List.sublist_cons_self _ _)⟩

/-- every walk contains one that leaves no node twice -/
theorem walkL_simple {step : Bytes → List Bytes} {p : List Bytes} {x z : Bytes} (h : WalkL step x p z) :
    ∃ q, WalkL step x q z ∧ q.Nodup := by
  induction h with
  | nil x => exact ⟨[], WalkL.nil x, List.nodup_nil⟩
  | @cons x y z' p' hxy _ ih =>
    obtain ⟨q, hq, hn⟩ := ih
    by_cases hx : x ∈ q
    · obtain ⟨q', hq', hs⟩ := walkL_suffix hq hx
      exact ⟨q', hq', hn.sublist hs⟩
    · exact ⟨x :: q, WalkL.cons hxy hq, List.nodup_cons.mpr ⟨hx, hn⟩⟩

/-- when all nodes with a successor are among `V`, what is reachable is reachable within `V.length` steps -/
theorem walk_bounded {step : Bytes → List Bytes} (V : List Bytes) (hV : ∀ a, step a ≠ [] → a ∈ V)
    {k : Nat} {x z : Bytes} (h : Walk step k x z) : ∃ k', k' ≤ V.length ∧ Walk step k' x z := by
  obtain ⟨p, hp⟩ := walk_toL h
  obtain ⟨q, hq, hn⟩ := walkL_simple hp
  refine ⟨q.length, ?_, walkL_toWalk hq⟩
  exact hn.length_le_of_subset (fun a ha => hV a (walkL_sources hq a ha))

/-! ## the domain: no walk from the direct references of a `type` member back to it -/

theorem lookupAlias_name : ∀ (ms : List Member) (n : Bytes) (ty : Ty), lookupAlias ms n = some ty →
    n ∈ ms.map Member.name
  | [], _, _, h => by simp [lookupAlias] at h
  | m :: r, n, ty, h => by
    cases m with
    | alias a d t =>
      simp only [lookupAlias] at h
      split at h
      · rename_i e; subst e; simp [Member.name]
      · simp [lookupAlias_name r n ty h]
    | method a d i o => simp only [lookupAlias] at h; simp [lookupAlias_name r n ty h]
    | error a d o => simp only [lookupAlias] at h; simp [lookupAlias_name r n ty h]

theorem stepIdl_sources (ms : List Member) (a : Bytes) (h : stepIdl ms a ≠ []) : a ∈ ms.map Member.name := by
  simp only [stepIdl] at h
  split at h
  · rename_i ty e; exact lookupAlias_name ms a ty e
  · exact absurd rfl h

/-- **what `noDirectRecursion` means**: no walk, of whatever length -/
theorem noWalk_of_domain (t : Idl) (h : noDirectRecursion t = true) (n d : Bytes) (ty : Ty)
    (hm : Member.alias n d ty ∈ t.members) (x : Bytes) (hx : x ∈ tyDirectRefs ty) (k : Nat) :
    ¬ Walk (stepIdl t.members) k x n := by
  intro hw
  obtain ⟨k', hk', hw'⟩ := walk_bounded (t.members.map Member.name) (stepIdl_sources t.members) hw
  simp only [noDirectRecursion, List.all_eq_true] at h
  have := h _ hm
  simp only [Bool.not_eq_true'] at this
  rw [reachesAlias_eq, walk_reachG _ _ _ _ x k' hx (by simpa using hk') hw'] at this
  exact absurd this (by simp)

end Varlink.Gen
