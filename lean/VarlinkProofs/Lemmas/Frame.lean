import Varlink.Frame
namespace Varlink

/-! Lemmas about `cutAt`, `netRead`, `readBytes` -/

theorem cutAt_append_left {d : UInt8} {a pre post : Bytes} (b : Bytes)
    (h : cutAt d a = some (pre, post)) : cutAt d (a ++ b) = some (pre, post ++ b) := by
  induction a generalizing pre post with
  | nil => simp [cutAt] at h
  | cons x xs ih =>
    simp only [List.cons_append, cutAt] at h ⊢
    by_cases hx : x = d
    · simp [hx] at h ⊢; obtain ⟨rfl, rfl⟩ := h; simp
    · simp only [hx, if_false] at h ⊢
      cases hc : cutAt d xs with
      | none => simp [hc] at h
      | some pq =>
        obtain ⟨p, q⟩ := pq
        simp [hc] at h
        obtain ⟨rfl, rfl⟩ := h
        simp [ih hc]

theorem cutAt_none_iff (d : UInt8) (a : Bytes) : cutAt d a = none ↔ d ∉ a := by
  induction a with
  | nil => simp [cutAt]
  | cons x xs ih =>
    simp only [cutAt]
    by_cases hx : x = d
    · simp [hx]
    · simp only [hx, if_false, Option.map_eq_none_iff, ih, List.mem_cons, not_or]
      exact ⟨fun h => ⟨fun e => hx e.symm, h⟩, fun h => h.2⟩

theorem cutAt_append_none {d : UInt8} {a : Bytes} (b : Bytes) (h : cutAt d a = none) :
    cutAt d (a ++ b) = (cutAt d b).map fun (p, q) => (a ++ p, q) := by
  induction a with
  | nil => simp
  | cons x xs ih =>
    simp only [cutAt] at h
    by_cases hx : x = d
    · simp [hx] at h
    · simp only [hx, if_false, Option.map_eq_none_iff] at h
      simp only [List.cons_append, cutAt, hx, if_false, ih h]
      cases cutAt d b <;> simp

theorem cutAt_spec {d : UInt8} {a pre post : Bytes} (h : cutAt d a = some (pre, post)) :
    a = pre ++ d :: post ∧ d ∉ pre := by
  induction a generalizing pre post with
  | nil => simp [cutAt] at h
  | cons x xs ih =>
    simp only [cutAt] at h
    by_cases hx : x = d
    · simp [hx] at h; obtain ⟨rfl, rfl⟩ := h; simp [hx]
    · simp only [hx, if_false] at h
      cases hc : cutAt d xs with
      | none => simp [hc] at h
      | some pq =>
        obtain ⟨p, q⟩ := pq
        simp [hc] at h
        obtain ⟨rfl, rfl⟩ := h
        have := ih hc
        refine ⟨by simp [this.1], ?_⟩
        simp only [List.mem_cons, not_or]
        exact ⟨fun e => hx e.symm, this.2⟩

theorem cutAt_of_split (d : UInt8) (pre post : Bytes) (h : d ∉ pre) :
    cutAt d (pre ++ d :: post) = some (pre, post) := by
  induction pre with
  | nil => simp [cutAt]
  | cons x xs ih =>
    simp only [List.mem_cons, not_or] at h
    have hx : ¬ x = d := fun e => h.1 e.symm
    simp [cutAt, hx, ih h.2]

theorem netRead_none {room : Nat} {net : Net} (h : netRead room net = none) : net.flatten = [] := by
  induction net with
  | nil => rfl
  | cons seg rest ih =>
    simp only [netRead] at h
    by_cases he : seg.isEmpty
    · simp only [he, if_true] at h
      have : seg = [] := by simpa using he
      simp [this, ih h]
    · simp [he] at h

theorem netRead_some {room : Nat} (hr : room > 0) {net net' : Net} {a : Bytes}
    (h : netRead room net = some (a, net')) :
    a ++ net'.flatten = net.flatten ∧ a ≠ [] ∧ a.length ≤ room ∧
    netSize net' + a.length = netSize net := by
  induction net with
  | nil => simp [netRead] at h
  | cons seg rest ih =>
    simp only [netRead] at h
    by_cases he : seg.isEmpty
    · simp only [he, if_true] at h
      have hs : seg = [] := by simpa using he
      have := ih h
      simp [hs, netSize] at this ⊢
      exact this
    · simp only [he] at h
      have hne : seg ≠ [] := by simpa using he
      have hlenpos : seg.length ≥ 1 := by
        cases seg with
        | nil => exact absurd rfl hne
        | cons _ _ => simp
      by_cases hle : seg.length ≤ room
      · have hdrop : seg.drop room = [] := by simp [hle]
        have htake : seg.take room = seg := List.take_of_length_le hle
        simp [hdrop, htake] at h
        obtain ⟨rfl, rfl⟩ := h
        refine ⟨rfl, hne, hle, ?_⟩
        simp [netSize]; omega
      · have hdrop : ¬ (seg.drop room).isEmpty := by simp; omega
        simp [hdrop] at h
        obtain ⟨rfl, rfl⟩ := h
        refine ⟨?_, ?_, ?_, ?_⟩
        · simp; rw [← List.append_assoc, List.take_append_drop]
        · intro h0
          have : (seg.take room).length = 0 := by rw [h0]; rfl
          rw [List.length_take] at this; omega
        · rw [List.length_take]; omega
        · simp [netSize]; omega

/-- the whole stream still to be delivered -/
def pending (b : Bufio) (net : Net) : Bytes := b.buf ++ net.flatten

/-- **Main lemma**: with enough fuel, `readBytes` returns the bytes up to and including the first
    delimiter of the pending stream, however the stream is segmented and whatever the buffer
    capacity; without a delimiter it reports EOF with everything read. -/
theorem readBytes_spec (cap : Nat) (hcap : cap > 0) (d : UInt8) :
    ∀ (fuel : Nat) (acc : Bytes) (b : Bufio) (net : Net),
      fuel ≥ 2 * netSize net + b.buf.length + 1 →
      (∀ pre post, cutAt d (pending b net) = some (pre, post) →
        ∃ b' net', readBytes cap d fuel acc b net = (.ok (acc ++ pre ++ [d]), b', net') ∧
          pending b' net' = post) ∧
      (cutAt d (pending b net) = none →
        readBytes cap d fuel acc b net = (.eof (acc ++ pending b net), { buf := [] }, [])) := by
  intro fuel
  induction fuel with
  | zero => intro acc b net h; omega
  | succ fuel ih =>
    intro acc b net hfuel
    simp only [readBytes]
    cases hc : cutAt d b.buf with
    | some pq =>
      obtain ⟨p, q⟩ := pq
      have hfull := cutAt_append_left (net.flatten) hc
      constructor
      · intro pre post h
        simp only [pending] at h
        rw [hfull] at h
        simp at h
        obtain ⟨rfl, rfl⟩ := h
        exact ⟨{ buf := q }, net, rfl, rfl⟩
      · intro h
        simp only [pending] at h
        rw [hfull] at h
        cases h
    | none =>
      simp only []
      by_cases hfullb : b.buf.length ≥ cap
      · simp only [hfullb, if_true]
        have hlen : b.buf.length ≥ 1 := by omega
        have := ih (acc ++ b.buf) { buf := [] } net (by simp; omega)
        simp only [pending, List.nil_append] at this
        have hp : cutAt d (pending b net) = (cutAt d net.flatten).map fun (p, q) => (b.buf ++ p, q) :=
          cutAt_append_none _ hc
        constructor
        · intro pre post h
          rw [hp] at h
          cases hn : cutAt d net.flatten with
          | none => simp [hn] at h
          | some pq =>
            obtain ⟨p, q⟩ := pq
            simp [hn] at h
            obtain ⟨rfl, rfl⟩ := h
            obtain ⟨b', net', h1, h2⟩ := this.1 p q hn
            exact ⟨b', net', by simpa [List.append_assoc] using h1, h2⟩
        · intro h
          rw [hp] at h
          have hn : cutAt d net.flatten = none := by
            cases hx : cutAt d net.flatten <;> simp [hx] at h ⊢
          rw [this.2 hn]
          simp [pending, List.append_assoc]
      · simp only [hfullb, if_false]
        have hroom : cap - b.buf.length > 0 := by omega
        cases hr : netRead (cap - b.buf.length) net with
        | none =>
          have hnf := netRead_none hr
          simp only [pending, hnf, List.append_nil]
          constructor
          · intro pre post h; rw [hc] at h; cases h
          · intro _; trivial
        | some an =>
          obtain ⟨a, net'⟩ := an
          obtain ⟨hflat, hne, hle, hsize⟩ := netRead_some hroom hr
          have hpos : a.length ≥ 1 := by
            cases a with
            | nil => exact absurd rfl hne
            | cons _ _ => simp
          have := ih acc { buf := b.buf ++ a } net' (by simp; omega)
          have hpend : pending { buf := b.buf ++ a } net' = pending b net := by
            simp [pending, List.append_assoc, hflat]
          rw [hpend] at this
          exact this

/-- the fuel supplied by `readFuel` is always enough -/
theorem readFuel_enough (b : Bufio) (net : Net) : readFuel b net ≥ 2 * netSize net + b.buf.length + 1 := by
  simp [readFuel]; omega

end Varlink
