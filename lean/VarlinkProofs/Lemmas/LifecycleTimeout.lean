/-
  Lemmas for C15: without a timeout nothing ever arms a deadline and serving never stops by itself (under the
  `Serial` discipline only); at most one open listener per address, so closing the served listener frees the
  address; plus Boolean deciders of the `Serial` / `Orderly` disciplines for concrete traces (non-vacuity and
  necessity examples).
-/
import VarlinkProofs.Lemmas.LifecycleMain
namespace Varlink.Life

/-- no call has a timeout: nobody is about to arm a deadline and none is armed -/
structure NoTmo (w : World) : Prop where
  calls : ∀ (k : Nat) (c : Call), w.calls[k]? = some c → c.tmo = false ∧ c.pc ≠ .refresh
  lsnrs : ∀ (l : Nat) (x : Lsnr), w.lsnrs[l]? = some x → x.armed = false

theorem forall_set {α} {P : α → Prop} {l : List α} {j : Nat} {a : α} (h : ∀ (k : Nat) (c : α), l[k]? = some c → P c)
    (ha : P a) : ∀ (k : Nat) (c : α), (l.set j a)[k]? = some c → P c := by
  intro k c hk
  rw [List.getElem?_set] at hk
  by_cases hjk : j = k
  · simp only [hjk, if_true] at hk
    split at hk
    · simp only [Option.some.injEq] at hk; subst hk; exact ha
    · cases hk
  · simp only [hjk, if_false] at hk; exact h k c hk

theorem forall_append {α} {P : α → Prop} {l : List α} {a : α} (h : ∀ (k : Nat) (c : α), l[k]? = some c → P c)
    (ha : P a) : ∀ (k : Nat) (c : α), (l ++ [a])[k]? = some c → P c := by
  intro k c hk
  rw [List.getElem?_append] at hk
  split at hk
  · exact h k c hk
  · cases hh : k - l.length with
    | zero => simp only [hh, List.getElem?_cons_zero, Option.some.injEq] at hk; subst hk; exact ha
    | succ n => simp [hh] at hk

theorem forall_modify {α} {P : α → Prop} {l : List α} {j : Nat} {f : α → α} (h : ∀ (k : Nat) (c : α), l[k]? = some c → P c)
    (hf : ∀ c, P c → P (f c)) : ∀ (k : Nat) (c : α), (l.modify j f)[k]? = some c → P c := by
  intro k c hk
  rw [List.getElem?_modify] at hk
  cases hl : l[k]? with
  | none => simp [hl] at hk
  | some c0 =>
    rw [hl] at hk
    have hk2 : (if j = k then f c0 else c0) = c := by simpa using hk
    rw [← hk2]
    split
    · exact hf _ (h k c0 hl)
    · exact h k c0 hl

theorem noTmo_step {w w' : World} {a : Label} (h : NoTmo w) (hrel : Rel w a w')
    (hsp : ∀ kind tmo addr, a = .spawn kind tmo addr → tmo = false) : NoTmo w' := by
  obtain ⟨hc, hls⟩ := h
  cases hrel
  case spawn kind tmo addr =>
    refine ⟨forall_append hc ⟨hsp _ _ _ rfl, by cases kind <;> simp [firstPc]⟩, hls⟩
  case bindRefused k c hk hpc hr =>
    exact ⟨forall_set hc ⟨(hc k c hk).1, by simp⟩, hls⟩
  case bindParseBad k c hk hpc hr ha =>
    exact ⟨forall_set hc ⟨(hc k c hk).1, by simp⟩, hls⟩
  case bindBusy k c a hk hpc hr ha hu =>
    exact ⟨forall_set hc ⟨(hc k c hk).1, by simp⟩, hls⟩
  case bindOk k c a hk hpc hr ha hu hkd =>
    exact ⟨forall_set hc ⟨(hc k c hk).1, by simp⟩, forall_append hls rfl⟩
  case listenOk k c a hk hpc hr ha hu hkd =>
    exact ⟨forall_set hc ⟨(hc k c hk).1, by simp⟩, forall_append hls rfl⟩
  case readNone k c hk hpc hl =>
    exact ⟨forall_set hc ⟨(hc k c hk).1, by simp⟩, hls⟩
  case readSome k c l hk hpc hl =>
    exact ⟨forall_set hc ⟨(hc k c hk).1, by simp⟩, hls⟩
  case loopGo k c hk hpc hr =>
    refine ⟨forall_set hc ⟨(hc k c hk).1, ?_⟩, hls⟩
    simp [(hc k c hk).1]
  case loopStop k c hk hpc hr =>
    exact ⟨forall_set hc ⟨(hc k c hk).1, by simp⟩, hls⟩
  case refreshNil k c hk hpc hl =>
    exact absurd hpc (hc k c hk).2
  case refreshOk k c f hk hpc hl ho =>
    exact absurd hpc (hc k c hk).2
  case refreshClosed k c f hk hpc hl ho =>
    exact absurd hpc (hc k c hk).2
  case acceptNil k c hk hpc hl =>
    exact ⟨forall_set hc ⟨(hc k c hk).1, by simp⟩, hls⟩
  case acceptConn k c l i hk hpc hl ho hf =>
    exact ⟨forall_set hc ⟨(hc k c hk).1, by simp⟩, hls⟩
  case acceptClosed k c l hk hpc hl ho =>
    exact ⟨forall_set hc ⟨(hc k c hk).1, by simp⟩, hls⟩
  case count k c hk hpc =>
    exact ⟨forall_set hc ⟨(hc k c hk).1, by simp⟩, hls⟩
  case startHandler k c hk hpc =>
    exact ⟨forall_set hc ⟨(hc k c hk).1, by simp⟩, hls⟩
  case timeoutIdle k c hk hpc h0 =>
    exact ⟨forall_set hc ⟨(hc k c hk).1, by simp⟩, hls⟩
  case timeoutBusy k c hk hpc h0 =>
    exact ⟨forall_set hc ⟨(hc k c hk).1, by simp⟩, hls⟩
  case errRunning k c hk hpc hr =>
    exact ⟨forall_set hc ⟨(hc k c hk).1, by simp⟩, hls⟩
  case errStopped k c hk hpc hr =>
    exact ⟨forall_set hc ⟨(hc k c hk).1, by simp⟩, hls⟩
  case teardown k c hk hpc =>
    refine ⟨?_, ?_⟩
    · simp only [setCall_calls, teardownShared_calls]
      exact forall_set hc ⟨(hc k c hk).1, by simp⟩
    · simp only [setCall_lsnrs, teardownShared]
      cases w.lst with
      | none => exact hls
      | some f => exact forall_modify hls (fun x hx => hx)
  case waitDone k c hk hpc hwg =>
    exact ⟨forall_set hc ⟨(hc k c hk).1, by simp⟩, hls⟩
  case expire k c l hk hpc hl ho harm =>
    exact ⟨forall_set hc ⟨(hc k c hk).1, by simp⟩, hls⟩
  case shutdown =>
    refine ⟨by rw [stepShutdown_calls]; exact hc, ?_⟩
    simp only [stepShutdown]
    cases w.lst with
    | none => exact hls
    | some f => exact forall_modify hls (fun x hx => hx)
  case wgDone i x co hi hp hco hwg =>
    exact ⟨forall_set hc (hc _ co hco), hls⟩
  case ctxCancel k c hk => exact ⟨forall_set hc (hc k c hk), hls⟩
  all_goals exact ⟨hc, hls⟩

def goodRet (c : Call) : Prop :=
  c.ret = none ∨ c.ret = some .errRunning ∨ c.ret = some .errParse ∨ c.ret = some .errListen ∨
    c.ret = some .errNoListener ∨ (c.kind = .bind ∧ c.ret = some .nil)

/-- facts about a call while nobody shuts the service down and nobody uses a timeout -/
structure ServingC (w : World) (c : Call) : Prop where
  loop : loopPc c.pc = true → w.running = true ∧ c.pc ≠ .errOther ∧ c.pc ≠ .errTimeout ∧
    ∃ l, c.l = some l ∧ isOpen w l = true
  ret : goodRet c

structure Serving (w : World) : Prop where
  lstOpen : ∀ l, w.lst = some l → isOpen w l = true
  call : ∀ (k : Nat) (c : Call), w.calls[k]? = some c → ServingC w c

theorem isOpen_append (w : World) (x : Lsnr) (l : Nat) (h : isOpen w l = true) :
    isOpen { w with lsnrs := w.lsnrs ++ [x] } l = true := by
  simp only [isOpen] at h ⊢
  cases hl : w.lsnrs[l]? with
  | none => simp [hl] at h
  | some y =>
    rw [List.getElem?_append_left (lt_of_getElem? hl), hl]
    simpa [hl] using h


theorem isOpen_setDeadlineL (w : World) (f : Nat) (b : Bool) (l : Nat) : isOpen (setDeadlineL w f b) l = isOpen w l := by
  simp only [isOpen, setDeadlineL, List.getElem?_modify]
  cases w.lsnrs[l]? with
  | none => rfl
  | some x => by_cases h : f = l <;> simp [h]

theorem active_of_loopPc {c : Call} (h : loopPc c.pc = true) : c.active = true := by
  cases hp : c.pc <;> simp [hp, loopPc] at h <;> simp [Call.active, hp]

theorem ServingC.of_eq {w w' : World} {c : Call} (h : ServingC w c) (hr : w'.running = w.running)
    (hl : w'.lsnrs = w.lsnrs) : ServingC w' c := by
  obtain ⟨s2, s3⟩ := h
  refine ⟨fun hp => ?_, s3⟩
  obtain ⟨r1, r2, r3, l, h1, h2⟩ := s2 hp
  exact ⟨by rw [hr]; exact r1, r2, r3, l, h1, by simpa [isOpen, hl] using h2⟩

theorem Serving.setCall {w w' : World} (h : Serving w) (ho : One w) {k : Nat} {c c' : Call} (hk : w.calls[k]? = some c)
    (hcalls : w'.calls = w.calls.set k c')
    (hlst : ∀ l, w'.lst = some l → isOpen w' l = true)
    (hother : ((w.running = true → w'.running = true) ∧ ∀ l, isOpen w l = true → isOpen w' l = true) ∨ c.active = true)
    (hown : ServingC w' c') : Serving w' := by
  refine ⟨hlst, ?_⟩
  intro j cj hj
  rw [hcalls, List.getElem?_set] at hj
  by_cases hkj : k = j
  · subst hkj
    simp only [lt_of_getElem? hk, if_true, Option.some.injEq] at hj
    subst hj; exact hown
  · simp only [hkj, if_false] at hj
    obtain ⟨s2, s3⟩ := h.call j cj hj
    rcases hother with ⟨hr, hop⟩ | hact
    · refine ⟨fun hp => ?_, s3⟩
      obtain ⟨r1, r2, r3, l, h1, h2⟩ := s2 hp
      exact ⟨hr r1, r2, r3, l, h1, hop l h2⟩
    · have hina : ¬ (loopPc cj.pc = true) := by
        intro hp
        exact hkj (ho _ _ _ _ hk hj hact (active_of_loopPc hp))
      exact ⟨fun hp => absurd hp hina, s3⟩

theorem Serving.sameCalls {w w' : World} (h : Serving w) (hc : w'.calls = w.calls) (hr : w'.running = w.running)
    (hl : w'.lst = w.lst) (hop : ∀ l, isOpen w l = true → isOpen w' l = true) : Serving w' := by
  refine ⟨fun l hl' => hop l (h.lstOpen l (by rw [← hl]; exact hl')), ?_⟩
  intro j cj hj
  rw [hc] at hj
  obtain ⟨s2, s3⟩ := h.call j cj hj
  refine ⟨fun hp => ?_, s3⟩
  obtain ⟨r1, r2, r3, l, h1, h2⟩ := s2 hp
  exact ⟨by rw [hr]; exact r1, r2, r3, l, h1, hop l h2⟩


theorem serving_step {w w' : World} {a : Label} (h : Serving w) (hone : One w) (hn : NoTmo w) (hrel : Rel w a w')
    (hns : a ≠ .shutdown) : Serving w' := by
  have keepOpen : ∀ l, isOpen w l = true → isOpen w l = true := fun _ h => h
  cases hrel
  case spawn kind tmo addr =>
    refine ⟨h.lstOpen, ?_⟩
    intro j cj hj
    simp only [] at hj
    rw [List.getElem?_append] at hj
    split at hj
    · exact (h.call j cj hj).of_eq rfl rfl
    · cases hh : j - w.calls.length with
      | zero =>
        simp only [hh, List.getElem?_cons_zero, Option.some.injEq] at hj; subst hj
        exact ⟨fun hp => (by cases kind <;> simp [firstPc, loopPc] at hp), Or.inl rfl⟩
      | succ n => simp [hh] at hj
  case shutdown => exact absurd rfl hns
  case bindRefused k c hk hpc hr =>
    exact h.setCall hone hk rfl h.lstOpen (Or.inl ⟨id, keepOpen⟩)
      ⟨fun hp => (by simp [loopPc] at hp), Or.inr (Or.inl rfl)⟩
  case bindParseBad k c hk hpc hr ha =>
    exact h.setCall hone hk rfl h.lstOpen (Or.inl ⟨id, keepOpen⟩)
      ⟨fun hp => (by simp [loopPc] at hp), Or.inr (Or.inr (Or.inl rfl))⟩
  case bindBusy k c a hk hpc hr ha hu =>
    exact h.setCall hone hk rfl h.lstOpen (Or.inl ⟨id, keepOpen⟩)
      ⟨fun hp => (by simp [loopPc] at hp), Or.inr (Or.inr (Or.inr (Or.inl rfl)))⟩
  case bindOk k c a hk hpc hr ha hu hkd =>
    refine h.setCall hone hk rfl (fun l hl => ?_) (Or.inl ⟨id, fun l hl => isOpen_append w _ l hl⟩)
      ⟨fun hp => (by simp [loopPc] at hp), Or.inr (Or.inr (Or.inr (Or.inr (Or.inr ⟨hkd, rfl⟩))))⟩
    simp only [setCall_lst, bound_lst, Option.some.injEq] at hl; subst hl
    simp [isOpen]
  case listenOk k c a hk hpc hr ha hu hkd =>
    obtain ⟨s1, s3⟩ := h.call k c hk
    refine h.setCall hone hk rfl (fun l hl => ?_) (Or.inl ⟨fun _ => rfl, fun l hl => isOpen_append w _ l hl⟩)
      ⟨fun _ => ⟨rfl, (by simp), (by simp), w.lsnrs.length, rfl, ?_⟩, s3⟩
    · have hl2 : some w.lsnrs.length = some l := hl
      simp only [Option.some.injEq] at hl2; subst hl2
      simp [isOpen]
    · simp [isOpen]
  case readNone k c hk hpc hl =>
    exact h.setCall hone hk rfl h.lstOpen (Or.inl ⟨id, keepOpen⟩)
      ⟨fun hp => (by simp [loopPc] at hp), Or.inr (Or.inr (Or.inr (Or.inr (Or.inl rfl))))⟩
  case readSome k c l hk hpc hl =>
    obtain ⟨s1, s3⟩ := h.call k c hk
    exact h.setCall hone hk rfl h.lstOpen (Or.inl ⟨fun _ => rfl, keepOpen⟩)
      ⟨fun _ => ⟨rfl, (by simp), (by simp), l, rfl, h.lstOpen l hl⟩, s3⟩
  case loopGo k c hk hpc hr =>
    obtain ⟨s1, s3⟩ := h.call k c hk
    have s2 := s1 (by simp [hpc, loopPc])
    have htm := (hn.calls k c hk).1
    exact h.setCall hone hk rfl h.lstOpen (Or.inl ⟨id, keepOpen⟩)
      ⟨fun _ => ⟨s2.1, (by simp [htm]), (by simp [htm]), s2.2.2.2⟩, s3⟩
  case loopStop k c hk hpc hr =>
    have := ((h.call k c hk).loop (by simp [hpc, loopPc])).1
    rw [hr] at this; cases this
  case refreshNil k c hk hpc hl =>
    exact absurd hpc (hn.calls k c hk).2
  case refreshOk k c f hk hpc hl ho =>
    exact absurd hpc (hn.calls k c hk).2
  case refreshClosed k c f hk hpc hl ho =>
    exact absurd hpc (hn.calls k c hk).2
  case acceptNil k c hk hpc hl =>
    obtain ⟨l, hl', _⟩ := ((h.call k c hk).loop (by simp [hpc, loopPc])).2.2.2
    rw [hl] at hl'; cases hl'
  case acceptConn k c l i hk hpc hl ho hf =>
    obtain ⟨s1, s3⟩ := h.call k c hk
    have s2 := s1 (by simp [hpc, loopPc])
    exact h.setCall hone hk rfl h.lstOpen (Or.inl ⟨id, keepOpen⟩) ⟨fun _ => ⟨s2.1, (by simp), (by simp), s2.2.2.2⟩, s3⟩
  case acceptClosed k c l hk hpc hl ho =>
    obtain ⟨l', hl', ho'⟩ := ((h.call k c hk).loop (by simp [hpc, loopPc])).2.2.2
    rw [hl] at hl'; cases hl'; rw [ho] at ho'; cases ho'
  case count k c hk hpc =>
    obtain ⟨s1, s3⟩ := h.call k c hk
    have s2 := s1 (by simp [hpc, loopPc])
    exact h.setCall hone hk rfl h.lstOpen (Or.inl ⟨id, keepOpen⟩) ⟨fun _ => ⟨s2.1, (by simp), (by simp), s2.2.2.2⟩, s3⟩
  case startHandler k c hk hpc =>
    obtain ⟨s1, s3⟩ := h.call k c hk
    have s2 := s1 (by simp [hpc, loopPc])
    exact h.setCall hone hk rfl h.lstOpen (Or.inl ⟨id, keepOpen⟩) ⟨fun _ => ⟨s2.1, (by simp), (by simp), s2.2.2.2⟩, s3⟩
  case timeoutIdle k c hk hpc h0 =>
    exact absurd hpc ((h.call k c hk).loop (by simp [hpc, loopPc])).2.2.1
  case timeoutBusy k c hk hpc h0 =>
    exact absurd hpc ((h.call k c hk).loop (by simp [hpc, loopPc])).2.2.1
  case errRunning k c hk hpc hr =>
    exact absurd hpc ((h.call k c hk).loop (by simp [hpc, loopPc])).2.1
  case errStopped k c hk hpc hr =>
    exact absurd hpc ((h.call k c hk).loop (by simp [hpc, loopPc])).2.1
  case teardown k c hk hpc =>
    obtain ⟨s1, s3⟩ := h.call k c hk
    exact h.setCall (c' := { c with pc := .waiting }) hone hk (by simp only [setCall_calls, teardownShared_calls])
      (fun l hl => by simp at hl) (Or.inr (by simp [Call.active, hpc]))
      ⟨fun hp => (by simp [loopPc] at hp), s3⟩
  case waitDone k c hk hpc hwg =>
    obtain ⟨s1, s3⟩ := h.call k c hk
    exact h.setCall hone hk rfl h.lstOpen (Or.inl ⟨id, keepOpen⟩)
      ⟨fun hp => (by simp [loopPc] at hp), s3⟩
  case expire k c l hk hpc hl ho harm =>
    exfalso
    simp only [isArmed] at harm
    cases hx : w.lsnrs[l]? with
    | none => simp [hx] at harm
    | some x => rw [hx] at harm; simp only [] at harm; rw [hn.lsnrs l x hx] at harm; cases harm
  case wgDone i x co hi hp hco hwg =>
    obtain ⟨s2, s3⟩ := h.call _ co hco
    exact h.setCall hone hco rfl h.lstOpen (Or.inl ⟨id, keepOpen⟩) ⟨s2, s3⟩
  case ctxCancel k c hk =>
    obtain ⟨s2, s3⟩ := h.call k c hk
    exact h.setCall hone hk rfl h.lstOpen (Or.inl ⟨id, keepOpen⟩) ⟨s2, s3⟩
  all_goals exact h.sameCalls rfl rfl rfl keepOpen


/-! ### one open listener per address -/

def UniqueOpen (w : World) : Prop :=
  ∀ (l l' : Nat) (x x' : Lsnr), w.lsnrs[l]? = some x → w.lsnrs[l']? = some x' → x.isOpen = true → x'.isOpen = true →
    x.addr = x'.addr → l = l'

theorem addrInUse_false_iff {w : World} {a : Nat} :
    addrInUse w a = false ↔ ∀ (l : Nat) (x : Lsnr), w.lsnrs[l]? = some x → x.isOpen = true → x.addr ≠ a := by
  simp only [addrInUse]
  constructor
  · intro h l x hx ho ha
    have hmem : x ∈ w.lsnrs := List.mem_of_getElem? hx
    have := List.any_eq_false.mp h x hmem
    simp [ho, ha] at this
  · intro h
    apply List.any_eq_false.mpr
    intro x hx
    obtain ⟨l, hl⟩ := List.getElem?_of_mem hx
    cases ho : x.isOpen with
    | false => simp
    | true => simpa [ho] using h l x hl ho

/-- where a listener of the new state comes from -/
theorem lsnr_back {w w' : World} {a : Label} (h : Rel w a w') {l : Nat} {x' : Lsnr} (hx' : w'.lsnrs[l]? = some x') :
    (∃ x, w.lsnrs[l]? = some x ∧ x'.addr = x.addr ∧ (x'.isOpen = true → x.isOpen = true)) ∨
    (l = w.lsnrs.length ∧ addrInUse w x'.addr = false) := by
  cases hx : w.lsnrs[l]? with
  | some x =>
    obtain ⟨x'', h1, h2, h3, _⟩ := lsnr_mono h hx
    rw [hx'] at h1; simp only [Option.some.injEq] at h1; subst h1
    exact Or.inl ⟨x, rfl, h2, h3⟩
  | none =>
    right
    have hge : w.lsnrs.length ≤ l := by
      rcases Nat.lt_or_ge l w.lsnrs.length with h' | h'
      · simp [h'] at hx
      · exact h'
    have hlt := lt_of_getElem? hx'
    cases h
    case bindOk k c a0 hk hpc hr ha hu hkd =>
      simp only [setCall_lsnrs, bound_lsnrs] at hx' hlt
      rw [List.getElem?_append_right hge] at hx'
      cases hh : l - w.lsnrs.length with
      | zero =>
        simp only [hh, List.getElem?_cons_zero, Option.some.injEq] at hx'; subst hx'
        exact ⟨by omega, hu⟩
      | succ n => simp [hh] at hx'
    case listenOk k c a0 hk hpc hr ha hu hkd =>
      simp only [setCall_lsnrs] at hx' hlt
      have hx2 : (w.lsnrs ++ [{ addr := a0 }])[l]? = some x' := hx'
      rw [List.getElem?_append_right hge] at hx2
      cases hh : l - w.lsnrs.length with
      | zero =>
        simp only [hh, List.getElem?_cons_zero, Option.some.injEq] at hx2; subst hx2
        exact ⟨by omega, hu⟩
      | succ n => simp [hh] at hx2
    all_goals
      exfalso
      first
        | omega
        | (simp at hlt; omega)
        | (simp [World.setCall, World.setConn, takeConn, World.setPhase, setDeadlineL] at hlt; omega)

theorem uniqueOpen_step {w w' : World} {a : Label} (h : UniqueOpen w) (hrel : Rel w a w') : UniqueOpen w' := by
  intro l l' x x' hl hl' ho ho' haddr
  rcases lsnr_back hrel hl with ⟨y, hy, ha, hop⟩ | ⟨hlen, hfree⟩ <;>
    rcases lsnr_back hrel hl' with ⟨y', hy', ha', hop'⟩ | ⟨hlen', hfree'⟩
  · exact h l l' y y' hy hy' (hop ho) (hop' ho') (by rw [← ha, ← ha']; exact haddr)
  · exact absurd (by rw [← ha, haddr]) (addrInUse_false_iff.mp hfree' l y hy (hop ho))
  · exact absurd (by rw [← ha', ← haddr]) (addrInUse_false_iff.mp hfree l' y' hy' (hop' ho'))
  · omega

theorem uniqueOpen_reach {P : World → Label → Prop} {w : World} (h : Reach P init w) : UniqueOpen w :=
  Reach.induct UniqueOpen (fun l l' x x' hl => by simp [init] at hl)
    (fun _ _ _ _ hi _ hs => uniqueOpen_step hi (rel_of_step hs)) h

/-- closing the open listener of an address frees the address -/
theorem addr_free_after_close {w : World} (hu : UniqueOpen w) {l : Nat} {x : Lsnr} (hx : w.lsnrs[l]? = some x)
    (hxo : x.isOpen = true) : addrInUse (closeL w l) x.addr = false := by
  apply addrInUse_false_iff.mpr
  intro l' y hy ho
  simp only [closeL] at hy
  rw [List.getElem?_modify] at hy
  cases hy0 : w.lsnrs[l']? with
  | none => simp [hy0] at hy
  | some y0 =>
    rw [hy0] at hy
    by_cases hll : l = l'
    · subst hll
      have : y = { y0 with isOpen := false, closeCalls := y0.closeCalls + 1 } := by simpa using hy.symm
      rw [this] at ho; cases ho
    · have hyy : y = y0 := by simpa [hll] using hy.symm
      subst hyy
      intro ha
      exact hll (hu l l' x y hx hy0 hxo ho ha.symm)


/-! ### the discipline without Shutdown and without timeouts -/

def Quiet (w : World) (a : Label) : Prop :=
  Serial w a ∧ a ≠ .shutdown ∧ ∀ kind tmo addr, a = .spawn kind tmo addr → tmo = false

theorem quiet_invs {w : World} (h : Reach Quiet init w) : One w ∧ NoTmo w ∧ Serving w := by
  refine Reach.induct (fun w => One w ∧ NoTmo w ∧ Serving w) ⟨one_init, ?_, ?_⟩ ?_ h
  · exact ⟨fun k c hk => by simp [init] at hk, fun l x hl => by simp [init] at hl⟩
  · exact ⟨fun l hl => by simp [init] at hl, fun k c hk => by simp [init] at hk⟩
  · intro w a w' hr ⟨ho, hn, hs⟩ hq hstep
    have hrel := rel_of_step hstep
    exact ⟨one_step ho hrel hq.1, noTmo_step hn hrel hq.2.2, serving_step hs ho hn hrel hq.2.1⟩

/-! ### Boolean checkers of the disciplines, for concrete traces -/

def othersIdleB (w : World) (k : Nat) : Bool :=
  (List.range w.calls.length).all fun j =>
    j == k || (match w.calls[j]? with
               | some c => !c.active
               | none => true)

def orderlyB (w : World) : Label → Bool
  | .call k =>
    match w.calls[k]? with
    | some c => (c.pc != .bindCheck || w.running || othersIdleB w k) && (c.pc != .readLst || othersIdleB w k)
    | none => true
  | _ => true

def serialB (w : World) : Label → Bool
  | .call k =>
    match w.calls[k]? with
    | some c => (c.pc != .bindCheck || c.kind == .bind || w.running || othersIdleB w k) &&
                (c.pc != .readLst || othersIdleB w k)
    | none => true
  | _ => true

theorem othersIdle_of_B {w : World} {k : Nat} (h : othersIdleB w k = true) : OthersIdle w k := by
  intro j cj hj hne
  have := List.all_eq_true.mp h j (List.mem_range.mpr (lt_of_getElem? hj))
  simp only [Bool.or_eq_true, beq_iff_eq, hj] at this
  rcases this with e | e
  · exact absurd e hne
  · simpa using e

theorem orderly_of_B {w : World} {a : Label} (h : orderlyB w a = true) : Orderly w a := by
  cases a <;> simp only [orderlyB, Orderly] at h ⊢
  case call k =>
    intro c hk
    simp only [hk, Bool.and_eq_true, Bool.or_eq_true, bne_iff_ne, ne_eq] at h
    refine ⟨fun hpc => ?_, fun hpc => ?_⟩
    · rcases h.1 with (h1 | h1) | h1
      · exact absurd hpc h1
      · exact Or.inl h1
      · exact Or.inr (othersIdle_of_B h1)
    · rcases h.2 with h1 | h1
      · exact absurd hpc h1
      · exact othersIdle_of_B h1

theorem serial_of_B {w : World} {a : Label} (h : serialB w a = true) : Serial w a := by
  cases a <;> simp only [serialB, Serial] at h ⊢
  case call k =>
    intro c hk
    simp only [hk, Bool.and_eq_true, Bool.or_eq_true, bne_iff_ne, ne_eq, beq_iff_eq] at h
    refine ⟨fun hpc hkd => ?_, fun hpc => ?_⟩
    · rcases h.1 with ((h1 | h1) | h1) | h1
      · exact absurd hpc h1
      · exact absurd h1 hkd
      · exact Or.inl h1
      · exact Or.inr (othersIdle_of_B h1)
    · rcases h.2 with h1 | h1
      · exact absurd hpc h1
      · exact othersIdle_of_B h1

theorem othersIdleB_of {w : World} {k : Nat} (h : OthersIdle w k) : othersIdleB w k = true := by
  apply List.all_eq_true.mpr
  intro j hj
  have hlt := List.mem_range.mp hj
  have hj' : w.calls[j]? = some w.calls[j] := by simp [hlt]
  by_cases e : j = k
  · simp [e]
  · simp [hj', h j _ hj' e]

theorem serialB_of {w : World} {a : Label} (h : Serial w a) : serialB w a = true := by
  cases a <;> simp only [serialB] <;> try rfl
  case call k =>
    cases hk : w.calls[k]? with
    | none => rfl
    | some c =>
      simp only [Serial] at h
      obtain ⟨h1, h2⟩ := h c hk
      simp only [Bool.and_eq_true, Bool.or_eq_true, bne_iff_ne, ne_eq, beq_iff_eq]
      constructor
      · by_cases hp : c.pc = .bindCheck
        · by_cases hkd : c.kind = .bind
          · exact Or.inl (Or.inl (Or.inr hkd))
          · rcases h1 hp hkd with r | r
            · exact Or.inl (Or.inr r)
            · exact Or.inr (othersIdleB_of r)
        · exact Or.inl (Or.inl (Or.inl hp))
      · by_cases hp : c.pc = .readLst
        · exact Or.inr (othersIdleB_of (h2 hp))
        · exact Or.inl hp

theorem orderlyB_of {w : World} {a : Label} (h : Orderly w a) : orderlyB w a = true := by
  cases a <;> simp only [orderlyB] <;> try rfl
  case call k =>
    cases hk : w.calls[k]? with
    | none => rfl
    | some c =>
      simp only [Orderly] at h
      obtain ⟨h1, h2⟩ := h c hk
      simp only [Bool.and_eq_true, Bool.or_eq_true, bne_iff_ne, ne_eq]
      constructor
      · by_cases hp : c.pc = .bindCheck
        · rcases h1 hp with r | r
          · exact Or.inl (Or.inr r)
          · exact Or.inr (othersIdleB_of r)
        · exact Or.inl (Or.inl hp)
      · by_cases hp : c.pc = .readLst
        · exact Or.inr (othersIdleB_of (h2 hp))
        · exact Or.inl hp

/-- the Boolean checkers decide the disciplines -/
theorem serial_iff_B {w : World} {a : Label} : Serial w a ↔ serialB w a = true := ⟨serialB_of, serial_of_B⟩
theorem orderly_iff_B {w : World} {a : Label} : Orderly w a ↔ orderlyB w a = true := ⟨orderlyB_of, orderly_of_B⟩

/-- run a trace, checking a discipline at every step -/
def runC (B : World → Label → Bool) (w : World) : List Label → Option World
  | [] => some w
  | a :: as =>
    if B w a then
      match step w a with
      | some w' => runC B w' as
      | none => none
    else none

theorem reach_of_runC {B : World → Label → Bool} {P : World → Label → Prop} (hB : ∀ w a, B w a = true → P w a)
    {w0 : World} : ∀ (ls : List Label) {w : World}, runC B w0 ls = some w → Reach P w0 w := by
  intro ls
  induction ls generalizing w0 with
  | nil => intro w h; simp only [runC, Option.some.injEq] at h; subst h; exact .refl
  | cons a as ih =>
    intro w h
    simp only [runC] at h
    split at h
    · rename_i hb
      cases hs : step w0 a with
      | none => simp [hs] at h
      | some w1 =>
        simp only [hs] at h
        exact Reach.trans (.step .refl (hB _ _ hb) hs) (ih h)
    · cases h

/-- run a trace under the orderly discipline -/
def runB (w : World) (ls : List Label) : Option World := runC orderlyB w ls
/-- run a trace under the serial discipline -/
def runS (w : World) (ls : List Label) : Option World := runC serialB w ls

theorem reach_of_runB {w0 : World} (ls : List Label) {w : World} (h : runB w0 ls = some w) : Reach Orderly w0 w :=
  reach_of_runC (fun _ _ => orderly_of_B) ls h

theorem reach_of_runS {w0 : World} (ls : List Label) {w : World} (h : runS w0 ls = some w) : Reach Serial w0 w :=
  reach_of_runC (fun _ _ => serial_of_B) ls h

def quietLabelB : Label → Bool
  | .shutdown => false
  | .spawn _ tmo _ => !tmo
  | _ => true

theorem quiet_of_runS {w0 : World} : ∀ (ls : List Label) {w : World}, runS w0 ls = some w →
    ls.all quietLabelB = true → Reach Quiet w0 w := by
  intro ls
  induction ls generalizing w0 with
  | nil => intro w h _; simp only [runS, runC, Option.some.injEq] at h; subst h; exact .refl
  | cons a as ih =>
    intro w h hall
    simp only [List.all_cons, Bool.and_eq_true] at hall
    simp only [runS, runC] at h
    split at h
    · rename_i hb
      cases hs : step w0 a with
      | none => simp [hs] at h
      | some w1 =>
        simp only [hs] at h
        have hq : Quiet w0 a := by
          refine ⟨serial_of_B hb, ?_, ?_⟩
          · intro e; rw [e] at hall; simp [quietLabelB] at hall
          · intro kind tmo addr e; rw [e] at hall; simpa [quietLabelB] using hall.1
        exact Reach.trans (.step .refl hq hs) (ih h hall.2)
    · cases h

end Varlink.Life
