/-
  The orderly discipline: a serving call is started only when no other API call is in flight, and a
  Bind/Listen that finds a serving call in flight only runs its check while the service is running (so it
  is refused). Everything the environment, clients and faults can do stays allowed.  Under this discipline
  the active call serves the listener stored in the service, its teardown closes exactly that listener,
  and after it the shared state is the initial one.
-/
import VarlinkProofs.Lemmas.LifecycleProgress
namespace Varlink.Life

/-- an API call is in flight: it has passed the running check of Bind (or is a DoListen) and has not returned -/
def Call.active (c : Call) : Bool := !(c.pc == .bindCheck || c.pc == .returned)

def Idle (w : World) : Prop := ∀ (j : Nat) (cj : Call), w.calls[j]? = some cj → cj.active = false
def OthersIdle (w : World) (k : Nat) : Prop :=
  ∀ (j : Nat) (cj : Call), w.calls[j]? = some cj → j ≠ k → cj.active = false

/-- the discipline (a restriction on API use only) -/
def Orderly (w : World) : Label → Prop
  | .spawn kind _ _ => kind = .doListen → Idle w
  | .call k => ∀ c, w.calls[k]? = some c → c.pc = .bindCheck → w.running = true ∨ OthersIdle w k
  | _ => True

def OReach (w : World) : Prop := Reach Orderly init w

def loopPc : Pc → Bool
  | .loopCheck | .refresh | .inAccept | .gotConn | .counted | .errTimeout | .errOther => true
  | _ => false

/-- what holds for a call in a given world -/
def prePc : Pc → Bool
  | .parse | .listenSys | .store | .readLst | .setRunning => true
  | _ => false

def freshPc : Pc → Bool
  | .bindCheck | .parse | .listenSys | .readLst => true
  | _ => false

structure Own (w : World) (c : Call) : Prop where
  freshL : freshPc c.pc = true → c.l = none
  preStopped : prePc c.pc = true → w.running = false
  storeL : c.pc = .store → c.l.isSome = true
  ready : c.pc = .setRunning → (c.kind = .listen → w.lst.isSome = true) ∧ (c.kind ≠ .listen → c.l = w.lst ∧ c.l.isSome = true)
  loopL : loopPc c.pc = true → c.l = w.lst ∧ c.l.isSome = true
  tearL : c.pc = .teardown → c.l = w.lst
  afterL : c.pc = .waiting → w.lst = none ∧ w.running = false ∧ w.addrF = none
  closedL : (c.pc = .waiting ∨ c.pc = .returned) → c.ret ≠ some .nil ∨ c.kind ≠ .bind → ∀ l, c.l = some l → Closed w l
  retNone : c.ret.isSome = true → c.pc = .teardown ∨ c.pc = .waiting ∨ c.pc = .returned
  timeoutL : c.ret = some .timeout → c.l.isSome = true

structure OInv (w : World) : Prop where
  one : ∀ (j j' : Nat) (cj cj' : Call), w.calls[j]? = some cj → w.calls[j']? = some cj' →
      cj.active = true → cj'.active = true → j = j'
  idleStopped : Idle w → w.running = false
  own : ∀ (k : Nat) (c : Call), w.calls[k]? = some c → Own w c

/-- an inactive call's facts only need closed listeners to stay closed -/
theorem Own.inactive {w w' : World} {c : Call} (h : Own w c) (hi : c.active = false)
    (hm : ∀ l, Closed w l → Closed w' l) : Own w' c := by
  have hpc : c.pc = .bindCheck ∨ c.pc = .returned := by
    simp only [Call.active, Bool.not_eq_false', Bool.or_eq_true, beq_iff_eq] at hi; exact hi
  constructor
  · exact h.freshL
  · intro h'; rcases hpc with e | e <;> rw [e] at h' <;> simp [prePc] at h'
  · intro h'; rcases hpc with e | e <;> rw [e] at h' <;> cases h'
  · intro h'; rcases hpc with e | e <;> rw [e] at h' <;> cases h'
  · intro h'; rcases hpc with e | e <;> rw [e] at h' <;> simp [loopPc] at h'
  · intro h'; rcases hpc with e | e <;> rw [e] at h' <;> cases h'
  · intro h'; rcases hpc with e | e <;> rw [e] at h' <;> cases h'
  · intro h1 h2 l hl; exact hm l (h.closedL h1 h2 l hl)
  · exact h.retNone
  · exact h.timeoutL

/-- … and with unchanged shared fields every fact survives -/
theorem Own.same {w w' : World} {c : Call} (h : Own w c) (h1 : w'.running = w.running) (h2 : w'.lst = w.lst)
    (h3 : w'.addrF = w.addrF) (hm : ∀ l, Closed w l → Closed w' l) : Own w' c := by
  constructor
  · exact h.freshL
  · rw [h1]; exact h.preStopped
  · exact h.storeL
  · rw [h2]; exact h.ready
  · rw [h2]; exact h.loopL
  · rw [h2]; exact h.tearL
  · rw [h1, h2, h3]; exact h.afterL
  · intro a b l hl; exact hm l (h.closedL a b l hl)
  · exact h.retNone
  · exact h.timeoutL

/-- **a call updates itself** (and possibly the shared fields — then it must be the only call in flight) -/
theorem OInv.setCall {w w' : World} (h : OInv w) {k : Nat} {c c' : Call} (hk : w.calls[k]? = some c)
    (hcalls : w'.calls = w.calls.set k c') (hm : ∀ l, Closed w l → Closed w' l)
    (hshared : (w'.running = w.running ∧ w'.lst = w.lst ∧ w'.addrF = w.addrF) ∨ c.active = true ∨ OthersIdle w k)
    (hact : c'.active = true → c.active = true ∨ OthersIdle w k)
    (hown : Own w' c')
    (hidle : c'.active = false → OthersIdle w k → w'.running = false) : OInv w' := by
  have hlt := lt_of_getElem? hk
  have look : ∀ (j : Nat) (cj : Call), w'.calls[j]? = some cj → (j = k ∧ cj = c') ∨ (j ≠ k ∧ w.calls[j]? = some cj) := by
    intro j cj hj
    rw [hcalls, List.getElem?_set] at hj
    by_cases hkj : k = j
    · subst hkj; simp only [hlt, if_true, Option.some.injEq] at hj; exact Or.inl ⟨rfl, hj.symm⟩
    · simp only [hkj, if_false] at hj; exact Or.inr ⟨fun e => hkj e.symm, hj⟩
  constructor
  · intro j j' cj cj' hj hj' ha ha'
    rcases look j cj hj with ⟨rfl, rfl⟩ | ⟨hne, hj0⟩ <;> rcases look j' cj' hj' with ⟨rfl, rfl⟩ | ⟨hne', hj0'⟩
    · rfl
    · rcases hact ha with hca | hoi
      · exact h.one _ _ _ _ hk hj0' hca ha'
      · rw [hoi j' cj' hj0' hne'] at ha'; cases ha'
    · rcases hact ha' with hca | hoi
      · exact h.one _ _ _ _ hj0 hk ha hca
      · rw [hoi j cj hj0 hne] at ha; cases ha
    · exact h.one _ _ _ _ hj0 hj0' ha ha'
  · intro hid
    have hk' : w'.calls[k]? = some c' := by rw [hcalls]; exact getElem?_set_eq' hk
    apply hidle (hid k c' hk')
    intro j cj hj hne
    exact hid j cj (by rw [hcalls, getElem?_set_ne' (fun e => hne e.symm)]; exact hj)
  · intro j cj hj
    rcases look j cj hj with ⟨rfl, rfl⟩ | ⟨hne, hj0⟩
    · exact hown
    · have ho := h.own j cj hj0
      rcases hshared with ⟨s1, s2, s3⟩ | hca | hoi
      · exact ho.same s1 s2 s3 hm
      · refine ho.inactive ?_ hm
        cases hcj : cj.active with
        | false => rfl
        | true => exact absurd (h.one _ _ _ _ hj0 hk hcj hca) hne
      · exact ho.inactive (hoi j cj hj0 hne) hm


/-- wait-group and context bookkeeping does not matter -/
theorem Own.control {w : World} {c c' : Call} (h : Own w c) (hs : sameControl c c') : Own w c' := by
  obtain ⟨e1, e2, e3, e4, _, _, _, _⟩ := hs
  constructor
  · rw [e1, e2]; exact h.freshL
  · rw [e1]; exact h.preStopped
  · rw [e1, e2]; exact h.storeL
  · rw [e1, e2, e4]; exact h.ready
  · rw [e1, e2]; exact h.loopL
  · rw [e1, e2]; exact h.tearL
  · rw [e1]; exact h.afterL
  · rw [e1, e2, e3, e4]; exact h.closedL
  · rw [e1, e3]; exact h.retNone
  · rw [e2, e3]; exact h.timeoutL

theorem sameControl_active {c c' : Call} (hs : sameControl c c') : c'.active = c.active := by
  simp [Call.active, hs.1]

/-- the calls are untouched and so are the shared fields -/
theorem OInv.sameCalls {w w' : World} (h : OInv w) (hc : w'.calls = w.calls) (h1 : w'.running = w.running)
    (h2 : w'.lst = w.lst) (h3 : w'.addrF = w.addrF) (hm : ∀ l, Closed w l → Closed w' l) : OInv w' := by
  constructor
  · rw [hc]; exact h.one
  · intro hid; rw [h1]; apply h.idleStopped; intro j cj hj; exact hid j cj (by rw [hc]; exact hj)
  · intro k c hk; rw [hc] at hk; exact (h.own k c hk).same h1 h2 h3 hm

theorem OInv.shutdown {w : World} (h : OInv w) : OInv (stepShutdown w) := by
  have hm : ∀ l, Closed w l → Closed (stepShutdown w) l := fun l hl => closed_step (a := .shutdown) rfl hl
  constructor
  · rw [stepShutdown_calls]; exact h.one
  · intro _; exact stepShutdown_running w
  · intro k c hk
    rw [stepShutdown_calls] at hk
    have ho := h.own k c hk
    constructor
    · exact ho.freshL
    · intro _; exact stepShutdown_running w
    · exact ho.storeL
    · rw [stepShutdown_lst]; exact ho.ready
    · rw [stepShutdown_lst]; exact ho.loopL
    · rw [stepShutdown_lst]; exact ho.tearL
    · intro hp
      obtain ⟨a, _, c'⟩ := ho.afterL hp
      exact ⟨by rw [stepShutdown_lst]; exact a, stepShutdown_running w, by rw [stepShutdown_addrF]; exact c'⟩
    · intro a b l hl; exact hm l (ho.closedL a b l hl)
    · exact ho.retNone
    · exact ho.timeoutL

theorem OInv.spawn {w : World} (h : OInv w) {c0 : Call} (hpc : c0.pc = .bindCheck ∨ (c0.pc = .readLst ∧ Idle w))
    (hl : c0.l = none) (hr : c0.ret = none) : OInv { w with calls := w.calls ++ [c0] } := by
  have look : ∀ (j : Nat) (cj : Call), (w.calls ++ [c0])[j]? = some cj → w.calls[j]? = some cj ∨ (j = w.calls.length ∧ cj = c0) := by
    intro j cj hj
    rw [List.getElem?_append] at hj
    split at hj
    · exact Or.inl hj
    · right
      cases hh : j - w.calls.length with
      | zero => simp only [hh, List.getElem?_cons_zero, Option.some.injEq] at hj; exact ⟨by omega, hj.symm⟩
      | succ n => simp [hh] at hj
  have c0act : c0.active = true → Idle w := by
    intro ha
    rcases hpc with e | ⟨_, hi⟩
    · simp [Call.active, e] at ha
    · exact hi
  constructor
  · intro j j' cj cj' hj hj' ha ha'
    rcases look j cj hj with hj0 | ⟨rfl, rfl⟩ <;> rcases look j' cj' hj' with hj0' | ⟨rfl, rfl⟩
    · exact h.one _ _ _ _ hj0 hj0' ha ha'
    · rw [c0act ha' j cj hj0] at ha; cases ha
    · rw [c0act ha j' cj' hj0'] at ha'; cases ha'
    · rfl
  · intro hid
    apply h.idleStopped
    intro j cj hj
    exact hid j cj (by simp only []; rw [List.getElem?_append_left (lt_of_getElem? hj)]; exact hj)
  · intro j cj hj
    rcases look j cj hj with hj0 | ⟨rfl, rfl⟩
    · exact (h.own j cj hj0).same rfl rfl rfl (fun _ hl => hl)
    · have hp : cj.pc = .bindCheck ∨ cj.pc = .readLst := by rcases hpc with e | ⟨e, _⟩ <;> simp [e]
      constructor
      · intro _; exact hl
      · intro h'
        rcases hpc with e | ⟨e, hi⟩
        · rw [e] at h'; simp [prePc] at h'
        · exact h.idleStopped hi
      · intro h'; rcases hp with e | e <;> rw [e] at h' <;> cases h'
      · intro h'; rcases hp with e | e <;> rw [e] at h' <;> cases h'
      · intro h'; rcases hp with e | e <;> rw [e] at h' <;> simp [loopPc] at h'
      · intro h'; rcases hp with e | e <;> rw [e] at h' <;> cases h'
      · intro h'; rcases hp with e | e <;> rw [e] at h' <;> cases h'
      · intro h'; rcases h' with h' | h' <;> rcases hp with e | e <;> rw [e] at h' <;> cases h'
      · intro h'; rw [hr] at h'; cases h'
      · intro h'; rw [hr] at h'; cases h'


theorem closed_teardown {w : World} (hv : Valid w) {l : Nat} (hl : w.lst = some l) : Closed (teardownShared w) l := by
  have hlt := hv.lst l hl
  refine closed_of_isOpen_false (by simpa using hlt) ?_
  simp only [teardownShared, hl, isOpen, closeL]
  rw [List.getElem?_modify]
  simp [hlt]

theorem oinv_step {w w' : World} {a : Label} (h : OInv w) (hv : Valid w) (hs : step w a = some w')
    (hord : Orderly w a) : OInv w' := by
  have hm : ∀ l, Closed w l → Closed w' l := fun l hl => closed_step hs hl
  have hrel := rel_of_step hs
  clear hs
  cases hrel
  case spawn kind tmo addr =>
    refine h.spawn ?_ rfl rfl
    cases kind
    · exact Or.inl rfl
    · exact Or.inr ⟨rfl, hord rfl⟩
    · exact Or.inl rfl
  case bindRefused k c hk hpc hr =>
    obtain ⟨o1, o2, o3, o4, o5, o6, o7, o8, o9, o10⟩ := h.own k c hk
    refine h.setCall hk rfl hm (Or.inl ⟨rfl, rfl, rfl⟩) (fun ha => by simp [Call.active] at ha) ?_ ?_
    · constructor <;> simp_all [freshPc, prePc, loopPc]
    · intro _ hoi
      exfalso
      have : Idle w := by
        intro j cj hj
        by_cases hjk : j = k
        · subst hjk; rw [hk] at hj; simp only [Option.some.injEq] at hj; subst hj; simp [Call.active, hpc]
        · exact hoi j cj hj hjk
      rw [h.idleStopped this] at hr; cases hr
  case bindPass k c hk hpc hr =>
    obtain ⟨o1, o2, o3, o4, o5, o6, o7, o8, o9, o10⟩ := h.own k c hk
    refine h.setCall hk rfl hm (Or.inl ⟨rfl, rfl, rfl⟩) ?_ ?_ (fun ha => by simp [Call.active] at ha)
    · intro _
      rcases hord c hk hpc with h1 | h1
      · rw [hr] at h1; cases h1
      · exact Or.inr h1
    · constructor <;> simp_all [freshPc, prePc, loopPc]
  case parseBad k c hk hpc ha =>
    obtain ⟨o1, o2, o3, o4, o5, o6, o7, o8, o9, o10⟩ := h.own k c hk
    refine h.setCall hk rfl hm (Or.inl ⟨rfl, rfl, rfl⟩) (fun ha => by simp [Call.active] at ha) ?_ ?_
    · constructor <;> simp_all [freshPc, prePc, loopPc]
    · intro _ _; exact o2 (by simp [hpc, prePc])
  case parseOk k c a hk hpc ha =>
    obtain ⟨o1, o2, o3, o4, o5, o6, o7, o8, o9, o10⟩ := h.own k c hk
    refine h.setCall hk rfl hm (Or.inr (Or.inl (by simp [Call.active, hpc])))
      (fun _ => Or.inl (by simp [Call.active, hpc])) ?_ (fun ha => by simp [Call.active] at ha)
    constructor <;> simp_all [freshPc, prePc, loopPc]
    all_goals first
      | (obtain ⟨e1, e2⟩ := o5; rw [e1] at e2; first | exact e2 | cases e2)
      | (intro hb l hl; exact hm l (o8 hb l hl))
      | (intro _ l hl; exact hcl l hl)
      | skip
  case listenBusy k c a hk hpc ha hu =>
    obtain ⟨o1, o2, o3, o4, o5, o6, o7, o8, o9, o10⟩ := h.own k c hk
    refine h.setCall hk rfl hm (Or.inl ⟨rfl, rfl, rfl⟩) (fun ha => by simp [Call.active] at ha) ?_ ?_
    · constructor <;> simp_all [freshPc, prePc, loopPc]
    · intro _ _; exact o2 (by simp [hpc, prePc])
  case listenOk k c a hk hpc ha hu =>
    obtain ⟨o1, o2, o3, o4, o5, o6, o7, o8, o9, o10⟩ := h.own k c hk
    refine h.setCall hk rfl hm (Or.inl ⟨rfl, rfl, rfl⟩)
      (fun _ => Or.inl (by simp [Call.active, hpc])) ?_ (fun ha => by simp [Call.active] at ha)
    constructor <;> simp_all [freshPc, prePc, loopPc]
    all_goals first
      | (obtain ⟨e1, e2⟩ := o5; rw [e1] at e2; first | exact e2 | cases e2)
      | (intro hb l hl; exact hm l (o8 hb l hl))
      | (intro _ l hl; exact hcl l hl)
      | skip
  case storeBind k c hk hpc hkd =>
    obtain ⟨o1, o2, o3, o4, o5, o6, o7, o8, o9, o10⟩ := h.own k c hk
    refine h.setCall hk rfl hm (Or.inr (Or.inl (by simp [Call.active, hpc])))
      (fun _ => Or.inl (by simp [Call.active, hpc])) ?_ ?_
    · constructor <;> simp_all [freshPc, prePc, loopPc]
    · intro _ _; exact o2 (by simp [hpc, prePc])
  case storeServe k c hk hpc hkd =>
    obtain ⟨o1, o2, o3, o4, o5, o6, o7, o8, o9, o10⟩ := h.own k c hk
    refine h.setCall hk rfl hm (Or.inr (Or.inl (by simp [Call.active, hpc])))
      (fun _ => Or.inl (by simp [Call.active, hpc])) ?_ (fun ha => by simp [Call.active] at ha)
    constructor <;> simp_all [freshPc, prePc, loopPc]
    all_goals first
      | (obtain ⟨e1, e2⟩ := o5; rw [e1] at e2; first | exact e2 | cases e2)
      | (intro hb l hl; exact hm l (o8 hb l hl))
      | (intro _ l hl; exact hcl l hl)
      | skip
  case readNone k c hk hpc hl =>
    obtain ⟨o1, o2, o3, o4, o5, o6, o7, o8, o9, o10⟩ := h.own k c hk
    refine h.setCall hk rfl hm (Or.inl ⟨rfl, rfl, rfl⟩)
      (fun _ => Or.inl (by simp [Call.active, hpc])) ?_ (fun ha => by simp [Call.active] at ha)
    constructor <;> simp_all [freshPc, prePc, loopPc]
    all_goals first
      | (obtain ⟨e1, e2⟩ := o5; rw [e1] at e2; first | exact e2 | cases e2)
      | (intro hb l hl; exact hm l (o8 hb l hl))
      | (intro _ l hl; exact hcl l hl)
      | skip
  case readSome k c l hk hpc hl =>
    obtain ⟨o1, o2, o3, o4, o5, o6, o7, o8, o9, o10⟩ := h.own k c hk
    refine h.setCall hk rfl hm (Or.inl ⟨rfl, rfl, rfl⟩)
      (fun _ => Or.inl (by simp [Call.active, hpc])) ?_ (fun ha => by simp [Call.active] at ha)
    constructor <;> simp_all [freshPc, prePc, loopPc]
    all_goals first
      | (obtain ⟨e1, e2⟩ := o5; rw [e1] at e2; first | exact e2 | cases e2)
      | (intro hb l hl; exact hm l (o8 hb l hl))
      | (intro _ l hl; exact hcl l hl)
      | skip
  case setRunning k c hk hpc =>
    obtain ⟨o1, o2, o3, o4, o5, o6, o7, o8, o9, o10⟩ := h.own k c hk
    refine h.setCall hk rfl hm (Or.inr (Or.inl (by simp [Call.active, hpc])))
      (fun _ => Or.inl (by simp [Call.active, hpc])) ?_ (fun ha => by simp [Call.active] at ha)
    obtain ⟨r1, r2⟩ := o4 hpc
    constructor <;> simp_all [freshPc, prePc, loopPc]
    all_goals first
      | (obtain ⟨e1, e2⟩ := o5; rw [e1] at e2; first | exact e2 | cases e2)
      | (intro hb l hl; exact hm l (o8 hb l hl))
      | (intro _ l hl; exact hcl l hl)
      | skip
    by_cases hkd : c.kind = .listen
    · exact r1 hkd
    · exact o4 hkd
  case loopGo k c hk hpc hr =>
    obtain ⟨o1, o2, o3, o4, o5, o6, o7, o8, o9, o10⟩ := h.own k c hk
    have hp' : (if c.tmo = true then Pc.refresh else Pc.inAccept) = .refresh ∨
        (if c.tmo = true then Pc.refresh else Pc.inAccept) = .inAccept := by cases c.tmo <;> simp
    have o5' := o5 (by simp [hpc, loopPc])
    refine h.setCall hk rfl hm (Or.inl ⟨rfl, rfl, rfl⟩)
      (fun _ => Or.inl (by simp [Call.active, hpc])) ?_ (fun ha => ?_)
    · rcases hp' with e | e <;> (constructor <;> simp only [e] <;> simp [freshPc, prePc, loopPc, o5'])
      all_goals first
        | (rw [← o5'.1]; exact o5'.2)
        | (intro _; rw [← o5'.1]; exact o5'.2)
        | (cases hret : c.ret with
           | none => rfl
           | some r => exact absurd (o9 (by simp [hret])) (by simp [hpc]))
    · rcases hp' with e | e <;> simp [Call.active, e] at ha
  case loopStop k c hk hpc hr =>
    obtain ⟨o1, o2, o3, o4, o5, o6, o7, o8, o9, o10⟩ := h.own k c hk
    refine h.setCall hk rfl hm (Or.inl ⟨rfl, rfl, rfl⟩)
      (fun _ => Or.inl (by simp [Call.active, hpc])) ?_ (fun ha => by simp [Call.active] at ha)
    constructor <;> simp_all [freshPc, prePc, loopPc]
    all_goals first
      | (obtain ⟨e1, e2⟩ := o5; rw [e1] at e2; first | exact e2 | cases e2)
      | (intro hb l hl; exact hm l (o8 hb l hl))
      | (intro _ l hl; exact hcl l hl)
      | skip
  case refreshNil k c hk hpc hl =>
    obtain ⟨o1, o2, o3, o4, o5, o6, o7, o8, o9, o10⟩ := h.own k c hk
    refine h.setCall hk rfl hm (Or.inl ⟨rfl, rfl, rfl⟩)
      (fun _ => Or.inl (by simp [Call.active, hpc])) ?_ (fun ha => by simp [Call.active] at ha)
    constructor <;> simp_all [freshPc, prePc, loopPc]
    all_goals first
      | (obtain ⟨e1, e2⟩ := o5; rw [e1] at e2; first | exact e2 | cases e2)
      | (intro hb l hl; exact hm l (o8 hb l hl))
      | (intro _ l hl; exact hcl l hl)
      | skip
  case refreshOk k c f hk hpc hl ho =>
    obtain ⟨o1, o2, o3, o4, o5, o6, o7, o8, o9, o10⟩ := h.own k c hk
    refine h.setCall hk rfl hm (Or.inl ⟨rfl, rfl, rfl⟩)
      (fun _ => Or.inl (by simp [Call.active, hpc])) ?_ (fun ha => by simp [Call.active] at ha)
    constructor <;> simp_all [freshPc, prePc, loopPc]
    all_goals first
      | (obtain ⟨e1, e2⟩ := o5; rw [e1] at e2; first | exact e2 | cases e2)
      | (intro hb l hl; exact hm l (o8 hb l hl))
      | (intro _ l hl; exact hcl l hl)
      | skip
  case refreshClosed k c f hk hpc hl ho =>
    obtain ⟨o1, o2, o3, o4, o5, o6, o7, o8, o9, o10⟩ := h.own k c hk
    refine h.setCall hk rfl hm (Or.inl ⟨rfl, rfl, rfl⟩)
      (fun _ => Or.inl (by simp [Call.active, hpc])) ?_ (fun ha => by simp [Call.active] at ha)
    constructor <;> simp_all [freshPc, prePc, loopPc]
    all_goals first
      | (obtain ⟨e1, e2⟩ := o5; rw [e1] at e2; first | exact e2 | cases e2)
      | (intro hb l hl; exact hm l (o8 hb l hl))
      | (intro _ l hl; exact hcl l hl)
      | skip
  case acceptNil k c hk hpc hl =>
    obtain ⟨o1, o2, o3, o4, o5, o6, o7, o8, o9, o10⟩ := h.own k c hk
    refine h.setCall hk rfl hm (Or.inl ⟨rfl, rfl, rfl⟩)
      (fun _ => Or.inl (by simp [Call.active, hpc])) ?_ (fun ha => by simp [Call.active] at ha)
    constructor <;> simp_all [freshPc, prePc, loopPc]
    all_goals first
      | (obtain ⟨e1, e2⟩ := o5; rw [e1] at e2; first | exact e2 | cases e2)
      | (intro hb l hl; exact hm l (o8 hb l hl))
      | (intro _ l hl; exact hcl l hl)
      | skip
  case acceptConn k c l i hk hpc hl ho hf =>
    obtain ⟨o1, o2, o3, o4, o5, o6, o7, o8, o9, o10⟩ := h.own k c hk
    refine h.setCall hk rfl hm (Or.inl ⟨rfl, rfl, rfl⟩)
      (fun _ => Or.inl (by simp [Call.active, hpc])) ?_ (fun ha => by simp [Call.active] at ha)
    constructor <;> simp_all [freshPc, prePc, loopPc]
    all_goals first
      | (obtain ⟨e1, e2⟩ := o5; rw [e1] at e2; first | exact e2 | cases e2)
      | (intro hb l hl; exact hm l (o8 hb l hl))
      | (intro _ l hl; exact hcl l hl)
      | skip
  case acceptClosed k c l hk hpc hl ho =>
    obtain ⟨o1, o2, o3, o4, o5, o6, o7, o8, o9, o10⟩ := h.own k c hk
    refine h.setCall hk rfl hm (Or.inl ⟨rfl, rfl, rfl⟩)
      (fun _ => Or.inl (by simp [Call.active, hpc])) ?_ (fun ha => by simp [Call.active] at ha)
    constructor <;> simp_all [freshPc, prePc, loopPc]
    all_goals first
      | (obtain ⟨e1, e2⟩ := o5; rw [e1] at e2; first | exact e2 | cases e2)
      | (intro hb l hl; exact hm l (o8 hb l hl))
      | (intro _ l hl; exact hcl l hl)
      | skip
  case count k c hk hpc =>
    obtain ⟨o1, o2, o3, o4, o5, o6, o7, o8, o9, o10⟩ := h.own k c hk
    refine h.setCall hk rfl hm (Or.inl ⟨rfl, rfl, rfl⟩)
      (fun _ => Or.inl (by simp [Call.active, hpc])) ?_ (fun ha => by simp [Call.active] at ha)
    constructor <;> simp_all [freshPc, prePc, loopPc]
    all_goals first
      | (obtain ⟨e1, e2⟩ := o5; rw [e1] at e2; first | exact e2 | cases e2)
      | (intro hb l hl; exact hm l (o8 hb l hl))
      | (intro _ l hl; exact hcl l hl)
      | skip
  case startHandler k c hk hpc =>
    obtain ⟨o1, o2, o3, o4, o5, o6, o7, o8, o9, o10⟩ := h.own k c hk
    refine h.setCall hk rfl hm (Or.inl ⟨rfl, rfl, rfl⟩)
      (fun _ => Or.inl (by simp [Call.active, hpc])) ?_ (fun ha => by simp [Call.active] at ha)
    constructor <;> simp_all [freshPc, prePc, loopPc]
    all_goals first
      | (obtain ⟨e1, e2⟩ := o5; rw [e1] at e2; first | exact e2 | cases e2)
      | (intro hb l hl; exact hm l (o8 hb l hl))
      | (intro _ l hl; exact hcl l hl)
      | skip
  case timeoutIdle k c hk hpc h0 =>
    obtain ⟨o1, o2, o3, o4, o5, o6, o7, o8, o9, o10⟩ := h.own k c hk
    refine h.setCall hk rfl hm (Or.inl ⟨rfl, rfl, rfl⟩)
      (fun _ => Or.inl (by simp [Call.active, hpc])) ?_ (fun ha => by simp [Call.active] at ha)
    constructor <;> simp_all [freshPc, prePc, loopPc]
    all_goals first
      | (obtain ⟨e1, e2⟩ := o5; rw [e1] at e2; first | exact e2 | cases e2)
      | (intro hb l hl; exact hm l (o8 hb l hl))
      | (intro _ l hl; exact hcl l hl)
      | skip
  case timeoutBusy k c hk hpc h0 =>
    obtain ⟨o1, o2, o3, o4, o5, o6, o7, o8, o9, o10⟩ := h.own k c hk
    refine h.setCall hk rfl hm (Or.inl ⟨rfl, rfl, rfl⟩)
      (fun _ => Or.inl (by simp [Call.active, hpc])) ?_ (fun ha => by simp [Call.active] at ha)
    constructor <;> simp_all [freshPc, prePc, loopPc]
    all_goals first
      | (obtain ⟨e1, e2⟩ := o5; rw [e1] at e2; first | exact e2 | cases e2)
      | (intro hb l hl; exact hm l (o8 hb l hl))
      | (intro _ l hl; exact hcl l hl)
      | skip
  case errRunning k c hk hpc hr =>
    obtain ⟨o1, o2, o3, o4, o5, o6, o7, o8, o9, o10⟩ := h.own k c hk
    refine h.setCall hk rfl hm (Or.inl ⟨rfl, rfl, rfl⟩)
      (fun _ => Or.inl (by simp [Call.active, hpc])) ?_ (fun ha => by simp [Call.active] at ha)
    constructor <;> simp_all [freshPc, prePc, loopPc]
    all_goals first
      | (obtain ⟨e1, e2⟩ := o5; rw [e1] at e2; first | exact e2 | cases e2)
      | (intro hb l hl; exact hm l (o8 hb l hl))
      | (intro _ l hl; exact hcl l hl)
      | skip
  case errStopped k c hk hpc hr =>
    obtain ⟨o1, o2, o3, o4, o5, o6, o7, o8, o9, o10⟩ := h.own k c hk
    refine h.setCall hk rfl hm (Or.inl ⟨rfl, rfl, rfl⟩)
      (fun _ => Or.inl (by simp [Call.active, hpc])) ?_ (fun ha => by simp [Call.active] at ha)
    constructor <;> simp_all [freshPc, prePc, loopPc]
    all_goals first
      | (obtain ⟨e1, e2⟩ := o5; rw [e1] at e2; first | exact e2 | cases e2)
      | (intro hb l hl; exact hm l (o8 hb l hl))
      | (intro _ l hl; exact hcl l hl)
      | skip
  case teardown k c hk hpc =>
    obtain ⟨o1, o2, o3, o4, o5, o6, o7, o8, o9, o10⟩ := h.own k c hk
    have hk' : (teardownShared w).calls[k]? = some c := by rw [teardownShared_calls]; exact hk
    refine h.setCall (c' := { c with pc := .waiting }) hk (by simp only [setCall_calls, teardownShared_calls]) hm
      (Or.inr (Or.inl (by simp [Call.active, hpc])))
      (fun _ => Or.inl (by simp [Call.active, hpc])) ?_ (fun ha => by simp [Call.active] at ha)
    have hcl : ∀ l, c.l = some l → Closed (teardownShared w) l := by
      intro l hl
      exact closed_teardown hv (by rw [← o6 hpc]; exact hl)
    constructor <;> simp_all [freshPc, prePc, loopPc]
    all_goals first
      | (obtain ⟨e1, e2⟩ := o5; rw [e1] at e2; first | exact e2 | cases e2)
      | (intro hb l hl; exact hm l (o8 hb l hl))
      | (intro _ l hl; exact hcl l hl)
      | skip
  case waitDone k c hk hpc hwg =>
    obtain ⟨o1, o2, o3, o4, o5, o6, o7, o8, o9, o10⟩ := h.own k c hk
    refine h.setCall hk rfl hm (Or.inl ⟨rfl, rfl, rfl⟩)
      (fun ha => by simp [Call.active] at ha) ?_ (fun _ _ => (o7 hpc).2.1)
    constructor <;> simp_all [freshPc, prePc, loopPc]
    all_goals first
      | (obtain ⟨e1, e2⟩ := o5; rw [e1] at e2; first | exact e2 | cases e2)
      | (intro hb l hl; exact hm l (o8 hb l hl))
      | (intro _ l hl; exact hcl l hl)
      | skip
  case expire k c l hk hpc hl ho harm =>
    obtain ⟨o1, o2, o3, o4, o5, o6, o7, o8, o9, o10⟩ := h.own k c hk
    refine h.setCall hk rfl hm (Or.inl ⟨rfl, rfl, rfl⟩)
      (fun _ => Or.inl (by simp [Call.active, hpc])) ?_ (fun ha => by simp [Call.active] at ha)
    constructor <;> simp_all [freshPc, prePc, loopPc]
    all_goals first
      | (obtain ⟨e1, e2⟩ := o5; rw [e1] at e2; first | exact e2 | cases e2)
      | (intro hb l hl; exact hm l (o8 hb l hl))
      | (intro _ l hl; exact hcl l hl)
      | skip
  case wgDone i x co hi hp hco hwg =>
    have hs : sameControl co { co with wg := co.wg - 1 } := ⟨rfl, rfl, rfl, rfl, rfl, rfl, rfl, rfl⟩
    refine h.setCall hco rfl hm (Or.inl ⟨rfl, rfl, rfl⟩) (fun ha => Or.inl (by rw [← sameControl_active hs]; exact ha))
      ((h.own _ co hco).control hs |>.same rfl rfl rfl hm) ?_
    intro ha hoi
    apply h.idleStopped
    intro j cj hj
    by_cases hjk : j = x.owner
    · subst hjk; rw [hco] at hj; simp only [Option.some.injEq] at hj; subst hj
      rw [← sameControl_active hs]; exact ha
    · exact hoi j cj hj hjk
  case ctxCancel k c hk =>
    have hs : sameControl c { c with ctxDone := true } := ⟨rfl, rfl, rfl, rfl, rfl, rfl, rfl, rfl⟩
    refine h.setCall hk rfl hm (Or.inl ⟨rfl, rfl, rfl⟩) (fun ha => Or.inl (by rw [← sameControl_active hs]; exact ha))
      ((h.own _ c hk).control hs |>.same rfl rfl rfl hm) ?_
    intro ha hoi
    apply h.idleStopped
    intro j cj hj
    by_cases hjk : j = k
    · subst hjk; rw [hk] at hj; simp only [Option.some.injEq] at hj; subst hj
      rw [← sameControl_active hs]; exact ha
    · exact hoi j cj hj hjk
  case shutdown => exact h.shutdown
  all_goals exact h.sameCalls rfl rfl rfl rfl hm

theorem oinv_init : OInv init :=
  ⟨fun j j' cj cj' hj => by simp [init] at hj, fun _ => rfl, fun k c hk => by simp [init] at hk⟩

/-- in every state reachable under the orderly discipline: the accounting invariant, valid listener
    indices and the orderly invariant -/
theorem oreach_invs {w : World} (h : OReach w) : Inv w ∧ Valid w ∧ OInv w := by
  refine Reach.induct (fun w => Inv w ∧ Valid w ∧ OInv w) ⟨inv_init, valid_init, oinv_init⟩ ?_ h
  intro w a w' _ ⟨hi, hv, ho⟩ hord hs
  exact ⟨inv_step hi hs, valid_step (rel_of_step hs) hv, oinv_step ho hv hs hord⟩

end Varlink.Life
