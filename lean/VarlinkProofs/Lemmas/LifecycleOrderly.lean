/-
  Disciplines on API use (restrictions on WHEN an API call executes its first step — its start-up critical
  section; everything the environment, clients and faults can do stays allowed, and so does spawning a call: a
  call sitting at its first program counter has done nothing yet):

    `Serial`   a SERVING call (Listen / DoListen) is started only when no other API call is in flight — or, for
               Listen, while the service is running (then it is refused and changes nothing);
    `Orderly`  `Serial`, and a stand-alone Bind is subject to the same rule.

  What needs which (the general facts — the served listener is the stored one or closed, Shutdown makes every
  serving call return, a timeout return releases the endpoint — need NO discipline: LifecycleServe.lean):
    * `Serial`: at most one API call is in flight; a Shutdown that found the call in Accept makes it return nil
      (a serving call started between the Shutdown and the call's `isRunning()` check would set `running` again
      and the call would return the Accept error instead);  without timeouts and Shutdown serving never stops.
    * `Orderly`: when the serving call returns, the shared state is the initial one (a stand-alone Bind between
      the call's teardown and its return would leave a listener stored).
  Since fix a1069ea the running check, the store of the listener and `running = true` are one critical section,
  so there is no clause any more about what may happen INSIDE the start-up of a call.
-/
import VarlinkProofs.Lemmas.LifecycleServe
namespace Varlink.Life

/-- an API call is in flight: it has executed its first step (the start-up critical section) and has not returned -/
def Call.active (c : Call) : Bool := !(c.pc == .bindCheck || c.pc == .readLst || c.pc == .returned)

def Idle (w : World) : Prop := ∀ (j : Nat) (cj : Call), w.calls[j]? = some cj → cj.active = false
def OthersIdle (w : World) (k : Nat) : Prop :=
  ∀ (j : Nat) (cj : Call), w.calls[j]? = some cj → j ≠ k → cj.active = false

/-- a serving call is started only when no other API call is in flight (a Listen also while running: refused) -/
def Serial (w : World) : Label → Prop
  | .call k => ∀ c, w.calls[k]? = some c →
      (c.pc = .bindCheck → c.kind ≠ .bind → w.running = true ∨ OthersIdle w k) ∧ (c.pc = .readLst → OthersIdle w k)
  | _ => True

/-- … and so is a stand-alone Bind -/
def Orderly (w : World) : Label → Prop
  | .call k => ∀ c, w.calls[k]? = some c →
      (c.pc = .bindCheck → w.running = true ∨ OthersIdle w k) ∧ (c.pc = .readLst → OthersIdle w k)
  | _ => True

theorem Orderly.serial {w : World} {a : Label} (h : Orderly w a) : Serial w a := by
  cases a <;> simp only [Serial] <;> try trivial
  intro c hk
  exact ⟨fun hp _ => (h c hk).1 hp, (h c hk).2⟩

def SReach (w : World) : Prop := Reach Serial init w
def OReach (w : World) : Prop := Reach Orderly init w

theorem OReach.sreach {w : World} (h : OReach w) : SReach w := h.mono (fun _ _ => Orderly.serial)

theorem sameControl_active {c c' : Call} (hs : sameControl c c') : c'.active = c.active := by
  simp [Call.active, hs.1]

/-! ### `Serial`: at most one API call in flight -/

def One (w : World) : Prop :=
  ∀ (j j' : Nat) (cj cj' : Call), w.calls[j]? = some cj → w.calls[j']? = some cj' →
    cj.active = true → cj'.active = true → j = j'

theorem set_look {w w' : World} {k : Nat} {c c' : Call} (hk : w.calls[k]? = some c)
    (hcalls : w'.calls = w.calls.set k c') (j : Nat) (cj : Call) (hj : w'.calls[j]? = some cj) :
    (j = k ∧ cj = c') ∨ (j ≠ k ∧ w.calls[j]? = some cj) := by
  have hlt := lt_of_getElem? hk
  rw [hcalls, List.getElem?_set] at hj
  by_cases hkj : k = j
  · subst hkj; simp only [hlt, if_true, Option.some.injEq] at hj; exact Or.inl ⟨rfl, hj.symm⟩
  · simp only [hkj, if_false] at hj; exact Or.inr ⟨fun e => hkj e.symm, hj⟩

theorem append_look {calls : List Call} {c0 : Call} (j : Nat) (cj : Call) (hj : (calls ++ [c0])[j]? = some cj) :
    calls[j]? = some cj ∨ (j = calls.length ∧ cj = c0) := by
  rw [List.getElem?_append] at hj
  split at hj
  · exact Or.inl hj
  · right
    cases hh : j - calls.length with
    | zero => simp only [hh, List.getElem?_cons_zero, Option.some.injEq] at hj; exact ⟨by omega, hj.symm⟩
    | succ n => simp [hh] at hj

theorem One.setCall {w w' : World} (h : One w) {k : Nat} {c c' : Call} (hk : w.calls[k]? = some c)
    (hcalls : w'.calls = w.calls.set k c') (hact : c'.active = true → c.active = true ∨ OthersIdle w k) : One w' := by
  intro j j' cj cj' hj hj' ha ha'
  rcases set_look hk hcalls j cj hj with ⟨rfl, rfl⟩ | ⟨hne, hj0⟩ <;>
    rcases set_look hk hcalls j' cj' hj' with ⟨rfl, rfl⟩ | ⟨hne', hj0'⟩
  · rfl
  · rcases hact ha with hca | hoi
    · exact h _ _ _ _ hk hj0' hca ha'
    · rw [hoi j' cj' hj0' hne'] at ha'; cases ha'
  · rcases hact ha' with hca | hoi
    · exact h _ _ _ _ hj0 hk ha hca
    · rw [hoi j cj hj0 hne] at ha; cases ha
  · exact h _ _ _ _ hj0 hj0' ha ha'

theorem One.sameCalls {w w' : World} (h : One w) (hc : w'.calls = w.calls) : One w' := by
  intro j j' cj cj' hj hj'; rw [hc] at hj hj'; exact h j j' cj cj' hj hj'

theorem one_step {w w' : World} {a : Label} (h : One w) (hrel : Rel w a w') (hord : Serial w a) : One w' := by
  cases hrel
  case spawn kind tmo addr =>
    intro j j' cj cj' hj hj' ha ha'
    have hnew : ∀ (cj : Call), cj = { kind, tmo, addr, pc := firstPc kind } → cj.active = true → False := by
      intro cj e ha; subst e; cases kind <;> simp [Call.active, firstPc] at ha
    rcases append_look j cj hj with hj0 | ⟨_, e⟩ <;> rcases append_look j' cj' hj' with hj0' | ⟨_, e'⟩
    · exact h _ _ _ _ hj0 hj0' ha ha'
    · exact absurd ha' (fun h => hnew _ e' h)
    · exact absurd ha (fun h => hnew _ e h)
    · exact absurd ha (fun h => hnew _ e h)
  case bindRefused k c hk hpc hr =>
    exact h.setCall hk rfl (fun ha => by simp [Call.active] at ha)
  case bindParseBad k c hk hpc hr ha =>
    exact h.setCall hk rfl (fun ha => by simp [Call.active] at ha)
  case bindBusy k c a hk hpc hr ha hu =>
    exact h.setCall hk rfl (fun ha => by simp [Call.active] at ha)
  case bindOk k c a hk hpc hr ha hu hkd =>
    exact h.setCall hk rfl (fun ha => by simp [Call.active] at ha)
  case listenOk k c a hk hpc hr ha hu hkd =>
    refine h.setCall hk rfl (fun _ => Or.inr ?_)
    rcases (hord c hk).1 hpc hkd with h1 | h1
    · rw [hr] at h1; cases h1
    · exact h1
  case readNone k c hk hpc hl =>
    exact h.setCall hk rfl (fun _ => Or.inr ((hord c hk).2 hpc))
  case readSome k c l hk hpc hl =>
    exact h.setCall hk rfl (fun _ => Or.inr ((hord c hk).2 hpc))
  case loopGo k c hk hpc hr =>
    exact h.setCall hk rfl (fun _ => Or.inl (by simp [Call.active, hpc]))
  case loopStop k c hk hpc hr =>
    exact h.setCall hk rfl (fun _ => Or.inl (by simp [Call.active, hpc]))
  case refreshNil k c hk hpc hl =>
    exact h.setCall hk rfl (fun _ => Or.inl (by simp [Call.active, hpc]))
  case refreshOk k c f hk hpc hl ho =>
    exact h.setCall hk rfl (fun _ => Or.inl (by simp [Call.active, hpc]))
  case refreshClosed k c f hk hpc hl ho =>
    exact h.setCall hk rfl (fun _ => Or.inl (by simp [Call.active, hpc]))
  case acceptNil k c hk hpc hl =>
    exact h.setCall hk rfl (fun _ => Or.inl (by simp [Call.active, hpc]))
  case acceptConn k c l i hk hpc hl ho hf =>
    exact h.setCall hk rfl (fun _ => Or.inl (by simp [Call.active, hpc]))
  case acceptClosed k c l hk hpc hl ho =>
    exact h.setCall hk rfl (fun _ => Or.inl (by simp [Call.active, hpc]))
  case count k c hk hpc =>
    exact h.setCall hk rfl (fun _ => Or.inl (by simp [Call.active, hpc]))
  case startHandler k c hk hpc =>
    exact h.setCall hk rfl (fun _ => Or.inl (by simp [Call.active, hpc]))
  case timeoutIdle k c hk hpc h0 =>
    exact h.setCall hk rfl (fun _ => Or.inl (by simp [Call.active, hpc]))
  case timeoutBusy k c hk hpc h0 =>
    exact h.setCall hk rfl (fun _ => Or.inl (by simp [Call.active, hpc]))
  case errRunning k c hk hpc hr =>
    exact h.setCall hk rfl (fun _ => Or.inl (by simp [Call.active, hpc]))
  case errStopped k c hk hpc hr =>
    exact h.setCall hk rfl (fun _ => Or.inl (by simp [Call.active, hpc]))
  case teardown k c hk hpc =>
    exact h.setCall (c' := { c with pc := .waiting }) hk (by simp only [setCall_calls, teardownShared_calls])
      (fun _ => Or.inl (by simp [Call.active, hpc]))
  case waitDone k c hk hpc hwg =>
    exact h.setCall hk rfl (fun ha => by simp [Call.active] at ha)
  case expire k c l hk hpc hl ho harm =>
    exact h.setCall hk rfl (fun _ => Or.inl (by simp [Call.active, hpc]))
  case wgDone i x co hi hp hco hwg =>
    have hs : sameControl co { co with wg := co.wg - 1 } := ⟨rfl, rfl, rfl, rfl, rfl, rfl, rfl, rfl⟩
    exact h.setCall hco rfl (fun ha => Or.inl (by rw [← sameControl_active hs]; exact ha))
  case ctxCancel k c hk =>
    have hs : sameControl c { c with ctxDone := true } := ⟨rfl, rfl, rfl, rfl, rfl, rfl, rfl, rfl⟩
    exact h.setCall hk rfl (fun ha => Or.inl (by rw [← sameControl_active hs]; exact ha))
  case shutdown => exact h.sameCalls (stepShutdown_calls w)
  all_goals exact h.sameCalls rfl

theorem one_init : One init := fun j j' cj cj' hj => by simp [init] at hj

theorem sreach_one {w : World} (h : SReach w) : One w :=
  Reach.induct One one_init (fun _ _ _ _ hi hp hs => one_step hi (rel_of_step hs) hp) h

/-- two different calls in flight: not a state of serial use -/
theorem not_one_of_two_active {w : World} (j j' : Nat) (hne : j ≠ j')
    (h : (w.calls[j]?).map Call.active = some true) (h' : (w.calls[j']?).map Call.active = some true) : ¬ One w := by
  intro ho
  cases hj : w.calls[j]? with
  | none => simp [hj] at h
  | some cj =>
    cases hj' : w.calls[j']? with
    | none => simp [hj'] at h'
    | some cj' =>
      simp only [hj, Option.map_some, Option.some.injEq] at h
      simp only [hj', Option.map_some, Option.some.injEq] at h'
      exact hne (ho j j' cj cj' hj hj' h h')

/-! ### `Orderly`: while a serving call waits for its handlers the shared state is the initial one -/

def AfterOk (w : World) : Prop :=
  ∀ (k : Nat) (c : Call), w.calls[k]? = some c → c.pc = .waiting → w.lst = none ∧ w.running = false ∧ w.addrF = none

theorem AfterOk.setCall {w w' : World} (h : AfterOk w) {k : Nat} {c c' : Call} (hk : w.calls[k]? = some c)
    (hcalls : w'.calls = w.calls.set k c')
    (hshared : (w'.lst = w.lst ∧ w'.running = w.running ∧ w'.addrF = w.addrF) ∨
               (w'.lst = none ∧ w'.running = false ∧ w'.addrF = none) ∨ OthersIdle w k)
    (hown : c'.pc = .waiting → w'.lst = none ∧ w'.running = false ∧ w'.addrF = none) : AfterOk w' := by
  intro j cj hj hp
  rcases set_look hk hcalls j cj hj with ⟨rfl, rfl⟩ | ⟨hne, hj0⟩
  · exact hown hp
  · rcases hshared with ⟨e1, e2, e3⟩ | hn | hoi
    · rw [e1, e2, e3]; exact h j cj hj0 hp
    · exact hn
    · have := hoi j cj hj0 hne
      simp [Call.active, hp] at this

theorem afterOk_step {w w' : World} {a : Label} (h : AfterOk w) (hrel : Rel w a w') (hord : Orderly w a) :
    AfterOk w' := by
  cases hrel
  case spawn kind tmo addr =>
    intro j cj hj hp
    rcases append_look j cj hj with hj0 | ⟨_, e⟩
    · exact h j cj hj0 hp
    · subst e; cases kind <;> simp [firstPc] at hp
  case bindRefused k c hk hpc hr =>
    exact h.setCall hk rfl (Or.inl ⟨rfl, rfl, rfl⟩) (fun hp => by cases hp)
  case bindParseBad k c hk hpc hr ha =>
    exact h.setCall hk rfl (Or.inl ⟨rfl, rfl, rfl⟩) (fun hp => by cases hp)
  case bindBusy k c a hk hpc hr ha hu =>
    refine h.setCall hk rfl (Or.inr (Or.inr ?_)) (fun hp => by cases hp)
    rcases (hord c hk).1 hpc with h1 | h1
    · rw [hr] at h1; cases h1
    · exact h1
  case bindOk k c a hk hpc hr ha hu hkd =>
    refine h.setCall hk rfl (Or.inr (Or.inr ?_)) (fun hp => by cases hp)
    rcases (hord c hk).1 hpc with h1 | h1
    · rw [hr] at h1; cases h1
    · exact h1
  case listenOk k c a hk hpc hr ha hu hkd =>
    refine h.setCall hk rfl (Or.inr (Or.inr ?_)) (fun hp => by cases hp)
    rcases (hord c hk).1 hpc with h1 | h1
    · rw [hr] at h1; cases h1
    · exact h1
  case readNone k c hk hpc hl =>
    exact h.setCall hk rfl (Or.inl ⟨rfl, rfl, rfl⟩) (fun hp => by cases hp)
  case readSome k c l hk hpc hl =>
    exact h.setCall hk rfl (Or.inr (Or.inr ((hord c hk).2 hpc))) (fun hp => by cases hp)
  case loopGo k c hk hpc hr =>
    exact h.setCall hk rfl (Or.inl ⟨rfl, rfl, rfl⟩) (fun hp => by split at hp <;> cases hp)
  case loopStop k c hk hpc hr =>
    exact h.setCall hk rfl (Or.inl ⟨rfl, rfl, rfl⟩) (fun hp => by cases hp)
  case refreshNil k c hk hpc hl =>
    exact h.setCall hk rfl (Or.inl ⟨rfl, rfl, rfl⟩) (fun hp => by cases hp)
  case refreshOk k c f hk hpc hl ho =>
    exact h.setCall hk rfl (Or.inl ⟨rfl, rfl, rfl⟩) (fun hp => by cases hp)
  case refreshClosed k c f hk hpc hl ho =>
    exact h.setCall hk rfl (Or.inl ⟨rfl, rfl, rfl⟩) (fun hp => by cases hp)
  case acceptNil k c hk hpc hl =>
    exact h.setCall hk rfl (Or.inl ⟨rfl, rfl, rfl⟩) (fun hp => by cases hp)
  case acceptConn k c l i hk hpc hl ho hf =>
    exact h.setCall hk rfl (Or.inl ⟨rfl, rfl, rfl⟩) (fun hp => by cases hp)
  case acceptClosed k c l hk hpc hl ho =>
    exact h.setCall hk rfl (Or.inl ⟨rfl, rfl, rfl⟩) (fun hp => by cases hp)
  case count k c hk hpc =>
    exact h.setCall hk rfl (Or.inl ⟨rfl, rfl, rfl⟩) (fun hp => by cases hp)
  case startHandler k c hk hpc =>
    exact h.setCall hk rfl (Or.inl ⟨rfl, rfl, rfl⟩) (fun hp => by cases hp)
  case timeoutIdle k c hk hpc h0 =>
    exact h.setCall hk rfl (Or.inl ⟨rfl, rfl, rfl⟩) (fun hp => by cases hp)
  case timeoutBusy k c hk hpc h0 =>
    exact h.setCall hk rfl (Or.inl ⟨rfl, rfl, rfl⟩) (fun hp => by cases hp)
  case errRunning k c hk hpc hr =>
    exact h.setCall hk rfl (Or.inl ⟨rfl, rfl, rfl⟩) (fun hp => by cases hp)
  case errStopped k c hk hpc hr =>
    exact h.setCall hk rfl (Or.inl ⟨rfl, rfl, rfl⟩) (fun hp => by cases hp)
  case teardown k c hk hpc =>
    exact h.setCall (c' := { c with pc := .waiting }) hk (by simp only [setCall_calls, teardownShared_calls])
      (Or.inr (Or.inl ⟨rfl, rfl, rfl⟩)) (fun _ => ⟨rfl, rfl, rfl⟩)
  case waitDone k c hk hpc hwg =>
    exact h.setCall hk rfl (Or.inl ⟨rfl, rfl, rfl⟩) (fun hp => by cases hp)
  case expire k c l hk hpc hl ho harm =>
    exact h.setCall hk rfl (Or.inl ⟨rfl, rfl, rfl⟩) (fun hp => by cases hp)
  case wgDone i x co hi hp hco hwg =>
    exact h.setCall hco rfl (Or.inl ⟨rfl, rfl, rfl⟩) (fun hp' => h _ co hco hp')
  case ctxCancel k c hk =>
    exact h.setCall hk rfl (Or.inl ⟨rfl, rfl, rfl⟩) (fun hp' => h k c hk hp')
  case shutdown =>
    intro j cj hj hp
    rw [stepShutdown_calls] at hj
    obtain ⟨a1, _, a3⟩ := h j cj hj hp
    exact ⟨by rw [stepShutdown_lst]; exact a1, stepShutdown_running w, by rw [stepShutdown_addrF]; exact a3⟩
  all_goals exact fun j cj hj hp => h j cj hj hp

theorem afterOk_init : AfterOk init := fun k c hk => by simp [init] at hk

theorem oreach_after {w : World} (h : OReach w) : AfterOk w :=
  Reach.induct AfterOk afterOk_init (fun _ _ _ _ hi hp hs => afterOk_step hi (rel_of_step hs) hp) h

/-- in every state reachable under the orderly discipline: the accounting invariant, valid listener indices, the
    serving facts, at most one call in flight, and the initial shared state while a serving call waits -/
theorem oreach_invs {w : World} (h : OReach w) : Inv w ∧ Valid w ∧ Srv w ∧ One w ∧ AfterOk w :=
  let ⟨a, b, c⟩ := reach_invs h
  ⟨a, b, c, sreach_one h.sreach, oreach_after h⟩

end Varlink.Life
