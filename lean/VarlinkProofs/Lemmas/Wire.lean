/-
  How the service's call decoder and the client's reply decoder treat the members the other side writes.
-/
import Varlink.Client
namespace Varlink

theorem applyMember_method (c : CallIn) (s : Bytes) :
    applyMember c (str "method") (.str s) = some { c with method := s } := by
  have k : keyMatches (str "method") (str "method") = true := by decide
  unfold applyMember; simp only [k, if_true]

theorem applyMember_params (c : CallIn) (v : JVal) (hv : v ≠ .null) :
    applyMember c (str "parameters") v = some { c with params := some v } := by
  have k1 : keyMatches (str "method") (str "parameters") = false := by decide
  have k2 : keyMatches (str "parameters") (str "parameters") = true := by decide
  unfold applyMember
  cases v <;> simp_all

theorem applyMember_more (c : CallIn) (b : Bool) :
    applyMember c (str "more") (.bool b) = some { c with more := b } := by
  have k1 : keyMatches (str "method") (str "more") = false := by decide
  have k2 : keyMatches (str "parameters") (str "more") = false := by decide
  have k3 : keyMatches (str "more") (str "more") = true := by decide
  unfold applyMember
  simp [k1, k2, k3, setBool]

theorem applyMember_oneway (c : CallIn) (b : Bool) :
    applyMember c (str "oneway") (.bool b) = some { c with oneway := b } := by
  have k1 : keyMatches (str "method") (str "oneway") = false := by decide
  have k2 : keyMatches (str "parameters") (str "oneway") = false := by decide
  have k3 : keyMatches (str "more") (str "oneway") = false := by decide
  have k4 : keyMatches (str "oneway") (str "oneway") = true := by decide
  unfold applyMember
  simp [k1, k2, k3, k4, setBool]

theorem applyMember_upgrade (c : CallIn) (b : Bool) :
    applyMember c (str "upgrade") (.bool b) = some { c with upgrade := b } := by
  have k1 : keyMatches (str "method") (str "upgrade") = false := by decide
  have k2 : keyMatches (str "parameters") (str "upgrade") = false := by decide
  have k3 : keyMatches (str "more") (str "upgrade") = false := by decide
  have k4 : keyMatches (str "oneway") (str "upgrade") = false := by decide
  have k5 : keyMatches (str "upgrade") (str "upgrade") = true := by decide
  unfold applyMember
  simp [k1, k2, k3, k4, k5, setBool]

theorem applyReplyMember_params (r : ReplyIn) (v : JVal) (hv : v ≠ .null) :
    applyReplyMember r (str "parameters") v = some { r with params := some v } := by
  have k : keyMatches (str "parameters") (str "parameters") = true := by decide
  unfold applyReplyMember
  cases v <;> simp_all

theorem applyReplyMember_continues (r : ReplyIn) (b : Bool) :
    applyReplyMember r (str "continues") (.bool b) = some { r with continues := b } := by
  have k1 : keyMatches (str "parameters") (str "continues") = false := by decide
  have k2 : keyMatches (str "continues") (str "continues") = true := by decide
  unfold applyReplyMember
  simp [k1, k2, setBool]

theorem applyReplyMember_error (r : ReplyIn) (s : Bytes) :
    applyReplyMember r (str "error") (.str s) = some { r with error := s } := by
  have k1 : keyMatches (str "parameters") (str "error") = false := by decide
  have k2 : keyMatches (str "continues") (str "error") = false := by decide
  have k3 : keyMatches (str "error") (str "error") = true := by decide
  unfold applyReplyMember
  simp [k1, k2, k3]

/-- the service decodes the client's call object to exactly what was requested -/
theorem applyMembers_callObj (method : Bytes) (p : Option JVal) (hp : p ≠ some .null)
    (more oneway upgrade : Bool) :
    ∃ ms, callObj method p more oneway upgrade = .obj ms ∧
      applyMembers {} ms = some { method := method, params := p, more := more,
                                  oneway := oneway, upgrade := upgrade } := by
  unfold callObj
  refine ⟨_, rfl, ?_⟩
  cases p with
  | none =>
    cases more <;> cases oneway <;> cases upgrade <;>
      simp [boolMember, applyMembers, applyMember_method, applyMember_more, applyMember_oneway, applyMember_upgrade]
  | some v =>
    have hv : v ≠ .null := fun e => hp (by rw [e])
    cases more <;> cases oneway <;> cases upgrade <;>
      simp [boolMember, applyMembers, applyMember_method, applyMember_params _ v hv, applyMember_more,
        applyMember_oneway, applyMember_upgrade]

/-- the client decodes the service's reply object to exactly what was sent -/
theorem applyReplyMembers_replyObj (f : ReplyFrame) (hp : f.params ≠ some .null) :
    ∃ ms, replyObj f = .obj ms ∧
      applyReplyMembers {} ms = some { params := f.params, continues := f.continues, error := f.error } := by
  unfold replyObj
  refine ⟨_, rfl, ?_⟩
  obtain ⟨params, continues, error⟩ := f
  cases params with
  | none =>
    cases continues <;> cases error <;>
      simp [applyReplyMembers, applyReplyMember_continues, applyReplyMember_error]
  | some v =>
    have hv : v ≠ .null := fun e => hp (by simp [e])
    cases continues <;> cases error <;>
      simp [applyReplyMembers, applyReplyMember_params _ v hv, applyReplyMember_continues, applyReplyMember_error]

end Varlink
