/-
  Basic lemmas for the lifecycle transition system: counting under list updates, `firstIdx`,
  induction over `Reach`, and the frame facts of the world-update helpers.
-/
import Varlink.Lifecycle
namespace Varlink.Life

/-- number of elements satisfying `p`, as an `Int` (the connection counter is an `int64`) -/
def cnt {α} (p : α → Bool) (l : List α) : Int := ((l.countP p : Nat) : Int)

theorem cnt_nil {α} (p : α → Bool) : cnt p [] = 0 := rfl

theorem cnt_cons {α} (p : α → Bool) (a : α) (l : List α) :
    cnt p (a :: l) = cnt p l + (if p a then 1 else 0) := by
  unfold cnt
  rw [List.countP_cons]
  split <;> simp

theorem cnt_nonneg {α} (p : α → Bool) (l : List α) : 0 ≤ cnt p l := by
  unfold cnt; omega

theorem cnt_append_single {α} (p : α → Bool) (l : List α) (a : α) :
    cnt p (l ++ [a]) = cnt p l + (if p a then 1 else 0) := by
  unfold cnt
  rw [List.countP_append]
  simp only [List.countP_cons, List.countP_nil]
  split <;> simp

theorem cnt_set {α} (p : α → Bool) {l : List α} {i : Nat} {x : α} (a : α) (h : l[i]? = some x) :
    cnt p (l.set i a) = cnt p l - (if p x then 1 else 0) + (if p a then 1 else 0) := by
  induction l generalizing i with
  | nil => simp at h
  | cons y ys ih =>
    cases i with
    | zero =>
      simp only [List.getElem?_cons_zero, Option.some.injEq] at h
      subst h
      simp only [List.set_cons_zero, cnt_cons]
      omega
    | succ j =>
      simp only [List.getElem?_cons_succ] at h
      simp only [List.set_cons_succ, cnt_cons, ih h]
      omega

theorem modify_eq_set {α} {l : List α} {i : Nat} {x : α} (f : α → α) (h : l[i]? = some x) :
    l.modify i f = l.set i (f x) := by
  induction l generalizing i with
  | nil => simp at h
  | cons y ys ih =>
    cases i with
    | zero =>
      simp only [List.getElem?_cons_zero, Option.some.injEq] at h
      subst h
      simp
    | succ j =>
      simp only [List.getElem?_cons_succ] at h
      simp [ih h]

theorem modify_none {α} {l : List α} {i : Nat} (f : α → α) (h : l[i]? = none) : l.modify i f = l := by
  induction l generalizing i with
  | nil => simp
  | cons y ys ih =>
    cases i with
    | zero => simp at h
    | succ j =>
      simp only [List.getElem?_cons_succ] at h
      simp [ih h]

theorem cnt_modify {α} (p : α → Bool) {l : List α} {i : Nat} {x : α} (f : α → α) (h : l[i]? = some x) :
    cnt p (l.modify i f) = cnt p l - (if p x then 1 else 0) + (if p (f x) then 1 else 0) := by
  rw [modify_eq_set f h, cnt_set p _ h]

theorem cnt_map_congr {α} (p : α → Bool) (f : α → α) (l : List α) (h : ∀ x, p (f x) = p x) :
    cnt p (l.map f) = cnt p l := by
  induction l with
  | nil => rfl
  | cons y ys ih => simp only [List.map_cons, cnt_cons, ih, h]

theorem cnt_pos_of_mem {α} (p : α → Bool) {l : List α} {i : Nat} {x : α} (h : l[i]? = some x) (hp : p x = true) :
    1 ≤ cnt p l := by
  induction l generalizing i with
  | nil => simp at h
  | cons y ys ih =>
    rw [cnt_cons]
    cases i with
    | zero =>
      simp only [List.getElem?_cons_zero, Option.some.injEq] at h
      subst h
      have := cnt_nonneg p ys
      simp [hp]; omega
    | succ j =>
      simp only [List.getElem?_cons_succ] at h
      have := ih h
      split <;> omega

theorem cnt_zero_forall {α} (p : α → Bool) {l : List α} (h : cnt p l = 0) {i : Nat} {x : α}
    (hx : l[i]? = some x) : p x = false := by
  cases hp : p x with
  | false => rfl
  | true => have := cnt_pos_of_mem p hx hp; omega

theorem firstIdx_some {α} (p : α → Bool) {l : List α} {i : Nat} (h : firstIdx p l = some i) :
    ∃ x, l[i]? = some x ∧ p x = true := by
  induction l generalizing i with
  | nil => simp [firstIdx] at h
  | cons y ys ih =>
    simp only [firstIdx] at h
    cases hy : p y with
    | true =>
      simp only [hy, if_true, Option.some.injEq] at h
      subst h
      exact ⟨y, by simp, hy⟩
    | false =>
      simp only [hy, Bool.false_eq_true, if_false] at h
      cases hr : firstIdx p ys with
      | none => simp [hr] at h
      | some j =>
        simp only [hr, Option.map_some, Option.some.injEq] at h
        subst h
        obtain ⟨x, hx, hpx⟩ := ih hr
        exact ⟨x, by simpa using hx, hpx⟩

theorem firstIdx_none {α} (p : α → Bool) {l : List α} (h : firstIdx p l = none) {i : Nat} {x : α}
    (hx : l[i]? = some x) : p x = false := by
  induction l generalizing i with
  | nil => simp at hx
  | cons y ys ih =>
    simp only [firstIdx] at h
    cases hy : p y with
    | true => simp [hy] at h
    | false =>
      simp only [hy, Bool.false_eq_true, if_false] at h
      cases hr : firstIdx p ys with
      | some j => simp [hr] at h
      | none =>
        cases i with
        | zero =>
          simp only [List.getElem?_cons_zero, Option.some.injEq] at hx
          subst hx
          exact hy
        | succ j =>
          simp only [List.getElem?_cons_succ] at hx
          exact ih hr hx

/-! ### induction over reachability -/

theorem Reach.induct {P : World → Label → Prop} {w0 : World} (I : World → Prop) (h0 : I w0)
    (hstep : ∀ w a w', Reach P w0 w → I w → P w a → Life.step w a = some w' → I w')
    {w : World} (h : Reach P w0 w) : I w := by
  induction h with
  | refl => exact h0
  | step hr hp hs ih => exact hstep _ _ _ hr ih hp hs

theorem Reach.mono {P Q : World → Label → Prop} {w0 w : World} (hpq : ∀ w a, P w a → Q w a)
    (h : Reach P w0 w) : Reach Q w0 w := by
  induction h with
  | refl => exact .refl
  | step _ hp hs ih => exact .step ih (hpq _ _ hp) hs

theorem Reach.trans {P : World → Label → Prop} {w0 w1 w2 : World}
    (h1 : Reach P w0 w1) (h2 : Reach P w1 w2) : Reach P w0 w2 := by
  induction h2 with
  | refl => exact h1
  | step _ hp hs ih => exact .step ih hp hs

theorem Reach.always {P : World → Label → Prop} {w0 w : World} (h : Reach P w0 w) : Reach Always w0 w :=
  h.mono (fun _ _ _ => trivial)

/-- a run of enabled labels is a reachability witness -/
theorem reach_of_run {w0 : World} : ∀ (ls : List Label) {w : World}, run w0 ls = some w → Reach Always w0 w := by
  intro ls
  induction ls generalizing w0 with
  | nil => intro w h; simp only [run, Option.some.injEq] at h; subst h; exact .refl
  | cons a as ih =>
    intro w h
    simp only [run] at h
    cases hs : step w0 a with
    | none => simp [hs] at h
    | some w1 =>
      simp only [hs] at h
      exact Reach.trans (.step .refl trivial hs) (ih h)

/-! ### frame facts of the update helpers -/

@[simp] theorem setCall_conns (w : World) (k : Nat) (c : Call) : (w.setCall k c).conns = w.conns := rfl
@[simp] theorem setCall_lsnrs (w : World) (k : Nat) (c : Call) : (w.setCall k c).lsnrs = w.lsnrs := rfl
@[simp] theorem setCall_running (w : World) (k : Nat) (c : Call) : (w.setCall k c).running = w.running := rfl
@[simp] theorem setCall_lst (w : World) (k : Nat) (c : Call) : (w.setCall k c).lst = w.lst := rfl
@[simp] theorem setCall_counter (w : World) (k : Nat) (c : Call) : (w.setCall k c).counter = w.counter := rfl
@[simp] theorem setCall_addrF (w : World) (k : Nat) (c : Call) : (w.setCall k c).addrF = w.addrF := rfl
@[simp] theorem setCall_wgPanic (w : World) (k : Nat) (c : Call) : (w.setCall k c).wgPanic = w.wgPanic := rfl
@[simp] theorem setCall_calls (w : World) (k : Nat) (c : Call) : (w.setCall k c).calls = w.calls.set k c := rfl

@[simp] theorem setConn_conns (w : World) (i : Nat) (x : Conn) : (w.setConn i x).conns = w.conns.set i x := rfl
@[simp] theorem setConn_calls (w : World) (i : Nat) (x : Conn) : (w.setConn i x).calls = w.calls := rfl
@[simp] theorem setConn_lsnrs (w : World) (i : Nat) (x : Conn) : (w.setConn i x).lsnrs = w.lsnrs := rfl
@[simp] theorem setConn_running (w : World) (i : Nat) (x : Conn) : (w.setConn i x).running = w.running := rfl
@[simp] theorem setConn_lst (w : World) (i : Nat) (x : Conn) : (w.setConn i x).lst = w.lst := rfl
@[simp] theorem setConn_counter (w : World) (i : Nat) (x : Conn) : (w.setConn i x).counter = w.counter := rfl
@[simp] theorem setConn_addrF (w : World) (i : Nat) (x : Conn) : (w.setConn i x).addrF = w.addrF := rfl
@[simp] theorem setConn_wgPanic (w : World) (i : Nat) (x : Conn) : (w.setConn i x).wgPanic = w.wgPanic := rfl

@[simp] theorem setPhase_calls (w : World) (i : Nat) (p : Phase) : (w.setPhase i p).calls = w.calls := rfl
@[simp] theorem setPhase_lsnrs (w : World) (i : Nat) (p : Phase) : (w.setPhase i p).lsnrs = w.lsnrs := rfl
@[simp] theorem setPhase_running (w : World) (i : Nat) (p : Phase) : (w.setPhase i p).running = w.running := rfl
@[simp] theorem setPhase_lst (w : World) (i : Nat) (p : Phase) : (w.setPhase i p).lst = w.lst := rfl
@[simp] theorem setPhase_counter (w : World) (i : Nat) (p : Phase) : (w.setPhase i p).counter = w.counter := rfl
@[simp] theorem setPhase_addrF (w : World) (i : Nat) (p : Phase) : (w.setPhase i p).addrF = w.addrF := rfl
@[simp] theorem setPhase_wgPanic (w : World) (i : Nat) (p : Phase) : (w.setPhase i p).wgPanic = w.wgPanic := rfl

@[simp] theorem closeL_calls (w : World) (l : Nat) : (closeL w l).calls = w.calls := rfl
@[simp] theorem closeL_running (w : World) (l : Nat) : (closeL w l).running = w.running := rfl
@[simp] theorem closeL_lst (w : World) (l : Nat) : (closeL w l).lst = w.lst := rfl
@[simp] theorem closeL_counter (w : World) (l : Nat) : (closeL w l).counter = w.counter := rfl
@[simp] theorem closeL_addrF (w : World) (l : Nat) : (closeL w l).addrF = w.addrF := rfl
@[simp] theorem closeL_wgPanic (w : World) (l : Nat) : (closeL w l).wgPanic = w.wgPanic := rfl
@[simp] theorem closeL_conns (w : World) (l : Nat) : (closeL w l).conns = w.conns.map (dropIfWaiting l) := rfl

@[simp] theorem setDeadlineL_calls (w : World) (f : Nat) (b : Bool) : (setDeadlineL w f b).calls = w.calls := rfl
@[simp] theorem setDeadlineL_conns (w : World) (f : Nat) (b : Bool) : (setDeadlineL w f b).conns = w.conns := rfl
@[simp] theorem setDeadlineL_running (w : World) (f : Nat) (b : Bool) : (setDeadlineL w f b).running = w.running := rfl
@[simp] theorem setDeadlineL_lst (w : World) (f : Nat) (b : Bool) : (setDeadlineL w f b).lst = w.lst := rfl
@[simp] theorem setDeadlineL_counter (w : World) (f : Nat) (b : Bool) : (setDeadlineL w f b).counter = w.counter := rfl
@[simp] theorem setDeadlineL_addrF (w : World) (f : Nat) (b : Bool) : (setDeadlineL w f b).addrF = w.addrF := rfl
@[simp] theorem setDeadlineL_wgPanic (w : World) (f : Nat) (b : Bool) : (setDeadlineL w f b).wgPanic = w.wgPanic := rfl

@[simp] theorem takeConn_calls (w : World) (i k : Nat) : (takeConn w i k).calls = w.calls := rfl
@[simp] theorem takeConn_lsnrs (w : World) (i k : Nat) : (takeConn w i k).lsnrs = w.lsnrs := rfl
@[simp] theorem takeConn_running (w : World) (i k : Nat) : (takeConn w i k).running = w.running := rfl
@[simp] theorem takeConn_lst (w : World) (i k : Nat) : (takeConn w i k).lst = w.lst := rfl
@[simp] theorem takeConn_counter (w : World) (i k : Nat) : (takeConn w i k).counter = w.counter := rfl
@[simp] theorem takeConn_addrF (w : World) (i k : Nat) : (takeConn w i k).addrF = w.addrF := rfl
@[simp] theorem takeConn_wgPanic (w : World) (i k : Nat) : (takeConn w i k).wgPanic = w.wgPanic := rfl

@[simp] theorem bound_calls (w : World) (a : Nat) : (bound w a).calls = w.calls := rfl
@[simp] theorem bound_conns (w : World) (a : Nat) : (bound w a).conns = w.conns := rfl
@[simp] theorem bound_running (w : World) (a : Nat) : (bound w a).running = w.running := rfl
@[simp] theorem bound_counter (w : World) (a : Nat) : (bound w a).counter = w.counter := rfl
@[simp] theorem bound_wgPanic (w : World) (a : Nat) : (bound w a).wgPanic = w.wgPanic := rfl
@[simp] theorem bound_lst (w : World) (a : Nat) : (bound w a).lst = some w.lsnrs.length := rfl
@[simp] theorem bound_addrF (w : World) (a : Nat) : (bound w a).addrF = some a := rfl
@[simp] theorem bound_lsnrs (w : World) (a : Nat) : (bound w a).lsnrs = w.lsnrs ++ [{ addr := a }] := rfl

/-- the phase of a connection that `closeL` touches: only backlog → dropped -/
theorem dropIfWaiting_phase (l : Nat) (x : Conn) :
    (dropIfWaiting l x).phase = x.phase ∨ (x.phase = .backlog ∧ (dropIfWaiting l x).phase = .dropped) := by
  unfold dropIfWaiting
  split
  · rename_i h
    right
    simp only [waitsOn, Bool.and_eq_true, beq_iff_eq] at h
    exact ⟨h.1, rfl⟩
  · left; rfl

@[simp] theorem dropIfWaiting_owner (l : Nat) (x : Conn) : (dropIfWaiting l x).owner = x.owner := by
  unfold dropIfWaiting; split <;> rfl

@[simp] theorem dropIfWaiting_lsn (l : Nat) (x : Conn) : (dropIfWaiting l x).lsn = x.lsn := by
  unfold dropIfWaiting; split <;> rfl

end Varlink.Life
