/-
  Decimal literals of the stub model: `strconv.ParseInt (strconv.FormatInt i) = i` (used by
  VarlinkProofs/Props/C08.lean).
-/
import Varlink.Stub
namespace Varlink.Stub
open Varlink Varlink.Idl

/-! ## decimal literals -/

def dig (k : Nat) : UInt8 := (48 + k).toUInt8

theorem dig_facts : ∀ k, k < 10 → (48 ≤ dig k && dig k ≤ 57) = true ∧ (dig k).toNat - 48 = k ∧ dig k ≠ 45 := by
  decide

theorem digitsVal_append_one (l : Bytes) (k : Nat) (hk : k < 10) : ∀ acc,
    digitsVal (l ++ [dig k]) acc = (digitsVal l acc).map (fun a => a * 10 + k) := by
  induction l with
  | nil =>
    intro acc
    obtain ⟨h1, h2, _⟩ := dig_facts k hk
    simp [digitsVal, h1, h2]
  | cons c r ih =>
    intro acc
    simp only [List.cons_append, digitsVal]
    split
    · exact ih _
    · rfl

theorem digitsRev_spec : ∀ fuel n, n < 10 ^ fuel → fuel ≠ 0 →
    digitsVal (digitsRev fuel n).reverse 0 = some n ∧ (digitsRev fuel n) ≠ [] ∧
    (∀ c ∈ digitsRev fuel n, c ≠ 45)
  | 0, _, _, h => absurd rfl h
  | fuel + 1, n, hn, _ => by
    simp only [digitsRev]
    by_cases h10 : n < 10
    · obtain ⟨h1, h2, h3⟩ := dig_facts n h10
      have : (48 + n).toUInt8 = dig n := rfl
      simp only [h10, if_true, List.reverse_singleton, digitsVal, this, h1, h2]
      exact ⟨by simp, by simp, by simpa using h3⟩
    · have hf : fuel ≠ 0 := by
        intro e; subst e; simp at hn; omega
      have hlt : n / 10 < 10 ^ fuel := by
        rw [Nat.pow_succ] at hn
        omega
      obtain ⟨i1, i2, i3⟩ := digitsRev_spec fuel (n / 10) hlt hf
      have hk : n % 10 < 10 := Nat.mod_lt _ (by decide)
      have : (48 + n % 10).toUInt8 = dig (n % 10) := rfl
      simp only [h10, if_false, List.reverse_cons, this]
      refine ⟨?_, by simp, ?_⟩
      · rw [digitsVal_append_one _ _ hk, i1]
        simp
        omega
      · intro c hc
        rcases List.mem_cons.mp hc with e | e
        · exact e ▸ (dig_facts _ hk).2.2
        · exact i3 c e

theorem lt_pow_succ (n : Nat) : n < 10 ^ (n + 1) := by
  induction n with
  | zero => decide
  | succ k ih => rw [Nat.pow_succ]; omega

theorem natLit_spec (n : Nat) : digitsVal (natLit n) 0 = some n ∧ natLit n ≠ [] ∧ (∀ c ∈ natLit n, c ≠ 45) := by
  obtain ⟨h1, h2, h3⟩ := digitsRev_spec (n + 1) n (lt_pow_succ n) (by omega)
  refine ⟨h1, by simpa [natLit] using h2, ?_⟩
  intro c hc
  exact h3 c (by simpa [natLit] using hc)

theorem parseInt64_minus (r : Bytes) :
    parseInt64 (45 :: r) = (parseNat r).bind fun n => checkInt64 (- (n : Int)) := by
  unfold parseInt64
  exact if_pos rfl

theorem parseInt64_nonminus (c : UInt8) (r : Bytes) (h : c ≠ 45) :
    parseInt64 (c :: r) = (parseNat (c :: r)).bind fun n => checkInt64 (n : Int) := by
  unfold parseInt64
  exact if_neg h

theorem parseNat_natLit (m : Nat) : parseNat (natLit m) = some m := by
  obtain ⟨h1, h2, _⟩ := natLit_spec m
  cases hl : natLit m with
  | nil => exact absurd hl h2
  | cons c r => simp [parseNat, hl ▸ h1]

theorem natLit_head (m : Nat) : ∃ c r, natLit m = c :: r ∧ c ≠ 45 := by
  obtain ⟨_, h2, h3⟩ := natLit_spec m
  cases hl : natLit m with
  | nil => exact absurd hl h2
  | cons c r => exact ⟨c, r, rfl, h3 c (by simp [hl])⟩

theorem parseInt64_pos (m : Nat) : parseInt64 (natLit m) = checkInt64 (m : Int) := by
  obtain ⟨c, r, e, hc⟩ := natLit_head m
  have hp := parseNat_natLit m
  rw [e] at hp ⊢
  rw [parseInt64_nonminus c r hc, hp]
  rfl

theorem parseInt64_neg (m : Nat) : parseInt64 (45 :: natLit m) = checkInt64 (-(m : Int)) := by
  rw [parseInt64_minus, parseNat_natLit m]
  rfl

theorem checkInt64_of (i : Int) (h : inInt64 i = true) : checkInt64 i = some i := by
  simp only [checkInt64, h, if_true]

/-- **integers survive the wire**: `strconv.ParseInt(strconv.FormatInt(i))` -/
theorem parseInt64_intLit (i : Int) (h : inInt64 i = true) : parseInt64 (intLit i) = some i := by
  cases i with
  | ofNat n => exact (parseInt64_pos n).trans (checkInt64_of _ h)
  | negSucc n =>
    have e : -(((n + 1 : Nat)) : Int) = Int.negSucc n := Int.neg_ofNat_succ n
    exact (parseInt64_neg (n + 1)).trans (e ▸ checkInt64_of _ h)

end Varlink.Stub
