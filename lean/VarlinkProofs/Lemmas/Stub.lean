/-
  Lemmas about the stub model (lean/Varlink/Stub.lean): the JSON round trip of typed values
  (used by VarlinkProofs/Props/C08.lean).
-/
import VarlinkProofs.Lemmas.StubNum
namespace Varlink.Stub
open Varlink Varlink.Idl Varlink.Gen

def JMembers.keys : JMembers → List Bytes
  | .nil => []
  | .cons k _ r => k :: keys r

/-- every alias body has pairwise distinct field names in every struct -/
def AliasesOk (al : Aliases) : Prop := ∀ n ty, lookupAlias al n = some ty → tyFieldsDistinct ty = true

/-! ## equations for alias references (independent of the value) -/

theorem hasTypeF_named (al : Aliases) (f : Nat) (n : Bytes) (v : Val) (ty : Ty) (h : lookupAlias al n = some ty) :
    hasTypeF al (f + 1) (.named n) v = hasTypeF al f ty v := by
  cases v <;> simp [hasTypeF, h]

theorem hasTypeF_named_none (al : Aliases) (f : Nat) (n : Bytes) (v : Val) (h : lookupAlias al n = none) :
    hasTypeF al (f + 1) (.named n) v = false := by
  cases v <;> simp [hasTypeF, h]

theorem encodeF_named (al : Aliases) (f : Nat) (n : Bytes) (v : Val) (ty : Ty) (h : lookupAlias al n = some ty) :
    encodeF al (f + 1) (.named n) v = encodeF al f ty v := by
  cases v <;> simp [encodeF, h]

theorem decodeF_named (al : Aliases) (f : Nat) (n : Bytes) (j : JVal) (ty : Ty) (h : lookupAlias al n = some ty) :
    decodeF al (f + 1) (.named n) j = decodeF al f ty j := by
  cases j <;> simp [decodeF, h]

/-! ## null -/

theorem encode_null (al : Aliases) : ∀ (f : Nat) (t : Ty) (v : Val), hasTypeF al f t v = true →
    encodeF al f t v = some .null → v.encodesNull = true
  | 0, _, _, h, _ => by simp [hasTypeF] at h
  | f + 1, t, v, h, he => by
    cases t with
    | named n =>
      cases hl : lookupAlias al n with
      | none => rw [hasTypeF_named_none al f n v hl] at h; exact absurd h (by simp)
      | some ty =>
        rw [hasTypeF_named al f n v ty hl] at h
        rw [encodeF_named al f n v ty hl] at he
        exact encode_null al f ty v h he
    | maybe t' =>
      cases v <;> simp [hasTypeF] at h
      · rfl
      · rename_i v'
        simp only [encodeF] at he
        have := encode_null al f t' v' h.2 he
        simp [this] at h
    | _ =>
      cases v <;> simp [hasTypeF] at h <;> simp [encodeF] at he <;> (try subst he) <;> (try rfl) <;>
        (try (split at he <;> simp at he))

/-! ## object members and struct fields -/

theorem fieldTarget_mem (names : List Bytes) (k : Bytes) (h : k ∈ names) : fieldTarget names k = some k := by
  simp [fieldTarget, h]

theorem findMember_none (names : List Bytes) (n : Bytes) : ∀ ms : JMembers,
    (∀ k ∈ JMembers.keys ms, k ∈ names ∧ k ≠ n) → findMember names n ms = none
  | .nil, _ => rfl
  | .cons k v r, h => by
    have hk := h k (by simp [JMembers.keys])
    have ih := findMember_none names n r (fun x hx => h x (by simp [JMembers.keys, hx]))
    simp [findMember, fieldTarget_mem names k hk.1, hk.2, ih]

theorem encodeFields_keys (al : Aliases) : ∀ (f : Nat) (fs : Fields) (vs : ValList) (ms : JMembers),
    encodeFieldsF al f fs vs = some ms → ∀ k ∈ JMembers.keys ms, k ∈ fs.names
  | 0, _, _, _, h => by simp [encodeFieldsF] at h
  | f + 1, fs, vs, ms, h => by
    cases fs with
    | nil => cases vs <;> simp [encodeFieldsF] at h; subst h; simp [JMembers.keys]
    | bare => cases vs <;> simp [encodeFieldsF] at h
    | typed n t r =>
      cases vs with
      | nil => simp [encodeFieldsF] at h
      | cons v vs' =>
        simp only [encodeFieldsF] at h
        split at h
        · rename_i a b ha hb
          have ih := encodeFields_keys al f r vs' b hb
          intro k hk
          split at h
          · injection h with h; subst h
            simp [Fields.names, ih k hk]
          · injection h with h; subst h
            simp only [JMembers.keys, List.mem_cons] at hk
            rcases hk with e | e
            · simp [Fields.names, e]
            · simp [Fields.names, ih k e]
        · exact absurd h (by simp)

/-- a member that belongs to another field does not disturb the decoding of the remaining fields -/
theorem decodeFields_skip (al : Aliases) (names : List Bytes) (n0 : Bytes) (a : JVal) (b : JMembers)
    (h0 : n0 ∈ names) : ∀ (f : Nat) (r : Fields), n0 ∉ r.names →
    decodeFieldsF al f names r (.cons n0 a b) = decodeFieldsF al f names r b
  | 0, _, _ => by simp [decodeFieldsF]
  | f + 1, r, hn => by
    cases r with
    | nil => simp [decodeFieldsF]
    | bare => simp [decodeFieldsF]
    | typed n t r' =>
      have hne : n0 ≠ n := by intro e; exact hn (by simp [Fields.names, e])
      have ih := decodeFields_skip al names n0 a b h0 f r' (by intro hm; exact hn (by simp [Fields.names, hm]))
      simp [decodeFieldsF, findMember, fieldTarget_mem names n0 h0, hne, ih]

theorem insert_sorted (k : Bytes) (v : Val) : ∀ r : ValMap, sortedKeys (k :: r.keys) = true →
    ValMap.insert k v r = .cons k v r
  | .nil, _ => rfl
  | .cons k' v' r', h => by
    simp only [ValMap.keys, sortedKeys, Bool.and_eq_true, decide_eq_true_eq] at h
    have hne : k ≠ k' := by
      intro e; subst e; exact absurd h.1 (List.lt_irrefl _)
    simp [ValMap.insert, hne, h.1]

theorem sortedKeys_tail (k : Bytes) (l : List Bytes) (h : sortedKeys (k :: l) = true) : sortedKeys l = true := by
  cases l with
  | nil => rfl
  | cons a r => simp only [sortedKeys, Bool.and_eq_true] at h; exact h.2

/-! ## the round trip -/

/-- the four statements proved together by induction on the fuel -/
def RoundTrip (al : Aliases) (f : Nat) : Prop :=
  (∀ ty v j, tyFieldsDistinct ty = true → hasTypeF al f ty v = true → encodeF al f ty v = some j →
      decodeF al f ty j = some v)
  ∧ (∀ t vs js, tyFieldsDistinct t = true → hasTypeListF al f t vs = true → encodeListF al f t vs = some js →
      decodeListF al f t js = some vs)
  ∧ (∀ t ms jm, tyFieldsDistinct t = true → sortedKeys ms.keys = true → hasTypeMapF al f t ms = true →
      encodeMapF al f t ms = some jm → decodeMapF al f t jm = some ms)
  ∧ (∀ names fs vs jm, fsFieldsDistinct fs = true → distinct fs.names = true → (∀ n ∈ fs.names, n ∈ names) →
      hasTypeFieldsF al f fs vs = true → encodeFieldsF al f fs vs = some jm →
      decodeFieldsF al f names fs jm = some vs)

theorem roundTrip_zero (al : Aliases) : RoundTrip al 0 :=
  ⟨fun _ _ _ _ h _ => by simp [hasTypeF] at h, fun _ _ _ _ h _ => by simp [hasTypeListF] at h,
   fun _ _ _ _ _ h _ => by simp [hasTypeMapF] at h, fun _ _ _ _ _ _ _ h _ => by simp [hasTypeFieldsF] at h⟩

theorem zeroF_maybe (al : Aliases) (f : Nat) (t : Ty) : zeroF al (f + 1) (.maybe t) = some .none := rfl

theorem decodeF_maybe_nonnull (al : Aliases) (f : Nat) (t : Ty) (j : JVal) (h : j ≠ .null) :
    decodeF al (f + 1) (.maybe t) j = (decodeF al f t j).map .some := by
  cases j <;> simp [decodeF] at h ⊢

theorem roundTrip_succ (al : Aliases) (hal : AliasesOk al) (f : Nat) (ih : RoundTrip al f) : RoundTrip al (f + 1) := by
  obtain ⟨ihV, ihL, ihM, ihF⟩ := ih
  refine ⟨?_, ?_, ?_, ?_⟩
  · -- values
    intro ty v j hd ht he
    cases ty with
    | named n =>
      cases hl : lookupAlias al n with
      | none => rw [hasTypeF_named_none al f n v hl] at ht; exact absurd ht (by simp)
      | some ty' =>
        rw [hasTypeF_named al f n v ty' hl] at ht
        rw [encodeF_named al f n v ty' hl] at he
        rw [decodeF_named al f n j ty' hl]
        exact ihV ty' v j (hal n ty' hl) ht he
    | maybe t =>
      cases v <;> simp [hasTypeF] at ht
      · simp [encodeF] at he; subst he; simp [decodeF]
      · rename_i v'
        simp only [encodeF] at he
        have hnn : j ≠ .null := by
          intro e; subst e
          have := encode_null al f t v' ht.2 he
          simp [this] at ht
        rw [decodeF_maybe_nonnull al f t j hnn, ihV t v' j (by simpa [tyFieldsDistinct] using hd) ht.2 he]
        rfl
    | array t =>
      cases v <;> simp [hasTypeF] at ht
      · simp [encodeF] at he; subst he; simp [decodeF]
      · rename_i vs
        simp only [encodeF, Option.map_eq_some_iff] at he
        obtain ⟨js, hjs, rfl⟩ := he
        simp [decodeF, ihL t vs js (by simpa [tyFieldsDistinct] using hd) ht hjs]
    | map t =>
      cases v <;> simp [hasTypeF] at ht
      · simp [encodeF] at he; subst he; simp [decodeF]
      · rename_i ms
        simp only [encodeF, Option.map_eq_some_iff] at he
        obtain ⟨jm, hjm, rfl⟩ := he
        simp [decodeF, ihM t ms jm (by simpa [tyFieldsDistinct] using hd) ht.1.1 ht.2 hjm]
    | struct fs =>
      cases v <;> simp [hasTypeF] at ht
      rename_i vs
      simp only [encodeF, Option.map_eq_some_iff] at he
      obtain ⟨jm, hjm, rfl⟩ := he
      simp only [tyFieldsDistinct, Bool.and_eq_true] at hd
      simp [decodeF, ihF fs.names fs vs jm hd.2 hd.1 (fun _ h => h) ht hjm]
    | bool => cases v <;> simp [hasTypeF] at ht; simp [encodeF] at he; subst he; simp [decodeF]
    | int =>
      cases v <;> simp [hasTypeF] at ht
      simp [encodeF, ht] at he; subst he
      simp [decodeF, parseInt64_intLit _ ht]
    | float =>
      cases v <;> simp [hasTypeF] at ht
      simp [encodeF] at he; subst he
      simp [decodeF, ht.2]
    | string => cases v <;> simp [hasTypeF] at ht; simp [encodeF] at he; subst he; simp [decodeF]
    | enum fs => cases v <;> simp [hasTypeF] at ht; simp [encodeF] at he; subst he; simp [decodeF]
    | object => cases v <;> simp [hasTypeF] at ht; simp [encodeF] at he; subst he; simp [decodeF]
  · -- lists
    intro t vs js hd ht he
    cases vs with
    | nil => simp [encodeListF] at he; subst he; simp [decodeListF]
    | cons v r =>
      simp only [hasTypeListF, Bool.and_eq_true] at ht
      simp only [encodeListF] at he
      split at he
      · rename_i a b ha hb
        injection he with he; subst he
        simp [decodeListF, ihV t v a hd ht.1 ha, ihL t r b hd ht.2 hb]
      · exact absurd he (by simp)
  · -- maps
    intro t ms jm hd hs ht he
    cases ms with
    | nil => simp [encodeMapF] at he; subst he; simp [decodeMapF]
    | cons k v r =>
      simp only [hasTypeMapF, Bool.and_eq_true] at ht
      simp only [encodeMapF] at he
      split at he
      · rename_i a b ha hb
        injection he with he; subst he
        have hs' : sortedKeys r.keys = true := sortedKeys_tail k r.keys hs
        simp [decodeMapF, ihV t v a hd ht.1 ha, ihM t r b hd hs' ht.2 hb, insert_sorted k v r hs]
      · exact absurd he (by simp)
  · -- struct fields
    intro names fs vs jm hd hdist hsub ht he
    cases fs with
    | nil => cases vs <;> simp [hasTypeFieldsF] at ht; simp [decodeFieldsF]
    | bare => cases vs <;> simp [hasTypeFieldsF] at ht
    | typed n t r =>
      cases vs with
      | nil => simp [hasTypeFieldsF] at ht
      | cons v vs' =>
        simp only [hasTypeFieldsF, Bool.and_eq_true] at ht
        simp only [fsFieldsDistinct, Bool.and_eq_true] at hd
        have hdist : n ∉ r.names ∧ distinct r.names = true := by simpa [Fields.names, distinct] using hdist
        have hn : n ∈ names := hsub n (by simp [Fields.names])
        have hsub' : ∀ x ∈ r.names, x ∈ names := fun x hx => hsub x (by simp [Fields.names, hx])
        simp only [encodeFieldsF] at he
        split at he
        · rename_i a b ha hb
          have hkeys := encodeFields_keys al f r vs' b hb
          have hfind : findMember names n b = none :=
            findMember_none names n b (fun k hk => ⟨hsub' k (hkeys k hk), fun e => hdist.1 (e ▸ hkeys k hk)⟩)
          have ihr := ihF names r vs' b hd.2 hdist.2 hsub' ht.2 hb
          split at he
          · -- omitted optional
            rename_i hom
            injection he with he; subst he
            simp only [Bool.and_eq_true] at hom
            have hv : v = .none := by
              cases v <;> simp [Val.beq] at hom
              rfl
            subst hv
            have hz : zeroF al f t = some .none := by
              cases t <;> simp [Ty.isMaybe] at hom
              cases f with
              | zero => simp [encodeF] at ha
              | succ f' => rfl
            simp [decodeFieldsF, hfind, hz, ihr]
          · injection he with he; subst he
            have hskip := decodeFields_skip al names n a b hn f r hdist.1
            simp [decodeFieldsF, findMember, fieldTarget_mem names n hn, ihV t v a hd.1 ht.1 ha, hskip, ihr]
        · exact absurd he (by simp)

theorem roundTrip (al : Aliases) (hal : AliasesOk al) : ∀ f, RoundTrip al f
  | 0 => roundTrip_zero al
  | f + 1 => roundTrip_succ al hal f (roundTrip al hal f)

end Varlink.Stub
