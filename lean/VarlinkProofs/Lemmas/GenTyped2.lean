/-
  `typedOk`, second part: environments, declared-type lookups (used by VarlinkProofs/Props/C07.lean).
-/
import VarlinkProofs.Lemmas.GenTop2
namespace Varlink.Gen
open Varlink Varlink.Idl

/-! ## environments -/

def Env.keys (e : Env) : List Bytes := e.map (·.1)

theorem envLookup_append_left (k : Bytes) (a b : Env) (h : k ∉ Env.keys a) :
    envLookup k (a ++ b) = envLookup k b := by
  induction a with
  | nil => rfl
  | cons x r ih =>
    obtain ⟨n, t⟩ := x
    simp only [Env.keys, List.map_cons, List.mem_cons, not_or] at h
    simp only [List.cons_append, envLookup]
    rw [if_neg (fun e => h.1 e.symm)]
    exact ih h.2

theorem envLookup_append_found (k : Bytes) (a b : Env) (t : GoTy) (h : envLookup k a = some t) :
    envLookup k (a ++ b) = some t := by
  induction a with
  | nil => simp [envLookup] at h
  | cons x r ih =>
    obtain ⟨n, t'⟩ := x
    simp only [List.cons_append, envLookup] at h ⊢
    split
    · rename_i e; simpa [e] using h
    · rename_i e; simp only [e, if_false] at h; exact ih h

theorem toEnv_append : ∀ (a b : GoFields), (a.append b).toEnv = a.toEnv ++ b.toEnv
  | .nil, b => rfl
  | .cons n t g r, b => by
    simp only [GoFields.append, GoFields.toEnv, toEnv_append r b]
    split <;> simp

theorem toEnv_keys : ∀ a : GoFields, Env.keys a.toEnv = a.paramNames
  | .nil => rfl
  | .cons n t g r => by
    simp only [GoFields.toEnv, GoFields.paramNames]
    split <;> simp [Env.keys, ← toEnv_keys r] <;> rfl

/-! ## statements that need no typing -/

def Stmt.untyped : Stmt → Bool
  | .var _ _ => true
  | .define _ => true
  | .strArg _ _ _ => true
  | .retString _ => true
  | _ => false

theorem typedStmts_untyped (decls : List Decl) : ∀ (l : List Stmt) (env : Env), l.all Stmt.untyped = true →
    typedStmts decls env l = true
  | [], _, _ => by simp [typedStmts]
  | s :: l, env, h => by
    simp only [List.all_cons, Bool.and_eq_true] at h
    obtain ⟨h1, h2⟩ := h
    cases s <;> simp only [Stmt.untyped] at h1 <;> first
      | (exact absurd h1 (by decide))
      | simp [typedStmts, typedStmts_untyped decls l _ h2]

/-! ## looking up declared types -/

theorem lookupType_of_mem : ∀ (decls : List Decl) (n : Bytes) (ty : GoTy),
    (decls.filterMap Decl.typeName?).Nodup → (Decl.type n ty ∈ decls ∨ Decl.alias n ty ∈ decls) →
    lookupType decls n = some ty
  | [], _, _, _, h => by simp at h
  | d :: ds, n, ty, hnd, hm => by
    have notin : ∀ (m : Bytes) (t' : GoTy), Decl.typeName? d = some m →
        (Decl.type m t' ∈ ds ∨ Decl.alias m t' ∈ ds) → False := by
      intro m t' hd hmem
      rw [List.filterMap_cons, hd, List.nodup_cons] at hnd
      apply hnd.1
      rcases hmem with hmem | hmem
      · exact List.mem_filterMap.mpr ⟨_, hmem, rfl⟩
      · exact List.mem_filterMap.mpr ⟨_, hmem, rfl⟩
    have hnd' : (ds.filterMap Decl.typeName?).Nodup := by
      rw [List.filterMap_cons] at hnd
      split at hnd
      · exact hnd
      · exact (List.nodup_cons.mp hnd).2
    cases d with
    | type m t' =>
      simp only [lookupType]
      by_cases e : m = n
      · subst e
        simp only [if_true]
        rcases hm with hm | hm
        · rcases List.mem_cons.mp hm with e | e
          · injection e with _ e2; rw [e2]
          · exact absurd (notin m ty rfl (Or.inl e)) id
        · rcases List.mem_cons.mp hm with e | e
          · exact absurd e (by simp)
          · exact absurd (notin m ty rfl (Or.inr e)) id
      · simp only [e, if_false]
        apply lookupType_of_mem ds n ty hnd'
        rcases hm with hm | hm
        · rcases List.mem_cons.mp hm with e' | e'
          · injection e' with e1 _; exact absurd e1.symm e
          · exact Or.inl e'
        · rcases List.mem_cons.mp hm with e' | e'
          · exact absurd e' (by simp)
          · exact Or.inr e'
    | alias m t' =>
      simp only [lookupType]
      by_cases e : m = n
      · subst e
        simp only [if_true]
        rcases hm with hm | hm
        · rcases List.mem_cons.mp hm with e | e
          · exact absurd e (by simp)
          · exact absurd (notin m ty rfl (Or.inl e)) id
        · rcases List.mem_cons.mp hm with e | e
          · injection e with _ e2; rw [e2]
          · exact absurd (notin m ty rfl (Or.inr e)) id
      · simp only [e, if_false]
        apply lookupType_of_mem ds n ty hnd'
        rcases hm with hm | hm
        · rcases List.mem_cons.mp hm with e' | e'
          · exact absurd e' (by simp)
          · exact Or.inl e'
        · rcases List.mem_cons.mp hm with e' | e'
          · injection e' with e1 _; exact absurd e1.symm e
          · exact Or.inr e'
    | iface m ms =>
      simp only [lookupType]
      apply lookupType_of_mem ds n ty hnd'
      rcases hm with hm | hm
      · rcases List.mem_cons.mp hm with e' | e'
        · exact absurd e' (by simp)
        · exact Or.inl e'
      · rcases List.mem_cons.mp hm with e' | e'
        · exact absurd e' (by simp)
        · exact Or.inr e'
    | func g =>
      simp only [lookupType]
      apply lookupType_of_mem ds n ty hnd'
      rcases hm with hm | hm
      · rcases List.mem_cons.mp hm with e' | e'
        · exact absurd e' (by simp)
        · exact Or.inl e'
      · rcases List.mem_cons.mp hm with e' | e'
        · exact absurd e' (by simp)
        · exact Or.inr e'

theorem typeNames_nodup_of_top : ∀ decls : List Decl, (decls.filterMap Decl.topName?).Nodup →
    (decls.filterMap Decl.typeName?).Nodup
  | [], _ => by simp
  | d :: ds, h => by
    have sub : ∀ x ∈ ds.filterMap Decl.typeName?, x ∈ ds.filterMap Decl.topName? := by
      intro x hx
      obtain ⟨d', hd', e⟩ := List.mem_filterMap.mp hx
      refine List.mem_filterMap.mpr ⟨d', hd', ?_⟩
      cases d' <;> simp [Decl.typeName?] at e <;> simp [Decl.topName?, e]
    cases d with
    | type n t =>
      simp only [List.filterMap_cons, Decl.topName?, Decl.typeName?, List.nodup_cons] at h ⊢
      exact ⟨fun hx => h.1 (sub _ hx), typeNames_nodup_of_top ds h.2⟩
    | alias n t =>
      simp only [List.filterMap_cons, Decl.topName?, Decl.typeName?, List.nodup_cons] at h ⊢
      exact ⟨fun hx => h.1 (sub _ hx), typeNames_nodup_of_top ds h.2⟩
    | iface n ms =>
      simp only [List.filterMap_cons, Decl.topName?, Decl.typeName?, List.nodup_cons] at h ⊢
      exact ⟨fun hx => h.1 (sub _ hx), typeNames_nodup_of_top ds h.2⟩
    | func g =>
      simp only [List.filterMap_cons, Decl.typeName?] at h ⊢
      apply typeNames_nodup_of_top ds
      simp only [Decl.topName?] at h
      split at h
      · exact h
      · exact (List.nodup_cons.mp h).2


theorem typed_var (decls : List Decl) (env : Env) (n : Bytes) (t : GoTy) (rest : List Stmt) :
    typedStmts decls env (.var n t :: rest) = typedStmts decls ((n, t) :: env) rest := by simp [typedStmts]
theorem typed_define (decls : List Decl) (env : Env) (ns : List Bytes) (rest : List Stmt) :
    typedStmts decls env (.define ns :: rest) = typedStmts decls (ns.map (fun n => (n, unknownTy)) ++ env) rest := by
  simp [typedStmts]
theorem typed_strArg (decls : List Decl) (env : Env) (x f l : Bytes) (rest : List Stmt) :
    typedStmts decls env (.strArg x f l :: rest) = typedStmts decls env rest := by simp [typedStmts]
theorem typed_closure (decls : List Decl) (env : Env) (p rs : GoFields) (b rest : List Stmt) :
    typedStmts decls env (.closure p rs b :: rest) =
      (typedStmts decls (p.toEnv ++ rs.toEnv ++ env) b && typedStmts decls env rest) := by simp [typedStmts]
theorem typed_case (decls : List Decl) (env : Env) (l : Option Bytes) (b rest : List Stmt) :
    typedStmts decls env (.caseBlock l b :: rest) = (typedStmts decls env b && typedStmts decls env rest) := by
  simp [typedStmts]
theorem typed_args (decls : List Decl) (env : Env) (p : List Bytes) (as : List Expr) (rest : List Stmt) :
    typedStmts decls env (.args p as :: rest) = (dispatchCallOk decls env p as && typedStmts decls env rest) := by
  simp [typedStmts]
theorem typed_use (decls : List Decl) (env : Env) (x f : Bytes) (rest : List Stmt) :
    typedStmts decls env (.use x f :: rest) = ((typeOf decls env (.sel x f)).isSome && typedStmts decls env rest) := by
  simp [typedStmts]
theorem typed_nil (decls : List Decl) (env : Env) : typedStmts decls env [] = true := by simp [typedStmts]

/-- the copy context right after `var dst T` -/
theorem copyCtx_var (decls : List Decl) (fenv : Env) (dst s : Bytes) (fs : Fields) (T : GoTy) (gfs : GoFields)
    (hS : structFieldsOf decls T = some gfs) (hG : goFields fs true = some gfs) (hgood : FieldsGood fs)
    (hv : ∀ n t, (n, t) ∈ typedList fs → ∃ b, goTy t false = some b ∧ envLookup (n ++ s) fenv = some b)
    (hne : ∀ n, n ++ s ≠ dst) : CopyCtx decls ((dst, T) :: fenv) dst s fs := by
  refine ⟨⟨T, gfs, by simp [envLookup], hS, fieldType_goFields fs gfs hgood hG⟩, ?_⟩
  intro n t hm
  obtain ⟨b, hb, hl⟩ := hv n t hm
  refine ⟨b, hb, ?_⟩
  simp only [envLookup]
  rw [if_neg (fun e => hne n e.symm)]
  exact hl

/-- a struct type's own fields -/
theorem structFieldsOf_struct (decls : List Decl) (gfs : GoFields) : structFieldsOf decls (.struct gfs) = some gfs := rfl

theorem goTy_struct (fs : Fields) (j : Bool) (t : GoTy) (h : goTy (.struct fs) j = some t) :
    ∃ gfs, t = .struct gfs ∧ goFields fs j = some gfs := by
  simp only [goTy, Option.map_eq_some_iff] at h
  obtain ⟨g, hg, rfl⟩ := h
  exact ⟨g, rfl, hg⟩

/-- `var <dst> T` followed by the copies into it and statements that need no typing -/
theorem typed_copyIn_block (decls : List Decl) (fenv : Env) (dst s : Bytes) (fs : Fields) (T : GoTy) (gfs : GoFields)
    (cs tail : List Stmt) (hS : structFieldsOf decls T = some gfs) (hG : goFields fs true = some gfs)
    (hgood : FieldsGood fs)
    (hv : ∀ n t, (n, t) ∈ typedList fs → ∃ b, goTy t false = some b ∧ envLookup (n ++ s) fenv = some b)
    (hne : ∀ n, n ++ s ≠ dst) (hc : copyInStmts dst s fs = some cs) :
    typedStmts decls fenv (.var dst T :: cs ++ tail) = typedStmts decls ((dst, T) :: fenv) tail := by
  rw [List.cons_append, typed_var]
  exact copyInStmts_typed decls _ dst s fs (copyCtx_var decls fenv dst s fs T gfs hS hG hgood hv hne) fs cs tail
    (fun _ h => h) hc



/-- the untagged variable of a field is found behind any prefix of the environment that does not bind it -/
theorem lookup_param (pre post : Env) (s : Bytes) (fs : Fields) (ps : GoFields) (hgood : FieldsGood fs)
    (hps : paramFields s fs = some ps) (hpre : ∀ n, n ++ s ∉ Env.keys pre) :
    ∀ n t, (n, t) ∈ typedList fs → ∃ b, goTy t false = some b ∧ envLookup (n ++ s) (pre ++ (ps.toEnv ++ post)) = some b := by
  intro n t hm
  obtain ⟨b, hb, hl⟩ := envLookup_paramFields s fs ps hgood hps n t hm
  exact ⟨b, hb, by rw [envLookup_append_left _ _ _ (hpre n)]; exact envLookup_append_found _ _ _ _ hl⟩

theorem suffixed_ne_fixed (x s : Bytes) (h : endsWith s x = false) (n : Bytes) : n ++ s ≠ x := by
  intro e
  rw [← e, endsWith_append] at h
  exact absurd h (by simp)

/-- `Func.env` of a function with a receiver -/
theorem env_recv (rn : Bytes) (ptr : Bool) (ty n : Bytes) (p rs : GoFields) (b : List Stmt) (e : List Bytes) :
    (mkFunc (some ⟨rn, ptr, ty⟩) n p rs b e).env =
      [(rn, if ptr then GoTy.ptr (.name ty) else .name ty)] ++ p.toEnv ++ rs.toEnv := rfl

theorem env_norecv (n : Bytes) (p rs : GoFields) (b : List Stmt) (e : List Bytes) :
    (mkFunc none n p rs b e).env = p.toEnv ++ rs.toEnv := rfl

/-! ## reply helpers -/

/-- `Reply<X>`: `var out T` + copies of the `<field>_` parameters + untyped tail -/
theorem replyTyped (decls : List Decl) (n : Bytes) (fs : Fields) (ps : GoFields) (T : GoTy) (gfs : GoFields)
    (cs tail : List Stmt) (hgood : FieldsGood fs) (e1 : paramFields (str "_") fs = some ps)
    (e2 : copyInStmts (str "out") (str "_") fs = some cs) (hG : goFields fs true = some gfs)
    (hS : structFieldsOf decls T = some gfs) (ht : tail.all Stmt.untyped = true) :
    typedStmts decls (mkFunc varlinkCallRecv n (ctxParam.append ps) errorResult (.var (str "out") T :: cs ++ tail)).env
      (.var (str "out") T :: cs ++ tail) = true := by
  rw [varlinkCallRecv, env_recv, toEnv_append]
  have hv := lookup_param ([(str "c", GoTy.ptr (.name (str "VarlinkCall")))] ++ ctxParam.toEnv) errorResult.toEnv
    (str "_") fs ps hgood e1 (by
      intro n
      have h1 := suffixed_ne_fixed (str "c") (str "_") (by decide) n
      have h2 := suffixed_ne_fixed (str "ctx") (str "_") (by decide) n
      simp [Env.keys, ctxParam, param, GoFields.toEnv, h1, h2])
  have hne : ∀ n, n ++ str "_" ≠ str "out" := suffixed_ne_fixed (str "out") (str "_") (by decide)
  have henv : [(str "c", if true = true then GoTy.ptr (.name (str "VarlinkCall")) else .name (str "VarlinkCall"))]
      ++ (ctxParam.toEnv ++ ps.toEnv) ++ errorResult.toEnv
      = ([(str "c", GoTy.ptr (.name (str "VarlinkCall")))] ++ ctxParam.toEnv) ++ (ps.toEnv ++ errorResult.toEnv) := by
    simp
  rw [henv, typed_copyIn_block decls _ (str "out") (str "_") fs T gfs cs tail hS hG hgood hv hne e2]
  exact typedStmts_untyped decls tail _ ht



/-! ## client stubs -/

/-- the body of the closure Send/Upgrade return: `var out T` + the copies into the named results -/
theorem closureTyped (decls : List Decl) (env : Env) (fo : Fields) (results F2 : GoFields) (recv' copies : List Stmt)
    (ho : FieldsGood fo) (e2 : paramFields (str "_out_") fo = some results)
    (e6 : receiveView (.struct fo) = some recv') (e7 : copyOutStmts fo = some copies) :
    typedStmts decls ((param [] ctxTy).toEnv ++ (results.append F2).toEnv ++ env) (recv' ++ copies) = true := by
  have hp : (param [] ctxTy).toEnv = [] := rfl
  rw [hp, List.nil_append, toEnv_append]
  simp only [receiveView] at e6
  split at e6
  · simp only [Option.map_eq_some_iff] at e6
    obtain ⟨T, hT, rfl⟩ := e6
    obtain ⟨gfs, rfl, hG⟩ := goTy_struct fo true T hT
    have hv : ∀ n t, (n, t) ∈ typedList (tyFields (.struct fo)) → ∃ b, goTy t false = some b ∧
        envLookup (n ++ str "_out_") ((str "out", GoTy.struct gfs) :: (results.toEnv ++ F2.toEnv ++ env)) = some b := by
      intro n t hm
      obtain ⟨b, hb, hl⟩ := envLookup_paramFields (str "_out_") fo results ho e2 n t hm
      refine ⟨b, hb, ?_⟩
      have hne : str "out" ≠ n ++ str "_out_" := fun e => suffixed_ne_fixed (str "out") (str "_out_") (by decide) n e.symm
      simp only [envLookup, hne, if_false, List.append_assoc]
      exact envLookup_append_found _ _ _ _ hl
    have ctx : CopyCtx decls ((str "out", GoTy.struct gfs) :: (results.toEnv ++ F2.toEnv ++ env)) (str "out")
        (str "_out_") fo :=
      ⟨⟨.struct gfs, gfs, by simp [envLookup], rfl, fieldType_goFields fo gfs ho hG⟩, hv⟩
    rw [List.cons_append, List.nil_append, typed_var]
    have := copyOutStmts_typed decls _ fo ctx fo copies [] (fun _ h => h) e7
    rw [List.append_nil] at this
    rw [this]
    exact typed_nil _ _
  · injection e6 with e6; subst e6
    have hnil : fo = .nil := by
      rename_i hc
      cases fo <;> simp [tyFields, Fields.isNil] at hc ⊢
    subst hnil
    simp [copyOutStmts] at e7
    subst e7
    exact typed_nil _ _

/-- the prologue of Send/Upgrade followed by the returned closure -/
theorem sendPrologueTyped (decls : List Decl) (iface n c : Bytes) (fi : Fields) (params : GoFields) (l : List Stmt)
    (pre post : Env) (cl : Stmt) (hi : FieldsGood fi) (e1 : paramFields (str "_in_") fi = some params)
    (hl : sendPrologueView iface n c (.struct fi) = some l)
    (hpre : ∀ x, x ++ str "_in_" ∉ Env.keys pre)
    (hcl : ∀ env', typedStmts decls env' [cl] = true) :
    typedStmts decls (pre ++ (params.toEnv ++ post)) (l ++ [cl]) = true := by
  simp only [sendPrologueView] at hl
  split at hl
  · split at hl
    · rename_i T cs hT hc
      injection hl with hl; subst hl
      obtain ⟨gfs, rfl, hG⟩ := goTy_struct fi true T hT
      have hv := lookup_param pre post (str "_in_") fi params hi e1 hpre
      have hne : ∀ x, x ++ str "_in_" ≠ str "in" := suffixed_ne_fixed (str "in") (str "_in_") (by decide)
      have := typed_copyIn_block decls (pre ++ (params.toEnv ++ post)) (str "in") (str "_in_") fi (.struct gfs) gfs cs
        ([Stmt.define [str "receive", str "err"], Stmt.strArg (str "c") c (iface ++ str "." ++ n)] ++ [cl])
        rfl hG hi hv hne hc
      simp only [List.cons_append, List.append_assoc] at this ⊢
      rw [this, typed_define, typed_strArg]
      exact hcl _
    · exact absurd hl (by simp)
  · injection hl with hl; subst hl
    simp only [List.cons_append, List.nil_append, typed_define, typed_strArg]
    exact hcl _



def Decl.typedOk (decls : List Decl) : Decl → Bool
  | .func g => typedStmts decls g.env g.body
  | _ => true

theorem funcs_all2 (P : Func → Bool) : ∀ ds : List Decl,
    (ds.filterMap Decl.func?).all P = ds.all (fun d => (Decl.func? d).elim true P)
  | [] => rfl
  | d :: ds => by
    cases d <;> simp [List.filterMap_cons, Decl.func?, funcs_all2 P ds]

theorem typedOk_eq (f : GoFile) : typedOk f = f.decls.all (Decl.typedOk f.decls) := by
  unfold typedOk GoFile.funcs
  rw [funcs_all2]
  congr 1
  funext d
  cases d <;> rfl

theorem body_mk (r : Option Recv) (n : Bytes) (p rs : GoFields) (b : List Stmt) (e : List Bytes) :
    (mkFunc r n p rs b e).body = b := rfl

theorem declTyped_func (decls : List Decl) (g : Func) : Decl.typedOk decls (.func g) = typedStmts decls g.env g.body := rfl
theorem declTyped_type (decls : List Decl) (n : Bytes) (t : GoTy) : Decl.typedOk decls (.type n t) = true := rfl
theorem declTyped_alias (decls : List Decl) (n : Bytes) (t : GoTy) : Decl.typedOk decls (.alias n t) = true := rfl
theorem declTyped_iface (decls : List Decl) (n : Bytes) (ms : List IfaceMethod) : Decl.typedOk decls (.iface n ms) = true := rfl

theorem aliasView_typed (decls : List Decl) (t : Idl) (m : Member) (l : List Decl) (hl : aliasView t m = some l) :
    l.all (Decl.typedOk decls) = true := by
  cases m with
  | alias n d ty =>
    simp only [aliasView, Option.map_eq_some_iff] at hl
    obtain ⟨g, _, rfl⟩ := hl
    cases resolvesToObject t ty <;> rfl
  | method => simp [aliasView] at hl; subst hl; rfl
  | error => simp [aliasView] at hl; subst hl; rfl

/-- the selectors `e.<Field>` of `Error()` -/
theorem fieldUses_typed (decls : List Decl) (env : Env) (T : GoTy) (gfs : GoFields)
    (he : envLookup (str "e") env = some T) (hS : structFieldsOf decls T = some gfs) :
    ∀ (fs fsAll : Fields), (∀ x ∈ typedList fs, x ∈ typedList fsAll) → fs.allTyped = true →
      (∀ n t, (n, t) ∈ typedList fsAll → ∃ a, goTy t true = some a ∧ fieldType (title n) gfs = some a) →
      typedStmts decls env (fieldUses fs) = true
  | .nil, _, _, _, _ => by simp [fieldUses, typed_nil]
  | .bare _ _, _, _, h, _ => by simp [Fields.allTyped] at h
  | .typed n t r, fsAll, hsub, hall, hF => by
    obtain ⟨a, _, hf⟩ := hF n t (hsub _ (by simp [typedList]))
    simp only [fieldUses, typed_use, typeOf_sel decls env (str "e") (title n) T a gfs he hS hf, Option.isSome_some,
      Bool.true_and]
    exact fieldUses_typed decls env T gfs he hS r fsAll (fun x hx => hsub x (by simp [typedList, hx]))
      (by simpa [Fields.allTyped] using hall) hF

theorem errorView_typed (decls : List Decl) (m : Member) (h : MemberGood m) (l : List Decl)
    (hl : errorView m = some l)
    (hlook : ∀ n d oty t, m = .error n d oty → goTy (errTy oty) true = some t → lookupType decls n = some t) :
    l.all (Decl.typedOk decls) = true := by
  cases m with
  | alias => simp [errorView] at hl; subst hl; rfl
  | method => simp [errorView] at hl; subst hl; rfl
  | error n d oty =>
    obtain ⟨fs, e, hg⟩ := h.error
    have hall : fs.allTyped = true := by
      have := h.ok.error.2.1
      rw [e] at this
      exact this
    simp only [errorView, Option.map_eq_some_iff] at hl
    obtain ⟨t, ht, rfl⟩ := hl
    have hlk := hlook n d oty t rfl ht
    rw [e] at ht
    obtain ⟨gfs, rfl, hG⟩ := goTy_struct fs true t ht
    simp only [List.all_cons, List.all_nil, declTyped_type, declTyped_func, Bool.true_and, Bool.and_true]
    rw [env_recv, body_mk, typed_define]
    have hS : structFieldsOf decls (GoTy.name n) = some gfs := by simp [structFieldsOf, hlk]
    have he : envLookup (str "e") ([str "s"].map (fun n => (n, unknownTy)) ++
        ([(str "e", if false = true then GoTy.ptr (.name n) else .name n)] ++ GoFields.nil.toEnv
          ++ (param [] (tName "string")).toEnv)) = some (.name n) := by
      have : str "s" ≠ str "e" := by decide
      simp [envLookup, this]
    have hf : tyFields (errTy oty) = fs := by rw [e]; rfl
    by_cases hnil : (!(tyFields (errTy oty)).isNil) = true
    · rw [if_pos hnil, typed_strArg, hf]
      exact fieldUses_typed decls _ (.name n) gfs he hS fs fs (fun _ h => h) hall (fieldType_goFields fs gfs hg hG)
    · rw [if_neg hnil]
      exact typed_nil _ _



theorem dispatchErrorView_typed (decls : List Decl) (iface : Bytes) (errors : List Member) :
    Decl.typedOk decls (dispatchErrorView iface errors) = true := by
  have hc : ∀ (es : List Member) (env : Env),
      typedStmts decls env ((es.map (dispatchErrorCaseView iface)).flatten) = true := by
    intro es env
    induction es with
    | nil => simp [typed_nil]
    | cons e r ih =>
      cases e with
      | alias => simpa [dispatchErrorCaseView] using ih
      | method => simpa [dispatchErrorCaseView] using ih
      | error n d' oty =>
        simp [dispatchErrorCaseView, typed_case, typed_define, typed_var, typed_nil, ih]
  simp only [dispatchErrorView, declTyped_func, body_mk, typed_define, hc]

theorem methodClientView_typed (decls : List Decl) (iface : Bytes) (m : Member) (h : MemberGood m) (l : List Decl)
    (hl : methodClientView iface m = some l) : l.all (Decl.typedOk decls) = true := by
  cases m with
  | alias => simp [methodClientView] at hl; subst hl; rfl
  | error => simp [methodClientView] at hl; subst hl; rfl
  | method n d i o =>
    obtain ⟨fi, fo, rfl, rfl, hi, ho⟩ := h.method
    simp only [methodClientView] at hl
    split at hl
    · rename_i params results resultTys sendPro upPro recv' copies e1 e2 e3 e4 e5 e6 e7
      injection hl with hl; subst hl
      have hpre : ∀ (F : GoFields) (hF : ∀ x, ∀ k ∈ F.paramNames, x ++ str "_in_" ≠ k) (x : Bytes),
          x ++ str "_in_" ∉ Env.keys ([(str "m", GoTy.name (n ++ str "_methods"))] ++ F.toEnv) := by
        intro F hF x
        have h1 := suffixed_ne_fixed (str "m") (str "_in_") (by decide) x
        simp only [Env.keys, List.map_append, List.map_cons, List.map_nil, List.mem_append, List.mem_singleton, not_or]
        refine ⟨h1, ?_⟩
        have := toEnv_keys F
        simp only [Env.keys] at this
        rw [this]
        intro hm
        exact hF x _ hm rfl
      simp only [List.all_cons, List.all_nil, declTyped_type, declTyped_func, body_mk, Bool.true_and, Bool.and_true,
        Bool.and_eq_true]
      refine ⟨typed_nil _ _, ?_, ?_, ?_⟩
      · exact typedStmts_untyped decls _ _ rfl
      · -- Send
        rw [env_recv, toEnv_append, List.append_assoc, List.append_assoc, ← List.append_assoc]
        apply sendPrologueTyped decls iface n (str "Send") fi params sendPro _ _ _ hi e1 e4
        · apply hpre ((ctxParam.append (param (str "c") connTy)).append flagsResult)
          intro x k hk
          have hpn : ((ctxParam.append (param (str "c") connTy)).append flagsResult).paramNames
              = [str "ctx", str "c", str "flags"] := by decide
          have hk' : k ∈ [str "ctx", str "c", str "flags"] := hpn ▸ hk
          intro e; subst e
          have hall : ∀ y ∈ [str "ctx", str "c", str "flags"], endsWith (str "_in_") y = false := by decide
          have := hall _ hk'
          rw [endsWith_append] at this
          exact absurd this (by simp)
        · intro env'
          rw [typed_closure, closureTyped decls _ fo results _ recv' copies ho e2 e6 e7, typed_nil]
          rfl
      · -- Upgrade
        rw [env_recv, toEnv_append, List.append_assoc, List.append_assoc, ← List.append_assoc]
        apply sendPrologueTyped decls iface n (str "Upgrade") fi params upPro _ _ _ hi e1 e5
        · apply hpre (ctxParam.append (param (str "c") connTy))
          intro x k hk
          have hpn : (ctxParam.append (param (str "c") connTy)).paramNames = [str "ctx", str "c"] := by decide
          have hk' : k ∈ [str "ctx", str "c"] := hpn ▸ hk
          intro e; subst e
          have hall : ∀ y ∈ [str "ctx", str "c"], endsWith (str "_in_") y = false := by decide
          have := hall _ hk'
          rw [endsWith_append] at this
          exact absurd this (by simp)
        · intro env'
          rw [typed_closure, closureTyped decls _ fo results _ recv' copies ho e2 e6 e7, typed_nil]
          rfl
    · exact absurd hl (by simp)



theorem errorReplyView_typed (decls : List Decl) (iface : Bytes) (m : Member) (h : MemberGood m) (l : List Decl)
    (hl : errorReplyView iface m = some l)
    (hlook : ∀ n d oty t, m = .error n d oty → goTy (errTy oty) true = some t → lookupType decls n = some t) :
    l.all (Decl.typedOk decls) = true := by
  cases m with
  | alias => simp [errorReplyView] at hl; subst hl; rfl
  | method => simp [errorReplyView] at hl; subst hl; rfl
  | error n d oty =>
    obtain ⟨fs, e, hg⟩ := h.error
    have hok : (goTy (errTy oty) true).isSome = true := goTy_isSome _ true h.ok.error.1
    obtain ⟨t, ht⟩ := isSome_of_eq hok
    have hlk := hlook n d oty t rfl ht
    rw [e] at ht
    obtain ⟨gfs, rfl, hG⟩ := goTy_struct fs true t ht
    simp only [errorReplyView, e] at hl
    split at hl
    · rename_i ps c e1 e2
      injection hl with hl; subst hl
      simp only [List.all_cons, List.all_nil, declTyped_func, body_mk, Bool.and_true]
      have hS : structFieldsOf decls (GoTy.name n) = some gfs := by simp [structFieldsOf, hlk]
      exact replyTyped decls _ fs ps (.name n) gfs c _ hg e1 e2 hG hS rfl
    · exact absurd hl (by simp)

theorem methodReplyView_typed (decls : List Decl) (m : Member) (h : MemberGood m) (l : List Decl)
    (hl : methodReplyView m = some l) : l.all (Decl.typedOk decls) = true := by
  cases m with
  | alias => simp [methodReplyView] at hl; subst hl; rfl
  | error => simp [methodReplyView] at hl; subst hl; rfl
  | method n d i o =>
    obtain ⟨fi, fo, rfl, rfl, hi, ho⟩ := h.method
    simp only [methodReplyView] at hl
    split at hl
    · rename_i ps e1
      split at hl
      · split at hl
        · rename_i t c e2 e3
          injection hl with hl; subst hl
          obtain ⟨gfs, rfl, hG⟩ := goTy_struct fo true t e2
          simp only [List.all_cons, List.all_nil, declTyped_func, body_mk, Bool.and_true]
          have := replyTyped decls (str "Reply" ++ n) fo ps (.struct gfs) gfs c [] ho e1 e3 hG rfl rfl
          simpa using this
        · exact absurd hl (by simp)
      · injection hl with hl; subst hl
        simp only [List.all_cons, List.all_nil, declTyped_func, body_mk, Bool.and_true]
        exact typed_nil _ _
    · exact absurd hl (by simp)

theorem dummyView_typed (decls : List Decl) (iface : Bytes) (m : Member) (l : List Decl)
    (hl : dummyView iface m = some l) : l.all (Decl.typedOk decls) = true := by
  cases m with
  | alias => simp [dummyView] at hl; subst hl; rfl
  | error => simp [dummyView] at hl; subst hl; rfl
  | method n d i o =>
    simp only [dummyView, Option.map_eq_some_iff] at hl
    obtain ⟨ps, _, rfl⟩ := hl
    simp only [List.all_cons, List.all_nil, declTyped_func, body_mk, Bool.and_true]
    exact typedStmts_untyped decls _ _ rfl

/-! ## the dispatcher's call -/

/-- the arguments `T(in.<F>)` have the untagged types of the fields, i.e. the parameter types of the interface method -/
theorem dispatchArgs_typed (decls : List Decl) (env : Env) (T : GoTy) (gfs : GoFields)
    (hin : envLookup (str "in") env = some T) (hS : structFieldsOf decls T = some gfs) :
    ∀ (fs fsAll : Fields) (as : List Expr) (ps : GoFields), (∀ x ∈ typedList fs, x ∈ typedList fsAll) →
      (∀ n t, (n, t) ∈ typedList fsAll → ∃ a, goTy t true = some a ∧ fieldType (title n) gfs = some a) →
      dispatchArgExprs fs = some as → paramFields (str "_") fs = some ps → argsOk decls env as ps.types = true
  | .nil, _, as, ps, _, _, h1, h2 => by
    simp [dispatchArgExprs] at h1; simp [paramFields] at h2; subst h1 h2; rfl
  | .bare _ _, _, as, ps, _, _, h1, _ => by simp [dispatchArgExprs] at h1
  | .typed n t r, fsAll, as, ps, hsub, hF, h1, h2 => by
    simp only [dispatchArgExprs] at h1
    simp only [paramFields] at h2
    split at h1
    · rename_i b as' hb has
      split at h2
      · rename_i b' ps' hb' hps
        injection h1 with h1; injection h2 with h2; subst h1 h2
        rw [hb] at hb'; injection hb' with hb'; subst hb'
        obtain ⟨a, ha, hf⟩ := hF n t (hsub _ (by simp [typedList]))
        have ih := dispatchArgs_typed decls env T gfs hin hS r fsAll as' ps'
          (fun x hx => hsub x (by simp [typedList, hx])) hF has hps
        have ts := typeOf_sel decls env (str "in") (title n) T a gfs hin hS hf
        simp only [GoFields.types, argsOk, ih, Bool.and_true]
        cases hk : convKind t
        · have tc := typeOf_conv decls env b a false _ ts (goTy_beqNoTags t a b ha hb).2
            (by rw [goTy_isPtr t false b hb, hk]; rfl)
          simp [tc, GoTy.beq_refl]
        · have tc := typeOf_conv decls env b a true _ ts (goTy_beqNoTags t a b ha hb).2
            (by rw [goTy_isPtr t false b hb, hk]; rfl)
          simp [tc, GoTy.beq_refl]
        · have := goTy_plain_eq t a b hk ha hb
          subst this
          simp [ts, GoTy.beq_refl]
      · exact absurd h2 (by simp)
    · exact absurd h1 (by simp)



theorem types_append : ∀ (a b : GoFields), (a.append b).types = a.types ++ b.types
  | .nil, b => rfl
  | .cons n t g r, b => by simp [GoFields.append, GoFields.types, types_append r b]

/-- what the dispatcher needs to know about the declarations of the file -/
structure DispatchCtx (decls : List Decl) (pkg : Bytes) (ims : List IfaceMethod) : Prop where
  viType : lookupType decls (str "VarlinkInterface") = some (.struct (param [] (.name (pkg ++ str "Interface"))))
  iface : lookupIface decls (pkg ++ str "Interface") = some ims

theorem dispatchCaseView_typed (decls : List Decl) (pkg : Bytes) (ims : List IfaceMethod) (hctx : DispatchCtx decls pkg ims)
    (m : Member) (h : MemberGood m) (l rest : List Stmt) (env : Env)
    (hs : envLookup (str "s") env = some (.ptr (.name (str "VarlinkInterface"))))
    (hfind : ∀ n d i o ps, m = .method n d i o → paramFields (str "_") (tyFields i) = some ps →
      ims.find? (fun im => im.name == n) = some ⟨n, callParams.append ps, errorResult⟩)
    (hl : dispatchCaseView pkg m = some l) : typedStmts decls env (l ++ rest) = typedStmts decls env rest := by
  cases m with
  | alias => simp [dispatchCaseView] at hl; subst hl; rfl
  | error => simp [dispatchCaseView] at hl; subst hl; rfl
  | method n d i o =>
    obtain ⟨fi, fo, rfl, rfl, hi, ho⟩ := h.method
    obtain ⟨ps, hps⟩ := isSome_of_eq (paramFields_isSome (str "_") fi h.ok.method.1.2)
    have hf := hfind n d _ _ ps rfl hps
    have hSvi : structFieldsOf decls (.ptr (.name (str "VarlinkInterface")))
        = some (param [] (.name (pkg ++ str "Interface"))) := by simp [structFieldsOf, hctx.viType]
    have hft : fieldType (pkg ++ str "Interface") (param [] (.name (pkg ++ str "Interface")))
        = some (.name (pkg ++ str "Interface")) := by simp [fieldType, param, embeddedName]
    have hdrop : ((callParams.append ps).types).drop 2 = ps.types := by
      rw [types_append]; rfl
    simp only [dispatchCaseView] at hl
    split at hl
    · split at hl
      · rename_i T as e1 e2
        injection hl with hl; subst hl
        obtain ⟨gfs, rfl, hG⟩ := goTy_struct fi true T e1
        have hne1 : str "err" ≠ str "s" := by decide
        have hne2 : str "in" ≠ str "s" := by decide
        have hne3 : str "err" ≠ str "in" := by decide
        let env' : Env := [str "err"].map (fun n => (n, unknownTy)) ++ ((str "in", GoTy.struct gfs) :: env)
        have hs' : envLookup (str "s") env' = some (.ptr (.name (str "VarlinkInterface"))) := by
          simp [env', envLookup, hne1, hne2, hs]
        have hin : envLookup (str "in") env' = some (.struct gfs) := by
          simp [env', envLookup, hne3]
        have hargs := dispatchArgs_typed decls env' (.struct gfs) gfs hin rfl fi fi as ps (fun _ h => h)
          (fieldType_goFields fi gfs hi hG) e2 hps
        have hcall : dispatchCallOk decls env' [str "s", pkg ++ str "Interface", n] as = true := by
          simp [dispatchCallOk, hs', hSvi, hft, hctx.iface, hf, hdrop, hargs]
        simp only [List.cons_append, List.nil_append, typed_case, typed_var, typed_define, typed_strArg, typed_args,
          typed_nil, Bool.and_true]
        show (dispatchCallOk decls env' _ as && _) = _
        rw [hcall, Bool.true_and]
      · exact absurd hl (by simp)
    · rename_i hnil
      injection hl with hl; subst hl
      have hfi : fi = .nil := by cases fi <;> simp [tyFields, Fields.isNil] at hnil ⊢
      subst hfi
      simp [paramFields] at hps
      subst hps
      have hcall : dispatchCallOk decls env [str "s", pkg ++ str "Interface", n] [] = true := by
        simp [dispatchCallOk, hs, hSvi, hft, hctx.iface, hf, hdrop, argsOk, GoFields.types]
      simp only [List.cons_append, List.nil_append, typed_case, typed_args, typed_nil, hcall, Bool.and_true,
        Bool.true_and]

theorem dispatchCases_typed (decls : List Decl) (pkg : Bytes) (ims : List IfaceMethod) (hctx : DispatchCtx decls pkg ims)
    (env : Env) (hs : envLookup (str "s") env = some (.ptr (.name (str "VarlinkInterface")))) :
    ∀ (ms : List Member) (cases rest : List Stmt), (∀ m ∈ ms, MemberGood m) →
      (∀ m ∈ ms, ∀ n d i o ps, m = .method n d i o → paramFields (str "_") (tyFields i) = some ps →
        ims.find? (fun im => im.name == n) = some ⟨n, callParams.append ps, errorResult⟩) →
      concatOptL (dispatchCaseView pkg) ms = some cases →
      typedStmts decls env (cases ++ rest) = typedStmts decls env rest
  | [], cases, rest, _, _, h => by simp [concatOptL] at h; subst h; rfl
  | m :: ms, cases, rest, hg, hf, h => by
    simp only [concatOptL] at h
    split at h
    · rename_i x y hx hy
      injection h with h; subst h
      rw [List.append_assoc, dispatchCaseView_typed decls pkg ims hctx m (hg m (by simp)) x _ env hs
        (hf m (by simp)) hx]
      exact dispatchCases_typed decls pkg ims hctx env hs ms y rest (fun a ha => hg a (by simp [ha]))
        (fun a ha => hf a (by simp [ha])) hy
    · exact absurd h (by simp)



def Decl.isIface : Decl → Bool
  | .iface _ _ => true
  | _ => false

theorem lookupIface_skip (n : Bytes) : ∀ (pre rest : List Decl), pre.all (fun d => !d.isIface) = true →
    lookupIface (pre ++ rest) n = lookupIface rest n
  | [], _, _ => rfl
  | d :: pre, rest, h => by
    simp only [List.all_cons, Bool.and_eq_true, Bool.not_eq_true'] at h
    obtain ⟨h1, h2⟩ := h
    have ih := lookupIface_skip n pre rest h2
    cases d <;> simp only [Decl.isIface] at h1 <;> first
      | (exact absurd h1 (by decide))
      | simp [lookupIface, ih]

theorem concatOptL_mem {α β} (f : α → Option (List β)) : ∀ (l : List α) (r : List β) (a : α) (x : List β),
    concatOptL f l = some r → a ∈ l → f a = some x → ∀ d ∈ x, d ∈ r
  | [], _, _, _, _, ha, _, _, _ => by simp at ha
  | b :: l, r, a, x, h, ha, hx, d, hd => by
    simp only [concatOptL] at h
    split at h
    · rename_i y z hy hz
      injection h with h; subst h
      rcases List.mem_cons.mp ha with e | e
      · subst e
        rw [hy] at hx; injection hx with hx; subst hx
        exact List.mem_append.mpr (Or.inl hd)
      · exact List.mem_append.mpr (Or.inr (concatOptL_mem f l z a x hz e hx d hd))
    · exact absurd h (by simp)

theorem ifaceMethods_find : ∀ (ms : List Member) (r : List IfaceMethod),
    concatOptL ifaceMethodView ms = some r → ((ms.filter Member.isMethod).map Member.name).Nodup →
    ∀ m ∈ ms, ∀ n d i o ps, m = .method n d i o → paramFields (str "_") (tyFields i) = some ps →
      r.find? (fun im => im.name == n) = some ⟨n, callParams.append ps, errorResult⟩
  | [], _, _, _, m, hm, _, _, _, _, _, _, _ => by simp at hm
  | a :: ms, r, h, hnd, m, hm, n, d, i, o, ps, e, hps => by
    simp only [concatOptL] at h
    split at h
    · rename_i x y hx hy
      injection h with h; subst h
      cases a with
      | alias an ad aty =>
        simp [ifaceMethodView] at hx; subst hx
        have hm' : m ∈ ms := by
          rcases List.mem_cons.mp hm with e' | e'
          · subst e'; exact absurd e (by simp)
          · exact e'
        simpa using ifaceMethods_find ms y hy (by simpa [List.filter, Member.isMethod] using hnd) m hm' n d i o ps e hps
      | error an ad aty =>
        simp [ifaceMethodView] at hx; subst hx
        have hm' : m ∈ ms := by
          rcases List.mem_cons.mp hm with e' | e'
          · subst e'; exact absurd e (by simp)
          · exact e'
        simpa using ifaceMethods_find ms y hy (by simpa [List.filter, Member.isMethod] using hnd) m hm' n d i o ps e hps
      | method an ad ai ao =>
        simp only [ifaceMethodView, Option.map_eq_some_iff] at hx
        obtain ⟨aps, haps, rfl⟩ := hx
        have hnd' : an ∉ (ms.filter Member.isMethod).map Member.name ∧ ((ms.filter Member.isMethod).map Member.name).Nodup := by
          simpa [List.filter, Member.isMethod, Member.name] using hnd
        rcases List.mem_cons.mp hm with e' | e'
        · subst e'
          injection e with e1 e2 e3 e4
          subst e1 e3
          rw [haps] at hps; injection hps with hps; subst hps
          simp
        · have hne : an ≠ n := by
            intro e2; subst e2
            apply hnd'.1
            exact List.mem_map.mpr ⟨m, List.mem_filter.mpr ⟨e', by rw [e]; rfl⟩, by rw [e]; rfl⟩
          have := ifaceMethods_find ms y hy hnd'.2 m e' n d i o ps e hps
          simp [List.find?, hne, this]
    · exact absurd h (by simp)



theorem aliasView_noIface (t : Idl) (m : Member) (l : List Decl) (hl : aliasView t m = some l) :
    l.all (fun d => !d.isIface) = true := by
  cases m with
  | alias n d ty =>
    simp only [aliasView, Option.map_eq_some_iff] at hl
    obtain ⟨g, _, rfl⟩ := hl
    cases resolvesToObject t ty <;> rfl
  | method => simp [aliasView] at hl; subst hl; rfl
  | error => simp [aliasView] at hl; subst hl; rfl

theorem errorView_noIface (m : Member) (l : List Decl) (hl : errorView m = some l) :
    l.all (fun d => !d.isIface) = true := by
  cases m with
  | alias => simp [errorView] at hl; subst hl; rfl
  | method => simp [errorView] at hl; subst hl; rfl
  | error n d oty =>
    simp only [errorView, Option.map_eq_some_iff] at hl
    obtain ⟨g, _, rfl⟩ := hl
    rfl

theorem methodClientView_noIface (iface : Bytes) (m : Member) (l : List Decl) (hl : methodClientView iface m = some l) :
    l.all (fun d => !d.isIface) = true := by
  cases m with
  | alias => simp [methodClientView] at hl; subst hl; rfl
  | error => simp [methodClientView] at hl; subst hl; rfl
  | method n d i o =>
    simp only [methodClientView] at hl
    split at hl
    · injection hl with hl; subst hl; rfl
    · exact absurd hl (by simp)

/-- **typedOk**: every kept assignment of the emitted file is between identical types, every conversion is
    between types identical ignoring tags, every selector names a field, the dispatcher passes arguments of the
    interface method's parameter types -/
theorem typedOk_genFile (t : Idl) (f : GoFile) (hm : ∀ m ∈ t.members, MemberGood m) (htop : TopFacts t)
    (hf : genFile t = some f) : typedOk f = true := by
  have htl := topLevelOk_genFile t f htop hf
  simp only [topLevelOk, Bool.and_eq_true] at htl
  have hnd : (f.decls.filterMap Decl.typeName?).Nodup :=
    typeNames_nodup_of_top f.decls ((distinct_iff_nodup _).mp htl.1.2)
  obtain ⟨body, aliases, errors, clients, ifaceMethods, errorReplies, methodReplies, dummies, cases,
    _, e1, e2, e3, e4, e5, e6, e7, e8, rfl⟩ := genFile_inv hf
  have sub : ∀ (p : Member → Bool), ∀ m ∈ t.members.filter p, MemberGood m :=
    fun p m hm' => hm m (List.mem_filter.mp hm').1
  generalize hD : (assembleFile t aliases errors clients ifaceMethods errorReplies methodReplies dummies cases).decls
    = decls at hnd
  have hDeq : decls = aliases ++ errors ++ [dispatchErrorView t.name t.errors] ++ clients
      ++ [.iface (pkgName t.name ++ str "Interface") ifaceMethods,
          .type (str "VarlinkCall") (.struct (param [] (.qual (str "varlink") (str "Call"))))]
      ++ errorReplies ++ methodReplies ++ dummies
      ++ [.func (mkFunc varlinkIfaceRecv (str "VarlinkDispatch")
            (ctxParam.append ((param (str "call") (.qual (str "varlink") (str "Call"))).append
              (param (str "methodname") (tName "string"))))
            errorResult (cases ++ [.caseBlock none []])),
          .func (mkFunc varlinkIfaceRecv (str "VarlinkGetName") .nil (param [] (tName "string"))
            [.retString t.name]),
          .func (mkFunc varlinkIfaceRecv (str "VarlinkGetDescription") .nil (param [] (tName "string"))
            [.retString (descriptionValue t.description)]),
          .type (str "VarlinkInterface") (.struct (param [] (.name (pkgName t.name ++ str "Interface")))),
          .func (mkFunc none (str "VarlinkNew") (param (str "m") (.name (pkgName t.name ++ str "Interface")))
            (param [] (.ptr (tName "VarlinkInterface"))) [])] := by
    rw [← hD]; rfl
  -- declared error types are found under their names
  have hE : ∀ m ∈ t.errors, ∀ n d oty ty, m = .error n d oty → goTy (errTy oty) true = some ty →
      lookupType decls n = some ty := by
    intro m hmem n d oty ty e hty
    subst e
    apply lookupType_of_mem decls n ty hnd
    left
    have hx : errorView (.error n d oty) = some [.type n ty,
        .func (mkFunc (some ⟨str "e", false, n⟩) (str "Error") .nil (param [] (tName "string"))
          (.define [str "s"] ::
            (if !(tyFields (errTy oty)).isNil then .strArg (str "fmt") (str "Sprintf") (errorFormat (tyFields (errTy oty))) :: fieldUses (tyFields (errTy oty)) else []))
          (if !(tyFields (errTy oty)).isNil then [str "fmt"] else []))] := by
      simp [errorView, hty]
    have := concatOptL_mem errorView t.errors errors _ _ e2 hmem hx (.type n ty) (by simp)
    rw [hDeq]
    simp [this]
  have hVI : lookupType decls (str "VarlinkInterface")
      = some (.struct (param [] (.name (pkgName t.name ++ str "Interface")))) := by
    apply lookupType_of_mem decls _ _ hnd
    left
    rw [hDeq]
    simp
  have hI : lookupIface decls (pkgName t.name ++ str "Interface") = some ifaceMethods := by
    have n1 := concatOptL_all (aliasView t) (fun d => !d.isIface) _ _ (fun m _ x hx => aliasView_noIface t m x hx) e1
    have n2 := concatOptL_all errorView (fun d => !d.isIface) _ _ (fun m _ x hx => errorView_noIface m x hx) e2
    have n3 := concatOptL_all (methodClientView t.name) (fun d => !d.isIface) _ _
      (fun m _ x hx => methodClientView_noIface _ m x hx) e3
    have n4 : [dispatchErrorView t.name t.errors].all (fun d => !d.isIface) = true := rfl
    rw [hDeq]
    simp only [List.append_assoc]
    rw [lookupIface_skip _ _ _ n1, lookupIface_skip _ _ _ n2, lookupIface_skip _ _ _ n4, lookupIface_skip _ _ _ n3]
    simp [lookupIface]
  have hctx : DispatchCtx decls (pkgName t.name) ifaceMethods := ⟨hVI, hI⟩
  have hfind := ifaceMethods_find t.methods ifaceMethods e4 (by
    have := nodup_filter_map Member.name Member.isMethod t.members htop.unique
    simpa [Idl.methods, List.filter_filter] using this)
  -- the pieces
  have a1 := concatOptL_all (aliasView t) (Decl.typedOk decls) _ _ (fun m _ x hx => aliasView_typed decls t m x hx) e1
  have a2 := concatOptL_all errorView (Decl.typedOk decls) _ _
    (fun m hm' x hx => errorView_typed decls m (sub _ m hm') x hx (fun n d oty ty e hty => hE m hm' n d oty ty e hty)) e2
  have a3 := concatOptL_all (methodClientView t.name) (Decl.typedOk decls) _ _
    (fun m hm' x hx => methodClientView_typed decls _ m (sub _ m hm') x hx) e3
  have a5 := concatOptL_all (errorReplyView t.name) (Decl.typedOk decls) _ _
    (fun m hm' x hx => errorReplyView_typed decls _ m (sub _ m hm') x hx
      (fun n d oty ty e hty => hE m hm' n d oty ty e hty)) e5
  have a6 := concatOptL_all methodReplyView (Decl.typedOk decls) _ _
    (fun m hm' x hx => methodReplyView_typed decls m (sub _ m hm') x hx) e6
  have a7 := concatOptL_all (dummyView t.name) (Decl.typedOk decls) _ _
    (fun m _ x hx => dummyView_typed decls _ m x hx) e7
  have hs : envLookup (str "s") (mkFunc varlinkIfaceRecv (str "VarlinkDispatch")
      (ctxParam.append ((param (str "call") (.qual (str "varlink") (str "Call"))).append
        (param (str "methodname") (tName "string"))))
      errorResult (cases ++ [.caseBlock none []])).env = some (.ptr (.name (str "VarlinkInterface"))) := by
    simp [varlinkIfaceRecv, env_recv, envLookup]
  have hdisp : typedStmts decls (mkFunc varlinkIfaceRecv (str "VarlinkDispatch")
      (ctxParam.append ((param (str "call") (.qual (str "varlink") (str "Call"))).append
        (param (str "methodname") (tName "string"))))
      errorResult (cases ++ [.caseBlock none []])).env (cases ++ [.caseBlock none []]) = true := by
    rw [dispatchCases_typed decls (pkgName t.name) ifaceMethods hctx _ hs t.methods cases _ (fun m hm' => sub _ m hm')
      (fun m hm' => hfind m hm') e8]
    simp [typed_case, typed_nil]
  rw [typedOk_eq, hD, List.all_eq_true]
  intro d hd
  rw [hDeq] at hd
  simp only [List.mem_append, List.mem_cons, List.mem_singleton, List.not_mem_nil, or_false] at hd
  rcases hd with (((((((hd | hd) | hd) | hd) | hd) | hd) | hd) | hd) | hd
  · exact List.all_eq_true.mp a1 d hd
  · exact List.all_eq_true.mp a2 d hd
  · subst hd; exact dispatchErrorView_typed decls _ _
  · exact List.all_eq_true.mp a3 d hd
  · rcases hd with hd | hd <;> subst hd <;> rfl
  · exact List.all_eq_true.mp a5 d hd
  · exact List.all_eq_true.mp a6 d hd
  · exact List.all_eq_true.mp a7 d hd
  · rcases hd with hd | hd | hd | hd | hd
    · subst hd; exact hdisp
    · subst hd; exact typedStmts_untyped decls _ _ rfl
    · subst hd; exact typedStmts_untyped decls _ _ rfl
    · subst hd; rfl
    · subst hd; exact typed_nil _ _


end Varlink.Gen
