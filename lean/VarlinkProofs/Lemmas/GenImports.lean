/-
  `importsOk` for the generator's view: the import block of the emitted file lists exactly the packages its
  declarations refer to — `varlink` and `context` always, `encoding/json` iff some emitted type is
  `json.RawMessage` or an error exists (`usesJson`), `fmt` iff some error has parameters (`usesFmt`)
  (used by VarlinkProofs/Props/C07.lean).
-/
import VarlinkProofs.Lemmas.GenTop2
set_option linter.unusedSimpArgs false
namespace Varlink.Gen
open Varlink Varlink.Idl

def pJson : Bytes := str "json"
def pFmt : Bytes := str "fmt"
def pVarlink : Bytes := str "varlink"
def pContext : Bytes := str "context"

/-- every package name in `l` is `json`, and there is one only if `b` -/
def OnlyJson (l : List Bytes) (b : Bool) : Prop := ∀ p ∈ l, p = pJson ∧ b = true

theorem onlyJson_nil (b : Bool) : OnlyJson [] b := fun _ h => absurd h (by simp)

theorem onlyJson_append {a b : List Bytes} {c : Bool} : OnlyJson (a ++ b) c ↔ OnlyJson a c ∧ OnlyJson b c := by
  simp only [OnlyJson, List.mem_append]
  exact ⟨fun h => ⟨fun p hp => h p (Or.inl hp), fun p hp => h p (Or.inr hp)⟩,
    fun h p hp => hp.elim (h.1 p) (h.2 p)⟩

theorem OnlyJson.mono {l : List Bytes} {b c : Bool} (h : OnlyJson l b) (hbc : b = true → c = true) : OnlyJson l c :=
  fun p hp => ⟨(h p hp).1, hbc (h p hp).2⟩

/-! ## the types -/

mutual
/-- the only package a translated description type refers to is `json`, and only if the type contains `object` -/
theorem goTy_quals : ∀ (t : Ty) (j : Bool) (g : GoTy), goTy t j = some g → OnlyJson g.quals (tyUsesObject t)
  | .bool, _, g, h => by simp [goTy] at h; subst h; exact onlyJson_nil _
  | .int, _, g, h => by simp [goTy] at h; subst h; exact onlyJson_nil _
  | .float, _, g, h => by simp [goTy] at h; subst h; exact onlyJson_nil _
  | .string, _, g, h => by simp [goTy] at h; subst h; exact onlyJson_nil _
  | .named _, _, g, h => by simp [goTy] at h; subst h; exact onlyJson_nil _
  | .enum _, _, g, h => by simp [goTy] at h; subst h; exact onlyJson_nil _
  | .object, _, g, h => by
    simp [goTy] at h; subst h
    intro p hp
    simp only [GoTy.quals, List.mem_singleton] at hp
    exact ⟨hp, rfl⟩
  | .maybe t, j, g, h => by
    simp only [goTy, Option.map_eq_some_iff] at h
    obtain ⟨a, ha, rfl⟩ := h
    simpa [GoTy.quals, tyUsesObject] using goTy_quals t j a ha
  | .array t, j, g, h => by
    simp only [goTy, Option.map_eq_some_iff] at h
    obtain ⟨a, ha, rfl⟩ := h
    simpa [GoTy.quals, tyUsesObject] using goTy_quals t j a ha
  | .map t, j, g, h => by
    simp only [goTy, Option.map_eq_some_iff] at h
    obtain ⟨a, ha, rfl⟩ := h
    simpa [GoTy.quals, tyUsesObject] using goTy_quals t j a ha
  | .struct fs, j, g, h => by
    simp only [goTy, Option.map_eq_some_iff] at h
    obtain ⟨a, ha, rfl⟩ := h
    simpa [GoTy.quals, tyUsesObject] using goFields_quals fs j a ha
theorem goFields_quals : ∀ (fs : Fields) (j : Bool) (g : GoFields), goFields fs j = some g →
    OnlyJson g.quals (fsUsesObject fs)
  | .nil, _, g, h => by simp [goFields] at h; subst h; exact onlyJson_nil _
  | .bare _ _, _, g, h => by simp [goFields] at h
  | .typed n t r, j, g, h => by
    simp only [goFields] at h
    split at h
    · rename_i a b ha hb
      injection h with h; subst h
      simp only [GoFields.quals, onlyJson_append, fsUsesObject]
      exact ⟨(goTy_quals t j a ha).mono (by simp +contextual), (goFields_quals r j b hb).mono (by simp +contextual)⟩
    · exact absurd h (by simp)
end

mutual
/-- … and a type that contains `object` does refer to `json` -/
theorem goTy_uses : ∀ (t : Ty) (j : Bool) (g : GoTy), goTy t j = some g → tyUsesObject t = true → pJson ∈ g.quals
  | .bool, _, _, _, u => by simp [tyUsesObject] at u
  | .int, _, _, _, u => by simp [tyUsesObject] at u
  | .float, _, _, _, u => by simp [tyUsesObject] at u
  | .string, _, _, _, u => by simp [tyUsesObject] at u
  | .named _, _, _, _, u => by simp [tyUsesObject] at u
  | .enum _, _, _, _, u => by simp [tyUsesObject] at u
  | .object, _, g, h, _ => by simp [goTy] at h; subst h; simp [GoTy.quals, pJson]
  | .maybe t, j, g, h, u => by
    simp only [goTy, Option.map_eq_some_iff] at h
    obtain ⟨a, ha, rfl⟩ := h
    simpa [GoTy.quals] using goTy_uses t j a ha (by simpa [tyUsesObject] using u)
  | .array t, j, g, h, u => by
    simp only [goTy, Option.map_eq_some_iff] at h
    obtain ⟨a, ha, rfl⟩ := h
    simpa [GoTy.quals] using goTy_uses t j a ha (by simpa [tyUsesObject] using u)
  | .map t, j, g, h, u => by
    simp only [goTy, Option.map_eq_some_iff] at h
    obtain ⟨a, ha, rfl⟩ := h
    simpa [GoTy.quals] using goTy_uses t j a ha (by simpa [tyUsesObject] using u)
  | .struct fs, j, g, h, u => by
    simp only [goTy, Option.map_eq_some_iff] at h
    obtain ⟨a, ha, rfl⟩ := h
    simpa [GoTy.quals] using goFields_uses fs j a ha (by simpa [tyUsesObject] using u)
theorem goFields_uses : ∀ (fs : Fields) (j : Bool) (g : GoFields), goFields fs j = some g →
    fsUsesObject fs = true → pJson ∈ g.quals
  | .nil, _, _, _, u => by simp [fsUsesObject] at u
  | .bare _ _, _, g, h, _ => by simp [goFields] at h
  | .typed n t r, j, g, h, u => by
    simp only [goFields] at h
    split at h
    · rename_i a b ha hb
      injection h with h; subst h
      simp only [fsUsesObject, Bool.or_eq_true] at u
      simp only [GoFields.quals, List.mem_append]
      rcases u with u | u
      · exact Or.inl (goTy_uses t j a ha u)
      · exact Or.inr (goFields_uses r j b hb u)
    · exact absurd h (by simp)
end

/-! ## parameter lists and copies -/

theorem paramFields_quals (s : Bytes) : ∀ (fs : Fields) (g : GoFields), paramFields s fs = some g →
    OnlyJson g.quals (fsUsesObject fs)
  | .nil, g, h => by simp [paramFields] at h; subst h; exact onlyJson_nil _
  | .bare _ _, g, h => by simp [paramFields] at h
  | .typed n t r, g, h => by
    simp only [paramFields] at h
    split at h
    · rename_i a b ha hb
      injection h with h; subst h
      simp only [GoFields.quals, onlyJson_append, fsUsesObject]
      exact ⟨(goTy_quals t false a ha).mono (by simp +contextual),
        (paramFields_quals s r b hb).mono (by simp +contextual)⟩
    · exact absurd h (by simp)

theorem paramFields_uses (s : Bytes) : ∀ (fs : Fields) (g : GoFields), paramFields s fs = some g →
    fsUsesObject fs = true → pJson ∈ g.quals
  | .nil, _, _, u => by simp [fsUsesObject] at u
  | .bare _ _, g, h, _ => by simp [paramFields] at h
  | .typed n t r, g, h, u => by
    simp only [paramFields] at h
    split at h
    · rename_i a b ha hb
      injection h with h; subst h
      simp only [fsUsesObject, Bool.or_eq_true] at u
      simp only [GoFields.quals, List.mem_append]
      rcases u with u | u
      · exact Or.inl (goTy_uses t false a ha u)
      · exact Or.inr (paramFields_uses s r b hb u)
    · exact absurd h (by simp)

theorem resultTypeFields_quals : ∀ (fs : Fields) (g : GoFields), resultTypeFields fs = some g →
    OnlyJson g.quals (fsUsesObject fs)
  | .nil, g, h => by simp [resultTypeFields] at h; subst h; exact onlyJson_nil _
  | .bare _ _, g, h => by simp [resultTypeFields] at h
  | .typed n t r, g, h => by
    simp only [resultTypeFields] at h
    split at h
    · rename_i a b ha hb
      injection h with h; subst h
      simp only [GoFields.quals, onlyJson_append, fsUsesObject]
      exact ⟨(goTy_quals t false a ha).mono (by simp +contextual),
        (resultTypeFields_quals r b hb).mono (by simp +contextual)⟩
    · exact absurd h (by simp)

theorem copyInStmts_quals (d s : Bytes) : ∀ (fs : Fields) (l : List Stmt), copyInStmts d s fs = some l →
    OnlyJson (Stmt.qualsList l) (fsUsesObject fs)
  | .nil, l, h => by simp [copyInStmts] at h; subst h; exact onlyJson_nil _
  | .bare _ _, l, h => by simp [copyInStmts] at h
  | .typed n t r, l, h => by
    simp only [copyInStmts] at h
    split at h
    · rename_i a b ha hb
      injection h with h; subst h
      have h1 : OnlyJson a.quals (tyUsesObject t || fsUsesObject r) :=
        (goTy_quals t true a ha).mono (by simp +contextual)
      have h2 : OnlyJson (Stmt.qualsList b) (tyUsesObject t || fsUsesObject r) :=
        (copyInStmts_quals d s r b hb).mono (by simp +contextual)
      cases hk : convKind t <;>
        simp [Stmt.qualsList, Stmt.quals, Expr.quals, onlyJson_append, fsUsesObject, h1, h2]
    · exact absurd h (by simp)

theorem copyOutStmts_quals : ∀ (fs : Fields) (l : List Stmt), copyOutStmts fs = some l →
    OnlyJson (Stmt.qualsList l) (fsUsesObject fs)
  | .nil, l, h => by simp [copyOutStmts] at h; subst h; exact onlyJson_nil _
  | .bare _ _, l, h => by simp [copyOutStmts] at h
  | .typed n t r, l, h => by
    simp only [copyOutStmts] at h
    split at h
    · rename_i a b ha hb
      injection h with h; subst h
      have h1 : OnlyJson a.quals (tyUsesObject t || fsUsesObject r) :=
        (goTy_quals t false a ha).mono (by simp +contextual)
      have h2 : OnlyJson (Stmt.qualsList b) (tyUsesObject t || fsUsesObject r) :=
        (copyOutStmts_quals r b hb).mono (by simp +contextual)
      cases hk : convKind t <;>
        simp [Stmt.qualsList, Stmt.quals, Expr.quals, onlyJson_append, fsUsesObject, h1, h2]
    · exact absurd h (by simp)

theorem dispatchArgExprs_quals : ∀ (fs : Fields) (l : List Expr), dispatchArgExprs fs = some l →
    OnlyJson ((l.map Expr.quals).flatten) (fsUsesObject fs)
  | .nil, l, h => by simp [dispatchArgExprs] at h; subst h; exact onlyJson_nil _
  | .bare _ _, l, h => by simp [dispatchArgExprs] at h
  | .typed n t r, l, h => by
    simp only [dispatchArgExprs] at h
    split at h
    · rename_i a b ha hb
      injection h with h; subst h
      have h1 : OnlyJson a.quals (tyUsesObject t || fsUsesObject r) :=
        (goTy_quals t false a ha).mono (by simp +contextual)
      have h2 : OnlyJson ((b.map Expr.quals).flatten) (tyUsesObject t || fsUsesObject r) :=
        (dispatchArgExprs_quals r b hb).mono (by simp +contextual)
      cases hk : convKind t <;>
        simp [Expr.quals, onlyJson_append, fsUsesObject, h1, h2]
    · exact absurd h (by simp)

/-- the tagged struct `var in` / `var out` is only emitted for a type with fields -/
theorem goTy_quals_fields (t : Ty) (j : Bool) (g : GoTy) (hne : (tyFields t).isNil = false)
    (h : goTy t j = some g) : OnlyJson g.quals (fsUsesObject (tyFields t)) := by
  cases t with
  | struct fs => simpa [tyFields, tyUsesObject] using goTy_quals (.struct fs) j g h
  | enum fs => simp [goTy] at h; subst h; exact onlyJson_nil _
  | _ => simp [tyFields, Fields.isNil] at hne

/-! ## what a declaration may refer to -/

/-- the packages the declarations generated for one member (or the fixed ones) may refer to -/
def Allowed (j f : Bool) (p : Bytes) : Prop :=
  p = pVarlink ∨ p = pContext ∨ (p = pJson ∧ j = true) ∨ (p = pFmt ∧ f = true)

def Sub (j f : Bool) (l : List Bytes) : Prop := ∀ p ∈ l, Allowed j f p

theorem sub_nil (j f : Bool) : Sub j f [] := fun _ h => absurd h (by simp)

theorem sub_append {j f : Bool} {a b : List Bytes} : Sub j f (a ++ b) ↔ Sub j f a ∧ Sub j f b := by
  simp only [Sub, List.mem_append]
  exact ⟨fun h => ⟨fun p hp => h p (Or.inl hp), fun p hp => h p (Or.inr hp)⟩,
    fun h p hp => hp.elim (h.1 p) (h.2 p)⟩

theorem sub_cons {j f : Bool} {x : Bytes} {l : List Bytes} : Sub j f (x :: l) ↔ Allowed j f x ∧ Sub j f l := by
  simp only [Sub, List.mem_cons, forall_eq_or_imp]

theorem allowed_varlink (j f : Bool) : Allowed j f pVarlink := Or.inl rfl
theorem allowed_context (j f : Bool) : Allowed j f pContext := Or.inr (Or.inl rfl)
theorem allowed_json (f : Bool) : Allowed true f pJson := Or.inr (Or.inr (Or.inl ⟨rfl, rfl⟩))
theorem allowed_fmt (j : Bool) : Allowed j true pFmt := Or.inr (Or.inr (Or.inr ⟨rfl, rfl⟩))

theorem Allowed.mono {j f j' f' : Bool} {p : Bytes} (h : Allowed j f p) (hj : j = true → j' = true)
    (hf : f = true → f' = true) : Allowed j' f' p := by
  rcases h with h | h | h | h
  · exact Or.inl h
  · exact Or.inr (Or.inl h)
  · exact Or.inr (Or.inr (Or.inl ⟨h.1, hj h.2⟩))
  · exact Or.inr (Or.inr (Or.inr ⟨h.1, hf h.2⟩))

theorem Sub.mono {j f j' f' : Bool} {l : List Bytes} (h : Sub j f l) (hj : j = true → j' = true)
    (hf : f = true → f' = true) : Sub j' f' l := fun p hp => (h p hp).mono hj hf

theorem OnlyJson.sub {l : List Bytes} {b : Bool} (h : OnlyJson l b) (j f : Bool) (hb : b = true → j = true) :
    Sub j f l := fun p hp => Or.inr (Or.inr (Or.inl ⟨(h p hp).1, hb (h p hp).2⟩))

theorem mem_sortedUses {used : List Bytes} {p : Bytes} (h : p ∈ sortedUses used) : p ∈ used := by
  simp only [sortedUses, List.mem_filter] at h
  exact List.contains_iff_mem.mp h.2

theorem sub_sortedUses {j f : Bool} {used : List Bytes} (h : Sub j f used) : Sub j f (sortedUses used) :=
  fun p hp => h p (mem_sortedUses hp)

theorem pkgRefs_func (r : Option Recv) (n : Bytes) (p rs : GoFields) (b : List Stmt) (e : List Bytes) :
    Decl.pkgRefs (.func (mkFunc r n p rs b e)) = sortedUses (e ++ p.quals ++ rs.quals ++ Stmt.qualsList b) := rfl

theorem quals_append : ∀ (a b : GoFields), (a.append b).quals = a.quals ++ b.quals
  | .nil, b => by simp [GoFields.append, GoFields.quals]
  | .cons n t g r, b => by simp [GoFields.append, GoFields.quals, quals_append r b]

theorem quals_param (n : Bytes) (t : GoTy) : (param n t).quals = t.quals := by
  simp [param, GoFields.quals]

theorem qualsList_append : ∀ (a b : List Stmt), Stmt.qualsList (a ++ b) = Stmt.qualsList a ++ Stmt.qualsList b
  | [], b => by simp [Stmt.qualsList]
  | s :: a, b => by simp [Stmt.qualsList, qualsList_append a b]

theorem quals_tName (s : String) : (tName s).quals = [] := rfl
theorem quals_ctxTy : ctxTy.quals = [pContext] := rfl
theorem quals_connTy : connTy.quals = [pVarlink] := rfl
theorem quals_rwcTy : rwcTy.quals = [pVarlink] := rfl
theorem quals_ctxParam : ctxParam.quals = [pContext] := rfl
theorem quals_errorResult : errorResult.quals = [] := rfl
theorem quals_flagsResult : flagsResult.quals = [] := rfl
theorem quals_callParams : callParams.quals = [pContext] := rfl

theorem fieldUses_quals : ∀ fs : Fields, Stmt.qualsList (fieldUses fs) = []
  | .nil => rfl
  | .bare _ r => by simp [fieldUses, Stmt.qualsList, Stmt.quals, fieldUses_quals r]
  | .typed _ _ r => by simp [fieldUses, Stmt.qualsList, Stmt.quals, fieldUses_quals r]

/-- every declaration of the list refers to allowed packages only -/
def DeclsSub (j f : Bool) (l : List Decl) : Prop := ∀ d ∈ l, Sub j f d.pkgRefs

theorem declsSub_nil (j f : Bool) : DeclsSub j f [] := fun _ h => absurd h (by simp)

theorem declsSub_cons {j f : Bool} {d : Decl} {l : List Decl} :
    DeclsSub j f (d :: l) ↔ Sub j f d.pkgRefs ∧ DeclsSub j f l := by
  simp only [DeclsSub, List.mem_cons, forall_eq_or_imp]

theorem declsSub_append {j f : Bool} {a b : List Decl} :
    DeclsSub j f (a ++ b) ↔ DeclsSub j f a ∧ DeclsSub j f b := by
  simp only [DeclsSub, List.mem_append]
  exact ⟨fun h => ⟨fun p hp => h p (Or.inl hp), fun p hp => h p (Or.inr hp)⟩,
    fun h p hp => hp.elim (h.1 p) (h.2 p)⟩

/-! ## the declarations of one member -/

theorem aliasView_refs (t : Idl) (m : Member) (l : List Decl) (hl : aliasView t m = some l) :
    DeclsSub (memberUsesJson m) (memberUsesFmt m) l := by
  cases m with
  | alias n d ty =>
    simp only [aliasView, Option.map_eq_some_iff] at hl
    obtain ⟨g, hg, rfl⟩ := hl
    have := (goTy_quals ty true g hg).sub (memberUsesJson (.alias n d ty)) (memberUsesFmt (.alias n d ty))
      (by simp [memberUsesJson])
    cases resolvesToObject t ty <;> simpa [declsSub_cons, declsSub_nil, Decl.pkgRefs] using this
  | method => simp [aliasView] at hl; subst hl; exact declsSub_nil _ _
  | error => simp [aliasView] at hl; subst hl; exact declsSub_nil _ _

theorem errorView_refs (m : Member) (l : List Decl) (hl : errorView m = some l) :
    DeclsSub (memberUsesJson m) (memberUsesFmt m) l := by
  cases m with
  | alias => simp [errorView] at hl; subst hl; exact declsSub_nil _ _
  | method => simp [errorView] at hl; subst hl; exact declsSub_nil _ _
  | error n d oty =>
    simp only [errorView, Option.map_eq_some_iff] at hl
    obtain ⟨g, hg, rfl⟩ := hl
    have h1 := (goTy_quals _ true g hg).sub true (memberUsesFmt (.error n d oty)) (fun _ => rfl)
    simp only [declsSub_cons, declsSub_nil, and_true, memberUsesJson, pkgRefs_func]
    refine ⟨by simpa [Decl.pkgRefs] using h1, sub_sortedUses ?_⟩
    simp only [memberUsesFmt]
    cases hn : (tyFields (errTy oty)).isNil <;>
      simp [sub_cons, sub_nil, GoFields.quals, quals_param, quals_tName, Stmt.qualsList, Stmt.quals,
        fieldUses_quals]
      <;> exact allowed_fmt _

theorem dispatchErrorCases_quals (iface : Bytes) : ∀ es : List Member,
    Stmt.qualsList ((es.map (dispatchErrorCaseView iface)).flatten) = []
  | [] => rfl
  | e :: r => by
    cases e <;> simp [dispatchErrorCaseView, Stmt.qualsList, Stmt.quals, GoTy.quals, dispatchErrorCases_quals iface r]

theorem dispatchErrorView_refs (iface : Bytes) (errors : List Member) (f : Bool) :
    Sub (!errors.isEmpty) f (dispatchErrorView iface errors).pkgRefs := by
  simp only [dispatchErrorView, pkgRefs_func]
  apply sub_sortedUses
  cases errors with
  | nil =>
    simp [sub_cons, sub_nil, quals_param, quals_tName, quals_errorResult, Stmt.qualsList, Stmt.quals]
    exact allowed_varlink _ _
  | cons e r =>
    simp [sub_append, sub_cons, quals_param, quals_tName, quals_errorResult, Stmt.qualsList, Stmt.quals,
      dispatchErrorCases_quals, qualsList_append]
    refine ⟨allowed_varlink _ _, allowed_json _, ?_⟩
    cases e <;> simp [dispatchErrorCaseView, Stmt.qualsList, Stmt.quals, GoTy.quals, sub_nil]

theorem sendPrologueView_quals (iface n c : Bytes) (ty : Ty) (l : List Stmt)
    (hl : sendPrologueView iface n c ty = some l) : OnlyJson (Stmt.qualsList l) (fsUsesObject (tyFields ty)) := by
  simp only [sendPrologueView] at hl
  split at hl
  · rename_i hne
    split at hl
    · rename_i g cs hg hc
      injection hl with hl; subst hl
      have h1 := goTy_quals_fields ty true g (by simpa using hne) hg
      have h2 := copyInStmts_quals _ _ _ cs hc
      simp [Stmt.qualsList, Stmt.quals, qualsList_append, onlyJson_append, h1, h2]
    · exact absurd hl (by simp)
  · injection hl with hl; subst hl
    simp [Stmt.qualsList, Stmt.quals, onlyJson_nil]

theorem receiveView_quals (ty : Ty) (l : List Stmt) (hl : receiveView ty = some l) :
    OnlyJson (Stmt.qualsList l) (fsUsesObject (tyFields ty)) := by
  simp only [receiveView] at hl
  split at hl
  · rename_i hne
    simp only [Option.map_eq_some_iff] at hl
    obtain ⟨g, hg, rfl⟩ := hl
    have h1 := goTy_quals_fields ty true g (by simpa using hne) hg
    simpa [Stmt.qualsList, Stmt.quals] using h1
  · injection hl with hl; subst hl
    exact onlyJson_nil _

theorem methodClientView_refs (iface : Bytes) (m : Member) (l : List Decl)
    (hl : methodClientView iface m = some l) : DeclsSub (memberUsesJson m) (memberUsesFmt m) l := by
  cases m with
  | alias => simp [methodClientView] at hl; subst hl; exact declsSub_nil _ _
  | error => simp [methodClientView] at hl; subst hl; exact declsSub_nil _ _
  | method n d i o =>
    simp only [methodClientView] at hl
    split at hl
    · rename_i params results resultTys sendPro upPro recv' copies e1 e2 e3 e4 e5 e6 e7
      injection hl with hl; subst hl
      generalize hj : memberUsesJson (.method n d i o) = j
      generalize memberUsesFmt (.method n d i o) = f
      have ji : fsUsesObject (tyFields i) = true → j = true := by
        intro h; rw [← hj]; simp [memberUsesJson, h]
      have jo : fsUsesObject (tyFields o) = true → j = true := by
        intro h; rw [← hj]; simp [memberUsesJson, h]
      have p1 := (paramFields_quals _ _ params e1).sub j f ji
      have p2 := (paramFields_quals _ _ results e2).sub j f jo
      have p3 := (resultTypeFields_quals _ resultTys e3).sub j f jo
      have p4 := (sendPrologueView_quals _ _ _ _ _ e4).sub j f ji
      have p5 := (sendPrologueView_quals _ _ _ _ _ e5).sub j f ji
      have p6 := (receiveView_quals _ _ e6).sub j f jo
      have p7 := (copyOutStmts_quals _ _ e7).sub j f jo
      have av := allowed_varlink j f
      have ac := allowed_context j f
      simp only [declsSub_cons, declsSub_nil, and_true, pkgRefs_func]
      refine ⟨?_, ?_, ?_, ?_, ?_⟩
      · simp [Decl.pkgRefs, GoTy.quals, GoFields.quals, sub_nil]
      all_goals
        apply sub_sortedUses
        simp [sub_append, sub_cons, sub_nil, quals_append, quals_param, quals_tName, quals_ctxTy, quals_connTy,
          quals_rwcTy, quals_ctxParam, quals_errorResult, quals_flagsResult, GoTy.quals, GoFields.quals,
          Stmt.qualsList, Stmt.quals, qualsList_append, p1, p2, p3, p4, p5, p6, p7, av, ac]
    · exact absurd hl (by simp)

theorem ifaceMethodView_refs (m : Member) (l : List IfaceMethod) (hl : ifaceMethodView m = some l) :
    ∀ im ∈ l, Sub (memberUsesJson m) (memberUsesFmt m) (im.params.quals ++ im.results.quals) := by
  cases m with
  | alias => simp [ifaceMethodView] at hl; subst hl; simp
  | error => simp [ifaceMethodView] at hl; subst hl; simp
  | method n d i o =>
    simp only [ifaceMethodView, Option.map_eq_some_iff] at hl
    obtain ⟨ps, hps, rfl⟩ := hl
    have p1 := (paramFields_quals _ _ ps hps).sub (memberUsesJson (.method n d i o)) (memberUsesFmt (.method n d i o))
      (by intro h; simp [memberUsesJson, h])
    simp [sub_append, sub_cons, sub_nil, quals_append, quals_callParams, quals_errorResult, p1, allowed_context]

theorem errorReplyView_refs (iface : Bytes) (m : Member) (l : List Decl)
    (hl : errorReplyView iface m = some l) : DeclsSub (memberUsesJson m) (memberUsesFmt m) l := by
  cases m with
  | alias => simp [errorReplyView] at hl; subst hl; exact declsSub_nil _ _
  | method => simp [errorReplyView] at hl; subst hl; exact declsSub_nil _ _
  | error n d oty =>
    simp only [errorReplyView] at hl
    split at hl
    · rename_i ps c e1 e2
      injection hl with hl; subst hl
      have p1 := (paramFields_quals _ _ ps e1).sub true (memberUsesFmt (.error n d oty)) (fun _ => rfl)
      have p2 := (copyInStmts_quals _ _ _ c e2).sub true (memberUsesFmt (.error n d oty)) (fun _ => rfl)
      simp only [declsSub_cons, declsSub_nil, and_true, pkgRefs_func, memberUsesJson]
      apply sub_sortedUses
      simp [sub_append, sub_cons, sub_nil, quals_append, quals_ctxParam, quals_errorResult, GoTy.quals,
        Stmt.qualsList, Stmt.quals, qualsList_append, p1, p2, allowed_context]
    · exact absurd hl (by simp)

theorem methodReplyView_refs (m : Member) (l : List Decl)
    (hl : methodReplyView m = some l) : DeclsSub (memberUsesJson m) (memberUsesFmt m) l := by
  cases m with
  | alias => simp [methodReplyView] at hl; subst hl; exact declsSub_nil _ _
  | error => simp [methodReplyView] at hl; subst hl; exact declsSub_nil _ _
  | method n d i o =>
    generalize hj : memberUsesJson (.method n d i o) = j
    generalize memberUsesFmt (.method n d i o) = f
    have jo : fsUsesObject (tyFields o) = true → j = true := by
      intro h; rw [← hj]; simp [memberUsesJson, h]
    simp only [methodReplyView] at hl
    split at hl
    · rename_i ps e1
      have p1 := (paramFields_quals _ _ ps e1).sub j f jo
      split at hl
      · rename_i hne
        split at hl
        · rename_i g c e2 e3
          injection hl with hl; subst hl
          have p2 := (goTy_quals_fields o true g (by simpa using hne) e2).sub j f jo
          have p3 := (copyInStmts_quals _ _ _ c e3).sub j f jo
          simp only [declsSub_cons, declsSub_nil, and_true, pkgRefs_func]
          apply sub_sortedUses
          simp [sub_append, sub_cons, sub_nil, quals_append, quals_ctxParam, quals_errorResult,
            Stmt.qualsList, Stmt.quals, p1, p2, p3, allowed_context]
        · exact absurd hl (by simp)
      · injection hl with hl; subst hl
        simp only [declsSub_cons, declsSub_nil, and_true, pkgRefs_func]
        apply sub_sortedUses
        simp [sub_append, sub_cons, sub_nil, quals_append, quals_ctxParam, quals_errorResult,
          Stmt.qualsList, p1, allowed_context]
    · exact absurd hl (by simp)

theorem dummyView_refs (iface : Bytes) (m : Member) (l : List Decl)
    (hl : dummyView iface m = some l) : DeclsSub (memberUsesJson m) (memberUsesFmt m) l := by
  cases m with
  | alias => simp [dummyView] at hl; subst hl; exact declsSub_nil _ _
  | error => simp [dummyView] at hl; subst hl; exact declsSub_nil _ _
  | method n d i o =>
    simp only [dummyView, Option.map_eq_some_iff] at hl
    obtain ⟨ps, hps, rfl⟩ := hl
    have p1 := (paramFields_quals _ _ ps hps).sub (memberUsesJson (.method n d i o)) (memberUsesFmt (.method n d i o))
      (by intro h; simp [memberUsesJson, h])
    simp only [declsSub_cons, declsSub_nil, and_true, pkgRefs_func]
    apply sub_sortedUses
    simp [sub_append, sub_cons, sub_nil, quals_append, quals_callParams, quals_errorResult,
      Stmt.qualsList, Stmt.quals, p1, allowed_context]

theorem dispatchCaseView_refs (pkg : Bytes) (m : Member) (l : List Stmt)
    (hl : dispatchCaseView pkg m = some l) : Sub (memberUsesJson m) (memberUsesFmt m) (Stmt.qualsList l) := by
  cases m with
  | alias => simp [dispatchCaseView] at hl; subst hl; exact sub_nil _ _
  | error => simp [dispatchCaseView] at hl; subst hl; exact sub_nil _ _
  | method n d i o =>
    generalize hj : memberUsesJson (.method n d i o) = j
    generalize memberUsesFmt (.method n d i o) = f
    have ji : fsUsesObject (tyFields i) = true → j = true := by
      intro h; rw [← hj]; simp [memberUsesJson, h]
    simp only [dispatchCaseView] at hl
    split at hl
    · rename_i hne
      split at hl
      · rename_i g as e1 e2
        injection hl with hl; subst hl
        have p1 := (goTy_quals_fields i true g (by simpa using hne) e1).sub j f ji
        have p2 := (dispatchArgExprs_quals _ as e2).sub j f ji
        simp [Stmt.qualsList, Stmt.quals, sub_append, sub_nil, p1, p2]
      · exact absurd hl (by simp)
    · injection hl with hl; subst hl
      simp [Stmt.qualsList, Stmt.quals, sub_nil]

/-! ## the file -/

theorem concatOptL_forall {α β} (f : α → Option (List β)) (P : β → Prop) :
    ∀ (l : List α) (r : List β), (∀ a ∈ l, ∀ x, f a = some x → ∀ d ∈ x, P d) →
      concatOptL f l = some r → ∀ d ∈ r, P d
  | [], r, _, h => by simp [concatOptL] at h; subst h; simp
  | a :: l, r, hp, h => by
    simp only [concatOptL] at h
    split at h
    · rename_i x y hx hy
      injection h with h; subst h
      intro d hd
      rcases List.mem_append.mp hd with hd | hd
      · exact hp a (by simp) x hx d hd
      · exact concatOptL_forall f P l y (fun b hb => hp b (by simp [hb])) hy d hd
    · exact absurd h (by simp)

theorem concatOptL_mem_ex {α β} (f : α → Option (List β)) :
    ∀ (l : List α) (r : List β), concatOptL f l = some r → ∀ a ∈ l, ∃ x, f a = some x ∧ ∀ d ∈ x, d ∈ r
  | [], _, _, a, ha => absurd ha (by simp)
  | b :: l, r, h, a, ha => by
    simp only [concatOptL] at h
    split at h
    · rename_i x y hx hy
      injection h with h; subst h
      rcases List.mem_cons.mp ha with e | e
      · subst e
        exact ⟨x, hx, fun d hd => List.mem_append_left _ hd⟩
      · obtain ⟨x', hx', hsub⟩ := concatOptL_mem_ex f l y hy a e
        exact ⟨x', hx', fun d hd => List.mem_append_right _ (hsub d hd)⟩
    · exact absurd h (by simp)

theorem concatOptL_quals {α} (f : α → Option (List Stmt)) (j g : Bool) :
    ∀ (l : List α) (r : List Stmt), (∀ a ∈ l, ∀ x, f a = some x → Sub j g (Stmt.qualsList x)) →
      concatOptL f l = some r → Sub j g (Stmt.qualsList r)
  | [], r, _, h => by simp [concatOptL] at h; subst h; exact sub_nil _ _
  | a :: l, r, hp, h => by
    simp only [concatOptL] at h
    split at h
    · rename_i x y hx hy
      injection h with h; subst h
      rw [qualsList_append, sub_append]
      exact ⟨hp a (by simp) x hx, concatOptL_quals f j g l y (fun b hb => hp b (by simp [hb])) hy⟩
    · exact absurd h (by simp)

theorem usesJson_of_member (t : Idl) (p : Member → Bool) (m : Member) (hm : m ∈ t.members.filter p)
    (h : memberUsesJson m = true) : usesJson t = true :=
  List.any_eq_true.mpr ⟨m, (List.mem_filter.mp hm).1, h⟩

theorem usesFmt_of_member (t : Idl) (p : Member → Bool) (m : Member) (hm : m ∈ t.members.filter p)
    (h : memberUsesFmt m = true) : usesFmt t = true :=
  List.any_eq_true.mpr ⟨m, (List.mem_filter.mp hm).1, h⟩

/-- **nothing is used that is not imported**: every package a declaration of the emitted file refers to is
    `varlink`, `context`, `json` when `usesJson`, or `fmt` when `usesFmt` -/
theorem pkgRefs_genFile (t : Idl) (f : GoFile) (hf : genFile t = some f) :
    Sub (usesJson t) (usesFmt t) f.pkgRefs := by
  obtain ⟨body, aliases, errors, clients, ifaceMethods, errorReplies, methodReplies, dummies, cases,
    _, e1, e2, e3, e4, e5, e6, e7, e8, rfl⟩ := genFile_inv hf
  have lift : ∀ (p : Member → Bool) (m : Member), m ∈ t.members.filter p → ∀ l : List Decl,
      DeclsSub (memberUsesJson m) (memberUsesFmt m) l → DeclsSub (usesJson t) (usesFmt t) l :=
    fun p m hm l h d hd => (h d hd).mono (usesJson_of_member t p m hm) (usesFmt_of_member t p m hm)
  have a1 : DeclsSub (usesJson t) (usesFmt t) aliases :=
    concatOptL_forall _ _ _ _ (fun m hm x hx => lift _ m hm x (aliasView_refs t m x hx)) e1
  have a2 : DeclsSub (usesJson t) (usesFmt t) errors :=
    concatOptL_forall _ _ _ _ (fun m hm x hx => lift _ m hm x (errorView_refs m x hx)) e2
  have a3 : DeclsSub (usesJson t) (usesFmt t) clients :=
    concatOptL_forall _ _ _ _ (fun m hm x hx => lift _ m hm x (methodClientView_refs _ m x hx)) e3
  have a4 : ∀ im ∈ ifaceMethods, Sub (usesJson t) (usesFmt t) (im.params.quals ++ im.results.quals) :=
    concatOptL_forall _ _ _ _ (fun m hm x hx im him => (ifaceMethodView_refs m x hx im him).mono
      (usesJson_of_member t _ m hm) (usesFmt_of_member t _ m hm)) e4
  have a5 : DeclsSub (usesJson t) (usesFmt t) errorReplies :=
    concatOptL_forall _ _ _ _ (fun m hm x hx => lift _ m hm x (errorReplyView_refs _ m x hx)) e5
  have a6 : DeclsSub (usesJson t) (usesFmt t) methodReplies :=
    concatOptL_forall _ _ _ _ (fun m hm x hx => lift _ m hm x (methodReplyView_refs m x hx)) e6
  have a7 : DeclsSub (usesJson t) (usesFmt t) dummies :=
    concatOptL_forall _ _ _ _ (fun m hm x hx => lift _ m hm x (dummyView_refs _ m x hx)) e7
  have a8 : Sub (usesJson t) (usesFmt t) (Stmt.qualsList cases) :=
    concatOptL_quals _ _ _ _ _ (fun m hm x hx => (dispatchCaseView_refs _ m x hx).mono
      (usesJson_of_member t _ m hm) (usesFmt_of_member t _ m hm)) e8
  have aD : Sub (usesJson t) (usesFmt t) (dispatchErrorView t.name t.errors).pkgRefs := by
    refine (dispatchErrorView_refs t.name t.errors (usesFmt t)).mono ?_ (fun h => h)
    intro hne
    cases he : t.errors with
    | nil => simp [he] at hne
    | cons m r =>
      have hm : m ∈ t.members.filter Member.isError := by
        have : m ∈ t.errors := by rw [he]; exact List.mem_cons_self
        exact this
      have : m.isError = true := (List.mem_filter.mp hm).2
      exact usesJson_of_member t _ m hm (by cases m <;> simp_all [Member.isError, memberUsesJson])
  have aI : Sub (usesJson t) (usesFmt t)
      (Decl.iface (pkgName t.name ++ str "Interface") ifaceMethods).pkgRefs := by
    intro p hp
    simp only [Decl.pkgRefs, List.mem_flatten, List.mem_map] at hp
    obtain ⟨_, ⟨im, him, rfl⟩, hp⟩ := hp
    exact a4 im him p hp
  have av := allowed_varlink (usesJson t) (usesFmt t)
  have ac := allowed_context (usesJson t) (usesFmt t)
  have all : DeclsSub (usesJson t) (usesFmt t)
      (assembleFile t aliases errors clients ifaceMethods errorReplies methodReplies dummies cases).decls := by
    simp only [assembleFile, declsSub_append, declsSub_cons, declsSub_nil, and_true, pkgRefs_func]
    refine ⟨⟨⟨⟨⟨⟨⟨⟨a1, a2⟩, aD⟩, a3⟩, aI, ?_⟩, a5⟩, a6⟩, a7⟩, ?_, ?_, ?_, ?_, ?_⟩
    · simp [Decl.pkgRefs, GoTy.quals, GoFields.quals, quals_param, sub_cons, sub_nil]; exact av
    · apply sub_sortedUses
      simp [sub_append, sub_cons, sub_nil, quals_append, quals_param, quals_tName, quals_ctxParam,
        quals_errorResult, GoTy.quals, Stmt.qualsList, Stmt.quals, qualsList_append, a8]
      exact ⟨ac, av⟩
    · apply sub_sortedUses
      simp [sub_nil, GoFields.quals, quals_param, quals_tName, Stmt.qualsList, Stmt.quals]
    · apply sub_sortedUses
      simp [sub_nil, GoFields.quals, quals_param, quals_tName, Stmt.qualsList, Stmt.quals]
    · simp [Decl.pkgRefs, GoTy.quals, GoFields.quals, quals_param, sub_nil]
    · apply sub_sortedUses
      simp [sub_nil, GoFields.quals, quals_param, quals_tName, GoTy.quals, Stmt.qualsList]
  intro p hp
  simp only [GoFile.pkgRefs, List.mem_flatten, List.mem_map] at hp
  obtain ⟨_, ⟨d, hd, rfl⟩, hp⟩ := hp
  exact all d hd p hp

/-! ## no unused import -/

theorem mem_sortedUses_of {used : List Bytes} {p : Bytes} (hc : p ∈ canonPkgs) (hu : p ∈ used) :
    p ∈ sortedUses used := by
  simp only [sortedUses, List.mem_filter]
  exact ⟨hc, List.contains_iff_mem.mpr hu⟩

theorem mem_pkgRefs_of {f : GoFile} {d : Decl} {p : Bytes} (hd : d ∈ f.decls) (hp : p ∈ d.pkgRefs) :
    p ∈ f.pkgRefs := by
  simp only [GoFile.pkgRefs, List.mem_flatten, List.mem_map]
  exact ⟨_, ⟨d, hd, rfl⟩, hp⟩

/-- a member whose declarations need `json` has a declaration that refers to it -/
theorem json_used_by_member (t : Idl) (m : Member) (hj : memberUsesJson m = true) :
    (∀ l, aliasView t m = some l → m.isAlias = true → ∃ d ∈ l, pJson ∈ d.pkgRefs)
    ∧ (∀ l, methodClientView t.name m = some l → m.isMethod = true → ∃ d ∈ l, pJson ∈ d.pkgRefs) := by
  constructor
  · intro l hl ha
    cases m with
    | alias n d ty =>
      simp only [aliasView, Option.map_eq_some_iff] at hl
      obtain ⟨g, hg, rfl⟩ := hl
      have := goTy_uses ty true g hg (by simpa [memberUsesJson] using hj)
      cases resolvesToObject t ty <;> simpa [Decl.pkgRefs] using this
    | method => simp [Member.isAlias] at ha
    | error => simp [Member.isAlias] at ha
  · intro l hl hm
    cases m with
    | alias => simp [Member.isMethod] at hm
    | error => simp [Member.isMethod] at hm
    | method n d i o =>
      simp only [methodClientView] at hl
      split at hl
      · rename_i params results resultTys sendPro upPro recv' copies e1 e2 e3 e4 e5 e6 e7
        injection hl with hl; subst hl
        -- the `Call` method has the input fields as parameters and the output fields as results
        refine ⟨_, List.mem_cons_of_mem _ (List.mem_cons_of_mem _ List.mem_cons_self), ?_⟩
        rw [pkgRefs_func]
        refine mem_sortedUses_of (by decide) ?_
        simp only [memberUsesJson, Bool.or_eq_true] at hj
        simp only [quals_append, List.mem_append]
        rcases hj with hj | hj
        · exact Or.inl (Or.inl (Or.inr (Or.inr (paramFields_uses _ _ _ e1 hj))))
        · exact Or.inl (Or.inr (Or.inl (paramFields_uses _ _ _ e2 hj)))
      · exact absurd hl (by simp)

/-- **no unused import**: every imported package is referred to by some declaration -/
theorem imports_used_genFile (t : Idl) (f : GoFile) (hf : genFile t = some f) :
    ∀ n ∈ f.importNames, n ∈ f.pkgRefs := by
  have hin := importNames_eq t f hf
  obtain ⟨body, aliases, errors, clients, ifaceMethods, errorReplies, methodReplies, dummies, cases,
    _, e1, e2, e3, e4, e5, e6, e7, e8, rfl⟩ := genFile_inv hf
  intro n hn
  rw [hin] at hn
  simp only [List.mem_append, List.mem_cons, List.not_mem_nil, or_false] at hn
  rcases hn with (hn | hn) | hn
  · rcases hn with hn | hn
    · -- varlink: `type VarlinkCall struct{ varlink.Call }`
      subst hn
      refine mem_pkgRefs_of (d := .type (str "VarlinkCall") (.struct (param [] (.qual (str "varlink") (str "Call"))))) ?_ ?_
      · simp [assembleFile]
      · simp [Decl.pkgRefs, GoTy.quals, GoFields.quals, quals_param]
    · -- context: `VarlinkDispatch(ctx context.Context, …)`
      subst hn
      refine mem_pkgRefs_of (d := .func (mkFunc varlinkIfaceRecv (str "VarlinkDispatch")
            (ctxParam.append ((param (str "call") (.qual (str "varlink") (str "Call"))).append
              (param (str "methodname") (tName "string"))))
            errorResult (cases ++ [.caseBlock none []]))) ?_ ?_
      · simp [assembleFile]
      · rw [pkgRefs_func]
        exact mem_sortedUses_of (by decide) (by simp [quals_append, quals_ctxParam, pContext])
  · -- json
    split at hn
    · rename_i hj
      simp only [List.mem_singleton] at hn
      subst hn
      obtain ⟨m, hm, hmj⟩ := List.any_eq_true.mp hj
      cases hk : m with
      | alias n d ty =>
        have hma : m ∈ t.aliases := List.mem_filter.mpr ⟨hm, by simp [hk, Member.isAlias]⟩
        obtain ⟨x, hx, hsub⟩ := concatOptL_mem_ex _ _ _ e1 m hma
        obtain ⟨d', hd', hp⟩ := (json_used_by_member t m hmj).1 x hx (by simp [hk, Member.isAlias])
        exact mem_pkgRefs_of (d := d') (by simp [assembleFile, hsub d' hd']) hp
      | method n d i o =>
        have hmm : m ∈ t.methods := List.mem_filter.mpr ⟨hm, by simp [hk, Member.isMethod]⟩
        obtain ⟨x, hx, hsub⟩ := concatOptL_mem_ex _ _ _ e3 m hmm
        obtain ⟨d', hd', hp⟩ := (json_used_by_member t m hmj).2 x hx (by simp [hk, Member.isMethod])
        exact mem_pkgRefs_of (d := d') (by simp [assembleFile, hsub d' hd']) hp
      | error n d oty =>
        -- `Dispatch_Error` decodes into `*json.RawMessage`
        have hme : m ∈ t.errors := List.mem_filter.mpr ⟨hm, by simp [hk, Member.isError]⟩
        refine mem_pkgRefs_of (d := dispatchErrorView t.name t.errors) (by simp [assembleFile]) ?_
        have hne : t.errors.isEmpty = false := by
          cases he : t.errors with
          | nil => rw [he] at hme; simp at hme
          | cons => rfl
        simp only [dispatchErrorView, pkgRefs_func, hne]
        exact mem_sortedUses_of (by decide) (by simp [pJson])
    · simp at hn
  · -- fmt: the `Error()` method of an error with parameters
    split at hn
    · rename_i hfm
      simp only [List.mem_singleton] at hn
      subst hn
      obtain ⟨m, hm, hmf⟩ := List.any_eq_true.mp hfm
      cases hk : m with
      | alias => simp [hk, memberUsesFmt] at hmf
      | method => simp [hk, memberUsesFmt] at hmf
      | error n d oty =>
        have hme : m ∈ t.errors := List.mem_filter.mpr ⟨hm, by simp [hk, Member.isError]⟩
        obtain ⟨x, hx, hsub⟩ := concatOptL_mem_ex _ _ _ e2 m hme
        rw [hk] at hx hmf
        simp only [errorView, Option.map_eq_some_iff] at hx
        obtain ⟨g, _, rfl⟩ := hx
        simp only [memberUsesFmt] at hmf
        refine mem_pkgRefs_of (d := _) (by
          simp only [assembleFile, List.mem_append]
          exact Or.inl (Or.inl (Or.inl (Or.inl (Or.inl (Or.inl (Or.inl (Or.inr
            (hsub _ (List.mem_cons_of_mem _ List.mem_cons_self)))))))))) ?_
        rw [pkgRefs_func]
        exact mem_sortedUses_of (by decide) (by simp [hmf, pFmt])
    · simp at hn

/-- **importsOk**: the import paths are distinct and the imported packages are exactly the packages the
    declarations refer to — for every description the generator produces a file for -/
theorem importsOk_genFile (t : Idl) (f : GoFile) (hf : genFile t = some f) : importsOk f = true := by
  have h1 := imports_used_genFile t f hf
  have h2 := pkgRefs_genFile t f hf
  have hin := importNames_eq t f hf
  have hd : distinct f.imports = true := by
    obtain ⟨_, _, _, _, _, _, _, _, _, _, _, _, _, _, _, _, _, _, rfl⟩ := genFile_inv hf
    simp only [assembleFile, importList]
    cases usesJson t <;> cases usesFmt t <;> decide
  simp only [importsOk, hd, Bool.true_and, Bool.and_eq_true, List.all_eq_true, List.contains_iff_mem]
  refine ⟨fun n hn => by simpa using h1 n hn, fun p hp => ?_⟩
  have := h2 p hp
  rw [hin]
  rcases this with h | h | h | h
  · simp [h, pVarlink]
  · simp [h, pContext]
  · simp [h.1, h.2, pJson]
  · simp [h.1, h.2, pFmt]

/-! ## documentation and names have no effect on the imports -/

def eraseMemberText : Member → Member
  | .alias _ _ ty => .alias [] [] ty
  | .method _ _ i o => .method [] [] i o
  | .error _ _ oty => .error [] [] oty

/-- the description without any user-controlled text: interface name, documentation, description text, member
    names and member documentation blanked; only the kinds of the members and their types are kept -/
def eraseText (t : Idl) : Idl :=
  { name := [], doc := [], description := [], members := t.members.map eraseMemberText }

theorem importList_eraseText (t : Idl) : importList (eraseText t) = importList t := by
  have hj : usesJson (eraseText t) = usesJson t := by
    simp only [usesJson, eraseText, List.any_map]
    congr 1; funext m; cases m <;> rfl
  have hf : usesFmt (eraseText t) = usesFmt t := by
    simp only [usesFmt, eraseText, List.any_map]
    congr 1; funext m; cases m <;> rfl
  simp only [importList, hj, hf]

end Varlink.Gen
