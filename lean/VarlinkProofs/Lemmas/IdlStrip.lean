/-
  Success-path ("window") lemmas for the IDL parser model, read towards property C06: whenever a reader
  succeeds, `strip` of the input it started on is the token text of what it returned followed by `strip` of the
  input it left.
-/
import Varlink.Idl.Parser
import VarlinkProofs.Lemmas.IdlPrint
import VarlinkProofs.Lemmas.IdlTotal
namespace Varlink.Idl
open Varlink

/-- `s'` is reached from `s` by consuming exactly the bytes `w` -/
def Adv (s : St) (w : Bytes) (s' : St) : Prop := s.rest = w ++ s'.rest ∧ s'.pos = s.pos + w.length

theorem Adv.refl (s : St) : Adv s [] s := ⟨rfl, rfl⟩

theorem Adv.trans {a b c : St} {w v : Bytes} (h1 : Adv a w b) (h2 : Adv b v c) : Adv a (w ++ v) c := by
  refine ⟨?_, ?_⟩
  · rw [h1.1, h2.1, List.append_assoc]
  · rw [h2.2, h1.2, List.length_append, Nat.add_assoc]

theorem Adv.pos_le {s s' : St} {w : Bytes} (h : Adv s w s') : s.pos ≤ s'.pos := by rw [h.2]; omega

theorem Adv.consumed {s s' : St} {w : Bytes} (h : Adv s w s') : consumed s s' = w := by
  unfold Varlink.Idl.consumed
  rw [h.1, h.2]
  simp

theorem Adv.nil_rest {s s' : St} {w : Bytes} (h : Adv s w s') (hp : s'.pos = s.pos) : s'.rest = s.rest := by
  have : w.length = 0 := by have := h.2; omega
  have : w = [] := List.eq_nil_of_length_eq_zero this
  rw [h.1, this]; rfl

theorem next_adv {s s1 : St} {c : UInt8} (h : next s = (some c, s1)) : Adv s [c] s1 := by
  unfold next at h
  cases hr : s.rest with
  | nil => rw [hr] at h; simp at h
  | cons x r =>
    rw [hr] at h; simp at h
    obtain ⟨rfl, rfl⟩ := h
    exact ⟨by simp [hr], by simp⟩

/-- the scanning loops consume a maximal run of bytes of the class -/
theorem scan_adv (p : UInt8 → Bool) : ∀ (f : Nat) (s s' : St), scan p f s = .ok s' →
    ∃ w, Adv s w s' ∧ (∀ c ∈ w, p c = true) ∧ (s'.rest = [] ∨ ∃ c r, s'.rest = c :: r ∧ p c = false) := by
  intro f
  induction f with
  | zero => intro s s' h; simp [scan] at h
  | succ f ih =>
    intro s s' h
    unfold scan at h
    rcases hn : next s with ⟨c, s1⟩
    rw [hn] at h
    cases c with
    | none =>
      simp only at h
      cases h
      exact ⟨[], Adv.refl _, fun _ hc => absurd hc List.not_mem_nil, Or.inl (next_none hn).1⟩
    | some c =>
      simp only at h
      have ha := next_adv hn
      split at h
      · rename_i hp
        obtain ⟨w, hw, hall, hstop⟩ := ih s1 s' h
        refine ⟨c :: w, ha.trans hw, ?_, hstop⟩
        intro x hx
        cases hx with
        | head => exact hp
        | tail _ hx => exact hall x hx
      · rename_i hp
        cases h
        refine ⟨[], Adv.refl _, fun _ hc => absurd hc List.not_mem_nil, Or.inr ⟨c, s1.rest, ?_, by simpa using hp⟩⟩
        simpa using ha.1

theorem sliceFrom_adv {s s' : St} {w : Bytes} (h : Adv s w s') {r : Bytes × St}
    (hs : sliceFrom s s' = .ok r) : r = (w, s') := by
  unfold sliceFrom at hs
  split at hs
  · cases hs; rw [h.consumed]
  · cases hs

/-! ### strip across comments and gaps -/

theorem stripAux_true_noNl {w : Bytes} (hw : ∀ c ∈ w, isNotNl c = true) (r : Bytes) :
    stripAux true (w ++ r) = stripAux true r := by
  induction w with
  | nil => rfl
  | cons c w ih =>
    have hc := hw c List.mem_cons_self
    simp only [isNotNl, decide_eq_true_eq] at hc
    simp only [List.cons_append, stripAux, hc, if_false]
    exact ih (fun x hx => hw x (List.mem_cons_of_mem _ hx))

theorem stripAux_true_stop {r : Bytes} (h : r = [] ∨ ∃ c r', r = c :: r' ∧ isNotNl c = false) :
    stripAux true r = stripAux false r := by
  rcases h with rfl | ⟨c, r', rfl, hc⟩
  · rfl
  · simp only [isNotNl, decide_eq_false_iff_not, Decidable.not_not] at hc
    subst hc
    simp [stripAux]

theorem scan_notNl_strip {f : Nat} {s s' : St} (h : scan isNotNl f s = .ok s') :
    stripAux true s.rest = stripAux false s'.rest ∧ s.pos ≤ s'.pos := by
  obtain ⟨w, hw, hall, hstop⟩ := scan_adv _ f s s' h
  refine ⟨?_, hw.pos_le⟩
  rw [hw.1, stripAux_true_noNl hall, stripAux_true_stop hstop]

theorem skipOneSpace_strip (s : St) :
    stripAux true s.rest = stripAux true (skipOneSpace s).rest ∧ s.pos ≤ (skipOneSpace s).pos := by
  unfold skipOneSpace
  rcases hn : next s with ⟨c, s1⟩
  cases c with
  | none => exact ⟨rfl, Nat.le_refl _⟩
  | some c =>
    simp only
    split
    · rename_i hc; subst hc
      have ha := next_adv hn
      refine ⟨?_, ha.pos_le⟩
      rw [ha.1]; simp [stripAux]
    · exact ⟨rfl, Nat.le_refl _⟩

theorem closeComment_strip {s4 s' : St} (h : closeComment s4 = .ok s') :
    stripAux false s4.rest = stripAux false s'.rest ∧ s4.pos ≤ s'.pos := by
  unfold closeComment at h
  rcases hn : next s4 with ⟨c, s5⟩
  rw [hn] at h
  cases c with
  | none => simp only at h; cases h; exact ⟨rfl, Nat.le_refl _⟩
  | some c =>
    simp only at h
    have ha := next_adv hn
    split at h
    · rename_i hc; subst hc
      cases h
      refine ⟨?_, ha.pos_le⟩
      rw [ha.1]; simp [stripAux]
    · cases h; exact ⟨rfl, Nat.le_refl _⟩

theorem appendDoc_strip {s2 s3 s' : St} (h : appendDoc s2 s3 = .ok s') :
    stripAux false s3.rest = stripAux false s'.rest ∧ s3.pos ≤ s'.pos := by
  unfold appendDoc at h
  change (if _ then _ else if _ then _ else closeComment _) = _ at h
  split at h
  · cases h
  · split at h
    · cases h
    · have := closeComment_strip h
      exact this

theorem comment_strip {s s1 s' : St} (h : comment s s1 = .ok s') :
    stripAux true s1.rest = stripAux false s'.rest ∧ s1.pos ≤ s'.pos := by
  unfold comment at h
  split at h
  · cases h
  · have h1 := skipOneSpace_strip s1
    cases hsc : scan isNotNl ((skipOneSpace s1).len + 1) (skipOneSpace s1) with
    | ok s3 =>
      rw [hsc] at h
      simp only at h
      have h3 := scan_notNl_strip hsc
      split at h
      · cases h
        exact ⟨h1.1.trans h3.1, Nat.le_trans h1.2 h3.2⟩
      · have h4 := appendDoc_strip h
        exact ⟨(h1.1.trans h3.1).trans h4.1, Nat.le_trans h1.2 (Nat.le_trans h3.2 h4.2)⟩
    | err e => rw [hsc] at h; cases h
    | panic => rw [hsc] at h; cases h
    | outOfFuel => rw [hsc] at h; cases h

/-- `advance` consumes only layout: the text up to layout is unchanged -/
theorem advanceLoop_strip : ∀ (f : Nat) (s s' : St), advanceLoop f s = .ok s' →
    stripAux false s.rest = stripAux false s'.rest ∧ s.pos ≤ s'.pos := by
  intro f
  induction f with
  | zero => intro s s' h; simp [advanceLoop] at h
  | succ f ih =>
    intro s s' h
    unfold advanceLoop at h
    rcases hn : next s with ⟨c, s1⟩
    rw [hn] at h
    cases c with
    | none => simp only at h; cases h; exact ⟨rfl, Nat.le_refl _⟩
    | some c =>
      simp only at h
      have ha := next_adv hn
      split at h
      · rename_i hc; subst hc
        have := ih _ s' h
        refine ⟨?_, Nat.le_trans ha.pos_le this.2⟩
        rw [ha.1, ← this.1]; simp [stripAux]
      · split at h
        · rename_i hc
          have := ih _ s' h
          refine ⟨?_, Nat.le_trans ha.pos_le this.2⟩
          rw [ha.1, ← this.1]
          simp only [Bool.or_eq_true, decide_eq_true_eq] at hc
          rcases hc with (rfl | rfl) | rfl <;> simp [stripAux]
        · split at h
          · rename_i hc; subst hc
            cases hcm : comment s s1 with
            | ok s2 =>
              rw [hcm] at h
              simp only at h
              have h2 := comment_strip hcm
              have := ih _ s' h
              refine ⟨?_, Nat.le_trans ha.pos_le (Nat.le_trans h2.2 this.2)⟩
              rw [ha.1, ← this.1, ← h2.1]; simp [stripAux]
            | err e => rw [hcm] at h; cases h
            | panic => rw [hcm] at h; cases h
            | outOfFuel => rw [hcm] at h; cases h
          · cases h; exact ⟨rfl, Nat.le_refl _⟩

theorem advance_strip {s s' : St} (h : advance s = .ok s') :
    stripAux false s.rest = stripAux false s'.rest ∧ s.pos ≤ s'.pos := advanceLoop_strip _ s s' h

theorem Out.bind_eq_ok {α β} {x : Out α} {f : α → Out β} {b : β} (h : x >>= f = .ok b) :
    ∃ a, x = .ok a ∧ f a = .ok b := by
  cases x with
  | ok a => exact ⟨a, rfl, h⟩
  | err e => cases h
  | panic => cases h
  | outOfFuel => cases h

/-! ### byte classes are token bytes -/

theorem notLay_of_class (p : UInt8 → Bool) (h32 : p 32 = false) (h9 : p 9 = false) (h13 : p 13 = false)
    (h10 : p 10 = false) (h35 : p 35 = false) {c : UInt8} (h : p c = true) : isLay c = false := by
  simp only [isLay, Bool.or_eq_false_iff, decide_eq_false_iff_not]
  refine ⟨⟨⟨⟨?_, ?_⟩, ?_⟩, ?_⟩, ?_⟩ <;> intro heq <;> subst heq <;> simp_all

theorem notLay_of_lower {c : UInt8} (h : isLower c = true) : isLay c = false :=
  notLay_of_class isLower (by decide) (by decide) (by decide) (by decide) (by decide) h
theorem notLay_of_upper {c : UInt8} (h : isUpper c = true) : isLay c = false :=
  notLay_of_class isUpper (by decide) (by decide) (by decide) (by decide) (by decide) h
theorem notLay_of_alnum {c : UInt8} (h : isAlnum c = true) : isLay c = false :=
  notLay_of_class isAlnum (by decide) (by decide) (by decide) (by decide) (by decide) h
theorem notLay_of_fieldChar {c : UInt8} (h : isFieldChar c = true) : isLay c = false :=
  notLay_of_class isFieldChar (by decide) (by decide) (by decide) (by decide) (by decide) h

/-! ### token readers -/

theorem readKeyword_adv {s s' : St} {kw : Bytes} (h : readKeyword s = .ok (kw, s')) :
    Adv s kw s' ∧ (∀ c ∈ kw, isLower c = true) := by
  unfold readKeyword at h
  obtain ⟨s1, h1, h2⟩ := Out.bind_eq_ok h
  obtain ⟨w, hw, hall, _⟩ := scan_adv _ _ _ _ h1
  have := sliceFrom_adv hw h2
  cases this
  exact ⟨hw, hall⟩

theorem readKeyword_tok {s s' : St} {kw : Bytes} (h : readKeyword s = .ok (kw, s')) : Tok kw :=
  fun c hc => notLay_of_lower ((readKeyword_adv h).2 c hc)

theorem readFieldName_adv {s s' : St} {n : Bytes} (h : readFieldName s = .ok (n, s')) :
    Adv s n s' ∧ Tok n := by
  unfold readFieldName at h
  rcases hn : next s with ⟨c, s1⟩
  rw [hn] at h
  cases c with
  | none => simp only at h; cases h; exact ⟨Adv.refl _, Tok.nil⟩
  | some c =>
    simp only at h
    split at h
    · cases h; exact ⟨Adv.refl _, Tok.nil⟩
    · rename_i hc
      simp only [Bool.not_eq_true, Bool.not_eq_false'] at hc
      obtain ⟨s2, h1, h2⟩ := Out.bind_eq_ok h
      obtain ⟨w, hw, hall, _⟩ := scan_adv _ _ _ _ h1
      have ha := (next_adv hn).trans hw
      have := sliceFrom_adv ha h2
      cases this
      refine ⟨ha, ?_⟩
      intro x hx
      cases hx with
      | head => exact notLay_of_lower hc
      | tail _ hx => exact notLay_of_fieldChar (hall x hx)

theorem readTypeName_adv {s s' : St} {n : Bytes} (h : readTypeName s = .ok (n, s')) :
    Adv s n s' ∧ Tok n := by
  unfold readTypeName at h
  rcases hn : next s with ⟨c, s1⟩
  rw [hn] at h
  cases c with
  | none => simp only at h; cases h; exact ⟨Adv.refl _, Tok.nil⟩
  | some c =>
    simp only at h
    split at h
    · cases h; exact ⟨Adv.refl _, Tok.nil⟩
    · rename_i hc
      simp only [Bool.not_eq_true, Bool.not_eq_false'] at hc
      obtain ⟨s2, h1, h2⟩ := Out.bind_eq_ok h
      obtain ⟨w, hw, hall, _⟩ := scan_adv _ _ _ _ h1
      have ha := (next_adv hn).trans hw
      have := sliceFrom_adv ha h2
      cases this
      refine ⟨ha, ?_⟩
      intro x hx
      cases hx with
      | head => exact notLay_of_upper hc
      | tail _ hx => exact notLay_of_alnum (hall x hx)

/-! ### readType, readStructType -/

/-- `t` is a field-list type with the fields `F` -/
def IsFieldList (t : Ty) (F : Fields) : Prop := t = .struct F ∨ t = .enum F

theorem IsFieldList.print {t : Ty} {F : Fields} (h : IsFieldList t F) (tl : Bytes) :
    printTy false t tl = 40 :: printFields false F tl := by
  rcases h with rfl | rfl <;> simp [printTy]

theorem IsFieldList.clean {t : Ty} {F : Fields} (h : IsFieldList t F) (hF : F.Clean) : t.Clean := by
  rcases h with rfl | rfl <;> simpa [Ty.Clean] using hF

theorem mkFieldList_isFieldList (kind : SKind) (acc : Fields) :
    IsFieldList (mkFieldList kind acc) (Fields.revAppend acc .nil) := by
  cases kind
  · exact Or.inl rfl
  · exact Or.inr rfl

theorem Fields.clean_revAppend : ∀ (a b : Fields), a.Clean → b.Clean → (Fields.revAppend a b).Clean
  | .nil, b, _, hb => by simpa [Fields.revAppend] using hb
  | .typed n t r, b, ha, hb => by
    simp only [Fields.revAppend]
    exact Fields.clean_revAppend r _ ha.2.2 ⟨ha.1, ha.2.1, hb⟩
  | .bare n r, b, ha, hb => by
    simp only [Fields.revAppend]
    exact Fields.clean_revAppend r _ ha.2 ⟨ha.1, hb⟩

theorem strip_cons_next {s s1 : St} {c : UInt8} (hn : next s = (some c, s1)) (hc : isLay c = false) :
    stripAux false s.rest = c :: stripAux false s1.rest := by
  rw [(next_adv hn).1]; exact stripAux_cons_tok hc _

/-- what a successful type reader tells about the text -/
def TyWin (s : St) (r : Option Ty × St) : Prop :=
  s.pos ≤ r.2.pos ∧ (r.1 = none → s.pos < r.2.pos ∨ r.2.rest = s.rest) ∧
  (∀ t, r.1 = some t → stripAux false s.rest = printTy false t (stripAux false r.2.rest) ∧ t.Clean)

def LoopWin (s : St) (acc : Fields) (r : Option Ty × St) : Prop :=
  s.pos ≤ r.2.pos ∧
  (∀ t, r.1 = some t → ∃ fs, IsFieldList t (Fields.revAppend acc fs) ∧ fs.Clean ∧ fs ≠ .nil ∧
    stripAux false s.rest = printFields false fs (stripAux false r.2.rest))

def TailWin (s : St) (acc : Fields) (r : Option Ty × St) : Prop :=
  s.pos ≤ r.2.pos ∧
  (∀ t, r.1 = some t → ∃ fs, IsFieldList t (Fields.revAppend acc fs) ∧ fs.Clean ∧
    stripAux false s.rest = printMore false fs (stripAux false r.2.rest))

theorem TyWin.fail {s s' : St} (h : s.pos < s'.pos) : TyWin s (none, s') :=
  ⟨Nat.le_of_lt h, fun _ => Or.inl h, fun _ ht => nomatch ht⟩

theorem TyWin.some {s s' : St} {t : Ty} (hp : s.pos ≤ s'.pos)
    (hw : stripAux false s.rest = printTy false t (stripAux false s'.rest)) (hc : t.Clean) :
    TyWin s (some t, s') := by
  refine ⟨hp, ?_, ?_⟩
  · intro h; cases h
  · intro t' ht; cases ht; exact ⟨hw, hc⟩

theorem LoopWin.fail {s s' : St} {acc : Fields} (h : s.pos ≤ s'.pos) : LoopWin s acc (none, s') :=
  ⟨h, fun _ ht => nomatch ht⟩

theorem TailWin.fail {s s' : St} {acc : Fields} (h : s.pos ≤ s'.pos) : TailWin s acc (none, s') :=
  ⟨h, fun _ ht => nomatch ht⟩

theorem next_pos_eq {s s1 : St} {c : Option UInt8} (hn : next s = (c, s1)) : s1.pos = s.pos + 1 := by
  have := (next_any s).2; rw [hn] at this; exact this

theorem typeReaders_win : ∀ f : Nat,
    (∀ s r, readType f s = .ok r → TyWin s r) ∧
    (∀ s r, readStructType f s = .ok r → TyWin s r) ∧
    (∀ s kind acc r, structLoop f s kind acc = .ok r → LoopWin s acc r) ∧
    (∀ s kind acc r, structTail f s kind acc = .ok r → TailWin s acc r) := by
  intro f
  induction f with
  | zero => refine ⟨?_, ?_, ?_, ?_⟩ <;> intros <;> simp_all [readType, readStructType, structLoop, structTail]
  | succ f ih =>
    obtain ⟨ihT, ihS, ihL, ihE⟩ := ih
    refine ⟨?_, ?_, ?_, ?_⟩
    · -- readType
      intro s r h
      unfold readType at h
      rcases hn : next s with ⟨c, s1⟩
      rw [hn] at h
      simp only at h
      have hp1 := next_pos_eq hn
      split at h
      · -- '?'
        rename_i hc; subst hc
        obtain ⟨⟨e, s2⟩, h1, h2⟩ := Out.bind_eq_ok h
        have w1 := ihT _ _ h1
        have hlt : s.pos < s2.pos := by have := w1.1; simp only at this; omega
        cases e with
        | none => simp only at h2; cases h2; exact TyWin.fail hlt
        | some e =>
          simp only at h2
          split at h2
          · cases h2; exact TyWin.fail hlt
          · cases h2
            obtain ⟨hw, hcl⟩ := w1.2.2 e rfl
            refine TyWin.some (Nat.le_of_lt hlt) ?_ hcl
            rw [strip_cons_next hn (by decide), hw]; rfl
      · split at h
        · -- '['
          rename_i _ hc; subst hc
          obtain ⟨⟨kw, s2⟩, h1, h2⟩ := Out.bind_eq_ok h
          obtain ⟨ha2, _⟩ := readKeyword_adv h1
          have hkt := readKeyword_tok h1
          simp only at h2
          have hlt2 : s.pos < s2.pos := by have := ha2.pos_le; omega
          split at h2
          · cases h2; exact TyWin.fail hlt2
          · rename_i hkw
            rcases hn3 : next s2 with ⟨c3, s3⟩
            rw [hn3] at h2
            simp only at h2
            have hp3 := next_pos_eq hn3
            have hlt3 : s.pos < s3.pos := by omega
            split at h2
            · cases h2; exact TyWin.fail hlt3
            · rename_i hc3; simp only [ne_eq, Decidable.not_not] at hc3; subst hc3
              obtain ⟨⟨e, s4⟩, h3, h4⟩ := Out.bind_eq_ok h2
              have w3 := ihT _ _ h3
              have hlt4 : s.pos < s4.pos := by have := w3.1; simp only at this; omega
              cases e with
              | none => simp only at h4; cases h4; exact TyWin.fail hlt4
              | some e =>
                simp only at h4
                cases h4
                obtain ⟨hw, hcl⟩ := w3.2.2 e rfl
                have hs : stripAux false s.rest = 91 :: (kw ++ 93 :: printTy false e (stripAux false s4.rest)) := by
                  rw [strip_cons_next hn (by decide), ha2.1, stripAux_tok hkt, strip_cons_next hn3 (by decide), hw]
                simp only [Bool.not_eq_true, Bool.not_eq_false', Bool.or_eq_true, decide_eq_true_eq] at hkw
                split
                · rename_i hk; subst hk
                  exact TyWin.some (Nat.le_of_lt hlt4) (by rw [hs]; rfl) (by simpa [Ty.Clean] using hcl)
                · rename_i hk
                  have hk' : kw = kwString := by rcases hkw with h | h; exact h; exact absurd h hk
                  subst hk'
                  exact TyWin.some (Nat.le_of_lt hlt4) (by rw [hs]; rfl) (by simpa [Ty.Clean] using hcl)
        · -- default
          obtain ⟨⟨kw, s1'⟩, h1, h2⟩ := Out.bind_eq_ok h
          obtain ⟨ha1, _⟩ := readKeyword_adv h1
          simp only at h2
          split at h2
          · rename_i hne
            have hlt : s.pos < s1'.pos := by
              have := ha1.2
              have : kw.length ≠ 0 := fun h0 => hne (List.eq_nil_of_length_eq_zero h0)
              omega
            have hs : stripAux false s.rest = kw ++ stripAux false s1'.rest := by
              rw [ha1.1, stripAux_tok (readKeyword_tok h1)]
            repeat' split at h2
            all_goals cases h2
            all_goals first
              | exact TyWin.fail hlt
              | (subst_vars; exact TyWin.some (Nat.le_of_lt hlt) hs trivial)
          · rename_i hkw; simp only [ne_eq, Decidable.not_not] at hkw; subst hkw
            obtain ⟨⟨name, s2⟩, h3, h4⟩ := Out.bind_eq_ok h2
            obtain ⟨ha2, htok⟩ := readTypeName_adv h3
            have ha12 := ha1.trans ha2
            simp only at h4
            split at h4
            · rename_i hne
              cases h4
              have hlt : s.pos < s2.pos := by
                have h2 := ha12.2
                have : name.length ≠ 0 := fun h0 => hne (List.eq_nil_of_length_eq_zero h0)
                simp only [List.nil_append] at h2; omega
              refine TyWin.some (Nat.le_of_lt hlt) ?_ htok
              rw [ha12.1]; simp only [List.nil_append]; exact stripAux_tok htok _
            · rename_i hnm; simp only [ne_eq, Decidable.not_not] at hnm; subst hnm
              have w := ihS _ _ h4
              have hr : s2.rest = s.rest := by have := ha12.1; simp at this; exact this.symm
              have hp : s2.pos = s.pos := by have := ha12.2; simp at this; exact this
              refine ⟨by rw [← hp]; exact w.1, ?_, ?_⟩
              · intro hn0
                rcases w.2.1 hn0 with h | h
                · exact Or.inl (by rw [← hp]; exact h)
                · exact Or.inr (by rw [h, hr])
              · intro t ht
                rw [← hr]; exact w.2.2 t ht
    · -- readStructType
      intro s r h
      unfold readStructType at h
      rcases hn : next s with ⟨c, s1⟩
      rw [hn] at h
      simp only at h
      have hp1 := next_pos_eq hn
      split at h
      · cases h; exact ⟨Nat.le_refl _, fun _ => Or.inr rfl, fun _ ht => nomatch ht⟩
      · rename_i hc; simp only [ne_eq, Decidable.not_not] at hc; subst hc
        obtain ⟨s2, h1, h2⟩ := Out.bind_eq_ok h
        have a2 := advance_strip h1
        rcases hn3 : next s2 with ⟨c3, s3⟩
        rw [hn3] at h2
        simp only at h2
        have hp3 := next_pos_eq hn3
        split at h2
        · rename_i hc3; subst hc3
          cases h2
          refine TyWin.some (by have := a2.2; omega) ?_ trivial
          rw [strip_cons_next hn (by decide), a2.1, strip_cons_next hn3 (by decide)]; rfl
        · have w := ihL _ _ _ _ h2
          have hlt : s.pos < r.2.pos := by have := w.1; omega
          refine ⟨Nat.le_of_lt hlt, fun _ => Or.inl hlt, ?_⟩
          intro t ht
          obtain ⟨fs, hfl, hcl, _, hw⟩ := w.2 t ht
          simp only [Fields.revAppend] at hfl
          refine ⟨?_, hfl.clean hcl⟩
          rw [strip_cons_next hn (by decide), a2.1, hw, hfl.print]
    · -- structLoop
      intro s kind acc r h
      unfold structLoop at h
      obtain ⟨s1, h1, h⟩ := Out.bind_eq_ok h
      have a1 := advance_strip h1
      obtain ⟨⟨name, s2⟩, h2, h⟩ := Out.bind_eq_ok h
      obtain ⟨ha2, htok⟩ := readFieldName_adv h2
      simp only at h
      split at h
      · cases h; exact LoopWin.fail (Nat.le_trans a1.2 ha2.pos_le)
      · obtain ⟨s3, h3, h⟩ := Out.bind_eq_ok h
        have a3 := advance_strip h3
        have hp03 : s.pos ≤ s3.pos := Nat.le_trans a1.2 (Nat.le_trans ha2.pos_le a3.2)
        have hs3 : stripAux false s.rest = name ++ stripAux false s3.rest := by
          rw [a1.1, ha2.1, stripAux_tok htok, a3.1]
        rcases hn4 : next s3 with ⟨c4, s4⟩
        rw [hn4] at h
        simp only at h
        have hp4 := next_pos_eq hn4
        split at h
        · rename_i hc4; subst hc4
          split at h
          · cases h; exact LoopWin.fail (by omega)
          · obtain ⟨s5, h5, h⟩ := Out.bind_eq_ok h
            have a5 := advance_strip h5
            obtain ⟨⟨t, s6⟩, h6, h⟩ := Out.bind_eq_ok h
            have w6 := ihT _ _ h6
            have hp06 : s.pos ≤ s6.pos := by have := w6.1; have := a5.2; simp only at *; omega
            cases t with
            | none => simp only at h; cases h; exact LoopWin.fail hp06
            | some t =>
              simp only at h
              have w := ihE _ _ _ _ h
              refine ⟨Nat.le_trans hp06 w.1, ?_⟩
              intro t' ht'
              obtain ⟨fs, hfl, hcl, hw⟩ := w.2 t' ht'
              obtain ⟨hw6, hcl6⟩ := w6.2.2 t rfl
              refine ⟨.typed name t fs, ?_, ⟨htok, hcl6, hcl⟩, Fields.noConfusion, ?_⟩
              · simpa [Fields.revAppend] using hfl
              · rw [hs3, strip_cons_next hn4 (by decide), a5.1, hw6, hw]
                simp [printFields, sep]
        · split at h
          · cases h; exact LoopWin.fail (by omega)
          · have w := ihE _ _ _ _ h
            refine ⟨Nat.le_trans hp03 w.1, ?_⟩
            intro t' ht'
            obtain ⟨fs, hfl, hcl, hw⟩ := w.2 t' ht'
            refine ⟨.bare name fs, ?_, ⟨htok, hcl⟩, Fields.noConfusion, ?_⟩
            · simpa [Fields.revAppend] using hfl
            · rw [hs3, hw]; simp [printFields]
    · -- structTail
      intro s kind acc r h
      unfold structTail at h
      obtain ⟨s1, h1, h⟩ := Out.bind_eq_ok h
      have a1 := advance_strip h1
      rcases hn2 : next s1 with ⟨c2, s2⟩
      rw [hn2] at h
      simp only at h
      have hp2 := next_pos_eq hn2
      split at h
      · rename_i hc; subst hc
        have w := ihL _ _ _ _ h
        refine ⟨by have := w.1; have := a1.2; omega, ?_⟩
        intro t ht
        obtain ⟨fs, hfl, hcl, hne, hw⟩ := w.2 t ht
        refine ⟨fs, hfl, hcl, ?_⟩
        rw [a1.1, strip_cons_next hn2 (by decide), hw]
        cases fs with
        | nil => exact absurd rfl hne
        | typed n t r => simp [printMore, printFields, sep]
        | bare n r => simp [printMore, printFields, sep]
      · split at h
        · rename_i hc; subst hc
          cases h
          refine ⟨?_, ?_⟩
          · show s.pos ≤ s2.pos
            have := a1.2; omega
          intro t ht; cases ht
          refine ⟨.nil, mkFieldList_isFieldList kind acc, trivial, ?_⟩
          rw [a1.1, strip_cons_next hn2 (by decide)]; rfl
        · cases h; exact TailWin.fail (by have := a1.2; omega)

/-! ### well-formedness of what the type readers return -/

theorem Fields.allTyped_revAppend : ∀ a b : Fields, (Fields.revAppend a b).allTyped = (a.allTyped && b.allTyped)
  | .nil, b => by simp [Fields.revAppend, Fields.allTyped]
  | .typed n t r, b => by
    simp only [Fields.revAppend]; rw [Fields.allTyped_revAppend r]; simp [Fields.allTyped]
  | .bare n r, b => by
    simp only [Fields.revAppend]; rw [Fields.allTyped_revAppend r]; simp [Fields.allTyped]

theorem Fields.allBare_revAppend : ∀ a b : Fields, (Fields.revAppend a b).allBare = (a.allBare && b.allBare)
  | .nil, b => by simp [Fields.revAppend, Fields.allBare]
  | .typed n t r, b => by
    simp only [Fields.revAppend]; rw [Fields.allBare_revAppend r]; simp [Fields.allBare]
  | .bare n r, b => by
    simp only [Fields.revAppend]; rw [Fields.allBare_revAppend r]; simp [Fields.allBare]

theorem Fields.homogeneous_revAppend : ∀ a b : Fields,
    (Fields.revAppend a b).homogeneous = (a.homogeneous && b.homogeneous)
  | .nil, b => by simp [Fields.revAppend, Fields.homogeneous]
  | .typed n t r, b => by
    simp only [Fields.revAppend]; rw [Fields.homogeneous_revAppend r]
    simp [Fields.homogeneous, Bool.and_comm, Bool.and_left_comm]
  | .bare n r, b => by
    simp only [Fields.revAppend]; rw [Fields.homogeneous_revAppend r]; simp [Fields.homogeneous]

theorem Fields.noMaybeMaybe_revAppend : ∀ a b : Fields,
    (Fields.revAppend a b).noMaybeMaybe = (a.noMaybeMaybe && b.noMaybeMaybe)
  | .nil, b => by simp [Fields.revAppend, Fields.noMaybeMaybe]
  | .typed n t r, b => by
    simp only [Fields.revAppend]; rw [Fields.noMaybeMaybe_revAppend r]
    simp [Fields.noMaybeMaybe, Bool.and_comm, Bool.and_left_comm]
  | .bare n r, b => by
    simp only [Fields.revAppend]; rw [Fields.noMaybeMaybe_revAppend r]; simp [Fields.noMaybeMaybe]

theorem Fields.isNil_revAppend : ∀ a b : Fields, (Fields.revAppend a b).isNil = (a.isNil && b.isNil)
  | .nil, b => by simp [Fields.revAppend, Fields.isNil]
  | .typed n t r, b => by
    simp only [Fields.revAppend]; rw [Fields.isNil_revAppend r]; simp [Fields.isNil]
  | .bare n r, b => by
    simp only [Fields.revAppend]; rw [Fields.isNil_revAppend r]; simp [Fields.isNil]

/-- both C06 shape conditions on a type -/
def Ty.good (t : Ty) : Prop := t.homogeneous = true ∧ t.noMaybeMaybe = true

/-- the loop invariant of `readStructType`: what `t.Kind` says about `t.Fields` -/
def AccOk (kind : SKind) (acc : Fields) : Prop :=
  (kind = .struct → acc.allTyped = true) ∧ (kind = .enum → acc.allBare = true ∧ acc.isNil = false) ∧
  acc.homogeneous = true ∧ acc.noMaybeMaybe = true

theorem mkFieldList_good {kind : SKind} {acc : Fields} (h : AccOk kind acc) : (mkFieldList kind acc).good := by
  obtain ⟨h1, h2, h3, h4⟩ := h
  cases kind with
  | struct =>
    simp only [mkFieldList, Ty.good, Ty.homogeneous, Ty.noMaybeMaybe, Fields.reverse,
      Fields.allTyped_revAppend, Fields.homogeneous_revAppend, Fields.noMaybeMaybe_revAppend]
    simp [h1 rfl, h3, h4, Fields.allTyped, Fields.homogeneous, Fields.noMaybeMaybe]
  | enum =>
    simp only [mkFieldList, Ty.good, Ty.homogeneous, Ty.noMaybeMaybe, Fields.reverse,
      Fields.allBare_revAppend, Fields.isNil_revAppend, Fields.noMaybeMaybe_revAppend]
    simp [(h2 rfl).1, (h2 rfl).2, h4, Fields.allBare, Fields.noMaybeMaybe]

theorem maybe_good {e : Ty} (h : e.good) (hm : e.isMaybe = false) : (Ty.maybe e).good := by
  cases e <;> simp_all [Ty.good, Ty.homogeneous, Ty.noMaybeMaybe, Ty.isMaybe]

theorem typeReaders_good : ∀ f : Nat,
    (∀ s t s', readType f s = .ok (some t, s') → t.good) ∧
    (∀ s t s', readStructType f s = .ok (some t, s') → t.good) ∧
    (∀ s kind acc t s', AccOk kind acc → structLoop f s kind acc = .ok (some t, s') → t.good) ∧
    (∀ s kind acc t s', AccOk kind acc → structTail f s kind acc = .ok (some t, s') → t.good) := by
  intro f
  induction f with
  | zero => refine ⟨?_, ?_, ?_, ?_⟩ <;> intros <;> simp_all [readType, readStructType, structLoop, structTail]
  | succ f ih =>
    obtain ⟨ihT, ihS, ihL, ihE⟩ := ih
    refine ⟨?_, ?_, ?_, ?_⟩
    · intro s t s' h
      unfold readType at h
      rcases hn : next s with ⟨c, s1⟩
      rw [hn] at h
      simp only at h
      split at h
      · obtain ⟨⟨e, s2⟩, h1, h2⟩ := Out.bind_eq_ok h
        cases e with
        | none => simp only at h2; cases h2
        | some e =>
          simp only at h2
          split at h2
          · cases h2
          · rename_i hm
            cases h2
            exact maybe_good (ihT _ _ _ h1) (by simpa using hm)
      · split at h
        · obtain ⟨⟨kw, s2⟩, h1, h2⟩ := Out.bind_eq_ok h
          simp only at h2
          split at h2
          · cases h2
          · rcases hn3 : next s2 with ⟨c3, s3⟩
            rw [hn3] at h2
            simp only at h2
            split at h2
            · cases h2
            · obtain ⟨⟨e, s4⟩, h3, h4⟩ := Out.bind_eq_ok h2
              cases e with
              | none => simp only at h4; cases h4
              | some e =>
                simp only at h4
                cases h4
                have := ihT _ _ _ h3
                split <;> simpa [Ty.good, Ty.homogeneous, Ty.noMaybeMaybe] using this
        · obtain ⟨⟨kw, s1'⟩, h1, h2⟩ := Out.bind_eq_ok h
          simp only at h2
          split at h2
          · repeat' split at h2
            all_goals cases h2
            all_goals simp [Ty.good, Ty.homogeneous, Ty.noMaybeMaybe]
          · obtain ⟨⟨name, s2⟩, h3, h4⟩ := Out.bind_eq_ok h2
            simp only at h4
            split at h4
            · cases h4; simp [Ty.good, Ty.homogeneous, Ty.noMaybeMaybe]
            · exact ihS _ _ _ h4
    · intro s t s' h
      unfold readStructType at h
      rcases hn : next s with ⟨c, s1⟩
      rw [hn] at h
      simp only at h
      split at h
      · cases h
      · obtain ⟨s2, h1, h2⟩ := Out.bind_eq_ok h
        rcases hn3 : next s2 with ⟨c3, s3⟩
        rw [hn3] at h2
        simp only at h2
        split at h2
        · cases h2
          simp [Ty.good, Ty.homogeneous, Ty.noMaybeMaybe, Fields.allTyped, Fields.homogeneous, Fields.noMaybeMaybe]
        · refine ihL _ _ _ _ _ ?_ h2
          simp [AccOk, Fields.allTyped, Fields.homogeneous, Fields.noMaybeMaybe]
    · intro s kind acc t s' hacc h
      unfold structLoop at h
      obtain ⟨s1, h1, h⟩ := Out.bind_eq_ok h
      obtain ⟨⟨name, s2⟩, h2, h⟩ := Out.bind_eq_ok h
      simp only at h
      split at h
      · cases h
      · obtain ⟨s3, h3, h⟩ := Out.bind_eq_ok h
        rcases hn4 : next s3 with ⟨c4, s4⟩
        rw [hn4] at h
        simp only at h
        split at h
        · split at h
          · cases h
          · rename_i hk
            obtain ⟨s5, h5, h⟩ := Out.bind_eq_ok h
            obtain ⟨⟨t6, s6⟩, h6, h⟩ := Out.bind_eq_ok h
            cases t6 with
            | none => simp only at h; cases h
            | some t6 =>
              simp only at h
              have hg := ihT _ _ _ h6
              refine ihE _ _ _ _ _ ?_ h
              obtain ⟨a1, a2, a3, a4⟩ := hacc
              have hks : kind = .struct := by cases kind; rfl; exact absurd rfl hk
              refine ⟨fun _ => ?_, fun he => absurd he hk, ?_, ?_⟩
              · simpa [Fields.allTyped] using a1 hks
              · simp [Fields.homogeneous, hg.1, a3]
              · simp [Fields.noMaybeMaybe, hg.2, a4]
        · split at h
          · cases h
          · rename_i hk
            refine ihE _ _ _ _ _ ?_ h
            obtain ⟨a1, a2, a3, a4⟩ := hacc
            simp only [ne_eq, Bool.and_eq_true, decide_eq_true_eq, Bool.not_eq_true', not_and,
              Bool.not_eq_false] at hk
            refine ⟨fun he => SKind.noConfusion he, fun _ => ⟨?_, ?_⟩, ?_, ?_⟩
            rotate_left
            · simp [Fields.isNil]
            · simpa [Fields.homogeneous] using a3
            · simpa [Fields.noMaybeMaybe] using a4
            · simp only [Fields.allBare]
              cases kind with
              | struct =>
                have := hk (by decide)
                cases acc <;> simp_all [Fields.isNil, Fields.allBare]
              | enum => exact (a2 rfl).1
    · intro s kind acc t s' hacc h
      unfold structTail at h
      obtain ⟨s1, h1, h⟩ := Out.bind_eq_ok h
      rcases hn2 : next s1 with ⟨c2, s2⟩
      rw [hn2] at h
      simp only at h
      split at h
      · exact ihL _ _ _ _ _ hacc h
      · split at h
        · cases h; exact mkFieldList_good hacc
        · cases h

/-! ### the interface name -/

theorem dnScan_prefix (H N : UInt8 → Bool) (hH : ∀ c, H c = true → isLay c = false)
    (hN : ∀ c, N c = true → isLay c = false) : ∀ (bs : Bytes) (st : DnState) (cur best : Nat),
    dnScan H N st cur best bs = best ∨
      (cur ≤ dnScan H N st cur best bs ∧ Tok (bs.take (dnScan H N st cur best bs - cur))) := by
  intro bs
  induction bs with
  | nil => intro st cur best; left; cases st <;> rfl
  | cons c r ih =>
    have step : ∀ (st' : DnState) (cur best best' : Nat), isLay c = false → (best' = best ∨ best' = cur + 1) →
        dnScan H N st' (cur + 1) best' r = best ∨
          (cur ≤ dnScan H N st' (cur + 1) best' r ∧ Tok ((c :: r).take (dnScan H N st' (cur + 1) best' r - cur))) := by
      intro st' cur best best' hc hb
      rcases ih st' (cur + 1) best' with h | ⟨h1, h2⟩
      · rcases hb with hb | hb
        · left; rw [h, hb]
        · right; rw [h, hb]
          refine ⟨by omega, ?_⟩
          have : cur + 1 - cur = 1 := by omega
          rw [this]; exact Tok.cons hc Tok.nil
      · right
        refine ⟨by omega, ?_⟩
        have : dnScan H N st' (cur + 1) best' r - cur = (dnScan H N st' (cur + 1) best' r - (cur + 1)) + 1 := by omega
        rw [this, List.take_succ_cons]
        exact Tok.cons hc h2
    intro st cur best
    cases st <;> simp only [dnScan]
    · split
      · rename_i h; exact step _ _ _ _ (hH c h) (Or.inl rfl)
      · left; rfl
    · split
      · rename_i h; exact step _ _ _ _ (hH c h) (Or.inl rfl)
      · split
        · rename_i h; subst h; exact step _ _ _ _ (by decide) (Or.inl rfl)
        · left; rfl
    · split
      · rename_i h; exact step _ _ _ _ (hN c h) (Or.inr rfl)
      · left; rfl
    · split
      · rename_i h; exact step _ _ _ _ (hN c h) (Or.inr rfl)
      · split
        · rename_i h
          simp only [Bool.or_eq_true, decide_eq_true_eq] at h
          rcases h with h | h <;> subst h <;> exact step _ _ _ _ (by decide) (Or.inl rfl)
        · left; rfl

theorem notLay_of_alpha {c : UInt8} (h : isAlpha c = true) : isLay c = false :=
  notLay_of_class isAlpha (by decide) (by decide) (by decide) (by decide) (by decide) h
theorem notLay_of_lowerDigit {c : UInt8} (h : isLowerDigit c = true) : isLay c = false :=
  notLay_of_class isLowerDigit (by decide) (by decide) (by decide) (by decide) (by decide) h

theorem matchDn_tok (bs : Bytes) : Tok (bs.take (matchDn bs)) := by
  unfold matchDn
  rcases dnScan_prefix isAlpha isAlnum (fun _ => notLay_of_alpha) (fun _ => notLay_of_alnum) bs .head0 0 0 with h | h
  · rw [h]; exact Tok.nil
  · simpa using h.2

theorem matchXdn_tok (bs : Bytes) : Tok (bs.take (matchXdn bs)) := by
  unfold matchXdn
  split
  · rename_i r
    rcases dnScan_prefix isLowerDigit isLowerDigit (fun _ => notLay_of_lowerDigit) (fun _ => notLay_of_lowerDigit)
      r .head0 0 0 with h | h
    · rw [h]; exact Tok.nil
    · split
      · exact Tok.nil
      · rename_i n hn
        rw [hn] at h
        have h2 : Tok (r.take (n + 1)) := by simpa using h.2
        have : n + 5 = (n + 1) + 4 := by omega
        rw [this]
        simp only [List.take_succ_cons]
        exact Tok.cons (by decide) (Tok.cons (by decide) (Tok.cons (by decide) (Tok.cons (by decide) h2)))
  · exact Tok.nil

theorem skipN_adv (s : St) (n : Nat) (hn : n ≤ s.rest.length) : Adv s (s.rest.take n) (skipN n s) := by
  refine ⟨by simp [skipN], ?_⟩
  simp [skipN]; omega

theorem readInterfaceName_adv {s s' : St} {name : Bytes} (h : readInterfaceName s = .ok (name, s')) :
    Adv s name s' ∧ Tok name := by
  unfold readInterfaceName at h
  split at h
  · cases h
  · dsimp only at h
    split at h
    · split at h
      · cases h; exact ⟨Adv.refl _, Tok.nil⟩
      · cases h; exact ⟨skipN_adv _ _ (matchDn_le _), matchDn_tok _⟩
    · split at h
      · split at h
        · cases h; exact ⟨Adv.refl _, Tok.nil⟩
        · cases h; exact ⟨skipN_adv _ _ (matchXdn_le _), matchXdn_tok _⟩
      · cases h; exact ⟨Adv.refl _, Tok.nil⟩

/-! ### members -/

/-- what C06 needs of a member: clean names, well-shaped types -/
def MemOk (m : Member) : Prop := m.Clean ∧ ∀ t ∈ m.types, t.good

theorem readType_win {f : Nat} {s : St} {r : Option Ty × St} (h : readType f s = .ok r) : TyWin s r :=
  (typeReaders_win f).1 s r h

theorem readType_good {f : Nat} {s s' : St} {t : Ty} (h : readType f s = .ok (some t, s')) : t.good :=
  (typeReaders_good f).1 s t s' h

/-- `kw` is the keyword that was read before the member reader was entered -/
def MemberWin (kw : Bytes) (s : St) (r : Member × St) : Prop :=
  kw ++ stripAux false s.rest = printMember false r.1 (stripAux false r.2.rest) ∧ MemOk r.1 ∧ s.pos ≤ r.2.pos

theorem readAlias_win {s : St} {r : Member × St} (h : readAlias s = .ok r) : MemberWin tType s r := by
  unfold readAlias at h
  obtain ⟨s1, h1, h⟩ := Out.bind_eq_ok h
  have a1 := advance_strip h1
  obtain ⟨⟨name, s2⟩, h2, h⟩ := Out.bind_eq_ok h
  obtain ⟨ha2, htok⟩ := readTypeName_adv h2
  simp only at h
  split at h
  · cases h
  · obtain ⟨s3, h3, h⟩ := Out.bind_eq_ok h
    have a3 := advance_strip h3
    obtain ⟨⟨t, s4⟩, h4, h⟩ := Out.bind_eq_ok h
    have w4 := readType_win h4
    cases t with
    | none => simp only at h; cases h
    | some t =>
      simp only at h
      cases h
      obtain ⟨hw, hcl⟩ := w4.2.2 t rfl
      refine ⟨?_, ⟨⟨htok, hcl⟩, ?_⟩, ?_⟩
      · rw [a1.1, ha2.1, stripAux_tok htok, a3.1, hw]
        simp [printMember, sep]
      · intro t' ht'
        simp only [Member.types, List.mem_singleton] at ht'
        subst ht'
        exact readType_good h4
      · have := a1.2; have := ha2.pos_le; have := a3.2; have := w4.1
        simp only at *; omega

theorem readMethod_win {s : St} {r : Member × St} (h : readMethod s = .ok r) : MemberWin tMethod s r := by
  unfold readMethod at h
  obtain ⟨s1, h1, h⟩ := Out.bind_eq_ok h
  have a1 := advance_strip h1
  obtain ⟨⟨name, s2⟩, h2, h⟩ := Out.bind_eq_ok h
  obtain ⟨ha2, htok⟩ := readTypeName_adv h2
  simp only at h
  split at h
  · cases h
  · obtain ⟨s3, h3, h⟩ := Out.bind_eq_ok h
    have a3 := advance_strip h3
    obtain ⟨⟨ti, s4⟩, h4, h⟩ := Out.bind_eq_ok h
    have w4 := readType_win h4
    cases ti with
    | none => simp only at h; cases h
    | some ti =>
      simp only at h
      obtain ⟨s5, h5, h⟩ := Out.bind_eq_ok h
      have a5 := advance_strip h5
      rcases hn6 : next s5 with ⟨one, s6⟩
      rcases hn7 : next s6 with ⟨two, s7⟩
      rw [hn6, hn7] at h
      simp only at h
      split at h
      · cases h
      · rename_i hc
        simp only [ne_eq, Bool.or_eq_true, decide_eq_true_eq, not_or, Decidable.not_not] at hc
        obtain ⟨rfl, rfl⟩ := hc
        obtain ⟨s8, h8, h⟩ := Out.bind_eq_ok h
        have a8 := advance_strip h8
        obtain ⟨⟨to, s9⟩, h9, h⟩ := Out.bind_eq_ok h
        have w9 := readType_win h9
        cases to with
        | none => simp only at h; cases h
        | some to =>
          simp only at h
          cases h
          obtain ⟨hwi, hcli⟩ := w4.2.2 ti rfl
          obtain ⟨hwo, hclo⟩ := w9.2.2 to rfl
          refine ⟨?_, ⟨⟨htok, hcli, hclo⟩, ?_⟩, ?_⟩
          · rw [a1.1, ha2.1, stripAux_tok htok, a3.1, hwi, a5.1, strip_cons_next hn6 (by decide),
              strip_cons_next hn7 (by decide), a8.1, hwo]
            simp [printMember, sep, tArrow]
          · intro t' ht'
            simp only [Member.types, List.mem_cons, List.not_mem_nil, or_false] at ht'
            rcases ht' with rfl | rfl
            · exact readType_good h4
            · exact readType_good h9
          · have := a1.2; have := ha2.pos_le; have := a3.2; have := w4.1; have := a5.2
            have := next_pos_eq hn6; have := next_pos_eq hn7; have := a8.2; have := w9.1
            simp only at *; omega

theorem readError_win {s : St} {r : Member × St} (h : readError s = .ok r) : MemberWin tError s r := by
  unfold readError at h
  obtain ⟨s1, h1, h⟩ := Out.bind_eq_ok h
  have a1 := advance_strip h1
  obtain ⟨⟨name, s2⟩, h2, h⟩ := Out.bind_eq_ok h
  obtain ⟨ha2, htok⟩ := readTypeName_adv h2
  simp only at h
  split at h
  · cases h
  · split at h
    · -- no parameter list: the cursor stays right behind the name
      cases h
      refine ⟨?_, ⟨htok, ?_⟩, ?_⟩
      · rw [a1.1, ha2.1, stripAux_tok htok]
        simp [printMember, sep]
      · intro t' ht'; simp [Member.types] at ht'
      · have := a1.2; have := ha2.pos_le
        simp only at *; omega
    · obtain ⟨s3, h3, h⟩ := Out.bind_eq_ok h
      have a3 := advance_strip h3
      obtain ⟨⟨t, s4⟩, h4, h⟩ := Out.bind_eq_ok h
      have w4 := readType_win h4
      have hp : s.pos ≤ s4.pos := by
        have := a1.2; have := ha2.pos_le; have := a3.2; have := w4.1
        simp only at *; omega
      cases t with
      | none => simp only at h; cases h
      | some t =>
        simp only at h
        cases h
        obtain ⟨hw, hcl⟩ := w4.2.2 t rfl
        refine ⟨?_, ⟨⟨htok, hcl⟩, ?_⟩, hp⟩
        · rw [a1.1, ha2.1, stripAux_tok htok, a3.1, hw]
          simp [printMember, sep]
        · intro t' ht'
          simp only [Member.types, List.mem_singleton] at ht'
          subst ht'
          exact readType_good h4

/-! ### the member loop, readIDL, New -/

theorem uniqueNames_iff_nodup (l : List Bytes) : uniqueNames l = true ↔ l.Nodup := by
  induction l with
  | nil => simp [uniqueNames]
  | cons a r ih =>
    simp only [uniqueNames, Bool.and_eq_true, Bool.not_eq_true', List.nodup_cons, ih]
    constructor
    · rintro ⟨h1, h2⟩; exact ⟨by simpa using h1, h2⟩
    · rintro ⟨h1, h2⟩; exact ⟨by simpa using h1, h2⟩

theorem nodup_reverse' {α} {l : List α} (h : l.Nodup) : l.reverse.Nodup := by
  unfold List.Nodup at *
  rw [List.pairwise_reverse]
  exact h.imp (fun hab => Ne.symm hab)

theorem printMembers_cons (m : Member) (r : List Member) (tl : Bytes) :
    printMember false m (printMembers false r ++ tl) = printMembers false (m :: r) ++ tl := by
  simp only [printMembers, Bool.false_eq_true, if_false, List.nil_append]
  exact printMember_append false m _ tl

/-- the state in which the member loop stops has no input left -/
theorem rest_nil_of_not_more {s : St} (hw : WF s) (h : s.more = false) : s.rest = [] := by
  simp only [St.more, decide_eq_false_iff_not, Nat.not_lt] at h
  have := hw.1
  exact List.eq_nil_of_length_eq_zero (by omega)

theorem membersLoop_win : ∀ (f : Nat) (s : St) (names : List Bytes) (acc ms : List Member) (s' : St),
    names = acc.map Member.name → names.Nodup → (∀ m ∈ acc, MemOk m) →
    membersLoop f s names acc = .ok (ms, s') →
    ∃ new, ms = acc.reverse ++ new ∧
      stripAux false s.rest = printMembers false new ++ stripAux false s'.rest ∧
      (ms.map Member.name).Nodup ∧ (∀ m ∈ ms, MemOk m) ∧ s'.more = false := by
  intro f
  induction f with
  | zero => intro s names acc ms s' _ _ _ h; simp [membersLoop] at h
  | succ f ih =>
    intro s names acc ms s' hnames hnd hok h
    unfold membersLoop at h
    obtain ⟨s1, h1, h⟩ := Out.bind_eq_ok h
    have a1 := advance_strip h1
    split at h
    · rename_i hmore
      cases h
      refine ⟨[], by simp, by simpa [printMembers] using a1.1, ?_, ?_, by simpa using hmore⟩
      · rw [List.map_reverse, ← hnames]; exact nodup_reverse' hnd
      · intro m hm; exact hok m (List.mem_reverse.mp hm)
    · obtain ⟨⟨kw, s2⟩, h2, h⟩ := Out.bind_eq_ok h
      obtain ⟨ha2, _⟩ := readKeyword_adv h2
      have hkt := readKeyword_tok h2
      have hs2 : stripAux false s.rest = kw ++ stripAux false s2.rest := by
        rw [a1.1, ha2.1, stripAux_tok hkt]
      simp only at h
      -- the three member kinds share the rest of the argument
      have key : ∀ (m : Member) (s3 : St) (e : PErr), MemberWin kw s2 (m, s3) →
          (if names.contains m.name = true then (Out.err e : Out (List Member × St))
            else membersLoop f s3 (m.name :: names) (m :: acc)) = .ok (ms, s') →
          ∃ new, ms = acc.reverse ++ new ∧
            stripAux false s.rest = printMembers false new ++ stripAux false s'.rest ∧
            (ms.map Member.name).Nodup ∧ (∀ m ∈ ms, MemOk m) ∧ s'.more = false := by
        intro m s3 e hw hrec
        have hrec' : names.contains m.name = false ∧ membersLoop f s3 (m.name :: names) (m :: acc) = .ok (ms, s') := by
          split at hrec
          · cases hrec
          · rename_i hc; exact ⟨by simpa using hc, hrec⟩
        obtain ⟨hnot, hrec⟩ := hrec'
        have hnd' : (m.name :: names).Nodup := by
          refine List.nodup_cons.mpr ⟨?_, hnd⟩
          simpa using hnot
        obtain ⟨new', hms, hstr, hnd2, hok2, hmore⟩ := ih s3 (m.name :: names) (m :: acc) ms s'
          (by simp [hnames]) hnd' (by
            intro x hx
            rcases List.mem_cons.mp hx with rfl | hx
            · exact hw.2.1
            · exact hok x hx) hrec
        refine ⟨m :: new', by simp [hms], ?_, hnd2, hok2, hmore⟩
        rw [hs2, hw.1]
        simp only at hstr ⊢
        rw [hstr]
        exact printMembers_cons m new' _
      split at h
      · rename_i hk; subst hk
        obtain ⟨⟨m, s3⟩, h3, h⟩ := Out.bind_eq_ok h
        exact key m s3 _ (readAlias_win h3) h
      · split at h
        · rename_i hk; subst hk
          obtain ⟨⟨m, s3⟩, h3, h⟩ := Out.bind_eq_ok h
          exact key m s3 _ (readMethod_win h3) h
        · split at h
          · rename_i hk; subst hk
            obtain ⟨⟨m, s3⟩, h3, h⟩ := Out.bind_eq_ok h
            exact key m s3 _ (readError_win h3) h
          · cases h

/-- everything C06 says about an accepted description, on the level of `readIDL` -/
theorem readIDL_win {s : St} (hs : WF s) {idl : Idl} {s' : St} (h : readIDL s = .ok (idl, s')) :
    stripAux false s.rest = tInterface ++ (idl.name ++ printMembers false idl.members) ∧
    Tok idl.name ∧ (idl.members.map Member.name).Nodup ∧ (∀ m ∈ idl.members, MemOk m) := by
  have hsat := readIDL_sat hs
  rw [h] at hsat
  have hw' : WF s' := hsat.1
  unfold readIDL at h
  obtain ⟨⟨kw, s1⟩, h1, h⟩ := Out.bind_eq_ok h
  obtain ⟨ha1, _⟩ := readKeyword_adv h1
  simp only at h
  split at h
  · cases h
  · rename_i hk; simp only [ne_eq, Decidable.not_not] at hk; subst hk
    obtain ⟨s2, h2, h⟩ := Out.bind_eq_ok h
    have a2 := advance_strip h2
    obtain ⟨⟨name, s3⟩, h3, h⟩ := Out.bind_eq_ok h
    obtain ⟨ha3, htok⟩ := readInterfaceName_adv h3
    simp only at h
    split at h
    · cases h
    · obtain ⟨⟨ms, s4⟩, h4, h⟩ := Out.bind_eq_ok h
      cases h
      obtain ⟨new, hms, hstr, hnd, hok, hmore⟩ := membersLoop_win _ s3 [] [] ms _ rfl List.nodup_nil
        (fun m hm => absurd hm List.not_mem_nil) h4
      simp only [List.reverse_nil, List.nil_append] at hms
      subst hms
      refine ⟨?_, htok, hnd, hok⟩
      rw [ha1.1, stripAux_tok (readKeyword_tok h1), a2.1, ha3.1, stripAux_tok htok, hstr,
        rest_nil_of_not_more hw' hmore]
      simp [stripAux, kwInterface, tInterface]

theorem New_win {input : Bytes} {t : Idl} (h : New input = .ok t) :
    strip input = toks t ∧ t.Clean ∧ (t.members.map Member.name).Nodup ∧ (∀ m ∈ t.members, MemOk m) ∧
    t.methods.length ≠ 0 ∧ t.description = input := by
  unfold New at h
  obtain ⟨s, h1, h⟩ := Out.bind_eq_ok h
  have a1 := advance_strip h1
  have hs : WF s := by
    have := advance_sat (initSt_wf input); rw [h1] at this; exact this.1
  obtain ⟨⟨idl, s'⟩, h2, h⟩ := Out.bind_eq_ok h
  obtain ⟨hstr, htok, hnd, hok⟩ := readIDL_win hs h2
  simp only at h
  split at h
  · cases h
  · rename_i hm
    cases h
    refine ⟨?_, ⟨htok, fun m hm => (hok m hm).1⟩, hnd, hok, hm, rfl⟩
    unfold strip toks
    have : (initSt input).rest = input := rfl
    rw [← this, a1.1, hstr]
end Varlink.Idl
