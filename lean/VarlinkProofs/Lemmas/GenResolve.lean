/-
  `namesResolve` for the generator's view: every type name the emitted file mentions is predeclared or declared
  by the file, every package qualifier is imported, when every type reference of the description names a `type`
  member (used by VarlinkProofs/Props/C07.lean).
-/
import VarlinkProofs.Lemmas.GenImports
namespace Varlink.Gen
open Varlink Varlink.Idl

/-! ## the context: declared type names `tn`, imported package names `pn` -/

/-- `names`: the alias names of the description -/
structure ResCtx (names tn pn : List Bytes) : Prop where
  sub : ∀ n ∈ names, n ∈ tn
  varlink : str "varlink" ∈ pn
  context : str "context" ∈ pn
  call : (str "VarlinkCall") ∈ tn

/-- a type whose references resolve and whose use of `object` is covered by the import of `encoding/json` -/
def TyRes (names pn : List Bytes) (t : Ty) : Prop :=
  tyRefsIn names t = true ∧ (tyUsesObject t = true → str "json" ∈ pn)

def FsRes (names pn : List Bytes) (fs : Fields) : Prop :=
  fsRefsIn names fs = true ∧ (fsUsesObject fs = true → str "json" ∈ pn)

theorem FsRes.head {names pn n t r} (h : FsRes names pn (.typed n t r)) : TyRes names pn t := by
  obtain ⟨h1, h2⟩ := h
  simp only [fsRefsIn, Bool.and_eq_true] at h1
  exact ⟨h1.1, fun hu => h2 (by simp [fsUsesObject, hu])⟩

theorem FsRes.tail {names pn n t r} (h : FsRes names pn (.typed n t r)) : FsRes names pn r := by
  obtain ⟨h1, h2⟩ := h
  simp only [fsRefsIn, Bool.and_eq_true] at h1
  exact ⟨h1.2, fun hu => h2 (by simp [fsUsesObject, hu])⟩

theorem TyRes.struct {names pn fs} (h : TyRes names pn (.struct fs)) : FsRes names pn fs := by
  obtain ⟨h1, h2⟩ := h
  exact ⟨by simpa [tyRefsIn] using h1, fun hu => h2 (by simpa [tyUsesObject] using hu)⟩

theorem FsRes.toStruct {names pn fs} (h : FsRes names pn fs) : TyRes names pn (.struct fs) :=
  ⟨by simpa [tyRefsIn] using h.1, fun hu => h.2 (by simpa [tyUsesObject] using hu)⟩

theorem fsRes_nil (names pn : List Bytes) : FsRes names pn .nil :=
  ⟨rfl, fun hu => by simp [fsUsesObject] at hu⟩

/-! ## the types -/

theorem resolves_pre (tn pn : List Bytes) (s : String) (h : str s ∈ predeclaredTypes) :
    (tName s).resolves tn pn = true := by
  simp [tName, GoTy.resolves, h]

mutual
theorem goTy_resolves (names tn pn : List Bytes) (hc : ResCtx names tn pn) :
    ∀ (t : Ty) (j : Bool) (g : GoTy), TyRes names pn t → goTy t j = some g → g.resolves tn pn = true
  | .bool, _, g, _, h => by
    simp [goTy] at h; subst h
    have : str "bool" ∈ predeclaredTypes := by decide
    simp [GoTy.resolves, this]
  | .int, _, g, _, h => by
    simp [goTy] at h; subst h
    have : str "int64" ∈ predeclaredTypes := by decide
    simp [GoTy.resolves, this]
  | .float, _, g, _, h => by
    simp [goTy] at h; subst h
    have : str "float64" ∈ predeclaredTypes := by decide
    simp [GoTy.resolves, this]
  | .string, _, g, _, h => by
    simp [goTy] at h; subst h
    have : str "string" ∈ predeclaredTypes := by decide
    simp [GoTy.resolves, this]
  | .enum _, _, g, _, h => by
    simp [goTy] at h; subst h
    have : str "string" ∈ predeclaredTypes := by decide
    simp [GoTy.resolves, this]
  | .object, _, g, hr, h => by
    simp [goTy] at h; subst h
    have := hr.2 (by simp [tyUsesObject])
    simpa [GoTy.resolves] using this
  | .named n, _, g, hr, h => by
    simp [goTy] at h; subst h
    have h1 := hr.1
    simp only [tyRefsIn] at h1
    have := hc.sub n (List.contains_iff_mem.mp h1)
    simp [GoTy.resolves, this]
  | .maybe t, j, g, hr, h => by
    simp only [goTy, Option.map_eq_some_iff] at h
    obtain ⟨a, ha, rfl⟩ := h
    have hr' : TyRes names pn t := ⟨by simpa [tyRefsIn] using hr.1, fun hu => hr.2 (by simpa [tyUsesObject] using hu)⟩
    simpa [GoTy.resolves] using goTy_resolves names tn pn hc t j a hr' ha
  | .array t, j, g, hr, h => by
    simp only [goTy, Option.map_eq_some_iff] at h
    obtain ⟨a, ha, rfl⟩ := h
    have hr' : TyRes names pn t := ⟨by simpa [tyRefsIn] using hr.1, fun hu => hr.2 (by simpa [tyUsesObject] using hu)⟩
    simpa [GoTy.resolves] using goTy_resolves names tn pn hc t j a hr' ha
  | .map t, j, g, hr, h => by
    simp only [goTy, Option.map_eq_some_iff] at h
    obtain ⟨a, ha, rfl⟩ := h
    have hr' : TyRes names pn t := ⟨by simpa [tyRefsIn] using hr.1, fun hu => hr.2 (by simpa [tyUsesObject] using hu)⟩
    simpa [GoTy.resolves] using goTy_resolves names tn pn hc t j a hr' ha
  | .struct fs, j, g, hr, h => by
    simp only [goTy, Option.map_eq_some_iff] at h
    obtain ⟨a, ha, rfl⟩ := h
    simpa [GoTy.resolves] using goFields_resolves names tn pn hc fs j a hr.struct ha
theorem goFields_resolves (names tn pn : List Bytes) (hc : ResCtx names tn pn) :
    ∀ (fs : Fields) (j : Bool) (g : GoFields), FsRes names pn fs → goFields fs j = some g →
      g.resolves tn pn = true
  | .nil, _, g, _, h => by simp [goFields] at h; subst h; rfl
  | .bare _ _, _, g, _, h => by simp [goFields] at h
  | .typed n t r, j, g, hr, h => by
    simp only [goFields] at h
    split at h
    · rename_i a b ha hb
      injection h with h; subst h
      simp [GoFields.resolves, goTy_resolves names tn pn hc t j a hr.head ha,
        goFields_resolves names tn pn hc r j b hr.tail hb]
    · exact absurd h (by simp)
end

theorem paramFields_resolves (names tn pn : List Bytes) (hc : ResCtx names tn pn) (s : Bytes) :
    ∀ (fs : Fields) (g : GoFields), FsRes names pn fs → paramFields s fs = some g → g.resolves tn pn = true
  | .nil, g, _, h => by simp [paramFields] at h; subst h; rfl
  | .bare _ _, g, _, h => by simp [paramFields] at h
  | .typed n t r, g, hr, h => by
    simp only [paramFields] at h
    split at h
    · rename_i a b ha hb
      injection h with h; subst h
      simp [GoFields.resolves, goTy_resolves names tn pn hc t false a hr.head ha,
        paramFields_resolves names tn pn hc s r b hr.tail hb]
    · exact absurd h (by simp)

theorem resultTypeFields_resolves (names tn pn : List Bytes) (hc : ResCtx names tn pn) :
    ∀ (fs : Fields) (g : GoFields), FsRes names pn fs → resultTypeFields fs = some g → g.resolves tn pn = true
  | .nil, g, _, h => by simp [resultTypeFields] at h; subst h; rfl
  | .bare _ _, g, _, h => by simp [resultTypeFields] at h
  | .typed n t r, g, hr, h => by
    simp only [resultTypeFields] at h
    split at h
    · rename_i a b ha hb
      injection h with h; subst h
      simp [GoFields.resolves, goTy_resolves names tn pn hc t false a hr.head ha,
        resultTypeFields_resolves names tn pn hc r b hr.tail hb]
    · exact absurd h (by simp)

theorem copyInStmts_resolves (names tn pn : List Bytes) (hc : ResCtx names tn pn) (d s : Bytes) :
    ∀ (fs : Fields) (l : List Stmt), FsRes names pn fs → copyInStmts d s fs = some l →
      Stmt.resolvesList tn pn l = true
  | .nil, l, _, h => by simp [copyInStmts] at h; subst h; rfl
  | .bare _ _, l, _, h => by simp [copyInStmts] at h
  | .typed n t r, l, hr, h => by
    simp only [copyInStmts] at h
    split at h
    · rename_i a b ha hb
      injection h with h; subst h
      have := goTy_resolves names tn pn hc t true a hr.head ha
      cases hk : convKind t <;>
        simp [Stmt.resolvesList, Stmt.resolves, Expr.resolves, this,
          copyInStmts_resolves names tn pn hc d s r b hr.tail hb]
    · exact absurd h (by simp)

theorem copyOutStmts_resolves (names tn pn : List Bytes) (hc : ResCtx names tn pn) :
    ∀ (fs : Fields) (l : List Stmt), FsRes names pn fs → copyOutStmts fs = some l →
      Stmt.resolvesList tn pn l = true
  | .nil, l, _, h => by simp [copyOutStmts] at h; subst h; rfl
  | .bare _ _, l, _, h => by simp [copyOutStmts] at h
  | .typed n t r, l, hr, h => by
    simp only [copyOutStmts] at h
    split at h
    · rename_i a b ha hb
      injection h with h; subst h
      have := goTy_resolves names tn pn hc t false a hr.head ha
      cases hk : convKind t <;>
        simp [Stmt.resolvesList, Stmt.resolves, Expr.resolves, this,
          copyOutStmts_resolves names tn pn hc r b hr.tail hb]
    · exact absurd h (by simp)

theorem dispatchArgExprs_resolves (names tn pn : List Bytes) (hc : ResCtx names tn pn) :
    ∀ (fs : Fields) (l : List Expr), FsRes names pn fs → dispatchArgExprs fs = some l →
      l.all (Expr.resolves tn pn) = true
  | .nil, l, _, h => by simp [dispatchArgExprs] at h; subst h; rfl
  | .bare _ _, l, _, h => by simp [dispatchArgExprs] at h
  | .typed n t r, l, hr, h => by
    simp only [dispatchArgExprs] at h
    split at h
    · rename_i a b ha hb
      injection h with h; subst h
      have := goTy_resolves names tn pn hc t false a hr.head ha
      cases hk : convKind t <;>
        simp [Expr.resolves, this, dispatchArgExprs_resolves names tn pn hc r b hr.tail hb]
    · exact absurd h (by simp)

/-! ## appending -/

theorem resolves_append (tn pn : List Bytes) : ∀ (a b : GoFields),
    (a.append b).resolves tn pn = (a.resolves tn pn && b.resolves tn pn)
  | .nil, b => by simp [GoFields.append, GoFields.resolves]
  | .cons n t g r, b => by simp [GoFields.append, GoFields.resolves, resolves_append tn pn r b, Bool.and_assoc]

theorem resolves_param (tn pn : List Bytes) (n : Bytes) (t : GoTy) :
    (param n t).resolves tn pn = t.resolves tn pn := by
  simp [param, GoFields.resolves]

theorem resolvesList_append (tn pn : List Bytes) : ∀ (a b : List Stmt),
    Stmt.resolvesList tn pn (a ++ b) = (Stmt.resolvesList tn pn a && Stmt.resolvesList tn pn b)
  | [], b => by simp [Stmt.resolvesList]
  | s :: a, b => by simp [Stmt.resolvesList, resolvesList_append tn pn a b, Bool.and_assoc]

theorem resolvesList_of_all (tn pn : List Bytes) : ∀ l : List Stmt, l.all (Stmt.resolves tn pn) = true →
    Stmt.resolvesList tn pn l = true
  | [], _ => rfl
  | s :: r, h => by
    simp only [List.all_cons, Bool.and_eq_true] at h
    simp [Stmt.resolvesList, h.1, resolvesList_of_all tn pn r h.2]

theorem resolves_func (tn pn : List Bytes) (r : Option Recv) (n : Bytes) (p rs : GoFields) (b : List Stmt)
    (e : List Bytes) :
    Decl.resolves tn pn (.func (mkFunc r n p rs b e)) =
      (p.resolves tn pn && rs.resolves tn pn && Stmt.resolvesList tn pn b) := rfl

theorem resolves_type (tn pn : List Bytes) (n : Bytes) (t : GoTy) :
    Decl.resolves tn pn (.type n t) = t.resolves tn pn := rfl

theorem fieldUses_resolves (tn pn : List Bytes) : ∀ fs : Fields, Stmt.resolvesList tn pn (fieldUses fs) = true
  | .nil => rfl
  | .bare _ r => by simp [fieldUses, Stmt.resolvesList, Stmt.resolves, fieldUses_resolves tn pn r]
  | .typed _ _ r => by simp [fieldUses, Stmt.resolvesList, Stmt.resolves, fieldUses_resolves tn pn r]

/-! ## the fixed types -/

theorem res_string (tn pn : List Bytes) : (tName "string").resolves tn pn = true := resolves_pre tn pn _ (by decide)
theorem res_error (tn pn : List Bytes) : (tName "error").resolves tn pn = true := resolves_pre tn pn _ (by decide)
theorem res_uint64 (tn pn : List Bytes) : (tName "uint64").resolves tn pn = true := resolves_pre tn pn _ (by decide)

theorem res_errorResult (tn pn : List Bytes) : errorResult.resolves tn pn = true := by
  simp [errorResult, resolves_param, res_error tn pn]
theorem res_flagsResult (tn pn : List Bytes) : flagsResult.resolves tn pn = true := by
  simp [flagsResult, resolves_param, res_uint64 tn pn]

section fixed
variable {names tn pn : List Bytes} (hc : ResCtx names tn pn)
include hc

theorem res_ctxTy : ctxTy.resolves tn pn = true := by simpa [ctxTy, GoTy.resolves] using hc.context
theorem res_connTy : connTy.resolves tn pn = true := by simpa [connTy, GoTy.resolves] using hc.varlink
theorem res_rwcTy : rwcTy.resolves tn pn = true := by simpa [rwcTy, GoTy.resolves] using hc.varlink
theorem res_callTy : (GoTy.qual (str "varlink") (str "Call")).resolves tn pn = true := by
  simpa [GoTy.resolves] using hc.varlink
theorem res_ctxParam : ctxParam.resolves tn pn = true := by
  simp [ctxParam, resolves_param, res_ctxTy hc]
theorem res_varlinkCall : (tName "VarlinkCall").resolves tn pn = true := by
  simp [tName, GoTy.resolves, hc.call]
theorem res_callParams : callParams.resolves tn pn = true := by
  simp [callParams, resolves_append, resolves_param, res_ctxParam hc, res_varlinkCall hc]

end fixed

/-! ## members -/

/-- what the domain provides per member: references resolve, `encoding/json` is imported when needed -/
structure MemberRes (names pn : List Bytes) (m : Member) : Prop where
  refs : ∀ ty ∈ m.types, tyRefsIn names ty = true
  json : memberUsesJson m = true → str "json" ∈ pn

theorem MemberRes.alias {names pn n d ty} (h : MemberRes names pn (.alias n d ty)) : TyRes names pn ty :=
  ⟨h.refs ty (by simp [Member.types]), fun hu => h.json (by simpa [memberUsesJson] using hu)⟩

theorem MemberRes.method {names pn n d fi fo} (h : MemberRes names pn (.method n d (.struct fi) (.struct fo))) :
    FsRes names pn fi ∧ FsRes names pn fo := by
  have h1 := h.refs (.struct fi) (by simp [Member.types])
  have h2 := h.refs (.struct fo) (by simp [Member.types])
  simp only [tyRefsIn] at h1 h2
  exact ⟨⟨h1, fun hu => h.json (by simp [memberUsesJson, tyFields, hu])⟩,
    ⟨h2, fun hu => h.json (by simp [memberUsesJson, tyFields, hu])⟩⟩

theorem MemberRes.error {names pn n d oty fs} (h : MemberRes names pn (.error n d oty))
    (e : errTy oty = .struct fs) : FsRes names pn fs := by
  refine ⟨?_, fun _ => h.json rfl⟩
  cases oty with
  | none =>
    simp only [errTy, Option.getD] at e
    injection e with e; subst e; rfl
  | some ty =>
    simp only [errTy, Option.getD] at e
    subst e
    simpa [tyRefsIn] using h.refs (.struct fs) (by simp [Member.types])

section views
variable {names tn pn : List Bytes} (hc : ResCtx names tn pn)
include hc

theorem aliasView_resolves (t : Idl) (m : Member) (hr : MemberRes names pn m) (l : List Decl)
    (hl : aliasView t m = some l) : l.all (Decl.resolves tn pn) = true := by
  cases m with
  | alias n d ty =>
    simp only [aliasView, Option.map_eq_some_iff] at hl
    obtain ⟨g, hg, rfl⟩ := hl
    have hs := goTy_resolves names tn pn hc ty true g hr.alias hg
    cases resolvesToObject t ty <;> simp [Decl.resolves, hs]
  | method => simp [aliasView] at hl; subst hl; rfl
  | error => simp [aliasView] at hl; subst hl; rfl

theorem errorView_resolves (m : Member) (h : MemberGood m) (hr : MemberRes names pn m) (l : List Decl)
    (hl : errorView m = some l) : l.all (Decl.resolves tn pn) = true := by
  cases m with
  | alias => simp [errorView] at hl; subst hl; rfl
  | method => simp [errorView] at hl; subst hl; rfl
  | error n d oty =>
    obtain ⟨fs, e, _⟩ := h.error
    have hfs := hr.error e
    simp only [errorView, Option.map_eq_some_iff, e] at hl
    obtain ⟨g, hgo, rfl⟩ := hl
    have := goTy_resolves names tn pn hc (.struct fs) true g hfs.toStruct hgo
    simp only [List.all_cons, List.all_nil, Bool.and_true, Bool.and_eq_true, resolves_func]
    refine ⟨by simpa [Decl.resolves] using this, ?_⟩
    simp only [resolves_param, res_string tn pn, GoFields.resolves]
    split <;> simp [Stmt.resolvesList, Stmt.resolves, fieldUses_resolves]

theorem sendPrologueView_resolves (iface n c : Bytes) (fi : Fields) (hfi : FsRes names pn fi) (l : List Stmt)
    (hl : sendPrologueView iface n c (.struct fi) = some l) : Stmt.resolvesList tn pn l = true := by
  simp only [sendPrologueView] at hl
  split at hl
  · split at hl
    · rename_i t cs ht hcs
      injection hl with hl; subst hl
      simp [Stmt.resolvesList, Stmt.resolves, resolvesList_append,
        goTy_resolves names tn pn hc _ true t hfi.toStruct ht,
        copyInStmts_resolves names tn pn hc _ _ fi cs hfi hcs]
    · exact absurd hl (by simp)
  · injection hl with hl; subst hl; rfl

theorem receiveView_resolves (fo : Fields) (hfo : FsRes names pn fo) (l : List Stmt)
    (hl : receiveView (.struct fo) = some l) : Stmt.resolvesList tn pn l = true := by
  simp only [receiveView] at hl
  split at hl
  · simp only [Option.map_eq_some_iff] at hl
    obtain ⟨t, ht, rfl⟩ := hl
    simp [Stmt.resolvesList, Stmt.resolves, goTy_resolves names tn pn hc _ true t hfo.toStruct ht]
  · injection hl with hl; subst hl; rfl

theorem methodClientView_resolves (iface : Bytes) (m : Member) (h : MemberGood m) (hr : MemberRes names pn m)
    (hmt : (m.name ++ str "_methods") ∈ tn) (l : List Decl)
    (hl : methodClientView iface m = some l) : l.all (Decl.resolves tn pn) = true := by
  cases m with
  | alias => simp [methodClientView] at hl; subst hl; rfl
  | error => simp [methodClientView] at hl; subst hl; rfl
  | method n d i o =>
    obtain ⟨fi, fo, rfl, rfl, _, _⟩ := h.method
    obtain ⟨hfi, hfo⟩ := hr.method
    simp only [Member.name] at hmt
    simp only [methodClientView] at hl
    split at hl
    · rename_i params results resultTys sendPro upPro recv' copies e1 e2 e3 e4 e5 e6 e7
      injection hl with hl; subst hl
      have p1 := paramFields_resolves names tn pn hc _ fi params hfi e1
      have r1 := paramFields_resolves names tn pn hc _ fo results hfo e2
      have t1 := resultTypeFields_resolves names tn pn hc fo resultTys hfo e3
      have s4 := sendPrologueView_resolves hc _ _ _ fi hfi _ e4
      have s5 := sendPrologueView_resolves hc _ _ _ fi hfi _ e5
      have s6 := receiveView_resolves hc fo hfo _ e6
      have s7 := copyOutStmts_resolves names tn pn hc fo _ hfo e7
      simp [resolves_func, resolves_type, GoTy.resolves, GoFields.resolves, resolves_append, resolves_param,
        res_error tn pn, res_uint64 tn pn, res_ctxTy hc, res_connTy hc, res_rwcTy hc,
        res_ctxParam hc, res_errorResult tn pn, res_flagsResult tn pn,
        Stmt.resolvesList, Stmt.resolves, resolvesList_append, hmt, p1, r1, t1, s4, s5, s6, s7]
    · exact absurd hl (by simp)

theorem ifaceMethodView_resolves (m : Member) (h : MemberGood m) (hr : MemberRes names pn m)
    (l : List IfaceMethod) (hl : ifaceMethodView m = some l) :
    l.all (fun m => m.params.resolves tn pn && m.results.resolves tn pn) = true := by
  cases m with
  | alias => simp [ifaceMethodView] at hl; subst hl; rfl
  | error => simp [ifaceMethodView] at hl; subst hl; rfl
  | method n d i o =>
    obtain ⟨fi, fo, rfl, rfl, _, _⟩ := h.method
    obtain ⟨hfi, _⟩ := hr.method
    simp only [ifaceMethodView, Option.map_eq_some_iff] at hl
    obtain ⟨ps, hps, rfl⟩ := hl
    have p1 := paramFields_resolves names tn pn hc _ fi ps hfi hps
    simp [resolves_append, res_callParams hc, res_errorResult tn pn, p1]

theorem errorReplyView_resolves (iface : Bytes) (m : Member) (h : MemberGood m) (hr : MemberRes names pn m)
    (hn : m.name ∈ tn) (l : List Decl)
    (hl : errorReplyView iface m = some l) : l.all (Decl.resolves tn pn) = true := by
  cases m with
  | alias => simp [errorReplyView] at hl; subst hl; rfl
  | method => simp [errorReplyView] at hl; subst hl; rfl
  | error n d oty =>
    obtain ⟨fs, e, _⟩ := h.error
    have hfs := hr.error e
    simp only [Member.name] at hn
    simp only [errorReplyView, e] at hl
    split at hl
    · rename_i ps c e1 e2
      injection hl with hl; subst hl
      have p1 := paramFields_resolves names tn pn hc _ fs ps hfs e1
      have s2 := copyInStmts_resolves names tn pn hc _ _ fs c hfs e2
      simp [resolves_func, resolves_append, res_ctxParam hc, res_errorResult tn pn, Stmt.resolvesList,
        Stmt.resolves, resolvesList_append, GoTy.resolves, hn, p1, s2]
    · exact absurd hl (by simp)

theorem methodReplyView_resolves (m : Member) (h : MemberGood m) (hr : MemberRes names pn m) (l : List Decl)
    (hl : methodReplyView m = some l) : l.all (Decl.resolves tn pn) = true := by
  cases m with
  | alias => simp [methodReplyView] at hl; subst hl; rfl
  | error => simp [methodReplyView] at hl; subst hl; rfl
  | method n d i o =>
    obtain ⟨fi, fo, rfl, rfl, _, _⟩ := h.method
    obtain ⟨_, hfo⟩ := hr.method
    simp only [methodReplyView] at hl
    split at hl
    · rename_i ps e1
      have p1 := paramFields_resolves names tn pn hc _ fo ps hfo e1
      split at hl
      · split at hl
        · rename_i t c e2 e3
          injection hl with hl; subst hl
          have s2 := copyInStmts_resolves names tn pn hc _ _ fo c hfo e3
          simp [resolves_func, resolves_append, res_ctxParam hc, res_errorResult tn pn, Stmt.resolvesList,
            Stmt.resolves, goTy_resolves names tn pn hc _ true t hfo.toStruct e2, p1, s2]
        · exact absurd hl (by simp)
      · injection hl with hl; subst hl
        simp [resolves_func, resolves_append, res_ctxParam hc, res_errorResult tn pn, Stmt.resolvesList, p1]
    · exact absurd hl (by simp)

theorem dummyView_resolves (iface : Bytes) (m : Member) (h : MemberGood m) (hr : MemberRes names pn m)
    (l : List Decl) (hl : dummyView iface m = some l) : l.all (Decl.resolves tn pn) = true := by
  cases m with
  | alias => simp [dummyView] at hl; subst hl; rfl
  | error => simp [dummyView] at hl; subst hl; rfl
  | method n d i o =>
    obtain ⟨fi, fo, rfl, rfl, _, _⟩ := h.method
    obtain ⟨hfi, _⟩ := hr.method
    simp only [dummyView, Option.map_eq_some_iff] at hl
    obtain ⟨ps, hps, rfl⟩ := hl
    have p1 := paramFields_resolves names tn pn hc _ fi ps hfi hps
    simp [resolves_func, resolves_append, res_callParams hc, res_errorResult tn pn, Stmt.resolvesList,
      Stmt.resolves, p1]

theorem dispatchCaseView_resolves (pkg : Bytes) (m : Member) (h : MemberGood m) (hr : MemberRes names pn m)
    (l : List Stmt) (hl : dispatchCaseView pkg m = some l) : l.all (Stmt.resolves tn pn) = true := by
  cases m with
  | alias => simp [dispatchCaseView] at hl; subst hl; rfl
  | error => simp [dispatchCaseView] at hl; subst hl; rfl
  | method n d i o =>
    obtain ⟨fi, fo, rfl, rfl, _, _⟩ := h.method
    obtain ⟨hfi, _⟩ := hr.method
    simp only [dispatchCaseView] at hl
    split at hl
    · split at hl
      · rename_i t as e1 e2
        injection hl with hl; subst hl
        have := dispatchArgExprs_resolves names tn pn hc fi as hfi e2
        simp [Stmt.resolves, Stmt.resolvesList, goTy_resolves names tn pn hc _ true t hfi.toStruct e1, this]
      · exact absurd hl (by simp)
    · injection hl with hl; subst hl
      simp [Stmt.resolves, Stmt.resolvesList]

end views

theorem dispatchErrorView_resolves (tn pn : List Bytes) (iface : Bytes) (errors : List Member)
    (hn : ∀ m ∈ errors, m.name ∈ tn) :
    Decl.resolves tn pn (dispatchErrorView iface errors) = true := by
  have : ∀ es : List Member, (∀ m ∈ es, m.name ∈ tn) →
      Stmt.resolvesList tn pn ((es.map (dispatchErrorCaseView iface)).flatten) = true := by
    intro es
    induction es with
    | nil => intro _; rfl
    | cons e r ih =>
      intro hes
      have h1 := hes e (by simp)
      have h2 := ih (fun m hm => hes m (by simp [hm]))
      cases e <;>
        simp_all [dispatchErrorCaseView, Stmt.resolvesList, Stmt.resolves, GoTy.resolves, Member.name]
  simp [dispatchErrorView, resolves_func, resolves_param, res_error tn pn, res_errorResult tn pn,
    Stmt.resolvesList, Stmt.resolves, this errors hn]



/-! ## the file -/

theorem mem_typeNames {f : GoFile} {d : Decl} {n : Bytes} (hd : d ∈ f.decls) (hn : d.typeName? = some n) :
    n ∈ f.typeNames :=
  List.mem_filterMap.mpr ⟨d, hd, hn⟩

/-- **namesResolve**: every type name of the emitted file is predeclared or declared, every package imported -/
theorem namesResolve_genFile (t : Idl) (f : GoFile) (hm : ∀ m ∈ t.members, MemberGood m)
    (hrefs : refsResolve t = true) (hf : genFile t = some f) : namesResolve f = true := by
  have hin := importNames_eq t f hf
  obtain ⟨body, aliases, errors, clients, ifaceMethods, errorReplies, methodReplies, dummies, cases,
    _, e1, e2, e3, e4, e5, e6, e7, e8, hfeq⟩ := genFile_inv hf
  have hd : f.decls = aliases ++ errors ++ [dispatchErrorView t.name t.errors] ++ clients
      ++ [.iface (pkgName t.name ++ str "Interface") ifaceMethods,
          .type (str "VarlinkCall") (.struct (param [] (.qual (str "varlink") (str "Call"))))]
      ++ errorReplies ++ methodReplies ++ dummies
      ++ [.func (mkFunc varlinkIfaceRecv (str "VarlinkDispatch")
            (ctxParam.append ((param (str "call") (.qual (str "varlink") (str "Call"))).append
              (param (str "methodname") (tName "string"))))
            errorResult (cases ++ [.caseBlock none []])),
          .func (mkFunc varlinkIfaceRecv (str "VarlinkGetName") .nil (param [] (tName "string"))
            [.retString t.name]),
          .func (mkFunc varlinkIfaceRecv (str "VarlinkGetDescription") .nil (param [] (tName "string"))
            [.retString (descriptionValue t.description)]),
          .type (str "VarlinkInterface") (.struct (param [] (.name (pkgName t.name ++ str "Interface")))),
          .func (mkFunc none (str "VarlinkNew") (param (str "m") (.name (pkgName t.name ++ str "Interface")))
            (param [] (.ptr (tName "VarlinkInterface"))) [])] := by
    rw [hfeq]; rfl
  -- declared type names
  have hA : ∀ m ∈ t.aliases, m.name ∈ f.typeNames := by
    intro m hm'
    obtain ⟨x, hx, hsub⟩ := concatOptL_mem_ex (aliasView t) _ _ e1 m hm'
    have ha := (List.mem_filter.mp hm').2
    cases m with
    | alias n d ty =>
      simp only [aliasView, Option.map_eq_some_iff] at hx
      obtain ⟨g, _, rfl⟩ := hx
      have hmem := hsub _ (List.mem_singleton.mpr rfl)
      refine mem_typeNames (d := if resolvesToObject t ty then .alias n g else .type n g) ?_ ?_
      · rw [hd]; simp [hmem]
      · cases resolvesToObject t ty <;> rfl
    | method => simp [Member.isAlias] at ha
    | error => simp [Member.isAlias] at ha
  have hE : ∀ m ∈ t.errors, m.name ∈ f.typeNames := by
    intro m hm'
    obtain ⟨x, hx, hsub⟩ := concatOptL_mem_ex errorView _ _ e2 m hm'
    have ha := (List.mem_filter.mp hm').2
    cases m with
    | error n d oty =>
      simp only [errorView, Option.map_eq_some_iff] at hx
      obtain ⟨g, _, rfl⟩ := hx
      have hmem := hsub (.type n g) (by simp)
      exact mem_typeNames (d := .type n g) (by rw [hd]; simp [hmem]) rfl
    | method => simp [Member.isError] at ha
    | alias => simp [Member.isError] at ha
  have hM : ∀ m ∈ t.methods, m.name ++ str "_methods" ∈ f.typeNames := by
    intro m hm'
    obtain ⟨x, hx, hsub⟩ := concatOptL_mem_ex (methodClientView t.name) _ _ e3 m hm'
    have ha := (List.mem_filter.mp hm').2
    cases m with
    | method n d i o =>
      simp only [methodClientView] at hx
      split at hx
      · injection hx with hx; subst hx
        have hmem := hsub (.type (n ++ str "_methods") (.struct .nil)) (by simp)
        exact mem_typeNames (d := .type (n ++ str "_methods") (.struct .nil)) (by rw [hd]; simp [hmem]) rfl
      · exact absurd hx (by simp)
    | error => simp [Member.isMethod] at ha
    | alias => simp [Member.isMethod] at ha
  have hVC : str "VarlinkCall" ∈ f.typeNames :=
    mem_typeNames (d := .type (str "VarlinkCall") (.struct (param [] (.qual (str "varlink") (str "Call")))))
      (by rw [hd]; simp) rfl
  have hVI : str "VarlinkInterface" ∈ f.typeNames :=
    mem_typeNames (d := .type (str "VarlinkInterface") (.struct (param [] (.name (pkgName t.name ++ str "Interface")))))
      (by rw [hd]; simp) rfl
  have hPI : pkgName t.name ++ str "Interface" ∈ f.typeNames :=
    mem_typeNames (d := .iface (pkgName t.name ++ str "Interface") ifaceMethods) (by rw [hd]; simp) rfl
  -- the context
  have hc : ResCtx (aliasNames t) f.typeNames f.importNames := by
    refine ⟨?_, by rw [hin]; simp, by rw [hin]; simp, hVC⟩
    intro n hn
    obtain ⟨m, hm', rfl⟩ := List.mem_map.mp hn
    exact hA m hm'
  have hres : ∀ m ∈ t.members, MemberRes (aliasNames t) f.importNames m := by
    intro m hm'
    simp only [refsResolve, List.all_eq_true] at hrefs
    refine ⟨fun ty hty => hrefs m hm' ty hty, fun hu => ?_⟩
    have : usesJson t = true := List.any_eq_true.mpr ⟨m, hm', hu⟩
    rw [hin, this]; simp
  have sub : ∀ (p : Member → Bool), ∀ m ∈ t.members.filter p, MemberGood m ∧ MemberRes (aliasNames t) f.importNames m :=
    fun p m hm' => ⟨hm m (List.mem_filter.mp hm').1, hres m (List.mem_filter.mp hm').1⟩
  show f.decls.all (Decl.resolves f.typeNames f.importNames) = true
  generalize f.typeNames = tn at *
  generalize f.importNames = pn at *
  have a1 := concatOptL_all (aliasView t) (Decl.resolves tn pn) _ _
    (fun m hm' x hx => aliasView_resolves hc t m (sub _ m hm').2 x hx) e1
  have a2 := concatOptL_all errorView (Decl.resolves tn pn) _ _
    (fun m hm' x hx => errorView_resolves hc m (sub _ m hm').1 (sub _ m hm').2 x hx) e2
  have a3 := concatOptL_all (methodClientView t.name) (Decl.resolves tn pn) _ _
    (fun m hm' x hx => methodClientView_resolves hc _ m (sub _ m hm').1 (sub _ m hm').2 (hM m hm') x hx) e3
  have a4 := concatOptL_all ifaceMethodView _ _ _
    (fun m hm' x hx => ifaceMethodView_resolves hc m (sub _ m hm').1 (sub _ m hm').2 x hx) e4
  have a5 := concatOptL_all (errorReplyView t.name) (Decl.resolves tn pn) _ _
    (fun m hm' x hx => errorReplyView_resolves hc _ m (sub _ m hm').1 (sub _ m hm').2 (hE m hm') x hx) e5
  have a6 := concatOptL_all methodReplyView (Decl.resolves tn pn) _ _
    (fun m hm' x hx => methodReplyView_resolves hc m (sub _ m hm').1 (sub _ m hm').2 x hx) e6
  have a7 := concatOptL_all (dummyView t.name) (Decl.resolves tn pn) _ _
    (fun m hm' x hx => dummyView_resolves hc _ m (sub _ m hm').1 (sub _ m hm').2 x hx) e7
  have a8 := concatOptL_all (dispatchCaseView (pkgName t.name)) (Stmt.resolves tn pn) _ _
    (fun m hm' x hx => dispatchCaseView_resolves hc _ m (sub _ m hm').1 (sub _ m hm').2 x hx) e8
  have a8' := resolvesList_of_all tn pn _ a8
  have a0 := dispatchErrorView_resolves tn pn t.name t.errors hE
  have resolves_iface : ∀ n ms, Decl.resolves tn pn (.iface n ms)
      = ms.all fun m => m.params.resolves tn pn && m.results.resolves tn pn := fun _ _ => rfl
  have hs : str "string" ∈ predeclaredTypes := by decide
  simp only [hd, List.all_append, List.all_cons, List.all_nil, Bool.and_true, a0, a1, a2, a3, a5,
    a6, a7, Bool.true_and]
  simp [resolves_func, resolves_type, resolves_iface, a4, GoTy.resolves, GoFields.resolves, resolves_append,
    resolves_param, res_ctxParam hc, res_errorResult tn pn, hc.varlink, hs,
    Stmt.resolvesList, Stmt.resolves, resolvesList_append, a8', hPI, hVI, tName]

end Varlink.Gen
