import Varlink.Basic
namespace Varlink

theorem lastIndexOf_none_iff (c : UInt8) (s : Bytes) : lastIndexOf c s = none ↔ c ∉ s := by
  induction s with
  | nil => simp [lastIndexOf]
  | cons x xs ih =>
    unfold lastIndexOf
    cases h : lastIndexOf c xs with
    | some i =>
      have : ¬ (c ∉ xs) := fun hn => by rw [ih.mpr hn] at h; cases h
      simp at this
      simp [this]
    | none =>
      have hn := ih.mp h
      by_cases hx : x = c
      · simp [hx]
      · simp [hx, hn]; exact fun h => hx h.symm

/-- the index returned splits the string at its last occurrence of `c` -/
theorem lastIndexOf_some {c : UInt8} {s : Bytes} {i : Nat} (h : lastIndexOf c s = some i) :
    s = s.take i ++ c :: s.drop (i + 1) ∧ c ∉ s.drop (i + 1) ∧ i < s.length := by
  induction s generalizing i with
  | nil => simp [lastIndexOf] at h
  | cons x xs ih =>
    unfold lastIndexOf at h
    cases h' : lastIndexOf c xs with
    | some j =>
      rw [h'] at h
      simp at h
      subst h
      have := ih h'
      refine ⟨?_, ?_, ?_⟩
      · simp; exact this.1
      · simpa using this.2.1
      · simp; exact this.2.2
    | none =>
      rw [h'] at h
      by_cases hx : x = c
      · simp [hx] at h
        subst h
        have hn := (lastIndexOf_none_iff c xs).mp h'
        subst hx
        simp [hn]
      · simp [hx] at h

/-- conversely, a decomposition at a last occurrence determines the index -/
theorem lastIndexOf_of_split (c : UInt8) (a b : Bytes) (hb : c ∉ b) :
    lastIndexOf c (a ++ c :: b) = some a.length := by
  induction a with
  | nil =>
    simp [lastIndexOf, (lastIndexOf_none_iff c b).mpr hb]
  | cons x xs ih =>
    simp [lastIndexOf, ih]

theorem take_append_length {α} (a b : List α) : (a ++ b).take a.length = a := by simp
theorem drop_append_length_succ {α} (a : List α) (c : α) (b : List α) :
    (a ++ c :: b).drop (a.length + 1) = b := by
  induction a with
  | nil => simp
  | cons x xs ih => simpa using ih

end Varlink
