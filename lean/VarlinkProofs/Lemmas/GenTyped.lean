/-
  `typedOk` for the generator's view: the copies between the tagged structs (`in`, `out`) and the untagged
  parameters and results are assignments between identical types or conversions between types that are
  identical ignoring struct tags (used by VarlinkProofs/Props/C07.lean).
-/
import VarlinkProofs.Lemmas.GenScope
namespace Varlink.Gen
open Varlink Varlink.Idl

/-! ## identical types, identical ignoring tags -/

mutual
theorem GoTy.beq_refl : ∀ t : GoTy, t.beq t = true
  | .name _ => by simp [GoTy.beq]
  | .qual _ _ => by simp [GoTy.beq]
  | .ptr t => by simp [GoTy.beq, GoTy.beq_refl t]
  | .slice t => by simp [GoTy.beq, GoTy.beq_refl t]
  | .map t => by simp [GoTy.beq, GoTy.beq_refl t]
  | .struct fs => by simp [GoTy.beq, GoFields.beq_refl fs]
  | .func p r => by simp [GoTy.beq, GoFields.beq_refl p, GoFields.beq_refl r]
theorem GoFields.beq_refl : ∀ fs : GoFields, fs.beq fs = true
  | .nil => rfl
  | .cons _ t _ r => by simp [GoFields.beq, GoTy.beq_refl t, GoFields.beq_refl r]
end

mutual
/-- **the tagged and the untagged rendering of a type are identical ignoring struct tags, at every depth** -/
theorem goTy_beqNoTags : ∀ (t : Ty) (a b : GoTy), goTy t true = some a → goTy t false = some b →
    a.beqNoTags b = true ∧ b.beqNoTags a = true
  | .bool, a, b, ha, hb => by simp [goTy] at ha hb; subst ha hb; simp [GoTy.beqNoTags]
  | .int, a, b, ha, hb => by simp [goTy] at ha hb; subst ha hb; simp [GoTy.beqNoTags]
  | .float, a, b, ha, hb => by simp [goTy] at ha hb; subst ha hb; simp [GoTy.beqNoTags]
  | .string, a, b, ha, hb => by simp [goTy] at ha hb; subst ha hb; simp [GoTy.beqNoTags]
  | .object, a, b, ha, hb => by simp [goTy] at ha hb; subst ha hb; simp [GoTy.beqNoTags]
  | .named _, a, b, ha, hb => by simp [goTy] at ha hb; subst ha hb; simp [GoTy.beqNoTags]
  | .enum _, a, b, ha, hb => by simp [goTy] at ha hb; subst ha hb; simp [GoTy.beqNoTags]
  | .maybe t, a, b, ha, hb => by
    simp only [goTy, Option.map_eq_some_iff] at ha hb
    obtain ⟨a', ha', rfl⟩ := ha
    obtain ⟨b', hb', rfl⟩ := hb
    simpa [GoTy.beqNoTags] using goTy_beqNoTags t a' b' ha' hb'
  | .array t, a, b, ha, hb => by
    simp only [goTy, Option.map_eq_some_iff] at ha hb
    obtain ⟨a', ha', rfl⟩ := ha
    obtain ⟨b', hb', rfl⟩ := hb
    simpa [GoTy.beqNoTags] using goTy_beqNoTags t a' b' ha' hb'
  | .map t, a, b, ha, hb => by
    simp only [goTy, Option.map_eq_some_iff] at ha hb
    obtain ⟨a', ha', rfl⟩ := ha
    obtain ⟨b', hb', rfl⟩ := hb
    simpa [GoTy.beqNoTags] using goTy_beqNoTags t a' b' ha' hb'
  | .struct fs, a, b, ha, hb => by
    simp only [goTy, Option.map_eq_some_iff] at ha hb
    obtain ⟨a', ha', rfl⟩ := ha
    obtain ⟨b', hb', rfl⟩ := hb
    simpa [GoTy.beqNoTags] using goFields_beqNoTags fs a' b' ha' hb'
theorem goFields_beqNoTags : ∀ (fs : Fields) (a b : GoFields), goFields fs true = some a → goFields fs false = some b →
    a.beqNoTags b = true ∧ b.beqNoTags a = true
  | .nil, a, b, ha, hb => by simp [goFields] at ha hb; subst ha hb; simp [GoFields.beqNoTags]
  | .bare _ _, a, b, ha, _ => by simp [goFields] at ha
  | .typed n t r, a, b, ha, hb => by
    simp only [goFields] at ha hb
    split at ha
    · rename_i a1 a2 h1 h2
      split at hb
      · rename_i b1 b2 g1 g2
        injection ha with ha; injection hb with hb; subst ha hb
        have i1 := goTy_beqNoTags t a1 b1 h1 g1
        have i2 := goFields_beqNoTags r a2 b2 h2 g2
        simp [GoFields.beqNoTags, i1, i2]
      · exact absurd hb (by simp)
    · exact absurd ha (by simp)
end

/-- types that are copied without a conversion have the same tagged and untagged rendering -/
theorem goTy_plain_eq (t : Ty) (a b : GoTy) (hk : convKind t = .plain) (ha : goTy t true = some a)
    (hb : goTy t false = some b) : a = b := by
  cases t <;> simp [convKind] at hk <;> simp [goTy] at ha hb <;> rw [← ha, ← hb]

/-- a converted type is a pointer type exactly when the conversion is parenthesised -/
theorem goTy_isPtr (t : Ty) (j : Bool) (a : GoTy) (ha : goTy t j = some a) :
    isPtrTy a = (convKind t == .convParen) := by
  cases t <;> simp only [goTy, Option.map_eq_some_iff, Option.some.injEq] at ha
  all_goals first
    | (subst ha; rfl)
    | (obtain ⟨x, _, rfl⟩ := ha; rfl)

/-- no description type is rendered as the marker for untyped locals -/
theorem goTy_ne_unknown (t : Ty) (j : Bool) (a : GoTy) (ha : goTy t j = some a) : a.beq unknownTy = false := by
  cases t <;> simp only [goTy, Option.map_eq_some_iff, Option.some.injEq] at ha
  all_goals first
    | (subst ha; simp [GoTy.beq, unknownTy]; try decide)
    | (obtain ⟨x, _, rfl⟩ := ha; rfl)


/-- the typed entries of a field list -/
def typedList : Fields → List (Bytes × Ty)
  | .nil => []
  | .typed n t r => (n, t) :: typedList r
  | .bare _ r => typedList r

/-! ## looking up fields and parameters -/

theorem typedList_name_mem : ∀ (fs : Fields) (n : Bytes) (t : Ty), (n, t) ∈ typedList fs → n ∈ fs.names
  | .nil, n, t, h => by simp [typedList] at h
  | .typed x y z, n, t, h => by
    simp only [typedList, List.mem_cons, Prod.mk.injEq] at h
    rcases h with ⟨rfl, _⟩ | h
    · simp [Fields.names]
    · simp [Fields.names, typedList_name_mem z n t h]
  | .bare x z, n, t, h => by simp [Fields.names, typedList_name_mem z n t (by simpa [typedList] using h)]

/-- every field of the tagged struct is found under its Go name with its tagged type -/
theorem fieldType_goFields : ∀ (fs : Fields) (g : GoFields), FieldsGood fs → goFields fs true = some g →
    ∀ n t, (n, t) ∈ typedList fs → ∃ a, goTy t true = some a ∧ fieldType (title n) g = some a
  | .nil, _, _, _, n, t, hm => by simp [typedList] at hm
  | .bare _ _, g, _, h, _, _, _ => by simp [goFields] at h
  | .typed m u r, g, hg, h, n, t, hm => by
    simp only [goFields] at h
    split at h
    · rename_i a b ha hb
      injection h with h; subst h
      obtain ⟨hshape, _, _, hnot⟩ := hg.head
      have hne : (title m).isEmpty = false := title_ne_nil m hshape
      simp only [typedList, List.mem_cons, Prod.mk.injEq] at hm
      rcases hm with ⟨rfl, rfl⟩ | hm
      · exact ⟨a, ha, by simp [fieldType, hne]⟩
      · obtain ⟨a', ha', hf⟩ := fieldType_goFields r b hg.tail hb n t hm
        refine ⟨a', ha', ?_⟩
        have hn_in : n ∈ r.names := typedList_name_mem r n t hm
        have hshape_n : fieldNameShape n = true := fsNamesOk_names r hg.tail.names n hn_in
        have : title m ≠ title n := by
          intro e
          have := title_inj m n hshape hshape_n e
          exact hnot (this ▸ hn_in)
        simp [fieldType, hne, this, hf]
    · exact absurd h (by simp)

/-- every parameter `<field><suffix>` is found in the parameter list with the untagged type of the field -/
theorem envLookup_paramFields (s : Bytes) : ∀ (fs : Fields) (ps : GoFields), FieldsGood fs →
    paramFields s fs = some ps →
    ∀ n t, (n, t) ∈ typedList fs → ∃ b, goTy t false = some b ∧ envLookup (n ++ s) ps.toEnv = some b
  | .nil, _, _, _, n, t, hm => by simp [typedList] at hm
  | .bare _ _, g, _, h, _, _, _ => by simp [paramFields] at h
  | .typed m u r, g, hg, h, n, t, hm => by
    simp only [paramFields] at h
    split at h
    · rename_i a b ha hb
      injection h with h; subst h
      obtain ⟨hshape, _, _, hnot⟩ := hg.head
      have hne : (m ++ s).isEmpty = false := by
        cases m with
        | nil => simp [fieldNameShape] at hshape
        | cons c r => rfl
      simp only [typedList, List.mem_cons, Prod.mk.injEq] at hm
      rcases hm with ⟨rfl, rfl⟩ | hm
      · exact ⟨a, ha, by simp [GoFields.toEnv, hne, envLookup]⟩
      · obtain ⟨b', hb', hf⟩ := envLookup_paramFields s r b hg.tail hb n t hm
        refine ⟨b', hb', ?_⟩
        have hn_in : n ∈ r.names := typedList_name_mem r n t hm
        have : m ++ s ≠ n ++ s := by
          intro e
          exact hnot (List.append_cancel_right e ▸ hn_in)
        simp [GoFields.toEnv, hne, envLookup, this, hf]
    · exact absurd h (by simp)

theorem typed_set (decls : List Decl) (env : Env) (l r : Expr) (rest : List Stmt) :
    typedStmts decls env (.set l r :: rest) =
      (assignable (typeOf decls env l) (typeOf decls env r) && typedStmts decls env rest) := by
  simp [typedStmts]

theorem typeOf_ident (decls : List Decl) (env : Env) (n : Bytes) (b : GoTy) (h : envLookup n env = some b)
    (hu : b.beq unknownTy = false) : typeOf decls env (.ident n) = some b := by
  simp [typeOf, h, hu]

theorem typeOf_sel (decls : List Decl) (env : Env) (x f : Bytes) (T a : GoTy) (gfs : GoFields)
    (h1 : envLookup x env = some T) (h2 : structFieldsOf decls T = some gfs) (h3 : fieldType f gfs = some a) :
    typeOf decls env (.sel x f) = some a := by
  simp [typeOf, h1, h2, h3]

theorem typeOf_conv (decls : List Decl) (env : Env) (ty te : GoTy) (paren : Bool) (e : Expr)
    (h1 : typeOf decls env e = some te) (h2 : ty.beqNoTags te = true) (h3 : isPtrTy ty = paren) :
    typeOf decls env (.conv ty paren e) = some ty := by
  cases paren <;> simp [typeOf, h1, h2, h3]

/-- the facts about one function body in which a tagged struct `dst` is filled from / read into untagged
    variables `<field><suffix>` -/
structure CopyCtx (decls : List Decl) (env : Env) (dst s : Bytes) (fsAll : Fields) : Prop where
  dstTy : ∃ T gfs, envLookup dst env = some T ∧ structFieldsOf decls T = some gfs ∧
    ∀ n t, (n, t) ∈ typedList fsAll → ∃ a, goTy t true = some a ∧ fieldType (title n) gfs = some a
  vars : ∀ n t, (n, t) ∈ typedList fsAll → ∃ b, goTy t false = some b ∧ envLookup (n ++ s) env = some b

theorem copyInStmts_typed (decls : List Decl) (env : Env) (dst s : Bytes) (fsAll : Fields)
    (hc : CopyCtx decls env dst s fsAll) : ∀ (fs : Fields) (l rest : List Stmt),
    (∀ x ∈ typedList fs, x ∈ typedList fsAll) → copyInStmts dst s fs = some l →
    typedStmts decls env (l ++ rest) = typedStmts decls env rest
  | .nil, l, rest, _, h => by simp [copyInStmts] at h; subst h; rfl
  | .bare _ _, l, rest, _, h => by simp [copyInStmts] at h
  | .typed n t r, l, rest, hsub, h => by
    simp only [copyInStmts] at h
    split at h
    · rename_i a cs ha hcs
      injection h with h; subst h
      obtain ⟨T, gfs, hT, hS, hF⟩ := hc.dstTy
      have hmem : (n, t) ∈ typedList fsAll := hsub _ (by simp [typedList])
      obtain ⟨a', ha', hfa⟩ := hF n t hmem
      obtain ⟨b, hb, hvb⟩ := hc.vars n t hmem
      rw [ha] at ha'; injection ha' with ha'; subst ha'
      have ih := copyInStmts_typed decls env dst s fsAll hc r cs rest
        (fun x hx => hsub x (by simp [typedList, hx])) hcs
      have tl := typeOf_sel decls env dst (title n) T a gfs hT hS hfa
      have ti := typeOf_ident decls env (n ++ s) b hvb (goTy_ne_unknown t false b hb)
      rw [List.cons_append, typed_set, ih, tl]
      cases hk : convKind t
      · have tc := typeOf_conv decls env a b false _ ti (goTy_beqNoTags t a b ha hb).1
          (by rw [goTy_isPtr t true a ha, hk]; rfl)
        simp [tc, assignable, GoTy.beq_refl]
      · have tc := typeOf_conv decls env a b true _ ti (goTy_beqNoTags t a b ha hb).1
          (by rw [goTy_isPtr t true a ha, hk]; rfl)
        simp [tc, assignable, GoTy.beq_refl]
      · have := goTy_plain_eq t a b hk ha hb
        subst this
        simp [ti, assignable, GoTy.beq_refl]
    · exact absurd h (by simp)

theorem copyOutStmts_typed (decls : List Decl) (env : Env) (fsAll : Fields)
    (hc : CopyCtx decls env (str "out") (str "_out_") fsAll) : ∀ (fs : Fields) (l rest : List Stmt),
    (∀ x ∈ typedList fs, x ∈ typedList fsAll) → copyOutStmts fs = some l →
    typedStmts decls env (l ++ rest) = typedStmts decls env rest
  | .nil, l, rest, _, h => by simp [copyOutStmts] at h; subst h; rfl
  | .bare _ _, l, rest, _, h => by simp [copyOutStmts] at h
  | .typed n t r, l, rest, hsub, h => by
    simp only [copyOutStmts] at h
    split at h
    · rename_i b cs hb hcs
      injection h with h; subst h
      obtain ⟨T, gfs, hT, hS, hF⟩ := hc.dstTy
      have hmem : (n, t) ∈ typedList fsAll := hsub _ (by simp [typedList])
      obtain ⟨a, ha, hfa⟩ := hF n t hmem
      obtain ⟨b', hb', hvb⟩ := hc.vars n t hmem
      rw [hb] at hb'; injection hb' with hb'; subst hb'
      have ih := copyOutStmts_typed decls env fsAll hc r cs rest
        (fun x hx => hsub x (by simp [typedList, hx])) hcs
      have ts := typeOf_sel decls env (str "out") (title n) T a gfs hT hS hfa
      have ti := typeOf_ident decls env (n ++ str "_out_") b hvb (goTy_ne_unknown t false b hb)
      rw [List.cons_append, typed_set, ih, ti]
      cases hk : convKind t
      · have tc := typeOf_conv decls env b a false _ ts (goTy_beqNoTags t a b ha hb).2
          (by rw [goTy_isPtr t false b hb, hk]; rfl)
        simp [tc, assignable, GoTy.beq_refl]
      · have tc := typeOf_conv decls env b a true _ ts (goTy_beqNoTags t a b ha hb).2
          (by rw [goTy_isPtr t false b hb, hk]; rfl)
        simp [tc, assignable, GoTy.beq_refl]
      · have := goTy_plain_eq t a b hk ha hb
        subst this
        simp [ts, assignable, GoTy.beq_refl]
    · exact absurd h (by simp)


end Varlink.Gen
