/-
  Totality of the IDL parser model (property C09): a small Hoare logic over `Out`, the state invariant `WF`
  and one lemma per reader of `Varlink/Idl/Parser.lean`.
-/
import Varlink.Idl.Parser
namespace Varlink.Idl
open Varlink

/-- `o.Sat P`: `o` is neither a panic nor out of fuel, and if it is a result, the result satisfies `P` -/
def Out.Sat {α} (o : Out α) (P : α → Prop) : Prop :=
  match o with
  | .ok a => P a
  | .err _ => True
  | .panic => False
  | .outOfFuel => False

theorem Out.Sat.bind {α β} {o : Out α} {f : α → Out β} {P : α → Prop} {Q : β → Prop}
    (h : o.Sat P) (hf : ∀ a, P a → (f a).Sat Q) : (o >>= f).Sat Q := by
  cases o with
  | ok a => exact hf a h
  | err e => trivial
  | panic => exact h
  | outOfFuel => exact h

theorem Out.Sat.mono {α} {o : Out α} {P Q : α → Prop} (h : o.Sat P) (hpq : ∀ a, P a → Q a) : o.Sat Q := by
  cases o with
  | ok a => exact hpq a h
  | err e => trivial
  | panic => exact h
  | outOfFuel => exact h

theorem Out.Sat.ne_panic {α} {o : Out α} {P : α → Prop} (h : o.Sat P) : o ≠ .panic ∧ o ≠ .outOfFuel := by
  cases o <;> simp_all [Out.Sat]

@[simp] theorem Out.sat_ok {α} (a : α) (P : α → Prop) : (Out.ok a).Sat P = P a := rfl
@[simp] theorem Out.sat_err {α} (e : PErr) (P : α → Prop) : (Out.err e : Out α).Sat P = True := rfl
@[simp] theorem Out.sat_pure {α} (a : α) (P : α → Prop) : (pure a : Out α).Sat P = P a := rfl

/-- the state invariant at every reader entry: `rest` is the input from `pos` on (so `pos ≤ len`), and the
    current line starts at or before the cursor -/
def WF (s : St) : Prop := s.rest.length + s.pos = s.len ∧ s.lineStart ≤ s.pos

/-- `s'` is a later state of the same parse -/
def Step (s s' : St) : Prop := WF s' ∧ s'.len = s.len ∧ s.pos ≤ s'.pos

theorem Step.refl {s : St} (h : WF s) : Step s s := ⟨h, rfl, Nat.le_refl _⟩

theorem Step.trans {a b c : St} (h1 : Step a b) (h2 : Step b c) : Step a c :=
  ⟨h2.1, h2.2.1.trans h1.2.1, Nat.le_trans h1.2.2 h2.2.2⟩

theorem Step.rest_le {s s' : St} (hs : WF s) (h : Step s s') : s'.rest.length ≤ s.rest.length := by
  have := h.1.1; have := hs.1; have := h.2.1; have := h.2.2; omega

theorem Step.rest_lt {s s' : St} (hs : WF s) (h : Step s s') (hp : s.pos < s'.pos) :
    s'.rest.length < s.rest.length := by
  have := h.1.1; have := hs.1; have := h.2.1; omega

theorem WF.rest_le_len {s : St} (h : WF s) : s.rest.length ≤ s.len := by have := h.1; omega

/-! ### next -/

theorem next_some {s : St} {c : UInt8} {s1 : St} (hs : WF s) (h : next s = (some c, s1)) :
    Step s s1 ∧ s1.pos = s.pos + 1 ∧ s.rest = c :: s1.rest ∧ s1.lineStart = s.lineStart := by
  unfold next at h
  cases hr : s.rest with
  | nil => rw [hr] at h; simp at h
  | cons x r =>
    rw [hr] at h; simp at h
    obtain ⟨rfl, rfl⟩ := h
    obtain ⟨h1, h2⟩ := hs
    rw [hr] at h1
    refine ⟨⟨⟨?_, ?_⟩, rfl, ?_⟩, rfl, rfl, rfl⟩ <;> simp at * <;> omega

theorem next_none {s : St} {s1 : St} (h : next s = (none, s1)) :
    s.rest = [] ∧ s1.pos = s.pos + 1 ∧ s1.len = s.len := by
  unfold next at h
  cases hr : s.rest with
  | nil => rw [hr] at h; simp at h; subst h; simp
  | cons x r => rw [hr] at h; simp at h

theorem next_pos (s : St) : (next s).2.pos = s.pos + 1 ∧ (next s).2.len = s.len := by
  unfold next; cases s.rest <;> simp

/-! ### scan -/

theorem scan_sat (p : UInt8 → Bool) : ∀ (f : Nat) (s : St), WF s → s.rest.length < f →
    (scan p f s).Sat (fun s' => Step s s') := by
  intro f
  induction f with
  | zero => intro s _ h; omega
  | succ f ih =>
    intro s hs hf
    unfold scan
    rcases hn : next s with ⟨c, s1⟩
    cases c with
    | none => simp only; exact Step.refl hs
    | some c =>
      simp only
      obtain ⟨hst, hp, hr, _⟩ := next_some hs hn
      split
      · have hlt : s1.rest.length < f := by rw [hr] at hf; simp at hf; omega
        exact (ih s1 hst.1 hlt).mono (fun a ha => hst.trans ha)
      · exact Step.refl hs

/-! ### advance -/

theorem WF.setLine {s : St} (h : WF s) (l : Bytes) (lc : Bytes) :
    WF { s with lineStart := s.pos, line := l, lastComment := lc } := ⟨h.1, Nat.le_refl _⟩

theorem skipOneSpace_step {s : St} (hs : WF s) : Step s (skipOneSpace s) := by
  unfold skipOneSpace
  rcases hn : next s with ⟨c, s1⟩
  cases c with
  | none => exact Step.refl hs
  | some c =>
    simp only
    split
    · exact (next_some hs hn).1
    · exact Step.refl hs

theorem closeComment_sat {s4 : St} (hw4 : WF s4) : (closeComment s4).Sat (fun s' => Step s4 s') := by
  unfold closeComment
  rcases hn : next s4 with ⟨c, s5⟩
  cases c with
  | none => exact Step.refl hw4
  | some c =>
    simp only
    have h5 := (next_some hw4 hn).1
    split
    · exact ⟨h5.1.setLine _ _, h5.2.1, h5.2.2⟩
    · exact Step.refl hw4

theorem closeComment_sat' {s3 : St} (hw : WF s3) (lc : Bytes) :
    (closeComment { s3 with lastComment := lc }).Sat (fun s' => Step s3 s') :=
  (closeComment_sat (s4 := { s3 with lastComment := lc }) ⟨hw.1, hw.2⟩).mono (fun _ ha => ⟨ha.1, ha.2.1, ha.2.2⟩)

theorem appendDoc_sat {s2 s3 : St} (h23 : Step s2 s3) : (appendDoc s2 s3).Sat (fun s' => Step s3 s') := by
  unfold appendDoc
  obtain ⟨⟨h1, h2⟩, h3, h4⟩ := h23
  have hle : s3.pos ≤ s3.len := by omega
  rw [if_neg (by simp; omega)]
  rw [if_neg (by simp [sliceOk, commentEnd]; split <;> omega)]
  exact closeComment_sat' ⟨h1, h2⟩ _

theorem comment_sat {s s1 : St} (hs : WF s) (h1 : Step s s1) (hp : s1.pos = s.pos + 1)
    (hl : s1.lineStart = s.lineStart) :
    (comment s s1).Sat (fun s' => Step s1 s') := by
  unfold comment
  rw [if_neg (by
    simp [sliceOk]
    have := h1.1.1; have := h1.1.2; have := hs.2; have := h1.2.1; omega)]
  have h2 := skipOneSpace_step h1.1
  have hsc := scan_sat isNotNl ((skipOneSpace s1).len + 1) (skipOneSpace s1) h2.1
    (by have := h2.1.rest_le_len; omega)
  cases hscan : scan isNotNl ((skipOneSpace s1).len + 1) (skipOneSpace s1) with
  | ok s3 =>
    rw [hscan] at hsc
    simp only
    split
    · exact h2.trans hsc
    · exact (appendDoc_sat hsc).mono (fun a ha => (h2.trans hsc).trans ha)
  | err e => trivial
  | panic => rw [hscan] at hsc; exact hsc
  | outOfFuel => rw [hscan] at hsc; exact hsc

theorem advanceLoop_sat : ∀ (f : Nat) (s : St), WF s → s.rest.length < f →
    (advanceLoop f s).Sat (fun s' => Step s s') := by
  intro f
  induction f with
  | zero => intro s _ h; omega
  | succ f ih =>
    intro s hs hf
    unfold advanceLoop
    rcases hn : next s with ⟨c, s1⟩
    cases c with
    | none => exact Step.refl hs
    | some c =>
      obtain ⟨hst, hp, hr, hl⟩ := next_some hs hn
      have hlt : s1.rest.length < f := by rw [hr] at hf; simp at hf; omega
      simp only
      split
      · -- newline
        refine (ih _ (hst.1.setLine _ _) hlt).mono (fun a ha => ?_)
        exact ⟨ha.1, ha.2.1.trans hst.2.1, Nat.le_trans hst.2.2 ha.2.2⟩
      · split
        · exact (ih s1 hst.1 hlt).mono (fun a ha => hst.trans ha)
        · split
          · -- comment
            have hc := comment_sat hs hst hp hl
            cases hcm : comment s s1 with
            | ok s2 =>
              rw [hcm] at hc
              simp only
              have : s2.rest.length < f := by have := hc.rest_le hst.1; omega
              exact (ih s2 hc.1 this).mono (fun a ha => (hst.trans hc).trans ha)
            | err e => trivial
            | panic => rw [hcm] at hc; exact hc
            | outOfFuel => rw [hcm] at hc; exact hc
          · exact Step.refl hs

theorem advance_sat {s : St} (hs : WF s) : (advance s).Sat (fun s' => Step s s') :=
  advanceLoop_sat _ s hs (by have := hs.rest_le_len; omega)

/-! ### token readers -/

/-- postcondition of the token readers: a later state; a non-empty token means progress -/
def TokPost (s : St) (r : Bytes × St) : Prop := Step s r.2 ∧ (r.1 ≠ [] → s.pos < r.2.pos)

theorem sliceFrom_sat {s s' : St} (h : Step s s') : (sliceFrom s s').Sat (TokPost s) := by
  unfold sliceFrom
  have := h.1.1; have := h.2.2
  rw [if_pos (by simp [sliceOk]; omega)]
  refine ⟨h, fun hne => ?_⟩
  simp only [consumed] at hne
  rcases Nat.lt_or_ge s.pos s'.pos with hlt | hge
  · exact hlt
  · have : s'.pos - s.pos = 0 := by omega
    rw [this] at hne; simp at hne

theorem readKeyword_sat {s : St} (hs : WF s) : (readKeyword s).Sat (TokPost s) := by
  unfold readKeyword
  exact (scan_sat _ _ s hs (by have := hs.rest_le_len; omega)).bind (fun s1 h1 => sliceFrom_sat h1)

theorem TokPost.refl {s : St} (hs : WF s) : TokPost s ([], s) := ⟨Step.refl hs, fun h => absurd rfl h⟩

theorem readFieldName_sat {s : St} (hs : WF s) : (readFieldName s).Sat (TokPost s) := by
  unfold readFieldName
  rcases hn : next s with ⟨c, s1⟩
  cases c with
  | none => exact TokPost.refl hs
  | some c =>
    simp only
    obtain ⟨hst, hp, hr, _⟩ := next_some hs hn
    split
    · exact TokPost.refl hs
    · refine (scan_sat _ _ s1 hst.1 (by have := hst.1.rest_le_len; omega)).bind (fun s2 h2 => ?_)
      exact sliceFrom_sat (hst.trans h2)

theorem readTypeName_sat {s : St} (hs : WF s) : (readTypeName s).Sat (TokPost s) := by
  unfold readTypeName
  rcases hn : next s with ⟨c, s1⟩
  cases c with
  | none => exact TokPost.refl hs
  | some c =>
    simp only
    obtain ⟨hst, hp, hr, _⟩ := next_some hs hn
    split
    · exact TokPost.refl hs
    · refine (scan_sat _ _ s1 hst.1 (by have := hst.1.rest_le_len; omega)).bind (fun s2 h2 => ?_)
      exact sliceFrom_sat (hst.trans h2)

theorem skipN_step {s : St} (hs : WF s) (n : Nat) (hn : n ≤ s.rest.length) : Step s (skipN n s) := by
  obtain ⟨h1, h2⟩ := hs
  refine ⟨⟨?_, ?_⟩, rfl, ?_⟩ <;> simp [skipN] <;> omega

theorem dnScan_le (H N : UInt8 → Bool) : ∀ (bs : Bytes) (st : DnState) (cur best : Nat),
    dnScan H N st cur best bs ≤ max best (cur + bs.length) := by
  intro bs
  induction bs with
  | nil => intro st cur best; simp [dnScan]; omega
  | cons c r ih =>
    intro st cur best
    cases st <;> simp only [dnScan] <;> repeat' split
    all_goals first
      | (have := ih .head (cur + 1) best; simp only [List.length_cons]; omega)
      | (have := ih .sep (cur + 1) best; simp only [List.length_cons]; omega)
      | (have := ih .label (cur + 1) (cur + 1); simp only [List.length_cons]; omega)
      | (simp only [List.length_cons]; omega)

theorem matchDn_le (bs : Bytes) : matchDn bs ≤ bs.length := by
  have := dnScan_le isAlpha isAlnum bs .head0 0 0
  unfold matchDn; omega

theorem matchXdn_le (bs : Bytes) : matchXdn bs ≤ bs.length := by
  unfold matchXdn
  split
  · rename_i r
    have := dnScan_le isLowerDigit isLowerDigit r .head0 0 0
    split
    · omega
    · rename_i n hn; simp only [List.length_cons]; omega
  · omega

theorem readInterfaceName_sat {s : St} (hs : WF s) : (readInterfaceName s).Sat (fun r => Step s r.2) := by
  unfold readInterfaceName
  rw [if_neg (by have := hs.1; simp; omega)]
  dsimp only
  split
  · split
    · exact Step.refl hs
    · exact skipN_step hs _ (matchDn_le _)
  · split
    · split
      · exact Step.refl hs
      · exact skipN_step hs _ (matchXdn_le _)
    · exact Step.refl hs

/-! ### readType, readStructType -/

/-- postcondition of `readType` & co.: the state is a later state of the parse, except that after a failure
    (`nil`) which consumed input the cursor may have run past the end -/
def TyPost (s : St) (r : Option Ty × St) : Prop :=
  r.2.len = s.len ∧ s.pos ≤ r.2.pos ∧ (WF r.2 ∨ (r.1 = none ∧ s.pos < r.2.pos))

theorem TyPost.of_step {s s' : St} (h : Step s s') (r : Option Ty) : TyPost s (r, s') :=
  ⟨h.2.1, h.2.2, Or.inl h.1⟩

theorem TyPost.fail {s s' : St} (hl : s'.len = s.len) (hp : s.pos < s'.pos) : TyPost s (none, s') :=
  ⟨hl, Nat.le_of_lt hp, Or.inr ⟨rfl, hp⟩⟩

theorem TyPost.after {s s1 : St} (h : Step s s1) {r : Option Ty × St} (h1 : TyPost s1 r) : TyPost s r := by
  obtain ⟨a, b, c⟩ := h1
  refine ⟨a.trans h.2.1, Nat.le_trans h.2.2 b, ?_⟩
  rcases c with c | ⟨c1, c2⟩
  · exact Or.inl c
  · exact Or.inr ⟨c1, Nat.lt_of_le_of_lt h.2.2 c2⟩

theorem TyPost.after_lt {s s1 : St} (hl : s1.len = s.len) (hp : s.pos < s1.pos) {r : Option Ty × St}
    (h1 : TyPost s1 r) : TyPost s r := by
  obtain ⟨a, b, c⟩ := h1
  refine ⟨a.trans hl, by omega, ?_⟩
  rcases c with c | ⟨c1, c2⟩
  · exact Or.inl c
  · exact Or.inr ⟨c1, by omega⟩

/-- a failure result stays a failure whatever state it reports, as long as the cursor moved on -/
theorem TyPost.to_none {s : St} {r : Option Ty × St} (h : TyPost s r) (hp : s.pos < r.2.pos) :
    TyPost s (none, r.2) := ⟨h.1, h.2.1, Or.inr ⟨rfl, hp⟩⟩

theorem TyPost.wf_of_some {s : St} {t : Ty} {s' : St} (h : TyPost s (some t, s')) : Step s s' := by
  obtain ⟨a, b, c⟩ := h
  rcases c with c | ⟨c1, _⟩
  · exact ⟨c, a, b⟩
  · cases c1

theorem next_any (s : St) : (next s).2.len = s.len ∧ (next s).2.pos = s.pos + 1 := by
  unfold next; cases s.rest <;> simp

theorem typeReaders_sat : ∀ f : Nat,
    (∀ s, WF s → 2 * s.rest.length + 3 ≤ f → (readType f s).Sat (TyPost s)) ∧
    (∀ s, WF s → 2 * s.rest.length + 2 ≤ f → (readStructType f s).Sat (TyPost s)) ∧
    (∀ s kind acc, WF s → 2 * s.rest.length + 2 ≤ f → (structLoop f s kind acc).Sat (TyPost s)) ∧
    (∀ s kind acc, WF s → 2 * s.rest.length + 1 ≤ f → (structTail f s kind acc).Sat (TyPost s)) := by
  intro f
  induction f with
  | zero =>
    refine ⟨?_, ?_, ?_, ?_⟩ <;> intros <;> omega
  | succ f ih =>
    obtain ⟨ihT, ihS, ihL, ihE⟩ := ih
    refine ⟨?_, ?_, ?_, ?_⟩
    · -- readType
      intro s hs hf
      unfold readType
      rcases hn : next s with ⟨c, s1⟩
      simp only
      split
      · -- '?'
        rename_i hc; subst hc
        obtain ⟨hst, hp, hr, _⟩ := next_some hs hn
        have hlt : s1.rest.length + 1 = s.rest.length := by rw [hr]; simp
        refine (ihT s1 hst.1 (by omega)).bind ?_
        rintro ⟨e, s2⟩ h2
        have h2' : TyPost s (e, s2) := h2.after hst
        have hpos : s.pos < s2.pos := by have := h2.2.1; simp at this; omega
        cases e with
        | none => exact h2'
        | some e =>
          simp only
          split
          · exact h2'.to_none hpos
          · exact TyPost.of_step (hst.trans h2.wf_of_some) _
      · split
        · -- '['
          rename_i _ hc; subst hc
          obtain ⟨hst, hp, hr, _⟩ := next_some hs hn
          have hlt : s1.rest.length + 1 = s.rest.length := by rw [hr]; simp
          refine (readKeyword_sat hst.1).bind ?_
          rintro ⟨kw, s2⟩ ⟨h2, _⟩
          simp only at h2 ⊢
          split
          · exact TyPost.of_step (hst.trans h2) _
          · rcases hn3 : next s2 with ⟨c3, s3⟩
            simp only
            have h3 := next_any s2; rw [hn3] at h3; simp only at h3
            split
            · refine TyPost.fail (by rw [h3.1, h2.2.1, hst.2.1]) ?_
              have := h2.2.2; omega
            · rename_i hc3; simp at hc3; subst hc3
              obtain ⟨hst3, hp3, hr3, _⟩ := next_some h2.1 hn3
              have h13 := hst.trans (h2.trans hst3)
              have hlt3 : s3.rest.length + 1 ≤ s1.rest.length := by
                have := Step.rest_le hst.1 h2; rw [hr3] at this; simp at this; omega
              refine (ihT s3 hst3.1 (by omega)).bind ?_
              rintro ⟨e, s4⟩ h4
              have h4' : TyPost s (e, s4) := h4.after h13
              cases e with
              | none => exact h4'
              | some e => exact TyPost.of_step (h13.trans h4.wf_of_some) _
        · -- default
          refine (readKeyword_sat hs).bind ?_
          rintro ⟨kw, s1'⟩ ⟨h1, hkw⟩
          simp only at h1 hkw ⊢
          split
          · rename_i hne
            have hp := hkw hne
            repeat' split
            all_goals first
              | exact TyPost.of_step h1 _
          · refine (readTypeName_sat h1.1).bind ?_
            rintro ⟨name, s2⟩ ⟨h2, _⟩
            simp only at h2 ⊢
            split
            · exact TyPost.of_step (h1.trans h2) _
            · have h12 := h1.trans h2
              have := Step.rest_le hs h12
              exact (ihS s2 h2.1 (by omega)).mono (fun r hr => hr.after h12)
    · -- readStructType
      intro s hs hf
      unfold readStructType
      rcases hn : next s with ⟨c, s1⟩
      simp only
      split
      · exact TyPost.of_step (Step.refl hs) _
      · rename_i hc; simp at hc; subst hc
        obtain ⟨hst, hp, hr, _⟩ := next_some hs hn
        have hlt : s1.rest.length + 1 = s.rest.length := by rw [hr]; simp
        refine (advance_sat hst.1).bind ?_
        intro s2 h2
        rcases hn3 : next s2 with ⟨c3, s3⟩
        simp only
        split
        · rename_i hc3; subst hc3
          exact TyPost.of_step (hst.trans (h2.trans (next_some h2.1 hn3).1)) _
        · have h12 := hst.trans h2
          have := Step.rest_le hst.1 h2
          exact (ihL s2 _ _ h2.1 (by omega)).mono (fun r hr => hr.after h12)
    · -- structLoop
      intro s kind acc hs hf
      unfold structLoop
      refine (advance_sat hs).bind ?_
      intro s1 h1
      refine (readFieldName_sat h1.1).bind ?_
      rintro ⟨name, s2⟩ ⟨h2, hname⟩
      simp only at h2 hname ⊢
      split
      · exact TyPost.of_step (h1.trans h2) _
      · rename_i hne
        have hp2 := hname hne
        have h02 := h1.trans h2
        refine (advance_sat h2.1).bind ?_
        intro s3 h3
        have h03 := h02.trans h3
        have hpos3 : s.pos < s3.pos := by have := h1.2.2; have := h3.2.2; omega
        have hr3 : s3.rest.length + 1 ≤ s.rest.length := by
          have := Step.rest_lt hs h03 hpos3; omega
        rcases hn4 : next s3 with ⟨c4, s4⟩
        simp only
        have h4 := next_any s3; rw [hn4] at h4; simp only at h4
        split
        · rename_i hc4; subst hc4
          obtain ⟨hst4, hp4, hr4, _⟩ := next_some h3.1 hn4
          have h04 := h03.trans hst4
          split
          · exact TyPost.of_step h04 _
          · refine (advance_sat hst4.1).bind ?_
            intro s5 h5
            have h05 := h04.trans h5
            have hr5 : s5.rest.length + 2 ≤ s.rest.length := by
              have := Step.rest_le hst4.1 h5; rw [hr4] at hr3; simp at hr3; omega
            refine (ihT s5 h5.1 (by omega)).bind ?_
            rintro ⟨t, s6⟩ h6
            cases t with
            | none => exact h6.after h05
            | some t =>
              simp only
              have h56 := h6.wf_of_some
              have h06 := h05.trans h56
              have := Step.rest_le h5.1 h56
              exact (ihE s6 _ _ h56.1 (by omega)).mono (fun r hr => hr.after h06)
        · split
          · refine TyPost.fail (by rw [h4.1, h03.2.1]) (by omega)
          · exact (ihE s3 _ _ h3.1 (by omega)).mono (fun r hr => hr.after h03)
    · -- structTail
      intro s kind acc hs hf
      unfold structTail
      refine (advance_sat hs).bind ?_
      intro s1 h1
      rcases hn2 : next s1 with ⟨c2, s2⟩
      simp only
      have h2 := next_any s1; rw [hn2] at h2; simp only at h2
      split
      · rename_i hc; subst hc
        obtain ⟨hst2, hp2, hr2, _⟩ := next_some h1.1 hn2
        have h02 := h1.trans hst2
        have : s2.rest.length + 1 ≤ s.rest.length := by
          have := Step.rest_le hs h1; rw [hr2] at this; simp at this; omega
        exact (ihL s2 _ _ hst2.1 (by omega)).mono (fun r hr => hr.after h02)
      · split
        · rename_i hc; subst hc
          exact TyPost.of_step (h1.trans (next_some h1.1 hn2).1) _
        · refine TyPost.fail (by rw [h2.1, h1.2.1]) ?_
          have := h1.2.2; omega

/-! ### members, readIDL, New -/

theorem readType_sat {s : St} (hs : WF s) : (readType (typeFuel s) s).Sat (TyPost s) :=
  (typeReaders_sat _).1 s hs (by have := hs.rest_le_len; unfold typeFuel; omega)

theorem readAlias_sat {s : St} (hs : WF s) : (readAlias s).Sat (fun r => Step s r.2) := by
  unfold readAlias
  refine (advance_sat hs).bind (fun s1 h1 => ?_)
  refine (readTypeName_sat h1.1).bind ?_
  rintro ⟨name, s2⟩ ⟨h2, _⟩
  simp only at h2 ⊢
  split
  · trivial
  · refine (advance_sat h2.1).bind (fun s3 h3 => ?_)
    refine (readType_sat h3.1).bind ?_
    rintro ⟨t, s4⟩ h4
    cases t with
    | none => trivial
    | some t => exact ((h1.trans h2).trans h3).trans h4.wf_of_some

theorem readMethod_sat {s : St} (hs : WF s) : (readMethod s).Sat (fun r => Step s r.2) := by
  unfold readMethod
  refine (advance_sat hs).bind (fun s1 h1 => ?_)
  refine (readTypeName_sat h1.1).bind ?_
  rintro ⟨name, s2⟩ ⟨h2, _⟩
  simp only at h2 ⊢
  split
  · trivial
  · refine (advance_sat h2.1).bind (fun s3 h3 => ?_)
    refine (readType_sat h3.1).bind ?_
    rintro ⟨t, s4⟩ h4
    cases t with
    | none => trivial
    | some t =>
      simp only
      have h04 := ((h1.trans h2).trans h3).trans h4.wf_of_some
      refine (advance_sat h04.1).bind (fun s5 h5 => ?_)
      rcases hn6 : next s5 with ⟨one, s6⟩
      rcases hn7 : next s6 with ⟨two, s7⟩
      simp only
      split
      · trivial
      · rename_i hc
        simp at hc
        obtain ⟨rfl, rfl⟩ := hc
        have h6 := (next_some h5.1 hn6).1
        have h7 := (next_some h6.1 hn7).1
        have h07 := (h04.trans h5).trans (h6.trans h7)
        refine (advance_sat h7.1).bind (fun s8 h8 => ?_)
        refine (readType_sat h8.1).bind ?_
        rintro ⟨t2, s9⟩ h9
        cases t2 with
        | none => trivial
        | some t2 => exact (h07.trans h8).trans h9.wf_of_some

theorem readError_sat {s : St} (hs : WF s) : (readError s).Sat (fun r => Step s r.2) := by
  unfold readError
  refine (advance_sat hs).bind (fun s1 h1 => ?_)
  refine (readTypeName_sat h1.1).bind ?_
  rintro ⟨name, s2⟩ ⟨h2, _⟩
  simp only at h2 ⊢
  split
  · trivial
  · split
    · exact h1.trans h2
    · refine (advance_sat h2.1).bind (fun s3 h3 => ?_)
      have h03 := (h1.trans h2).trans h3
      refine (readType_sat h3.1).bind ?_
      rintro ⟨t, s4⟩ h4
      cases t with
      | none => trivial
      | some t => exact h03.trans h4.wf_of_some

theorem kw_ne_nil_of_eq {kw k : Bytes} (h : kw = k) (hk : k ≠ []) : kw ≠ [] := h ▸ hk

theorem membersLoop_sat : ∀ (f : Nat) (s : St) (names : List Bytes) (acc : List Member), WF s →
    s.rest.length < f → (membersLoop f s names acc).Sat (fun r => Step s r.2) := by
  intro f
  induction f with
  | zero => intro s _ _ _ h; omega
  | succ f ih =>
    intro s names acc hs hf
    unfold membersLoop
    refine (advance_sat hs).bind (fun s1 h1 => ?_)
    split
    · exact h1
    · refine (readKeyword_sat h1.1).bind ?_
      rintro ⟨kw, s2⟩ ⟨h2, hkw⟩
      simp only at h2 hkw ⊢
      have h02 := h1.trans h2
      have hprog : kw ≠ [] → s2.rest.length < f := by
        intro hne
        have := Step.rest_lt h1.1 h2 (hkw hne)
        have := Step.rest_le hs h1
        omega
      split
      · rename_i hk
        have hlt := hprog (kw_ne_nil_of_eq hk (by decide))
        refine (readAlias_sat h2.1).bind ?_
        rintro ⟨m, s3⟩ h3
        simp only at h3 ⊢
        split
        · trivial
        · have := Step.rest_le h2.1 h3
          exact (ih s3 _ _ h3.1 (by omega)).mono (fun r hr => (h02.trans h3).trans hr)
      · split
        · rename_i hk
          have hlt := hprog (kw_ne_nil_of_eq hk (by decide))
          refine (readMethod_sat h2.1).bind ?_
          rintro ⟨m, s3⟩ h3
          simp only at h3 ⊢
          split
          · trivial
          · have := Step.rest_le h2.1 h3
            exact (ih s3 _ _ h3.1 (by omega)).mono (fun r hr => (h02.trans h3).trans hr)
        · split
          · rename_i hk
            have hlt := hprog (kw_ne_nil_of_eq hk (by decide))
            refine (readError_sat h2.1).bind ?_
            rintro ⟨m, s3⟩ h3
            simp only at h3 ⊢
            split
            · trivial
            · have := Step.rest_le h2.1 h3
              exact (ih s3 _ _ h3.1 (by omega)).mono (fun r hr => (h02.trans h3).trans hr)
          · trivial

theorem readIDL_sat {s : St} (hs : WF s) : (readIDL s).Sat (fun r => Step s r.2) := by
  unfold readIDL
  refine (readKeyword_sat hs).bind ?_
  rintro ⟨kw, s1⟩ ⟨h1, _⟩
  simp only at h1 ⊢
  split
  · trivial
  · refine (advance_sat h1.1).bind (fun s2 h2 => ?_)
    refine (readInterfaceName_sat h2.1).bind ?_
    rintro ⟨name, s3⟩ h3
    simp only at h3 ⊢
    split
    · trivial
    · refine (membersLoop_sat _ s3 [] [] h3.1 (by have := h3.1.rest_le_len; omega)).bind ?_
      rintro ⟨ms, s4⟩ h4
      exact ((h1.trans h2).trans h3).trans h4

theorem initSt_wf (input : Bytes) : WF (initSt input) := by
  unfold WF initSt; simp

theorem New_sat (input : Bytes) : (New input).Sat (fun _ => True) := by
  unfold New
  refine (advance_sat (initSt_wf input)).bind (fun s h => ?_)
  refine (readIDL_sat h.1).bind ?_
  rintro ⟨idl, s'⟩ _
  simp only
  split <;> trivial

end Varlink.Idl
