/-
  C06 — IDL parser: nothing ill-formed accepted, nothing silently ignored.

  `strip s` is `s` without spaces, tabs, CR, LF and `#…` comments; `print t` is the canonical text of a tree
  (lean/Varlink/Idl/Printer.lean). "Re-printing the resulting tree reproduces the input exactly up to whitespace and
  comments" is `strip s = strip (print t)`.

  The proofs are in VarlinkProofs/Lemmas/IdlStrip.lean: one window lemma per reader of idl.go ("when the reader
  succeeds, `strip` of the input it started on is the token text of what it returned followed by `strip` of the
  input it left"), composed along `readType`/`readStructType` (induction on the fuel), the member readers, the
  member loop and `New`; VarlinkProofs/Lemmas/IdlPrint.lean shows `strip (print t) = toks t` for trees whose
  names contain no layout byte.
-/
import Varlink.Idl.Parser
import Varlink.Idl.Printer
import VarlinkProofs.Lemmas.IdlStrip
import Varlink.Extracted.Code
import Varlink.ExpectedCode
namespace Varlink.C06
open Varlink Varlink.Idl

/-- **Every byte of an accepted text is accounted for**: whenever the parser accepts `s` with tree `t`, the canonical
    printing of `t` equals `s` up to whitespace and comments. -/
theorem accepted_accounts_for_all_text {s : Bytes} {t : Idl} (h : New s = .ok t) :
    strip s = strip (print t) := by
  obtain ⟨hs, hc, _⟩ := New_win h
  rw [hs, strip_print t hc]

/-- … in fact both are the plain concatenation of the tree's tokens. -/
theorem accepted_text_is_tokens {s : Bytes} {t : Idl} (h : New s = .ok t) : strip s = toks t :=
  (New_win h).1

/-- **An accepted tree is well-formed**: member names are unique, at least one method exists, an optional never
    directly wraps an optional, and every parenthesised list is either all typed fields or all bare names. -/
theorem accepted_wellformed {s : Bytes} {t : Idl} (h : New s = .ok t) :
    t.uniqueMemberNames = true ∧ 1 ≤ t.methods.length ∧ t.noMaybeMaybe = true ∧ t.homogeneous = true := by
  obtain ⟨_, _, hnd, hok, hm, _⟩ := New_win h
  refine ⟨(uniqueNames_iff_nodup _).mpr hnd, by omega, ?_, ?_⟩
  · simp only [Idl.noMaybeMaybe, List.all_eq_true]
    intro m hm t ht; exact ((hok m hm).2 t ht).2
  · simp only [Idl.homogeneous, List.all_eq_true]
    intro m hm t ht; exact ((hok m hm).2 t ht).1

/-- No name in an accepted tree contains a layout byte (so that printing and stripping commute). -/
theorem accepted_names_clean {s : Bytes} {t : Idl} (h : New s = .ok t) : t.Clean := (New_win h).2.1

/-- The description is retained verbatim. -/
theorem accepted_description_verbatim {s : Bytes} {t : Idl} (h : New s = .ok t) : t.description = s :=
  (New_win h).2.2.2.2.2

/-- well-formed trees under the most liberal reading of the grammar: names are arbitrary byte strings without
    layout bytes, types are arbitrary, subject only to the four shape conditions of the property -/
def WFlib (t : Idl) : Prop :=
  t.Clean ∧ t.uniqueMemberNames = true ∧ 1 ≤ t.methods.length ∧ t.noMaybeMaybe = true ∧ t.homogeneous = true

/-- **Every ill-formed text is rejected with an error and no tree**: a text that is not, up to whitespace and
    comments, the printing of any well-formed tree (even under the most liberal reading) is answered with an
    error — not with a tree, a panic or a hang (the latter two by C09's totality lemma). -/
theorem illformed_rejected (s : Bytes) (h : ∀ t, WFlib t → strip s ≠ strip (print t)) :
    ∃ e, New s = .err e := by
  cases hn : New s with
  | ok t =>
    exact absurd (accepted_accounts_for_all_text hn)
      (h t ⟨accepted_names_clean hn, (accepted_wellformed hn).1, (accepted_wellformed hn).2.1,
        (accepted_wellformed hn).2.2.1, (accepted_wellformed hn).2.2.2⟩)
  | err e => exact ⟨e, rfl⟩
  | panic => exact absurd hn (New_sat s).ne_panic.1
  | outOfFuel => exact absurd hn (New_sat s).ne_panic.2

/-- The same on the level of a type: whatever `readType` returns is homogeneous and has no optional of an
    optional, with any fuel and from any state. -/
theorem readType_wellformed (f : Nat) (s s' : St) (t : Ty) (h : readType f s = .ok (some t, s')) :
    t.homogeneous = true ∧ t.noMaybeMaybe = true := readType_good h

/-! ### regression witnesses: inputs the pinned commit accepted with text dropped or re-interpreted -/

/-- `error Foo bar`: what follows an error's name and is not a parameter list is left to the member loop, which
    rejects it (since /repo 995dcfd; "invalid error type" before) -/
theorem rejects_error_junk : (New (str "interface a.b\nmethod F()->()\nerror Foo bar")).errOf = some .unknownKeyword := by
  decide +kernel
/-- `error Foo ?` -/
theorem rejects_error_question : (New (str "interface a.b\nmethod F()->()\nerror Foo ?")).errOf = some .unknownKeyword := by
  decide +kernel
/-- `error Foo [string]` -/
theorem rejects_error_bracket : (New (str "interface a.b\nmethod F()->()\nerror Foo [string]")).errOf = some .unknownKeyword := by
  decide +kernel
/-- `error E (a: int` at the end of the input: an unfinished parameter list, also on a later line -/
theorem rejects_error_open_list : (New (str "interface a.b\nmethod F()->()\nerror E (a: int")).errOf = some .invalidErrorType ∧
    (New (str "interface a.b\nmethod F()->()\nerror E # c\n(")).errOf = some .invalidErrorType := by
  constructor <;> decide +kernel
/-- a member behind an error without parameters is a member, not the error's type: nothing is dropped -/
theorem member_behind_bare_error_kept :
    (match New (str "interface a.b\nerror A method B() -> ()\n") with
     | .ok t => t.members.map Member.name | _ => []) = [str "A", str "B"] := by
  decide +kernel
/-- `(x: int, y)`: a mixed list is neither a struct nor an enum -/
theorem rejects_mixed_list : (New (str "interface a.b\nmethod F(x: int, y)->()")).errOf = some .missingMethodInput := by
  decide +kernel
/-- `(y, x: int)` -/
theorem rejects_mixed_list_rev : (New (str "interface a.b\nmethod F(y, x: int)->()")).errOf = some .missingMethodInput := by
  decide +kernel
/-- `??int` -/
theorem rejects_maybe_maybe : (New (str "interface a.b\nmethod F(x: ??int)->()")).errOf = some .missingMethodInput := by
  decide +kernel
/-- an empty comment does not swallow the next line: both methods are there -/
theorem empty_comment_keeps_next_line :
    (match New (str "interface a.b\n#\nmethod F()->()\nmethod G()->()\n") with
     | .ok t => t.members.length | _ => 0) = 2 := by
  decide +kernel
/-- duplicate member names -/
theorem rejects_duplicate : (New (str "interface a.b\nmethod F()->()\nerror F")).errOf = some .errorAlreadyDefined := by
  decide +kernel

/-! ### non-vacuity -/
example : ∃ t, New (str "interface a.b\nmethod F(a: ?[]int) -> (e: (x, y))") = .ok t ∧ WFlib t := by
  have h : (New (str "interface a.b\nmethod F(a: ?[]int) -> (e: (x, y))")).tag = 0 := by decide +kernel
  cases hn : New (str "interface a.b\nmethod F(a: ?[]int) -> (e: (x, y))") with
  | ok t =>
    exact ⟨t, rfl, accepted_names_clean hn, (accepted_wellformed hn).1, (accepted_wellformed hn).2.1,
      (accepted_wellformed hn).2.2.1, (accepted_wellformed hn).2.2.2⟩
  | _ => rw [hn] at h; cases h
/-- the hypothesis of `illformed_rejected` is satisfiable: the empty text is not the printing of any tree -/
example : ∀ t, WFlib t → strip [] ≠ strip (print t) := by
  intro t ht h
  rw [strip_print t ht.1] at h
  simp [strip, stripAux, toks, tInterface] at h

/-- **Tie to the source**: the declarations of /repo that this property's model transliterates
    (`Extracted.codeNames_C06`) have, in the current working tree, exactly the fingerprints of the code the
    model was validated against. Any change to them breaks this obligation; the check then searches the
    correspondence streams for an input on which the changed code violates the property. -/
theorem modelled_code_unchanged : Varlink.Extracted.code_C06 = Varlink.ExpectedCode.code_C06 := by decide

/-- no declaration (function, method, type, constant, variable) has been added to or removed from the
    fingerprinted source files since the models were validated: a new method or `init` can change behaviour
    without touching the text of any existing declaration -/
theorem declarations_known : Varlink.Extracted.declarationSet = Varlink.ExpectedCode.declarationSet := by decide

end Varlink.C06
