/-
  C17 — context cancellation and deadlines unblock every I/O operation.

  Control: the finite transition system of one ctxio operation (lean/Varlink/Ctxio.lean), whose caller
  steps are the skeleton regenerated from ctxio/conn.go (Extracted/Access.lean).  Every statement about
  "all reachable states" is established by an explicit reachable set that the kernel checks to be closed
  under the transition function (VarlinkProofs/Lemmas/Ctxio.lean), for all twelve configurations
  (Read / ReadBytes / Write × connection honours deadlines or not × context with / without deadline).
  Data: sequences of operations over the bufio model of C18.
-/
import Varlink.Ctxio
import VarlinkProofs.Lemmas.Ctxio
import Varlink.Extracted.Code
import Varlink.ExpectedCode
namespace Varlink.C17
open Varlink Varlink.Ctxio Varlink.Extracted

/-! ### the configurations, from the source -/

/-- the compiled skeleton, written out (so that the kernel explores a literal) -/
def litCfg (honours hasDeadline singleIO : Bool) : Cfg :=
  { pre := [.dlCtx, .exitIfErr, .mkchan, .spawn],
    cancelArm := [.dlPast, .exitIfErr, .recv, .dlZero, .exitIfErr, .retCtx],
    doneArm := [.recv, .retResult],
    honours := honours, hasDeadline := hasDeadline, singleIO := singleIO }

def litCfgs : List Cfg :=
  [litCfg true true false, litCfg true false false, litCfg false true false, litCfg false false false,
   litCfg true true true, litCfg true false true, litCfg false true true, litCfg false false true]

/-- **tie to the source (regenerated on every run)**: Read, ReadBytes and Write of ctxio/conn.go all have
    the skeleton `SetDeadline(ctx) · check · make(chan, 1) · go helper · select { ctx.Done: SetDeadline(past) ·
    check · <-ch · SetDeadline(zero) · check · return ctx.Err() | <-ch: return result }` -/
theorem configs_from_source : ∀ cfg ∈ allCfgs, cfg ∈ litCfgs := by decide +kernel

/-- the kernel explores each configuration and checks `stateOK` on every reachable state -/
theorem all_configurations_verified : ∀ cfg ∈ litCfgs, verified cfg = true := by decide +kernel

theorem stateOK_of_reach (cfg : Cfg) (hc : cfg ∈ allCfgs) (s : St) (hr : Reach cfg s) :
    stateOK cfg s (next cfg s) = true :=
  verified_reach cfg (all_configurations_verified cfg (configs_from_source cfg hc)) s hr

/-! ### no goroutine left, no deadline left -/

/-- **the helper goroutine is joined**: whenever the operation has returned — by either select arm, under
    any schedule and any behaviour of peer and context — its helper goroutine has finished -/
theorem helper_joined (cfg : Cfg) (hc : cfg ∈ allCfgs) (s : St) (hr : Reach cfg s)
    (hret : isReturned s = true) : helperGone s = true := by
  have h := stateOK_of_reach cfg hc s hr
  simp only [stateOK, Bool.and_eq_true, Bool.or_eq_true, Bool.not_eq_true'] at h
  rcases h.1.1.1.1.1 with h1 | h1
  · rw [hret] at h1; cases h1
  · exact h1

/-- **a cancelled operation resets the deadline**: when the operation returns the context's error, the
    context is indeed done, the error reported is the context's own (Canceled / DeadlineExceeded), and no
    deadline is left armed on the connection -/
theorem deadline_reset_after_cancel (cfg : Cfg) (hc : cfg ∈ allCfgs) (s : St) (hr : Reach cfg s)
    (c : Ctx) (hret : s.cpc = .returned (.ctxErr c)) : s.dl = .none ∧ c ≠ .live ∧ c = s.ctx := by
  have h := stateOK_of_reach cfg hc s hr
  simp only [stateOK, hret, Bool.and_eq_true, decide_eq_true_eq, bne_iff_ne, ne_eq] at h
  exact ⟨h.1.1.1.1.2.1.1, h.1.1.1.1.2.1.2, h.1.1.1.1.2.2⟩

/-- an operation whose context stays live returns the helper's result, never a context error -/
theorem live_ctx_returns_result (cfg : Cfg) (hc : cfg ∈ allCfgs) (s : St) (hr : Reach cfg s)
    (hlive : s.ctx = .live) (r : Ret) (hret : s.cpc = .returned r) : ∃ x, r = .result x := by
  cases r with
  | result x => exact ⟨x, rfl⟩
  | ctxErr c =>
    obtain ⟨_, h2, h3⟩ := deadline_reset_after_cancel cfg hc s hr c hret
    rw [h3, hlive] at h2
    exact absurd rfl h2

/-- every operation begins by arming the connection with its own context's deadline (none if the
    context has none): a deadline left by an earlier, completed operation cannot affect it -/
theorem operation_starts_by_arming :
    ∀ cfg ∈ litCfgs, (callerNext cfg (init cfg)).map (·.1) = [.setDl (armValue cfg (init cfg))] := by
  decide +kernel

/-! ### cancellation unblocks (when the connection honours deadlines) -/

/-- **cancel_unblocks**: on a connection that honours deadlines, once the context is cancelled or its
    deadline has passed, the operation returns after at most 24 further steps of its own (caller and
    helper), whatever the peer does or does not do: as long as it has not returned one of its own steps is
    enabled (it never waits for the peer), every such step lowers `rank`, and `rank ≤ 24`. -/
theorem cancel_unblocks (cfg : Cfg) (hc : cfg ∈ allCfgs) (hh : cfg.honours = true)
    (s : St) (hr : Reach cfg s) (hdone : s.ctx ≠ .live) :
    (isReturned s = false → sysNext cfg s ≠ []) ∧
    (∀ p, SysPath cfg s p → p.length ≤ rank cfg s) ∧ rank cfg s ≤ 24 := by
  have hgood : ∀ s, (Reach cfg s ∧ s.ctx ≠ .live) → ∀ s' ∈ sysNext cfg s,
      (Reach cfg s' ∧ s'.ctx ≠ .live) ∧ rank cfg s' < rank cfg s := by
    intro s ⟨hr, hd⟩ s' hs'
    have h := stateOK_of_reach cfg hc s hr
    simp only [stateOK, Bool.and_eq_true, Bool.or_eq_true, List.all_eq_true, decide_eq_true_eq] at h
    have hctx : s'.ctx = s.ctx := h.2 s' hs'
    refine ⟨⟨sysNext_reach hr hs', by rw [hctx]; exact hd⟩, ?_⟩
    rcases h.1.1.2 with hl | hl
    · exact absurd hl hd
    · exact hl s' hs'
  have h := stateOK_of_reach cfg hc s hr
  simp only [stateOK, Bool.and_eq_true, Bool.or_eq_true, Bool.not_eq_true', decide_eq_true_eq] at h
  refine ⟨?_, fun p hp => sysPath_bounded cfg (fun s => Reach cfg s ∧ s.ctx ≠ .live) hgood p s ⟨hr, hdone⟩ hp, h.1.2⟩
  intro hnr
  rcases h.1.1.1.2 with ((hl | hl) | hl) | hl
  · exact absurd hl hdone
  · rw [hh] at hl; cases hl
  · rw [hnr] at hl; cases hl
  · intro he; unfold sysNext at he; rw [he] at hl; simp at hl

/-- the cancelled operation that was blocked with a silent peer reports an error of the context or a
    timeout: from the state "blocked in I/O, context cancelled" the operation's own steps lead to
    `return ctx.Err()` (shown as a concrete run for each operation kind) -/
theorem cancelled_blocked_read_returns_ctx_error :
    ∀ cfg ∈ litCfgs, cfg.honours = true →
      (runPath cfg [0, 0, 0, 0, 0, 0, 3, 0, 0, 0, 3, 0, 0, 0, 0, 0] (init cfg)).map (·.cpc) =
        some (.returned (.ctxErr .cancelled)) := by decide +kernel

/-- **why the bridge needed its fix**: on a connection that does not honour deadlines (PipeCon before
    3fa57ef), a cancelled operation whose peer stays silent is stuck — the caller waits for the helper, the
    helper waits for the peer, and no step of the operation itself is enabled -/
theorem without_deadlines_cancel_does_not_unblock (cfg : Cfg) (hc : cfg ∈ allCfgs) (hh : cfg.honours = false) :
    ∃ s, Reach cfg s ∧ s.ctx = .cancelled ∧ isReturned s = false ∧ sysNext cfg s = [] := by
  have key : ∀ cfg ∈ litCfgs, cfg.honours = false →
      (runPath cfg [0, 0, 0, 0, 0, 0, 3, 0, 0, 0] (init cfg)).map
        (fun s => (s.ctx, isReturned s, sysNext cfg s)) = some (.cancelled, false, []) := by decide +kernel
  have hk := key cfg (configs_from_source cfg hc) hh
  cases hp : runPath cfg [0, 0, 0, 0, 0, 0, 3, 0, 0, 0] (init cfg) with
  | none => rw [hp] at hk; cases hk
  | some s =>
    rw [hp] at hk
    simp only [Option.map_some, Option.some.injEq, Prod.mk.injEq] at hk
    exact ⟨s, runPath_reach cfg _ _ s .init hp, hk.1, hk.2.1, hk.2.2⟩

/-- non-vacuity: the twelve configurations exist, a cancelled run and a completed run are reachable -/
example : allCfgs.length = 12 := by decide +kernel
example : ∀ cfg ∈ litCfgs, ∃ s, Reach cfg s ∧ s.cpc = .returned (.result .ok) := by
  intro cfg hc
  have key : ∀ cfg ∈ litCfgs,
      (runPath cfg [0, 0, 0, 0, 0, 0, 0, if cfg.singleIO then 0 else 1, 0, 0] (init cfg)).map (·.cpc) =
        some (.returned (.result .ok)) := by decide +kernel
  have hk := key cfg hc
  cases hp : runPath cfg [0, 0, 0, 0, 0, 0, 0, if cfg.singleIO then 0 else 1, 0, 0] (init cfg) with
  | none => rw [hp] at hk; cases hk
  | some s =>
    rw [hp] at hk
    exact ⟨s, runPath_reach cfg _ _ s .init hp, by simpa using hk⟩

/-! ### traces of the real code are checked against the same system (`accepts`, used by the driver) -/

/-- a cancelled blocked read as the tracing connection records it is accepted … -/
example : accepts (litCfg true false false)
    [.setDl .none, .ioCall, .setDl .past, .ioRet .timeout, .setDl .none, .ret (.ctxErr .cancelled)] = true := by
  decide +kernel
/-- … the same without the helper's I/O call having returned before the operation returns is not (helper
    not joined), nor is one that leaves the past deadline armed -/
example : accepts (litCfg true false false)
    [.setDl .none, .ioCall, .setDl .past, .setDl .none, .ret (.ctxErr .cancelled)] = false := by decide +kernel
example : accepts (litCfg true false false)
    [.setDl .none, .ioCall, .setDl .past, .ioRet .timeout, .ret (.ctxErr .cancelled)] = false := by decide +kernel

/-! ### data: nothing lost, duplicated or reordered -/

/-- every byte of the stream is, in order, either handed to a caller exactly once, or consumed and
    discarded by a cancelled operation, or still pending -/
theorem nothing_duplicated_or_reordered (cap : Nat) (hcap : cap > 0) (ops : List (ROp × Outcome))
    (hops : ∀ n o, (ROp.raw n, o) ∈ ops → n > 0) (b : Bufio) (net : Net) :
    ((runSeq cap ops b net).1.map Emit.bytes).flatten ++
      pending (runSeq cap ops b net).2.1 (runSeq cap ops b net).2.2 = pending b net :=
  runSeq_conserves cap hcap ops hops b net

/-- **operations whose context stays live return the stream in order, each byte once**: the
    concatenation of what they return, followed by what is still pending, is the stream -/
theorem live_ctx_stream_exact (cap : Nat) (hcap : cap > 0) (ops : List (ROp × Outcome))
    (hlive : ∀ x ∈ ops, x.2 = .live) (hops : ∀ n o, (ROp.raw n, o) ∈ ops → n > 0) (b : Bufio) (net : Net) :
    (outputs (runSeq cap ops b net).1).flatten ++
      pending (runSeq cap ops b net).2.1 (runSeq cap ops b net).2.2 = pending b net := by
  rw [outputs_eq_of_all_live _ (runSeq_all_live cap ops hlive b net)]
  exact runSeq_conserves cap hcap ops hops b net

/-- **reuse after cancel**: after a cancelled operation `x` (whatever happened before it), the
    operations that follow with a live context deliver, in order and exactly once, every byte that was
    pending when `x` returned — in particular everything the peer sends from that point on — and `x`
    itself only removed a prefix of what was pending before it -/
theorem reuse_after_cancel (cap : Nat) (hcap : cap > 0) (before : List (ROp × Outcome)) (x : ROp × Outcome)
    (after : List (ROp × Outcome)) (hlive : ∀ y ∈ after, y.2 = .live)
    (hops : ∀ n o, (ROp.raw n, o) ∈ before ++ x :: after → n > 0) (b : Bufio) (net : Net) :
    let s1 := runSeq cap before b net
    let s2 := runSeq cap [x] s1.2.1 s1.2.2
    let s3 := runSeq cap after s2.2.1 s2.2.2
    (outputs s3.1).flatten ++ pending s3.2.1 s3.2.2 = pending s2.2.1 s2.2.2 ∧
    (∃ dropped, pending s1.2.1 s1.2.2 = dropped ++ pending s2.2.1 s2.2.2) ∧
    runSeq cap (before ++ x :: after) b net = (s1.1 ++ s2.1 ++ s3.1, s3.2) := by
  intro s1 s2 s3
  have hafter : ∀ n o, (ROp.raw n, o) ∈ after → n > 0 :=
    fun n o h => hops n o (List.mem_append_right _ (List.mem_cons_of_mem _ h))
  have hx : ∀ n o, (ROp.raw n, o) ∈ [x] → n > 0 := by
    intro n o h
    simp only [List.mem_singleton] at h
    exact hops n o (List.mem_append_right _ (h ▸ List.mem_cons_self ..))
  refine ⟨live_ctx_stream_exact cap hcap after hlive hafter _ _, ?_, ?_⟩
  · exact ⟨_, (runSeq_conserves cap hcap [x] hx s1.2.1 s1.2.2).symm⟩
  · have : before ++ x :: after = before ++ ([x] ++ after) := by simp
    rw [this, runSeq_append, runSeq_append]
    simp [s1, s2, s3, List.append_assoc]

/-- the concrete instance the correspondence replays: a frame read is cancelled after the first half of
    a frame arrived; the half is discarded, the follow-up read with a live context returns the rest of
    that frame and then the next frame — nothing after the cancellation point is lost -/
theorem cancelled_mid_frame_example :
    (runSeq 4096 [(.frame, .cancelledTimeout 1), (.frame, .live), (.frame, .live)] {} [[1, 2], [3, 0], [4, 0]]).1 =
      [.drop [1, 2], .out [3, 0], .out [4, 0]] := by decide +kernel

/-- a raw read that was blocked when it was cancelled consumed nothing -/
theorem cancelled_blocked_raw_read_consumes_nothing (cap n : Nat) (j : Nat) (b : Bufio) (net : Net) :
    (runSeq cap [(.raw n, .cancelledTimeout j)] b net) = ([.drop []], b, net) := by
  simp [runSeq, interrupted]

/-- **Tie to the source**: the declarations of /repo that this property's model transliterates
    (`Extracted.codeNames_C17`) have, in the current working tree, exactly the fingerprints of the code the
    model was validated against. Any change to them breaks this obligation; the check then searches the
    correspondence streams for an input on which the changed code violates the property. -/
theorem modelled_code_unchanged : Varlink.Extracted.code_C17 = Varlink.ExpectedCode.code_C17 := by decide

/-- no declaration (function, method, type, constant, variable) has been added to or removed from the
    fingerprinted source files since the models were validated: a new method or `init` can change behaviour
    without touching the text of any existing declaration -/
theorem declarations_known : Varlink.Extracted.declarationSet = Varlink.ExpectedCode.declarationSet := by decide

end Varlink.C17
