/-
  C19 — address strings are handled totally and consistently.
  Model: lean/Varlink/Address.lean (`parseAddress`, `listenRequest`, `bind`, `clientEndpoint`), a
  transliteration of service.go `parseAddress` / `Bind` / `setListener` and of the parsing half of
  `NewConnection` (connection.go). `net.Listen`/`net.Dial` and the file system are the environment.
-/
import Varlink.Address
import VarlinkProofs.Lemmas.Address
import Varlink.Extracted.Code
import Varlink.ExpectedCode
namespace Varlink.C19
open Varlink

/-- what the property calls a valid address for a service -/
def Valid (a : Bytes) : Prop :=
  ∃ proto rest, splitFirst colon a = some (proto, rest) ∧
    (proto = protoTcp ∨ (proto = protoUnix ∧ stripParams rest ≠ []))

/-- **Totality**: `Bind` never panics, for any string and any prior state (the empty-path index of
    `setListener` is unreachable). -/
theorem bind_total (σ : BindState) (a : Bytes) : (bind σ a).2 ≠ .panic := by
  unfold bind
  by_cases hr : σ.running
  · simp [hr]
  · simp only [hr]
    unfold parseAddress
    cases hs : splitFirst colon a with
    | none => simp
    | some pr =>
      obtain ⟨proto, rest⟩ := pr
      simp only []
      by_cases hu : proto = protoUnix
      · simp only [hu, if_true]
        by_cases he : stripParams rest = []
        · simp [he]
        · simp only [he, if_false]
          unfold listenRequest
          simp only [if_true]
          cases hc : stripParams rest with
          | nil => exact absurd hc he
          | cons c cs => simp
      · simp only [hu, if_false]
        by_cases ht : proto = protoTcp
        · simp only [ht, if_true]
          unfold listenRequest
          have : protoTcp ≠ protoUnix := by decide
          simp [this]
        · simp [ht]

/-- **Refusals** (service not running): no `<protocol>:` prefix. -/
theorem refuses_without_protocol (σ : BindState) (a : Bytes) (hr : σ.running = false)
    (h : colon ∉ a) : bind σ a = (σ, .refusedParse .noProtocol) := by
  have := (splitFirst_none_iff colon a).mpr h
  cases σ
  simp_all [bind, parseAddress]

/-- a protocol other than unix or tcp -/
theorem refuses_unknown_protocol (σ : BindState) (a proto rest : Bytes) (hr : σ.running = false)
    (hs : splitFirst colon a = some (proto, rest)) (hu : proto ≠ protoUnix) (ht : proto ≠ protoTcp) :
    (bind σ a).2 = .refusedParse .unknownProtocol ∧ (bind σ a).1.running = σ.running := by
  simp [bind, hr, parseAddress, hs, hu, ht]

/-- an empty unix path (also when only a `;parameter` tail follows) -/
theorem refuses_empty_unix_path (σ : BindState) (a rest : Bytes) (hr : σ.running = false)
    (hs : splitFirst colon a = some (protoUnix, rest)) (he : stripParams rest = []) :
    (bind σ a).2 = .refusedParse .emptyUnixPath ∧ (bind σ a).1.running = σ.running := by
  simp [bind, hr, parseAddress, hs, he]

/-- a second bind while serving is refused and changes nothing -/
theorem refused_while_running (σ : BindState) (a : Bytes) (hr : σ.running = true) :
    bind σ a = (σ, .refusedRunning) := by
  simp [bind, hr]

/-- **Acceptance, exactly**: the operating system is asked to listen iff the string is valid; then on
    the protocol before the first ':' and the text up to the first ';'. -/
theorem accepts_iff (σ : BindState) (a : Bytes) (hr : σ.running = false) :
    (∃ p ad rm ul, (bind σ a).2 = .attempt p ad rm ul) ↔ Valid a := by
  unfold Valid bind
  simp only [hr]
  unfold parseAddress
  cases hs : splitFirst colon a with
  | none => simp
  | some pr =>
    obtain ⟨proto, rest⟩ := pr
    simp only []
    by_cases hu : proto = protoUnix
    · subst hu
      by_cases he : stripParams rest = []
      · have : protoUnix ≠ protoTcp := by decide
        simp [he, this]
      · simp only [if_true, he, if_false]
        unfold listenRequest
        cases hc : stripParams rest with
        | nil => exact absurd hc he
        | cons c cs =>
          simp only [if_true]
          constructor
          · intro _
            exact ⟨protoUnix, rest, rfl, Or.inr ⟨rfl, by simp [hc]⟩⟩
          · intro _
            exact ⟨_, _, _, _, rfl⟩
    · by_cases ht : proto = protoTcp
      · subst ht
        simp only [hu, if_false, if_true]
        unfold listenRequest
        simp only [hu, if_false]
        constructor
        · intro _; exact ⟨protoTcp, rest, rfl, Or.inl rfl⟩
        · intro _; exact ⟨_, _, _, _, rfl⟩
      · simp only [hu, ht, if_false]
        constructor
        · rintro ⟨_, _, _, _, h⟩; cases h
        · rintro ⟨p, r, h, hv⟩
          simp at h
          obtain ⟨rfl, rfl⟩ := h
          rcases hv with h | ⟨h, _⟩
          · exact absurd h ht
          · exact absurd h hu

/-- **History freedom**: the outcome of a bind depends on the string alone, not on what earlier binds
    (successful or refused) left in the service object. -/
theorem bind_history_free (σ σ' : BindState) (a : Bytes) (h : σ.running = false) (h' : σ'.running = false) :
    (bind σ a).2 = (bind σ' a).2 := by
  unfold bind
  simp only [h, h']
  unfold parseAddress
  cases hs : splitFirst colon a with
  | none => simp
  | some pr =>
    obtain ⟨proto, rest⟩ := pr
    simp only []
    by_cases hu : proto = protoUnix
    · by_cases he : stripParams rest = [] <;> simp [hu, he]
    · by_cases ht : proto = protoTcp <;> simp [hu, ht]

/-- a refused or failed bind never leaves the service unable to bind again: the next bind behaves as on
    a fresh service -/
theorem bind_again_after_any_bind (σ : BindState) (a b : Bytes) (h : σ.running = false) :
    (bind (bind σ a).1 b).2 = (bind {} b).2 := by
  apply bind_history_free
  · unfold bind
    simp only [h]
    cases hp : parseAddress σ.fields a with
    | mk f' e =>
      cases e with
      | some e => simp [h]
      | none =>
        simp only []
        cases listenRequest f' <;> simp [h]
  · rfl

/-- **Both sides read the string the same way**: when the service accepts an address, a client given
    the same string dials exactly the endpoint the service listens on, and that endpoint is the
    protocol and the text up to the first ';' — everything from the first ';' on is ignored. -/
theorem tail_ignored_both_sides (σ : BindState) (a p ad : Bytes) (rm ul : Bool)
    (hb : (bind σ a).2 = .attempt p ad rm ul) :
    clientEndpoint a = some (p, ad) ∧ endpointOf a = some (p, ad) ∧ semi ∉ ad := by
  unfold bind at hb
  by_cases hr : σ.running
  · simp [hr] at hb
  · simp only [hr] at hb
    unfold parseAddress at hb
    unfold clientEndpoint endpointOf
    cases hs : splitFirst colon a with
    | none => rw [hs] at hb; simp at hb
    | some pr =>
      obtain ⟨proto, rest⟩ := pr
      rw [hs] at hb
      simp only [] at hb ⊢
      rw [← stripParams_eq_takeWhile]
      have hsemi := stripParams_no_semi rest
      by_cases hu : proto = protoUnix
      · subst hu
        by_cases he : stripParams rest = []
        · simp [he] at hb
        · simp only [if_true, he, if_false] at hb
          unfold listenRequest at hb
          cases hc : stripParams rest with
          | nil => exact absurd hc he
          | cons c cs =>
            rw [hc] at hb
            simp at hb
            obtain ⟨rfl, rfl, _, _⟩ := hb
            rw [hc] at hsemi
            exact ⟨rfl, rfl, hsemi⟩
      · by_cases ht : proto = protoTcp
        · subst ht
          simp only [hu, if_false, if_true] at hb
          unfold listenRequest at hb
          simp [hu] at hb
          obtain ⟨rfl, rfl, _, _⟩ := hb
          exact ⟨rfl, rfl, hsemi⟩
        · simp [hu, ht] at hb

/-- **'@' selects the abstract namespace**: for a unix address the stale-file removal and the
    unlink-on-close (the filesystem-socket lifecycle: created on bind, replacing a stale socket, removed
    at shutdown) are requested exactly when the path does not start with '@'. -/
theorem abstract_iff_at (σ : BindState) (a ad : Bytes) (rm ul : Bool)
    (hb : (bind σ a).2 = .attempt protoUnix ad rm ul) :
    (isAbstract ad = true → rm = false ∧ ul = false) ∧ (isAbstract ad = false → rm = true ∧ ul = true) := by
  unfold bind at hb
  by_cases hr : σ.running
  · simp [hr] at hb
  · simp only [hr] at hb
    unfold parseAddress at hb
    cases hs : splitFirst colon a with
    | none => rw [hs] at hb; simp at hb
    | some pr =>
      obtain ⟨proto, rest⟩ := pr
      rw [hs] at hb
      simp only [] at hb
      by_cases hu : proto = protoUnix
      · subst hu
        by_cases he : stripParams rest = []
        · simp [he] at hb
        · simp only [if_true, he, if_false] at hb
          unfold listenRequest at hb
          cases hc : stripParams rest with
          | nil => exact absurd hc he
          | cons c cs =>
            rw [hc] at hb
            simp at hb
            obtain ⟨hx, h1, h2⟩ := hb
            subst hx
            unfold isAbstract
            by_cases hat : c = at' <;> simp_all
      · by_cases ht : proto = protoTcp
        · subst ht
          simp only [hu, if_false, if_true] at hb
          unfold listenRequest at hb
          simp [hu] at hb
        · simp [hu, ht] at hb

/-- tcp endpoints never touch the file system -/
theorem tcp_no_fs (σ : BindState) (a ad : Bytes) (rm ul : Bool)
    (hb : (bind σ a).2 = .attempt protoTcp ad rm ul) : rm = false ∧ ul = false := by
  unfold bind at hb
  by_cases hr : σ.running
  · simp [hr] at hb
  · simp only [hr] at hb
    unfold parseAddress at hb
    cases hs : splitFirst colon a with
    | none => rw [hs] at hb; simp at hb
    | some pr =>
      obtain ⟨proto, rest⟩ := pr
      rw [hs] at hb
      simp only [] at hb
      by_cases hu : proto = protoUnix
      · subst hu
        by_cases he : stripParams rest = []
        · simp [he] at hb
        · simp only [if_true, he, if_false] at hb
          unfold listenRequest at hb
          cases hc : stripParams rest with
          | nil => exact absurd hc he
          | cons c cs =>
            rw [hc] at hb
            simp at hb
            have : protoUnix ≠ protoTcp := by decide
            exact absurd hb.1 this
      · by_cases ht : proto = protoTcp
        · subst ht
          simp only [hu, if_false, if_true] at hb
          unfold listenRequest at hb
          simp [hu] at hb
          exact ⟨hb.2.1, hb.2.2⟩
        · simp [hu, ht] at hb

/-! ### non-vacuity and regression witnesses (kernel `decide`) -/

example : Valid (str "unix:/run/x;mode=0600") :=
  ⟨str "unix", str "/run/x;mode=0600", by decide, Or.inr ⟨by decide, by decide⟩⟩
example : (bind {} (str "unix:/run/x;mode=0600")).2 = .attempt (str "unix") (str "/run/x") true true := by decide
example : (bind {} (str "unix:@abs;x")).2 = .attempt (str "unix") (str "@abs") false false := by decide
example : (bind {} (str "tcp:127.0.0.1:8080;y")).2 = .attempt (str "tcp") (str "127.0.0.1:8080") false false := by decide
/-- the inputs that used to panic -/
example : (bind {} (str "unix:")).2 = .refusedParse .emptyUnixPath := by decide
example : (bind {} (str "unix:;x")).2 = .refusedParse .emptyUnixPath := by decide
/-- the inputs that used to be served or to re-bind the previous endpoint -/
example : (bind {} (str "unixpacket:@x")).2 = .refusedParse .unknownProtocol := by decide
example : (bind (bind {} (str "unix:/p")).1 (str "foo")).2 = .refusedParse .noProtocol := by decide

/-- **Tie to the source**: the declarations of /repo that this property's model transliterates
    (`Extracted.codeNames_C19`) have, in the current working tree, exactly the fingerprints of the code the
    model was validated against. Any change to them breaks this obligation; the check then searches the
    correspondence streams for an input on which the changed code violates the property. -/
theorem modelled_code_unchanged : Varlink.Extracted.code_C19 = Varlink.ExpectedCode.code_C19 := by decide

/-- no declaration (function, method, type, constant, variable) has been added to or removed from the
    fingerprinted source files since the models were validated: a new method or `init` can change behaviour
    without touching the text of any existing declaration -/
theorem declarations_known : Varlink.Extracted.declarationSet = Varlink.ExpectedCode.declarationSet := by decide

end Varlink.C19
