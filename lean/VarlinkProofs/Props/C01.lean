/-
  C01 — per-call reply discipline on every connection.
  Theorems over `Call.step`, `runActs`, `connLoop`, `connStep`, `runSchedule` (lean/Varlink/Service.lean).
-/
import Varlink.Service
import VarlinkProofs.Props.C02
import Varlink.Extracted.Code
import Varlink.ExpectedCode
namespace Varlink.C01
open Varlink

/-! ### One API call -/

/-- a oneway call never writes, whatever the handler attempts (built-in error replies included) -/
theorem step_oneway_silent (c : CallIn) (h : c.oneway = true) (k : Bool) (a : Act) :
    (Call.step c k a).2.1 = [] := by
  cases a with
  | setContinues b => simp [Call.step]
  | reply p => cases k <;> cases hm : c.more <;> simp [Call.step, sendMessage, h, hm]
  | replyError n p =>
    simp only [Call.step]
    split
    · simp
    · simp
    · split <;> simp [sendMessage, h]
  | replyStd e => simp [Call.step, sendMessage, h]

/-- a frame flagged continues is written only for a call that set more -/
theorem step_continues_needs_more (c : CallIn) (h : c.more = false) (k : Bool) (a : Act) :
    ∀ f ∈ (Call.step c k a).2.1, f.continues = false := by
  intro f hf
  cases a with
  | setContinues b => simp [Call.step] at hf
  | reply p =>
    cases k <;> simp [Call.step, h, sendMessage] at hf
    split at hf
    · simp at hf
    · split at hf <;> simp at hf <;> simp [hf]
  | replyError n p =>
    simp only [Call.step] at hf
    split at hf
    · simp at hf
    · simp at hf
    · split at hf
      · simp at hf
      · simp only [sendMessage] at hf
        split at hf
        · simp at hf
        · split at hf <;> simp at hf <;> simp [hf]
  | replyStd e =>
    simp only [Call.step, sendMessage] at hf
    split at hf <;> simp at hf
    simp [hf]

/-- a reply attempted with `Continues` set on a call without `more` is refused, reported to the
    handler as an error, writes nothing and leaves the call's state as it was -/
theorem refused_is_reported_and_silent (c : CallIn) (h : c.more = false) (p : Payload) :
    Call.step c true (.reply p) = (true, [], .refusedContinues) ∧
    ActResult.isErr .refusedContinues = true := by
  simp [Call.step, h, ActResult.isErr]

/-- conversely the same attempt on a call with `more` (not oneway, encodable payload) writes exactly
    one frame flagged continues -/
theorem continues_reply_on_more_call (c : CallIn) (hm : c.more = true) (ho : c.oneway = false) (v : JVal) :
    Call.step c true (.reply (.val v)) =
      (true, [{ params := some v, continues := true, error := [] }], .sent) := by
  simp [Call.step, hm, ho, sendMessage]

/-- every API call writes at most one frame, and exactly one iff it reports `sent` -/
theorem step_frames_iff_sent (c : CallIn) (k : Bool) (a : Act) :
    ((Call.step c k a).2.2 = .sent → (Call.step c k a).2.1.length = 1) ∧
    ((Call.step c k a).2.2 ≠ .sent → (Call.step c k a).2.1 = []) := by
  cases a with
  | setContinues b => simp [Call.step]
  | reply p =>
    cases k <;> cases hm : c.more <;> cases ho : c.oneway <;> cases p <;>
      simp [Call.step, sendMessage, hm, ho]
  | replyError n p =>
    simp only [Call.step]
    split
    · simp
    · simp
    · split
      · simp
      · cases ho : c.oneway <;> cases p <;> simp [sendMessage, ho]
  | replyStd e =>
    cases ho : c.oneway <;> simp [Call.step, sendMessage, ho]

/-! ### A whole handler script -/

theorem oneway_silent (c : CallIn) (h : c.oneway = true) (k : Bool) (acts : List Act) :
    (runActs c k acts).1 = [] := by
  induction acts generalizing k with
  | nil => simp [runActs]
  | cons a as ih =>
    simp only [runActs]
    have := step_oneway_silent c h k a
    rw [show (Call.step c k a) = ((Call.step c k a).1, (Call.step c k a).2.1, (Call.step c k a).2.2) from rfl]
    simp [this, ih]

theorem continues_needs_more (c : CallIn) (h : c.more = false) (k : Bool) (acts : List Act) :
    ∀ f ∈ (runActs c k acts).1, f.continues = false := by
  induction acts generalizing k with
  | nil => simp [runActs]
  | cons a as ih =>
    intro f hf
    simp only [runActs] at hf
    rw [show (Call.step c k a) = ((Call.step c k a).1, (Call.step c k a).2.1, (Call.step c k a).2.2) from rfl] at hf
    simp at hf
    rcases hf with hf | hf
    · exact step_continues_needs_more c h k a f hf
    · exact ih _ f hf

/-- one result is returned to the handler per API call, in order -/
theorem results_length (c : CallIn) (k : Bool) (acts : List Act) :
    (runActs c k acts).2.length = acts.length := by
  induction acts generalizing k with
  | nil => simp [runActs]
  | cons a as ih =>
    simp only [runActs]
    rw [show (Call.step c k a) = ((Call.step c k a).1, (Call.step c k a).2.1, (Call.step c k a).2.2) from rfl]
    simp [ih]

/-- **exactly the replies the handler issued, nothing else**: the number of frames written equals the
    number of API calls that reported `sent` -/
theorem frames_count_eq_sent (c : CallIn) (k : Bool) (acts : List Act) :
    (runActs c k acts).1.length = ((runActs c k acts).2.filter (· = .sent)).length := by
  induction acts generalizing k with
  | nil => simp [runActs]
  | cons a as ih =>
    simp only [runActs]
    rw [show (Call.step c k a) = ((Call.step c k a).1, (Call.step c k a).2.1, (Call.step c k a).2.2) from rfl]
    simp only [List.length_append, List.filter_cons]
    have hs := step_frames_iff_sent c k a
    by_cases h : (Call.step c k a).2.2 = .sent
    · simp [h, hs.1 h, ih]; omega
    · simp [h, hs.2 h, ih]

/-- the frames of a script are the frames of its steps in order (refinement to the step semantics):
    running `as ++ bs` is running `as`, then `bs` from the `Continues` state `as` left behind -/
def contAfter (c : CallIn) : Bool → List Act → Bool
  | k, [] => k
  | k, a :: as => contAfter c (Call.step c k a).1 as

theorem runActs_append (c : CallIn) (k : Bool) (as bs : List Act) :
    runActs c k (as ++ bs) =
      ((runActs c k as).1 ++ (runActs c (contAfter c k as) bs).1,
       (runActs c k as).2 ++ (runActs c (contAfter c k as) bs).2) := by
  induction as generalizing k with
  | nil => simp [runActs, contAfter]
  | cons a as ih =>
    simp only [List.cons_append, runActs, contAfter]
    rw [show (Call.step c k a) = ((Call.step c k a).1, (Call.step c k a).2.1, (Call.step c k a).2.2) from rfl]
    simp [ih]

/-! ### The connection loop -/

/-- the calls a connection actually serves: decoded in arrival order up to and including the first
    failing handler, stopping silently before the first undecodable frame -/
def served (reg : Registry) (beh : Behaviour) : List Bytes → List CallOutcome
  | [] => []
  | f :: fs =>
    match decodeCall f with
    | none => []
    | some c =>
      let o := handleCall reg beh c
      if o.failed then [o] else o :: served reg beh fs

/-- **answers in arrival order, nothing else**: the bytes a connection emits are the concatenation of
    the per-call reply frames of the served calls, and the dispatch log is theirs in the same order -/
theorem loop_in_order (reg : Registry) (beh : Behaviour) (fs : List Bytes) :
    (connLoop reg beh fs).frames = (served reg beh fs).flatMap (·.frames) ∧
    (connLoop reg beh fs).dispatched = (served reg beh fs).flatMap dispatchEntry ∧
    (connLoop reg beh fs).handled = (served reg beh fs).length := by
  induction fs with
  | nil => simp [connLoop, served]
  | cons f fs ih =>
    simp only [connLoop, served]
    cases hd : decodeCall f with
    | none => simp
    | some c =>
      simp only []
      by_cases hf : (handleCall reg beh c).failed = true
      · simp [hf]
      · simp [hf, ih]

/-- the served calls are the decodings of a *prefix* of the frames: call k is frame k, each outcome
    is a function of that frame alone -/
theorem served_is_prefix (reg : Registry) (beh : Behaviour) (fs : List Bytes) :
    (served reg beh fs).map some =
      (fs.take (served reg beh fs).length).map
        (fun f => (decodeCall f).map (handleCall reg beh)) := by
  induction fs with
  | nil => simp [served]
  | cons f fs ih =>
    simp only [served]
    cases hd : decodeCall f with
    | none => simp
    | some c =>
      by_cases hf : (handleCall reg beh c).failed = true
      · simp [hf, hd]
      · simp [hf, hd, ih]

/-- **a handler that returns an error ends the connection without any further dispatch**; so does an
    undecodable frame -/
theorem nothing_after_failure (reg : Registry) (beh : Behaviour) (f : Bytes) (fs : List Bytes) (c : CallIn)
    (hd : decodeCall f = some c) (hf : (handleCall reg beh c).failed = true) :
    connLoop reg beh (f :: fs) = connLoop reg beh [f] ∧
    (connLoop reg beh (f :: fs)).ending = .handlerError := by
  simp [connLoop, hd, hf]

theorem nothing_after_bad_frame (reg : Registry) (beh : Behaviour) (f : Bytes) (fs : List Bytes)
    (hd : decodeCall f = none) :
    connLoop reg beh (f :: fs) = { ending := .badFrame } := by
  simp [connLoop, hd]

/-- call k+1 is dispatched only after call k's handler has returned: the loop state after serving
    `f` is the state before serving the rest (one handler at a time, by construction of the loop) -/
theorem loop_sequential (reg : Registry) (beh : Behaviour) (f : Bytes) (fs : List Bytes) (c : CallIn)
    (hd : decodeCall f = some c) (hf : (handleCall reg beh c).failed = false) :
    (connLoop reg beh (f :: fs)).frames = (handleCall reg beh c).frames ++ (connLoop reg beh fs).frames ∧
    (connLoop reg beh (f :: fs)).dispatched =
      dispatchEntry (handleCall reg beh c) ++ (connLoop reg beh fs).dispatched := by
  simp [connLoop, hd, hf]

/-! ### Small steps, and independence of connections -/

def initConn (fs : List Bytes) : ConnState := { pending := fs }

/-- a closed connection does nothing any more -/
theorem connStep_closed (reg : Registry) (beh : Behaviour) (s : ConnState) (e : ConnEnd)
    (h : s.closed = some e) : connStep reg beh s = s := by
  simp [connStep, h]

theorem connSteps_closed (reg : Registry) (beh : Behaviour) (n : Nat) (s : ConnState) (e : ConnEnd)
    (h : s.closed = some e) : connSteps reg beh n s = s := by
  induction n with
  | zero => rfl
  | succ n ih => simp [connSteps, connStep_closed reg beh s e h, ih]

/-- running the small-step loop to completion yields the big-step trace, appended to what the
    connection had already done -/
theorem connSteps_complete (reg : Registry) (beh : Behaviour) (s : ConnState) (hc : s.closed = none)
    (n : Nat) (hn : n ≥ s.pending.length + 1) :
    let t := connLoop reg beh s.pending
    (connSteps reg beh n s).frames = s.frames ++ t.frames ∧
    (connSteps reg beh n s).dispatched = s.dispatched ++ t.dispatched ∧
    (connSteps reg beh n s).handled = s.handled + t.handled ∧
    (connSteps reg beh n s).closed = some t.ending := by
  induction n generalizing s with
  | zero => omega
  | succ n ih =>
    obtain ⟨pending, frames, dispatched, handled, closed⟩ := s
    simp only at hc hn
    subst hc
    cases pending with
    | nil =>
      simp only [connSteps, connStep, connLoop]
      rw [connSteps_closed reg beh n _ .eof rfl]
      simp
    | cons f fs =>
      simp only [connSteps, connStep, connLoop]
      cases hd : decodeCall f with
      | none =>
        simp only []
        rw [connSteps_closed reg beh n _ .badFrame rfl]
        simp
      | some c =>
        simp only []
        by_cases hf : (handleCall reg beh c).failed = true
        · simp only [hf, if_true]
          rw [connSteps_closed reg beh n _ .handlerError rfl]
          simp
        · simp only [hf]
          have hlen : n ≥ fs.length + 1 := by simp at hn; omega
          have := ih { pending := fs, frames := frames ++ (handleCall reg beh c).frames,
                       dispatched := dispatched ++ dispatchEntry (handleCall reg beh c),
                       handled := handled + 1, closed := none } rfl hlen
          simp only [Bool.false_eq_true, if_false] at this ⊢
          obtain ⟨h1, h2, h3, h4⟩ := this
          refine ⟨?_, ?_, ?_, ?_⟩
          · rw [h1]; simp
          · rw [h2]; simp
          · rw [h3]; omega
          · rw [h4]

/-- **traffic on other connections does not matter**: under any schedule, connection `i` is in the
    state it reaches alone after as many of its own loop iterations as the schedule gave it -/
theorem connections_independent (reg : Registry) (beh : Behaviour) (σ : Nat → ConnState)
    (sched : List Nat) (i : Nat) :
    runSchedule reg beh σ sched i = connSteps reg beh (sched.count i) (σ i) := by
  induction sched generalizing σ with
  | nil => simp [runSchedule, connSteps]
  | cons j rest ih =>
    simp only [runSchedule]
    rw [ih]
    by_cases h : j = i
    · subst h; simp [connSteps]
    · have h' : ¬ i = j := fun e => h e.symm
      simp [h, h']

/-- corollary: any schedule that lets connection `i` run to completion leaves exactly the trace of
    `connLoop` on its own input, for any number of other connections and any interleaving -/
theorem system_trace (reg : Registry) (beh : Behaviour) (inputs : Nat → List Bytes)
    (sched : List Nat) (i : Nat) (h : sched.count i ≥ (inputs i).length + 1) :
    let s := runSchedule reg beh (fun j => initConn (inputs j)) sched i
    s.frames = (connLoop reg beh (inputs i)).frames ∧
    s.dispatched = (connLoop reg beh (inputs i)).dispatched ∧
    s.closed = some (connLoop reg beh (inputs i)).ending := by
  simp only [connections_independent]
  have := connSteps_complete reg beh (initConn (inputs i)) rfl (sched.count i) (by simpa [initConn] using h)
  simp only [initConn, List.nil_append, Nat.zero_add] at this
  exact ⟨this.1, this.2.1, this.2.2.2⟩


/-! ### byte streams: the partition of the request bytes into writes does not matter -/

/-- what a connection does with a byte stream delivered as the segmentation `net`: the frames the
    reader recovers (any reader capacity), fed to the loop -/
def serveStream (reg : Registry) (beh : Behaviour) (cap n : Nat) (net : Net) : ConnTrace :=
  connLoop reg beh (readAll cap n {} net).1

/-- **All partitions of the request bytes into writes give the same trace**: what is dispatched and
    what is replied depends only on the bytes — it is `connLoop` on the NUL-separated pieces of the
    concatenated stream; an incomplete trailing frame is not in that list, hence never dispatched. -/
theorem trace_independent_of_segmentation (reg : Registry) (beh : Behaviour) (cap : Nat) (hcap : cap > 0)
    (net : Net) (n : Nat) (hn : n > Varlink.C02.nulCount net.flatten) :
    serveStream reg beh cap n net = connLoop reg beh (splitOnNul net.flatten).1 := by
  unfold serveStream
  rw [Varlink.C02.frames_independent_of_segmentation cap hcap n {} net (by simpa [pending] using hn)]
  simp [pending]

theorem same_bytes_same_trace (reg : Registry) (beh : Behaviour) (cap₁ cap₂ : Nat) (h₁ : cap₁ > 0) (h₂ : cap₂ > 0)
    (net₁ net₂ : Net) (h : net₁.flatten = net₂.flatten) (n : Nat) (hn : n > Varlink.C02.nulCount net₁.flatten) :
    serveStream reg beh cap₁ n net₁ = serveStream reg beh cap₂ n net₂ := by
  rw [trace_independent_of_segmentation reg beh cap₁ h₁ net₁ n hn,
      trace_independent_of_segmentation reg beh cap₂ h₂ net₂ n (by rw [← h]; exact hn), h]

/-! ### Non-vacuity -/
example : (runActs { more := true } false
    [.setContinues true, .reply (.val .null), .setContinues false, .reply .absent]).1.length = 2 := by decide
example : (runActs { more := false } false
    [.setContinues true, .reply (.val .null), .setContinues false, .reply .absent]).2
    = [.done, .refusedContinues, .done, .sent] := by decide
example : [0, 1, 0, 1, 0].count 0 ≥ [str "a", str "b"].length + 1 := by decide

/-- **Tie to the source**: the declarations of /repo that this property's model transliterates
    (`Extracted.codeNames_C01`) have, in the current working tree, exactly the fingerprints of the code the
    model was validated against. Any change to them breaks this obligation; the check then searches the
    correspondence streams for an input on which the changed code violates the property. -/
theorem modelled_code_unchanged : Varlink.Extracted.code_C01 = Varlink.ExpectedCode.code_C01 := by decide

/-- no declaration (function, method, type, constant, variable) has been added to or removed from the
    fingerprinted source files since the models were validated: a new method or `init` can change behaviour
    without touching the text of any existing declaration -/
theorem declarations_known : Varlink.Extracted.declarationSet = Varlink.ExpectedCode.declarationSet := by decide

end Varlink.C01
