/-
  C12 — error replies keep their name and parameters end to end.
  Service side: `Call.step` on `.replyError` / `.replyStd`; client side: `dispatchError`.
  The wire leg (render → parse) is `Varlink.C03.reply_wire_roundtrip`.
-/
import Varlink.Client
import VarlinkProofs.Lemmas.Basic
import Varlink.Extracted.Code
import Varlink.ExpectedCode
import Varlink.JsonWF
import VarlinkProofs.Props.C03
namespace Varlink.C12
open Varlink

/-- an error name of the form `<interface>.<Name>` -/
def WellFormedErrorName (n : Bytes) : Prop :=
  ∃ i m, n = i ++ dot :: m ∧ i ≠ [] ∧ dot ∉ m ∧ i ≠ orgVarlinkService

/-- **accepted exactly for `<interface>.<Name>` outside org.varlink.service** -/
theorem replyError_accepts_iff (c : CallIn) (k : Bool) (n : Bytes) (p : Payload) :
    ((Call.step c k (.replyError n p)).2.2 ≠ .refusedName ∧
     (Call.step c k (.replyError n p)).2.2 ≠ .refusedReserved) ↔ WellFormedErrorName n := by
  constructor
  · intro ⟨h1, h2⟩
    simp only [Call.step] at h1 h2
    cases hl : lastIndexOf dot n with
    | none => simp [hl] at h1
    | some r =>
      cases r with
      | zero => simp [hl] at h1
      | succ r =>
        simp only [hl] at h2
        obtain ⟨hs, hn, hlt⟩ := lastIndexOf_some hl
        refine ⟨n.take (r + 1), n.drop (r + 1 + 1), hs, ?_, hn, ?_⟩
        · intro he
          have : (n.take (r + 1)).length = r + 1 := by simp; omega
          rw [he] at this; simp at this
        · intro he
          simp [he] at h2
  · rintro ⟨i, m, rfl, hi, hm, hne⟩
    have hl := lastIndexOf_of_split dot i m hm
    obtain ⟨r, hr⟩ : ∃ r, i.length = r + 1 := by
      cases i with
      | nil => exact absurd rfl hi
      | cons x xs => exact ⟨xs.length, rfl⟩
    rw [hr] at hl
    have ht : (i ++ dot :: m).take (r + 1) = i := by rw [← hr]; simp
    simp only [Call.step, hl, ht, hne, if_false]
    cases ho : c.oneway <;> cases p <;> simp [sendMessage, ho]

/-- names without an interface part, and names in the reserved namespace, are refused: an error is
    reported to the handler and nothing is written -/
theorem refused_writes_nothing (c : CallIn) (k : Bool) (n : Bytes) (p : Payload)
    (h : ¬ WellFormedErrorName n) :
    (Call.step c k (.replyError n p)).2.1 = [] ∧
    ((Call.step c k (.replyError n p)).2.2 = .refusedName ∨
     (Call.step c k (.replyError n p)).2.2 = .refusedReserved) := by
  simp only [Call.step]
  cases hl : lastIndexOf dot n with
  | none => simp
  | some r =>
    cases r with
    | zero => simp
    | succ r =>
      by_cases hne : n.take (r + 1) = orgVarlinkService
      · simp [hne]
      · exfalso; apply h
        obtain ⟨hs, hn, hlt⟩ := lastIndexOf_some hl
        refine ⟨n.take (r + 1), n.drop (r + 1 + 1), hs, ?_, hn, hne⟩
        intro he
        have : (n.take (r + 1)).length = r + 1 := by simp; omega
        rw [he] at this; simp at this

/-- an accepted error reply (call not oneway, payload encodable) writes one frame carrying exactly the
    name and the parameters the handler passed; it never carries the continues flag -/
theorem accepted_frame (c : CallIn) (k : Bool) (n : Bytes) (h : WellFormedErrorName n)
    (ho : c.oneway = false) (v : Option JVal) :
    (Call.step c k (.replyError n (match v with | some x => .val x | none => .absent))).2.1
      = [{ params := v, continues := false, error := n }] := by
  obtain ⟨i, m, rfl, hi, hm, hne⟩ := h
  have hl := lastIndexOf_of_split dot i m hm
  obtain ⟨r, hr⟩ : ∃ r, i.length = r + 1 := by
    cases i with
    | nil => exact absurd rfl hi
    | cons x xs => exact ⟨xs.length, rfl⟩
  rw [hr] at hl
  have ht : (i ++ dot :: m).take (r + 1) = i := by rw [← hr]; simp
  cases v <;> simp [Call.step, hl, ht, hne, sendMessage, ho]

/-- **client side: any other name reaches the caller as the generic error with that exact name and
    those parameters** -/
theorem remote_error_exact (n : Bytes) (p : Option JVal)
    (h1 : n ≠ str "org.varlink.service.InterfaceNotFound")
    (h2 : n ≠ str "org.varlink.service.MethodNotFound")
    (h3 : n ≠ str "org.varlink.service.MethodNotImplemented")
    (h4 : n ≠ str "org.varlink.service.InvalidParameter") :
    dispatchError n p = .remoteError n p := by
  simp [dispatchError, h1, h2, h3, h4]

/-- a well-formed user error name is never one of the four reserved names -/
theorem wellformed_not_reserved (n : Bytes) (h : WellFormedErrorName n) (e : StdErr) : n ≠ e.name := by
  obtain ⟨i, m, rfl, hi, hm, hne⟩ := h
  intro he
  -- the reserved names split at their last dot into org.varlink.service and a dot-free name
  have key : ∀ (x : Bytes), dot ∉ x → i ++ dot :: m = orgVarlinkService ++ dot :: x → i = orgVarlinkService := by
    intro x hx heq
    have a := lastIndexOf_of_split dot i m hm
    have b := lastIndexOf_of_split dot orgVarlinkService x hx
    rw [heq] at a
    rw [a] at b
    have hlen : i.length = orgVarlinkService.length := by simpa using b
    have := congrArg (List.take i.length) heq
    simp at this
    rw [hlen] at this
    simpa using this
  cases e with
  | interfaceNotFound a => exact hne (key (str "InterfaceNotFound") (by decide) he)
  | methodNotFound a => exact hne (key (str "MethodNotFound") (by decide) he)
  | methodNotImplemented a => exact hne (key (str "MethodNotImplemented") (by decide) he)
  | invalidParameter a => exact hne (key (str "InvalidParameter") (by decide) he)

/-- hence: an accepted user error arrives as `remoteError` with its name and parameters -/
theorem user_error_end_to_end (n : Bytes) (h : WellFormedErrorName n) (p : Option JVal) :
    dispatchError n p = .remoteError n p :=
  remote_error_exact n p
    (wellformed_not_reserved n h (.interfaceNotFound []))
    (wellformed_not_reserved n h (.methodNotFound []))
    (wellformed_not_reserved n h (.methodNotImplemented []))
    (wellformed_not_reserved n h (.invalidParameter []))

theorem decodeOneString_strObj (k v : Bytes) : decodeOneString k (strObj k v) = some v := by
  simp [decodeOneString, strObj, decodeOneString.go, keyMatches]

/-- **the four org.varlink.service errors reach the client as their dedicated typed errors carrying
    the interface / method / parameter name the service put in** -/
theorem std_errors_typed (e : StdErr) : dispatchError e.name (some e.params) = .stdError e := by
  have n12 : str "org.varlink.service.MethodNotFound" ≠ str "org.varlink.service.InterfaceNotFound" := by decide
  have n13 : str "org.varlink.service.MethodNotImplemented" ≠ str "org.varlink.service.InterfaceNotFound" := by decide
  have n14 : str "org.varlink.service.InvalidParameter" ≠ str "org.varlink.service.InterfaceNotFound" := by decide
  have n23 : str "org.varlink.service.MethodNotImplemented" ≠ str "org.varlink.service.MethodNotFound" := by decide
  have n24 : str "org.varlink.service.InvalidParameter" ≠ str "org.varlink.service.MethodNotFound" := by decide
  have n34 : str "org.varlink.service.InvalidParameter" ≠ str "org.varlink.service.MethodNotImplemented" := by decide
  cases e <;>
    simp [dispatchError, StdErr.name, StdErr.params, decodeOneString_strObj, n12, n13, n14, n23, n24, n34]

/-! ### over the wire: the bytes `sendMessage` writes, read back by the client's `receive` -/

/-- **End to end, bytes included**: when a handler sends a well-formed user error with a JSON object as
    parameters on a call that is not oneway, the service writes exactly one frame, and the client decoding
    those bytes gets the generic error with exactly that name and JSON-equal parameters (same members,
    strings byte for byte, numbers digit for digit). -/
theorem user_error_over_the_wire (c : CallIn) (k : Bool) (n : Bytes) (p : JVal) (h : WellFormedErrorName n)
    (ho : c.oneway = false) (hn : utf8Ok n = true) (hp : p.wf = true) (hnull : p ≠ .null)
    (hd : p.depth < maxDepth) :
    ∃ f, (Call.step c k (.replyError n (.val p))).2.1 = [f] ∧
      receiveFrame (render (replyObj f)) = .remoteError n (some p) := by
  have hf := accepted_frame c k n h ho (some p)
  refine ⟨_, hf, ?_⟩
  have hne : n ≠ [] := by
    obtain ⟨i, m, rfl, hi, _, _⟩ := h
    intro e
    cases i with
    | nil => exact hi rfl
    | cons x xs => simp at e
  rw [Varlink.C03.error_roundtrip n p hn hne hp hnull hd]
  exact user_error_end_to_end n h (some p)

/-- the same for the four standard errors: the bytes the typed helpers write come back as the typed
    error carrying the name the service put in -/
theorem std_error_over_the_wire (e : StdErr) (hpay : e.params.wf = true) :
    receiveFrame (render (replyObj { params := some e.params, continues := false, error := e.name })) = .stdError e := by
  have hname : utf8Ok e.name = true := by cases e <;> (simp only [StdErr.name]; decide)
  have hne : e.name ≠ [] := by cases e <;> (simp only [StdErr.name]; decide)
  have hnull : e.params ≠ .null := by cases e <;> simp [StdErr.params, strObj]
  have hd : e.params.depth < maxDepth := by cases e <;> simp [StdErr.params, strObj, JVal.depth, JMembers.depth, maxDepth]
  rw [Varlink.C03.error_roundtrip e.name e.params hname hne hpay hnull hd]
  exact std_errors_typed e

/-! ### Non-vacuity -/
example : utf8Ok (str "org.example.Err") = true ∧ (JVal.obj (.cons (str "code") (.num (str "42")) .nil)).wf = true := by decide

example : WellFormedErrorName (str "org.example.Err") :=
  ⟨str "org.example", str "Err", by decide, by decide, by decide, by decide⟩
example : ¬ WellFormedErrorName (str "org.varlink.service.Err") := by
  intro h
  have := (replyError_accepts_iff {} false (str "org.varlink.service.Err") .absent).mpr h
  revert this; decide
example : (Call.step {} false (.replyError (str "Err") .absent)).2.2 = .refusedName := by decide

/-- **Tie to the source**: the declarations of /repo that this property's model transliterates
    (`Extracted.codeNames_C12`) have, in the current working tree, exactly the fingerprints of the code the
    model was validated against. Any change to them breaks this obligation; the check then searches the
    correspondence streams for an input on which the changed code violates the property. -/
theorem modelled_code_unchanged : Varlink.Extracted.code_C12 = Varlink.ExpectedCode.code_C12 := by decide

/-- no declaration (function, method, type, constant, variable) has been added to or removed from the
    fingerprinted source files since the models were validated: a new method or `init` can change behaviour
    without touching the text of any existing declaration -/
theorem declarations_known : Varlink.Extracted.declarationSet = Varlink.ExpectedCode.declarationSet := by decide

end Varlink.C12
