/-
  C20 — socket activation picks the right inherited descriptor or none.
  Model: lean/Varlink/Activation.lean (`atoi`, `selectFd`, `activation`), a transliteration of
  `activationListener` in socketactivation.go and of its use in `setListener`.
-/
import Varlink.Activation
import Varlink.Extracted.Code
import Varlink.ExpectedCode
namespace Varlink.C20
open Varlink

/-- `firstIndex` finds the first position holding `x`. -/
theorem firstIndex_spec (x : Bytes) (ys : List Bytes) (i : Nat) :
    firstIndex x ys = some i ↔ ys[i]? = some x ∧ ∀ j, j < i → ys[j]? ≠ some x := by
  induction ys generalizing i with
  | nil => simp [firstIndex]
  | cons y ys ih =>
    unfold firstIndex
    by_cases hy : y = x
    · subst hy
      simp only [if_true]
      constructor
      · intro h; cases h; simp
      · intro ⟨h0, hmin⟩
        cases i with
        | zero => rfl
        | succ k => exact absurd (by simp) (hmin 0 (Nat.succ_pos k))
    · simp only [hy, if_false]
      cases i with
      | zero =>
        simp only [Option.map_eq_some_iff]
        constructor
        · rintro ⟨a, _, ha⟩; omega
        · rintro ⟨h0, _⟩; simp at h0; exact absurd h0 hy
      | succ k =>
        have := ih k
        simp only [Option.map_eq_some_iff]
        constructor
        · rintro ⟨a, ha, hk⟩
          have hak : a = k := by omega
          subst hak
          obtain ⟨h1, h2⟩ := this.mp ha
          refine ⟨by simpa using h1, ?_⟩
          intro j hj
          cases j with
          | zero => simp; exact hy
          | succ j' => simpa using h2 j' (by omega)
        · rintro ⟨h1, h2⟩
          refine ⟨k, this.mpr ⟨by simpa using h1, ?_⟩, rfl⟩
          intro j hj
          simpa using h2 (j + 1) (by omega)

theorem firstIndex_none (x : Bytes) (ys : List Bytes) : firstIndex x ys = none ↔ x ∉ ys := by
  induction ys with
  | nil => simp [firstIndex]
  | cons y ys ih =>
    unfold firstIndex
    by_cases hy : y = x
    · simp [hy]
    · simp [hy, ih]; exact fun _ h => hy h.symm

/-- **Selection, complete characterisation.** A descriptor is selected exactly when LISTEN_PID parses to
    this process's pid and LISTEN_FDS parses to `n ≥ 1`; it is descriptor 3 when `n = 1`, and otherwise
    `3 + i` where `i` is the position of the first entry equal to "varlink" in LISTEN_FDNAMES, which must
    be set and have exactly `n` colon-separated entries. -/
theorem select_spec (env : ActEnv) (pid : Int) (fd : Nat) :
    selectFd env pid = some fd ↔
      atoi (env.listenPid.getD []) = some pid ∧
      ∃ n : Int, atoi (env.listenFds.getD []) = some n ∧ 1 ≤ n ∧
        ((n = 1 ∧ fd = 3) ∨
         (1 < n ∧ ∃ names, env.listenFdNames = some names ∧
            ((splitAll colon names).length : Int) = n ∧
            ∃ i, firstIndex (str "varlink") (splitAll colon names) = some i ∧ fd = 3 + i)) := by
  unfold selectFd
  cases hp : atoi (env.listenPid.getD []) with
  | none => simp
  | some p =>
    by_cases hpp : p = pid
    · subst hpp
      simp only [ne_eq, not_true_eq_false, if_false, true_and]
      cases hn : atoi (env.listenFds.getD []) with
      | none => simp
      | some n =>
        by_cases h1 : n < 1
        · simp only [h1, if_true]
          constructor
          · intro h; cases h
          · rintro ⟨m, hm, hge, _⟩; cases hm; omega
        · simp only [h1, if_false]
          by_cases h2 : n > 1
          · simp only [h2, if_true]
            cases hnames : env.listenFdNames with
            | none =>
              constructor
              · intro h; cases h
              · rintro ⟨m, hm, _, h | ⟨_, nm, hnm, _⟩⟩
                · cases hm; omega
                · cases hnm
            | some names =>
              by_cases hl : ((splitAll colon names).length : Int) ≠ n
              · simp only [hl, if_true]
                constructor
                · intro h; cases h
                · rintro ⟨m, hm, _, h | ⟨_, nm, hnm, hlen, _⟩⟩
                  · cases hm; omega
                  · cases hnm; cases hm; exact absurd hlen hl
              · simp only [hl, if_false]
                have hl' : ((splitAll colon names).length : Int) = n := by simpa using hl
                constructor
                · intro h
                  obtain ⟨i, hi, hfd⟩ := Option.map_eq_some_iff.mp h
                  exact ⟨n, rfl, by omega, Or.inr ⟨h2, names, rfl, hl', i, hi, hfd.symm⟩⟩
                · rintro ⟨m, hm, _, h | ⟨_, nm, hnm, _, i, hi, hfd⟩⟩
                  · cases hm; omega
                  · cases hnm; simp [hi, hfd]
          · simp only [h2, if_false]
            have hn1 : n = 1 := by omega
            constructor
            · intro h; cases h; exact ⟨n, rfl, by omega, Or.inl ⟨hn1, rfl⟩⟩
            · rintro ⟨m, hm, _, ⟨_, hfd⟩ | ⟨hgt, _⟩⟩
              · simp [hfd]
              · cases hm; omega
    · simp only [ne_eq, hpp, not_false_eq_true, if_true]
      constructor
      · intro h; cases h
      · rintro ⟨h, _⟩; cases h; exact absurd rfl hpp

/-- **Activation is used exactly when** a descriptor is selected and it is a listening socket; in every
    other environment the service falls back to binding the address argument (`none`). -/
theorem activation_used_iff (env : ActEnv) (pid : Int) (kind : Nat → FdKind) (fd : Nat) :
    activation env pid kind = some fd ↔ selectFd env pid = some fd ∧ kind fd = .listeningSocket := by
  unfold activation
  cases h : selectFd env pid with
  | none => simp
  | some g =>
    by_cases hk : kind g = .listeningSocket
    · simp only [hk, if_true]
      constructor
      · intro e; cases e; exact ⟨rfl, hk⟩
      · rintro ⟨e, _⟩; cases e; rfl
    · simp only [hk, if_false]
      constructor
      · intro e; cases e
      · rintro ⟨e, hk'⟩; cases e; exact absurd hk' hk

theorem fallback_iff (env : ActEnv) (pid : Int) (kind : Nat → FdKind) :
    activation env pid kind = none ↔ ∀ fd, selectFd env pid = some fd → kind fd ≠ .listeningSocket := by
  unfold activation
  cases h : selectFd env pid with
  | none => simp
  | some g =>
    by_cases hk : kind g = .listeningSocket
    · simp [hk]
    · simp [hk]

/-- pid mismatch, unset or non-numeric LISTEN_PID: never activated, whatever else is set -/
theorem pid_mismatch_falls_back (env : ActEnv) (pid : Int) (kind : Nat → FdKind)
    (h : atoi (env.listenPid.getD []) ≠ some pid) : activation env pid kind = none := by
  rw [fallback_iff]
  intro fd hs
  exact absurd ((select_spec env pid fd).mp hs).1 h

/-- non-numeric or non-positive LISTEN_FDS: never activated -/
theorem bad_count_falls_back (env : ActEnv) (pid : Int) (kind : Nat → FdKind)
    (h : ∀ n : Int, atoi (env.listenFds.getD []) = some n → n < 1) : activation env pid kind = none := by
  rw [fallback_iff]
  intro fd hs
  obtain ⟨_, n, hn, hge, _⟩ := (select_spec env pid fd).mp hs
  have := h n hn
  omega

/-- several descriptors but no "varlink" entry (or names unset / wrong arity): never activated -/
theorem no_varlink_entry_falls_back (env : ActEnv) (pid : Int) (kind : Nat → FdKind) (n : Int)
    (hn : atoi (env.listenFds.getD []) = some n) (h1 : 1 < n)
    (h : ∀ names, env.listenFdNames = some names →
      ((splitAll colon names).length : Int) ≠ n ∨ str "varlink" ∉ splitAll colon names) :
    activation env pid kind = none := by
  rw [fallback_iff]
  intro fd hs
  obtain ⟨_, m, hm, _, hc⟩ := (select_spec env pid fd).mp hs
  rw [hn] at hm; cases hm
  rcases hc with ⟨h, _⟩ | ⟨_, names, hnames, hlen, i, hi, _⟩
  · omega
  · rcases h names hnames with hne | hnot
    · exact absurd hlen hne
    · rw [(firstIndex_none _ _).mpr hnot] at hi; cases hi

/-- the selected descriptor is always one of the `n` passed ones: `3 ≤ fd < 3 + n` -/
theorem selected_in_range (env : ActEnv) (pid : Int) (fd : Nat) (n : Int)
    (hn : atoi (env.listenFds.getD []) = some n) (hs : selectFd env pid = some fd) :
    3 ≤ fd ∧ (fd : Int) < 3 + n := by
  obtain ⟨_, m, hm, hge, hc⟩ := (select_spec env pid fd).mp hs
  rw [hn] at hm; cases hm
  rcases hc with ⟨h1, hfd⟩ | ⟨_, names, _, hlen, i, hi, hfd⟩
  · subst hfd; omega
  · have := ((firstIndex_spec _ _ i).mp hi).1
    have hi' : i < (splitAll colon names).length := by
      rcases Nat.lt_or_ge i (splitAll colon names).length with h | h
      · exact h
      · rw [List.getElem?_eq_none h] at this; cases this
    subst hfd; omega

/-! ### `atoi` accepts exactly optionally signed decimal digit strings -/

theorem digitsVal_some_iff (acc : Nat) (s : Bytes) :
    (digitsVal acc s).isSome ↔ ∀ c ∈ s, 48 ≤ c ∧ c ≤ 57 := by
  induction s generalizing acc with
  | nil => simp [digitsVal]
  | cons c cs ih =>
    unfold digitsVal
    by_cases h : (48 ≤ c && c ≤ 57) = true
    · simp only [h, if_true, ih]
      simp only [Bool.and_eq_true, decide_eq_true_eq] at h
      simp [h]
    · simp only [h]
      simp only [Bool.and_eq_true, decide_eq_true_eq] at h
      simp; exact fun h1 h2 => absurd ⟨h1, h2⟩ h

/-! ### non-vacuity: concrete environments on both sides of every case distinction -/

def envOne : ActEnv := { listenPid := some (str "4242"), listenFds := some (str "1"), listenFdNames := none }
def envThree : ActEnv :=
  { listenPid := some (str "4242"), listenFds := some (str "3"), listenFdNames := some (str "x:varlink:varlink") }

example : selectFd envOne 4242 = some 3 := by decide
example : selectFd envThree 4242 = some 4 := by decide
example : selectFd envThree 4243 = none := by decide
example : activation envThree 4242 (fun fd => if fd = 4 then .listeningSocket else .other) = some 4 := by decide
example : activation envThree 4242 (fun _ => .other) = none := by decide
example : selectFd { envThree with listenFdNames := some (str "x:varlink") } 4242 = none := by decide
example : selectFd { envThree with listenFds := some (str "0") } 4242 = none := by decide
example : selectFd { envThree with listenFds := some (str "foo") } 4242 = none := by decide

/-- **Tie to the source**: the declarations of /repo that this property's model transliterates
    (`Extracted.codeNames_C20`) have, in the current working tree, exactly the fingerprints of the code the
    model was validated against. Any change to them breaks this obligation; the check then searches the
    correspondence streams for an input on which the changed code violates the property. -/
theorem modelled_code_unchanged : Varlink.Extracted.code_C20 = Varlink.ExpectedCode.code_C20 := by decide

/-- no declaration (function, method, type, constant, variable) has been added to or removed from the
    fingerprinted source files since the models were validated: a new method or `init` can change behaviour
    without touching the text of any existing declaration -/
theorem declarations_known : Varlink.Extracted.declarationSet = Varlink.ExpectedCode.declarationSet := by decide

end Varlink.C20
