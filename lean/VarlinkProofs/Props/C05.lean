/-
  C05 — IDL parser: grammar-conformant descriptions parse to the tree they denote.

  A *layouted description* `L : LIdl` (lean/Varlink/Idl/Layout.lean) is a syntax tree together with the layout
  material (lists of atoms: space, tab, CR, LF, `#text⏎`) in every gap between two tokens of the grammar, plus an
  optional last comment without line feed. `L.render` is its text, `L.tree` the tree it denotes: name, members in
  source order with every field name and type constructor as written, `Description = L.render` verbatim, and each
  member documented by the block of whole-line comments directly above the line of its keyword (`L.docs`; for a
  member that starts on a new line this is `docOf` of the gap in front of it).

  `parse_render` proves: for EVERY layouted description inside the grammar (`LIdl.fits`: names, distinct members, a
  method, no `??`, an error's parameters are a parenthesised list, comment texts without line feed, and a
  non-empty gap wherever two words would otherwise merge) the parser model returns exactly `L.tree`. There is no
  layout guard: every gap may hold any mixture of spaces, tabs, CR, line feeds and comments — also the gap between
  an error's name and its parameter list, and members may share a line (also behind an error without parameters).
  (Up to /repo a1069ea two guards were needed, "every member starts on a new line" and "an error's type stands on the
  line of its name": `readError` skipped only spaces and tabs in front of the optional type and took whatever
  followed for the type. Since /repo 995dcfd it looks ahead for `(`; the two former counter-witnesses are examples
  below. A third guard of an earlier version — no line break between `interface` and the interface name — is gone
  since /repo b98cbe2 takes IDL.Doc before skipping that gap; `interface_doc_independent_of_layout_behind_keyword`.)
  Proof: VarlinkProofs/Lemmas/IdlRender.lean — forward lemmas per reader ("if the input in front of the cursor is the
  rendering of x followed by a token boundary, the reader returns x, stops behind it and has moved the pending
  documentation as `x.pend` says"), by induction on gaps, on the layouted type (mutually with field lists) and on
  the member list; crashes are excluded by C09's totality lemma.
-/
import Varlink.Idl.Layout
import Varlink.Extracted.Idl
import VarlinkProofs.Lemmas.IdlRender
import Varlink.Extracted.Code
import Varlink.ExpectedCode
namespace Varlink.C05
open Varlink Varlink.Idl

/-- The string literals of idl.go the model is written against, regenerated from /repo's source on every run
    (lean/Varlink/Extracted/Idl.lean): the two interface-name patterns (modelled by `matchDn` / `matchXdn`), the keywords
    of `readType` and `readIDL`, the error messages (`PErr`). A change of any of them breaks this theorem. -/
theorem source_literals :
    Extracted.idlNameRegexps =
      ["^[a-zA-Z]+(\\.[a-zA-Z0-9]+([-][a-zA-Z0-9]+)*)+", "^xn--[a-z0-9]+(\\.[a-z0-9]+([-][a-z0-9]+)*)+"] ∧
    Extracted.idlTypeKeywords = ["string", "bool", "int", "float", "string", "object"] ∧
    Extracted.idlMemberStrings =
      ["interface", "missing interface keyword", "interface name", "type", "type `%s` already defined", "method",
       "method `%s` already defined", "error", "error `%s` already defined", "unknown keyword '%s'"] ∧
    Extracted.idlMessages =
      ["missing type name", "missing type declaration", "missing method type", "missing method input",
       "missing method '->' operator", "missing method output", "missing error name", "invalid error type",
       "no methods defined"] := by
  decide

/-- **Parse what was rendered**: every description inside the grammar, under every layout in every gap, is
    accepted and the tree is exactly the one the text denotes — interface name, every member in source order, every
    field name and type constructor nested as written, the documentation of each member = the comment block above
    it, the interface documentation = the comment block at the start, the description retained verbatim. -/
theorem parse_render (L : LIdl) (h : L.fits = true) : New L.render = .ok L.tree :=
  New_render L h

/-- the members come out in source order — kinds, names and types as written —, also in the lists by kind (which
    are the sub-sequences of `Members`) -/
theorem members_in_source_order (L : LIdl) (h : L.fits = true) :
    ∃ t, New L.render = .ok t ∧ t.name = L.name ∧
      t.members.map (Member.setDoc []) = L.members.map (fun p => p.2.erase []) ∧
      t.members = L.tree.members ∧
      t.methods = L.tree.members.filter Member.isMethod ∧
      t.aliases = L.tree.members.filter Member.isAlias ∧
      t.errors = L.tree.members.filter Member.isError :=
  ⟨L.tree, New_render L h, rfl, membersTree_skeleton _ _, rfl, rfl, rfl, rfl⟩

/-- … and when the members start on lines of their own, each member is the layouted member without its layout,
    documented by `docOf` of the gap in front of it -/
theorem members_in_source_order_own_lines (L : LIdl) (h : L.fits = true)
    (hb : ∀ p ∈ L.members, p.1.hasBreak = true) :
    ∃ t, New L.render = .ok t ∧ t.name = L.name ∧
      t.members = L.members.map (fun p => p.2.erase (docOf p.1)) ∧
      t.methods = (L.members.map (fun p => p.2.erase (docOf p.1))).filter Member.isMethod ∧
      t.aliases = (L.members.map (fun p => p.2.erase (docOf p.1))).filter Member.isAlias ∧
      t.errors = (L.members.map (fun p => p.2.erase (docOf p.1))).filter Member.isError := by
  have e : L.tree.members = L.members.map (fun p => p.2.erase (docOf p.1)) := membersTree_own_lines _ _ hb
  refine ⟨L.tree, New_render L h, rfl, e, ?_, ?_, ?_⟩ <;> simp only [Idl.methods, Idl.aliases, Idl.errors, e]

/-- the description text is retained verbatim -/
theorem description_verbatim (L : LIdl) (h : L.fits = true) :
    ∃ t, New L.render = .ok t ∧ t.description = L.render := ⟨L.tree, New_render L h, rfl⟩

/-- **Documentation**: each member's `Doc` is the comment block directly above the line of its keyword (`L.docs`) … -/
theorem docs_from_block (L : LIdl) (h : L.fits = true) :
    ∃ t, New L.render = .ok t ∧ t.members.map Member.doc = L.docs :=
  ⟨L.tree, New_render L h, membersTree_docs _ _⟩

/-- … which, when the members start on lines of their own, is `docOf` of the gap in front of each member: nothing
    in front of that gap matters -/
theorem docs_from_block_own_lines (L : LIdl) (h : L.fits = true) (hb : ∀ p ∈ L.members, p.1.hasBreak = true) :
    ∃ t, New L.render = .ok t ∧ t.members.map Member.doc = L.members.map (fun p => docOf p.1) := by
  refine ⟨L.tree, New_render L h, ?_⟩
  rw [show L.tree.members.map Member.doc = L.docs from membersTree_docs _ _]
  exact memberDocs_own_lines _ _ hb

/-- a member that starts on a new line: `Doc` is `docOf` of its gap, whatever was pending -/
theorem doc_of_member_on_own_line (lc : Bytes) (g : Gap) (m : LMember) (r : List (Gap × LMember))
    (hb : g.hasBreak = true) : (memberDocs lc ((g, m) :: r)).head? = some (docOf g) := by
  simp [memberDocs, gapPend_break g lc hb]

/-- a member that continues a line (only spaces, tabs, CR in front of it): `Doc` is the block above that line -/
theorem doc_of_member_on_same_line (lc : Bytes) (g : Gap) (m : LMember) (r : List (Gap × LMember))
    (hb : g.blank = true) : (memberDocs lc ((g, m) :: r)).head? = some lc := by
  simp [memberDocs, gapPend, gapDoc_blank g _ hb]

/-- what `docOf` is: whatever stands in the gap up to and including a line feed atom is irrelevant — the
    documentation is that of the lines below it … -/
theorem docOf_after_newline (pre blk : Gap) : docOf (pre ++ .nl :: blk) = (gapDoc (true, []) blk).2 := by
  simp [docOf, gapPend, gapDoc, List.foldl_append, docStep]

/-- … also what was pending in front of the gap … -/
theorem gapPend_after_newline (lc : Bytes) (pre blk : Gap) :
    gapPend lc (pre ++ .nl :: blk) = (gapDoc (true, []) blk).2 := by
  simp [gapPend, gapDoc, List.foldl_append, docStep]

/-- … a trailing comment on the line of the previous token is not documentation … -/
theorem docOf_trailing_comment (t : Bytes) (blk : Gap) : docOf (.comment t :: blk) = (gapDoc (true, []) blk).2 := by
  simp [docOf, gapPend, gapDoc, docStep]

/-- … indentation does not matter, a whole-line comment adds its text (one optional space after `#` and a CR at the
    end removed) on a new line of the documentation, and a blank line drops what was collected. -/
theorem gapDoc_line (st : Bool × Bytes) :
    gapDoc st [.sp] = st ∧ gapDoc st [.tab] = st ∧ gapDoc st [.cr] = st ∧ gapDoc st [.nl] = (true, []) ∧
    (∀ lc t, gapDoc (true, lc) [.comment t] = (true, (if lc.length > 0 then lc ++ [10] else lc) ++ docLine t)) := by
  refine ⟨rfl, rfl, rfl, rfl, fun _ _ => rfl⟩

/-- the tree without documentation and description (what "does not depend on layout" refers to) -/
def skeleton (t : Idl) : Bytes × List Member := (t.name, t.members.map (Member.setDoc []))

/-- **Layout independence**: two layouts of the same syntax give the same tree — same name, same members in the same
    order with the same types; if also the comment blocks above the members agree, the same documentation. -/
theorem layout_independent (L1 L2 : LIdl) (h1 : L1.fits = true) (h2 : L2.fits = true)
    (hname : L1.name = L2.name)
    (hsyn : L1.members.map (fun p => p.2.erase []) = L2.members.map (fun p => p.2.erase [])) :
    ∃ t1 t2, New L1.render = .ok t1 ∧ New L2.render = .ok t2 ∧ skeleton t1 = skeleton t2 ∧
      (L1.docs = L2.docs → t1.members = t2.members) := by
  have hsk : L1.tree.members.map (Member.setDoc []) = L2.tree.members.map (Member.setDoc []) := by
    simp only [LIdl.tree, membersTree_skeleton, hsyn]
  refine ⟨L1.tree, L2.tree, New_render L1 h1, New_render L2 h2, ?_, ?_⟩
  · simp only [skeleton, Prod.mk.injEq]
    exact ⟨hname, hsk⟩
  · intro hdocs
    apply members_ext _ _ hsk
    simp only [LIdl.tree, membersTree_docs]
    exact hdocs

/-- … in particular when the members of both layouts start on lines of their own and the comment blocks in the
    gaps in front of them agree -/
theorem layout_independent_own_lines (L1 L2 : LIdl) (h1 : L1.fits = true) (h2 : L2.fits = true)
    (hname : L1.name = L2.name)
    (hsyn : L1.members.map (fun p => p.2.erase []) = L2.members.map (fun p => p.2.erase []))
    (hb1 : ∀ p ∈ L1.members, p.1.hasBreak = true) (hb2 : ∀ p ∈ L2.members, p.1.hasBreak = true)
    (hdocs : L1.members.map (fun p => docOf p.1) = L2.members.map (fun p => docOf p.1)) :
    ∃ t, New L1.render = .ok t ∧ ∃ t', New L2.render = .ok t' ∧ t.name = t'.name ∧ t.members = t'.members := by
  obtain ⟨t1, t2, e1, e2, hsk, hm⟩ := layout_independent L1 L2 h1 h2 hname hsyn
  refine ⟨t1, e1, t2, e2, congrArg Prod.fst hsk, hm ?_⟩
  simp only [LIdl.docs]
  rw [memberDocs_own_lines _ _ hb1, memberDocs_own_lines _ _ hb2, hdocs]

/-! ### the layouts behind an error's name: the two former counter-witnesses

  Up to /repo a1069ea the statement without layout guards was false for idl.go (known findings of this property):
  `readError` skipped spaces and tabs only and then called `readType`. Both witnesses now parse to the tree they
  denote — by the theorem, and by running the model on the text in the kernel. -/

/-- `error E⏎(a:int)`: a line break between an error's name and its type — was rejected ("unknown keyword") -/
def witnessErrorTypeOnNextLine : LIdl :=
  { g0 := [], ig1 := [.sp], name := str "a.b",
    members := [([.nl], .method [.sp] (str "F") [] (.unit []) [] [] (.unit [])),
                ([.nl], .error [.sp] (str "E") [.nl] (.struct (.last [] (str "a") [] [] .int [])))],
    gEnd := [.nl], finalComment := none }

example : witnessErrorTypeOnNextLine.render = str "interface a.b\nmethod F()->()\nerror E\n(a:int)\n" := by
  decide +kernel
example : New witnessErrorTypeOnNextLine.render = .ok witnessErrorTypeOnNextLine.tree :=
  parse_render _ (by decide +kernel)
example : (match New witnessErrorTypeOnNextLine.render with
    | .ok t => t.beq witnessErrorTypeOnNextLine.tree | _ => false) = true := by decide +kernel

/-- … the same with a CR, a trailing comment and a comment line in that gap; the comment line is the block above
    the line of `(`, hence above the method that follows on that line -/
def witnessErrorTypeBehindComments : LIdl :=
  { g0 := [], ig1 := [.sp], name := str "a.b",
    members := [([.nl], .error [.sp] (str "E") [.cr, .comment (str " trailing"), .tab, .comment (str " c")] (.unit [])),
                ([.sp], .method [.sp] (str "F") [] (.unit []) [] [] (.unit []))],
    gEnd := [], finalComment := none }

example : ∃ t, New witnessErrorTypeBehindComments.render = .ok t ∧ t.members.map Member.doc = [[], str "c"] :=
  ⟨_, parse_render _ (by decide +kernel), by decide +kernel⟩
example : (match New witnessErrorTypeBehindComments.render with
    | .ok t => t.beq witnessErrorTypeBehindComments.tree | _ => false) = true := by decide +kernel

/-- **Interface documentation**: `IDL.Doc` is the comment block at the start of the file, whatever layout (line
    breaks, comments) stands between `interface` and the interface name. -/
theorem interface_doc_independent_of_layout_behind_keyword (L : LIdl) (h : L.fits = true) :
    ∃ t, New L.render = .ok t ∧ t.doc = docOfStart L.g0 := ⟨L.tree, New_render L h, rfl⟩

/-- `# d⏎interface⏎# c⏎a.b …` (rejected variant of the pinned tree: Doc was "c") -/
def witnessInterfaceDoc : LIdl :=
  { g0 := [.comment (str " d")], ig1 := [.nl, .comment (str " c")], name := str "a.b",
    members := [([.nl], .method [.sp] (str "F") [] (.unit []) [] [] (.unit []))],
    gEnd := [], finalComment := none }

theorem interface_doc_witness :
    (match New witnessInterfaceDoc.render with | .ok t => t.doc | _ => [1]) = str "d" := by
  decide +kernel

/-- `error E method F()->()`: a member on the line of an error without type — was taken for the error's type
    ("invalid error type") -/
def witnessMemberBehindBareError : LIdl :=
  { g0 := [], ig1 := [.sp], name := str "a.b",
    members := [([.nl], .errorBare [.sp] (str "E")),
                ([.sp], .method [.sp] (str "F") [] (.unit []) [] [] (.unit []))],
    gEnd := [], finalComment := none }

example : witnessMemberBehindBareError.render = str "interface a.b\nerror E method F()->()" := by decide +kernel
example : New witnessMemberBehindBareError.render = .ok witnessMemberBehindBareError.tree :=
  parse_render _ (by decide +kernel)
example : (match New witnessMemberBehindBareError.render with
    | .ok t => t.beq witnessMemberBehindBareError.tree | _ => false) = true := by decide +kernel

/-- an error without parameters at the very end of the input, and in front of a last comment without line feed -/
example : New (str "interface a.b\nmethod F()->()\nerror E") =
    .ok { name := str "a.b", doc := [], description := str "interface a.b\nmethod F()->()\nerror E",
          members := [.method (str "F") [] (.struct .nil) (.struct .nil), .error (str "E") [] none] } :=
  parse_render { g0 := [], ig1 := [.sp], name := str "a.b",
                 members := [([.nl], .method [.sp] (str "F") [] (.unit []) [] [] (.unit [])),
                             ([.nl], .errorBare [.sp] (str "E"))],
                 gEnd := [], finalComment := none } (by decide +kernel)
example : (New (str "interface a.b\nmethod F()->()\nerror E # c")).tag = 0 := by decide +kernel
/-- what is not a parameter list is still not swallowed: `error E int` is an error without parameters followed by
    the unknown keyword `int` (the varlink grammar has `error = "error" name struct`) -/
example : (New (str "interface a.b\nmethod F()->()\nerror E int")).errOf = some .unknownKeyword := by decide +kernel

/-! ### non-vacuity: a description with every constructor, comments in every kind of gap, CRLF, a last comment -/

def sample : LIdl :=
  { g0 := [.comment (str " about the interface\r"), .tab, .comment (str "second line")],
    ig1 := [.tab, .comment (str " not doc"), .cr, .nl, .sp], name := str "org.example-x.y9",
    members := [
      ([.comment (str "trailing"), .nl, .sp, .comment (str " doc one"), .tab, .comment (str "two\r")],
        .alias [.sp, .comment (str ""), .tab] (str "T") [.nl]
          (.struct (.cons [.nl, .sp] (str "a") [.sp] [.comment (str "x")] (.maybe (.array (.map .int))) [.sp]
            (.last [] (str "b_1") [] [] (.enum [.sp] (str "x") [] [([.nl], str "y", [.cr, .nl])]) [.nl])))),
      ([.cr, .nl], .method [.sp] (str "F") [] (.unit [.sp]) [.sp] [.nl] (.struct (.last [] (str "r") [] [.sp] (.named (str "T")) []))),
      ([.nl, .comment (str " e1")], .errorBare [.sp] (str "E1")),
      -- on the line of the error without parameters: the block above that line (also for E2, directly behind `)`)
      ([.sp], .method [.tab] (str "G") [] (.unit []) [] [] (.unit [])),
      -- directly behind `)`, and the parameters two lines below the name, behind a trailing and a whole-line comment
      ([], .error [.sp] (str "E2") [.sp, .comment (str " c"), .comment (str " above the parameters"), .tab]
        (.struct (.last [] (str "a") [] [] .int []))),
      ([.sp, .comment (str " c"), .comment (str " the error")], .error [.sp] (str "E3") [.sp, .tab] (.unit []))],
    gEnd := [.nl, .sp], finalComment := some (str " bye") }

example : sample.fits = true := by decide +kernel
example : ∃ t, New sample.render = .ok t ∧ t.doc = str "about the interface\nsecond line" ∧
    t.members.map Member.doc = [str "doc one\ntwo", [], str "e1", str "e1", str "e1", str "the error"] := by
  refine ⟨sample.tree, parse_render sample (by decide +kernel), ?_, ?_⟩ <;> decide +kernel
/-- the same by running the model on the rendered text in the kernel (no use of the theorem) -/
example : (match New sample.render with | .ok t => t.beq sample.tree | _ => false) = true := by decide +kernel

/-- **Tie to the source**: the declarations of /repo that this property's model transliterates
    (`Extracted.codeNames_C05`) have, in the current working tree, exactly the fingerprints of the code the
    model was validated against. Any change to them breaks this obligation; the check then searches the
    correspondence streams for an input on which the changed code violates the property. -/
theorem modelled_code_unchanged : Varlink.Extracted.code_C05 = Varlink.ExpectedCode.code_C05 := by decide

/-- no declaration (function, method, type, constant, variable) has been added to or removed from the
    fingerprinted source files since the models were validated: a new method or `init` can change behaviour
    without touching the text of any existing declaration -/
theorem declarations_known : Varlink.Extracted.declarationSet = Varlink.ExpectedCode.declarationSet := by decide

end Varlink.C05
