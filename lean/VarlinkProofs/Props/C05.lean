/-
  C05 — IDL parser: grammar-conformant descriptions parse to the tree they denote.

  A *layouted description* `L : LIdl` (lean/Varlink/Idl/Layout.lean) is a syntax tree together with the layout
  material (lists of atoms: space, tab, CR, LF, `#text⏎`) in every gap between two tokens of the grammar, plus an
  optional last comment without line feed. `L.render` is its text, `L.tree` the tree it denotes: name, members in
  source order with every field name and type constructor as written, `Description = L.render` verbatim, and each
  member documented by `docOf` of the gap in front of it — the block of whole-line comments directly above the member.

  `parse_render_partial` proves: for every layouted description inside the grammar and inside the two layout
  guards below, the parser model returns exactly `L.tree`. The statement without the guards (`ParseRenderFull`) is
  FALSE for idl.go as it is; `parse_render_full_fails_*` exhibit the witnesses (the first is the known finding of
  this property). The guards (all decidable, part of `LIdl.fits`):
    (1) every member starts on a new line: the gap in front of it contains a line break;
    (2) the type of an error stands behind spaces/tabs only (idl.go reads it with advanceOnLine).
  (A third guard of an earlier version — no line break between `interface` and the interface name — is gone since
  /repo b98cbe2 takes IDL.Doc before skipping that gap; `interface_doc_independent_of_layout_behind_keyword`.)
  Proof: VarlinkProofs/Lemmas/IdlRender.lean — forward lemmas per reader ("if the input in front of the cursor is the
  rendering of x followed by a token boundary, the reader returns x and stops behind it"), by induction on gaps,
  on the layouted type (mutually with field lists) and on the member list; crashes are excluded by C09's totality lemma.
-/
import Varlink.Idl.Layout
import Varlink.Extracted.Idl
import VarlinkProofs.Lemmas.IdlRender
import Varlink.Extracted.Code
import Varlink.ExpectedCode
namespace Varlink.C05
open Varlink Varlink.Idl

/-- The string literals of idl.go the model is written against, regenerated from /repo's source on every run
    (lean/Varlink/Extracted/Idl.lean): the two interface-name patterns (modelled by `matchDn` / `matchXdn`), the keywords
    of `readType` and `readIDL`, the error messages (`PErr`). A change of any of them breaks this theorem. -/
theorem source_literals :
    Extracted.idlNameRegexps =
      ["^[a-zA-Z]+(\\.[a-zA-Z0-9]+([-][a-zA-Z0-9]+)*)+", "^xn--[a-z0-9]+(\\.[a-z0-9]+([-][a-z0-9]+)*)+"] ∧
    Extracted.idlTypeKeywords = ["string", "bool", "int", "float", "string", "object"] ∧
    Extracted.idlMemberStrings =
      ["interface", "missing interface keyword", "interface name", "type", "type `%s` already defined", "method",
       "method `%s` already defined", "error", "error `%s` already defined", "unknown keyword '%s'"] ∧
    Extracted.idlMessages =
      ["missing type name", "missing type declaration", "missing method type", "missing method input",
       "missing method '->' operator", "missing method output", "missing error name", "invalid error type",
       "no methods defined"] := by
  decide

/-- **Parse what was rendered** (partial: inside the two layout guards of `LIdl.fits`): the description is
    accepted and the tree is exactly the one the text denotes — interface name, every member in source order, every
    field name and type constructor nested as written, the documentation of each member = the comment block above
    it, the interface documentation = the comment block at the start, the description retained verbatim. -/
theorem parse_render_partial (L : LIdl) (h : L.fits = true) : New L.render = .ok L.tree :=
  New_render L h

/-- the members come out in source order, also in the lists by kind (which are the sub-sequences of `Members`) -/
theorem members_in_source_order (L : LIdl) (h : L.fits = true) :
    ∃ t, New L.render = .ok t ∧ t.name = L.name ∧
      t.members = L.members.map (fun p => p.2.erase (docOf p.1)) ∧
      t.methods = (L.members.map (fun p => p.2.erase (docOf p.1))).filter Member.isMethod ∧
      t.aliases = (L.members.map (fun p => p.2.erase (docOf p.1))).filter Member.isAlias ∧
      t.errors = (L.members.map (fun p => p.2.erase (docOf p.1))).filter Member.isError :=
  ⟨L.tree, New_render L h, rfl, rfl, rfl, rfl, rfl⟩

/-- the description text is retained verbatim -/
theorem description_verbatim (L : LIdl) (h : L.fits = true) :
    ∃ t, New L.render = .ok t ∧ t.description = L.render := ⟨L.tree, New_render L h, rfl⟩

/-- **Documentation**: each member's `Doc` is `docOf` of the gap in front of it -/
theorem docs_from_block (L : LIdl) (h : L.fits = true) :
    ∃ t, New L.render = .ok t ∧ t.members.map Member.doc = L.members.map (fun p => docOf p.1) := by
  refine ⟨L.tree, New_render L h, ?_⟩
  simp only [LIdl.tree, List.map_map]
  apply List.map_congr_left
  intro p _
  obtain ⟨g, m⟩ := p
  cases m <;> rfl

/-- what `docOf` is: whatever stands in the gap up to and including a line feed atom is irrelevant — the
    documentation is that of the lines below it … -/
theorem docOf_after_newline (pre blk : Gap) : docOf (pre ++ .nl :: blk) = (gapDoc (true, []) blk).2 := by
  simp [docOf, gapDoc, List.foldl_append, docStep]

/-- … a trailing comment on the line of the previous token is not documentation … -/
theorem docOf_trailing_comment (t : Bytes) (blk : Gap) : docOf (.comment t :: blk) = (gapDoc (true, []) blk).2 := by
  simp [docOf, gapDoc, docStep]

/-- … indentation does not matter, a whole-line comment adds its text (one optional space after `#` and a CR at the
    end removed) on a new line of the documentation, and a blank line drops what was collected. -/
theorem gapDoc_line (st : Bool × Bytes) :
    gapDoc st [.sp] = st ∧ gapDoc st [.tab] = st ∧ gapDoc st [.cr] = st ∧ gapDoc st [.nl] = (true, []) ∧
    (∀ lc t, gapDoc (true, lc) [.comment t] = (true, (if lc.length > 0 then lc ++ [10] else lc) ++ docLine t)) := by
  refine ⟨rfl, rfl, rfl, rfl, fun _ _ => rfl⟩

/-- the tree without documentation and description (what "does not depend on layout" refers to) -/
def skeleton (t : Idl) : Bytes × List Member := (t.name, t.members.map (Member.setDoc []))

/-- **Layout independence**: two layouts (inside the guards) of the same syntax give the same tree — same name, same
    members in the same order with the same types; if also the comment blocks above the members agree, the same
    documentation. -/
theorem layout_independent (L1 L2 : LIdl) (h1 : L1.fits = true) (h2 : L2.fits = true)
    (hname : L1.name = L2.name)
    (hsyn : L1.members.map (fun p => p.2.erase []) = L2.members.map (fun p => p.2.erase [])) :
    ∃ t1 t2, New L1.render = .ok t1 ∧ New L2.render = .ok t2 ∧ skeleton t1 = skeleton t2 ∧
      (L1.members.map (fun p => docOf p.1) = L2.members.map (fun p => docOf p.1) → t1.members = t2.members) := by
  refine ⟨L1.tree, L2.tree, New_render L1 h1, New_render L2 h2, ?_, ?_⟩
  · simp only [skeleton, LIdl.tree, hname, List.map_map, Prod.mk.injEq, true_and]
    have e : ∀ L : LIdl, L.members.map (Member.setDoc [] ∘ fun p => p.2.erase (docOf p.1))
        = L.members.map (fun p => p.2.erase []) := by
      intro L; apply List.map_congr_left; intro p _; exact erase_setDoc p.2 _
    rw [e L1, e L2, hsyn]
  · intro hdocs
    simp only [LIdl.tree]
    -- members are determined by their doc-free form and their doc
    have key : ∀ (a b : List (Gap × LMember)), a.map (fun p => p.2.erase []) = b.map (fun p => p.2.erase []) →
        a.map (fun p => docOf p.1) = b.map (fun p => docOf p.1) →
        a.map (fun p => p.2.erase (docOf p.1)) = b.map (fun p => p.2.erase (docOf p.1)) := by
      intro a
      induction a with
      | nil => intro b hs _; cases b with
        | nil => rfl
        | cons _ _ => simp at hs
      | cons p a ih =>
        intro b hs hd
        cases b with
        | nil => simp at hs
        | cons q b =>
          simp only [List.map_cons, List.cons.injEq] at hs hd ⊢
          refine ⟨?_, ih b hs.2 hd.2⟩
          obtain ⟨g, m⟩ := p; obtain ⟨g', m'⟩ := q
          simp only at hs hd ⊢
          rw [hd.1]
          cases m <;> cases m' <;> simp_all [LMember.erase]
    exact key _ _ hsyn hdocs

/-! ### the full statement, and why it is only "partial" -/

/-- the grammar alone: `LIdl.fits` without the two layout guards -/
def fitsGrammar (L : LIdl) : Bool :=
  L.g0.wf && L.ig1.wf && !L.ig1.isEmpty && isInterfaceNameB L.name
    && L.members.all (fun p => p.1.wf && (match p.2 with
        | .error g1 n g6 t => (LMember.alias g1 n g6 t).fits    -- any gap in front of an error's type
        | m => m.fits))
    && uniqueNames (L.members.map fun p => p.2.name) && L.members.any (fun p => p.2.isMethod)
    && L.gEnd.wf && (match L.finalComment with | none => true | some t => t.all (fun c => c != 10))

/-- the full statement of C05 on the model: every layout the grammar allows -/
def ParseRenderFull : Prop := ∀ L : LIdl, fitsGrammar L = true → New L.render = .ok L.tree

/-- `error E⏎(a:int)`: a line break between an error's name and its type — rejected ("unknown keyword") -/
def witnessErrorTypeOnNextLine : LIdl :=
  { g0 := [], ig1 := [.sp], name := str "a.b",
    members := [([.nl], .method [.sp] (str "F") [] (.unit []) [] [] (.unit [])),
                ([.nl], .error [.sp] (str "E") [.nl] (.unit []))],
    gEnd := [], finalComment := none }

/-- **Known finding**: the full statement fails — the type of an error on the next line is rejected. -/
theorem parse_render_full_fails_error_type_on_next_line : ¬ ParseRenderFull := by
  intro h
  have h1 := h witnessErrorTypeOnNextLine (by decide +kernel)
  have h2 : (New witnessErrorTypeOnNextLine.render).errOf = some .unknownKeyword := by decide +kernel
  rw [h1] at h2
  cases h2

/-- **Interface documentation**: `IDL.Doc` is the comment block at the start of the file, whatever layout (line
    breaks, comments) stands between `interface` and the interface name. -/
theorem interface_doc_independent_of_layout_behind_keyword (L : LIdl) (h : L.fits = true) :
    ∃ t, New L.render = .ok t ∧ t.doc = docOfStart L.g0 := ⟨L.tree, New_render L h, rfl⟩

/-- `# d⏎interface⏎# c⏎a.b …` (rejected variant of the pinned tree: Doc was "c") -/
def witnessInterfaceDoc : LIdl :=
  { g0 := [.comment (str " d")], ig1 := [.nl, .comment (str " c")], name := str "a.b",
    members := [([.nl], .method [.sp] (str "F") [] (.unit []) [] [] (.unit []))],
    gEnd := [], finalComment := none }

theorem interface_doc_witness :
    (match New witnessInterfaceDoc.render with | .ok t => t.doc | _ => [1]) = str "d" := by
  decide +kernel

/-- `error E method F()->()`: a member on the line of an error without type is taken for the error's type -/
def witnessMemberBehindBareError : LIdl :=
  { g0 := [], ig1 := [.sp], name := str "a.b",
    members := [([.nl], .errorBare [.sp] (str "E")),
                ([.sp], .method [.sp] (str "F") [] (.unit []) [] [] (.unit []))],
    gEnd := [], finalComment := none }

theorem member_behind_bare_error_rejected :
    fitsGrammar witnessMemberBehindBareError = true ∧
    (New witnessMemberBehindBareError.render).errOf = some .invalidErrorType := by
  constructor <;> decide +kernel

/-! ### non-vacuity: a description with every constructor, comments in every kind of gap, CRLF, a last comment -/

def sample : LIdl :=
  { g0 := [.comment (str " about the interface\r"), .tab, .comment (str "second line")],
    ig1 := [.tab, .comment (str " not doc"), .cr, .nl, .sp], name := str "org.example-x.y9",
    members := [
      ([.comment (str "trailing"), .nl, .sp, .comment (str " doc one"), .tab, .comment (str "two\r")],
        .alias [.sp, .comment (str ""), .tab] (str "T") [.nl]
          (.struct (.cons [.nl, .sp] (str "a") [.sp] [.comment (str "x")] (.maybe (.array (.map .int))) [.sp]
            (.last [] (str "b_1") [] [] (.enum [.sp] (str "x") [] [([.nl], str "y", [.cr, .nl])]) [.nl])))),
      ([.cr, .nl], .method [.sp] (str "F") [] (.unit [.sp]) [.sp] [.nl] (.struct (.last [] (str "r") [] [.sp] (.named (str "T")) []))),
      ([.nl], .errorBare [.sp] (str "E1")),
      ([.sp, .comment (str " c"), .comment (str " the error")], .error [.sp] (str "E2") [.sp, .tab] (.unit []))],
    gEnd := [.nl, .sp], finalComment := some (str " bye") }

example : sample.fits = true := by decide +kernel
example : ∃ t, New sample.render = .ok t ∧ t.doc = str "about the interface\nsecond line" ∧
    t.members.map Member.doc = [str "doc one\ntwo", [], [], str "the error"] := by
  refine ⟨sample.tree, parse_render_partial sample (by decide +kernel), ?_, ?_⟩ <;> decide +kernel
/-- the same by running the model on the rendered text in the kernel (no use of the theorem) -/
example : (match New sample.render with | .ok t => t.members.length | _ => 0) = 4 := by decide +kernel

/-- **Tie to the source**: the declarations of /repo that this property's model transliterates
    (`Extracted.codeNames_C05`) have, in the current working tree, exactly the fingerprints of the code the
    model was validated against. Any change to them breaks this obligation; the check then searches the
    correspondence streams for an input on which the changed code violates the property. -/
theorem modelled_code_unchanged : Varlink.Extracted.code_C05 = Varlink.ExpectedCode.code_C05 := by decide

/-- no declaration (function, method, type, constant, variable) has been added to or removed from the
    fingerprinted source files since the models were validated: a new method or `init` can change behaviour
    without touching the text of any existing declaration -/
theorem declarations_known : Varlink.Extracted.declarationSet = Varlink.ExpectedCode.declarationSet := by decide

end Varlink.C05
