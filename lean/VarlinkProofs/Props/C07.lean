/-
  C07 — the interface generator terminates, emits compiling Go, reports name and description, is deterministic.

  Theorems about the model of /repo/cmd/varlink-go-interface-generator/main.go:
    `Varlink.Gen.genText`   exact text handed to go/format          (lean/Varlink/Gen/Generator.lean)
    `Varlink.Gen.genFile`   structured view of the emitted file     (lean/Varlink/Gen/View.lean)
    `Varlink.Gen.wellFormed` input-dependent obligations of "compiles" (lean/Varlink/Gen/Check.lean)
    `Varlink.Gen.Domain`    the property's domain, decidable        (lean/Varlink/Gen/Domain.lean)
  Both functions are compared with the real generator on every run (harness/gen.go); the compiler is the
  ground truth for `wellFormed` (both directions reported). Determinism holds by construction: `genText`
  and `genFile` are functions of the parsed description (and observed: the real generator is run twice).
-/
import VarlinkProofs.Lemmas.Gen
namespace Varlink.C07
open Varlink Varlink.Idl Varlink.Gen

/-! ## the conjuncts of `Domain` -/

theorem domain_parts {t : Idl} (h : Domain t = true) :
    nameShapes t = true ∧ t.uniqueMemberNames = true ∧ t.homogeneous = true ∧ hasMethod t = true
    ∧ refsResolve t = true ∧ fieldsDistinct t = true ∧ ioStructs t = true ∧ noReserved t = true
    ∧ noDirectRecursion t = true ∧ cleanText t = true := by
  simpa [Domain, and_assoc] using h

/-- a small description inside the domain, used for the non-vacuity examples:
    `interface a.b / type T (x: ?int) / method M(a: T, b: [](c: string)) -> (r: ?T) / error E (why: string)` -/
def sample : Idl :=
  { name := str "a.b", doc := [], description := str "interface a.b\n…",
    members := [
      .alias (str "T") [] (.struct (.typed (str "x") (.maybe .int) .nil)),
      .method (str "M") []
        (.struct (.typed (str "a") (.named (str "T"))
          (.typed (str "b") (.array (.struct (.typed (str "c") .string .nil))) .nil)))
        (.struct (.typed (str "r") (.maybe (.named (str "T"))) .nil)),
      .error (str "E") [] (some (.struct (.typed (str "why") .string .nil)))] }

/-! ## the generator returns a file -/

/-- **gen_total**: on every description of the domain the generator produces its text: no nil dereference -/
theorem gen_total (t : Idl) (h : Domain t = true) : ∃ s, genText t = .ok s := by
  obtain ⟨_, _, h3, _, _, _, h7, _⟩ := domain_parts h
  obtain ⟨b, hb⟩ := isSome_of_eq (bodyText_isSome t (memberOk_of_domain t h3 h7))
  exact ⟨patchImports b, by simp [genText, genTextO, hb, Outcome.ofOption]⟩

/-- the same for the structured view -/
theorem genFile_total (t : Idl) (h : Domain t = true) : ∃ f, genFile t = some f := by
  obtain ⟨_, _, h3, _, _, _, h7, _⟩ := domain_parts h
  exact isSome_of_eq (genFile_isSome t (memberOk_of_domain t h3 h7))

/-- it only needs that fields carry types and that inputs, outputs and error parameters are structs -/
theorem gen_total_of_walkable (t : Idl) (h3 : t.homogeneous = true) (h7 : ioStructs t = true) :
    (∃ s, genText t = .ok s) ∧ (∃ f, genFile t = some f) := by
  obtain ⟨b, hb⟩ := isSome_of_eq (bodyText_isSome t (memberOk_of_domain t h3 h7))
  exact ⟨⟨patchImports b, by simp [genText, genTextO, hb, Outcome.ofOption]⟩,
    isSome_of_eq (genFile_isSome t (memberOk_of_domain t h3 h7))⟩

/-- an enum-typed error (`error E (a, b)`) is outside the domain and makes the generator crash
    (nil dereference of `field.Type`), in the text and in the view alike -/
example :
    let t : Idl := { name := str "a.b", doc := [], description := [], members :=
      [.method (str "M") [] (.struct .nil) (.struct .nil),
       .error (str "E") [] (some (.enum (.bare (str "a") (.bare (str "b") .nil))))] }
    genText t = .crash ∧ genFile t = none ∧ Domain t = false := by decide

/-! ## package name -/

/-- **package name**: for an interface name of the IDL grammar's shape (a letter, then letters, digits, `.`, `-`)
    the derived package name is a Go identifier made of lower-case letters and digits only -/
theorem pkgname_spec (n : Bytes) (h : ifaceNameShape n = true) :
    isGoIdent (pkgName n) = true ∧ (pkgName n).all (fun c => isLower c || isDigit c) = true := by
  cases n with
  | nil => simp [ifaceNameShape] at h
  | cons c s =>
    simp only [ifaceNameShape, Bool.and_eq_true] at h
    obtain ⟨h1, h2, h3⟩ := letter_facts c h.1
    have ht := pkgName_tail_chars s h.2
    rw [pkgName_cons_keep c s h1 h2]
    refine ⟨?_, ?_⟩
    · simp only [isGoIdent, Bool.and_eq_true]
      refine ⟨lower_identStart _ h3, ?_⟩
      rw [List.all_eq_true] at ht ⊢
      intro x hx
      exact lowerOrDigit_identChar x (ht x hx)
    · simp only [List.all_cons, Bool.and_eq_true]
      exact ⟨by simp [h3], ht⟩

/-- inside the domain the package clause of the emitted file carries that identifier -/
theorem pkgname_of_domain (t : Idl) (h : Domain t = true) (f : GoFile) (hf : genFile t = some f) :
    f.pkg = pkgName t.name ∧ isGoIdent f.pkg = true ∧ dot ∉ f.pkg ∧ dash ∉ f.pkg := by
  obtain ⟨h1, _⟩ := domain_parts h
  simp only [nameShapes, Bool.and_eq_true] at h1
  have hp : f.pkg = pkgName t.name := by
    obtain ⟨_, _, _, _, _, _, _, _, _, _, _, _, _, _, _, _, _, _, rfl⟩ := genFile_inv hf
    rfl
  obtain ⟨hi, hc⟩ := pkgname_spec t.name h1.1
  refine ⟨hp, hp ▸ hi, ?_, ?_⟩ <;>
  · intro hm
    rw [hp] at hm
    have := List.all_eq_true.mp hc _ hm
    revert this; decide

example : pkgName (str "Com.Example-X.foo-bar9") = str "comexamplexfoobar9" := by decide
example : ifaceNameShape (str "Com.Example-X.foo-bar9") = true := by decide

/-! ## name and description reported at run time -/

/-- **reports_description**: the Go expression emitted for `VarlinkGetDescription` — a raw string literal with
    every back quote spliced in as "`" and every carriage return as "\r" — evaluates to the description
    (already without trailing newlines, see `generateTemplate_description`) plus one newline, for EVERY byte string -/
theorem reports_description (d : Bytes) : evalStringExpr (descLiteral d) = some (d ++ [nl]) :=
  descLiteral_value d

example : evalStringExpr (descLiteral (str "# a `b`\r\ninterface x.y")) = some (str "# a `b`\r\ninterface x.y\n") := by
  decide

/-- without the splicing a raw literal would lose the carriage return and end at the back quote: the evaluator
    distinguishes these -/
example : evalStringExpr (str "`a\rb`") = some (str "ab") ∧ evalStringExpr (str "`a`b`") = none := by decide

theorem shape_no_backtick_cr (n : Bytes) (h : ifaceNameShape n = true) : backtick ∉ n ∧ cr ∉ n := by
  cases n with
  | nil => simp [ifaceNameShape] at h
  | cons c s =>
    simp only [ifaceNameShape, Bool.and_eq_true] at h
    have key : ∀ x : UInt8, (isAlnum x || x == dot || x == dash) = true → x ≠ backtick ∧ x ≠ cr := by
      apply forall_uint8
      set_option maxRecDepth 20000 in decide
    have hc := key c (by simp [isAlnum, h.1])
    have hs := List.all_eq_true.mp h.2
    constructor
    · intro hm
      rcases List.mem_cons.mp hm with e | e
      · exact hc.1 e.symm
      · exact (key _ (hs _ e)).1 rfl
    · intro hm
      rcases List.mem_cons.mp hm with e | e
      · exact hc.2 e.symm
      · exact (key _ (hs _ e)).2 rfl

/-- **reports_name**: the raw string literal emitted for `VarlinkGetName` evaluates to the interface name -/
theorem reports_name (t : Idl) (h : Domain t = true) : evalStringExpr (nameLiteral t.name) = some t.name := by
  obtain ⟨h1, _⟩ := domain_parts h
  simp only [nameShapes, Bool.and_eq_true] at h1
  obtain ⟨a, b⟩ := shape_no_backtick_cr t.name h1.1
  exact nameLiteral_value t.name a b

/-- the two expressions are what the text returns from `VarlinkGetName` / `VarlinkGetDescription`
    (`tailHead` ends in `func (s *VarlinkInterface) VarlinkGetName() string {\n\treturn `, `tailMid` in
    `func (s *VarlinkInterface) VarlinkGetDescription() string {\n\treturn `) -/
theorem tailText_literals (pkg name d : Bytes) :
    tailText pkg name d = tailHead ++ nameLiteral name ++ tailMid ++ descLiteral d ++ tailEnd pkg := rfl

/-- `generateTemplate` parses the description without its trailing newlines; `idl.New` stores exactly the
    text it was given, so the description the emitted code reports is "the description up to trailing newlines" -/
theorem generateTemplate_description (parse : Bytes → Option Idl) (description p s : Bytes)
    (hparse : ∀ d t, parse d = some t → t.description = d)
    (h : generateTemplate parse description = .text p s) :
    ∃ t, parse (trimRightNL description) = some t ∧ t.description = trimRightNL description
      ∧ p = pkgName t.name ∧ genText t = .ok s := by
  unfold generateTemplate at h
  split at h
  · exact absurd h (by simp)
  · rename_i t ht
    split at h
    · exact absurd h (by simp)
    · rename_i s' hs
      injection h with h1 h2
      exact ⟨t, ht, hparse _ _ ht, h1.symm, by simp [genText, hs, h2, Outcome.ofOption]⟩

/-- the view records the same two values as the constant results of the two methods -/
theorem view_reports (t : Idl) (f : GoFile) (hf : genFile t = some f) :
    Decl.func (mkFunc varlinkIfaceRecv (str "VarlinkGetName") .nil (param [] (tName "string")) [.retString t.name]) ∈ f.decls
    ∧ Decl.func (mkFunc varlinkIfaceRecv (str "VarlinkGetDescription") .nil (param [] (tName "string"))
        [.retString (t.description ++ [nl])]) ∈ f.decls := by
  obtain ⟨_, _, _, _, _, _, _, _, _, _, _, _, _, _, _, _, _, _, rfl⟩ := genFile_inv hf
  simp [assembleFile, descriptionValue]

example : Domain sample = true := by decide

end Varlink.C07
