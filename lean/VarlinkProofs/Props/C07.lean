/-
  C07 — the interface generator terminates, emits compiling Go, reports name and description, is deterministic.

  Theorems about the model of /repo/cmd/varlink-go-interface-generator/main.go:
    `Varlink.Gen.genText`   exact text handed to go/format          (lean/Varlink/Gen/Generator.lean)
    `Varlink.Gen.genFile`   structured view of the emitted file     (lean/Varlink/Gen/View.lean)
    `Varlink.Gen.wellFormed` input-dependent obligations of "compiles" (lean/Varlink/Gen/Check.lean)
    `Varlink.Gen.Domain`    the property's domain, decidable        (lean/Varlink/Gen/Domain.lean)
  Both functions are compared with the real generator on every run (harness/gen.go); the compiler is the
  ground truth for `wellFormed` (both directions reported). Determinism holds by construction: `genText`
  and `genFile` are functions of the parsed description (and observed: the real generator is run twice).
-/
import VarlinkProofs.Lemmas.Gen
import VarlinkProofs.Lemmas.GenTyped
import VarlinkProofs.Lemmas.GenTop2
import VarlinkProofs.Lemmas.GenTyped2
import VarlinkProofs.Lemmas.GenDomain
import VarlinkProofs.Lemmas.GenImports
import VarlinkProofs.Lemmas.GenDomain2
import Varlink.Extracted.Code
import Varlink.ExpectedCode
namespace Varlink.C07
open Varlink Varlink.Idl Varlink.Gen

/-- a small description inside the domain, used for the non-vacuity examples:
    `interface a.b / type T (x: ?int) / method M(a: T, b: [](c: string)) -> (r: ?T) / error E (why: string)` -/
def sample : Idl :=
  { name := str "a.b", doc := [], description := str "interface a.b\n…",
    members := [
      .alias (str "T") [] (.struct (.typed (str "x") (.maybe .int) .nil)),
      .method (str "M") []
        (.struct (.typed (str "a") (.named (str "T"))
          (.typed (str "b") (.array (.struct (.typed (str "c") .string .nil))) .nil)))
        (.struct (.typed (str "r") (.maybe (.named (str "T"))) .nil)),
      .error (str "E") [] (some (.struct (.typed (str "why") .string .nil)))] }

/-! ## the generator returns a file -/

/-- **gen_total**: on every description of the domain the generator produces its text: no nil dereference -/
theorem gen_total (t : Idl) (h : Domain t = true) : ∃ s, genText t = .ok s := by
  obtain ⟨_, _, h3, _, _, _, h7, _⟩ := domain_parts h
  obtain ⟨b, hb⟩ := isSome_of_eq (bodyText_isSome t (memberOk_of_domain t h3 h7))
  exact ⟨headText t ++ b, by simp [genText, genTextO, hb, Outcome.ofOption]⟩

/-- the same for the structured view -/
theorem genFile_total (t : Idl) (h : Domain t = true) : ∃ f, genFile t = some f := by
  obtain ⟨_, _, h3, _, _, _, h7, _⟩ := domain_parts h
  exact isSome_of_eq (genFile_isSome t (memberOk_of_domain t h3 h7))

/-- it only needs that fields carry types and that inputs, outputs and error parameters are structs -/
theorem gen_total_of_walkable (t : Idl) (h3 : t.homogeneous = true) (h7 : ioStructs t = true) :
    (∃ s, genText t = .ok s) ∧ (∃ f, genFile t = some f) := by
  obtain ⟨b, hb⟩ := isSome_of_eq (bodyText_isSome t (memberOk_of_domain t h3 h7))
  exact ⟨⟨headText t ++ b, by simp [genText, genTextO, hb, Outcome.ofOption]⟩,
    isSome_of_eq (genFile_isSome t (memberOk_of_domain t h3 h7))⟩

/-- an enum-typed error (`error E (a, b)`) is outside the domain and makes the generator crash
    (nil dereference of `field.Type`), in the text and in the view alike -/
example :
    let t : Idl := { name := str "a.b", doc := [], description := [], members :=
      [.method (str "M") [] (.struct .nil) (.struct .nil),
       .error (str "E") [] (some (.enum (.bare (str "a") (.bare (str "b") .nil))))] }
    genText t = .crash ∧ genFile t = none ∧ Domain t = false := by decide

/-! ## package name -/

/-- **package name**: for an interface name of the IDL grammar's shape (a letter, then letters, digits, `.`, `-`)
    the derived package name is a Go identifier, NOT a Go keyword, NOT `main` and NOT `documentation` (the name
    go/build reserves for doc-only files: it ignores every file of a `package documentation`); it consists of
    lower-case letters, digits and underscores; it is the interface name in lower case without dots and dashes
    (`pkgBase`: lower-case letters and digits only), with one `_` appended exactly when that is a keyword, `main`
    or `documentation`.

    Statement before the repairs 764942c / 2a8a008 (the generator had no `_` rule):
      `isGoIdent (pkgName n) = true ∧ (pkgName n).all (fun c => isLower c || isDigit c) = true`
    Its first conjunct is kept, its second one now holds for `pkgBase` and — see `pkgname_unchanged` — for
    `pkgName` whenever the old generator produced a usable name; it said nothing about keywords and `main`
    (`package if`, `package main` satisfied it).
    Statement before the repair f1a09c1 (`documentation` was not treated): the same as now without the conjunct
    `pkgName n ≠ str "documentation"` and without the `documentation` alternatives of the last conjunct — true of
    the generator then, but `package documentation` satisfied it and does not build (the checker model `pkgOk`
    lacked that rule of the tool chain). -/
theorem pkgname_spec (n : Bytes) (h : ifaceNameShape n = true) :
    isGoIdent (pkgName n) = true ∧ pkgName n ∉ goKeywords ∧ pkgName n ≠ str "main"
    ∧ pkgName n ≠ str "documentation"
    ∧ (pkgName n).all (fun c => isLower c || isDigit c || c == underscore) = true
    ∧ (pkgBase n).all (fun c => isLower c || isDigit c) = true
    ∧ ((pkgName n = pkgBase n ∧ pkgBase n ∉ goKeywords ∧ pkgBase n ≠ str "main" ∧ pkgBase n ≠ str "documentation")
        ∨ (pkgName n = pkgBase n ++ str "_"
            ∧ (pkgBase n ∈ goKeywords ∨ pkgBase n = str "main" ∨ pkgBase n = str "documentation"))) := by
  obtain ⟨h1, h2, h3⟩ := pkgName_usable n h
  obtain ⟨c, r, e, hc, hr⟩ := pkgName_shape n h
  obtain ⟨c', r', e', hc', hr'⟩ := pkgBase_shape n h
  have h3' := fun hm => h3 ((mem_reservedPkgNames _).2 hm)
  refine ⟨h1, h2, fun hm => h3' (.inl hm), fun hd => h3' (.inr hd), ?_, ?_, ?_⟩
  · rw [e]; simp [hc, hr]
  · rw [e']; simp [hc', hr']
  · rcases pkgName_cases n with ⟨e1, hk, hr⟩ | ⟨e1, hk | hr⟩
    · have hr' := fun hm => hr ((mem_reservedPkgNames _).2 hm)
      exact .inl ⟨e1, hk, fun hm => hr' (.inl hm), fun hd => hr' (.inr hd)⟩
    · exact .inr ⟨e1, .inl hk⟩
    · exact .inr ⟨e1, .inr ((mem_reservedPkgNames _).1 hr)⟩

/-- names that are neither a keyword nor `main` nor `documentation` are derived exactly as before the repairs:
    lower-case letters and digits only (the first `pkgname_spec`) -/
theorem pkgname_unchanged (n : Bytes) (h : ifaceNameShape n = true) (hk : pkgBase n ∉ goKeywords)
    (hm : pkgBase n ≠ str "main") (hd : pkgBase n ≠ str "documentation") :
    pkgName n = pkgBase n ∧ isGoIdent (pkgName n) = true
    ∧ (pkgName n).all (fun c => isLower c || isDigit c) = true := by
  obtain ⟨h1, _, _, _, _, h5, h6⟩ := pkgname_spec n h
  rcases h6 with ⟨e, _⟩ | ⟨_, hk' | hm' | hd'⟩
  · exact ⟨e, h1, e ▸ h5⟩
  · exact absurd hk' hk
  · exact absurd hm' hm
  · exact absurd hd' hd

/-- inside the domain the package clause of the emitted file carries that identifier -/
theorem pkgname_of_domain (t : Idl) (h : Domain t = true) (f : GoFile) (hf : genFile t = some f) :
    f.pkg = pkgName t.name ∧ isGoIdent f.pkg = true ∧ dot ∉ f.pkg ∧ dash ∉ f.pkg := by
  obtain ⟨h1, _⟩ := domain_parts h
  simp only [nameShapes, Bool.and_eq_true] at h1
  have hp : f.pkg = pkgName t.name := by
    obtain ⟨_, _, _, _, _, _, _, _, _, _, _, _, _, _, _, _, _, _, rfl⟩ := genFile_inv hf
    rfl
  obtain ⟨hi, _, _, _, hc, _⟩ := pkgname_spec t.name h1.1
  refine ⟨hp, hp ▸ hi, ?_, ?_⟩ <;>
  · intro hm
    rw [hp] at hm
    have := List.all_eq_true.mp hc _ hm
    revert this; decide

example : pkgName (str "Com.Example-X.foo-bar9") = str "comexamplexfoobar9" := by decide
example : ifaceNameShape (str "Com.Example-X.foo-bar9") = true := by decide

/-- the former failing inputs: `interface i.f` gave `package if`, `interface ma.in` gave `package main` -/
example : ifaceNameShape (str "i.f") = true ∧ pkgName (str "i.f") = str "if_"
    ∧ ifaceNameShape (str "ma.in") = true ∧ pkgName (str "ma.in") = str "main_"
    ∧ pkgName (str "Ty.Pe") = str "type_" ∧ pkgName (str "fu.nc") = str "func_" ∧ pkgName (str "g.o") = str "go_" := by
  decide

/-- the failing inputs before f1a09c1: `interface document.ation` (`Document.Ation`, `docu.ment-ation`) gave
    `package documentation`, whose files go/build ignores -/
example : ifaceNameShape (str "document.ation") = true ∧ pkgName (str "document.ation") = str "documentation_"
    ∧ pkgName (str "Document.Ation") = str "documentation_"
    ∧ pkgName (str "docu.ment-ation") = str "documentation_" := by decide

/-- only the exact keywords, `main` and `documentation` are touched -/
example : pkgName (str "i.ff") = str "iff" ∧ pkgName (str "ma.ins") = str "mains"
    ∧ pkgName (str "in.it") = str "init"
    ∧ ifaceNameShape (str "document.ations") = true ∧ pkgName (str "document.ations") = str "documentations"
    ∧ pkgName (str "document.atio") = str "documentatio" ∧ pkgName (str "doc.s") = str "docs" := by decide

/-- the hypotheses of `pkgname_unchanged` hold for such a neighbour -/
example : pkgBase (str "document.ations") ∉ goKeywords ∧ pkgBase (str "document.ations") ≠ str "main"
    ∧ pkgBase (str "document.ations") ≠ str "documentation" := by decide

/-! ## name and description reported at run time -/

/-- **reports_description**: the Go expression emitted for `VarlinkGetDescription` — a raw string literal with
    every back quote spliced in as "`" and every carriage return as "\r" — evaluates to the description
    (already without trailing newlines, see `generateTemplate_description`) plus one newline, for EVERY byte string -/
theorem reports_description (d : Bytes) : evalStringExpr (descLiteral d) = some (d ++ [nl]) :=
  descLiteral_value d

example : evalStringExpr (descLiteral (str "# a `b`\r\ninterface x.y")) = some (str "# a `b`\r\ninterface x.y\n") := by
  decide

/-- without the splicing a raw literal would lose the carriage return and end at the back quote: the evaluator
    distinguishes these -/
example : evalStringExpr (str "`a\rb`") = some (str "ab") ∧ evalStringExpr (str "`a`b`") = none := by decide

/-- **reports_name**: the raw string literal emitted for `VarlinkGetName` evaluates to the interface name -/
theorem reports_name (t : Idl) (h : Domain t = true) : evalStringExpr (nameLiteral t.name) = some t.name := by
  obtain ⟨h1, _⟩ := domain_parts h
  simp only [nameShapes, Bool.and_eq_true] at h1
  obtain ⟨a, b⟩ := shape_no_backtick_cr t.name h1.1
  exact nameLiteral_value t.name a b

/-- the two expressions are what the text returns from `VarlinkGetName` / `VarlinkGetDescription`
    (`tailHead` ends in `func (s *VarlinkInterface) VarlinkGetName() string {\n\treturn `, `tailMid` in
    `func (s *VarlinkInterface) VarlinkGetDescription() string {\n\treturn `) -/
theorem tailText_literals (pkg name d : Bytes) :
    tailText pkg name d = tailHead ++ nameLiteral name ++ tailMid ++ descLiteral d ++ tailEnd pkg := rfl

/-- `generateTemplate` parses the description without its trailing newlines; `idl.New` stores exactly the
    text it was given, so the description the emitted code reports is "the description up to trailing newlines" -/
theorem generateTemplate_description (parse : Bytes → Option Idl) (description p s : Bytes)
    (hparse : ∀ d t, parse d = some t → t.description = d)
    (h : generateTemplate parse description = .text p s) :
    ∃ t, parse (trimRightNL description) = some t ∧ t.description = trimRightNL description
      ∧ p = pkgName t.name ∧ genText t = .ok s := by
  unfold generateTemplate at h
  split at h
  · exact absurd h (by simp)
  · rename_i t ht
    split at h
    · exact absurd h (by simp)
    · rename_i s' hs
      injection h with h1 h2
      exact ⟨t, ht, hparse _ _ ht, h1.symm, by simp [genText, hs, h2, Outcome.ofOption]⟩

/-- the view records the same two values as the constant results of the two methods -/
theorem view_reports (t : Idl) (f : GoFile) (hf : genFile t = some f) :
    Decl.func (mkFunc varlinkIfaceRecv (str "VarlinkGetName") .nil (param [] (tName "string")) [.retString t.name]) ∈ f.decls
    ∧ Decl.func (mkFunc varlinkIfaceRecv (str "VarlinkGetDescription") .nil (param [] (tName "string"))
        [.retString (t.description ++ [nl])]) ∈ f.decls := by
  obtain ⟨_, _, _, _, _, _, _, _, _, _, _, _, _, _, _, _, _, _, rfl⟩ := genFile_inv hf
  simp [assembleFile, descriptionValue]

example : Domain sample = true := by decide

/-! ## the emitted file is well-formed -/

/-- **package clause**: the package name is a usable identifier — a Go identifier, no keyword, not `main`, not
    `documentation` — for EVERY description of the domain (before 764942c / 2a8a008: only under the hypothesis
    `pkgNameUsable t`, i.e. not for `interface i.f`, `interface ma.in`; before f1a09c1 `pkgOk` did not know that
    go/build ignores the files of a `package documentation`, so the theorem held while `interface document.ation`
    gave a package that does not build: the checker model was too weak, and with the rule added the theorem was
    false until the generator was repaired) -/
theorem gen_pkgOk (t : Idl) (f : GoFile) (h : Domain t = true) (hf : genFile t = some f) : pkgOk f = true := by
  obtain ⟨hp, _, _, _⟩ := pkgname_of_domain t h f hf
  obtain ⟨h1, _⟩ := domain_parts h
  simp only [nameShapes, Bool.and_eq_true] at h1
  obtain ⟨hi, hk, hm⟩ := pkgName_usable t.name h1.1
  obtain ⟨c, r, e, hc, _⟩ := pkgName_shape t.name h1.1
  simp only [pkgOk, validName, Bool.and_eq_true, Bool.not_eq_true', bne_iff_ne, ne_eq, hp]
  refine ⟨⟨⟨hi, by simpa using hk⟩, ?_⟩, by simpa using hm⟩
  intro e'
  rw [e] at e'
  injection e' with e1 _
  subst e1
  revert hc; decide

/-- **imports**: the import paths of the emitted file are distinct and the imported packages are EXACTLY the
    packages its declarations refer to — no unused import, nothing used that is not imported — for every
    description the generator produces a file for (the domain is not even needed). Before 30ae85f this was a
    hypothesis of `gen_wellformed_partial` and false in the domain (`importsExact`, `placeholderSafe`). -/
theorem gen_importsOk (t : Idl) (f : GoFile) (hf : genFile t = some f) : importsOk f = true :=
  importsOk_genFile t f hf

/-- which packages are imported: `varlink` and `context` always, `encoding/json` exactly when an error exists or
    some emitted type contains `object`, `fmt` exactly when some error has parameters -/
theorem imports_spec (t : Idl) (f : GoFile) (hf : genFile t = some f) :
    f.imports = [str "github.com/varlink/go/varlink", str "context"]
      ++ (if usesJson t then [str "encoding/json"] else []) ++ (if usesFmt t then [str "fmt"] else []) := by
  obtain ⟨_, _, _, _, _, _, _, _, _, _, _, _, _, _, _, _, _, _, rfl⟩ := genFile_inv hf
  simp only [assembleFile, importList]
  cases usesJson t <;> cases usesFmt t <;> decide

/-- **user text has no effect on the imports**: the interface name, the documentation of the interface and of
    every member, the description text and the member names can be replaced by anything (here: erased) without
    changing the import list — `@IMPORTS@`, `json.RawMessage`, `fmt.Sprintf`, `context.Context` inside them are
    just text. Only the kinds of the members and their types matter. -/
theorem imports_ignore_text (t : Idl) : importList (eraseText t) = importList t := importList_eraseText t

/-- … and the emitted text is the header followed by the declarations; the interface documentation occurs in
    the header as a comment in front of the package clause and nothing is searched or replaced in it -/
theorem genText_header (t : Idl) (s : Bytes) (h : genText t = .ok s) :
    ∃ body, bodyText t = some body ∧
      s = str "// Code generated by github.com/varlink/go/cmd/varlink-go-interface-generator, DO NOT EDIT.\n\n"
        ++ writeDocString t.doc ++ str "package " ++ pkgName t.name ++ str "\n\n"
        ++ str "import (\n" ++ join (str "\n\t") (importList t) ++ str "\n)\n\n" ++ body := by
  unfold genText genTextO at h
  cases hb : bodyText t with
  | none => simp [hb, Outcome.ofOption] at h
  | some b =>
    simp only [hb, Option.map_some, Outcome.ofOption, Outcome.ok.injEq] at h
    exact ⟨b, rfl, by rw [← h]; simp [headText, List.append_assoc]⟩

/-- `interface a.b`, `method M() -> ()` with the given interface documentation -/
def docSample (doc : String) : Idl :=
  { name := str "a.b", doc := str doc, description := str "…",
    members := [.method (str "M") [] (.struct .nil) (.struct .nil)] }

set_option maxRecDepth 20000 in
/-- former failing input "# see @IMPORTS@ here": in the domain, the documentation stays a comment, the import
    block is the real one (before: the placeholder inside the comment was replaced, format.Source failed) -/
example : Domain (docSample "see @IMPORTS@ here") = true
    ∧ (genFile (docSample "see @IMPORTS@ here")).map (·.imports)
        = some [str "github.com/varlink/go/varlink", str "context"]
    ∧ (genTextO (docSample "see @IMPORTS@ here")).map (fun s => hasPrefix s
        (str "// Code generated by github.com/varlink/go/cmd/varlink-go-interface-generator, DO NOT EDIT.\n\n"
          ++ str "// see @IMPORTS@ here\npackage ab\n\n"
          ++ str "import (\n\"github.com/varlink/go/varlink\"\n\t\"context\"\n)\n\n"
          ++ str "// Generated type declarations\n\n"))
        = some true := by
  refine ⟨by decide, by decide, by decide⟩

/-- former failing input "# uses json.RawMessage and fmt.Sprintf" in a description without errors and without
    `object`: neither package is imported, and `importsOk` holds (before: both imported and unused) -/
example : Domain (docSample "uses json.RawMessage and fmt.Sprintf") = true
    ∧ (genFile (docSample "uses json.RawMessage and fmt.Sprintf")).map (·.imports)
        = some [str "github.com/varlink/go/varlink", str "context"]
    ∧ ∀ f, genFile (docSample "uses json.RawMessage and fmt.Sprintf") = some f → importsOk f = true :=
  ⟨by decide, by decide, fun f hf => gen_importsOk _ f hf⟩

/-- the same text in the interface NAME ("interface fmt.Sprintf", "interface json.RawMessage") -/
example :
    let t : Idl := { name := str "json.RawMessage", doc := [], description := [],
                     members := [.method (str "M") [] (.struct .nil) (.struct .nil)] }
    Domain t = true ∧ (genFile t).map (·.imports) = some [str "github.com/varlink/go/varlink", str "context"]
    ∧ (genFile t).map (·.pkg) = some (str "jsonrawmessage") := by decide

/-- and the imports that ARE needed are there: an `object` parameter needs json, an error with parameters fmt -/
example :
    let t : Idl := { name := str "a.b", doc := str "context.Context", description := [],
                     members := [.method (str "M") [] (.struct (.typed (str "o") .object .nil)) (.struct .nil),
                                 .error (str "E") [] (some (.struct (.typed (str "a") .int .nil)))] }
    Domain t = true ∧ (genFile t).map (·.imports)
      = some [str "github.com/varlink/go/varlink", str "context", str "encoding/json", str "fmt"] := by decide

/-- **struct types and parameter lists**: every struct type of the emitted file has valid, pairwise distinct field
    names (`strings.Title` is injective on field names), every parameter list valid names that are no keywords -/
theorem gen_typesOk (t : Idl) (f : GoFile) (h : Domain t = true) (hf : genFile t = some f) : typesOk f = true := by
  obtain ⟨h1, h2, _⟩ := domain_parts h
  simp only [nameShapes, Bool.and_eq_true] at h1
  exact typesOk_genFile t f (memberGood_of_domain t h) h1.1 h2 hf

/-- **scopes**: in every emitted function the receiver, the parameters `<field>_in_` / `<field>_` , the results
    `<field>_out_` and the locals (`in`, `out`, `receive`, `err`, …) are pairwise distinct, whatever the field
    names are (Go keywords and the generator's own identifiers included) -/
theorem gen_scopesOk (t : Idl) (f : GoFile) (h : Domain t = true) (hf : genFile t = some f) : scopesOk f = true :=
  scopesOk_genFile t f (memberGood_of_domain t h) hf

/-- **package-level names**: the names the file declares (`<Type>`, `<Error>`, `<Method>`, `<Method>_methods`,
    `Dispatch_Error`, `<pkg>Interface`, `VarlinkCall`, `VarlinkInterface`, `VarlinkNew`) are valid identifiers,
    pairwise distinct and distinct from the imported package names: the reserved names excluded by the domain
    (`noReserved`) are sufficient -/
theorem gen_topLevelOk (t : Idl) (f : GoFile) (h : Domain t = true) (hf : genFile t = some f) :
    topLevelOk f = true := by
  obtain ⟨h1, h2, _, _, _, _, _, h8, _⟩ := domain_parts h
  simp only [nameShapes, Bool.and_eq_true, List.all_eq_true] at h1
  simp only [noReserved, List.all_eq_true] at h8
  refine topLevelOk_genFile t f ⟨fun m hm => (h1.2 m hm).1, (uniqueNames_iff_nodup _).mp h2, ?_, h1.1⟩ hf
  intro m hm
  have := h8 m hm
  cases m <;> simp only [memberNotReserved, Bool.and_eq_true, Bool.not_eq_true'] at this
  · simpa [Member.name] using this
  · simpa [Member.name] using this.1.1
  · simpa [Member.name] using this.1.1

/-- **assignments, conversions, selectors, the dispatcher's call**: every assignment the generator emits between a
    tagged struct (`in`, `out`, the error types) and the untagged parameters / results is between identical types
    or goes through a conversion between types that are identical ignoring tags (pointer types parenthesised);
    every selector `in.<F>`, `out.<F>`, `e.<F>` names a field; the dispatcher calls the interface method with
    arguments of exactly its parameter types -/
theorem gen_typedOk (t : Idl) (f : GoFile) (h : Domain t = true) (hf : genFile t = some f) : typedOk f = true :=
  typedOk_genFile t f (memberGood_of_domain t h) (topFacts_of_domain t h) hf

/-- **conversions**: for every description type the tagged rendering (`json:"…"` on every field, used for the
    structs that are encoded) and the untagged rendering (used in signatures) are identical ignoring struct
    tags at every depth — exactly Go's condition for the explicit conversions the generator emits; a pointer
    type is converted in the parenthesised form; types copied without conversion have one rendering -/
theorem conversions_welltyped (ty : Ty) (a b : GoTy) (ha : goTy ty true = some a) (hb : goTy ty false = some b) :
    a.beqNoTags b = true ∧ b.beqNoTags a = true
    ∧ (isPtrTy a = (convKind ty == .convParen)) ∧ (isPtrTy b = (convKind ty == .convParen))
    ∧ (convKind ty = .plain → a = b) :=
  ⟨(goTy_beqNoTags ty a b ha hb).1, (goTy_beqNoTags ty a b ha hb).2, goTy_isPtr ty true a ha,
    goTy_isPtr ty false b hb, fun hk => goTy_plain_eq ty a b hk ha hb⟩

example : ∃ a b, goTy (.maybe (.array (.struct (.typed (str "x") .int .nil)))) true = some a
    ∧ goTy (.maybe (.array (.struct (.typed (str "x") .int .nil)))) false = some b ∧ a.beq b = false
    ∧ a.beqNoTags b = true := ⟨_, _, rfl, rfl, by decide, by decide⟩

/-- **copies into a tagged struct** (`in.<F> = T(<f>_in_)`, `out.<F> = T(<f>_)`): in any function body where the
    struct variable has the tagged fields and the variables `<field><suffix>` the untagged field types, every
    emitted assignment type-checks (`typedStmts` passes over them) -/
theorem copies_in_welltyped (decls : List Decl) (env : Env) (dst s : Bytes) (fs : Fields)
    (hc : CopyCtx decls env dst s fs) (l rest : List Stmt) (hl : copyInStmts dst s fs = some l) :
    typedStmts decls env (l ++ rest) = typedStmts decls env rest :=
  copyInStmts_typed decls env dst s fs hc fs l rest (fun _ hx => hx) hl

/-- **copies out of the decoded reply** (`<f>_out_ = T(out.<F>)`) -/
theorem copies_out_welltyped (decls : List Decl) (env : Env) (fs : Fields)
    (hc : CopyCtx decls env (str "out") (str "_out_") fs) (l rest : List Stmt) (hl : copyOutStmts fs = some l) :
    typedStmts decls env (l ++ rest) = typedStmts decls env rest :=
  copyOutStmts_typed decls env fs hc fs l rest (fun _ hx => hx) hl

/-- FULL STATEMENT of "the emitted file passes the checker": proved below as `fullStatement_holds` /
    `gen_wellformed` (all nine sub-checks from the domain alone). History: before the repairs 30ae85f / 764942c /
    2a8a008 it was FALSE (`fullStatement_fails`: `interface i.f` gave `package if`); until `gen_namesResolve`,
    `gen_methodsOk` and `gen_noCycleOk` were proved, `namesResolve`, `methodsOk` and `noCycleOk` were hypotheses
    (`gen_wellformed_partial`). Every run still evaluates `wellFormed` on every generated description and
    compares with the Go compiler. -/
def FullStatement : Prop := ∀ (t : Idl) (f : GoFile), Domain t = true → genFile t = some f → wellFormed f = true

/-- **gen_wellformed_partial**: what is proved of `FullStatement`. Proved from the domain alone, for EVERY
    description of the domain: `pkgOk`, `importsOk`, `topLevelOk`, `typesOk`, `scopesOk`, `typedOk`. The remaining
    sub-checks of `wellFormed` enter as hypotheses: `namesResolve`, `methodsOk` and `noCycleOk`. Every run of the
    correspondence evaluates `wellFormed` on every generated description of the domain and compares it with the Go
    compiler (DIFF `theorem-contradicted` / `model-wellformed-but-compiler-rejects` / `model-rejects-but-compiles`).

    Statement before the repairs (two more hypotheses, both false on known inputs of the domain):
      `… (hk : pkgNameUsable t = true) … (h_imports : importsOk f = true) (h_names …) (h_methods …) (h_cycle …)` -/
theorem gen_wellformed_partial (t : Idl) (f : GoFile) (h : Domain t = true)
    (hf : genFile t = some f)
    (h_names : namesResolve f = true)
    (h_methods : methodsOk f = true) (h_cycle : noCycleOk f = true) :
    wellFormed f = true := by
  simp [wellFormed, gen_pkgOk t f h hf, gen_importsOk t f hf, gen_typesOk t f h hf, gen_scopesOk t f h hf,
    gen_topLevelOk t f h hf, gen_typedOk t f h hf, h_names, h_methods, h_cycle]

/-- **names resolve**: every type name the emitted file mentions — in type declarations, signatures, the
    interface, `var` statements, conversions, function literals — is predeclared (`bool`, `int64`, `float64`,
    `string`, `uint64`, `error`) or declared by the file (`<Type>`, `<Error>`, `<Method>_methods`, `VarlinkCall`,
    `VarlinkInterface`, `<pkg>Interface`), and every package qualifier (`json.`, `context.`, `varlink.`) is
    imported: `refsResolve` of the domain and the exact import list are sufficient -/
theorem gen_namesResolve (t : Idl) (f : GoFile) (h : Domain t = true) (hf : genFile t = some f) :
    namesResolve f = true := by
  obtain ⟨_, _, _, _, h5, _⟩ := domain_parts h
  exact namesResolve_genFile t f (memberGood_of_domain t h) h5 hf

/-- **method sets**: every receiver type (`<Error>`, `<Method>_methods`, `VarlinkCall`, `VarlinkInterface`) is a
    declared struct type (never a pointer or interface type); per receiver type the method names are pairwise
    distinct, valid, and differ from the field names (`Error()` against the error's fields: the domain excludes a
    field `error`; `Reply<X>` against the embedded `Call`; `<Method>` / `VarlinkDispatch`… against the embedded
    `<pkg>Interface`); no `Reply<X>` declared on `VarlinkCall` shadows `ReplyError` /
    `ReplyMethodNotImplemented`, the promoted `varlink.Call` methods the file calls through a `VarlinkCall`
    (`ReplyInvalidParameter` is only called through a `varlink.Call`, so a method `InvalidParameter` is fine) -/
theorem gen_methodsOk (t : Idl) (f : GoFile) (h : Domain t = true) (hf : genFile t = some f) :
    methodsOk f = true := by
  obtain ⟨h1, _⟩ := domain_parts h
  simp only [nameShapes, Bool.and_eq_true] at h1
  exact methodsOk_genFile t f (memberGood_of_domain t h) (methFacts_of_domain t f h hf) (errField_of_domain t h)
    h1.1 (tyNames_nodup t f (topFacts_of_domain t h) hf) hf

/-- **no type of infinite size**: no declared type of the emitted file contains itself without a pointer, slice
    or map in between, at EVERY fuel of the checker's search (a walk between declared types is a walk between
    `type` members of the description, and a walk can be shortened to one without repeated nodes, so the
    `members.length` steps `noDirectRecursion` of the domain looks ahead decide it); and no alias declaration
    `type A = …` (emitted exactly for the types that resolve to `object`) refers to itself through alias
    declarations: `resolvesToObject` follows the only edge out of such a declaration and ends at `object` -/
theorem gen_noCycleOk (t : Idl) (f : GoFile) (h : Domain t = true) (hf : genFile t = some f) :
    noCycleOk f = true :=
  (cycleCtx_of_domain t f h hf).noCycleOk

/-- **gen_wellformed**: the emitted file passes all nine sub-checks of `wellFormed`, for EVERY description of the
    domain -/
theorem gen_wellformed (t : Idl) (f : GoFile) (h : Domain t = true) (hf : genFile t = some f) :
    wellFormed f = true :=
  gen_wellformed_partial t f h hf (gen_namesResolve t f h hf) (gen_methodsOk t f h hf) (gen_noCycleOk t f h hf)

/-- the full statement holds -/
theorem fullStatement_holds : FullStatement := fun t f h hf => gen_wellformed t f h hf

/-- non-vacuity: the sample (an alias, an optional, an array of structs, an error) is in the domain, the generator
    produces a file for it, and that file is well-formed -/
example : Domain sample = true ∧ ∃ f, genFile sample = some f ∧ wellFormed f = true := by
  refine ⟨by decide, ?_⟩
  obtain ⟨f, hf⟩ := genFile_total sample (by decide)
  exact ⟨f, hf, gen_wellformed sample f (by decide) hf⟩

/-- recursion through an optional, an alias chain to `object` (emitted as `type A = *B`, `type B = json.RawMessage`),
    a self-referential pointer type and a method called `InvalidParameter` are inside the domain -/
example :
    let t : Idl := { name := str "a.b", doc := [], description := [], members := [
      .alias (str "A") [] (.maybe (.named (str "B"))),
      .alias (str "B") [] .object,
      .alias (str "C") [] (.struct (.typed (str "next") (.maybe (.named (str "C"))) .nil)),
      .alias (str "D") [] (.maybe (.named (str "D"))),
      .method (str "InvalidParameter") [] (.struct (.typed (str "c") (.named (str "A")) .nil)) (.struct .nil),
      .error (str "E") [] (some (.struct (.typed (str "why") (.named (str "C")) .nil)))] }
    Domain t = true ∧ ∀ f, genFile t = some f → wellFormed f = true :=
  ⟨by decide, fun f hf => gen_wellformed _ f (by decide) hf⟩

/-- direct recursion is outside the domain (`type T (a: T)`: Go rejects `type T struct{ A T }`) -/
example :
    let t : Idl := { name := str "a.b", doc := [], description := [], members := [
      .alias (str "T") [] (.struct (.typed (str "a") (.named (str "T")) .nil)),
      .method (str "M") [] (.struct .nil) (.struct .nil)] }
    Domain t = false ∧ outsideBecause t = some "direct-recursion" := by decide

/-- the domain hypotheses of the partial theorem are satisfiable (`sample` uses an alias, an optional, an array of
    structs and an error); that the sample's file passes the three assumed sub-checks is evaluated by the compiled
    driver on thousands of descriptions per run (kernel `decide` does not reduce the checker's nested recursion) -/
example : Domain sample = true ∧ (genFile sample).isSome = true :=
  ⟨by decide, rfl⟩

/-- the former counterexamples to the full statement are in the domain and now get a usable package clause and
    an exact import block: `interface i.f` → `package if_`, `interface ma.in` → `package main_`,
    `interface document.ation` → `package documentation_` -/
example :
    let t (n : String) : Idl :=
      { name := str n, doc := [], description := [], members := [.method (str "M") [] (.struct .nil) (.struct .nil)] }
    Domain (t "i.f") = true ∧ Domain (t "ma.in") = true ∧ Domain (t "document.ation") = true
    ∧ (∀ f, genFile (t "i.f") = some f → f.pkg = str "if_" ∧ pkgOk f = true ∧ importsOk f = true)
    ∧ (∀ f, genFile (t "ma.in") = some f → f.pkg = str "main_" ∧ pkgOk f = true ∧ importsOk f = true)
    ∧ (∀ f, genFile (t "document.ation") = some f →
        f.pkg = str "documentation_" ∧ pkgOk f = true ∧ importsOk f = true) := by
  refine ⟨by decide, by decide, by decide, fun f hf => ⟨?_, gen_pkgOk _ f (by decide) hf, gen_importsOk _ f hf⟩,
    fun f hf => ⟨?_, gen_pkgOk _ f (by decide) hf, gen_importsOk _ f hf⟩,
    fun f hf => ⟨?_, gen_pkgOk _ f (by decide) hf, gen_importsOk _ f hf⟩⟩
  · exact (pkgname_of_domain _ (by decide) f hf).1.trans (by decide)
  · exact (pkgname_of_domain _ (by decide) f hf).1.trans (by decide)
  · exact (pkgname_of_domain _ (by decide) f hf).1.trans (by decide)

/-- `pkgOk` rejects the package clause the unrepaired generator gave `interface document.ation`, and `main` -/
example : pkgOk { pkg := str "documentation", imports := [], decls := [] } = false
    ∧ pkgOk { pkg := str "main", imports := [], decls := [] } = false
    ∧ pkgOk { pkg := str "documentation_", imports := [], decls := [] } = true
    ∧ pkgOk { pkg := str "documentations", imports := [], decls := [] } = true := by decide

/-- **Tie to the source**: the declarations of /repo that this property's model transliterates
    (`Extracted.codeNames_C07`) have, in the current working tree, exactly the fingerprints of the code the
    model was validated against. Any change to them breaks this obligation; the check then searches the
    correspondence streams for an input on which the changed code violates the property. -/
theorem modelled_code_unchanged : Varlink.Extracted.code_C07 = Varlink.ExpectedCode.code_C07 := by decide

/-- no declaration (function, method, type, constant, variable) has been added to or removed from the
    fingerprinted source files since the models were validated: a new method or `init` can change behaviour
    without touching the text of any existing declaration -/
theorem declarations_known : Varlink.Extracted.declarationSet = Varlink.ExpectedCode.declarationSet := by decide

end Varlink.C07
