/-
  C03 — call and reply parameters survive the round trip unchanged.
  Client side: `callObj`/`send`, `receive`/`receiveFrame` (lean/Varlink/Client.lean); service side:
  `decodeCall`, `replyObj`/`wireReply` (lean/Varlink/Service.lean); JSON and framing models as in C02.
  A transport contributes one thing only: a reliable ordered byte pipe, i.e. some segmentation `net`
  of the bytes written (assumption, sampled on unix / abstract / tcp / bridge by the correspondence).
-/
import Varlink.Client
import Varlink.JsonWF
import Varlink.Extracted.Wire
import VarlinkProofs.Lemmas.Frame
import VarlinkProofs.Lemmas.Json
import VarlinkProofs.Lemmas.Wire
import VarlinkProofs.Lemmas.WireWf
import Varlink.Extracted.Code
import Varlink.ExpectedCode
namespace Varlink.C03
open Varlink

/-- **Call round trip**: what the service handler reads (`serviceCall` after `json.Unmarshal`) from the
    bytes the client wrote is exactly the method, the parameters — JSON-equal: same members in the same
    order, strings byte for byte, numbers digit for digit — and the three flags. -/
theorem call_roundtrip (m : Bytes) (p : JVal) (more oneway upgrade : Bool)
    (hm : utf8Ok m = true) (hp : p.wf = true) (hnull : p ≠ .null) (hd : p.depth < maxDepth) :
    decodeCall (render (callObj m (some p) more oneway upgrade)) =
      some { method := m, params := some p, more := more, oneway := oneway, upgrade := upgrade } := by
  obtain ⟨ms, hms, hdec⟩ := applyMembers_callObj m (some p) (by simpa using hnull) more oneway upgrade
  have hwf := callObj_wf m (some p) more oneway upgrade hm hp
  have hdep : (callObj m (some p) more oneway upgrade).depth ≤ maxDepth := by
    rw [callObj_depth]; simp only [optDepth]; omega
  unfold decodeCall
  rw [parseDoc_render _ hwf hdep, hms]
  exact hdec

/-- a call without parameters arrives without parameters -/
theorem call_roundtrip_no_parameters (m : Bytes) (more oneway upgrade : Bool) (hm : utf8Ok m = true) :
    decodeCall (render (callObj m none more oneway upgrade)) =
      some { method := m, params := none, more := more, oneway := oneway, upgrade := upgrade } := by
  obtain ⟨ms, hms, hdec⟩ := applyMembers_callObj m none (by simp) more oneway upgrade
  have hwf := callObj_wf m none more oneway upgrade hm rfl
  have hdep : (callObj m none more oneway upgrade).depth ≤ maxDepth := by
    rw [callObj_depth]; simp [optDepth, maxDepth]
  unfold decodeCall
  rw [parseDoc_render _ hwf hdep, hms]
  exact hdec

/-- `Connection.Call` without parameters writes `"parameters":null` (see `callWrapper`): the service reads that
    exactly like a call whose parameters member is absent — same method, no parameters, no flags. -/
theorem call_wrapper_nil_parameters (m : Bytes) (hm : utf8Ok m = true) :
    ∃ req, callWrapper m .absent = .written req ∧
      decodeCall (render req) = some { method := m, params := none } ∧
      decodeCall (render req) = decodeCall (render (callObj m none false false false)) := by
  refine ⟨_, rfl, ?_⟩
  have hwf : (callObj m (some .null) false false false).wf = true :=
    callObj_wf m (some .null) false false false hm (by simp [optWf, JVal.wf])
  have hdep : (callObj m (some .null) false false false).depth ≤ maxDepth := by
    rw [callObj_depth]; simp [optDepth, JVal.depth, maxDepth]
  have h1 : decodeCall (render (callObj m (some .null) false false false)) = some { method := m, params := none } := by
    unfold decodeCall
    rw [parseDoc_render _ hwf hdep]
    have k1 : keyMatches (str "method") (str "parameters") = false := by decide
    have k2 : keyMatches (str "parameters") (str "parameters") = true := by decide
    have hpn : applyMember { method := m } (str "parameters") JVal.null = some { method := m, params := none } := by
      unfold applyMember
      simp [k1, k2]
    simp [callObj, boolMember, applyMembers, applyMember_method, hpn]
  refine ⟨h1, ?_⟩
  rw [h1, call_roundtrip_no_parameters m false false false hm]

/-- **Reply round trip**: what the client's `receive` yields for the bytes the service wrote is exactly
    the reply parameters and the continues indication. -/
theorem reply_roundtrip (p : JVal) (continues : Bool) (hp : p.wf = true) (hnull : p ≠ .null)
    (hd : p.depth < maxDepth) :
    receiveFrame (render (replyObj { params := some p, continues := continues, error := [] })) =
      .reply (some p) continues := by
  let f : ReplyFrame := { params := some p, continues := continues, error := [] }
  obtain ⟨ms, hms, hdec⟩ := applyReplyMembers_replyObj f (by simpa [f] using hnull)
  have hwf := replyObj_wf f (show utf8Ok [] = true by decide) hp
  have hdep : (replyObj f).depth ≤ maxDepth := by rw [replyObj_depth]; simp only [optDepth, f]; omega
  have hdr : decodeReply (render (replyObj f)) = some { params := some p, continues := continues, error := [] } := by
    unfold decodeReply
    rw [parseDoc_render _ hwf hdep, hms]
    exact hdec
  show receiveFrame (render (replyObj f)) = _
  simp [receiveFrame, hdr]

/-- …and an error reply arrives as that error with JSON-equal parameters (see also C12) -/
theorem error_roundtrip (name : Bytes) (p : JVal) (hn : utf8Ok name = true) (hne : name ≠ [])
    (hp : p.wf = true) (hnull : p ≠ .null) (hd : p.depth < maxDepth) :
    receiveFrame (render (replyObj { params := some p, continues := false, error := name })) =
      dispatchError name (some p) := by
  let f : ReplyFrame := { params := some p, continues := false, error := name }
  obtain ⟨ms, hms, hdec⟩ := applyReplyMembers_replyObj f (by simpa [f] using hnull)
  have hwf := replyObj_wf f hn hp
  have hdep : (replyObj f).depth ≤ maxDepth := by rw [replyObj_depth]; simp only [optDepth, f]; omega
  have hdr : decodeReply (render (replyObj f)) = some { params := some p, continues := false, error := name } := by
    unfold decodeReply
    rw [parseDoc_render _ hwf hdep, hms]
    exact hdec
  show receiveFrame (render (replyObj f)) = _
  simp [receiveFrame, hdr, hne]

/-! ### more-sequences over any transport -/

/-- the replies of a more-sequence as the service writes them: continues on all but the last -/
def moreFrames : List JVal → List ReplyFrame
  | [] => []
  | [p] => [{ params := some p, continues := false, error := [] }]
  | p :: q :: t => { params := some p, continues := true, error := [] } :: moreFrames (q :: t)

def moreStream (ps : List JVal) : Bytes := ((moreFrames ps).map wireReply).flatten

def expectedReplies : List JVal → List (JVal × Bool)
  | [] => []
  | [p] => [(p, false)]
  | p :: q :: t => (p, true) :: expectedReplies (q :: t)

def isReply (r : RecvResult) (p : JVal) (c : Bool) : Prop := r = .reply (some p) c

/-- **Every reply of a more-sequence arrives, in order, with the continues indication set on all but
    the last**, over any segmentation `net` of the bytes the service wrote (any transport that is a
    reliable ordered byte pipe), any reader capacity, possibly followed by further traffic `rest`. -/
theorem more_sequence_roundtrip (cap : Nat) (hcap : cap > 0) :
    ∀ (ps : List JVal), (∀ p ∈ ps, p.wf = true ∧ p ≠ .null ∧ p.depth < maxDepth) →
    ∀ (b : Bufio) (net : Net) (rest : Bytes), pending b net = moreStream ps ++ rest →
      receiveN cap ps.length b net = (expectedReplies ps).map fun (p, c) => RecvResult.reply (some p) c := by
  intro ps
  -- one step: the first frame is received exactly and the rest stays pending
  have step : ∀ (p : JVal) (c : Bool) (tailBytes : Bytes) (b : Bufio) (net : Net),
      p.wf = true → p ≠ .null → p.depth < maxDepth →
      pending b net = wireReply { params := some p, continues := c, error := [] } ++ tailBytes →
      (receive cap b net).1 = .reply (some p) c ∧
      pending (receive cap b net).2.1 (receive cap b net).2.2 = tailBytes := by
    intro p c tailBytes b net hwf hnull hd hpend
    let f : ReplyFrame := { params := some p, continues := c, error := [] }
    have hnn : (0 : UInt8) ∉ render (replyObj f) :=
      render_no_nul _ (replyObj_wf f (show utf8Ok [] = true by decide) hwf)
    have hp' : pending b net = render (replyObj f) ++ 0 :: tailBytes := by
      rw [hpend]; simp [wireReply, f]
    unfold receive
    have hc : cutAt 0 (pending b net) = some (render (replyObj f), tailBytes) := by
      rw [hp']; exact cutAt_of_split 0 _ _ hnn
    obtain ⟨b', net', h1, h2⟩ :=
      (readBytes_spec cap hcap 0 (readFuel b net) [] b net (readFuel_enough b net)).1 _ _ hc
    rw [h1]
    simp only [List.nil_append, List.dropLast_concat]
    exact ⟨reply_roundtrip p c hwf hnull hd, h2⟩
  induction ps with
  | nil => intro _ b net rest _; simp [receiveN, expectedReplies]
  | cons p t ih =>
    intro hall b net rest hpend
    obtain ⟨hwf, hnull, hd⟩ := hall p (by simp)
    cases t with
    | nil =>
      have hs := step p false rest b net hwf hnull hd (by simpa [moreStream, moreFrames] using hpend)
      simp only [List.length_cons, List.length_nil, receiveN, expectedReplies, List.map_cons, List.map_nil]
      rw [hs.1]
    | cons q t' =>
      have hs := step p true (moreStream (q :: t') ++ rest) b net hwf hnull hd (by
        simpa [moreStream, moreFrames, List.append_assoc] using hpend)
      have hrec := ih (fun x hx => hall x (by simp [hx])) (receive cap b net).2.1 (receive cap b net).2.2 rest hs.2
      simp only [List.length_cons, receiveN, expectedReplies, List.map_cons] at hrec ⊢
      rw [hs.1, ← hrec]

/-! ### any reply frames, and the whole call end to end -/

/-- what the client's `receive` hands to the caller for a reply frame as the service's `sendMessage` built it -/
def clientView (f : ReplyFrame) : RecvResult :=
  if f.error ≠ [] then dispatchError f.error f.params else .reply f.params f.continues

/-- a frame whose strings are valid UTF-8 and whose parameters (if any) are a well-formed JSON value other than
    `null` of admissible depth — what `json.Marshal` of a handler's reply value produces -/
def FrameOk (f : ReplyFrame) : Prop :=
  utf8Ok f.error = true ∧ optWf f.params = true ∧ f.params ≠ some .null ∧ optDepth f.params < maxDepth

/-- **every reply frame** — reply or error, with or without parameters, continues or not — is decoded by the
    client to exactly what the service put in -/
theorem frame_roundtrip (f : ReplyFrame) (h : FrameOk f) :
    receiveFrame (render (replyObj f)) = clientView f := by
  obtain ⟨he, hp, hnull, hd⟩ := h
  obtain ⟨ms, hms, hdec⟩ := applyReplyMembers_replyObj f hnull
  have hwf := replyObj_wf f he hp
  have hdep : (replyObj f).depth ≤ maxDepth := by rw [replyObj_depth]; omega
  have hdr : decodeReply (render (replyObj f)) =
      some { params := f.params, continues := f.continues, error := f.error } := by
    unfold decodeReply
    rw [parseDoc_render _ hwf hdep, hms]
    exact hdec
  simp [receiveFrame, hdr, clientView]

/-- **any sequence of reply frames arrives frame by frame, in order**, over any segmentation of the bytes the
    service wrote, any reader capacity, possibly followed by further traffic -/
theorem frames_roundtrip (cap : Nat) (hcap : cap > 0) :
    ∀ (fs : List ReplyFrame), (∀ f ∈ fs, FrameOk f) →
    ∀ (b : Bufio) (net : Net) (rest : Bytes), pending b net = (fs.map wireReply).flatten ++ rest →
      receiveN cap fs.length b net = fs.map clientView := by
  intro fs
  induction fs with
  | nil => intro _ b net rest _; simp [receiveN]
  | cons f t ih =>
    intro hall b net rest hpend
    have hf := hall f (by simp)
    have hnn : (0 : UInt8) ∉ render (replyObj f) := render_no_nul _ (replyObj_wf f hf.1 hf.2.1)
    have hp' : pending b net = render (replyObj f) ++ 0 :: ((t.map wireReply).flatten ++ rest) := by
      rw [hpend]; simp [wireReply, List.append_assoc]
    have hc : cutAt 0 (pending b net) = some (render (replyObj f), (t.map wireReply).flatten ++ rest) := by
      rw [hp']; exact cutAt_of_split 0 _ _ hnn
    obtain ⟨b', net', h1, h2⟩ :=
      (readBytes_spec cap hcap 0 (readFuel b net) [] b net (readFuel_enough b net)).1 _ _ hc
    have hrecv : receive cap b net = (clientView f, b', net') := by
      unfold receive
      rw [h1]
      simp only [List.nil_append, List.dropLast_concat]
      rw [frame_roundtrip f hf]
    have hrec := ih (fun x hx => hall x (by simp [hx])) b' net' rest h2
    simp only [List.length_cons, receiveN, List.map_cons, hrecv, hrec]

/-- **One call, end to end** (client `Send` → bytes → service `handleConnection`/`HandleMessage` → handler →
    `sendMessage` → bytes → client `receive`): for every method string, every well-formed parameter value and
    every admissible flag set, the client writes one request; the service reading those bytes handles exactly
    the call the client made (same method, JSON-equal parameters, same flags), routes it as `route` says and
    runs the handler once; and every frame the handler's replies produce comes back to the client, in order,
    as exactly that reply or error — over any segmentation of the reply bytes. -/
theorem rpc_end_to_end (cap : Nat) (hcap : cap > 0) (reg : Registry) (beh : Behaviour)
    (m : Bytes) (p : JVal) (fl : Flags)
    (hm : utf8Ok m = true) (hp : p.wf = true) (hnull : p ≠ .null) (hd : p.depth < maxDepth)
    (hfl : (fl.more && fl.oneway) = false ∧ (fl.more && fl.upgrade) = false) :
    let c : CallIn := { method := m, params := some p, more := fl.more, oneway := fl.oneway, upgrade := fl.upgrade }
    let o := handleCall reg beh c
    ∃ req, send m (.val p) fl = .written req ∧
      connLoop reg beh [render req] =
        { frames := o.frames, dispatched := dispatchEntry o, handled := 1,
          ending := if o.failed then .handlerError else .eof } ∧
      o.route = route (reg.ifaces.map (·.1)) m ∧
      ((∀ f ∈ o.frames, FrameOk f) → ∀ (b : Bufio) (net : Net) (rest : Bytes),
        pending b net = (o.frames.map wireReply).flatten ++ rest →
        receiveN cap o.frames.length b net = o.frames.map clientView) := by
  intro c o
  refine ⟨callObj m (some p) fl.more fl.oneway fl.upgrade, ?_, ?_, ?_, ?_⟩
  · simp [send, hfl.1, hfl.2]
  · have hdecode := call_roundtrip m p fl.more fl.oneway fl.upgrade hm hp hnull hd
    simp only [connLoop, hdecode]
    by_cases hfail : o.failed = true
    · simp [o, c] at hfail ⊢
      simp [hfail]
    · have hfail' : o.failed = false := by simpa using hfail
      simp [o, c] at hfail' ⊢
      simp [hfail']
  · have hr : ∀ c : CallIn, (handleCall reg beh c).route = route (reg.ifaces.map (·.1)) c.method := by
      intro c
      unfold handleCall
      cases h : route (reg.ifaces.map (·.1)) c.method <;> simp
    exact hr c
  · intro hall b net rest hpend
    exact frames_roundtrip cap hcap o.frames hall b net rest hpend

/-! #### a whole session: any number of calls written back to back on one connection -/

/-- a call as the client's `Send` is given it (parameters optional) -/
structure ClientCall where
  method : Bytes
  params : Option JVal := none
  more : Bool := false
  oneway : Bool := false
  upgrade : Bool := false

def ClientCall.Ok (k : ClientCall) : Prop :=
  utf8Ok k.method = true ∧ optWf k.params = true ∧ k.params ≠ some .null ∧ optDepth k.params < maxDepth

/-- the request as `Send` writes it (without the NUL) -/
def ClientCall.wire (k : ClientCall) : Bytes := render (callObj k.method k.params k.more k.oneway k.upgrade)

def ClientCall.toCallIn (k : ClientCall) : CallIn :=
  { method := k.method, params := k.params, more := k.more, oneway := k.oneway, upgrade := k.upgrade }

/-- the connection loop as a function of the calls themselves: handle them in order, stop after the first
    handler failure (no decoding involved) -/
def sessionSpec (reg : Registry) (beh : Behaviour) : List CallIn → ConnTrace
  | [] => {}
  | c :: cs =>
    let o := handleCall reg beh c
    if o.failed then
      { frames := o.frames, dispatched := dispatchEntry o, handled := 1, ending := .handlerError }
    else
      let t := sessionSpec reg beh cs
      { frames := o.frames ++ t.frames, dispatched := dispatchEntry o ++ t.dispatched,
        handled := t.handled + 1, ending := t.ending }

theorem ClientCall.decoded (k : ClientCall) (h : k.Ok) : decodeCall k.wire = some k.toCallIn := by
  obtain ⟨hm, hp, hnull, hd⟩ := h
  obtain ⟨m, p, a, b, c⟩ := k
  cases p with
  | none => exact call_roundtrip_no_parameters m a b c hm
  | some v =>
    exact call_roundtrip m v a b c hm (by simpa [optWf] using hp) (by simpa using hnull)
      (by simpa [optDepth] using hd)

/-- **A whole session**: whatever sequence of calls a client writes on a connection, the service handles exactly
    those calls, in that order, each routed and answered as `handleCall` says, up to the first handler failure —
    the bytes in between play no role. (With `frames_roundtrip`: every frame of the resulting trace comes back to
    the client in order.) -/
theorem session_end_to_end (reg : Registry) (beh : Behaviour) :
    ∀ (ks : List ClientCall), (∀ k ∈ ks, k.Ok) →
      connLoop reg beh (ks.map ClientCall.wire) = sessionSpec reg beh (ks.map ClientCall.toCallIn) := by
  intro ks
  induction ks with
  | nil => intro _; rfl
  | cons k t ih =>
    intro hall
    have hk := ClientCall.decoded k (hall k (by simp))
    have ht := ih (fun x hx => hall x (by simp [hx]))
    simp only [List.map_cons, connLoop, sessionSpec, hk, ht]

example : (ClientCall.Ok { method := str "a.b.M", params := some (.obj .nil), more := true }) ∧
    (ClientCall.Ok { method := str "org.varlink.service.GetInfo" }) := by
  refine ⟨⟨by decide, by decide, by simp, by decide⟩, ⟨by decide, by decide, by simp, by decide⟩⟩

/-- non-vacuity of `rpc_end_to_end`: a registered interface whose handler streams two replies and an error on a
    `more` call — the hypotheses hold and there are three frames to bring back -/
example :
    let reg : Registry := { ifaces := [(str "a.b", str "interface a.b")] }
    let beh : Behaviour := fun _ _ _ =>
      { acts := [.setContinues true, .reply (.val (.obj (.cons (str "i") (.num (str "1")) .nil))),
                 .setContinues false, .reply .absent,
                 .replyError (str "a.b.E") (.val (.obj .nil))] }
    let c : CallIn := { method := str "a.b.M", params := some (.obj .nil), more := true }
    (handleCall reg beh c).route = .user (str "a.b") (str "M") ∧
    (handleCall reg beh c).frames.length = 3 ∧ ∀ f ∈ (handleCall reg beh c).frames, FrameOk f := by
  refine ⟨by decide, by decide, ?_⟩
  intro f hf
  have : (handleCall { ifaces := [(str "a.b", str "interface a.b")] }
      (fun _ _ _ => { acts := [.setContinues true, .reply (.val (.obj (.cons (str "i") (.num (str "1")) .nil))),
                 .setContinues false, .reply .absent, .replyError (str "a.b.E") (.val (.obj .nil))] })
      { method := str "a.b.M", params := some (.obj .nil), more := true }).frames =
      [{ params := some (.obj (.cons (str "i") (.num (str "1")) .nil)), continues := true, error := [] },
       { params := none, continues := false, error := [] },
       { params := some (.obj .nil), continues := false, error := str "a.b.E" }] := by rfl
  rw [this] at hf
  simp only [List.mem_cons, List.not_mem_nil, or_false] at hf
  rcases hf with rfl | rfl | rfl <;> (refine ⟨by decide, by decide, by simp, by decide⟩)

/-! ### the member names on both sides come from the source (regenerated every run) -/

/-- the client's call struct and the service's call struct use the same member names, the ones the
    model's `callObj` writes and `applyMember` reads -/
theorem call_tags_agree :
    Varlink.Extracted.clientCallFields.map (·.1) = ["method", "parameters", "more", "oneway", "upgrade"] ∧
    Varlink.Extracted.serviceCallFields.map (·.1) = ["method", "parameters", "more", "oneway", "upgrade"] := by
  decide

/-- likewise for replies; `omitempty` on the service side is what `replyObj` models -/
theorem reply_tags_agree :
    Varlink.Extracted.serviceReplyFields.map (fun x => (x.1, x.2.1)) =
      [("parameters", true), ("continues", true), ("error", true)] ∧
    Varlink.Extracted.clientReplyFields.map (·.1) = ["parameters", "continues", "error"] := by
  decide

/-- the parameters stay raw JSON on both receiving sides until the application decodes them -/
theorem parameters_kept_raw :
    (Varlink.Extracted.serviceCallFields.filter (·.1 == "parameters")).map (·.2.2) = ["*json.RawMessage"] ∧
    (Varlink.Extracted.clientReplyFields.filter (·.1 == "parameters")).map (·.2.2) = ["*json.RawMessage"] := by
  decide

/-! ### non-vacuity -/

def bigNum : JVal := .obj (.cons (str "n") (.num (str "123456789012345678901234567890")) (.cons (str "e") (.num (str "1e400")) (.cons (str "z") .null .nil)))
example : bigNum.wf = true ∧ bigNum.depth < maxDepth := by decide
example : bigNum ≠ .null := by simp [bigNum]
example : expectedReplies [bigNum, .obj .nil, bigNum] = [(bigNum, true), (.obj .nil, true), (bigNum, false)] := rfl

/-- **Tie to the source**: the declarations of /repo that this property's model transliterates
    (`Extracted.codeNames_C03`) have, in the current working tree, exactly the fingerprints of the code the
    model was validated against. Any change to them breaks this obligation; the check then searches the
    correspondence streams for an input on which the changed code violates the property. -/
theorem modelled_code_unchanged : Varlink.Extracted.code_C03 = Varlink.ExpectedCode.code_C03 := by decide

/-- no declaration (function, method, type, constant, variable) has been added to or removed from the
    fingerprinted source files since the models were validated: a new method or `init` can change behaviour
    without touching the text of any existing declaration -/
theorem declarations_known : Varlink.Extracted.declarationSet = Varlink.ExpectedCode.declarationSet := by decide

end Varlink.C03
