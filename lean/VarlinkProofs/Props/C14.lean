/-
  C14 — Shutdown always ends serving; connections drain; the service is reusable.
  Theorems over the transition system of `Varlink/Lifecycle.lean` (any number of API calls, connections,
  handler threads, under every interleaving). Helper lemmas: `VarlinkProofs/Lemmas/Lifecycle*.lean`.
-/
import VarlinkProofs.Lemmas.LifecycleTimeout
import Varlink.Expected
import Varlink.Extracted.Skeleton
import Varlink.Extracted.Code
import Varlink.ExpectedCode
namespace Varlink.C14
open Varlink.Life

/-! ### the model is written against the code that exists -/

/-- **skeleton_matches**: the synchronisation skeleton regenerated from /repo's service.go on every run
    (lock/unlock, field reads and writes with the constants written, listener and wait-group calls, go, defer,
    guards, returns — in source order) is the one the transition system was written against. -/
theorem skeleton_matches : Varlink.Extracted.skeleton = Varlink.Expected.skeleton := by decide

/-- `Listen` and `DoListen` run the same accept loop (the model has one set of loop transitions for both) -/
theorem listen_and_dolisten_share_the_loop :
    Varlink.Expected.loopOf (Varlink.Expected.ops "Listen") = Varlink.Expected.loopOf (Varlink.Expected.ops "DoListen") ∧
    (Varlink.Expected.loopOf (Varlink.Expected.ops "Listen")).length = 30 := by decide

/-! ### accounting -/

/-- **accounted_once**: in every reachable state `conncounter` is exactly the number of connections between
    `counted` (counter++ done) and `closed` (before the deferred counter--), every call's wait group is exactly
    the number of its connections between handler start and `wg.Done()`, and no `wg.Done()` ever hit an
    empty wait group. Every accepted connection therefore contributes one to each from its increment to
    its decrement and nothing before or after. -/
theorem accounted_once {w : World} (h : Reachable w) :
    w.counter = cnt cntd w.conns ∧
    (∀ (k : Nat) (c : Call), w.calls[k]? = some c → (c.wg : Int) = cnt (ownedWg k) w.conns) ∧
    w.wgPanic = false :=
  let i := inv_reachable h
  ⟨i.counterOk, i.wgOk, i.noPanic⟩

/-- the phases in which a connection is included in the counter / in the wait group -/
theorem accounted_phases :
    (∀ p, inCounter p = true ↔ p = .counted ∨ p = .reading ∨ p = .dispatching ∨ p = .closing ∨ p = .closed) ∧
    (∀ p, inWg p = true ↔ p = .reading ∨ p = .dispatching ∨ p = .closing ∨ p = .closed ∨ p = .decremented) := by
  constructor <;> intro p <;> cases p <;> simp [inCounter, inWg]

/-- the four endings of a handler — orderly close, abort mid-frame (both: end of input while reading),
    handler error, context cancellation — are all enabled in the states where they can happen and all lead
    to the same exit path (`closing`) -/
theorem four_endings_reach_closing {w : World} {i : Nat} {x : Conn} (hi : w.conns[i]? = some x) :
    (x.phase = .reading → x.reqs = 0 → x.cli = .open →
      ∃ w1, run w [.clientClose i, .handler i] = some w1 ∧ (w1.conns[i]?).map (·.phase) = some .closing) ∧
    (x.phase = .reading → x.reqs = 0 → x.cli = .open →
      ∃ w1, run w [.clientAbort i, .handler i] = some w1 ∧ (w1.conns[i]?).map (·.phase) = some .closing) ∧
    (x.phase = .dispatching →
      ∃ w1, run w [.handlerFails i] = some w1 ∧ (w1.conns[i]?).map (·.phase) = some .closing) ∧
    (x.phase = .reading → ownerCtxDone w x = true →
      ∃ w1, run w [.ctxEnd i] = some w1 ∧ (w1.conns[i]?).map (·.phase) = some .closing) := by
  refine ⟨?_, ?_, ?_, ?_⟩
  · intro hp hr hc
    have h1 : step w (.clientClose i) = some (w.setConn i { x with cli := .closed }) := by
      simp [step, stepClientEnd, hi, hc, hp]
    have h2 : step (w.setConn i { x with cli := .closed }) (.handler i) =
        some ((w.setConn i { x with cli := .closed }).setConn i { x with cli := .closed, phase := .closing }) := by
      simp only [step, stepHandler]; rw [setConn_get hi]; simp [hp, hr]
    exact ⟨_, run_two h1 h2, by rw [setConn_get (setConn_get hi)]; rfl⟩
  · intro hp hr hc
    have h1 : step w (.clientAbort i) = some (w.setConn i { x with cli := .aborted }) := by
      simp [step, stepClientEnd, hi, hc, hp]
    have h2 : step (w.setConn i { x with cli := .aborted }) (.handler i) =
        some ((w.setConn i { x with cli := .aborted }).setConn i { x with cli := .aborted, phase := .closing }) := by
      simp only [step, stepHandler]; rw [setConn_get hi]; simp [hp, hr]
    exact ⟨_, run_two h1 h2, by rw [setConn_get (setConn_get hi)]; rfl⟩
  · intro hp
    have h1 : step w (.handlerFails i) = some (w.setConn i { x with phase := .closing }) := by
      simp [step, stepHandlerFails, hi, hp]
    exact ⟨_, run_one h1, by rw [setConn_get hi]; rfl⟩
  · intro hp hc
    have h1 : step w (.ctxEnd i) = some (w.setConn i { x with phase := .closing }) := by
      simp [step, stepCtxEnd, hi, hp, hc]
    exact ⟨_, run_one h1, by rw [setConn_get hi]; rfl⟩

/-- … on which the connection leaves the counter and its owner's wait group exactly once: from `closing`
    the handler's next three steps are always enabled and end in `done` with `conncounter` one lower and
    the owner's wait group one lower -/
theorem exit_path_decrements_once {w : World} (h : Reachable w) {i : Nat} {x : Conn} (hi : w.conns[i]? = some x)
    (hp : x.phase = .closing) :
    ∃ w3 co co3, run w [.handler i, .handler i, .handler i] = some w3 ∧
      (w3.conns[i]?).map (·.phase) = some .done ∧ w3.counter = w.counter - 1 ∧
      w.calls[x.owner]? = some co ∧ w3.calls[x.owner]? = some co3 ∧ co3.wg + 1 = co.wg := by
  have hinv := inv_reachable h
  let x1 : Conn := { x with phase := .closed }
  let x2 : Conn := { x with phase := .decremented }
  let w1 : World := w.setConn i x1
  let w2 : World := ({ w1 with counter := w.counter - 1 } : World).setConn i x2
  have g1 : w1.conns[i]? = some x1 := setConn_get hi
  have g2 : w2.conns[i]? = some x2 := setConn_get (w := { w1 with counter := w.counter - 1 }) g1
  have h1 : step w (.handler i) = some w1 := by
    simp only [step, stepHandler, hi, hp]; rfl
  have h2 : step w1 (.handler i) = some w2 := by
    simp only [step, stepHandler, g1]; rfl
  have hinv2 : Life.Inv w2 := inv_step (inv_step hinv h1) h2
  obtain ⟨co, hco, hne⟩ := hinv2.owner_wg_pos g2 (by simp [x2, inWg])
  have hco' : w.calls[x.owner]? = some co := hco
  have h3 : step w2 (.handler i) = some ((w2.setCall x.owner { co with wg := co.wg - 1 }).setConn i { x2 with phase := .done }) := by
    simp only [step, stepHandler, g2]
    have : w2.calls[x2.owner]? = some co := hco
    simp only [x2] at this ⊢
    simp only [this, hne, if_false]
  refine ⟨_, co, { co with wg := co.wg - 1 }, run_three h1 h2 h3, ?_, rfl, hco', ?_, ?_⟩
  · rw [setConn_get (w := w2.setCall x.owner { co with wg := co.wg - 1 }) g2]; rfl
  · exact getElem?_set_eq' hco'
  · simp only []; omega

/-! ### draining -/

/-- a connection has been handed out by Accept (it is past the backlog and was not refused or reset) -/
def wasAccepted (p : Phase) : Bool :=
  match p with
  | .backlog | .refused | .dropped => false
  | _ => true

/-- **drains**: when a serving call has returned, every connection it ever accepted is completely finished
    (handler returned, counter and wait group released) -/
theorem drains {w : World} (h : Reachable w) {k : Nat} {c : Call} (hk : w.calls[k]? = some c)
    (hr : c.pc = .returned) {i : Nat} {x : Conn} (hi : w.conns[i]? = some x) (ho : x.owner = k)
    (ha : wasAccepted x.phase = true) : x.phase = .done := by
  have hinv := inv_reachable h
  have hwg : c.wg = 0 := hinv.wgZero k c hk (by simp [hr, Pc.quiet])
  have hcnt : cnt (ownedWg k) w.conns = 0 := by rw [← hinv.wgOk k c hk, hwg]; rfl
  have hnot := cnt_zero_forall _ hcnt hi
  obtain ⟨l1, l2⟩ := hinv.linkRev i x hi
  have hw : inWg x.phase = false := by simpa [ownedWg, ho] using hnot
  cases hp : x.phase <;> simp only [hp, wasAccepted, inWg] at ha l1 l2 hw ⊢
  all_goals first
    | (exfalso; exact Bool.noConfusion ha)
    | (exfalso; exact Bool.noConfusion hw)
    | skip
  · obtain ⟨c', hc', hpc', _⟩ := l1 trivial
    rw [ho, hk] at hc'; simp only [Option.some.injEq] at hc'; subst hc'; rw [hr] at hpc'; cases hpc'
  · obtain ⟨c', hc', hpc', _⟩ := l2 trivial
    rw [ho, hk] at hc'; simp only [Option.some.injEq] at hc'; subst hc'; rw [hr] at hpc'; cases hpc'

/-! ### a second bind during serving -/

/-- **bind_refused_while_running**: while the service is running, the running check of `Bind` (alone or inside
    `Listen`) makes the call return "already running" at once, and nothing else changes: the running flag,
    the listener field and every listener, the counter, the address fields, all connections and all other
    calls are exactly as before — in particular no teardown of the running service happens. -/
theorem bind_refused_while_running {w : World} {k : Nat} {c : Call} (hk : w.calls[k]? = some c)
    (hpc : c.pc = .bindCheck) (hrun : w.running = true) :
    step w (.call k) = some { w with calls := w.calls.set k { c with pc := .returned, ret := some .errRunning } } := by
  simp [step, stepCall, hk, hpc, hrun, World.setCall]

/-- regression witness for the repaired defect (fix 93d57c1): with the OLD behaviour — the refused `Listen` ran
    the deferred teardown — the history  serve; second Listen (refused); Shutdown; client connects  leaves the
    first call blocked in Accept on a listener that Shutdown no longer finds, and the late client is accepted. -/
def oldDefectTrace : Option World :=
  (run init [.spawn .bind false (some 0), .call 0, .call 0, .call 0, .call 0,      -- Bind
             .spawn .doListen false none, .call 1, .call 1, .call 1,               -- DoListen … blocked in Accept
             .spawn .listen false (some 1)]).bind fun w =>                          -- second Listen
  (refusedListenOld w 2).bind fun w =>                                              -- OLD: refused + teardown
  run w [.shutdown, .clientConnect 0, .call 1]                                      -- Shutdown; late client; Accept

structure Obs where
  running : Bool
  lst : Option Nat
  open0 : Bool
  calls : List (Pc × Option Ret)
  conns : List Phase
  deriving DecidableEq

def obs (w : World) : Obs :=
  ⟨w.running, w.lst, isOpen w 0, w.calls.map (fun c => (c.pc, c.ret)), w.conns.map (·.phase)⟩

example : oldDefectTrace.map obs =
    some ⟨false, none, true,
          [(.returned, some .nil), (.gotConn, none), (.waiting, some .errRunning)], [.accepted]⟩ := by decide

/-- the same history on the code as it is now: the late client is refused and the serving call ends with nil -/
example : (run init [.spawn .bind false (some 0), .call 0, .call 0, .call 0, .call 0,
             .spawn .doListen false none, .call 1, .call 1, .call 1,
             .spawn .listen false (some 1), .call 2,
             .shutdown, .clientConnect 0, .call 1, .call 1, .call 1, .call 1]).map obs =
    some ⟨false, none, false,
          [(.returned, some .nil), (.returned, some .nil), (.returned, some .errRunning)], [.refused]⟩ := by decide

/-! ### nothing is served after Shutdown -/

/-- **no_service_after_shutdown**: once `Shutdown` has run on a bound service (listener field `l`), the listener
    is closed for good, and every connection made to it afterwards — under any continuation whatsoever — is
    refused and stays refused: it is never returned by Accept, never counted, never served. -/
theorem no_service_after_shutdown {w w2 : World} (hr : Reachable w) {l : Nat} (hl : w.lst = some l)
    (h2 : Reach Always (stepShutdown w) w2) :
    Closed w2 l ∧
    ∀ (i : Nat) (x : Conn), w.conns.length ≤ i → w2.conns[i]? = some x → x.lsn = l → x.phase = .refused := by
  have hv := valid_reachable hr
  have hsd : step w .shutdown = some (stepShutdown w) := rfl
  have hinv1 : Life.Inv (stepShutdown w) := inv_step (inv_reachable hr) hsd
  have hcl1 : Closed (stepShutdown w) l := by
    have hlt := hv.lst l hl
    refine closed_of_isOpen_false (by simpa using hlt) ?_
    simp only [stepShutdown, hl, isOpen, closeL]
    rw [List.getElem?_modify]
    simp [hlt]
  refine Reach.induct
    (fun w2 => Life.Inv w2 ∧ Closed w2 l ∧
      ∀ (i : Nat) (x : Conn), w.conns.length ≤ i → w2.conns[i]? = some x → x.lsn = l → x.phase = .refused)
    ⟨hinv1, hcl1, ?_⟩ ?_ h2 |>.2
  · intro i x hi hx _
    have := lt_of_getElem? hx
    simp at this; omega
  · intro wa a wb _ ⟨hinva, hcla, hall⟩ _ hs
    refine ⟨inv_step hinva hs, closed_step hs hcla, ?_⟩
    intro i x hi hx hxl
    have hrel := rel_of_step hs
    cases hold : wa.conns[i]? with
    | some x0 =>
      obtain ⟨x', hx', hlsn, hph⟩ := conn_mono hrel hinva hold
      rw [hx] at hx'; simp only [Option.some.injEq] at hx'; subst hx'
      exact hph (hall i x0 hi hold (by rw [← hlsn]; exact hxl))
    | none =>
      obtain ⟨_, hph⟩ := conn_new hrel hold hx
      rw [hph, hxl, isOpen_false_of_closed hcla]; rfl

/-! ### Shutdown makes the serving call return -/

/-- **shutdown_returns** (bounded progress, any interleaving): a serving call `k` is in its accept loop (orderly
    use, so it serves the listener stored in the service). After `Shutdown` that listener is closed, and along EVERY
    continuation — any interleaving of clients, faults, other threads, further API calls — the call's own step is
    never blocked until it has run its teardown, and after `dist pc ≤ 7` of its own steps it waits for its
    handlers (or has returned): it never accepts another connection and cannot get stuck in Accept. -/
theorem shutdown_returns {w : World} (h : OReach w) {k : Nat} {c : Call} (hk : w.calls[k]? = some c)
    (hp : loopPc c.pc = true) :
    ∃ l, c.l = some l ∧ Closed (stepShutdown w) l ∧ dist c.pc ≤ 7 ∧
      ∀ (ls : List Label) (w' : World), run (stepShutdown w) ls = some w' →
        ∃ c', w'.calls[k]? = some c' ∧
          ((loopish c'.pc = true ∧ dist c'.pc + ls.count (.call k) ≤ dist c.pc ∧ (∃ w'', step w' (.call k) = some w''))
            ∨ c'.pc = .waiting ∨ c'.pc = .returned) := by
  obtain ⟨_, hv, ho⟩ := oreach_invs h
  obtain ⟨e1, e2⟩ := (ho.own k c hk).loopL hp
  obtain ⟨l, hl⟩ := Option.isSome_iff_exists.mp e2
  have hlst : w.lst = some l := by rw [← e1]; exact hl
  have hcl : Closed (stepShutdown w) l := by
    have hlt := hv.lst l hlst
    refine closed_of_isOpen_false (by simpa using hlt) ?_
    simp only [stepShutdown, hlst, isOpen, closeL]
    rw [List.getElem?_modify]
    simp [hlt]
  have hloopish : loopish c.pc = true := by cases hpc : c.pc <;> simp [hpc, loopPc] at hp <;> simp [loopish]
  refine ⟨l, hl, hcl, by cases c.pc <;> simp [dist], ?_⟩
  intro ls w' hrun
  have hk1 : (stepShutdown w).calls[k]? = some c := by rw [stepShutdown_calls]; exact hk
  obtain ⟨c', hk', hl', _, hres⟩ := closed_listener_progress ls hk1 hl hcl hloopish hrun
  refine ⟨c', hk', ?_⟩
  rcases hres with ⟨hp', hle⟩ | hdone
  · left
    refine ⟨hp', hle, ?_⟩
    have hcl' : Closed w' l := closed_reach (reach_of_run ls hrun) hcl
    obtain ⟨w'', _, hs, _⟩ := own_step_closed hk' (hl' ▸ hl) hcl' hp'
    exact ⟨w'', hs⟩
  · exact Or.inr hdone

/-- … **with nil whenever Shutdown found the service waiting for a connection**: if the call was in Accept at the
    Shutdown, then along every orderly continuation its return value is unset until it leaves the loop and is
    `nil` from then on, for ever. -/
theorem shutdown_in_accept_returns_nil {w w2 : World} (h : OReach w) {k : Nat} {c : Call}
    (hk : w.calls[k]? = some c) (hpc : c.pc = .inAccept) (h2 : Reach Orderly (stepShutdown w) w2) :
    ∃ c2, w2.calls[k]? = some c2 ∧
      (((c2.pc = .inAccept ∨ c2.pc = .errOther) ∧ c2.ret = none) ∨
       ((c2.pc = .teardown ∨ c2.pc = .waiting ∨ c2.pc = .returned) ∧ c2.ret = some .nil)) := by
  obtain ⟨l, ⟨c2, hk2, _, hout⟩, _⟩ := nil_after_shutdown_in_accept h hk hpc h2
  refine ⟨c2, hk2, ?_⟩
  rcases hout with ⟨hp, hr, _⟩ | hd
  · exact Or.inl ⟨hp, hr⟩
  · exact Or.inr hd

/-- … **as soon as the connections already accepted have ended**: a call that waits for its handlers can take its
    last step exactly when every connection it accepted is finished, and that step is the return. -/
theorem wait_returns_when_drained {w : World} (h : Reachable w) {k : Nat} {c : Call} (hk : w.calls[k]? = some c)
    (hpc : c.pc = .waiting) :
    (step w (.call k) ≠ none ↔
      ∀ (i : Nat) (x : Conn), w.conns[i]? = some x → x.owner = k → inWg x.phase = false) ∧
    (∀ w', step w (.call k) = some w' → (w'.calls[k]?).map (·.pc) = some .returned) := by
  have hinv := inv_reachable h
  have hwg := hinv.wgOk k c hk
  constructor
  · constructor
    · intro hne i x hi hox
      have h0 : c.wg = 0 := by
        simp only [step, stepCall, hk, hpc] at hne
        split at hne
        · assumption
        · exact absurd rfl hne
      have : cnt (ownedWg k) w.conns = 0 := by rw [← hwg, h0]; rfl
      have := cnt_zero_forall _ this hi
      simpa [ownedWg, hox] using this
    · intro hall
      have : cnt (ownedWg k) w.conns = 0 := by
        apply cnt_eq_zero_of_forall
        intro i x hi
        by_cases hox : x.owner = k
        · simp [ownedWg, hall i x hi hox]
        · simp [ownedWg, hox]
      have h0 : c.wg = 0 := by rw [this] at hwg; exact_mod_cast hwg
      simp [step, stepCall, hk, hpc, h0]
  · intro w' hs
    simp only [step, stepCall, hk, hpc] at hs
    split at hs
    · simp only [Option.some.injEq] at hs; subst hs
      rw [setCall_get hk]; rfl
    · cases hs

/-- own steps a handler still needs once its client has gone (worst case: it first answers what was already sent) -/
def handlerDist (x : Conn) : Nat :=
  match x.phase with
  | .reading => 2 * x.reqs + 4
  | .dispatching => 2 * x.reqs + 5
  | .closing => 3
  | .closed => 2
  | .decremented => 1
  | _ => 0

/-- … and the handlers do end: once the client side of an accepted connection is closed or aborted, the handler's
    own step is always enabled and strictly decreases `handlerDist` (≤ 2·pending requests + 5), until `done`. -/
theorem handler_progress {w : World} (h : Reachable w) {i : Nat} {x : Conn} (hi : w.conns[i]? = some x)
    (hc : x.cli ≠ .open) (hp : inWg x.phase = true) :
    ∃ w' x', step w (.handler i) = some w' ∧ w'.conns[i]? = some x' ∧ x'.cli = x.cli ∧
      handlerDist x' < handlerDist x ∧ (inWg x'.phase = true ∨ x'.phase = .done) := by
  have hinv := inv_reachable h
  cases hph : x.phase <;> simp only [hph, inWg] at hp <;> try (exact Bool.noConfusion hp)
  case reading =>
    by_cases hr : x.reqs = 0
    · refine ⟨w.setConn i { x with phase := .closing }, { x with phase := .closing }, ?_, setConn_get hi, rfl, ?_, Or.inl rfl⟩
      · simp [step, stepHandler, hi, hph, hr, hc]
      · simp [handlerDist, hph]
    · refine ⟨w.setConn i { x with phase := .dispatching, reqs := x.reqs - 1 },
        { x with phase := .dispatching, reqs := x.reqs - 1 }, ?_, setConn_get hi, rfl, ?_, Or.inl rfl⟩
      · simp [step, stepHandler, hi, hph, hr]
      · simp only [handlerDist, hph]; omega
  case dispatching =>
    refine ⟨w.setConn i { x with phase := .reading, served := x.served + 1 },
      { x with phase := .reading, served := x.served + 1 }, ?_, setConn_get hi, rfl, ?_, Or.inl rfl⟩
    · simp [step, stepHandler, hi, hph]
    · simp [handlerDist, hph]
  case closing =>
    refine ⟨w.setConn i { x with phase := .closed }, { x with phase := .closed }, ?_, setConn_get hi, rfl, ?_, Or.inl rfl⟩
    · simp [step, stepHandler, hi, hph]
    · simp [handlerDist, hph]
  case closed =>
    refine ⟨({ w with counter := w.counter - 1 } : World).setConn i { x with phase := .decremented },
      { x with phase := .decremented }, ?_, setConn_get (w := { w with counter := w.counter - 1 }) hi, rfl, ?_, Or.inl rfl⟩
    · simp only [step, stepHandler, hi, hph]
    · simp [handlerDist, hph]
  case decremented =>
    obtain ⟨co, hco, hne⟩ := hinv.owner_wg_pos hi (by simp [hph, inWg])
    refine ⟨(w.setCall x.owner { co with wg := co.wg - 1 }).setConn i { x with phase := .done },
      { x with phase := .done }, ?_, setConn_get (w := w.setCall x.owner { co with wg := co.wg - 1 }) hi, rfl, ?_, Or.inr rfl⟩
    · simp only [step, stepHandler, hi, hph, hco, hne, if_false]
    · simp [handlerDist, hph]

/-! ### the service is reusable -/

/-- **reusable**: (orderly use) the step by which a serving call returns leaves the shared state of the service
    exactly as it was initially — not running, no listener, no address, `conncounter = 0`, no wait-group panic —
    and no API call in flight, so any further history (bind, serve, …) is possible again on the same object. -/
theorem reusable {w w' : World} (h : OReach w) {k : Nat} {c : Call} (hk : w.calls[k]? = some c)
    (hpc : c.pc = .waiting) (hs : step w (.call k) = some w') :
    w'.running = init.running ∧ w'.lst = init.lst ∧ w'.addrF = init.addrF ∧ w'.counter = init.counter ∧
    w'.wgPanic = init.wgPanic ∧ Idle w' :=
  reusable_core h hk hpc hs

/-- non-vacuity: a full cycle with a connection open at Shutdown, under the orderly discipline, ends in `waiting`
    with the step enabled; and a second bind + serve on the same object gets to Accept again -/
example : ∃ w, OReach w ∧ (w.calls[1]?).map (fun c => (c.pc, c.wg, c.ret)) = some (.waiting, 0, some .nil) ∧
    w.counter = 0 ∧ (step w (.call 1)).isSome = true :=
  ⟨_, reach_of_runB [.spawn .bind false (some 0), .call 0, .call 0, .call 0, .call 0,
      .spawn .doListen false none, .call 1, .call 1, .call 1, .clientConnect 0, .call 1, .call 1, .call 1, .call 1,
      .shutdown, .call 1, .call 1, .call 1, .clientClose 0, .handler 0, .handler 0, .handler 0, .handler 0] rfl,
    by decide, by decide, by decide⟩

example : ∃ w, OReach w ∧ w.calls.map (fun c => (c.pc, c.ret)) =
      [(.returned, some .nil), (.returned, some .nil), (.returned, some .nil), (.inAccept, none)] ∧
    w.running = true ∧ w.lst = some 1 :=
  ⟨_, reach_of_runB [.spawn .bind false (some 0), .call 0, .call 0, .call 0, .call 0,
      .spawn .doListen false none, .call 1, .call 1, .call 1, .shutdown, .call 1, .call 1, .call 1, .call 1,
      .spawn .bind false (some 0), .call 2, .call 2, .call 2, .call 2,
      .spawn .doListen false none, .call 3, .call 3, .call 3] rfl,
    by decide, by decide, by decide⟩

/-! ### why the orderly discipline is a hypothesis

  Overlapping API calls are outside the property's promise ("afterwards the same service object can be bound and
  served again"), but the general model shows what the code does with them; the running check of `Bind` and the
  later `running = true` of the serving call are two critical sections. -/

/-- (the code BEFORE fix a1069ea, where these were separate critical sections — the model still has this finer
    granularity, see the header of Lifecycle.lean; `vh lifeprobe` checks on every run that the real code no longer
    shows it)
    a `Bind` that slips between DoListen's read of the listener and its `running = true` is NOT refused: DoListen
    then serves the old listener while the field holds the new one; Shutdown closes only the new one, and the
    serving call stays blocked in Accept on a listener nobody can close any more. -/
example : (run init [.spawn .bind false (some 0), .call 0, .call 0, .call 0, .call 0,   -- Bind: listener 0
                     .spawn .doListen false none, .call 1,                               -- DoListen reads l = 0
                     .spawn .bind false (some 1), .call 2, .call 2, .call 2, .call 2,    -- Bind: field = listener 1
                     .call 1, .call 1,                                                   -- running = true; loop; Accept
                     .shutdown]).map (fun w => (obs w, isOpen w 1, (step w (.call 1)).isSome)) =
    some (⟨false, some 1, true, [(.returned, some .nil), (.inAccept, none), (.returned, some .nil)], []⟩, false, false) := by
  decide

/-- **Tie to the source**: the declarations of /repo that this property's model transliterates
    (`Extracted.codeNames_C14`) have, in the current working tree, exactly the fingerprints of the code the
    model was validated against. Any change to them breaks this obligation; the check then searches the
    correspondence streams for an input on which the changed code violates the property. -/
theorem modelled_code_unchanged : Varlink.Extracted.code_C14 = Varlink.ExpectedCode.code_C14 := by decide

/-- no declaration (function, method, type, constant, variable) has been added to or removed from the
    fingerprinted source files since the models were validated: a new method or `init` can change behaviour
    without touching the text of any existing declaration -/
theorem declarations_known : Varlink.Extracted.declarationSet = Varlink.ExpectedCode.declarationSet := by decide

end Varlink.C14
