/-
  C14 — Shutdown always ends serving; connections drain; the service is reusable.
  Theorems over the transition system of `Varlink/Lifecycle.lean` (any number of API calls, connections,
  handler threads, under every interleaving). Helper lemmas: `VarlinkProofs/Lemmas/Lifecycle*.lean`.
-/
import VarlinkProofs.Lemmas.LifecycleMono
namespace Varlink.C14
open Varlink.Life

/-! ### accounting -/

/-- **accounted_once**: in every reachable state `conncounter` is exactly the number of connections between
    `counted` (counter++ done) and `closed` (before the deferred counter--), every call's wait group is exactly
    the number of its connections between handler start and `wg.Done()`, and no `wg.Done()` ever hit an
    empty wait group. Every accepted connection therefore contributes one to each from its increment to
    its decrement and nothing before or after. -/
theorem accounted_once {w : World} (h : Reachable w) :
    w.counter = cnt cntd w.conns ∧
    (∀ (k : Nat) (c : Call), w.calls[k]? = some c → (c.wg : Int) = cnt (ownedWg k) w.conns) ∧
    w.wgPanic = false :=
  let i := inv_reachable h
  ⟨i.counterOk, i.wgOk, i.noPanic⟩

/-- the phases in which a connection is included in the counter / in the wait group -/
theorem accounted_phases :
    (∀ p, inCounter p = true ↔ p = .counted ∨ p = .reading ∨ p = .dispatching ∨ p = .closing ∨ p = .closed) ∧
    (∀ p, inWg p = true ↔ p = .reading ∨ p = .dispatching ∨ p = .closing ∨ p = .closed ∨ p = .decremented) := by
  constructor <;> intro p <;> cases p <;> simp [inCounter, inWg]

/-- the four endings of a handler (orderly close, abort mid-frame, handler error, context cancellation)
    all lead to the same exit path … -/
theorem four_endings_reach_closing {w w1 : World} {i : Nat} (e : List Label)
    (he : e = [.clientClose i, .handler i] ∨ e = [.clientAbort i, .handler i] ∨ e = [.handlerFails i] ∨ e = [.ctxEnd i])
    {x : Conn} (hi : w.conns[i]? = some x) (hp : x.phase = .reading ∧ x.reqs = 0 ∨ x.phase = .dispatching)
    (hrun : run w e = some w1) : (w1.conns[i]?).map (·.phase) = some .closing := by
  have hlt := lt_of_getElem? hi
  rcases he with rfl | rfl | rfl | rfl
  · rcases hp with ⟨hp, hr⟩ | hp <;>
      simp [run, step, stepClientEnd, stepHandler, hi, hp, hlt] at hrun
    all_goals (try split at hrun) <;> simp_all
    all_goals (subst hrun; simp [hlt])
  · rcases hp with ⟨hp, hr⟩ | hp <;>
      simp [run, step, stepClientEnd, stepHandler, hi, hp, hlt] at hrun
    all_goals (try split at hrun) <;> simp_all
    all_goals (subst hrun; simp [hlt])
  · rcases hp with ⟨hp, hr⟩ | hp <;>
      simp [run, step, stepHandlerFails, hi, hp] at hrun
    subst hrun; simp [hlt]
  · rcases hp with ⟨hp, hr⟩ | hp <;>
      simp [run, step, stepCtxEnd, hi, hp] at hrun
    obtain ⟨_, rfl⟩ := hrun; simp [hlt]

end Varlink.C14
