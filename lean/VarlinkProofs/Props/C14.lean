/-
  C14 — Shutdown always ends serving; connections drain; the service is reusable.
  Theorems over the transition system of `Varlink/Lifecycle.lean` (any number of API calls, connections,
  handler threads, under every interleaving). Helper lemmas: `VarlinkProofs/Lemmas/Lifecycle*.lean`.
-/
import VarlinkProofs.Lemmas.LifecycleMono
import Varlink.Expected
import Varlink.Extracted.Skeleton
namespace Varlink.C14
open Varlink.Life

/-! ### the model is written against the code that exists -/

/-- **skeleton_matches**: the synchronisation skeleton regenerated from /repo's service.go on every run
    (lock/unlock, field reads and writes with the constants written, listener and wait-group calls, go, defer,
    guards, returns — in source order) is the one the transition system was written against. -/
theorem skeleton_matches : Varlink.Extracted.skeleton = Varlink.Expected.skeleton := by decide

/-- `Listen` and `DoListen` run the same accept loop (the model has one set of loop transitions for both) -/
theorem listen_and_dolisten_share_the_loop :
    Varlink.Expected.loopOf (Varlink.Expected.ops "Listen") = Varlink.Expected.loopOf (Varlink.Expected.ops "DoListen") ∧
    (Varlink.Expected.loopOf (Varlink.Expected.ops "Listen")).length = 30 := by decide

/-! ### accounting -/

/-- **accounted_once**: in every reachable state `conncounter` is exactly the number of connections between
    `counted` (counter++ done) and `closed` (before the deferred counter--), every call's wait group is exactly
    the number of its connections between handler start and `wg.Done()`, and no `wg.Done()` ever hit an
    empty wait group. Every accepted connection therefore contributes one to each from its increment to
    its decrement and nothing before or after. -/
theorem accounted_once {w : World} (h : Reachable w) :
    w.counter = cnt cntd w.conns ∧
    (∀ (k : Nat) (c : Call), w.calls[k]? = some c → (c.wg : Int) = cnt (ownedWg k) w.conns) ∧
    w.wgPanic = false :=
  let i := inv_reachable h
  ⟨i.counterOk, i.wgOk, i.noPanic⟩

/-- the phases in which a connection is included in the counter / in the wait group -/
theorem accounted_phases :
    (∀ p, inCounter p = true ↔ p = .counted ∨ p = .reading ∨ p = .dispatching ∨ p = .closing ∨ p = .closed) ∧
    (∀ p, inWg p = true ↔ p = .reading ∨ p = .dispatching ∨ p = .closing ∨ p = .closed ∨ p = .decremented) := by
  constructor <;> intro p <;> cases p <;> simp [inCounter, inWg]

theorem setConn_get {w : World} {i : Nat} {x y : Conn} (hi : w.conns[i]? = some x) :
    (w.setConn i y).conns[i]? = some y := getElem?_set_eq' hi

theorem run_one {w w1 : World} {a : Label} (h1 : step w a = some w1) : run w [a] = some w1 := by
  simp only [run, h1]
theorem run_two {w w1 w2 : World} {a b : Label} (h1 : step w a = some w1) (h2 : step w1 b = some w2) :
    run w [a, b] = some w2 := by simp only [run, h1, h2]
theorem run_three {w w1 w2 w3 : World} {a b c : Label} (h1 : step w a = some w1) (h2 : step w1 b = some w2)
    (h3 : step w2 c = some w3) : run w [a, b, c] = some w3 := by simp only [run, h1, h2, h3]

/-- the four endings of a handler — orderly close, abort mid-frame (both: end of input while reading),
    handler error, context cancellation — are all enabled in the states where they can happen and all lead
    to the same exit path (`closing`) -/
theorem four_endings_reach_closing {w : World} {i : Nat} {x : Conn} (hi : w.conns[i]? = some x) :
    (x.phase = .reading → x.reqs = 0 → x.cli = .open →
      ∃ w1, run w [.clientClose i, .handler i] = some w1 ∧ (w1.conns[i]?).map (·.phase) = some .closing) ∧
    (x.phase = .reading → x.reqs = 0 → x.cli = .open →
      ∃ w1, run w [.clientAbort i, .handler i] = some w1 ∧ (w1.conns[i]?).map (·.phase) = some .closing) ∧
    (x.phase = .dispatching →
      ∃ w1, run w [.handlerFails i] = some w1 ∧ (w1.conns[i]?).map (·.phase) = some .closing) ∧
    (x.phase = .reading → ownerCtxDone w x = true →
      ∃ w1, run w [.ctxEnd i] = some w1 ∧ (w1.conns[i]?).map (·.phase) = some .closing) := by
  refine ⟨?_, ?_, ?_, ?_⟩
  · intro hp hr hc
    have h1 : step w (.clientClose i) = some (w.setConn i { x with cli := .closed }) := by
      simp [step, stepClientEnd, hi, hc, hp]
    have h2 : step (w.setConn i { x with cli := .closed }) (.handler i) =
        some ((w.setConn i { x with cli := .closed }).setConn i { x with cli := .closed, phase := .closing }) := by
      simp only [step, stepHandler]; rw [setConn_get hi]; simp [hp, hr]
    exact ⟨_, run_two h1 h2, by rw [setConn_get (setConn_get hi)]; rfl⟩
  · intro hp hr hc
    have h1 : step w (.clientAbort i) = some (w.setConn i { x with cli := .aborted }) := by
      simp [step, stepClientEnd, hi, hc, hp]
    have h2 : step (w.setConn i { x with cli := .aborted }) (.handler i) =
        some ((w.setConn i { x with cli := .aborted }).setConn i { x with cli := .aborted, phase := .closing }) := by
      simp only [step, stepHandler]; rw [setConn_get hi]; simp [hp, hr]
    exact ⟨_, run_two h1 h2, by rw [setConn_get (setConn_get hi)]; rfl⟩
  · intro hp
    have h1 : step w (.handlerFails i) = some (w.setConn i { x with phase := .closing }) := by
      simp [step, stepHandlerFails, hi, hp]
    exact ⟨_, run_one h1, by rw [setConn_get hi]; rfl⟩
  · intro hp hc
    have h1 : step w (.ctxEnd i) = some (w.setConn i { x with phase := .closing }) := by
      simp [step, stepCtxEnd, hi, hp, hc]
    exact ⟨_, run_one h1, by rw [setConn_get hi]; rfl⟩

/-- … on which the connection leaves the counter and its owner's wait group exactly once: from `closing`
    the handler's next three steps are always enabled and end in `done` with `conncounter` one lower and
    the owner's wait group one lower -/
theorem exit_path_decrements_once {w : World} (h : Reachable w) {i : Nat} {x : Conn} (hi : w.conns[i]? = some x)
    (hp : x.phase = .closing) :
    ∃ w3 co co3, run w [.handler i, .handler i, .handler i] = some w3 ∧
      (w3.conns[i]?).map (·.phase) = some .done ∧ w3.counter = w.counter - 1 ∧
      w.calls[x.owner]? = some co ∧ w3.calls[x.owner]? = some co3 ∧ co3.wg + 1 = co.wg := by
  have hinv := inv_reachable h
  let x1 : Conn := { x with phase := .closed }
  let x2 : Conn := { x with phase := .decremented }
  let w1 : World := w.setConn i x1
  let w2 : World := ({ w1 with counter := w.counter - 1 } : World).setConn i x2
  have g1 : w1.conns[i]? = some x1 := setConn_get hi
  have g2 : w2.conns[i]? = some x2 := setConn_get (w := { w1 with counter := w.counter - 1 }) g1
  have h1 : step w (.handler i) = some w1 := by
    simp only [step, stepHandler, hi, hp]; rfl
  have h2 : step w1 (.handler i) = some w2 := by
    simp only [step, stepHandler, g1]; rfl
  have hinv2 : Life.Inv w2 := inv_step (inv_step hinv h1) h2
  obtain ⟨co, hco, hne⟩ := hinv2.owner_wg_pos g2 (by simp [x2, inWg])
  have hco' : w.calls[x.owner]? = some co := hco
  have h3 : step w2 (.handler i) = some ((w2.setCall x.owner { co with wg := co.wg - 1 }).setConn i { x2 with phase := .done }) := by
    simp only [step, stepHandler, g2]
    have : w2.calls[x2.owner]? = some co := hco
    simp only [x2] at this ⊢
    simp only [this, hne, if_false]
  refine ⟨_, co, { co with wg := co.wg - 1 }, run_three h1 h2 h3, ?_, rfl, hco', ?_, ?_⟩
  · rw [setConn_get (w := w2.setCall x.owner { co with wg := co.wg - 1 }) g2]; rfl
  · exact getElem?_set_eq' hco'
  · simp only []; omega

/-! ### draining -/

/-- a connection has been handed out by Accept (it is past the backlog and was not refused or reset) -/
def wasAccepted (p : Phase) : Bool :=
  match p with
  | .backlog | .refused | .dropped => false
  | _ => true

/-- **drains**: when a serving call has returned, every connection it ever accepted is completely finished
    (handler returned, counter and wait group released) -/
theorem drains {w : World} (h : Reachable w) {k : Nat} {c : Call} (hk : w.calls[k]? = some c)
    (hr : c.pc = .returned) {i : Nat} {x : Conn} (hi : w.conns[i]? = some x) (ho : x.owner = k)
    (ha : wasAccepted x.phase = true) : x.phase = .done := by
  have hinv := inv_reachable h
  have hwg : c.wg = 0 := hinv.wgZero k c hk (by simp [hr, Pc.quiet])
  have hcnt : cnt (ownedWg k) w.conns = 0 := by rw [← hinv.wgOk k c hk, hwg]; rfl
  have hnot := cnt_zero_forall _ hcnt hi
  obtain ⟨l1, l2⟩ := hinv.linkRev i x hi
  have hw : inWg x.phase = false := by simpa [ownedWg, ho] using hnot
  cases hp : x.phase <;> simp only [hp, wasAccepted, inWg] at ha l1 l2 hw ⊢
  all_goals first
    | (exfalso; exact Bool.noConfusion ha)
    | (exfalso; exact Bool.noConfusion hw)
    | skip
  · obtain ⟨c', hc', hpc', _⟩ := l1 trivial
    rw [ho, hk] at hc'; simp only [Option.some.injEq] at hc'; subst hc'; rw [hr] at hpc'; cases hpc'
  · obtain ⟨c', hc', hpc', _⟩ := l2 trivial
    rw [ho, hk] at hc'; simp only [Option.some.injEq] at hc'; subst hc'; rw [hr] at hpc'; cases hpc'

/-! ### a second bind during serving -/

/-- **bind_refused_while_running**: while the service is running, the running check of `Bind` (alone or inside
    `Listen`) makes the call return "already running" at once, and nothing else changes: the running flag,
    the listener field and every listener, the counter, the address fields, all connections and all other
    calls are exactly as before — in particular no teardown of the running service happens. -/
theorem bind_refused_while_running {w : World} {k : Nat} {c : Call} (hk : w.calls[k]? = some c)
    (hpc : c.pc = .bindCheck) (hrun : w.running = true) :
    step w (.call k) = some { w with calls := w.calls.set k { c with pc := .returned, ret := some .errRunning } } := by
  simp [step, stepCall, hk, hpc, hrun, World.setCall]

/-- regression witness for the repaired defect (fix 93d57c1): with the OLD behaviour — the refused `Listen` ran
    the deferred teardown — the history  serve; second Listen (refused); Shutdown; client connects  leaves the
    first call blocked in Accept on a listener that Shutdown no longer finds, and the late client is accepted. -/
def oldDefectTrace : Option World :=
  (run init [.spawn .bind false (some 0), .call 0, .call 0, .call 0, .call 0,      -- Bind
             .spawn .doListen false none, .call 1, .call 1, .call 1,               -- DoListen … blocked in Accept
             .spawn .listen false (some 1)]).bind fun w =>                          -- second Listen
  (refusedListenOld w 2).bind fun w =>                                              -- OLD: refused + teardown
  run w [.shutdown, .clientConnect 0, .call 1]                                      -- Shutdown; late client; Accept

structure Obs where
  running : Bool
  lst : Option Nat
  open0 : Bool
  calls : List (Pc × Option Ret)
  conns : List Phase
  deriving DecidableEq

def obs (w : World) : Obs :=
  ⟨w.running, w.lst, isOpen w 0, w.calls.map (fun c => (c.pc, c.ret)), w.conns.map (·.phase)⟩

example : oldDefectTrace.map obs =
    some ⟨false, none, true,
          [(.returned, some .nil), (.gotConn, none), (.waiting, some .errRunning)], [.accepted]⟩ := by decide

/-- the same history on the code as it is now: the late client is refused and the serving call ends with nil -/
example : (run init [.spawn .bind false (some 0), .call 0, .call 0, .call 0, .call 0,
             .spawn .doListen false none, .call 1, .call 1, .call 1,
             .spawn .listen false (some 1), .call 2,
             .shutdown, .clientConnect 0, .call 1, .call 1, .call 1, .call 1]).map obs =
    some ⟨false, none, false,
          [(.returned, some .nil), (.returned, some .nil), (.returned, some .errRunning)], [.refused]⟩ := by decide

/-! ### nothing is served after Shutdown -/

/-- **no_service_after_shutdown**: once `Shutdown` has run on a bound service (listener field `l`), the listener
    is closed for good, and every connection made to it afterwards — under any continuation whatsoever — is
    refused and stays refused: it is never returned by Accept, never counted, never served. -/
theorem no_service_after_shutdown {w w2 : World} (hr : Reachable w) {l : Nat} (hl : w.lst = some l)
    (h2 : Reach Always (stepShutdown w) w2) :
    Closed w2 l ∧
    ∀ (i : Nat) (x : Conn), w.conns.length ≤ i → w2.conns[i]? = some x → x.lsn = l → x.phase = .refused := by
  have hv := valid_reachable hr
  have hsd : step w .shutdown = some (stepShutdown w) := rfl
  have hinv1 : Life.Inv (stepShutdown w) := inv_step (inv_reachable hr) hsd
  have hcl1 : Closed (stepShutdown w) l := by
    have hlt := hv.lst l hl
    refine closed_of_isOpen_false (by simpa using hlt) ?_
    simp only [stepShutdown, hl, isOpen, closeL]
    rw [List.getElem?_modify]
    simp [hlt]
  refine Reach.induct
    (fun w2 => Life.Inv w2 ∧ Closed w2 l ∧
      ∀ (i : Nat) (x : Conn), w.conns.length ≤ i → w2.conns[i]? = some x → x.lsn = l → x.phase = .refused)
    ⟨hinv1, hcl1, ?_⟩ ?_ h2 |>.2
  · intro i x hi hx _
    have := lt_of_getElem? hx
    simp at this; omega
  · intro wa a wb _ ⟨hinva, hcla, hall⟩ _ hs
    refine ⟨inv_step hinva hs, closed_step hs hcla, ?_⟩
    intro i x hi hx hxl
    have hrel := rel_of_step hs
    cases hold : wa.conns[i]? with
    | some x0 =>
      obtain ⟨x', hx', hlsn, hph⟩ := conn_mono hrel hinva hold
      rw [hx] at hx'; simp only [Option.some.injEq] at hx'; subst hx'
      exact hph (hall i x0 hi hold (by rw [← hlsn]; exact hxl))
    | none =>
      obtain ⟨_, hph⟩ := conn_new hrel hold hx
      rw [hph, hxl, isOpen_false_of_closed hcla]; rfl

end Varlink.C14
