/-
  C14 — Shutdown always ends serving; connections drain; the service is reusable.
  Theorems over the transition system of `Varlink/Lifecycle.lean` (any number of API calls, connections,
  handler threads, under every interleaving). Helper lemmas: `VarlinkProofs/Lemmas/Lifecycle*.lean`.
-/
import VarlinkProofs.Lemmas.LifecycleTimeout
import Varlink.Expected
import Varlink.Extracted.Skeleton
import Varlink.Extracted.Code
import Varlink.ExpectedCode
namespace Varlink.C14
open Varlink.Life

/-! ### the model is written against the code that exists -/

/-- **skeleton_matches**: the synchronisation skeleton regenerated from /repo's service.go on every run
    (lock/unlock, field reads and writes with the constants written, listener and wait-group calls, go, defer,
    guards, returns — in source order) is the one the transition system was written against. -/
theorem skeleton_matches : Varlink.Extracted.skeleton = Varlink.Expected.skeleton := by decide

/-- `Listen` and `DoListen` run the same accept loop (the model has one set of loop transitions for both) -/
theorem listen_and_dolisten_share_the_loop :
    Varlink.Expected.loopOf (Varlink.Expected.ops "Listen") = Varlink.Expected.loopOf (Varlink.Expected.ops "DoListen") ∧
    (Varlink.Expected.loopOf (Varlink.Expected.ops "Listen")).length = 30 := by decide

/-! ### accounting -/

/-- **accounted_once**: in every reachable state `conncounter` is exactly the number of connections between
    `counted` (counter++ done) and `closed` (before the deferred counter--), every call's wait group is exactly
    the number of its connections between handler start and `wg.Done()`, and no `wg.Done()` ever hit an
    empty wait group. Every accepted connection therefore contributes one to each from its increment to
    its decrement and nothing before or after. -/
theorem accounted_once {w : World} (h : Reachable w) :
    w.counter = cnt cntd w.conns ∧
    (∀ (k : Nat) (c : Call), w.calls[k]? = some c → (c.wg : Int) = cnt (ownedWg k) w.conns) ∧
    w.wgPanic = false :=
  let i := inv_reachable h
  ⟨i.counterOk, i.wgOk, i.noPanic⟩

/-- the phases in which a connection is included in the counter / in the wait group -/
theorem accounted_phases :
    (∀ p, inCounter p = true ↔ p = .counted ∨ p = .reading ∨ p = .dispatching ∨ p = .closing ∨ p = .closed) ∧
    (∀ p, inWg p = true ↔ p = .reading ∨ p = .dispatching ∨ p = .closing ∨ p = .closed ∨ p = .decremented) := by
  constructor <;> intro p <;> cases p <;> simp [inCounter, inWg]

/-- the four endings of a handler — orderly close, abort mid-frame (both: end of input while reading),
    handler error, context cancellation — are all enabled in the states where they can happen and all lead
    to the same exit path (`closing`) -/
theorem four_endings_reach_closing {w : World} {i : Nat} {x : Conn} (hi : w.conns[i]? = some x) :
    (x.phase = .reading → x.reqs = 0 → x.cli = .open →
      ∃ w1, run w [.clientClose i, .handler i] = some w1 ∧ (w1.conns[i]?).map (·.phase) = some .closing) ∧
    (x.phase = .reading → x.reqs = 0 → x.cli = .open →
      ∃ w1, run w [.clientAbort i, .handler i] = some w1 ∧ (w1.conns[i]?).map (·.phase) = some .closing) ∧
    (x.phase = .dispatching →
      ∃ w1, run w [.handlerFails i] = some w1 ∧ (w1.conns[i]?).map (·.phase) = some .closing) ∧
    (x.phase = .reading → ownerCtxDone w x = true →
      ∃ w1, run w [.ctxEnd i] = some w1 ∧ (w1.conns[i]?).map (·.phase) = some .closing) := by
  refine ⟨?_, ?_, ?_, ?_⟩
  · intro hp hr hc
    have h1 : step w (.clientClose i) = some (w.setConn i { x with cli := .closed }) := by
      simp [step, stepClientEnd, hi, hc, hp]
    have h2 : step (w.setConn i { x with cli := .closed }) (.handler i) =
        some ((w.setConn i { x with cli := .closed }).setConn i { x with cli := .closed, phase := .closing }) := by
      simp only [step, stepHandler]; rw [setConn_get hi]; simp [hp, hr]
    exact ⟨_, run_two h1 h2, by rw [setConn_get (setConn_get hi)]; rfl⟩
  · intro hp hr hc
    have h1 : step w (.clientAbort i) = some (w.setConn i { x with cli := .aborted }) := by
      simp [step, stepClientEnd, hi, hc, hp]
    have h2 : step (w.setConn i { x with cli := .aborted }) (.handler i) =
        some ((w.setConn i { x with cli := .aborted }).setConn i { x with cli := .aborted, phase := .closing }) := by
      simp only [step, stepHandler]; rw [setConn_get hi]; simp [hp, hr]
    exact ⟨_, run_two h1 h2, by rw [setConn_get (setConn_get hi)]; rfl⟩
  · intro hp
    have h1 : step w (.handlerFails i) = some (w.setConn i { x with phase := .closing }) := by
      simp [step, stepHandlerFails, hi, hp]
    exact ⟨_, run_one h1, by rw [setConn_get hi]; rfl⟩
  · intro hp hc
    have h1 : step w (.ctxEnd i) = some (w.setConn i { x with phase := .closing }) := by
      simp [step, stepCtxEnd, hi, hp, hc]
    exact ⟨_, run_one h1, by rw [setConn_get hi]; rfl⟩

/-- … on which the connection leaves the counter and its owner's wait group exactly once: from `closing`
    the handler's next three steps are always enabled and end in `done` with `conncounter` one lower and
    the owner's wait group one lower -/
theorem exit_path_decrements_once {w : World} (h : Reachable w) {i : Nat} {x : Conn} (hi : w.conns[i]? = some x)
    (hp : x.phase = .closing) :
    ∃ w3 co co3, run w [.handler i, .handler i, .handler i] = some w3 ∧
      (w3.conns[i]?).map (·.phase) = some .done ∧ w3.counter = w.counter - 1 ∧
      w.calls[x.owner]? = some co ∧ w3.calls[x.owner]? = some co3 ∧ co3.wg + 1 = co.wg := by
  have hinv := inv_reachable h
  let x1 : Conn := { x with phase := .closed }
  let x2 : Conn := { x with phase := .decremented }
  let w1 : World := w.setConn i x1
  let w2 : World := ({ w1 with counter := w.counter - 1 } : World).setConn i x2
  have g1 : w1.conns[i]? = some x1 := setConn_get hi
  have g2 : w2.conns[i]? = some x2 := setConn_get (w := { w1 with counter := w.counter - 1 }) g1
  have h1 : step w (.handler i) = some w1 := by
    simp only [step, stepHandler, hi, hp]; rfl
  have h2 : step w1 (.handler i) = some w2 := by
    simp only [step, stepHandler, g1]; rfl
  have hinv2 : Life.Inv w2 := inv_step (inv_step hinv h1) h2
  obtain ⟨co, hco, hne⟩ := hinv2.owner_wg_pos g2 (by simp [x2, inWg])
  have hco' : w.calls[x.owner]? = some co := hco
  have h3 : step w2 (.handler i) = some ((w2.setCall x.owner { co with wg := co.wg - 1 }).setConn i { x2 with phase := .done }) := by
    simp only [step, stepHandler, g2]
    have : w2.calls[x2.owner]? = some co := hco
    simp only [x2] at this ⊢
    simp only [this, hne, if_false]
  refine ⟨_, co, { co with wg := co.wg - 1 }, run_three h1 h2 h3, ?_, rfl, hco', ?_, ?_⟩
  · rw [setConn_get (w := w2.setCall x.owner { co with wg := co.wg - 1 }) g2]; rfl
  · exact getElem?_set_eq' hco'
  · simp only []; omega

/-! ### draining -/

/-- a connection has been handed out by Accept (it is past the backlog and was not refused or reset) -/
def wasAccepted (p : Phase) : Bool :=
  match p with
  | .backlog | .refused | .dropped => false
  | _ => true

/-- **drains**: when a serving call has returned, every connection it ever accepted is completely finished
    (handler returned, counter and wait group released) -/
theorem drains {w : World} (h : Reachable w) {k : Nat} {c : Call} (hk : w.calls[k]? = some c)
    (hr : c.pc = .returned) {i : Nat} {x : Conn} (hi : w.conns[i]? = some x) (ho : x.owner = k)
    (ha : wasAccepted x.phase = true) : x.phase = .done := by
  have hinv := inv_reachable h
  have hwg : c.wg = 0 := hinv.wgZero k c hk (by simp [hr, Pc.quiet])
  have hcnt : cnt (ownedWg k) w.conns = 0 := by rw [← hinv.wgOk k c hk, hwg]; rfl
  have hnot := cnt_zero_forall _ hcnt hi
  obtain ⟨l1, l2⟩ := hinv.linkRev i x hi
  have hw : inWg x.phase = false := by simpa [ownedWg, ho] using hnot
  cases hp : x.phase <;> simp only [hp, wasAccepted, inWg] at ha l1 l2 hw ⊢
  all_goals first
    | (exfalso; exact Bool.noConfusion ha)
    | (exfalso; exact Bool.noConfusion hw)
    | skip
  · obtain ⟨c', hc', hpc', _⟩ := l1 trivial
    rw [ho, hk] at hc'; simp only [Option.some.injEq] at hc'; subst hc'; rw [hr] at hpc'; cases hpc'
  · obtain ⟨c', hc', hpc', _⟩ := l2 trivial
    rw [ho, hk] at hc'; simp only [Option.some.injEq] at hc'; subst hc'; rw [hr] at hpc'; cases hpc'

/-! ### a second bind during serving -/

structure Obs where
  running : Bool
  lst : Option Nat
  open0 : Bool
  calls : List (Pc × Option Ret)
  conns : List Phase
  deriving DecidableEq

def obs (w : World) : Obs :=
  ⟨w.running, w.lst, isOpen w 0, w.calls.map (fun c => (c.pc, c.ret)), w.conns.map (·.phase)⟩

/-- **bind_refused_while_running**: while the service is running, `Bind` (alone or inside `Listen`) returns
    "already running" at once, and nothing else changes: the running flag, the listener field and every listener,
    the counter, the address fields, all connections and all other calls are exactly as before — in particular no
    teardown of the running service happens. (Any state, reachable or not.) -/
theorem bind_refused_while_running {w : World} {k : Nat} {c : Call} (hk : w.calls[k]? = some c)
    (hpc : c.pc = .bindCheck) (hrun : w.running = true) :
    step w (.call k) = some { w with calls := w.calls.set k { c with pc := .returned, ret := some .errRunning } } := by
  simp [step, stepCall, hk, hpc, hrun, World.setCall]

/-- **second_bind_refused_any** (the same, field by field): in EVERY state with `running = true` the step of a Bind
    or Listen call at its first program counter is enabled, the call has `returned` with "already running" — it is
    not at `teardown`/`waiting`, so no teardown runs —, and running, listener field, all listeners (so nothing was
    closed), counter, address fields, connections, the wait-group panic flag and every other call are unchanged. -/
theorem second_bind_refused_any {w : World} {k : Nat} {c : Call} (hk : w.calls[k]? = some c)
    (hpc : c.pc = .bindCheck) (hrun : w.running = true) :
    ∃ w', step w (.call k) = some w' ∧
      w'.running = w.running ∧ w'.lst = w.lst ∧ w'.lsnrs = w.lsnrs ∧ w'.counter = w.counter ∧
      w'.addrF = w.addrF ∧ w'.conns = w.conns ∧ w'.wgPanic = w.wgPanic ∧
      w'.calls[k]? = some { c with pc := .returned, ret := some .errRunning } ∧
      (∀ j, j ≠ k → w'.calls[j]? = w.calls[j]?) :=
  ⟨_, bind_refused_while_running hk hpc hrun, rfl, rfl, rfl, rfl, rfl, rfl, rfl, getElem?_set_eq' hk,
    fun _ hj => getElem?_set_ne' (fun e => hj e.symm)⟩

/-- **bind_atomic**: the start-up of `Bind` / `Listen` is ONE step of the transition system (one critical section of
    the code, fix a1069ea), in any state: after it the call has either returned — refused (nothing changed), with a
    parse or listen error (running, listener field, listeners untouched; no teardown), or, for `Bind`, with nil and
    the new open listener stored — or, for `Listen`, it is at the loop check with `running = true` and its local `l`
    equal to the stored new listener. No state exists in which the running check has passed and the listener is not
    yet stored, or the listener is stored and the serving call is not yet running. -/
theorem bind_atomic {w w' : World} {k : Nat} {c : Call} (hk : w.calls[k]? = some c) (hpc : c.pc = .bindCheck)
    (hs : step w (.call k) = some w') :
    ∃ c', w'.calls[k]? = some c' ∧ c'.kind = c.kind ∧
      ((w.running = true ∧ c'.pc = .returned ∧ c'.ret = some .errRunning ∧
          w'.running = w.running ∧ w'.lst = w.lst ∧ w'.lsnrs = w.lsnrs ∧ w'.addrF = w.addrF) ∨
       (w.running = false ∧ c'.pc = .returned ∧ (c'.ret = some .errParse ∨ c'.ret = some .errListen) ∧
          w'.running = false ∧ w'.lst = w.lst ∧ w'.lsnrs = w.lsnrs) ∨
       (w.running = false ∧ c.kind = .bind ∧ c'.pc = .returned ∧ c'.ret = some .nil ∧
          w'.running = false ∧ w'.lst = some w.lsnrs.length ∧ c'.l = w'.lst ∧ isOpen w' w.lsnrs.length = true) ∨
       (w.running = false ∧ c.kind ≠ .bind ∧ c'.pc = .loopCheck ∧ c'.ret = c.ret ∧
          w'.running = true ∧ w'.lst = some w.lsnrs.length ∧ c'.l = w'.lst ∧ isOpen w' w.lsnrs.length = true)) :=
  bind_atomic_core hk hpc hs

/-- **dolisten_atomic**: the start-up of `DoListen` is one step too: it leaves listener field, listeners and address
    alone and either finds no listener (error, on to the deferred teardown) or is at the loop check with
    `running = true` and its local `l` equal to the stored listener. -/
theorem dolisten_atomic {w w' : World} {k : Nat} {c : Call} (hk : w.calls[k]? = some c) (hpc : c.pc = .readLst)
    (hs : step w (.call k) = some w') :
    ∃ c', w'.calls[k]? = some c' ∧ c'.kind = c.kind ∧ w'.lst = w.lst ∧ w'.lsnrs = w.lsnrs ∧ w'.addrF = w.addrF ∧
      ((w.lst = none ∧ c'.pc = .teardown ∧ c'.ret = some .errNoListener ∧ w'.running = w.running) ∨
       (∃ l, w.lst = some l ∧ c'.pc = .loopCheck ∧ c'.ret = c.ret ∧ c'.l = w'.lst ∧ w'.running = true)) :=
  dolisten_atomic_core hk hpc hs

/-- non-vacuity of the four outcomes of `bind_atomic` and the two of `dolisten_atomic`: refused / listen error (address
    0 is held by the open listener 0) while and after serving, Bind ok, Listen ok, DoListen without and with a
    listener -/
example : ∃ w, run init [.spawn .doListen false none, .call 0,                          -- DoListen: no listener
                         .spawn .bind false (some 0), .call 1,                          -- Bind ok: listener 0
                         .spawn .listen false (some 0), .call 2,                        -- Listen, same address: listen error
                         .spawn .bind false none, .call 3,                              -- Bind: parse error
                         .spawn .doListen false none, .call 4,                          -- DoListen: serves listener 0
                         .spawn .bind false (some 1), .call 5,                          -- Bind: refused
                         .spawn .listen false (some 1), .call 6] = some w ∧             -- Listen: refused
    w.running = true ∧ w.lst = some 0 ∧ w.lsnrs.map (fun x => (x.addr, x.isOpen)) = [(0, true)] ∧
    w.calls.map (fun c => (c.pc, c.l, c.ret)) =
      [(.teardown, none, some .errNoListener), (.returned, some 0, some .nil), (.returned, none, some .errListen),
       (.returned, none, some .errParse), (.loopCheck, some 0, none), (.returned, none, some .errRunning),
       (.returned, none, some .errRunning)] :=
  ⟨_, rfl, by decide, by decide, by decide, by decide⟩

example : ∃ w, run init [.spawn .listen false (some 7), .call 0] = some w ∧
    w.running = true ∧ w.lst = some 0 ∧ w.addrF = some 7 ∧ isOpen w 0 = true ∧
    w.calls.map (fun c => (c.pc, c.l, c.ret)) = [(.loopCheck, some 0, none)] :=
  ⟨_, rfl, by decide, by decide, by decide, by decide, by decide⟩

/-- **serving_call_listener** (every reachable state, NO discipline): a call in its accept loop has a listener, and
    that listener is closed already, or it is the listener stored in the service and the service is running — so
    the next Shutdown (which closes the stored listener) reaches it. -/
theorem serving_call_listener {w : World} (h : Reachable w) {k : Nat} {c : Call} (hk : w.calls[k]? = some c)
    (hp : loopPc c.pc = true) :
    ∃ l, c.l = some l ∧ (Closed w l ∨ (w.lst = some l ∧ w.running = true)) :=
  loop_listener h hk hp

/-- **bind_window_gone**: while any serving call is in its accept loop on an OPEN listener, that listener is the one
    stored in the service, the service is running, and therefore every Bind / Listen start-up is refused and
    changes nothing. Before fix a1069ea a Bind could slip between DoListen's read of the listener and its
    `running = true` (separate critical sections) and replace the stored listener under the serving call, which
    Shutdown then could not reach any more; that interleaving does not exist in this transition system. -/
theorem bind_window_gone {w : World} (h : Reachable w) {k : Nat} {c : Call} (hk : w.calls[k]? = some c)
    (hp : loopPc c.pc = true) {l : Nat} (hl : c.l = some l) (ho : isOpen w l = true) :
    w.lst = some l ∧ w.running = true ∧
    ∀ (j : Nat) (cj : Call), w.calls[j]? = some cj → cj.pc = .bindCheck →
      step w (.call j) = some { w with calls := w.calls.set j { cj with pc := .returned, ret := some .errRunning } } := by
  obtain ⟨h1, h2⟩ := serving_open_is_stored h hk hp hl ho
  exact ⟨h1, h2, fun j cj hj hpj => bind_refused_while_running hj hpj h2⟩

/-- the schedule of the old window on the code as it is now (non-vacuity of `bind_window_gone`, both alternatives of
    `serving_call_listener`): DoListen's start-up is one step, the Bind that follows is refused, Shutdown closes the
    served listener 0 and the serving call's next step is enabled (it is not stuck in Accept) -/
example : (run init [.spawn .bind false (some 0), .call 0,                               -- Bind: listener 0
                     .spawn .doListen false none, .call 1,                               -- DoListen: l = 0 AND running = true
                     .spawn .bind false (some 1), .call 2,                               -- Bind: refused
                     .call 1,                                                            -- loop check; Accept
                     .shutdown]).map (fun w => (obs w, w.lsnrs.length, (step w (.call 1)).isSome)) =
    some (⟨false, some 0, false, [(.returned, some .nil), (.inAccept, none), (.returned, some .errRunning)], []⟩, 1, true) := by
  decide

/-- regression witness for the repaired defect (fix 93d57c1): with the OLD behaviour — the refused `Listen` ran
    the deferred teardown — the history  serve; second Listen (refused); Shutdown; client connects  leaves the
    first call blocked in Accept on a listener that Shutdown no longer finds, and the late client is accepted. -/
def oldDefectTrace : Option World :=
  (run init [.spawn .bind false (some 0), .call 0,                                  -- Bind
             .spawn .doListen false none, .call 1, .call 1,                         -- DoListen … blocked in Accept
             .spawn .listen false (some 1)]).bind fun w =>                          -- second Listen
  (refusedListenOld w 2).bind fun w =>                                              -- OLD: refused + teardown
  run w [.shutdown, .clientConnect 0, .call 1]                                      -- Shutdown; late client; Accept

example : oldDefectTrace.map obs =
    some ⟨false, none, true,
          [(.returned, some .nil), (.gotConn, none), (.waiting, some .errRunning)], [.accepted]⟩ := by decide

/-- the same history on the code as it is now: the late client is refused and the serving call ends with nil -/
example : (run init [.spawn .bind false (some 0), .call 0,
             .spawn .doListen false none, .call 1, .call 1,
             .spawn .listen false (some 1), .call 2,
             .shutdown, .clientConnect 0, .call 1, .call 1, .call 1, .call 1]).map obs =
    some ⟨false, none, false,
          [(.returned, some .nil), (.returned, some .nil), (.returned, some .errRunning)], [.refused]⟩ := by decide

/-! ### nothing is served after Shutdown -/

/-- **no_service_after_shutdown**: once `Shutdown` has run on a bound service (listener field `l`), the listener
    is closed for good, and every connection made to it afterwards — under any continuation whatsoever — is
    refused and stays refused: it is never returned by Accept, never counted, never served. -/
theorem no_service_after_shutdown {w w2 : World} (hr : Reachable w) {l : Nat} (hl : w.lst = some l)
    (h2 : Reach Always (stepShutdown w) w2) :
    Closed w2 l ∧
    ∀ (i : Nat) (x : Conn), w.conns.length ≤ i → w2.conns[i]? = some x → x.lsn = l → x.phase = .refused := by
  have hv := valid_reachable hr
  have hsd : step w .shutdown = some (stepShutdown w) := rfl
  have hinv1 : Life.Inv (stepShutdown w) := inv_step (inv_reachable hr) hsd
  have hcl1 : Closed (stepShutdown w) l := by
    have hlt := hv.lst l hl
    refine closed_of_isOpen_false (by simpa using hlt) ?_
    simp only [stepShutdown, hl, isOpen, closeL]
    rw [List.getElem?_modify]
    simp [hlt]
  refine Reach.induct
    (fun w2 => Life.Inv w2 ∧ Closed w2 l ∧
      ∀ (i : Nat) (x : Conn), w.conns.length ≤ i → w2.conns[i]? = some x → x.lsn = l → x.phase = .refused)
    ⟨hinv1, hcl1, ?_⟩ ?_ h2 |>.2
  · intro i x hi hx _
    have := lt_of_getElem? hx
    simp at this; omega
  · intro wa a wb _ ⟨hinva, hcla, hall⟩ _ hs
    refine ⟨inv_step hinva hs, closed_step hs hcla, ?_⟩
    intro i x hi hx hxl
    have hrel := rel_of_step hs
    cases hold : wa.conns[i]? with
    | some x0 =>
      obtain ⟨x', hx', hlsn, hph⟩ := conn_mono hrel hinva hold
      rw [hx] at hx'; simp only [Option.some.injEq] at hx'; subst hx'
      exact hph (hall i x0 hi hold (by rw [← hlsn]; exact hxl))
    | none =>
      obtain ⟨_, hph⟩ := conn_new hrel hold hx
      rw [hph, hxl, isOpen_false_of_closed hcla]; rfl

/-! ### Shutdown makes the serving call return -/

/-- **shutdown_returns_any** (bounded progress, EVERY reachable state, any interleaving, no discipline on API use):
    a serving call `k` is in its accept loop. After `Shutdown` its listener is closed, and along EVERY continuation
    — any interleaving of clients, faults, other threads, further API calls, orderly or not — the call's own step
    is never blocked until it has run its teardown, and after `dist pc ≤ 7` of its own steps it waits for its
    handlers (or has returned): it never accepts another connection and cannot get stuck in Accept.
    "A Shutdown issued at any moment makes the serving call return." -/
theorem shutdown_returns_any {w : World} (h : Reachable w) {k : Nat} {c : Call} (hk : w.calls[k]? = some c)
    (hp : loopPc c.pc = true) :
    ∃ l, c.l = some l ∧ Closed (stepShutdown w) l ∧ dist c.pc ≤ 7 ∧
      ∀ (ls : List Label) (w' : World), run (stepShutdown w) ls = some w' →
        ∃ c', w'.calls[k]? = some c' ∧
          ((loopish c'.pc = true ∧ dist c'.pc + ls.count (.call k) ≤ dist c.pc ∧ (∃ w'', step w' (.call k) = some w''))
            ∨ c'.pc = .waiting ∨ c'.pc = .returned) := by
  obtain ⟨l, hl, hcl⟩ := loop_listener_closed_by_shutdown h hk hp
  have hloopish : loopish c.pc = true := loopish_of_loopPc hp
  refine ⟨l, hl, hcl, by cases c.pc <;> simp [dist], ?_⟩
  intro ls w' hrun
  have hk1 : (stepShutdown w).calls[k]? = some c := by rw [stepShutdown_calls]; exact hk
  obtain ⟨c', hk', hl', _, hres⟩ := closed_listener_progress ls hk1 hl hcl hloopish hrun
  refine ⟨c', hk', ?_⟩
  rcases hres with ⟨hp', hle⟩ | hdone
  · left
    refine ⟨hp', hle, ?_⟩
    have hcl' : Closed w' l := closed_reach (reach_of_run ls hrun) hcl
    obtain ⟨w'', _, hs, _⟩ := own_step_closed hk' (hl' ▸ hl) hcl' hp'
    exact ⟨w'', hs⟩
  · exact Or.inr hdone

/-- non-vacuity beyond orderly use: TWO serving calls run on the same listener (the second was started while the
    first was serving), a third party's Bind was refused; one Shutdown makes both return (here: with nil) -/
example : ∃ w, Reachable w ∧ ¬ SReach w ∧
    (w.calls.map (fun c => (c.pc, c.l))) = [(.returned, some 0), (.inAccept, some 0), (.inAccept, some 0)] ∧
    ((run (stepShutdown w) [.call 1, .call 2, .call 1, .call 2, .call 1, .call 2, .call 1, .call 2]).map
        (fun w' => w'.calls.map (fun c => (c.pc, c.ret)))) =
      some [(.returned, some .nil), (.returned, some .nil), (.returned, some .nil)] :=
  ⟨_, reach_of_run [.spawn .bind false (some 0), .call 0, .spawn .doListen false none, .call 1, .call 1,
      .spawn .doListen false none, .call 2, .call 2] rfl,
    fun hs => not_one_of_two_active 1 2 (by decide) (by decide) (by decide) (sreach_one hs),
    by decide, by decide⟩

/-- **shutdown_returns**: the same under the orderly discipline (kept under its old name; it is the special case
    `OReach w → Reachable w` of `shutdown_returns_any`) -/
theorem shutdown_returns {w : World} (h : OReach w) {k : Nat} {c : Call} (hk : w.calls[k]? = some c)
    (hp : loopPc c.pc = true) :
    ∃ l, c.l = some l ∧ Closed (stepShutdown w) l ∧ dist c.pc ≤ 7 ∧
      ∀ (ls : List Label) (w' : World), run (stepShutdown w) ls = some w' →
        ∃ c', w'.calls[k]? = some c' ∧
          ((loopish c'.pc = true ∧ dist c'.pc + ls.count (.call k) ≤ dist c.pc ∧ (∃ w'', step w' (.call k) = some w''))
            ∨ c'.pc = .waiting ∨ c'.pc = .returned) :=
  shutdown_returns_any h.always hk hp

/-- … **with nil whenever Shutdown found the service waiting for a connection**: the Shutdown is issued in ANY
    reachable state in which the call is in Accept; if from then on no serving call is started while another API
    call is in flight (`Serial`; everything else is free: clients, faults, stand-alone Binds, refused Listens), the
    call's return value is unset until it leaves the loop and is `nil` from then on, for ever. -/
theorem shutdown_in_accept_returns_nil {w w2 : World} (h : Reachable w) {k : Nat} {c : Call}
    (hk : w.calls[k]? = some c) (hpc : c.pc = .inAccept) (h2 : Reach Serial (stepShutdown w) w2) :
    ∃ c2, w2.calls[k]? = some c2 ∧
      (((c2.pc = .inAccept ∨ c2.pc = .errOther) ∧ c2.ret = none) ∨
       ((c2.pc = .teardown ∨ c2.pc = .waiting ∨ c2.pc = .returned) ∧ c2.ret = some .nil)) := by
  obtain ⟨l, ⟨c2, hk2, _, hout⟩, _⟩ := nil_after_shutdown_in_accept h hk hpc h2
  refine ⟨c2, hk2, ?_⟩
  rcases hout with ⟨hp, hr, _⟩ | hd
  · exact Or.inl ⟨hp, hr⟩
  · exact Or.inr hd

/-- non-vacuity: the state at the Shutdown is reachable but not orderly (two serving calls in Accept), the
    continuation is serial (a stand-alone Bind in the middle of it is allowed and succeeds), both calls return nil -/
example : ∃ w w2, Reachable w ∧ (w.calls.map (·.pc)) = [.returned, .inAccept, .inAccept] ∧
    Reach Serial (stepShutdown w) w2 ∧
    w2.calls.map (fun c => (c.pc, c.ret)) =
      [(.returned, some .nil), (.returned, some .nil), (.returned, some .nil), (.returned, some .nil)] :=
  ⟨_, _, reach_of_run [.spawn .bind false (some 0), .call 0, .spawn .doListen false none, .call 1, .call 1,
      .spawn .doListen false none, .call 2, .call 2] rfl, by decide,
    reach_of_runS [.call 1, .call 1, .spawn .bind false (some 5), .call 3, .call 1, .call 1,
      .call 2, .call 2, .call 2, .call 2] rfl, by decide⟩

/-- `Serial` is NECESSARY for the nil return, both clauses (this is what the code does, not an artefact): a `Listen`
    resp. a `DoListen` started after the Shutdown, while the shut-down call has not yet done its `isRunning()` check,
    sets `running` again, and the first call returns the Accept error instead of nil. The offending step violates
    `Serial` (`serial_iff_B`). -/
example : (run init [.spawn .bind false (some 0), .call 0, .spawn .doListen false none, .call 1, .call 1, .shutdown,
                     .spawn .listen false (some 1)]).map
      (fun w => (decide (serialB w (.call 2) = true), (run w [.call 2, .call 1, .call 1]).map
                   (fun w' => w'.calls.map (fun c => (c.pc, c.ret))))) =
    some (false, some [(.returned, some .nil), (.teardown, some .errAccept), (.loopCheck, none)]) := by decide

example : (run init [.spawn .bind false (some 0), .call 0, .spawn .doListen false none, .call 1, .call 1, .shutdown,
                     .spawn .doListen false none]).map
      (fun w => (decide (serialB w (.call 2) = true), (run w [.call 2, .call 1, .call 1]).map
                   (fun w' => w'.calls.map (fun c => (c.pc, c.ret))))) =
    some (false, some [(.returned, some .nil), (.teardown, some .errAccept), (.loopCheck, none)]) := by decide

/-- … **as soon as the connections already accepted have ended**: a call that waits for its handlers can take its
    last step exactly when every connection it accepted is finished, and that step is the return. -/
theorem wait_returns_when_drained {w : World} (h : Reachable w) {k : Nat} {c : Call} (hk : w.calls[k]? = some c)
    (hpc : c.pc = .waiting) :
    (step w (.call k) ≠ none ↔
      ∀ (i : Nat) (x : Conn), w.conns[i]? = some x → x.owner = k → inWg x.phase = false) ∧
    (∀ w', step w (.call k) = some w' → (w'.calls[k]?).map (·.pc) = some .returned) := by
  have hinv := inv_reachable h
  have hwg := hinv.wgOk k c hk
  constructor
  · constructor
    · intro hne i x hi hox
      have h0 : c.wg = 0 := by
        simp only [step, stepCall, hk, hpc] at hne
        split at hne
        · assumption
        · exact absurd rfl hne
      have : cnt (ownedWg k) w.conns = 0 := by rw [← hwg, h0]; rfl
      have := cnt_zero_forall _ this hi
      simpa [ownedWg, hox] using this
    · intro hall
      have : cnt (ownedWg k) w.conns = 0 := by
        apply cnt_eq_zero_of_forall
        intro i x hi
        by_cases hox : x.owner = k
        · simp [ownedWg, hall i x hi hox]
        · simp [ownedWg, hox]
      have h0 : c.wg = 0 := by rw [this] at hwg; exact_mod_cast hwg
      simp [step, stepCall, hk, hpc, h0]
  · intro w' hs
    simp only [step, stepCall, hk, hpc] at hs
    split at hs
    · simp only [Option.some.injEq] at hs; subst hs
      rw [setCall_get hk]; rfl
    · cases hs

/-- own steps a handler still needs once its client has gone (worst case: it first answers what was already sent) -/
def handlerDist (x : Conn) : Nat :=
  match x.phase with
  | .reading => 2 * x.reqs + 4
  | .dispatching => 2 * x.reqs + 5
  | .closing => 3
  | .closed => 2
  | .decremented => 1
  | _ => 0

/-- … and the handlers do end: once the client side of an accepted connection is closed or aborted, the handler's
    own step is always enabled and strictly decreases `handlerDist` (≤ 2·pending requests + 5), until `done`. -/
theorem handler_progress {w : World} (h : Reachable w) {i : Nat} {x : Conn} (hi : w.conns[i]? = some x)
    (hc : x.cli ≠ .open) (hp : inWg x.phase = true) :
    ∃ w' x', step w (.handler i) = some w' ∧ w'.conns[i]? = some x' ∧ x'.cli = x.cli ∧
      handlerDist x' < handlerDist x ∧ (inWg x'.phase = true ∨ x'.phase = .done) := by
  have hinv := inv_reachable h
  cases hph : x.phase <;> simp only [hph, inWg] at hp <;> try (exact Bool.noConfusion hp)
  case reading =>
    by_cases hr : x.reqs = 0
    · refine ⟨w.setConn i { x with phase := .closing }, { x with phase := .closing }, ?_, setConn_get hi, rfl, ?_, Or.inl rfl⟩
      · simp [step, stepHandler, hi, hph, hr, hc]
      · simp [handlerDist, hph]
    · refine ⟨w.setConn i { x with phase := .dispatching, reqs := x.reqs - 1 },
        { x with phase := .dispatching, reqs := x.reqs - 1 }, ?_, setConn_get hi, rfl, ?_, Or.inl rfl⟩
      · simp [step, stepHandler, hi, hph, hr]
      · simp only [handlerDist, hph]; omega
  case dispatching =>
    refine ⟨w.setConn i { x with phase := .reading, served := x.served + 1 },
      { x with phase := .reading, served := x.served + 1 }, ?_, setConn_get hi, rfl, ?_, Or.inl rfl⟩
    · simp [step, stepHandler, hi, hph]
    · simp [handlerDist, hph]
  case closing =>
    refine ⟨w.setConn i { x with phase := .closed }, { x with phase := .closed }, ?_, setConn_get hi, rfl, ?_, Or.inl rfl⟩
    · simp [step, stepHandler, hi, hph]
    · simp [handlerDist, hph]
  case closed =>
    refine ⟨({ w with counter := w.counter - 1 } : World).setConn i { x with phase := .decremented },
      { x with phase := .decremented }, ?_, setConn_get (w := { w with counter := w.counter - 1 }) hi, rfl, ?_, Or.inl rfl⟩
    · simp only [step, stepHandler, hi, hph]
    · simp [handlerDist, hph]
  case decremented =>
    obtain ⟨co, hco, hne⟩ := hinv.owner_wg_pos hi (by simp [hph, inWg])
    refine ⟨(w.setCall x.owner { co with wg := co.wg - 1 }).setConn i { x with phase := .done },
      { x with phase := .done }, ?_, setConn_get (w := w.setCall x.owner { co with wg := co.wg - 1 }) hi, rfl, ?_, Or.inr rfl⟩
    · simp only [step, stepHandler, hi, hph, hco, hne, if_false]
    · simp [handlerDist, hph]

/-! ### the service is reusable -/

/-- **reusable**: (orderly use: every API call — Bind, Listen, DoListen — executes its start-up step only when no
    other API call is in flight, or, Bind/Listen, while the service is running and it is refused) the step by which
    a serving call returns leaves the shared state of the service exactly as it was initially — not running, no
    listener, no address, `conncounter = 0`, no wait-group panic — and no API call in flight, so any further history
    (bind, serve, …) is possible again on the same object. -/
theorem reusable {w w' : World} (h : OReach w) {k : Nat} {c : Call} (hk : w.calls[k]? = some c)
    (hpc : c.pc = .waiting) (hs : step w (.call k) = some w') :
    w'.running = init.running ∧ w'.lst = init.lst ∧ w'.addrF = init.addrF ∧ w'.counter = init.counter ∧
    w'.wgPanic = init.wgPanic ∧ Idle w' :=
  reusable_core h hk hpc hs

/-- non-vacuity: a full cycle with a connection open at Shutdown, under the orderly discipline, ends in `waiting`
    with the step enabled; and a second bind + serve on the same object gets to Accept again -/
example : ∃ w, OReach w ∧ (w.calls[1]?).map (fun c => (c.pc, c.wg, c.ret)) = some (.waiting, 0, some .nil) ∧
    w.counter = 0 ∧ (step w (.call 1)).isSome = true :=
  ⟨_, reach_of_runB [.spawn .bind false (some 0), .call 0,
      .spawn .doListen false none, .call 1, .call 1, .clientConnect 0, .call 1, .call 1, .call 1, .call 1,
      .shutdown, .call 1, .call 1, .call 1, .clientClose 0, .handler 0, .handler 0, .handler 0, .handler 0] rfl,
    by decide, by decide, by decide⟩

example : ∃ w, OReach w ∧ w.calls.map (fun c => (c.pc, c.ret)) =
      [(.returned, some .nil), (.returned, some .nil), (.returned, some .nil), (.inAccept, none)] ∧
    w.running = true ∧ w.lst = some 1 :=
  ⟨_, reach_of_runB [.spawn .bind false (some 0), .call 0,
      .spawn .doListen false none, .call 1, .call 1, .shutdown, .call 1, .call 1, .call 1, .call 1,
      .spawn .bind false (some 0), .call 2,
      .spawn .doListen false none, .call 3, .call 3] rfl,
    by decide, by decide, by decide⟩

/-! ### what is still assumed about API use, and why

  Since fix a1069ea the running check of `Bind`, the store of the listener and the serving call's `running = true`
  are one critical section, and the transition system has them as one step; the old hypothesis about what may happen
  INSIDE the start-up of a call (a Bind/Listen runs its check only while running or while all other calls are idle,
  to keep other threads out of the window between the check and `running = true`) is gone, and so is the restriction
  on spawning a DoListen.  What remains restricts only WHEN a call executes its start-up step:

  * nothing at all for: accounting (`accounted_once`), draining (`drains`), the refused second bind
    (`bind_refused_while_running`, `second_bind_refused_any`), `no_service_after_shutdown`, `shutdown_returns_any`,
    `serving_call_listener`, `bind_window_gone`, `wait_returns_when_drained`, `handler_progress`;
  * `Serial` after the Shutdown for `shutdown_in_accept_returns_nil` (necessity: the two examples there);
  * `Orderly` = `Serial` + the same rule for a stand-alone Bind, over the whole history, for `reusable`: overlapping
    API calls are outside the property's promise ("afterwards the same service object can be bound and served
    again"), and the two examples below show what the code does with them. -/

/-- the stand-alone-Bind clause of `Orderly` is NECESSARY for `reusable`: under `Serial` alone a Bind may run between
    the serving call's teardown and its return (the service is not running, so it is not refused); the listener it
    stores is still there when the serving call returns. The Bind's step violates `Orderly` (`orderly_iff_B`). -/
example : ∃ w w', SReach w ∧ (w.calls[1]?).map (·.pc) = some .waiting ∧ step w (.call 1) = some w' ∧
    (w'.calls[1]?).map (·.pc) = some .returned ∧ w'.lst = some 1 ∧ w'.addrF = some 1 ∧ isOpen w' 1 = true :=
  ⟨_, _, reach_of_runS [.spawn .bind false (some 0), .call 0, .spawn .doListen false none, .call 1, .call 1,
      .shutdown, .call 1, .call 1, .call 1, .spawn .bind false (some 1), .call 2] rfl,
    by decide, rfl, by decide, by decide, by decide, by decide⟩

example : (run init [.spawn .bind false (some 0), .call 0, .spawn .doListen false none, .call 1, .call 1,
      .shutdown, .call 1, .call 1, .call 1, .spawn .bind false (some 1)]).map
        (fun w => (decide (serialB w (.call 2) = true), decide (orderlyB w (.call 2) = true))) = some (true, false) := by
  decide

/-- the serving-call clause is NECESSARY for `reusable` too ("no API call in flight"): a second DoListen started
    while the first is serving (its start-up step violates `Serial`) is still in its loop when the first returns —
    the first call's teardown has closed the shared listener and cleared the fields under it -/
example : (run init [.spawn .bind false (some 0), .call 0, .spawn .doListen false none, .call 1, .call 1,
      .spawn .doListen false none]).map
        (fun w => (decide (serialB w (.call 2) = true), (run w [.call 2, .call 2, .shutdown, .call 1, .call 1, .call 1, .call 1]).map
                     (fun w' => w'.calls.map (fun c => (c.pc, c.ret))))) =
    some (false, some [(.returned, some .nil), (.returned, some .nil), (.inAccept, none)]) := by decide

/-- **Tie to the source**: the declarations of /repo that this property's model transliterates
    (`Extracted.codeNames_C14`) have, in the current working tree, exactly the fingerprints of the code the
    model was validated against. Any change to them breaks this obligation; the check then searches the
    correspondence streams for an input on which the changed code violates the property. -/
theorem modelled_code_unchanged : Varlink.Extracted.code_C14 = Varlink.ExpectedCode.code_C14 := by decide

/-- no declaration (function, method, type, constant, variable) has been added to or removed from the
    fingerprinted source files since the models were validated: a new method or `init` can change behaviour
    without touching the text of any existing declaration -/
theorem declarations_known : Varlink.Extracted.declarationSet = Varlink.ExpectedCode.declarationSet := by decide

end Varlink.C14
