/-
  C15 — the idle timeout fires only when idle, and then always; serving that ends by timeout releases
  the endpoint. Same transition system as C14 (`Varlink/Lifecycle.lean`), calls started with `tmo = true`.
-/
import VarlinkProofs.Lemmas.LifecycleTimeout
import Varlink.Expected
import Varlink.Extracted.Skeleton
import Varlink.Extracted.Code
import Varlink.ExpectedCode
namespace Varlink.C15
open Varlink.Life

/-- the timeout path of the model is the one of the code: same regenerated skeleton as C14 (in particular the
    accept loop's `if is-timeout { lock; if read conncounter==0 { unlock; return ServiceTimeoutError } unlock; continue }`
    and the teardown that closes the field listener) -/
theorem skeleton_matches : Varlink.Extracted.skeleton = Varlink.Expected.skeleton := by decide

/-- **timeout_only_when_idle**: in any reachable state, the step that makes a call's return value the timeout
    error is that call's own check right after an accept expiry (`pc = errTimeout`, last Accept result = expiry),
    it finds `conncounter = 0`, and then (accounting invariant) no accepted connection is still open: every
    connection is before its counter increment or after its handler's `conn.Close()` and counter decrement. -/
theorem timeout_only_when_idle {w w' : World} {a : Label} (h : Reachable w) (hs : step w a = some w')
    {k : Nat} {c c' : Call} (hk : w.calls[k]? = some c) (hk' : w'.calls[k]? = some c')
    (hnew : c'.ret = some .timeout) (hold : c.ret ≠ some .timeout) :
    a = .call k ∧ c.pc = .errTimeout ∧ c.lastAcc = .timeout ∧ w.counter = 0 ∧
    (∀ (i : Nat) (x : Conn), w.conns[i]? = some x → inCounter x.phase = false) := by
  have hinv := inv_reachable h
  have hacc := accInv_reach h
  by_cases ha : a = .call k
  · subst ha
    obtain ⟨hpc, h0, _⟩ := (own_step_timeout_facts hs hk hk').2 hnew hold
    refine ⟨rfl, hpc, hacc k c hk hpc, h0, ?_⟩
    intro i x hi
    have : cnt cntd w.conns = 0 := by rw [← hinv.counterOk]; exact h0
    exact cnt_zero_forall cntd this hi
  · exfalso
    by_cases ha2 : a = .expire k
    · subst ha2
      simp only [step, stepExpire, hk] at hs
      split at hs
      · split at hs
        · simp only [Option.some.injEq] at hs; subst hs
          rw [setCall_get hk] at hk'; simp only [Option.some.injEq] at hk'; subst hk'
          exact hold hnew
        · cases hs
      · cases hs
    · obtain ⟨c1, hk1, hsame⟩ := other_step (rel_of_step hs) hk ha ha2
      rw [hk'] at hk1; simp only [Option.some.injEq] at hk1; subst hk1
      rw [hsame.2.2.1] at hnew; exact hold hnew

/-- **open_connection_blocks_timeout**: while an accepted connection is open (counted and not yet closed by its
    handler), an expiry of the accept deadline is followed by the counter check and leads back to the loop check:
    the call does not return and its return value stays unset. -/
theorem open_connection_blocks_timeout {w : World} (h : Reachable w) {k l : Nat} {c : Call}
    (hk : w.calls[k]? = some c) (hpc : c.pc = .inAccept) (hl : c.l = some l)
    (ho : isOpen w l = true) (harm : isArmed w l = true)
    {i : Nat} {x : Conn} (hi : w.conns[i]? = some x) (hopen : inCounter x.phase = true) :
    ∃ w2 c2, run w [.expire k, .call k] = some w2 ∧ w2.calls[k]? = some c2 ∧ c2.pc = .loopCheck ∧ c2.ret = c.ret ∧
      w2.running = w.running ∧ w2.lst = w.lst ∧ w2.counter = w.counter := by
  have hinv := inv_reachable h
  have hpos : w.counter ≠ 0 := by
    have := cnt_pos_of_mem cntd hi (by simpa [cntd] using hopen)
    rw [hinv.counterOk]; omega
  have h1 : step w (.expire k) = some (w.setCall k { c with pc := .errTimeout, lastAcc := .timeout }) := by
    simp [step, stepExpire, hk, hpc, hl, ho, harm]
  have h2 : step (w.setCall k { c with pc := .errTimeout, lastAcc := .timeout }) (.call k) =
      some ((w.setCall k { c with pc := .errTimeout, lastAcc := .timeout }).setCall k
              { c with pc := .loopCheck, lastAcc := .timeout }) := by
    simp only [step, stepCall, setCall_get hk, setCall_counter, hpos, if_false]
  exact ⟨_, _, run_two h1 h2, setCall_get (setCall_get hk), rfl, rfl, rfl, rfl, rfl⟩

/-- **next_expiry_after_last_close_fires**: when no accepted connection is open any more (`conncounter = 0`), the
    next expiry of the accept deadline ends serving: the counter check sends the call to its teardown with the
    timeout error as return value. -/
theorem next_expiry_after_last_close_fires {w : World} {k l : Nat} {c : Call}
    (hk : w.calls[k]? = some c) (hpc : c.pc = .inAccept) (hl : c.l = some l)
    (ho : isOpen w l = true) (harm : isArmed w l = true) (h0 : w.counter = 0) :
    ∃ w2 c2, run w [.expire k, .call k] = some w2 ∧ w2.calls[k]? = some c2 ∧ c2.pc = .teardown ∧
      c2.ret = some .timeout := by
  have h1 : step w (.expire k) = some (w.setCall k { c with pc := .errTimeout, lastAcc := .timeout }) := by
    simp [step, stepExpire, hk, hpc, hl, ho, harm]
  have h2 : step (w.setCall k { c with pc := .errTimeout, lastAcc := .timeout }) (.call k) =
      some ((w.setCall k { c with pc := .errTimeout, lastAcc := .timeout }).setCall k
              { c with pc := .teardown, lastAcc := .timeout, ret := some .timeout }) := by
    simp only [step, stepCall, setCall_get hk, setCall_counter, h0, if_true]
  exact ⟨_, _, run_two h1 h2, setCall_get (setCall_get hk), rfl, rfl⟩

/-- a call that serves with a timeout has the deadline armed when it blocks in Accept on an open listener, so the
    expiry label of the two theorems above is enabled -/
example : ∃ w, run init [.spawn .bind false (some 0), .call 0,
      .spawn .doListen true none, .call 1, .call 1, .call 1] = some w ∧
      (w.calls[1]?).map (·.pc) = some .inAccept ∧ isArmed w 0 = true ∧ isOpen w 0 = true ∧ w.counter = 0 := by
  refine ⟨_, rfl, ?_⟩; decide

/-- **no_timeout_never_stops**: if no serving call is started with a timeout and nobody calls Shutdown (`Quiet`:
    otherwise arbitrary serial use — a serving call is started only when no other API call is in flight — with any
    clients, faults, cancellations, stand-alone and refused binds, re-serves), then in every reachable state no expiry
    label is enabled, every call that has entered its accept loop is still in it with the service running and its
    listener open, and nothing has ever returned except start-up errors (and `nil` of a stand-alone Bind): started
    without a timeout, the service never stops by itself. -/
theorem no_timeout_never_stops {w : World} (h : Reach Quiet init w) :
    (∀ k, step w (.expire k) = none) ∧
    (∀ (k : Nat) (c : Call), w.calls[k]? = some c →
      goodRet c ∧
      (loopPc c.pc = true → w.running = true ∧ c.pc ≠ .errOther ∧ c.pc ≠ .errTimeout ∧
        ∃ l, c.l = some l ∧ isOpen w l = true)) := by
  obtain ⟨_, hn, hs⟩ := quiet_invs h
  constructor
  · intro k
    simp only [step, stepExpire]
    cases hk : w.calls[k]? with
    | none => rfl
    | some c =>
      simp only []
      split
      · rename_i l _ _
        have : isArmed w l = false := by
          simp only [isArmed]
          cases hx : w.lsnrs[l]? with
          | none => rfl
          | some x => exact hn.lsnrs l x hx
        simp [this]
      · rfl
  · intro k c hk
    obtain ⟨s2, s3⟩ := hs.call k c hk
    exact ⟨s3, s2⟩

/-- the hypotheses are satisfiable by a serving state with an open connection (and a stand-alone Bind refused while
    serving) -/
example : ∃ w, Reach Quiet init w ∧ (w.calls[1]?).map (·.pc) = some .inAccept ∧ w.counter = 1 :=
  ⟨_, quiet_of_runS [.spawn .bind false (some 0), .call 0,
      .spawn .doListen false none, .call 1, .call 1, .clientConnect 0, .call 1, .call 1, .call 1, .call 1,
      .spawn .bind false (some 1), .call 2]
      rfl (by decide), by decide, by decide⟩

/-- `Serial` is NECESSARY here: a DoListen started before anything was bound runs its deferred teardown when it
    pleases; if a second DoListen was started meanwhile (violating `Serial`: the first is still in flight), that
    teardown closes the listener under it and clears `running`: the service stops without timeout and without
    Shutdown, the second call is on its way out with nil. -/
example : ∃ w w', run init [.spawn .doListen false none, .call 0,       -- DoListen: no listener → deferred teardown pending
                            .spawn .bind false (some 0), .call 1,       -- Bind
                            .spawn .doListen false none] = some w ∧     -- second DoListen
    serialB w (.call 2) = false ∧
    run w [.call 2, .call 2, .call 0, .call 2, .call 2] = some w' ∧
    w'.running = false ∧ isOpen w' 0 = false ∧
    w'.calls.map (fun c => (c.pc, c.ret)) =
      [(.waiting, some .errNoListener), (.returned, some .nil), (.teardown, some .nil)] :=
  ⟨_, _, rfl, by decide, rfl, by decide, by decide, by decide⟩

/-- **timeout_releases_endpoint** (EVERY reachable state, no discipline on API use): a serving call whose return
    value is the timeout error leaves the listener it served closed by its teardown — the address is free for a new
    bind at once (`addrInUse = false`, which is exactly the guard of the `listen` inside the bind step) — and from
    then on, for ever, the listener is closed and every client connecting to it is refused. -/
theorem timeout_releases_endpoint {w : World} (h : Reachable w) {k : Nat} {c : Call} (hk : w.calls[k]? = some c)
    (hret : c.ret = some .timeout) :
    ∃ l, c.l = some l ∧
      (c.pc = .teardown → ∃ x w', w.lsnrs[l]? = some x ∧ step w (.call k) = some w' ∧ Closed w' l ∧
          (x.isOpen = true → addrInUse w' x.addr = false)) ∧
      (c.pc = .waiting ∨ c.pc = .returned → Closed w l ∧
          ∀ w1, step w (.clientConnect l) = some w1 → (w1.conns[w.conns.length]?).map (·.phase) = some .refused) := by
  have hv := valid_reachable h
  have hown := srv_reachable h k c hk
  obtain ⟨l, hl⟩ := Option.isSome_iff_exists.mp (hown.tmoL hret)
  refine ⟨l, hl, ?_, ?_⟩
  · intro hpc
    have hlt := hv.call k c l hk hl
    have hx : w.lsnrs[l]? = some w.lsnrs[l] := by simp [hlt]
    have hstep : step w (.call k) = some ((teardownShared w).setCall k { c with pc := .waiting }) := by
      simp only [step, stepCall, hk, hpc]
    refine ⟨_, _, hx, hstep, ?_, ?_⟩
    · rcases hown.tear hpc l hl with hcl | ⟨hlst, _⟩
      · exact closed_step hstep hcl
      · exact closed_teardown hv hlst
    · intro hopen
      rcases hown.tear hpc l hl with hcl | ⟨hlst, _⟩
      · obtain ⟨x', hx', ho'⟩ := hcl
        rw [hx] at hx'; simp only [Option.some.injEq] at hx'; subst hx'
        rw [hopen] at ho'; cases ho'
      · have hu := uniqueOpen_reach h
        have := addr_free_after_close hu hx hopen
        simpa [addrInUse, teardownShared, hlst] using this
  · intro hpc
    have hcl := hown.after hpc (Or.inl (by rw [hret]; simp)) l hl
    refine ⟨hcl, ?_⟩
    intro w1 hs
    simp only [step, stepConnect] at hs
    split at hs
    · simp only [Option.some.injEq] at hs; subst hs
      simp [isOpen_false_of_closed hcl]
    · cases hs

/-- a timeout return (non-vacuity), and what follows: connect refused, address free -/
example : ∃ w, Reachable w ∧ (w.calls[1]?).map (fun c => (c.pc, c.ret)) = some (.returned, some .timeout) ∧
    isOpen w 0 = false ∧ addrInUse w 0 = false ∧
    ((step w (.clientConnect 0)).bind fun w1 => (w1.conns[0]?).map (·.phase)) = some .refused :=
  ⟨_, reach_of_run [.spawn .bind false (some 0), .call 0,
      .spawn .doListen true none, .call 1, .call 1, .call 1, .expire 1, .call 1, .call 1, .call 1] rfl,
    by decide, by decide, by decide, by decide⟩

/-- … also when the API use is not orderly: a second serving call on the same listener, started while the first is
    serving; the first call's timeout return releases the endpoint under both -/
example : ∃ w, Reachable w ∧ ¬ SReach w ∧
    w.calls.map (fun c => (c.pc, c.ret)) = [(.returned, some .nil), (.teardown, some .timeout), (.inAccept, none)] ∧
    ((step w (.call 1)).map fun w' => (isOpen w' 0, addrInUse w' 0)) = some (false, false) :=
  ⟨_, reach_of_run [.spawn .bind false (some 0), .call 0,
      .spawn .doListen true none, .call 1, .call 1, .call 1,
      .spawn .doListen false none, .call 2, .call 2, .expire 1, .call 1] rfl,
    fun hs => not_one_of_two_active 1 2 (by decide) (by decide) (by decide) (sreach_one hs),
    by decide, by decide⟩

/-- regression witness for the repaired defect (fix 9038523): with the OLD teardown — fields cleared, listener not
    closed — the same timeout history leaves the endpoint open: a later client is queued on a listener nobody will
    ever accept from, and the address stays in use. -/
example :
    ((run init [.spawn .bind false (some 0), .call 0,
                .spawn .doListen true none, .call 1, .call 1, .call 1, .expire 1, .call 1]).bind fun w =>
      (w.calls[1]?).bind fun c =>
        let w' := (teardownSharedOld w).setCall 1 { c with pc := .waiting }       -- OLD teardown
        (run w' [.call 1, .clientConnect 0]).map fun w2 =>
          ((w2.calls[1]?).map (fun c => (c.pc, c.ret)), isOpen w2 0, addrInUse w2 0, (w2.conns[0]?).map (·.phase))) =
    some (some (.returned, some .timeout), true, true, some .backlog) := by decide

/-- **Tie to the source**: the declarations of /repo that this property's model transliterates
    (`Extracted.codeNames_C15`) have, in the current working tree, exactly the fingerprints of the code the
    model was validated against. Any change to them breaks this obligation; the check then searches the
    correspondence streams for an input on which the changed code violates the property. -/
theorem modelled_code_unchanged : Varlink.Extracted.code_C15 = Varlink.ExpectedCode.code_C15 := by decide

/-- no declaration (function, method, type, constant, variable) has been added to or removed from the
    fingerprinted source files since the models were validated: a new method or `init` can change behaviour
    without touching the text of any existing declaration -/
theorem declarations_known : Varlink.Extracted.declarationSet = Varlink.ExpectedCode.declarationSet := by decide

end Varlink.C15
