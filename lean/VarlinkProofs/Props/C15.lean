import Varlink.Lifecycle
namespace Varlink.C15
open Varlink.Life
end Varlink.C15
