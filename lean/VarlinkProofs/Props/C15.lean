/-
  C15 — the idle timeout fires only when idle, and then always; serving that ends by timeout releases
  the endpoint. Same transition system as C14 (`Varlink/Lifecycle.lean`), calls started with `tmo = true`.
-/
import VarlinkProofs.Lemmas.LifecycleTimeout
import Varlink.Expected
import Varlink.Extracted.Skeleton
import Varlink.Extracted.Code
import Varlink.ExpectedCode
namespace Varlink.C15
open Varlink.Life

/-- the timeout path of the model is the one of the code: same regenerated skeleton as C14 (in particular the
    accept loop's `if is-timeout { lock; if read conncounter==0 { unlock; return ServiceTimeoutError } unlock; continue }`
    and the teardown that closes the field listener) -/
theorem skeleton_matches : Varlink.Extracted.skeleton = Varlink.Expected.skeleton := by decide

/-- **timeout_only_when_idle**: in any reachable state, the step that makes a call's return value the timeout
    error is that call's own check right after an accept expiry (`pc = errTimeout`, last Accept result = expiry),
    it finds `conncounter = 0`, and then (accounting invariant) no accepted connection is still open: every
    connection is before its counter increment or after its handler's `conn.Close()` and counter decrement. -/
theorem timeout_only_when_idle {w w' : World} {a : Label} (h : Reachable w) (hs : step w a = some w')
    {k : Nat} {c c' : Call} (hk : w.calls[k]? = some c) (hk' : w'.calls[k]? = some c')
    (hnew : c'.ret = some .timeout) (hold : c.ret ≠ some .timeout) :
    a = .call k ∧ c.pc = .errTimeout ∧ c.lastAcc = .timeout ∧ w.counter = 0 ∧
    (∀ (i : Nat) (x : Conn), w.conns[i]? = some x → inCounter x.phase = false) := by
  have hinv := inv_reachable h
  have hacc := accInv_reach h
  by_cases ha : a = .call k
  · subst ha
    obtain ⟨hpc, h0, _⟩ := (own_step_timeout_facts hs hk hk').2 hnew hold
    refine ⟨rfl, hpc, hacc k c hk hpc, h0, ?_⟩
    intro i x hi
    have : cnt cntd w.conns = 0 := by rw [← hinv.counterOk]; exact h0
    exact cnt_zero_forall cntd this hi
  · exfalso
    by_cases ha2 : a = .expire k
    · subst ha2
      simp only [step, stepExpire, hk] at hs
      split at hs
      · split at hs
        · simp only [Option.some.injEq] at hs; subst hs
          rw [setCall_get hk] at hk'; simp only [Option.some.injEq] at hk'; subst hk'
          exact hold hnew
        · cases hs
      · cases hs
    · obtain ⟨c1, hk1, hsame⟩ := other_step (rel_of_step hs) hk ha ha2
      rw [hk'] at hk1; simp only [Option.some.injEq] at hk1; subst hk1
      rw [hsame.2.2.1] at hnew; exact hold hnew

/-- **open_connection_blocks_timeout**: while an accepted connection is open (counted and not yet closed by its
    handler), an expiry of the accept deadline is followed by the counter check and leads back to the loop check:
    the call does not return and its return value stays unset. -/
theorem open_connection_blocks_timeout {w : World} (h : Reachable w) {k l : Nat} {c : Call}
    (hk : w.calls[k]? = some c) (hpc : c.pc = .inAccept) (hl : c.l = some l)
    (ho : isOpen w l = true) (harm : isArmed w l = true)
    {i : Nat} {x : Conn} (hi : w.conns[i]? = some x) (hopen : inCounter x.phase = true) :
    ∃ w2 c2, run w [.expire k, .call k] = some w2 ∧ w2.calls[k]? = some c2 ∧ c2.pc = .loopCheck ∧ c2.ret = c.ret ∧
      w2.running = w.running ∧ w2.lst = w.lst ∧ w2.counter = w.counter := by
  have hinv := inv_reachable h
  have hpos : w.counter ≠ 0 := by
    have := cnt_pos_of_mem cntd hi (by simpa [cntd] using hopen)
    rw [hinv.counterOk]; omega
  have h1 : step w (.expire k) = some (w.setCall k { c with pc := .errTimeout, lastAcc := .timeout }) := by
    simp [step, stepExpire, hk, hpc, hl, ho, harm]
  have h2 : step (w.setCall k { c with pc := .errTimeout, lastAcc := .timeout }) (.call k) =
      some ((w.setCall k { c with pc := .errTimeout, lastAcc := .timeout }).setCall k
              { c with pc := .loopCheck, lastAcc := .timeout }) := by
    simp only [step, stepCall, setCall_get hk, setCall_counter, hpos, if_false]
  exact ⟨_, _, run_two h1 h2, setCall_get (setCall_get hk), rfl, rfl, rfl, rfl, rfl⟩

/-- **next_expiry_after_last_close_fires**: when no accepted connection is open any more (`conncounter = 0`), the
    next expiry of the accept deadline ends serving: the counter check sends the call to its teardown with the
    timeout error as return value. -/
theorem next_expiry_after_last_close_fires {w : World} {k l : Nat} {c : Call}
    (hk : w.calls[k]? = some c) (hpc : c.pc = .inAccept) (hl : c.l = some l)
    (ho : isOpen w l = true) (harm : isArmed w l = true) (h0 : w.counter = 0) :
    ∃ w2 c2, run w [.expire k, .call k] = some w2 ∧ w2.calls[k]? = some c2 ∧ c2.pc = .teardown ∧
      c2.ret = some .timeout := by
  have h1 : step w (.expire k) = some (w.setCall k { c with pc := .errTimeout, lastAcc := .timeout }) := by
    simp [step, stepExpire, hk, hpc, hl, ho, harm]
  have h2 : step (w.setCall k { c with pc := .errTimeout, lastAcc := .timeout }) (.call k) =
      some ((w.setCall k { c with pc := .errTimeout, lastAcc := .timeout }).setCall k
              { c with pc := .teardown, lastAcc := .timeout, ret := some .timeout }) := by
    simp only [step, stepCall, setCall_get hk, setCall_counter, h0, if_true]
  exact ⟨_, _, run_two h1 h2, setCall_get (setCall_get hk), rfl, rfl⟩

/-- under the orderly discipline a call that serves with a timeout always has the deadline armed when it blocks in
    Accept on an open listener, so the expiry label of the two theorems above is enabled -/
example : ∃ w, run init [.spawn .bind false (some 0), .call 0, .call 0, .call 0, .call 0,
      .spawn .doListen true none, .call 1, .call 1, .call 1, .call 1] = some w ∧
      (w.calls[1]?).map (·.pc) = some .inAccept ∧ isArmed w 0 = true ∧ isOpen w 0 = true ∧ w.counter = 0 := by
  refine ⟨_, rfl, ?_⟩; decide

/-- **no_timeout_never_stops**: if no serving call is started with a timeout and nobody calls Shutdown (orderly
    use otherwise arbitrary: any clients, faults, cancellations, refused binds, re-serves), then in every reachable
    state no expiry label is enabled, every call that has entered its accept loop is still in it with the service
    running and its listener open, and nothing has ever returned except start-up errors (and `nil` of a stand-alone
    Bind): started without a timeout, the service never stops by itself. -/
theorem no_timeout_never_stops {w : World} (h : Reach Quiet init w) :
    (∀ k, step w (.expire k) = none) ∧
    (∀ (k : Nat) (c : Call), w.calls[k]? = some c →
      goodRet c ∧
      (loopPc c.pc = true → w.running = true ∧ c.pc ≠ .errOther ∧ c.pc ≠ .errTimeout ∧
        ∃ l, c.l = some l ∧ isOpen w l = true)) := by
  obtain ⟨ho, hn, hs⟩ := quiet_invs h
  constructor
  · intro k
    simp only [step, stepExpire]
    cases hk : w.calls[k]? with
    | none => rfl
    | some c =>
      simp only []
      split
      · rename_i l _ _
        have : isArmed w l = false := by
          simp only [isArmed]
          cases hx : w.lsnrs[l]? with
          | none => rfl
          | some x => exact hn.lsnrs l x hx
        simp [this]
      · rfl
  · intro k c hk
    obtain ⟨_, s2, s3⟩ := hs.call k c hk
    refine ⟨s3, fun hp => ?_⟩
    obtain ⟨r1, r2, r3⟩ := s2 hp
    obtain ⟨e1, e2⟩ := (ho.own k c hk).loopL hp
    obtain ⟨l, hl⟩ := Option.isSome_iff_exists.mp e2
    exact ⟨r1, r2, r3, l, hl, hs.lstOpen l (by rw [← e1]; exact hl)⟩

/-- the hypotheses are satisfiable by a serving state with an open connection -/
example : ∃ w, Reach Quiet init w ∧ (w.calls[1]?).map (·.pc) = some .inAccept ∧ w.counter = 1 :=
  ⟨_, quiet_of_runB [.spawn .bind false (some 0), .call 0, .call 0, .call 0, .call 0,
      .spawn .doListen false none, .call 1, .call 1, .call 1, .clientConnect 0, .call 1, .call 1, .call 1, .call 1]
      rfl (by decide), by decide, by decide⟩

/-- **timeout_releases_endpoint**: (orderly use) a serving call whose return value is the timeout error closes the
    listener it served in its teardown — the address is free for a new bind at once (`addrInUse = false`, which is
    exactly the guard of the `listen` step) — and from then on, for ever, the listener is closed and every client
    connecting to it is refused. -/
theorem timeout_releases_endpoint {w : World} (h : OReach w) {k : Nat} {c : Call} (hk : w.calls[k]? = some c)
    (hret : c.ret = some .timeout) :
    ∃ l, c.l = some l ∧
      (c.pc = .teardown → ∃ x w', w.lsnrs[l]? = some x ∧ step w (.call k) = some w' ∧ Closed w' l ∧
          (x.isOpen = true → addrInUse w' x.addr = false)) ∧
      (c.pc = .waiting ∨ c.pc = .returned → Closed w l ∧
          ∀ w1, step w (.clientConnect l) = some w1 → (w1.conns[w.conns.length]?).map (·.phase) = some .refused) := by
  obtain ⟨_, hv, ho⟩ := oreach_invs h
  have hown := ho.own k c hk
  obtain ⟨l, hl⟩ := Option.isSome_iff_exists.mp (hown.timeoutL hret)
  refine ⟨l, hl, ?_, ?_⟩
  · intro hpc
    have hlst : w.lst = some l := by rw [← hown.tearL hpc]; exact hl
    have hlt := hv.lst l hlst
    have hx : w.lsnrs[l]? = some w.lsnrs[l] := by simp [hlt]
    refine ⟨_, (teardownShared w).setCall k { c with pc := .waiting }, hx, by simp only [step, stepCall, hk, hpc], ?_, ?_⟩
    · exact closed_teardown hv hlst
    · intro hopen
      have hu := uniqueOpen_reach h
      have := addr_free_after_close hu hx hopen
      simpa [addrInUse, teardownShared, hlst] using this
  · intro hpc
    have hcl := hown.closedL hpc (Or.inl (by rw [hret]; simp)) l hl
    refine ⟨hcl, ?_⟩
    intro w1 hs
    simp only [step, stepConnect] at hs
    split at hs
    · simp only [Option.some.injEq] at hs; subst hs
      simp [isOpen_false_of_closed hcl]
    · cases hs

/-- a timeout return reached under the orderly discipline (non-vacuity), and what follows: connect refused, address free -/
example : ∃ w, OReach w ∧ (w.calls[1]?).map (fun c => (c.pc, c.ret)) = some (.returned, some .timeout) ∧
    isOpen w 0 = false ∧ addrInUse w 0 = false ∧
    ((step w (.clientConnect 0)).bind fun w1 => (w1.conns[0]?).map (·.phase)) = some .refused :=
  ⟨_, reach_of_runB [.spawn .bind false (some 0), .call 0, .call 0, .call 0, .call 0,
      .spawn .doListen true none, .call 1, .call 1, .call 1, .call 1, .expire 1, .call 1, .call 1, .call 1] rfl,
    by decide, by decide, by decide, by decide⟩

/-- regression witness for the repaired defect (fix 9038523): with the OLD teardown — fields cleared, listener not
    closed — the same timeout history leaves the endpoint open: a later client is queued on a listener nobody will
    ever accept from, and the address stays in use. -/
example :
    ((run init [.spawn .bind false (some 0), .call 0, .call 0, .call 0, .call 0,
                .spawn .doListen true none, .call 1, .call 1, .call 1, .call 1, .expire 1, .call 1]).bind fun w =>
      (w.calls[1]?).bind fun c =>
        let w' := (teardownSharedOld w).setCall 1 { c with pc := .waiting }       -- OLD teardown
        (run w' [.call 1, .clientConnect 0]).map fun w2 =>
          ((w2.calls[1]?).map (fun c => (c.pc, c.ret)), isOpen w2 0, addrInUse w2 0, (w2.conns[0]?).map (·.phase))) =
    some (some (.returned, some .timeout), true, true, some .backlog) := by decide

/-- **Tie to the source**: the declarations of /repo that this property's model transliterates
    (`Extracted.codeNames_C15`) have, in the current working tree, exactly the fingerprints of the code the
    model was validated against. Any change to them breaks this obligation; the check then searches the
    correspondence streams for an input on which the changed code violates the property. -/
theorem modelled_code_unchanged : Varlink.Extracted.code_C15 = Varlink.ExpectedCode.code_C15 := by decide

/-- no declaration (function, method, type, constant, variable) has been added to or removed from the
    fingerprinted source files since the models were validated: a new method or `init` can change behaviour
    without touching the text of any existing declaration -/
theorem declarations_known : Varlink.Extracted.declarationSet = Varlink.ExpectedCode.declarationSet := by decide

end Varlink.C15
