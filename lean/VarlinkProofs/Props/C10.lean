/-
  C10 — the service survives arbitrary and aborted client byte streams.
  Stream part: `connLoop`/`decodeCall`/`handleCall` (lean/Varlink/Service.lean) over `splitOnNul`
  (lean/Varlink/Frame.lean). Resource part: the lifecycle transition system (lean/Varlink/Lifecycle.lean,
  theorems of Props/C14.lean) with a peer that closes or aborts at any moment.
  "Never crashes or hangs" for the modelled functions is by construction: they are total Lean functions
  (structural recursion); the Go-level part of that claim is what the correspondence run observes.
-/
import Varlink.Service
import Varlink.Frame
import Varlink.Lifecycle
import VarlinkProofs.Lemmas.Frame
import VarlinkProofs.Lemmas.LifecycleBasic
import VarlinkProofs.Props.C14
import Varlink.Extracted.Code
import Varlink.ExpectedCode
namespace Varlink.C10
open Varlink Varlink.Life

/-! ### what a byte stream means: complete frames only -/

/-- **An incomplete trailing frame is never dispatched** (and never answered): bytes after the last
    NUL change nothing in what the connection dispatches or writes. -/
theorem splitOnNul_append_tail (bs tail : Bytes) (hb : (splitOnNul bs).2 = []) (ht : (0 : UInt8) ∉ tail) :
    splitOnNul (bs ++ tail) = ((splitOnNul bs).1, tail) := by
  induction bs with
  | nil =>
    simp only [List.nil_append]
    have := (cutAt_none_iff 0 tail).mpr ht
    clear hb
    induction tail with
    | nil => rfl
    | cons c cs ih =>
      simp only [List.mem_cons, not_or] at ht
      have hc : ¬ c = 0 := fun e => ht.1 e.symm
      simp [splitOnNul, ih ht.2 ((cutAt_none_iff 0 cs).mpr ht.2), hc]
  | cons c cs ih =>
    simp only [List.cons_append, splitOnNul] at hb ⊢
    by_cases hc : c = 0
    · simp only [hc, if_true] at hb ⊢
      rw [ih hb]
    · simp only [hc, if_false] at hb ⊢
      cases hs : (splitOnNul cs).1 with
      | nil =>
        rw [hs] at hb
        simp at hb
      | cons f fs =>
        rw [hs] at hb
        simp only at hb
        rw [ih hb, hs]

theorem truncated_tail_never_dispatched (reg : Registry) (beh : Behaviour) (bs tail : Bytes)
    (hb : (splitOnNul bs).2 = []) (ht : (0 : UInt8) ∉ tail) :
    connLoop reg beh (splitOnNul (bs ++ tail)).1 = connLoop reg beh (splitOnNul bs).1 := by
  rw [splitOnNul_append_tail bs tail hb ht]

/-- **A frame that is not valid JSON, or not an object of the call's shape, is never dispatched and
    ends the connection without a reply**; nothing after it is dispatched either. -/
theorem bad_frame_ends_silently (reg : Registry) (beh : Behaviour) (f : Bytes) (fs : List Bytes)
    (h : decodeCall f = none) :
    (connLoop reg beh (f :: fs)).frames = [] ∧ (connLoop reg beh (f :: fs)).dispatched = [] ∧
    (connLoop reg beh (f :: fs)).handled = 0 ∧ (connLoop reg beh (f :: fs)).ending = .badFrame := by
  simp [connLoop, h]

/-- …also after any number of good calls: the trace is the trace of the good prefix, then the
    connection is closed; the rest of the stream has no effect at all. -/
theorem bad_frame_after_good_prefix (reg : Registry) (beh : Behaviour) (pre : List Bytes) (f : Bytes)
    (fs : List Bytes)
    (hpre : ∀ g ∈ pre, ∃ c, decodeCall g = some c ∧ (handleCall reg beh c).failed = false)
    (h : decodeCall f = none) :
    (connLoop reg beh (pre ++ f :: fs)).frames = (connLoop reg beh pre).frames ∧
    (connLoop reg beh (pre ++ f :: fs)).dispatched = (connLoop reg beh pre).dispatched ∧
    (connLoop reg beh (pre ++ f :: fs)).handled = (connLoop reg beh pre).handled ∧
    (connLoop reg beh (pre ++ f :: fs)).ending = .badFrame := by
  induction pre with
  | nil => simpa [connLoop] using bad_frame_ends_silently reg beh f fs h
  | cons g gs ih =>
    obtain ⟨c, hc, hnf⟩ := hpre g (by simp)
    have := ih (fun x hx => hpre x (by simp [hx]))
    simp only [List.cons_append, connLoop, hc, hnf, Bool.false_eq_true, if_false]
    exact ⟨by rw [this.1], by rw [this.2.1], by rw [this.2.2.1], this.2.2.2⟩

/-- every complete well-formed call before the first bad frame or handler failure is answered: the
    trace of a stream is the concatenation of the per-call outcomes, in order -/
theorem good_calls_answered_in_order (reg : Registry) (beh : Behaviour) (g : Bytes) (gs : List Bytes)
    (c : CallIn) (hc : decodeCall g = some c) (hnf : (handleCall reg beh c).failed = false) :
    (connLoop reg beh (g :: gs)).frames = (handleCall reg beh c).frames ++ (connLoop reg beh gs).frames ∧
    (connLoop reg beh (g :: gs)).dispatched = dispatchEntry (handleCall reg beh c) ++ (connLoop reg beh gs).dispatched := by
  simp [connLoop, hc, hnf]

/-- **The bare literal `null` decodes to an empty call and is answered like a call without method**:
    one InvalidParameter("method") reply, no dispatch, connection stays open. -/
theorem null_decodes_to_empty_call : (decodeCall (str "null")).isSome = true := by decide

theorem empty_call_answered_invalid_method (reg : Registry) (beh : Behaviour) :
    (handleCall reg beh {}).frames =
      [{ params := some (strObj (str "parameter") (str "method")), continues := false,
         error := str "org.varlink.service.InvalidParameter" }] ∧
    dispatchEntry (handleCall reg beh {}) = [] ∧ (handleCall reg beh {}).failed = false := by
  have hr : route (reg.ifaces.map (·.1)) ([] : Bytes) = .invalidMethod := by simp [route, lastIndexOf]
  have : (({} : CallIn).method) = [] := rfl
  unfold handleCall
  simp only [this, hr]
  simp [runActs, Call.step, sendMessage, StdErr.params, StdErr.name, scriptFails, dispatchEntry, ActResult.isErr]

/-! ### resources are released however the peer disappears -/

theorem run_append (w : World) (l1 l2 : List Label) :
    run w (l1 ++ l2) = (run w l1).bind fun w' => run w' l2 := by
  induction l1 generalizing w with
  | nil => simp [run]
  | cons a as ih =>
    simp only [List.cons_append, run]
    cases step w a with
    | none => simp
    | some w' => simpa using ih w'

/-- **After the peer aborts (or closes) while the handler waits for the next frame, the handler's own
    next four steps end the connection and count it out**: in the resulting reachable state the
    connection is `done` and the accounting invariant holds, so it no longer contributes to the active
    count or to the serving call's wait group — shutdown and the idle timeout (C14, C15) still apply. -/
theorem abort_releases {w : World} (h : Reachable w) {i : Nat} {x : Conn} (hi : w.conns[i]? = some x)
    (hp : x.phase = .reading) (hq : x.reqs = 0) (hc : x.cli = .open) :
    ∃ w4, run w [.clientAbort i, .handler i, .handler i, .handler i, .handler i] = some w4 ∧
      Reachable w4 ∧ (w4.conns[i]?).map (·.phase) = some .done ∧
      w4.counter = cnt cntd w4.conns := by
  obtain ⟨w1, hr1, hph1⟩ := (Varlink.C14.four_endings_reach_closing hi).2.1 hp hq hc
  have hreach1 : Reachable w1 := Reach.trans h (reach_of_run _ hr1)
  cases hx1 : w1.conns[i]? with
  | none => simp [hx1] at hph1
  | some x1 =>
    have hp1 : x1.phase = .closing := by simpa [hx1] using hph1
    obtain ⟨w3, _, _, hr3, hph3, _⟩ := Varlink.C14.exit_path_decrements_once hreach1 hx1 hp1
    have hreach3 : Reachable w3 := Reach.trans hreach1 (reach_of_run _ hr3)
    refine ⟨w3, ?_, hreach3, hph3, (Varlink.C14.accounted_once hreach3).1⟩
    have : [Label.clientAbort i, .handler i, .handler i, .handler i, .handler i] =
        [Label.clientAbort i, .handler i] ++ [.handler i, .handler i, .handler i] := rfl
    rw [this, run_append, hr1]
    simpa using hr3

/-- the same for an orderly close -/
theorem close_releases {w : World} (h : Reachable w) {i : Nat} {x : Conn} (hi : w.conns[i]? = some x)
    (hp : x.phase = .reading) (hq : x.reqs = 0) (hc : x.cli = .open) :
    ∃ w4, run w [.clientClose i, .handler i, .handler i, .handler i, .handler i] = some w4 ∧
      Reachable w4 ∧ (w4.conns[i]?).map (·.phase) = some .done ∧
      w4.counter = cnt cntd w4.conns := by
  obtain ⟨w1, hr1, hph1⟩ := (Varlink.C14.four_endings_reach_closing hi).1 hp hq hc
  have hreach1 : Reachable w1 := Reach.trans h (reach_of_run _ hr1)
  cases hx1 : w1.conns[i]? with
  | none => simp [hx1] at hph1
  | some x1 =>
    have hp1 : x1.phase = .closing := by simpa [hx1] using hph1
    obtain ⟨w3, _, _, hr3, hph3, _⟩ := Varlink.C14.exit_path_decrements_once hreach1 hx1 hp1
    have hreach3 : Reachable w3 := Reach.trans hreach1 (reach_of_run _ hr3)
    refine ⟨w3, ?_, hreach3, hph3, (Varlink.C14.accounted_once hreach3).1⟩
    have : [Label.clientClose i, .handler i, .handler i, .handler i, .handler i] =
        [Label.clientClose i, .handler i] ++ [.handler i, .handler i, .handler i] := rfl
    rw [this, run_append, hr1]
    simpa using hr3

/-- whatever state a handler is in when the peer has gone (mid-frame, mid-reply, idle), its own step is
    enabled and brings it strictly closer to `done` — it cannot hang (C14.handler_progress, restated) -/
theorem gone_peer_handler_progress {w : World} (h : Reachable w) {i : Nat} {x : Conn}
    (hi : w.conns[i]? = some x) (hc : x.cli ≠ .open) (hp : inWg x.phase = true) :
    ∃ w' x', step w (.handler i) = some w' ∧ w'.conns[i]? = some x' ∧
      Varlink.C14.handlerDist x' < Varlink.C14.handlerDist x :=
  let ⟨w', x', h1, h2, _, h4, _⟩ := Varlink.C14.handler_progress h hi hc hp
  ⟨w', x', h1, h2, h4⟩

/-! ### non-vacuity -/

example : (splitOnNul [1, 0, 2, 0]).2 = [] ∧ (0 : UInt8) ∉ [3, 4] := by decide
example : (decodeCall (str "[1]")).isNone = true := by decide

/-- **Tie to the source**: the declarations of /repo that this property's model transliterates
    (`Extracted.codeNames_C10`) have, in the current working tree, exactly the fingerprints of the code the
    model was validated against. Any change to them breaks this obligation; the check then searches the
    correspondence streams for an input on which the changed code violates the property. -/
theorem modelled_code_unchanged : Varlink.Extracted.code_C10 = Varlink.ExpectedCode.code_C10 := by decide

/-- no declaration (function, method, type, constant, variable) has been added to or removed from the
    fingerprinted source files since the models were validated: a new method or `init` can change behaviour
    without touching the text of any existing declaration -/
theorem declarations_known : Varlink.Extracted.declarationSet = Varlink.ExpectedCode.declarationSet := by decide

end Varlink.C10
