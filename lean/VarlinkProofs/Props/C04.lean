/-
  C04 — method routing and the standard error replies.
  Theorems about `Varlink.route`, `Varlink.handleCall`, `Varlink.connLoop` (lean/Varlink/Service.lean).
-/
import Varlink.Service
import VarlinkProofs.Lemmas.Basic
import Varlink.Extracted.Code
import Varlink.ExpectedCode
import Varlink.Client
import Varlink.JsonWF
import VarlinkProofs.Props.C03
namespace Varlink.C04
open Varlink

/-- a method string that splits at its last dot into a non-empty interface part and a name -/
theorem route_split {regs : List Bytes} {m : Bytes} {r : Nat}
    (h : lastIndexOf dot m = some (r + 1)) :
    route regs m =
      (if m.take (r + 1) = orgVarlinkService then Route.builtin (m.drop (r + 2))
       else if regs.contains (m.take (r + 1)) then Route.user (m.take (r + 1)) (m.drop (r + 2))
       else Route.notFound (m.take (r + 1))) := by
  unfold route; rw [h]

/-- Routing of a string with a known decomposition at its last dot. -/
theorem route_of_split (regs : List Bytes) (i n : Bytes) (hi : i ≠ []) (hn : dot ∉ n) :
    route regs (i ++ dot :: n) =
      (if i = orgVarlinkService then Route.builtin n
       else if regs.contains i then Route.user i n else Route.notFound i) := by
  have hl := lastIndexOf_of_split dot i n hn
  obtain ⟨k, hk⟩ : ∃ k, i.length = k + 1 := by
    cases i with
    | nil => exact absurd rfl hi
    | cons x xs => exact ⟨xs.length, rfl⟩
  rw [hk] at hl
  rw [route_split hl]
  have h1 : (i ++ dot :: n).take (k + 1) = i := by rw [← hk]; simp
  have h2 : (i ++ dot :: n).drop (k + 2) = n := by
    have := drop_append_length_succ i dot n
    rw [hk] at this; exact this
  rw [h1, h2]

/-- every method string is of exactly one of three shapes -/
theorem method_shape (m : Bytes) :
    dot ∉ m ∨ (∃ n, m = dot :: n ∧ dot ∉ n) ∨ (∃ i n, m = i ++ dot :: n ∧ i ≠ [] ∧ dot ∉ n) := by
  cases h : lastIndexOf dot m with
  | none => exact Or.inl ((lastIndexOf_none_iff dot m).mp h)
  | some k =>
    obtain ⟨hs, hn, hlt⟩ := lastIndexOf_some h
    cases k with
    | zero => right; left; exact ⟨m.drop 1, by simpa using hs, hn⟩
    | succ r =>
      right; right
      refine ⟨m.take (r + 1), m.drop (r + 1 + 1), hs, ?_, hn⟩
      intro he
      have : (m.take (r + 1)).length = r + 1 := by simp; omega
      rw [he] at this; simp at this

/-- **No interface part ⇒ InvalidParameter("method")**: no dot at all, or nothing before the only dot. -/
theorem route_invalid_iff (regs : List Bytes) (m : Bytes) :
    route regs m = .invalidMethod ↔ (dot ∉ m ∨ ∃ n, m = dot :: n ∧ dot ∉ n) := by
  constructor
  · intro h
    rcases method_shape m with h0 | h1 | ⟨i, n, rfl, hi, hn⟩
    · exact Or.inl h0
    · exact Or.inr h1
    · rw [route_of_split regs i n hi hn] at h
      split at h <;> (try split at h) <;> cases h
  · rintro (h | ⟨n, rfl, hn⟩)
    · unfold route; rw [(lastIndexOf_none_iff dot m).mpr h]
    · have := lastIndexOf_of_split dot [] n hn
      unfold route; simp at this; rw [this]

/-- **Delivery to a user interface** happens exactly when the part before the last dot is a
    registered name (and not the built-in one); the part after it is the method name handed over. -/
theorem route_user_iff (regs : List Bytes) (m i n : Bytes) :
    route regs m = .user i n ↔
      (m = i ++ dot :: n ∧ dot ∉ n ∧ i ≠ [] ∧ i ≠ orgVarlinkService ∧ i ∈ regs) := by
  constructor
  · intro h
    rcases method_shape m with h0 | h1 | ⟨i', n', rfl, hi, hn⟩
    · rw [(route_invalid_iff regs m).mpr (Or.inl h0)] at h; cases h
    · rw [(route_invalid_iff regs m).mpr (Or.inr h1)] at h; cases h
    · rw [route_of_split regs i' n' hi hn] at h
      split at h
      · cases h
      · rename_i hne
        split at h
        · rename_i hc
          cases h
          exact ⟨rfl, hn, hi, hne, by simpa using hc⟩
        · cases h
  · rintro ⟨rfl, hn, hi, hne, hmem⟩
    rw [route_of_split regs i n hi hn]
    simp [hne, hmem]

/-- **InterfaceNotFound carries exactly the interface part** and is produced exactly for
    unregistered, non-built-in interface parts. -/
theorem route_notFound_iff (regs : List Bytes) (m i : Bytes) :
    route regs m = .notFound i ↔
      ((∃ n, m = i ++ dot :: n ∧ dot ∉ n) ∧ i ≠ [] ∧ i ≠ orgVarlinkService ∧ i ∉ regs) := by
  constructor
  · intro h
    rcases method_shape m with h0 | h1 | ⟨i', n', rfl, hi, hn⟩
    · rw [(route_invalid_iff regs m).mpr (Or.inl h0)] at h; cases h
    · rw [(route_invalid_iff regs m).mpr (Or.inr h1)] at h; cases h
    · rw [route_of_split regs i' n' hi hn] at h
      split at h
      · cases h
      · rename_i hne
        split at h
        · cases h
        · rename_i hc
          cases h
          exact ⟨⟨n', rfl, hn⟩, hi, hne, by simpa using hc⟩
  · rintro ⟨⟨n, rfl, hn⟩, hi, hne, hmem⟩
    rw [route_of_split regs i n hi hn]
    simp [hne, hmem]

/-- **Built-in interface**: tested before the table, whatever is registered. -/
theorem route_builtin_iff (regs : List Bytes) (m n : Bytes) :
    route regs m = .builtin n ↔ (m = orgVarlinkService ++ dot :: n ∧ dot ∉ n) := by
  constructor
  · intro h
    rcases method_shape m with h0 | h1 | ⟨i', n', rfl, hi, hn⟩
    · rw [(route_invalid_iff regs m).mpr (Or.inl h0)] at h; cases h
    · rw [(route_invalid_iff regs m).mpr (Or.inr h1)] at h; cases h
    · rw [route_of_split regs i' n' hi hn] at h
      split at h
      · rename_i he; cases h; exact ⟨by rw [he], hn⟩
      · split at h <;> cases h
  · rintro ⟨rfl, hn⟩
    rw [route_of_split regs orgVarlinkService n (by decide) hn]
    simp

/-- The decision depends on the method string and the set of registered names only:
    registries with the same members route identically (order and duplicates are irrelevant). -/
theorem route_depends_on_membership (r1 r2 : List Bytes) (m : Bytes)
    (h : ∀ x, x ∈ r1 ↔ x ∈ r2) : route r1 m = route r2 m := by
  rcases method_shape m with h0 | h1 | ⟨i, n, rfl, hi, hn⟩
  · rw [(route_invalid_iff r1 m).mpr (Or.inl h0), (route_invalid_iff r2 m).mpr (Or.inl h0)]
  · rw [(route_invalid_iff r1 m).mpr (Or.inr h1), (route_invalid_iff r2 m).mpr (Or.inr h1)]
  · rw [route_of_split r1 i n hi hn, route_of_split r2 i n hi hn]
    have : r1.contains i = r2.contains i := by
      simp only [List.contains_eq_mem]; exact decide_eq_decide.mpr (h i)
    rw [this]

/-- **A registration takes effect for the very calls that were refused before it**: a method string answered
    InterfaceNotFound under one table is delivered to that interface, with the same method name, under every table
    that contains the interface. The decision is a function of the current table and the string; there is nothing in
    between that could remember the earlier answer (the seeded change C04n cached it; stream `history`, `reroute`). -/
theorem registration_takes_effect (regs regs' : List Bytes) (m i : Bytes)
    (h : route regs m = .notFound i) (hreg : i ∈ regs') :
    ∃ n, m = i ++ dot :: n ∧ route regs' m = .user i n := by
  obtain ⟨⟨n, hm, hn⟩, hi, hne, _⟩ := (route_notFound_iff regs m i).mp h
  exact ⟨n, hm, (route_user_iff regs' m i n).mpr ⟨hm, hn, hi, hne, hreg⟩⟩

example : route [] (str "a.b.M") = .notFound (str "a.b") ∧ route [str "a.b"] (str "a.b.M") = .user (str "a.b") (str "M") := by
  decide

/-! ### Exactly one reply, connection stays usable -/

theorem runActs_single_std (c : CallIn) (e : StdErr) :
    runActs c false [.replyStd e] =
      (if c.oneway then ([], [ActResult.suppressed])
       else ([{ params := some e.params, continues := false, error := e.name }], [ActResult.sent])) := by
  simp only [runActs, Call.step, sendMessage]
  split <;> simp

/-- the three error routes: one frame (none for a oneway call), the named standard error with its
    parameter, the handler path reports success so the connection loop continues -/
theorem error_routes_one_reply (reg : Registry) (beh : Behaviour) (c : CallIn) (hc : c.oneway = false) :
    (route (reg.ifaces.map (·.1)) c.method = .invalidMethod →
      (handleCall reg beh c).frames =
        [{ params := some (strObj (str "parameter") (str "method")), continues := false,
           error := str "org.varlink.service.InvalidParameter" }] ∧
      (handleCall reg beh c).failed = false) ∧
    (∀ i, route (reg.ifaces.map (·.1)) c.method = .notFound i →
      (handleCall reg beh c).frames =
        [{ params := some (strObj (str "interface") i), continues := false,
           error := str "org.varlink.service.InterfaceNotFound" }] ∧
      (handleCall reg beh c).failed = false) ∧
    (∀ n, route (reg.ifaces.map (·.1)) c.method = .builtin n →
      n ≠ str "GetInfo" → n ≠ str "GetInterfaceDescription" →
      (handleCall reg beh c).frames =
        [{ params := some (strObj (str "method") n), continues := false,
           error := str "org.varlink.service.MethodNotFound" }] ∧
      (handleCall reg beh c).failed = false) := by
  refine ⟨?_, ?_, ?_⟩
  · intro h
    simp only [handleCall, h, runActs_single_std, hc]
    simp [scriptFails, ActResult.isErr, StdErr.params, StdErr.name]
  · intro i h
    simp only [handleCall, h, runActs_single_std, hc]
    simp [scriptFails, ActResult.isErr, StdErr.params, StdErr.name]
  · intro n h h1 h2
    simp only [handleCall, h, builtinScript, h1, h2, if_false, runActs_single_std, hc]
    simp [scriptFails, ActResult.isErr, StdErr.params, StdErr.name]

/-- a oneway call on an error route writes nothing and keeps the connection -/
theorem error_routes_oneway_silent (reg : Registry) (beh : Behaviour) (c : CallIn) (hc : c.oneway = true)
    (h : route (reg.ifaces.map (·.1)) c.method = .invalidMethod ∨
         ∃ i, route (reg.ifaces.map (·.1)) c.method = .notFound i) :
    (handleCall reg beh c).frames = [] ∧ (handleCall reg beh c).failed = false := by
  rcases h with h | ⟨i, h⟩ <;>
  · simp only [handleCall, h, runActs_single_std, hc]
    simp [scriptFails, ActResult.isErr]

/-- **Dispatched exactly once**: the dispatch log of a call has one entry `(i, n)` for a user route
    and none otherwise. -/
theorem dispatched_exactly_once (reg : Registry) (beh : Behaviour) (c : CallIn) :
    (∀ i n, route (reg.ifaces.map (·.1)) c.method = .user i n →
      ∃ rs, dispatchEntry (handleCall reg beh c) = [(i, n, rs)]) ∧
    ((∀ i n, route (reg.ifaces.map (·.1)) c.method ≠ .user i n) →
      dispatchEntry (handleCall reg beh c) = []) := by
  constructor
  · intro i n h
    simp only [handleCall, h, dispatchEntry]
    exact ⟨_, rfl⟩
  · intro h
    unfold handleCall
    cases hr : route (reg.ifaces.map (·.1)) c.method with
    | user i n => exact absurd hr (h i n)
    | _ => simp [dispatchEntry]

/-- **Undecodable frames are never dispatched anywhere**: the loop stops at the frame, emits nothing
    for it and invokes no dispatcher, whatever follows. -/
theorem undecodable_never_dispatched (reg : Registry) (beh : Behaviour) (f : Bytes) (fs : List Bytes)
    (h : decodeCall f = none) :
    (connLoop reg beh (f :: fs)).frames = [] ∧ (connLoop reg beh (f :: fs)).dispatched = [] ∧
    (connLoop reg beh (f :: fs)).ending = .badFrame := by
  simp [connLoop, h]

/-- after a reply on an error route the loop goes on with the next frame -/
theorem loop_continues_after_error_reply (reg : Registry) (beh : Behaviour) (f : Bytes) (fs : List Bytes)
    (c : CallIn) (hd : decodeCall f = some c) (hf : (handleCall reg beh c).failed = false) :
    (connLoop reg beh (f :: fs)).frames = (handleCall reg beh c).frames ++ (connLoop reg beh fs).frames ∧
    (connLoop reg beh (f :: fs)).dispatched =
      dispatchEntry (handleCall reg beh c) ++ (connLoop reg beh fs).dispatched := by
  simp [connLoop, hd, hf]

/-! ### from the client's bytes to the dispatcher -/

/-- **A call written by the client's `Send` is delivered exactly where its method string says**: the
    service decodes the bytes to the same call and handles it by `route`; so the routing theorems above
    apply to what really travels (method, parameters — JSON-equal — and flags included). -/
theorem wire_call_routed (reg : Registry) (beh : Behaviour) (m : Bytes) (p : JVal) (more oneway upgrade : Bool)
    (hm : utf8Ok m = true) (hp : p.wf = true) (hnull : p ≠ .null) (hd : p.depth < maxDepth) :
    let c : CallIn := { method := m, params := some p, more := more, oneway := oneway, upgrade := upgrade }
    let t := connLoop reg beh [render (callObj m (some p) more oneway upgrade)]
    t.frames = (handleCall reg beh c).frames ∧ t.dispatched = dispatchEntry (handleCall reg beh c) ∧
    (handleCall reg beh c).route = route (reg.ifaces.map (·.1)) m := by
  have hdec := Varlink.C03.call_roundtrip m p more oneway upgrade hm hp hnull hd
  refine ⟨?_, ?_, ?_⟩
  · simp only [connLoop, hdec]; split <;> simp
  · simp only [connLoop, hdec]; split <;> simp
  · unfold handleCall; simp only []; split <;> simp_all

/-! ### Non-vacuity: concrete instances of the hypotheses above -/

example : route [str "org.example.a", str "org.example"] (str "org.example.a.Ping")
    = .user (str "org.example.a") (str "Ping") := by decide
example : route [str "org.example"] (str "org.example.a.Ping") = .notFound (str "org.example.a") := by decide
example : route [str "org.example"] (str "Ping") = .invalidMethod := by decide
example : route [str "org.example"] (str ".Ping") = .invalidMethod := by decide
example : route [str "org.varlink.service"] (str "org.varlink.service.Nope") = .builtin (str "Nope") := by decide

/-- **Tie to the source**: the declarations of /repo that this property's model transliterates
    (`Extracted.codeNames_C04`) have, in the current working tree, exactly the fingerprints of the code the
    model was validated against. Any change to them breaks this obligation; the check then searches the
    correspondence streams for an input on which the changed code violates the property. -/
theorem modelled_code_unchanged : Varlink.Extracted.code_C04 = Varlink.ExpectedCode.code_C04 := by decide

/-- no declaration (function, method, type, constant, variable) has been added to or removed from the
    fingerprinted source files since the models were validated: a new method or `init` can change behaviour
    without touching the text of any existing declaration -/
theorem declarations_known : Varlink.Extracted.declarationSet = Varlink.ExpectedCode.declarationSet := by decide

end Varlink.C04
