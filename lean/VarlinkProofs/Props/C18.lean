/-
  C18 — upgraded connections continue the byte stream without loss.
  `runOps` interleaves delimiter-terminated frame reads and raw reads (lean/Varlink/Frame.lean);
  `ReadPath` (which object the raw `Read` uses) is regenerated from ctxio/conn.go.
-/
import Varlink.Frame
import Varlink.Extracted.Ctxio
import VarlinkProofs.Lemmas.Frame
import Varlink.Extracted.Code
import Varlink.ExpectedCode
namespace Varlink.C18
open Varlink

theorem rawRead_buffered_conserves (cap : Nat) (hcap : cap > 0) (n : Nat) (hn : n > 0) (b : Bufio) (net : Net) :
    match rawRead cap .buffered n b net with
    | (some a, b', net') => a ++ pending b' net' = pending b net
    | (none, b', net') => pending b net = [] ∧ pending b' net' = [] := by
  unfold rawRead
  simp only []
  by_cases he : b.buf.isEmpty
  · have hb : b.buf = [] := by simpa using he
    simp only [he, if_true]
    by_cases hnc : n ≥ cap
    · simp only [hnc, if_true]
      cases hr : netRead n net with
      | none => simp [pending, hb, netRead_none hr]
      | some an =>
        obtain ⟨a, net'⟩ := an
        have := (netRead_some hn hr).1
        simp [pending, hb, this]
    · simp only [hnc, if_false]
      cases hr : netRead cap net with
      | none => simp [pending, hb, netRead_none hr]
      | some an =>
        obtain ⟨a, net'⟩ := an
        have := (netRead_some hcap hr).1
        simp only [pending, hb, List.nil_append]
        rw [← this, ← List.append_assoc, List.take_append_drop]
  · have he' : b.buf.isEmpty = false := by simpa using he
    simp only [he', pending]
    simp
    rw [← List.append_assoc, List.take_append_drop]

/-- a raw read with a non-empty destination returns data whenever any is pending in the buffer:
    bytes that arrived in the same segment as the preceding frame are the very next bytes returned -/
theorem rawRead_buffered_serves_buffer_first (cap n : Nat) (b : Bufio) (net : Net) (h : b.buf ≠ []) :
    (rawRead cap .buffered n b net).1 = some (b.buf.take n) ∧ (rawRead cap .buffered n b net).2.2 = net := by
  have : b.buf.isEmpty = false := by cases hb : b.buf <;> simp_all
  simp [rawRead, this]

/-- **exactly once, in order**: for every interleaving of frame reads and raw reads (of any
    positive sizes), every stream and every segmentation of it, the concatenation of everything
    the operations returned, followed by what is still pending, is the original stream. -/
theorem stream_exactly_once (cap : Nat) (hcap : cap > 0) (ops : List ROp)
    (hops : ∀ n, ROp.raw n ∈ ops → n > 0) (b : Bufio) (net : Net) :
    (runOps cap .buffered ops b net).1.flatten ++
      pending (runOps cap .buffered ops b net).2.1 (runOps cap .buffered ops b net).2.2 = pending b net := by
  induction ops generalizing b net with
  | nil => simp [runOps]
  | cons op ops ih =>
    have hops' : ∀ n, ROp.raw n ∈ ops → n > 0 := fun n hn => hops n (List.mem_cons_of_mem _ hn)
    cases op with
    | frame =>
      simp only [runOps]
      have spec := readBytes_spec cap hcap 0 (readFuel b net) [] b net (readFuel_enough b net)
      cases hc : cutAt 0 (pending b net) with
      | none =>
        rw [spec.2 hc]
        simp only []
        have := ih hops' { buf := [] } []
        simp only [pending, List.flatten_nil, List.append_nil] at this
        simp only [List.flatten_cons, List.nil_append, List.append_assoc]
        simp only [pending] at this ⊢
        rw [this]; simp
      | some pq =>
        obtain ⟨pre, post⟩ := pq
        obtain ⟨b', net', hr, hp⟩ := spec.1 pre post hc
        rw [hr]
        simp only []
        have := ih hops' b' net'
        simp only [List.flatten_cons, List.nil_append, List.append_assoc]
        rw [this, hp]
        have := (cutAt_spec hc).1
        rw [this]; simp
    | raw n =>
      have hn : n > 0 := hops n (List.mem_cons_self ..)
      simp only [runOps]
      have cons := rawRead_buffered_conserves cap hcap n hn b net
      cases hr : rawRead cap .buffered n b net with
      | mk o rest =>
        obtain ⟨b', net'⟩ := rest
        rw [hr] at cons
        cases o with
        | some a =>
          simp only [] at cons ⊢
          have := ih hops' b' net'
          simp only [List.flatten_cons, List.append_assoc]
          rw [this, cons]
        | none =>
          simp only [] at cons ⊢
          have := ih hops' b' net'
          simp only [List.flatten_cons, List.nil_append]
          rw [this, cons.2, cons.1]

/-- what is returned is a prefix of what the peer sent: nothing invented, nothing reordered -/
theorem outputs_are_prefix (cap : Nat) (hcap : cap > 0) (ops : List ROp)
    (hops : ∀ n, ROp.raw n ∈ ops → n > 0) (net : Net) :
    (runOps cap .buffered ops {} net).1.flatten <+: net.flatten := by
  have := stream_exactly_once cap hcap ops hops {} net
  simp only [pending, List.nil_append] at this
  exact ⟨_, this⟩

/-- the result does not depend on the segmentation as far as the delivered stream is concerned:
    two segmentations of the same stream deliver the same bytes in total -/
theorem independent_of_segmentation_total (cap : Nat) (hcap : cap > 0) (ops : List ROp)
    (hops : ∀ n, ROp.raw n ∈ ops → n > 0) (net1 net2 : Net) (h : net1.flatten = net2.flatten) :
    (runOps cap .buffered ops {} net1).1.flatten ++
        pending (runOps cap .buffered ops {} net1).2.1 (runOps cap .buffered ops {} net1).2.2 =
    (runOps cap .buffered ops {} net2).1.flatten ++
        pending (runOps cap .buffered ops {} net2).2.1 (runOps cap .buffered ops {} net2).2.2 := by
  rw [stream_exactly_once cap hcap ops hops, stream_exactly_once cap hcap ops hops]
  simp [pending, h]

/-- **tie to the source (regenerated on every run)**: both read primitives of ctxio.Conn go through
    the same `bufio.Reader`, i.e. the code is an instance of `ReadPath.buffered`, the path the
    theorems above are about. -/
theorem raw_read_uses_the_buffered_reader :
    Varlink.Extracted.ctxioReadTarget = ("reader", "Read") ∧
    Varlink.Extracted.ctxioReadBytesTarget = ("reader", "ReadBytes") := by decide

/-- **the defect of the unrepaired code, as a theorem about its model**: when the raw `Read` goes to
    the underlying connection directly, payload coalesced with the preceding frame is lost.
    (kept as the witness that `ReadPath.direct` violates the property; replayed on the
    implementation by the correspondence corpus) -/
theorem direct_path_loses_coalesced_payload :
    (runOps 4096 .direct [.frame, .raw 4] {} [[1, 0, 7, 7], [9]]).1 = [[1, 0], [9]] := by decide

/-- …while the buffered path delivers it -/
theorem buffered_path_delivers_coalesced_payload :
    (runOps 4096 .buffered [.frame, .raw 4] {} [[1, 0, 7, 7], [9]]).1 = [[1, 0], [7, 7]] := by decide

/-- **Tie to the source**: the declarations of /repo that this property's model transliterates
    (`Extracted.codeNames_C18`) have, in the current working tree, exactly the fingerprints of the code the
    model was validated against. Any change to them breaks this obligation; the check then searches the
    correspondence streams for an input on which the changed code violates the property. -/
theorem modelled_code_unchanged : Varlink.Extracted.code_C18 = Varlink.ExpectedCode.code_C18 := by decide

/-- no declaration (function, method, type, constant, variable) has been added to or removed from the
    fingerprinted source files since the models were validated: a new method or `init` can change behaviour
    without touching the text of any existing declaration -/
theorem declarations_known : Varlink.Extracted.declarationSet = Varlink.ExpectedCode.declarationSet := by decide

end Varlink.C18
