/-
  C08 — the generated stubs are a faithful typed binding of the description.

  Theorems about the model of the generated code's run-time behaviour (lean/Varlink/Stub.lean), which every
  run of the `stub` stream compares with real generator output compiled, linked and run against the real
  `varlink.Service` (harness/stub.go). All functions carry a fuel argument (`bigFuel` in the compiled driver);
  the theorems hold for every fuel, the same on both sides.
-/
import VarlinkProofs.Lemmas.Stub
import VarlinkProofs.Lemmas.Basic
import Varlink.Extracted.Code
import Varlink.ExpectedCode
namespace Varlink.C08
open Varlink Varlink.Idl Varlink.Gen Varlink.Stub

/-- sample: `interface a.b / type T (x: ?int, l: []T) / method M(t: T, s: string) -> (r: ?T) / error E (why: string)` -/
def sample : Idl :=
  { name := str "a.b", doc := [], description := [],
    members := [
      .alias (str "T") [] (.struct (.typed (str "x") (.maybe .int) (.typed (str "l") (.array (.named (str "T"))) .nil))),
      .method (str "M") []
        (.struct (.typed (str "t") (.named (str "T")) (.typed (str "s") .string .nil)))
        (.struct (.typed (str "r") (.maybe (.named (str "T"))) .nil)),
      .error (str "E") [] (some (.struct (.typed (str "why") .string .nil)))] }

/-- a value of `T`: `{x: 5, l: [{x: absent, l: []}]}` -/
def sampleT : Val :=
  .struct (.cons (.some (.int 5)) (.cons (.list (.cons (.struct (.cons .none (.cons (.list .nil) .nil))) .nil)) .nil))

/-! ## values survive the wire -/

/-- **decode_encode**: a well-typed value of any description type (aliases, also recursive ones through `?`, `[]`,
    `[string]`) that `json.Marshal` of the generated tagged type encodes as `j` is what `json.Unmarshal` of `j`
    into that type yields. Hypothesis: field names of every struct pairwise distinct (C07's domain). -/
theorem decode_encode (al : Aliases) (hal : AliasesOk al) (f : Nat) (ty : Ty) (v : Val) (j : JVal)
    (hd : tyFieldsDistinct ty = true) (ht : hasTypeF al f ty v = true) (he : encodeF al f ty v = some j) :
    decodeF al f ty j = some v :=
  (roundTrip al hal f).1 ty v j hd ht he

/-- the hypotheses are satisfiable by a nested value of a recursive alias: typing and encoding -/
example : hasTypeF (aliasesOf sample) 20 (.named (str "T")) sampleT = true
    ∧ encodeF (aliasesOf sample) 20 (.named (str "T")) sampleT
        = some (.obj (.cons (str "x") (.num (str "5")) (.cons (str "l")
            (.arr (.cons (.obj (.cons (str "l") (.arr .nil) .nil)) .nil)) .nil))) :=
  ⟨by decide, rfl⟩

/-- what is excluded: a present optional whose content is a nil array encodes as `null` and comes back absent -/
example : encodeF [] 5 (.maybe (.array .int)) (.some .nilList) = some .null
    ∧ decodeF [] 5 (.maybe (.array .int)) .null = some .none
    ∧ hasTypeF [] 5 (.maybe (.array .int)) (.some .nilList) = false := ⟨rfl, rfl, by decide⟩

/-- `strconv.ParseInt(strconv.FormatInt(i)) = i` on the whole int64 range -/
theorem int_roundtrip (i : Int) (h : inInt64 i = true) : parseInt64 (intLit i) = some i := parseInt64_intLit i h

example : parseInt64 (intLit (-9223372036854775808)) = some (-9223372036854775808)
    ∧ parseInt64 (str "9223372036854775808") = none ∧ parseInt64 (str "1e2") = none := by decide

/-! ## the call on the wire -/

/-- the keys of an encoded struct: the names of the fields that are not omitted (`?T` fields holding nil) -/
def presentNames : Fields → ValList → List Bytes
  | .typed n t r, .cons v vs => if t.isMaybe && v.beq .none then presentNames r vs else n :: presentNames r vs
  | _, _ => []

theorem encodeFields_keys_exact (al : Aliases) : ∀ (f : Nat) (fs : Fields) (vs : ValList) (ms : JMembers),
    encodeFieldsF al f fs vs = some ms → JMembers.keys ms = presentNames fs vs
  | 0, _, _, _, h => by simp [encodeFieldsF] at h
  | f + 1, fs, vs, ms, h => by
    cases fs with
    | nil => cases vs <;> simp [encodeFieldsF] at h; subst h; rfl
    | bare => cases vs <;> simp [encodeFieldsF] at h
    | typed n t r =>
      cases vs with
      | nil => simp [encodeFieldsF] at h
      | cons v vs' =>
        simp only [encodeFieldsF] at h
        split at h
        · rename_i a b ha hb
          have ih := encodeFields_keys_exact al f r vs' b hb
          split at h
          · rename_i hc
            injection h with h; subst h
            simp [presentNames, hc, ih]
          · rename_i hc
            injection h with h; subst h
            simp [presentNames, hc, ih, JMembers.keys]
        · exact absurd h (by simp)

/-- **call_on_wire**: calling the generated client method puts on the wire the call object whose method is
    `<interface>.<Method>`, whose `parameters` is the object with exactly the description's field names (absent
    optionals omitted) and the values encoded per the mapping, and whose flags are the flags passed to the stub -/
theorem call_on_wire (t : Idl) (f : Nat) (m : MethodSig) (args : ValList) (fl : Flags) (j : JVal)
    (h1 : ¬(fl.more = true ∧ fl.oneway = true)) (h2 : ¬(fl.more = true ∧ fl.upgrade = true))
    (hne : m.ins.isNil = false) (he : encodeF (aliasesOf t) (f + 1) (.struct m.ins) (.struct args) = some j) :
    stubCall t (f + 1) m args fl
      = .written (callObj (joinDot t.name m.name) (some j) fl.more fl.oneway fl.upgrade)
    ∧ ∃ ms, j = .obj ms ∧ JMembers.keys ms = presentNames m.ins args := by
  constructor
  · have a : (fl.more && fl.oneway) = false := by
      cases hm : fl.more <;> cases ho : fl.oneway <;> simp_all
    have b : (fl.more && fl.upgrade) = false := by
      cases hm : fl.more <;> cases ho : fl.upgrade <;> simp_all
    simp [stubCall, send, payloadOf, hne, he, a, b]
  · simp only [encodeF, Option.map_eq_some_iff] at he
    obtain ⟨ms, hms, rfl⟩ := he
    exact ⟨ms, rfl, encodeFields_keys_exact _ f m.ins args ms hms⟩

/-- a method without input fields is called with no `parameters` member -/
theorem call_on_wire_noargs (t : Idl) (f : Nat) (m : MethodSig) (args : ValList) (fl : Flags)
    (h1 : ¬(fl.more = true ∧ fl.oneway = true)) (h2 : ¬(fl.more = true ∧ fl.upgrade = true))
    (hnil : m.ins.isNil = true) :
    stubCall t f m args fl = .written (callObj (joinDot t.name m.name) none fl.more fl.oneway fl.upgrade) := by
  have a : (fl.more && fl.oneway) = false := by
    cases hm : fl.more <;> cases ho : fl.oneway <;> simp_all
  have b : (fl.more && fl.upgrade) = false := by
    cases hm : fl.more <;> cases ho : fl.upgrade <;> simp_all
  simp [stubCall, send, payloadOf, hnil, a, b]

/-- **flags pass through**: the `more` / `oneway` / `upgrade` members of the call object are the stub's flags -/
theorem flags_pass_through (method : Bytes) (p : Option JVal) (more oneway upgrade : Bool) :
    callObj method p more oneway upgrade =
      .obj (.cons (str "method") (.str method)
        (let tail := boolMember (str "more") more (boolMember (str "oneway") oneway
            (boolMember (str "upgrade") upgrade .nil))
         match p with
         | none => tail
         | some v => .cons (str "parameters") v tail)) := rfl

/-! ## the dispatcher -/

/-- **dispatcher delivers equal values**: when the parameters of the call are the encoding of well-typed
    arguments, the generated dispatcher hands exactly these arguments to the implementation -/
theorem dispatch_delivers (t : Idl) (hal : AliasesOk (aliasesOf t)) (f : Nat) (m : MethodSig) (args : ValList)
    (c : CallIn) (j : JVal) (hm : findMethod t m.name = some m)
    (hd : tyFieldsDistinct (.struct m.ins) = true)
    (ht : hasTypeF (aliasesOf t) f (.struct m.ins) (.struct args) = true)
    (he : encodeF (aliasesOf t) f (.struct m.ins) (.struct args) = some j) (hp : c.params = some j)
    (hne : m.ins.isNil = false) :
    dispatch t f m.name c = .deliver m args := by
  have := decode_encode (aliasesOf t) hal f (.struct m.ins) (.struct args) j hd ht he
  simp [dispatch, hm, hne, hp, this]

/-- a method without inputs is delivered whatever the parameters are -/
theorem dispatch_noargs (t : Idl) (f : Nat) (m : MethodSig) (c : CallIn) (hm : findMethod t m.name = some m)
    (hnil : m.ins.isNil = true) : dispatch t f m.name c = .deliver m .nil := by
  simp [dispatch, hm, hnil]

/-- **unknown ⇒ MethodNotFound** -/
theorem unknown_method (t : Idl) (f : Nat) (impl : MethodSig → ValList → CallIn → Option Script)
    (i method : Bytes) (c : CallIn) (h : findMethod t method = none) :
    (behaviour t f impl i method c).acts = [.replyStd (.methodNotFound method)]
    ∧ (behaviour t f impl i method c).returnsError = false := by
  simp [behaviour, dispatch, h]

/-- **undecodable ⇒ InvalidParameter("parameters")**: parameters absent although the method has inputs, or not
    decodable into the generated input struct -/
theorem undecodable_parameters (t : Idl) (f : Nat) (impl : MethodSig → ValList → CallIn → Option Script)
    (i : Bytes) (m : MethodSig) (c : CallIn) (hm : findMethod t m.name = some m) (hne : m.ins.isNil = false)
    (h : c.params = none ∨ ∃ j, c.params = some j ∧ decodeF (aliasesOf t) f (.struct m.ins) j = none) :
    (behaviour t f impl i m.name c).acts = [.replyStd (.invalidParameter (str "parameters"))] := by
  rcases h with h | ⟨j, hj, hdec⟩
  · simp [behaviour, dispatch, hm, hne, h]
  · simp [behaviour, dispatch, hm, hne, hj, hdec]

example : decodeF [] 3 (.struct (.typed (str "a") .int .nil)) (.obj (.cons (str "a") (.num (str "1.5")) .nil)) = none :=
  rfl

/-- **not overridden ⇒ MethodNotImplemented(<interface>.<Method>)** -/
theorem not_overridden (t : Idl) (f : Nat) (impl : MethodSig → ValList → CallIn → Option Script)
    (i : Bytes) (m : MethodSig) (args : ValList) (c : CallIn)
    (hd : dispatch t f m.name c = .deliver m args) (hi : impl m args c = none) :
    (behaviour t f impl i m.name c).acts = [.replyStd (.methodNotImplemented (joinDot t.name m.name))] := by
  simp [behaviour, hd, hi]

/-- an overridden method runs the implementation with the delivered arguments -/
theorem overridden (t : Idl) (f : Nat) (impl : MethodSig → ValList → CallIn → Option Script)
    (i : Bytes) (m : MethodSig) (args : ValList) (c : CallIn) (s : Script)
    (hd : dispatch t f m.name c = .deliver m args) (hi : impl m args c = some s) :
    behaviour t f impl i m.name c = s := by
  simp [behaviour, hd, hi]

/-! ## replies and errors -/

/-- **reply round trip**: what `Reply<M>(outs…)` passes as parameters, received as a reply, makes the client stub
    return exactly `outs` (and the `continues` flag of the reply) -/
theorem reply_roundtrip (t : Idl) (hal : AliasesOk (aliasesOf t)) (f : Nat) (m : MethodSig) (outs : ValList)
    (j : JVal) (cont : Bool) (hd : tyFieldsDistinct (.struct m.outs) = true)
    (ht : hasTypeF (aliasesOf t) f (.struct m.outs) (.struct outs) = true)
    (he : encodeF (aliasesOf t) f (.struct m.outs) (.struct outs) = some j) (hne : m.outs.isNil = false) :
    replyAct t f m outs = .reply (.val j)
    ∧ stubResult t f m (.reply (some j) cont) = .values outs cont := by
  have := decode_encode (aliasesOf t) hal f (.struct m.outs) (.struct outs) j hd ht he
  constructor
  · simp [replyAct, payloadOf, hne, he]
  · simp [stubResult, hne, this]

/-- **error round trip**: what `Reply<E>(fields…)` sends — the error name `<interface>.<E>` and the encoded
    parameters — makes the client's `Dispatch_Error` return the generated error type `E` with equal fields -/
theorem error_roundtrip (t : Idl) (hal : AliasesOk (aliasesOf t)) (f : Nat) (e : Bytes) (fs : Fields)
    (vs : ValList) (j : JVal) (hfind : findError t e = some fs) (hdot : dot ∉ e) (hname : t.name ≠ [])
    (hnot : t.name ≠ orgVarlinkService)
    (hd : tyFieldsDistinct (.struct fs) = true)
    (ht : hasTypeF (aliasesOf t) f (.struct fs) (.struct vs) = true)
    (he : encodeF (aliasesOf t) f (.struct fs) (.struct vs) = some j) :
    errorAct t f e fs vs = .replyError (joinDot t.name e) (.val j)
    ∧ clientError t f (joinDot t.name e) (some j) = .typedError e vs := by
  have hdec := decode_encode (aliasesOf t) hal f (.struct fs) (.struct vs) j hd ht he
  constructor
  · simp [errorAct, he]
  · have hl := lastIndexOf_of_split dot t.name e hdot
    obtain ⟨k, hk⟩ : ∃ k, t.name.length = k + 1 := by
      cases h : t.name with
      | nil => exact absurd h hname
      | cons x xs => exact ⟨xs.length, rfl⟩
    have h1 : (joinDot t.name e).take (k + 1) = t.name := by
      rw [← hk]; simp [joinDot]
    have h2 : (joinDot t.name e).drop (k + 2) = e := by
      have := drop_append_length_succ t.name dot e
      rw [hk] at this; exact this
    have hstd : dispatchError (joinDot t.name e) (some j) = .remoteError (joinDot t.name e) (some j) := by
      have hne : ∀ s : Bytes, (∃ x, s = joinDot orgVarlinkService x ∧ dot ∉ x) → joinDot t.name e ≠ s := by
        intro s ⟨x, hs, hx⟩ heq
        rw [hs] at heq
        have a := lastIndexOf_of_split dot t.name e hdot
        have b := lastIndexOf_of_split dot orgVarlinkService x hx
        simp only [joinDot] at heq
        rw [heq] at a
        rw [a] at b
        have hlen : t.name.length = orgVarlinkService.length := by injection b
        have := List.append_inj_left heq hlen
        exact hnot this
      have n1 := hne (str "org.varlink.service.InterfaceNotFound") ⟨str "InterfaceNotFound", by decide, by decide⟩
      have n2 := hne (str "org.varlink.service.MethodNotFound") ⟨str "MethodNotFound", by decide, by decide⟩
      have n3 := hne (str "org.varlink.service.MethodNotImplemented") ⟨str "MethodNotImplemented", by decide, by decide⟩
      have n4 := hne (str "org.varlink.service.InvalidParameter") ⟨str "InvalidParameter", by decide, by decide⟩
      simp [dispatchError, n1, n2, n3, n4]
    unfold clientError
    rw [hstd]
    simp only [joinDot] at hl h1 h2 ⊢
    rw [hk] at hl
    simp [hl, h1, h2, hfind, hdec]

/-- **Tie to the source**: the declarations of /repo that this property's model transliterates
    (`Extracted.codeNames_C08`) have, in the current working tree, exactly the fingerprints of the code the
    model was validated against. Any change to them breaks this obligation; the check then searches the
    correspondence streams for an input on which the changed code violates the property. -/
theorem modelled_code_unchanged : Varlink.Extracted.code_C08 = Varlink.ExpectedCode.code_C08 := by decide

/-- no declaration (function, method, type, constant, variable) has been added to or removed from the
    fingerprinted source files since the models were validated: a new method or `init` can change behaviour
    without touching the text of any existing declaration -/
theorem declarations_known : Varlink.Extracted.declarationSet = Varlink.ExpectedCode.declarationSet := by decide

end Varlink.C08
