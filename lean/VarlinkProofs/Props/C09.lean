/-
  C09 — the IDL parser is total: every input yields a tree or an error.

  The model `Varlink.Idl.New` (lean/Varlink/Idl/Parser.lean) is a transliteration of idl.go in which
    * every slice expression `input[a:b]` / index `input[i]` is guarded exactly as the Go runtime guards it and
      yields the explicit outcome `.panic` when out of range ("never panics, never indexes out of range"),
    * every loop and the recursion readType ↔ readStructType runs on fuel that `New` computes from the length of
      the input (`len + 1` per scanning loop, `len + 2` for the member loop, `4·len + 8` per type) and yields
      the explicit outcome `.outOfFuel` when exhausted ("never hangs": the number of steps is linear in `len`).
  (`peek`, the look-ahead of `readError`, indexes only below `len(input)` by its loop condition and is modelled by
  structural recursion over the remaining input: it has neither outcome.)
  `New_total` shows that neither outcome is ever produced. The proof (VarlinkProofs/Lemmas/IdlTotal.lean) carries
  the invariant `rest.length + pos = len ∧ lineStart ≤ pos` to every reader entry and uses the remaining input
  as the measure for the fuel. Stack depth is not modelled (Go grows stacks dynamically); the 64 KiB bound of the
  property enters only there.
-/
import Varlink.Idl.Parser
import VarlinkProofs.Lemmas.IdlTotal
import Varlink.Extracted.Code
import Varlink.ExpectedCode
namespace Varlink.C09
open Varlink Varlink.Idl

/-- **Totality**: for every byte string the parser model neither panics (no slice or index out of range) nor runs
    out of its linear fuel (no hang). -/
theorem New_total (s : Bytes) : New s ≠ .panic ∧ New s ≠ .outOfFuel :=
  (New_sat s).ne_panic

/-- … hence it returns a tree or an error. -/
theorem New_tree_or_error (s : Bytes) : (∃ t, New s = .ok t) ∨ (∃ e, New s = .err e) := by
  have h := New_total s
  cases hn : New s with
  | ok t => exact Or.inl ⟨t, rfl⟩
  | err e => exact Or.inr ⟨e, rfl⟩
  | panic => exact absurd hn h.1
  | outOfFuel => exact absurd hn h.2

/-- The fuel is linear in the input length. -/
theorem fuel_linear (input : Bytes) :
    typeFuel (initSt input) = 4 * input.length + 8 ∧ (initSt input).len + 1 = input.length + 1 :=
  ⟨rfl, rfl⟩

/-- The skipping of whitespace and comments alone is total from every reachable state, whatever the pending
    documentation: the comment branch (the site of the panics of the pinned commit) keeps every slice in range. -/
theorem advance_total (s : St) (h : WF s) : advance s ≠ .panic ∧ advance s ≠ .outOfFuel :=
  (advance_sat h).ne_panic

/-- The recursive type reader is total from every reachable state with the fuel `New` hands to it, and a
    type it returns leaves the cursor inside the input. -/
theorem readType_total (s : St) (h : WF s) :
    readType (typeFuel s) s ≠ .panic ∧ readType (typeFuel s) s ≠ .outOfFuel ∧
    ∀ t s', readType (typeFuel s) s = .ok (some t, s') → s'.pos ≤ s'.len := by
  have hs := readType_sat h
  refine ⟨hs.ne_panic.1, hs.ne_panic.2, ?_⟩
  intro t s' he
  rw [he] at hs
  have := (TyPost.wf_of_some hs).1.1
  omega

/-! ### regression witnesses (inputs on which the pinned commit panicked), evaluated by the kernel -/

/-- `"#"` -/
theorem New_hash : (New [35]).tag = 1 := by decide +kernel
/-- `"# c"` -/
theorem New_hash_c : (New (str "# c")).tag = 1 := by decide +kernel
/-- `"interface a.b\nmethod # x"` -/
theorem New_comment_at_eof : (New (str "interface a.b\nmethod # x")).tag = 1 := by decide +kernel
/-- `"interface # c"` -/
theorem New_interface_comment : (New (str "interface # c")).tag = 1 := by decide +kernel
/-- a comment without newline behind a complete description is accepted -/
theorem New_final_comment : (New (str "interface a.b\nmethod F()->()#")).tag = 0 := by decide +kernel

/-- the look-ahead of `readError` at the end of the input: right behind the name, inside a comment, behind `#` -/
theorem New_error_name_at_eof : (New (str "interface a.b\nmethod F()->()\nerror E")).tag = 0 ∧
    (New (str "interface a.b\nmethod F()->()\nerror E # c")).tag = 0 ∧
    (New (str "interface a.b\nmethod F()->()\nerror E\n#")).tag = 0 ∧
    (New (str "interface a.b\nmethod F()->()\nerror E\n(")).tag = 1 := by
  refine ⟨?_, ?_, ?_, ?_⟩ <;> decide +kernel

/-! ### non-vacuity: both outcomes occur -/
example : ∃ t, New (str "interface a.b\nmethod F(a: ?[]int) -> ()") = .ok t := by
  have h : (New (str "interface a.b\nmethod F(a: ?[]int) -> ()")).tag = 0 := by decide +kernel
  cases hn : New (str "interface a.b\nmethod F(a: ?[]int) -> ()") with
  | ok t => exact ⟨t, rfl⟩
  | _ => rw [hn] at h; cases h
example : (New (str "interface a.b\nmethod F(")).errOf = some .missingMethodInput := by decide +kernel
example : WF (initSt (str "interface a.b")) := initSt_wf _

/-- **Tie to the source**: the declarations of /repo that this property's model transliterates
    (`Extracted.codeNames_C09`) have, in the current working tree, exactly the fingerprints of the code the
    model was validated against. Any change to them breaks this obligation; the check then searches the
    correspondence streams for an input on which the changed code violates the property. -/
theorem modelled_code_unchanged : Varlink.Extracted.code_C09 = Varlink.ExpectedCode.code_C09 := by decide

/-- no declaration (function, method, type, constant, variable) has been added to or removed from the
    fingerprinted source files since the models were validated: a new method or `init` can change behaviour
    without touching the text of any existing declaration -/
theorem declarations_known : Varlink.Extracted.declarationSet = Varlink.ExpectedCode.declarationSet := by decide

end Varlink.C09
