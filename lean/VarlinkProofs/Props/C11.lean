/-
  C11 — the client decodes exactly what was sent and fails cleanly otherwise.
  Model: lean/Varlink/Client.lean (`send`, `receive`, `receiveFrame`, `decodeReply`, `dispatchError`) on
  the bufio/network model of lean/Varlink/Frame.lean.
-/
import Varlink.Client
import Varlink.Extracted.Wire
import VarlinkProofs.Lemmas.Frame
import VarlinkProofs.Lemmas.Wire
import Varlink.Extracted.Code
import Varlink.ExpectedCode
namespace Varlink.C11
open Varlink

/-! ### Send: flag validation before anything is written, and the flags that are sent -/

/-- what `Send` wrote: nothing unless the result is `written` -/
def SendRes.bytesWritten : SendRes → Bytes
  | .written frame => render frame ++ [0]
  | _ => []

/-- **Forbidden combinations are refused before anything is written** (6 of the 16 flag sets:
    more+oneway, more+upgrade, with or without the others). -/
theorem forbidden_flags_refused_before_write (method : Bytes) (p : Payload) (f : Flags)
    (h : (f.more = true ∧ f.oneway = true) ∨ (f.more = true ∧ f.upgrade = true)) :
    (send method p f = .refusedOneway ∨ send method p f = .refusedMore) ∧
    SendRes.bytesWritten (send method p f) = [] := by
  unfold send
  rcases h with ⟨hm, ho⟩ | ⟨hm, hu⟩
  · simp [hm, ho, SendRes.bytesWritten]
  · by_cases ho : f.oneway = true
    · simp [hm, ho, SendRes.bytesWritten]
    · simp [hm, ho, hu, SendRes.bytesWritten]

/-- exactly those combinations are refused -/
theorem refused_iff (method : Bytes) (v : JVal) (f : Flags) :
    (∃ frame, send method (.val v) f = .written frame) ↔
      ¬ ((f.more = true ∧ f.oneway = true) ∨ (f.more = true ∧ f.upgrade = true)) := by
  unfold send
  cases hm : f.more <;> cases ho : f.oneway <;> cases hu : f.upgrade <;> simp

/-- **The flags that are sent are exactly the ones requested** (`Continues` is not a call flag and is
    ignored): decoding the written object as the service does yields the requested method, parameters
    and the three flags, for each of the other 10 flag sets. -/
theorem sent_flags_exact (method : Bytes) (v : JVal) (f : Flags) (hv : v ≠ .null)
    (hok : ¬ ((f.more = true ∧ f.oneway = true) ∨ (f.more = true ∧ f.upgrade = true))) :
    ∃ ms, send method (.val v) f = .written (.obj ms) ∧
      applyMembers {} ms = some { method := method, params := some v, more := f.more,
                                  oneway := f.oneway, upgrade := f.upgrade } := by
  obtain ⟨ms, h1, h2⟩ := applyMembers_callObj method (some v) (by simpa using hv) f.more f.oneway f.upgrade
  refine ⟨ms, ?_, h2⟩
  unfold send
  cases hm : f.more <;> cases ho : f.oneway <;> cases hu : f.upgrade <;> simp_all

/-- a call without parameters sends no `parameters` member at all -/
theorem sent_without_parameters (method : Bytes) (f : Flags)
    (hok : ¬ ((f.more = true ∧ f.oneway = true) ∨ (f.more = true ∧ f.upgrade = true))) :
    ∃ ms, send method .absent f = .written (.obj ms) ∧
      applyMembers {} ms = some { method := method, params := none, more := f.more,
                                  oneway := f.oneway, upgrade := f.upgrade } := by
  obtain ⟨ms, h1, h2⟩ := applyMembers_callObj method none (by simp) f.more f.oneway f.upgrade
  refine ⟨ms, ?_, h2⟩
  unfold send
  cases hm : f.more <;> cases ho : f.oneway <;> cases hu : f.upgrade <;> simp_all

/-- a value `json.Marshal` rejects: error, nothing written -/
theorem unencodable_parameters_write_nothing (method : Bytes) (f : Flags) :
    SendRes.bytesWritten (send method .bad f) = [] := by
  unfold send
  cases f.more <;> cases f.oneway <;> cases f.upgrade <;> simp [SendRes.bytesWritten]

/-- the flag bits of the API are the ones the model's `Flags.ofNat` decodes (tie to connection.go) -/
theorem flag_bits_match_source :
    Varlink.Extracted.flagBits = [("Continues", flagContinues), ("More", flagMore), ("Oneway", flagOneway), ("Upgrade", flagUpgrade)] := by
  decide

/-! ### receive: exactly the next complete frame, or a clean failure -/

/-- **No success on a partial frame**: if the stream ends before a NUL, `receive` reports the
    unexpected-EOF error, whatever arrived and however it was segmented. -/
theorem receive_no_success_on_partial (cap : Nat) (hcap : cap > 0) (b : Bufio) (net : Net)
    (h : (0 : UInt8) ∉ pending b net) : (receive cap b net).1 = .unexpectedEOF := by
  unfold receive
  have hc := (cutAt_none_iff 0 (pending b net)).mpr h
  have := (readBytes_spec cap hcap 0 (readFuel b net) [] b net (readFuel_enough b net)).2 hc
  rw [this]

/-- **Exactly the next frame**: when the pending stream is `frame ++ NUL ++ rest`, `receive` decodes
    `frame` (and nothing else) and leaves exactly `rest` pending, for every segmentation and buffer
    state. -/
theorem receive_next_frame_exact (cap : Nat) (hcap : cap > 0) (b : Bufio) (net : Net)
    (frame rest : Bytes) (hf : (0 : UInt8) ∉ frame) (hp : pending b net = frame ++ 0 :: rest) :
    (receive cap b net).1 = receiveFrame frame ∧
    pending (receive cap b net).2.1 (receive cap b net).2.2 = rest := by
  unfold receive
  have hc : cutAt 0 (pending b net) = some (frame, rest) := by rw [hp]; exact cutAt_of_split 0 frame rest hf
  obtain ⟨b', net', h1, h2⟩ :=
    (readBytes_spec cap hcap 0 (readFuel b net) [] b net (readFuel_enough b net)).1 frame rest hc
  rw [h1]
  simp [h2]

/-- **Any number of frames, any segmentation**: if the pending stream starts with `k` complete frames
    (each without a NUL inside), `k` successive `receive` calls return exactly the decodings of those
    frames, in order — whatever the frames contain (replies, error frames, garbage) and however the bytes
    arrive — and leave exactly the rest pending. -/
theorem receiveN_exact (cap : Nat) (hcap : cap > 0) :
    ∀ (frames : List Bytes), (∀ f ∈ frames, (0 : UInt8) ∉ f) →
    ∀ (b : Bufio) (net : Net) (rest : Bytes),
      pending b net = (frames.map fun f => f ++ [0]).flatten ++ rest →
      receiveN cap frames.length b net = frames.map receiveFrame := by
  intro frames
  induction frames with
  | nil => intro _ b net rest _; simp [receiveN]
  | cons f fs ih =>
    intro hall b net rest hp
    have hf := hall f (by simp)
    have hp' : pending b net = f ++ 0 :: ((fs.map fun g => g ++ [0]).flatten ++ rest) := by
      rw [hp]; simp [List.append_assoc]
    obtain ⟨h1, h2⟩ := receive_next_frame_exact cap hcap b net f _ hf hp'
    have hrec := ih (fun g hg => hall g (by simp [hg])) (receive cap b net).2.1 (receive cap b net).2.2 rest h2
    simp only [List.length_cons, receiveN, List.map_cons]
    rw [h1, hrec]

/-- the bare literal `null` counts as an empty reply -/
def isEmptyReply : RecvResult → Bool
  | .reply none false => true
  | _ => false

def isDecodeError : RecvResult → Bool
  | .decodeError => true
  | _ => false

def isReplyWith (p : JVal) (c : Bool) : RecvResult → Bool
  | .reply (some q) c' => q == p && c == c'
  | _ => false

theorem receive_null_is_empty_reply : isEmptyReply (receiveFrame (str "null")) = true := by decide

/-- a frame that is not valid JSON, or not an object of the reply's shape, is an error — never a reply -/
theorem receive_undecodable_is_error (frame : Bytes) (h : decodeReply frame = none) :
    receiveFrame frame = .decodeError := by
  simp [receiveFrame, h]

/-- an error frame yields the remote error (through `DispatchError`), never the parameters as a success -/
theorem receive_error_frame (frame : Bytes) (r : ReplyIn) (h : decodeReply frame = some r)
    (he : r.error ≠ []) : receiveFrame frame = dispatchError r.error r.params := by
  simp [receiveFrame, h, he]

/-- a reply frame yields exactly its parameters and continues flag -/
theorem receive_reply_frame (frame : Bytes) (r : ReplyIn) (h : decodeReply frame = some r)
    (he : r.error = []) : receiveFrame frame = .reply r.params r.continues := by
  simp [receiveFrame, h, he]

/-- `DispatchError` never turns an error into a success -/
theorem dispatchError_is_error (name : Bytes) (p : Option JVal) :
    ∀ q c, dispatchError name p ≠ .reply q c := by
  intro q c
  unfold dispatchError
  simp only []
  repeat' split
  all_goals (first | (intro h; cases h) | skip)

/-! ### non-vacuity (kernel `decide` can run the JSON model only on the tiniest documents; everything
     larger is exercised through the compiled driver on every check) -/

example : (0 : UInt8) ∉ pending { buf := str "{\"par" } [str "ameters\":{}"] := by decide
example : isDecodeError (receiveFrame (str "[1]")) = true := by decide
example : (decodeReply (str "null")).isSome = true := by decide
example : (applyReplyMembers {} (.cons (str "continues") (.bool true) .nil)).map (·.continues) = some true := by decide

/-- **Tie to the source**: the declarations of /repo that this property's model transliterates
    (`Extracted.codeNames_C11`) have, in the current working tree, exactly the fingerprints of the code the
    model was validated against. Any change to them breaks this obligation; the check then searches the
    correspondence streams for an input on which the changed code violates the property. -/
theorem modelled_code_unchanged : Varlink.Extracted.code_C11 = Varlink.ExpectedCode.code_C11 := by decide

/-- no declaration (function, method, type, constant, variable) has been added to or removed from the
    fingerprinted source files since the models were validated: a new method or `init` can change behaviour
    without touching the text of any existing declaration -/
theorem declarations_known : Varlink.Extracted.declarationSet = Varlink.ExpectedCode.declarationSet := by decide

end Varlink.C11
